/-
  Helper lemmas for C09 `settles`: "converters are attached to reference-free tags only" is an invariant.
-/
import Pk.Proofs.MgrTerminationStep
import Pk.Proofs.MgrReachGraph
namespace Pk.Proofs.MgrTermination
open Pk.Mgr Pk.Proofs.MgrTags

def OK3 (t : Tag) : Prop := t.convs ≠ [] → t.mainT = [] ∧ t.subT = []
def CP (L : List (String × Tag)) : Prop := ∀ n t, sget L n = some t → OK3 t

theorem convPlain_iff (s : St) : ConvPlain s ↔ CP s.tags := Iff.rfl

theorem cp_sins {L} (h : CP L) (n : String) (t : Tag) (ht : OK3 t) : CP (sins n t L) := by
  intro k v hk
  rw [sget_sins] at hk
  split at hk
  · cases hk; exact ht
  · exact h k v hk

theorem cp_sdel {L} (h : CP L) (n : String) : CP (sdel L n) := by
  intro k v hk
  rw [sget_sdel] at hk
  split at hk
  · cases hk
  · exact h k v hk

theorem cp_map {L} (f : String → Tag → Tag) (hf : ∀ k t, OK3 t → OK3 (f k t)) (h : CP L) :
    CP (L.map fun p => (p.1, f p.1 p.2)) := by
  intro k v hk
  rw [sget_map] at hk
  cases hg : sget L k with
  | none => rw [hg] at hk; cases hk
  | some t => rw [hg] at hk; cases hk; exact hf k t (h k t hg)

theorem cp_inherit (s : St) (h : CP s.tags) : CP (inherit s).tags := by
  obtain ⟨res, h', _⟩ := inheritLoop_inv s.all (fun acc => CP acc.1) (by
    intro acc nt hacc
    unfold passStep
    split
    · exact hacc
    · split
      · exact hacc
      · rename_i t ht
        split
        · apply cp_sins hacc
          have h1 := MgrConv.inheritOne_convs s.all acc.1 t
          have h2 := inheritOne_refs s.all acc.1 t
          intro hc
          rw [h2.1, h2.2]
          exact hacc _ t ht (by rw [← h1.1]; exact hc)
        · exact hacc) (s.tags.length + 1) s.tags [] h
  exact h'

theorem cp_foldl {β} (f : St → β → St) (hf : ∀ s x, CP s.tags → CP (f s x).tags) (l : List β) (s : St)
    (h : CP s.tags) : CP (l.foldl f s).tags := by
  induction l generalizing s with
  | nil => exact h
  | cons a l ih => exact ih _ (hf s a h)

theorem cp_invalidateTags (s : St) (u r a : IdSet) (h : CP s.tags) : CP (invalidateTags s u r a).tags := by
  rw [invalidateTags_eq]
  apply cp_inherit
  apply cp_map (fun _ t => invF s.all u r a t) _ h
  intro k t ht
  have : (invF s.all u r a t).convs = t.convs ∧ (invF s.all u r a t).mainT = t.mainT ∧
      (invF s.all u r a t).subT = t.subT := by
    unfold invF
    split
    · exact ⟨rfl, rfl, rfl⟩
    · split
      · split <;> exact ⟨rfl, rfl, rfl⟩
      · exact ⟨rfl, rfl, rfl⟩
  intro hc
  rw [this.2.1, this.2.2]
  exact ht (by rw [← this.1]; exact hc)

theorem cp_addRefBy (s : St) (a b : String) (h : CP s.tags) : CP (addRefBy s a b).tags := by
  unfold addRefBy
  split
  · next t ht => exact cp_sins h _ _ (h a t ht)
  · exact h

theorem cp_delRefBy (s : St) (a b : String) (h : CP s.tags) : CP (delRefBy s a b).tags := by
  unfold delRefBy
  split
  · next t ht => exact cp_sins h _ _ (h a t ht)
  · exact h

theorem cp_attachConv (s : St) (n c : String) (h : CP s.tags) : CP (attachConv s n c).1.tags := by
  unfold attachConv
  split
  · exact h
  · next t ht =>
    split
    · exact h
    · split
      · exact h
      · rename_i hcond
        apply cp_sins h
        intro _
        simp only [Bool.or_eq_true, not_or, Bool.not_eq_true', List.isEmpty_eq_false_iff,
          Decidable.not_not] at hcond
        simp only [Bool.not_eq_true] at hcond
        exact ⟨hcond.1.2, hcond.2⟩

/-- `outputDropped` keeps `convs`, `mainT`, `subT` of every tag -- CHANGED (dropped): new -/
theorem cp_outputDropped (s : St) (choice : Option String) (h : CP s.tags) : CP (outputDropped s choice).tags := by
  rw [outputDropped_eq]
  split
  · rw [MgrSettle.startTagging_tags, MgrSettle.invalidatedDuringTaggingJob_tags]
    apply cp_inherit
    apply cp_map (fun _ t => odF s.all t) _ h
    intro k t ht
    unfold odF
    split
    · exact ht
    · exact ht
  · exact h

-- CHANGED (dropped): `detachConv` takes the tagging choice and may run `outputDropped`
theorem cp_detachConv (s : St) (n c : String) (choice : Option String) (h : CP s.tags) :
    CP (detachConv s n c choice).tags := by
  unfold detachConv
  split
  · exact h
  · next t ht =>
    have h1 : CP (setTag s n { t with convs := t.convs.filter (· != c) }).tags := by
      apply cp_sins h
      intro hc
      apply h n t ht
      intro e; rw [e] at hc; exact hc rfl
    dsimp only
    split
    · exact cp_outputDropped _ _ h1
    · exact h1

theorem cp_markUpdate (s : St) (name : String) (a d : List Nat) (h : CP s.tags) :
    CP (markUpdate s name a d).1.tags := by
  rw [markUpdate_eq]
  split
  · exact h
  · next t ht =>
    dsimp only
    have e1 : (muAdd t s a).1.convs = t.convs ∧ (muAdd t s a).1.mainT = t.mainT ∧ (muAdd t s a).1.subT = t.subT := by
      unfold muAdd
      split
      · exact ⟨rfl, rfl, rfl⟩
      · dsimp only; split <;> exact ⟨rfl, rfl, rfl⟩
    have e2 : ∀ t0 : Tag, (muDel t0 d).convs = t0.convs ∧ (muDel t0 d).mainT = t0.mainT ∧ (muDel t0 d).subT = t0.subT := by
      intro t0
      unfold muDel
      split
      · exact ⟨rfl, rfl, rfl⟩
      · dsimp only; split <;> exact ⟨rfl, rfl, rfl⟩
    have h0 : CP (muAdd t s a).2.tags := by rw [(muAdd_same t s a).1]; exact h
    have h1 : CP (setTag (muAdd t s a).2 name (muDel (muAdd t s a).1 d)).tags := by
      apply cp_sins h0
      intro hc
      rw [(e2 _).2.1, (e2 _).2.2, e1.2.1, e1.2.2]
      exact h name t ht (by rw [← e1.1, ← (e2 _).1]; exact hc)
    have h2 := cp_inherit _ h1
    have h3 : CP (invalidatedDuringTaggingJob (inherit (setTag (muAdd t s a).2 name (muDel (muAdd t s a).1 d)))
        (muDel (muAdd t s a).1 d).unc).tags := by
      rw [MgrSettle.invalidatedDuringTaggingJob_tags]; exact h2
    unfold muFin
    split
    · next t' ht' => exact cp_sins h3 _ _ (h3 name t' ht')
    · exact h3

theorem cp_cdMark (s : St) (p : String × IdSet) (h : CP s.tags) : CP (cdMark s p).tags := by
  unfold cdMark
  split
  · exact h
  · apply cp_map (fun _ t => cdF s.all p.2 t) _ h
    intro k t ht
    unfold cdF
    split
    · split
      · exact ht
      · exact ht
    · split
      · exact ht
      · exact ht

theorem cp_jobTail (X : St) (st : Started) (h : CP X.tags) : CP (jobTail X st).tags := by
  unfold jobTail
  rw [MgrSettle.startMerge_tags, MgrSettle.startConverter_tags, MgrSettle.startTagging_tags]
  exact h

/-- the invariant is preserved by every transition -/
theorem cp_step (s : St) (e : Ev) (st : Started)
    (hf : ∀ n snap held ot, s.jTag = some (n, snap, held) → sget s.tags n = some ot → ot.defn = snap.defn →
      ot.mainT = snap.mainT ∧ ot.subT = snap.subT)
    (h : CP s.tags) : CP (step s e st).1.tags := by
  cases e with
  | nop => exact h
  | importPcaps names =>
    unfold step
    simp only []
    split
    · exact h
    · split
      · exact h
      · exact h
  | viewOpen k =>
    unfold step
    simp only []
    split
    · exact h
    · exact h
  | viewRelease k =>
    unfold step
    simp only []
    split
    · exact h
    · rw [MgrSettle.release_tags]; exact h
  | updColor name color =>
    unfold step
    simp only []
    split
    · exact h
    · next t ht =>
      split
      · exact h
      · exact cp_sins h _ _ (h name t ht)
  | mergeDone merged =>
    rw [step_mergeDone_eq]
    split
    · exact h
    · next off held _ =>
      dsimp only
      rw [MgrSettle.release_tags, MgrSettle.startMerge_tags]
      show CP (mdApply { s with jMerge := none } off held merged).tags
      rw [(mdApply_same _ _ _ _).1]; exact h
  | convertDone =>
    rw [step_convertDone_eq]
    split
    · exact h
    · dsimp only
      rw [MgrSettle.release_tags, MgrSettle.startConverter_tags, MgrSettle.startTagging_tags]
      apply cp_inherit
      exact cp_foldl _ (fun s p hs => cp_cdMark s p hs) _ _ h
  | importDone p u c a b d =>
    rw [step_importDone_eq]
    split
    · exact h
    · next jnext held _ =>
      dsimp only
      apply cp_jobTail
      have h1 : CP (release { s with all := jnext + u, jImport := none } held).tags := by
        rw [MgrSettle.release_tags]; exact h
      have h2 : CP (idApply (release { s with all := jnext + u, jImport := none } held) (jnext + u) c
          (ofList a) (ofList b) (ofList d)).tags := by
        unfold idApply
        split
        · exact h1
        · rw [MgrSettle.invalidateConverters_tags, MgrSettle.invalidateConverters_tags]
          exact cp_invalidateTags _ _ _ _ h1
      unfold idQueue
      split
      · exact h2
      · exact h2
  | tagDone name result =>
    rw [step_tagDone_eq]
    split
    · exact h
    · next jn snap held hj =>
      split
      · exact h
      · next hne =>
        have hjn : jn = name := by simpa using hne
        subst hjn
        dsimp only
        rw [MgrSettle.release_tags]
        apply cp_jobTail
        show CP (tdPublish { s with jTag := none } jn snap (ofList result)).tags
        unfold tdPublish
        split
        · next ot hot =>
          split
          · next hd =>
            have hdg : ot.defn = snap.defn ∧ ot.gen = snap.gen := by simpa using hd
            have hd' : ot.defn = snap.defn := hdg.1
            have hsf := hf jn snap held ot hj hot hd'
            have h1 : CP (setTag (qConv { s with jTag := none } (tdTag snap ot (ofList result)).convs
                (tdTag snap ot (ofList result)).mat) jn (tdTag snap ot (ofList result))).tags := by
              simp only [setTag]
              rw [(qConv_same _ _ _).1]
              apply cp_sins h
              intro hc
              have := h jn ot hot hc
              exact ⟨hsf.1 ▸ this.1, hsf.2 ▸ this.2⟩
            unfold tdInval
            split
            · exact h1
            · exact cp_invalidateTags _ _ _ _ h1
          · exact h
        · exact h
  | updConv name convs =>
    rw [step_updConv_eq]
    split
    · exact h
    · split
      · exact h
      · dsimp only
        rw [MgrSettle.startConverter_tags]
        unfold ucAttach ucDetach
        apply cp_foldl _ (fun s c hs => cp_attachConv s name c hs)
        exact cp_foldl _ (fun s c hs => cp_detachConv s name c st.tag hs) _ _ h
  | markAdd name ids =>
    rw [step_markAdd_eq]
    split
    · exact h
    · split
      · exact h
      · split
        · exact h
        · split
          · exact h
          · unfold markTail
            dsimp only
            rw [MgrSettle.startConverter_tags, MgrSettle.startTagging_tags]
            exact cp_markUpdate s name ids [] h
  | markDel name ids =>
    rw [step_markDel_eq]
    split
    · exact h
    · split
      · exact h
      · split
        · exact h
        · split
          · exact h
          · unfold markTail
            dsimp only
            rw [MgrSettle.startConverter_tags, MgrSettle.startTagging_tags]
            exact cp_markUpdate s name [] ids h
  | delTag name =>
    rw [step_delTag_eq]
    split
    · exact h
    · next t hg =>
      split
      · exact h
      · unfold dtApply
        dsimp only
        apply cp_foldl _ (fun s r hs => cp_delRefBy s r name hs)
        apply cp_sdel
        exact cp_foldl _ (fun s c hs => cp_detachConv s name c st.tag hs) _ _ h
  | updName name new =>
    rw [step_updName_eq]
    split
    · exact h
    · next t hg =>
      split
      · exact h
      · split
        · exact h
        · split
          · exact h
          · split
            · exact h
            · split
              · exact h
              · unfold unApply
                dsimp only
                apply cp_foldl _ (fun s r hs => cp_addRefBy _ r new (cp_delRefBy s r name hs))
                exact cp_sins (cp_sdel h name) new t (h name t hg)
  | addTag name color defn f =>
    rw [step_addTag_eq]
    split
    rename_i typ sub isMark _
    split
    · exact h
    · split
      · exact h
      · split
        · exact h
        · split
          · exact h
          · split
            · exact h
            · split
              · exact h
              · dsimp only
                have hp1 : (atPair s (atTagG s.ngen color defn f isMark) f isMark).1 = s := by
                  unfold atPair; split <;> rfl
                have hp2 : (atPair s (atTagG s.ngen color defn f isMark) f isMark).2.convs = [] := by
                  unfold atPair; split <;> rfl
                rw [hp1]
                unfold atFinish
                apply cp_foldl _ (fun s r hs => cp_addRefBy s r name hs)
                have hb : CP (setTag { s with ngen := s.ngen + 1 } name
                    (atPair s (atTagG s.ngen color defn f isMark) f isMark).2).tags :=
                  cp_sins h _ _ (fun hc => absurd hp2 hc)
                split
                · exact hb
                · rw [MgrSettle.startTagging_tags]; exact hb
  | updQuery name defn f =>
    rw [step_updQuery_eq]
    split
    · exact h
    · split
      · exact h
      · split
        · exact h
        · split
          · exact h
          · next t hg =>
            split
            · exact h
            · split
              · exact h
              · split
                · exact h
                · rename_i hguard
                  dsimp only
                  unfold uqApply
                  rw [MgrSettle.startConverter_tags, MgrSettle.startTagging_tags]
                  unfold uqInv
                  rw [MgrSettle.invalidatedDuringTaggingJob_tags]
                  apply cp_inherit
                  have hA : CP (uqRefs s name t.refs (uqTag2 (uqTag defn f) t s.all).refs).tags := by
                    unfold uqRefs
                    apply cp_foldl _ (fun s r hs => cp_addRefBy s r name hs)
                    exact cp_foldl _ (fun s r hs => cp_delRefBy s r name hs) _ _ h
                  apply cp_sins hA
                  intro hc
                  have hc' : t.convs ≠ [] := hc
                  simp only [Bool.and_eq_true, Bool.not_eq_true', List.isEmpty_eq_false_iff, Bool.or_eq_true,
                    not_and, not_or] at hguard
                  have := hguard hc'
                  exact ⟨Classical.not_not.mp this.1.2, Classical.not_not.mp this.2⟩

end Pk.Proofs.MgrTermination
