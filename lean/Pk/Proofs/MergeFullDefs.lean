/-
  Vocabulary of the full C07 statement (`MergeViewEq'`): the pieces of a stream as they sit in an index
  file (`Comp`), where a stream record points to them (`Located`), what the reader accessors make of them
  (`compView`), and the well-formedness conditions on readers and writers.  Definitions only.
-/
import Pk.Model.Merge
import Pk.Proofs.MergeHosts
import Pk.Proofs.MergeStreams
import Pk.Proofs.MergeStreams2
import Pk.Proofs.IndexFormatHostsRoundtrip

namespace Pk.Index
open Pk Pk.Bytes

/-! ## packet records of one stream -/

/-- the has-next chain at the head of a record list: the records up to and including the first one whose
    `flagsPacketHasNext` bit is clear (`none`: the list ends before) -/
def chainOf : List PacketRec → Option (List PacketRec)
  | [] => none
  | p :: ps => if p.flags % 2 = 0 then some [p] else (chainOf ps).map (p :: ·)

/-- `AddIndex` rewrites the import id of a copied record -/
def reimp (remap : List Nat) (p : PacketRec) : PacketRec := { p with imp := remap.getD p.imp 0 }

/-- following a skip counter from a record that has a successor lands on a record of the list -/
def SkipsOk : List PacketRec → Prop
  | [] => True
  | p :: ps => (p.flags % 2 = 1 → p.skip < ps.length) ∧ SkipsOk ps

/-! ## segmentation of one stream -/

/-- `pre` is exactly a run of segmentation varints that accounts for `count` payload bytes -/
def SegCovers (count : Nat) (pre : Bytes) : Prop := ∃ fuel, copySeg fuel count pre = .ok pre

/-! ## the pieces of a stream -/

structure Comp where
  client : Bytes
  server : Bytes
  chain : List PacketRec   -- its packet records
  c : Bytes                -- client payload followed by server payload
  seg : Bytes              -- segmentation varints

def Comp.Ok (k : Comp) (s : StreamRec) : Prop :=
  SkipsOk k.chain ∧ SegCovers (s.cb + s.sb) k.seg ∧ s.cb + s.sb < 2 ^ 64

/-- the record `s` resolves, in the tables given, to the pieces `k` -/
def Located (nimports : Nat) (packets : List PacketRec) (data : Bytes) (rgs : List RHostGroup)
    (s : StreamRec) (k : Comp) : Prop :=
  (∃ g, rgs[s.hg]? = some g ∧ g.hostSize * s.ch + g.hostSize ≤ g.hosts.length ∧
        g.hostSize * s.sh + g.hostSize ≤ g.hosts.length ∧ g.get s.ch = k.client ∧ g.get s.sh = k.server) ∧
  chainOf (packets.drop s.pstart) = some k.chain ∧ (∀ p ∈ k.chain, p.imp < nimports) ∧
  (∃ rest, data.drop s.dataStart = k.c ++ k.seg ++ rest) ∧ k.c.length = s.cb + s.sb

def expWraps (s : StreamRec) : Int := (i64 (sub64 s.last s.first) + 1000).tdiv wrapNs

/-- `Stream.Data` on the pieces -/
def dataOf (fp ew : Int) (cb sb : Nat) (k : Comp) : Except Fail (List DataOut) :=
  match dataWalk (k.chain.length + 1)
      { refTime := fp, expectWraps := ew, lastRel := 0, prevTs := 0, prevDir := 0, pt0 := [], pt1 := [] } k.chain with
  | .error e => .error e
  | .ok st => dataRuns (k.seg.length + 1) 0 (k.c.take cb) ((k.c.drop cb).take sb) k.seg st.pt0.reverse st.pt1.reverse

/-- what the reader accessors return for a stream with pieces `k`, absolute first/last packet time `fp`/`lp`
    and wrap budget `ew` -/
def compView (imports : List (Bytes × Nat)) (fp lp ew : Int) (s : StreamRec) (k : Comp) : StreamView :=
  { client := k.client, cport := s.cp, server := k.server, sport := s.sp, proto := protoName s.flags,
    first := fp, last := lp, cb := s.cb, sb := s.sb,
    packets := packetsWalk imports fp none 0 k.chain, data := dataOf fp ew s.cb s.sb k }

/-! ## well-formedness -/

/-- relative times are uint64 and the absolute times are non-negative int64 nanoseconds -/
def TimeOk (ref : Nat) (s : StreamRec) : Prop :=
  s.first < 2 ^ 64 ∧ s.last < 2 ^ 64 ∧
  0 ≤ (ref : Int) * 1000000000 + i64 s.first ∧ (ref : Int) * 1000000000 + i64 s.first < 2 ^ 63 ∧
  0 ≤ (ref : Int) * 1000000000 + i64 s.last ∧ (ref : Int) * 1000000000 + i64 s.last < 2 ^ 63

def NoNul (ks : List ImportKey) : Prop := ∀ k ∈ ks, (0 : UInt8) ∉ k.1

/-- well-formedness of an index file as `AddIndex` and the accessors rely on it -/
structure Reader.WF (r : Reader) : Prop where
  /-- host groups: 4- or 16-byte hosts, `hostCount` of them, at least one, at most 65 536 bytes -/
  hosts : r.HostsInv
  /-- `minStreamID`/`maxStreamID` of the lookup bracket the ids of the file -/
  idRange : ∀ s ∈ r.f.streams, r.idMin ≤ s.id ∧ s.id ≤ r.idMax
  /-- the import table lists every (file name, offset) once, names are C strings -/
  importsNodup : r.imports.Nodup
  importsNoNul : NoNul r.imports
  /-- stream times are of this era (uint64 relative times; absolute times int64 nanoseconds, not before 1970) -/
  times : ∀ s ∈ r.f.streams, TimeOk r.f.ref s
  /-- payload sizes are uint64 -/
  sizes : ∀ s ∈ r.f.streams, s.cb + s.sb < 2 ^ 64
  /-- skip counters stay inside the packet records of their stream -/
  skips : ∀ s ∈ r.f.streams, ∀ c, chainOf (r.f.packets.drop s.pstart) = some c → SkipsOk c

/-- the file is within the capacity limits of the format (u32 packet and import ids, u16 host group ids) -/
structure Reader.Fits (r : Reader) : Prop where
  packets : r.f.packets.length ≤ 2 ^ 32
  imports : r.imports.length ≤ 2 ^ 32
  groups : r.hostGroups.length ≤ 65536

structure Writer.Fits (w : Writer) : Prop where
  packets : w.packets.length ≤ 2 ^ 32
  imports : w.imports.length ≤ 2 ^ 32
  groups : w.hostGroups.length ≤ 65536

/-- invariant of a writer -/
structure WInv (w : Writer) : Prop where
  groups : GroupsInv w.hostGroups
  dataLen : w.dataLen = w.blobs.flatten.length
  importsNodup : w.imports.Nodup
  importsNoNul : NoNul w.imports
  ref : w.ref * 1000000000 < 2 ^ 63
  streams : ∀ s ∈ w.streams, TimeOk w.ref s ∧
    ∃ k, Located w.imports.length w.packets w.blobs.flatten (w.hostGroups.map HostGroup.toReader) s k ∧ k.Ok s

end Pk.Index
