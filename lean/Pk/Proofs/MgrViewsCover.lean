/-
  C10 helper lemmas: coverage of stream ids by the served files is preserved by frame steps, by
  releases of files that somebody else still holds, by an import and by a merge.
-/
import Pk.Proofs.MgrViewsStep
import Pk.Props.C13
namespace Pk.Proofs.MgrViews
open Pk.Mgr

/-- every stream id below `next` is stored in some served file (= `C10.Covered`) -/
def Cov (s : St) : Prop := ∀ id, id < s.next → ∃ f ∈ s.idx, id ∈ (nget s.files f).getD []

theorem cov_frame {s s' : St} (h : Frame s s') (hc : Cov s) : Cov s' := by
  intro id hid
  rw [h.next] at hid
  obtain ⟨f, hf, hm⟩ := hc id hid
  exact ⟨f, by rw [h.idx]; exact hf, by rw [h.files]; exact hm⟩

theorem cov_release {m : St} (held : List Nat) (hc : Cov m)
    (hu : ∀ f ∈ m.idx, held.count f < (nget m.used f).getD 0) : Cov (release m held) := by
  intro id hid
  rw [release_next] at hid
  obtain ⟨f, hf, hm⟩ := hc id hid
  exact ⟨f, by rw [release_idx]; exact hf, by rw [release_files _ _ _ (hu f hf)]; exact hm⟩

theorem cov_frame_release {s mid : St} (held : List Nat) (h : Frame s mid) (hc : Cov s)
    (hu : ∀ f ∈ s.idx, held.count f < (nget s.used f).getD 0) : Cov (release mid held) := by
  refine cov_release held (cov_frame h hc) (fun f hf => ?_)
  rw [h.idx] at hf
  exact Nat.lt_of_lt_of_le (hu f hf) (h.used f)

/-- lock counts dominate "service list + this holder" -/
def Holds (s : St) (held : List Nat) : Prop :=
  ∀ f, s.idx.count f + held.count f ≤ (nget s.used f).getD 0

theorem Holds.lt {s : St} {held : List Nat} (h : Holds s held) :
    ∀ f ∈ s.idx, held.count f < (nget s.used f).getD 0 := by
  intro f hf
  have := h f
  have : 0 < s.idx.count f := List.count_pos_iff.mpr hf
  omega

/-! ### tables after inserting a list of new files -/
theorem nget_foldl_nins_of_not_mem (cr : List (Nat × List Nat)) (files : List (Nat × List Nat)) (f : Nat)
    (hf : f ∉ cr.map (·.1)) :
    nget (cr.foldl (fun fs (x : Nat × List Nat) => nins x.1 x.2 fs) files) f = nget files f := by
  induction cr generalizing files with
  | nil => rfl
  | cons c cr ih =>
    simp only [List.map_cons, List.mem_cons, not_or] at hf
    rw [List.foldl_cons, ih _ hf.2, nget_nins, if_neg hf.1]

theorem nget_foldl_nins_of_mem (cr : List (Nat × List Nat)) (files : List (Nat × List Nat))
    (hnd : (cr.map (·.1)).Nodup) (c : Nat × List Nat) (hc : c ∈ cr) :
    nget (cr.foldl (fun fs (x : Nat × List Nat) => nins x.1 x.2 fs) files) c.1 = some c.2 := by
  induction cr generalizing files with
  | nil => cases hc
  | cons d cr ih =>
    simp only [List.map_cons, List.nodup_cons] at hnd
    rw [List.foldl_cons]
    rcases List.mem_cons.mp hc with h | h
    · subst h
      rw [nget_foldl_nins_of_not_mem _ _ _ hnd.1, nget_nins, if_pos rfl]
    · exact ih _ hnd.2 h


theorem cov_importBase (s : St) (jn : Nat) (held : List Nat) (un : Nat) (cr : List (Nat × List Nat))
    (u r a : IdSet) (hc : Cov s) (hh : Holds s held)
    (hnd : (cr.map (·.1)).Nodup) (hfresh : ∀ o ∈ cr.map (·.1), nget s.files o = none)
    (hjn : jn = s.next)
    (hnew : ∀ id, jn ≤ id → id < jn + un → ∃ c ∈ cr, id ∈ c.2) :
    Cov (importBase s jn held un cr u r a) := by
  have h1 : Cov (release { s with all := jn + un, jImport := none } held) :=
    cov_release held (m := { s with all := jn + un, jImport := none }) hc hh.lt
  unfold importBase; dsimp only
  split
  · exact h1
  · rename_i hemp
    intro id hid
    dsimp only at hid
    by_cases hlt : id < s.next
    · obtain ⟨f, hf, hm⟩ := h1 id (by rw [release_next]; exact hlt)
      refine ⟨f, List.mem_append_left _ hf, ?_⟩
      dsimp only
      rw [nget_foldl_nins_of_not_mem]
      · exact hm
      · intro hmem
        have := release_files_none { s with all := jn + un, jImport := none } held f (hfresh f hmem)
        rw [this] at hm
        simp at hm
    · obtain ⟨c, hc', hm⟩ := hnew id (by omega) hid
      refine ⟨c.1, List.mem_append_right _ (List.mem_map_of_mem hc'), ?_⟩
      dsimp only
      rw [nget_foldl_nins_of_mem _ _ hnd c hc']
      exact hm

theorem split3 {α} (l : List α) (a n : Nat) :
    l = l.take a ++ ((l.drop a).take n ++ l.drop (a + n)) := by
  rw [← List.drop_drop, List.take_append_drop, List.take_append_drop]

theorem cov_mergeBase (s : St) (off : Nat) (held : List Nat) (mg : List (Nat × List Nat))
    (hc : Cov s) (hh : Holds s held)
    (hnd : (mg.map (·.1)).Nodup)
    (hfresh : ∀ o ∈ mg.map (·.1), nget s.used o = none ∧ nget s.files o = none)
    (hheld : held = (s.idx.drop off).take held.length)
    (hids : mg ≠ [] → ∀ id, (∃ f ∈ held, id ∈ (nget s.files f).getD []) → ∃ m ∈ mg, id ∈ m.2) :
    Cov (mergeBase s off held mg) ∧ Holds (mergeBase s off held mg) held := by
  unfold mergeBase; dsimp only
  split
  · exact ⟨hc, hh⟩
  · rename_i hemp
    have hne : mg ≠ [] := by intro h; simp [h] at hemp
    rw [← hheld]
    have hidx := split3 s.idx off held.length
    rw [← hheld] at hidx
    constructor
    · intro id hid
      simp only [release_next, release_idx] at hid ⊢
      obtain ⟨f, hf, hm⟩ := hc id hid
      by_cases hfh : f ∈ held
      · obtain ⟨m, hm1, hm2⟩ := hids hne id ⟨f, hfh, hm⟩
        refine ⟨m.1, ?_, ?_⟩
        · simp only [List.mem_append]
          exact Or.inl (Or.inr (List.mem_map_of_mem hm1))
        · rw [nget_foldl_nins_of_mem _ _ hnd m hm1]; exact hm2
      · refine ⟨f, ?_, ?_⟩
        · rw [hidx] at hf
          simp only [List.mem_append] at hf ⊢
          rcases hf with h | h | h
          · exact Or.inl (Or.inl h)
          · exact absurd h hfh
          · exact Or.inr h
        · have hnm : f ∉ mg.map (·.1) := by
            intro hmem
            rw [(hfresh f hmem).2] at hm; simp at hm
          rw [nget_foldl_nins_of_not_mem _ _ _ hnm, release_files]
          · exact hm
          · have := hh.lt f hf
            have h0 : held.count f = 0 := List.count_eq_zero.mpr hfh
            dsimp only; omega
    · intro f
      simp only [release_idx, lock_count, release_used]
      have h1 := hh f
      have h2 : s.idx.count f = (s.idx.take off).count f + (held.count f + (s.idx.drop (off + held.length)).count f) := by
        conv => lhs; rw [hidx]
        simp only [List.count_append]
      simp only [List.count_append]
      by_cases hmem : f ∈ mg.map (·.1)
      · have := (hfresh f hmem).1
        rw [this] at h1
        simp at h1
        have h3 : (s.idx.take off).count f = 0 := by omega
        have h4 : (s.idx.drop (off + held.length)).count f = 0 := by omega
        omega
      · have : (mg.map (·.1)).count f = 0 := List.count_eq_zero.mpr hmem
        omega

/-! ### glue with C13: the lock-count invariant makes every holder's files safe from `release` -/
open Pk.Props in
theorem holds_of_count {s : St} (hl : C13.CountInv s) (held : List Nat)
    (h : ∀ f, held.count f ≤ (C13.viewHeld s).count f + (C13.jobHeld s).count f) : Holds s held := by
  intro f
  have h1 := hl.1 f
  have h2 := h f
  unfold C13.holders at h1
  omega

open Pk.Props in
theorem holds_jImport {s : St} (hl : C13.CountInv s) {jn : Nat} {held : List Nat}
    (hj : s.jImport = some (jn, held)) : Holds s held :=
  holds_of_count hl held (fun f => by simp only [C13.jobHeld, hj, List.count_append, Option.map_some, Option.getD_some]; omega)

open Pk.Props in
theorem holds_jTag {s : St} (hl : C13.CountInv s) {jn : String} {snap : Tag} {held : List Nat}
    (hj : s.jTag = some (jn, snap, held)) : Holds s held :=
  holds_of_count hl held (fun f => by simp only [C13.jobHeld, hj, List.count_append, Option.map_some, Option.getD_some]; omega)

open Pk.Props in
theorem holds_jMerge {s : St} (hl : C13.CountInv s) {off : Nat} {held : List Nat}
    (hj : s.jMerge = some (off, held)) : Holds s held :=
  holds_of_count hl held (fun f => by simp only [C13.jobHeld, hj, List.count_append, Option.map_some, Option.getD_some]; omega)

open Pk.Props in
theorem holds_jConv {s : St} (hl : C13.CountInv s) {sets : List (String × IdSet)} {held : List Nat}
    (hj : s.jConv = some (sets, held)) : Holds s held :=
  holds_of_count hl held (fun f => by simp only [C13.jobHeld, hj, List.count_append, Option.map_some, Option.getD_some]; omega)

theorem count_le_flatMap_of_nget (views : List (Nat × List Nat)) (k : Nat) (fs : List Nat)
    (hv : nget views k = some fs) (f : Nat) : fs.count f ≤ (views.flatMap (·.2)).count f := by
  induction views with
  | nil => simp [nget_nil] at hv
  | cons a l ih =>
    rw [nget_cons] at hv
    simp only [List.flatMap_cons, List.count_append]
    split at hv
    · cases hv; omega
    · have := ih hv; omega

open Pk.Props in
theorem holds_view {s : St} (hl : C13.CountInv s) {k : Nat} {fs : List Nat}
    (hv : nget s.views k = some fs) : Holds s fs :=
  holds_of_count hl fs (fun f => by
    have := count_le_flatMap_of_nget s.views k fs hv f
    unfold C13.viewHeld; omega)

open Pk.Props in
theorem view_files_open {s : St} (hl : C13.CountInv s) {k : Nat} {fs : List Nat}
    (hv : nget s.views k = some fs) {f : Nat} (hf : f ∈ fs) : (nget s.files f).isSome = true := by
  have h1 := holds_view hl hv f
  have h2 : 0 < fs.count f := List.count_pos_iff.mpr hf
  rw [hl.2.2.1 f]
  cases h : nget s.used f with
  | none => rw [h] at h1; simp at h1; omega
  | some n => rfl
end Pk.Proofs.MgrViews
