/-
  Further lemmas for C02 (simple filters, id-range lookup) and C04 (chunk-boundary rule in conversation order).
-/
import Pk.Model.Search
import Pk.Model.DataSearch

namespace Pk.Proofs.Extra
open Pk.Search Pk.DataSearch

/-! ### C04: the offset update implements "continue behind the chunk that holds the last matched byte" -/

/-- a conversation: bursts (direction 0/1, bytes) in the order they were exchanged -/
abbrev Conv := List (Nat × Bytes)

/-- all bytes of direction `d` -/
def dirBuf : Conv → Nat → Bytes
  | [], _ => []
  | (c, b) :: rest, d => if c = d then b ++ dirBuf rest d else dirBuf rest d

/-- cumulative sizes as the data sources produce them (`bufferLengths`): leading (0,0), one entry per burst -/
def sizesFrom : Nat × Nat → Conv → ChunkSizes
  | acc, [] => [acc]
  | acc, (c, b) :: rest =>
    acc :: sizesFrom (if c = 0 then (acc.1 + b.length, acc.2) else (acc.1, acc.2 + b.length)) rest
def sizesOf (cs : Conv) : ChunkSizes := sizesFrom (0, 0) cs

/-- number of bursts up to and including the one that holds the `o`-th byte (o ≥ 1) of direction `d`
    (`cs.length` if there is no such byte) -/
def chunksThrough : Conv → Nat → Nat → Nat
  | [], _, _ => 0
  | (c, b) :: rest, d, o =>
    if c = d then (if o ≤ b.length then 1 else 1 + chunksThrough rest d (o - b.length))
    else 1 + chunksThrough rest d o

/-- well-formed conversation: directions are 0 or 1, bursts are non-empty -/
def WF (cs : Conv) : Prop := ∀ p ∈ cs, (p.1 = 0 ∨ p.1 = 1) ∧ p.2 ≠ []

/-- peeling the first entry of the size list off the backwards search -/
theorem boundary_cons (a : Nat × Nat) (bl : ChunkSizes) (d o : Nat) (i : Nat) :
    boundary (a :: bl) d o (i + 1) =
      match boundary bl d o i with
      | some v => some v
      | none => boundary (a :: bl) d o 1 := by
  induction i with
  | zero => simp [boundary]
  | succ i ih =>
    rw [boundary]
    simp only [List.getElem?_cons_succ]
    conv => rhs; rw [boundary]
    cases h1 : bl[i]? <;> cases h2 : bl[i + 1]? <;> simp only [] <;> try exact ih
    split
    · rfl
    · exact ih

theorem boundary_none (bl : ChunkSizes) (d o : Nat) (n : Nat)
    (h : ∀ p ∈ bl, o ≤ sel d p) : boundary bl d o n = none := by
  induction n with
  | zero => rfl
  | succ i ih =>
    rw [boundary]
    cases h1 : bl[i]? <;> cases h2 : bl[i + 1]? <;> simp only [] <;> try exact ih
    next prev cur =>
    have := h prev (List.mem_of_getElem? h1)
    rw [if_neg (by omega)]
    exact ih

theorem sizesFrom_head (acc : Nat × Nat) (cs : Conv) : (sizesFrom acc cs)[0]? = some acc := by
  cases cs with
  | nil => rfl
  | cons p rest => obtain ⟨c, b⟩ := p; rfl

theorem sizesFrom_mono (d : Nat) (cs : Conv) : ∀ (acc : Nat × Nat), ∀ p ∈ sizesFrom acc cs, sel d acc ≤ sel d p := by
  induction cs with
  | nil => intro acc p hp; simp [sizesFrom] at hp; subst hp; exact Nat.le_refl _
  | cons q rest ih =>
    obtain ⟨c, b⟩ := q
    intro acc p hp
    simp only [sizesFrom, List.mem_cons] at hp
    rcases hp with rfl | hp
    · exact Nat.le_refl _
    · refine Nat.le_trans ?_ (ih _ p hp)
      unfold sel
      split <;> split <;> simp

theorem boundary_main (d : Nat) (hd : d = 0 ∨ d = 1) (cs : Conv) :
    ∀ (acc : Nat × Nat) (o : Nat), WF cs → sel d acc < o → o ≤ sel d acc + (dirBuf cs d).length →
    ∃ v, boundary (sizesFrom acc cs) d o cs.length = some v ∧ sel (1 - d) acc ≤ v ∧
      (dirBuf cs (1 - d)).drop (v - sel (1 - d) acc)
        = dirBuf (cs.drop (chunksThrough cs d (o - sel d acc))) (1 - d) := by
  induction cs with
  | nil => intro acc o _ h1 h2; simp [dirBuf] at h2; omega
  | cons q rest ih =>
    obtain ⟨c, b⟩ := q
    intro acc o hwf h1 h2
    have hwf' : WF rest := fun p hp => hwf p (List.mem_cons_of_mem _ hp)
    have hc := (hwf (c, b) (List.mem_cons_self ..)).1
    simp only at hc
    simp only [sizesFrom, List.length_cons, dirBuf, chunksThrough]
    rw [boundary_cons]
    have hone : ∀ acc', boundary (acc :: sizesFrom acc' rest) d o 1 = some (sel (1 - d) acc') := by
      intro acc'
      simp [boundary, sizesFrom_head, h1]
    generalize hacc' : (if c = 0 then (acc.1 + b.length, acc.2) else (acc.1, acc.2 + b.length)) = acc'
    have e1 : c = d → sel d acc' = sel d acc + b.length ∧ sel (1 - d) acc' = sel (1 - d) acc := by
      intro h; subst hacc'; subst h
      rcases hc with rfl | rfl <;> simp [sel]
    have e2 : c ≠ d → sel d acc' = sel d acc ∧ sel (1 - d) acc' = sel (1 - d) acc + b.length ∧ c = 1 - d := by
      intro h; subst hacc'
      rcases hc with rfl | rfl <;> rcases hd with rfl | rfl <;> simp [sel] at h ⊢
    by_cases hcd : c = d
    · obtain ⟨e1a, e1b⟩ := e1 hcd
      have hcd' : c ≠ 1 - d := by omega
      simp only [if_pos hcd, if_neg hcd', dirBuf, List.length_append] at h2 ⊢
      by_cases hob : o - sel d acc ≤ b.length
      · have hnone : ∀ p ∈ sizesFrom acc' rest, o ≤ sel d p := by
          intro p hp
          have := sizesFrom_mono d rest acc' p hp
          omega
        rw [boundary_none _ _ _ _ hnone, if_pos hob]
        simp only []
        rw [hone]
        refine ⟨sel (1 - d) acc', rfl, by omega, ?_⟩
        rw [e1b]
        simp
      · obtain ⟨v, hv1, hv2, hv3⟩ := ih acc' o hwf' (by omega) (by omega)
        rw [hv1, if_neg hob]
        refine ⟨v, rfl, by omega, ?_⟩
        rw [Nat.add_comm 1, List.drop_succ_cons]
        have : o - sel d acc' = o - sel d acc - b.length := by omega
        rw [this, e1b] at hv3
        exact hv3
    · obtain ⟨e2a, e2b, e2c⟩ := e2 hcd
      simp only [if_neg hcd, if_pos e2c, dirBuf] at h2 ⊢
      obtain ⟨v, hv1, hv2, hv3⟩ := ih acc' o hwf' (by omega) (by omega)
      rw [hv1]
      refine ⟨v, rfl, by omega, ?_⟩
      rw [Nat.add_comm 1, List.drop_succ_cons]
      have : v - sel (1 - d) acc = b.length + (v - sel (1 - d) acc') := by omega
      rw [this, List.drop_length_add_append]
      rw [e2a] at hv3
      exact hv3

/-- After a match of an element of direction `d` that ends at absolute offset `o = offs[d] + e` (e ≠ 0),
    the engine's new offset for the OTHER direction points exactly at the data of the other direction that
    was exchanged after the burst holding the last matched byte; the offset of `d` is the end of the match. -/
theorem advance_matches_conversation_order' (cs : Conv) (hwf : WF cs) (d : Nat) (hd : d = 0 ∨ d = 1)
    (offs : Nat × Nat) (e : Nat) (he : e ≠ 0) (hle : sel d offs + e ≤ (dirBuf cs d).length) :
    let offs' := advance (sizesOf cs) d offs e
    sel d offs' = sel d offs + e ∧
    (dirBuf cs (1 - d)).drop (sel (1 - d) offs') = dirBuf (cs.drop (chunksThrough cs d (sel d offs + e))) (1 - d) := by
  intro offs'
  have hlen : ∀ (cs : Conv) (acc : Nat × Nat), (sizesFrom acc cs).length = cs.length + 1 := by
    intro cs
    induction cs with
    | nil => intro acc; rfl
    | cons q rest ih => obtain ⟨c, b⟩ := q; intro acc; simp [sizesFrom, ih]
  have h00 : sel d ((0, 0) : Nat × Nat) = 0 ∧ sel (1 - d) ((0, 0) : Nat × Nat) = 0 := by
    unfold sel; constructor <;> split <;> rfl
  obtain ⟨v, hv1, _, hv3⟩ := boundary_main d hd cs (0, 0) (sel d offs + e) hwf
    (by rw [h00.1]; omega) (by rw [h00.1]; omega)
  rw [h00.1, h00.2] at hv3
  simp only [Nat.sub_zero] at hv3
  have hoffs' : offs' = upd (1 - d) (upd d offs (sel d offs + e)) v := by
    show advance (sizesOf cs) d offs e = _
    unfold advance sizesOf
    rw [if_neg he]
    simp only [hlen, Nat.add_sub_cancel, hv1]
  rw [hoffs']
  obtain ⟨o0, o1⟩ := offs
  rcases hd with rfl | rfl
  · simpa [sel, upd] using hv3
  · simpa [sel, upd] using hv3

/-- an empty match at the front changes nothing -/
theorem advance_zero' (bl : ChunkSizes) (d : Nat) (offs : Nat × Nat) : advance bl d offs 0 = offs := by
  simp [advance]

/-! ### C02: number and time filters, id-range lookup -/

/-- `key:lo:hi` is encoded as two number conditions (conditions.go 722–733): `-lo + v ≥ 0` and `hi - v ≥ 0` -/
theorem filter_number_sound' (lo hi v : Int) :
    (numberFilter (-lo) [(1, v)] = true ↔ lo ≤ v) ∧ (numberFilter hi [(-1, v)] = true ↔ v ≤ hi) := by
  simp only [numberFilter, List.map, List.foldl, decide_eq_true_eq]
  constructor <;> omega

/-- the min/max pre-check of a time condition that only involves one of the two packet times
    (search.go 624–637): the filter is monotone in that time, so if it gives the same answer on the earliest
    and on the latest value of the index it gives that answer on every stream of the index -/
theorem time_precheck_monotone' (duration f refTime fileRef lo hi t other : Int)
    (hlo : lo ≤ t) (hhi : t ≤ hi)
    (hsame : timeFilter duration f 0 refTime fileRef lo other = timeFilter duration f 0 refTime fileRef hi other) :
    timeFilter duration f 0 refTime fileRef t other = timeFilter duration f 0 refTime fileRef lo other := by
  simp only [timeFilter] at hsame ⊢
  generalize duration + (f + 0) * (fileRef - refTime) = A at hsame ⊢
  have h0 : (0 : Int) * other = 0 := by simp
  rw [h0] at hsame ⊢
  rw [decide_eq_decide] at hsame ⊢
  rcases Int.le_total 0 f with hf | hf
  · have h1 := Int.mul_le_mul_of_nonneg_left hlo hf
    have h2 := Int.mul_le_mul_of_nonneg_left hhi hf
    generalize f * lo = x at *
    generalize f * t = y at *
    generalize f * hi = z at *
    omega
  · have h1 := Int.mul_le_mul_of_nonpos_left hf hlo
    have h2 := Int.mul_le_mul_of_nonpos_left hf hhi
    generalize f * lo = x at *
    generalize f * t = y at *
    generalize f * hi = z at *
    omega

/-- the id-range lookup of `buildSearchObjects` (438–451, 743–761): number conditions with the single summand
    `±id` narrow [minID, maxID]; a stream that passes all of them has its id in the range, so restricting
    the scan to the ids in the range loses no match.  `conds`: (factor, number) of every such condition. -/
def idBounds : List (Int × Int) → Int × Int → Int × Int
  | [], b => b
  | (f, n) :: rest, (lo, hi) =>
    if f = 1 then idBounds rest (if lo < -n then -n else lo, hi)
    else if f = -1 then idBounds rest (lo, if n < hi then n else hi)
    else idBounds rest (lo, hi)

theorem idrange_lookup_superset' (conds : List (Int × Int)) (lo hi id : Int)
    (hpass : ∀ c ∈ conds, numberFilter c.2 [(c.1, id)] = true) (hlo : lo ≤ id) (hhi : id ≤ hi) :
    (idBounds conds (lo, hi)).1 ≤ id ∧ id ≤ (idBounds conds (lo, hi)).2 := by
  induction conds generalizing lo hi with
  | nil => exact ⟨hlo, hhi⟩
  | cons c rest ih =>
    obtain ⟨f, n⟩ := c
    have hc := hpass (f, n) (List.mem_cons_self ..)
    have hrest : ∀ c ∈ rest, numberFilter c.2 [(c.1, id)] = true :=
      fun c hc => hpass c (List.mem_cons_of_mem _ hc)
    simp only [numberFilter, List.map, List.foldl, decide_eq_true_eq] at hc
    simp only [idBounds]
    split
    · next hf =>
      subst hf
      apply ih _ _ hrest
      · split <;> omega
      · exact hhi
    · split
      · next hf =>
        subst hf
        apply ih _ _ hrest
        · exact hlo
        · split <;> omega
      · exact ih _ _ hrest hlo hhi

end Pk.Proofs.Extra
