/-
  C15: record round trip for chunk lists with content types (`record_roundtrip_cts`), and the
  invariant of `collectCts` (`collectCts_ok`) needed for `skipCts`.
  Masks are viewed through `maskBit`; the reader computes `mapCt (assign m)` ("later entries override").
-/
import Pk.Model.CacheFile
import Pk.Proofs.CacheFile
import Pk.Proofs.CacheFileVarBytes
namespace Pk.Proofs.CacheFile
open Pk.CacheFile

def maskBit (mask : List Nat) (j : Nat) : Bool := (mask.getD (j / 8) 0).testBit (j % 8)

theorem maskBit_nil (j : Nat) : maskBit [] j = false := by simp [maskBit]

theorem byte_setBit (b r s : Nat) (hs : s < 8) :
    ((b ||| 1 <<< r) % 256).testBit s = (decide (s = r) || b.testBit s) := by
  have : (256 : Nat) = 2 ^ 8 := by decide
  rw [this, Nat.testBit_mod_two_pow, Nat.testBit_or, Nat.one_shiftLeft, Nat.testBit_two_pow]
  simp [hs, Bool.or_comm, eq_comm]

theorem setBit_getD (bm : List Nat) (i k : Nat) :
    (setBit bm i).getD k 0 = if k = i / 8 then ((bm.getD k 0) ||| 1 <<< (i % 8)) % 256 else bm.getD k 0 := by
  unfold setBit
  simp only [List.getD_eq_getElem?_getD, List.getElem?_modify, List.getElem?_append,
    List.getElem?_replicate]
  by_cases h : k = i / 8
  · subst h
    by_cases hl : i / 8 < bm.length
    · simp [hl]
    · have : i / 8 - bm.length < i / 8 + 1 - bm.length := by omega
      simp [hl, this]
  · have h' : ¬ (i / 8 = k) := fun e => h e.symm
    by_cases hl : k < bm.length
    · simp [hl, h, h']
    · simp [hl, h, h']
      split <;> simp

theorem maskBit_setBit (bm : List Nat) (i j : Nat) :
    maskBit (setBit bm i) j = (decide (j = i) || maskBit bm j) := by
  unfold maskBit
  rw [setBit_getD]
  by_cases h : j / 8 = i / 8
  · simp only [h, if_true]
    rw [byte_setBit _ _ _ (by omega)]
    congr 1
    simp only [decide_eq_decide]; omega
  · have : j ≠ i := by intro e; subst e; exact h rfl
    simp [h, this]

theorem setBit_ne_nil (bm : List Nat) (i : Nat) : setBit bm i ≠ [] := by
  intro h
  have := congrArg List.length h
  simp only [setBit, List.length_modify, List.length_append, List.length_replicate, List.length_nil] at this
  omega

theorem setBit_lt (bm : List Nat) (i : Nat) (h : ∀ b ∈ bm, b < 256) : ∀ b ∈ setBit bm i, b < 256 := by
  intro b hb
  obtain ⟨k, hk⟩ := List.getElem?_of_mem hb
  have h1 : (setBit bm i).getD k 0 = b := by simp [List.getD_eq_getElem?_getD, hk]
  rw [setBit_getD] at h1
  split at h1
  · omega
  · rw [List.getD_eq_getElem?_getD] at h1
    cases hq : bm[k]? with
    | none => simp [hq] at h1; omega
    | some x => simp [hq] at h1; subst h1; exact h _ (List.mem_of_getElem? hq)


/-! ### content types as a function of the chunk index -/

def mapCt (f : Nat → List Nat → List Nat) (data : List Chunk) : List Chunk :=
  data.mapIdx fun j c => { c with ctype := f j c.ctype }

theorem mapCt_length (f) (data : List Chunk) : (mapCt f data).length = data.length := by
  simp [mapCt]

theorem mapCt_getElem? (f) (data : List Chunk) (j : Nat) :
    (mapCt f data)[j]? = data[j]?.map fun c => { c with ctype := f j c.ctype } := by
  simp [mapCt, List.getElem?_mapIdx]

theorem mapCt_id (data : List Chunk) : mapCt (fun _ a => a) data = data := by
  apply List.ext_getElem?
  intro j
  rw [mapCt_getElem?]
  cases data[j]? <;> simp

theorem mapCt_mapCt (f g) (data : List Chunk) :
    mapCt g (mapCt f data) = mapCt (fun j a => g j (f j a)) data := by
  apply List.ext_getElem?
  intro j
  simp only [mapCt_getElem?]
  cases data[j]? <;> simp

theorem mapCt_congr (f g) (data : List Chunk) (h : ∀ j a, j < data.length → f j a = g j a) :
    mapCt f data = mapCt g data := by
  apply List.ext_getElem?
  intro j
  simp only [mapCt_getElem?]
  by_cases hj : j < data.length
  · simp [hj, h j _ hj]
  · simp [hj]

theorem applyBits_spec (ct : List Nat) : ∀ (fuel b bit : Nat) (data : List Chunk),
    b < 2 ^ fuel → (∀ k, b.testBit k = true → bit + k < data.length) →
    applyBits fuel b bit ct data
      = some (mapCt (fun i a => if bit ≤ i ∧ b.testBit (i - bit) = true then ct else a) data) := by
  intro fuel
  induction fuel with
  | zero =>
    intro b bit data hb _
    have : b = 0 := by simpa using hb
    subst this
    simp [applyBits, mapCt_id]
  | succ fuel ih =>
    intro b bit data hb hbits
    unfold applyBits
    by_cases h0 : b = 0
    · subst h0; simp [mapCt_id]
    · simp only [h0, if_false]
      have hb2 : b / 2 < 2 ^ fuel := by rw [Nat.pow_succ] at hb; omega
      by_cases h1 : b % 2 = 1
      · have hlt : bit < data.length := by
          have := hbits 0 (by simp [Nat.testBit_zero, h1])
          omega
        have hge : ¬ (bit ≥ data.length) := by omega
        simp only [h1, if_true, hge, if_false]
        rw [ih (b / 2) (bit + 1) _ hb2 (by
          intro k hk
          rw [Nat.testBit_div_two] at hk
          have := hbits (k + 1) hk
          simp only [List.length_modify]; omega)]
        congr 1
        apply List.ext_getElem?
        intro j
        simp only [mapCt_getElem?, List.getElem?_modify]
        cases hd : data[j]? with
        | none => simp
        | some c =>
          simp only [Option.map_eq_map, Option.map_some, Option.some.injEq]
          by_cases hj : bit = j
          · subst hj
            have : b.testBit 0 = true := by simp [Nat.testBit_zero, h1]
            simp [this]
          · simp only [hj, if_false]
            by_cases hj2 : bit + 1 ≤ j
            · have e : j - bit = (j - (bit + 1)) + 1 := by omega
              have hle : bit ≤ j := by omega
              simp only [hj2, hle, true_and, Nat.testBit_div_two, e]
            · have hle : ¬ bit ≤ j := by omega
              simp [hj2, hle]
      · have hbits' : ∀ k, (b / 2).testBit k = true → bit + 1 + k < data.length := by
          intro k hk
          rw [Nat.testBit_div_two] at hk
          have := hbits (k + 1) hk
          omega
        simp only [h1, if_false]
        rw [ih (b / 2) (bit + 1) _ hb2 hbits']
        congr 1
        apply mapCt_congr
        intro j a _
        by_cases hj : bit = j
        · subst hj
          have : b.testBit 0 = false := by simp [Nat.testBit_zero, h1]
          have hn : ¬ bit + 1 ≤ bit := by omega
          simp [this, hn]
        · by_cases hj2 : bit + 1 ≤ j
          · have e : j - bit = (j - (bit + 1)) + 1 := by omega
            have hle : bit ≤ j := by omega
            simp only [hj2, hle, true_and, Nat.testBit_div_two, e]
          · have hle : ¬ bit ≤ j := by omega
            simp [hj2, hle]


theorem maskBit_cons (b : Nat) (bs : List Nat) (k : Nat) :
    maskBit (b :: bs) k = if k < 8 then b.testBit k else maskBit bs (k - 8) := by
  unfold maskBit
  by_cases h : k < 8
  · have e1 : k / 8 = 0 := by omega
    have e2 : k % 8 = k := by omega
    simp [h, e1, e2]
  · obtain ⟨q, hq⟩ : ∃ q, k / 8 = q + 1 := ⟨k / 8 - 1, by omega⟩
    have e1 : (k - 8) / 8 = q := by omega
    have e2 : (k - 8) % 8 = k % 8 := by omega
    simp [h, hq, e1, e2]

theorem byte_testBit_ge (b k : Nat) (hb : b < 256) (hk : 8 ≤ k) : b.testBit k = false := by
  apply Nat.testBit_lt_two_pow
  calc b < 2 ^ 8 := hb
    _ ≤ 2 ^ k := Nat.pow_le_pow_right (by decide) hk

theorem applyMask_spec (ct : List Nat) : ∀ (mask : List Nat) (i : Nat) (data : List Chunk),
    (∀ b ∈ mask, b < 256) → (∀ k, maskBit mask k = true → i * 8 + k < data.length) →
    applyMask mask i ct data
      = some (mapCt (fun j a => if i * 8 ≤ j ∧ maskBit mask (j - i * 8) = true then ct else a) data) := by
  intro mask
  induction mask with
  | nil => intro i data _ _; simp [applyMask, maskBit_nil, mapCt_id]
  | cons b bs ih =>
    intro i data hlt hbits
    have hb : b < 256 := hlt b (by simp)
    unfold applyMask
    rw [applyBits_spec ct 8 b (i * 8) data hb (by
      intro k hk
      by_cases hk8 : k < 8
      · exact hbits k (by rw [maskBit_cons]; simp [hk8, hk])
      · rw [byte_testBit_ge b k hb (by omega)] at hk; cases hk)]
    simp only
    rw [ih (i + 1) _ (fun x hx => hlt x (by simp [hx])) (by
      intro k hk
      have := hbits (k + 8) (by
        rw [maskBit_cons]
        have h8 : ¬ k + 8 < 8 := by omega
        simpa [h8] using hk)
      rw [mapCt_length]; omega)]
    rw [mapCt_mapCt]
    congr 1
    apply mapCt_congr
    intro j a _
    simp only [maskBit_cons]
    by_cases h1 : i * 8 ≤ j
    · by_cases h2 : j - i * 8 < 8
      · have h3 : ¬ (i + 1) * 8 ≤ j := by omega
        simp [h1, h2, h3]
      · have h3 : (i + 1) * 8 ≤ j := by omega
        have e : j - (i + 1) * 8 = j - i * 8 - 8 := by omega
        have h4 : b.testBit (j - i * 8) = false := byte_testBit_ge b _ hb (by omega)
        simp [h1, h2, h3, e, h4]
    · have h3 : ¬ (i + 1) * 8 ≤ j := by omega
      simp [h1, h3]

theorem applyMask_zero (ct mask : List Nat) (data : List Chunk)
    (hlt : ∀ b ∈ mask, b < 256) (hbits : ∀ k, maskBit mask k = true → k < data.length) :
    applyMask mask 0 ct data = some (mapCt (fun j a => if maskBit mask j = true then ct else a) data) := by
  rw [applyMask_spec ct mask 0 data hlt (by intro k hk; have := hbits k hk; omega)]
  simp

/-! ### reading: later entries override -/

def assign : List (List Nat × List Nat) → Nat → List Nat → List Nat
  | [], _, acc => acc
  | e :: m, j, acc => assign m j (if maskBit e.2 j = true then e.1 else acc)

def CtsBounded (m : List (List Nat × List Nat)) (n : Nat) : Prop :=
  ∀ e ∈ m, e.2 ≠ [] ∧ (∀ b ∈ e.2, b < 256) ∧ e.1.length < 2 ^ 64 ∧ ∀ j, maskBit e.2 j = true → j < n

theorem encodeCts_cons (e : List Nat × List Nat) (m : List (List Nat × List Nat)) :
    encodeCts (e :: m) = writeVarBytes e.2 ++ (writeString e.1 ++ encodeCts m) := by
  simp [encodeCts]

theorem encodeCts_length (m : List (List Nat × List Nat)) : m.length < (encodeCts m).length := by
  induction m with
  | nil => simp [encodeCts]
  | cons e m ih =>
    rw [encodeCts_cons]
    have := writeVarInt_length_pos e.1.length
    simp only [List.length_append, writeString, List.length_cons]
    omega

theorem readCts_spec (rest : List Nat) : ∀ (m : List (List Nat × List Nat)) (fuel : Nat) (data : List Chunk),
    m.length < fuel → CtsBounded m data.length →
    readCts fuel (encodeCts m ++ rest) data = some (mapCt (assign m) data, rest) := by
  intro m
  induction m with
  | nil =>
    intro fuel data hf _
    obtain ⟨f, rfl⟩ : ∃ f, fuel = f + 1 := ⟨fuel - 1, by simp at hf; omega⟩
    have : mapCt (assign []) data = data := mapCt_id data
    simp [encodeCts, readCts, readVarBytes_zero, this]
  | cons e m ih =>
    intro fuel data hf hb
    obtain ⟨f, rfl⟩ : ∃ f, fuel = f + 1 := ⟨fuel - 1, by simp at hf; omega⟩
    obtain ⟨hne, hlt, hlen, hbits⟩ := hb e (by simp)
    rw [encodeCts_cons]
    unfold readCts
    simp only [List.append_assoc, varbytes_rt _ _ hlt, hne, if_false, readString_rt _ _ hlen,
      applyMask_zero e.1 e.2 data hlt hbits]
    rw [ih f _ (by simp at hf; omega) (by
      rw [mapCt_length]; exact fun x hx => hb x (by simp [hx]))]
    rw [mapCt_mapCt]
    rfl


/-! ### writing: `addCt`, `collectCts` -/

theorem assign_nobit : ∀ (m : List (List Nat × List Nat)) (j : Nat) (acc : List Nat),
    (∀ e ∈ m, maskBit e.2 j = false) → assign m j acc = acc := by
  intro m
  induction m with
  | nil => intro j acc _; rfl
  | cons e m ih =>
    intro j acc h
    have he : maskBit e.2 j = false := h e (by simp)
    simp only [assign, he, Bool.false_eq_true, if_false]
    exact ih j acc (fun x hx => h x (by simp [hx]))

theorem assign_addCt (ct : List Nat) (i j : Nat) : ∀ (m : List (List Nat × List Nat)) (acc : List Nat),
    (∀ e ∈ m, maskBit e.2 i = false) →
    assign (addCt m ct i) j acc = if j = i then ct else assign m j acc := by
  intro m
  induction m with
  | nil =>
    intro acc _
    simp [addCt, assign, maskBit_setBit, maskBit_nil]
  | cons e m ih =>
    intro acc h
    obtain ⟨k, bm⟩ := e
    have hm : ∀ e ∈ m, maskBit e.2 i = false := fun x hx => h x (by simp [hx])
    unfold addCt
    by_cases hk : k = ct
    · subst hk
      simp only [if_true, assign, maskBit_setBit]
      by_cases hj : j = i
      · subst hj
        simp [assign_nobit m j _ hm]
      · simp [hj]
    · simp only [hk, if_false, assign]
      rw [ih _ hm]

theorem addCt_mem (ct : List Nat) (i : Nat) : ∀ (m : List (List Nat × List Nat)) (e : List Nat × List Nat),
    e ∈ addCt m ct i → e ∈ m ∨ (e.1 = ct ∧ ∃ bm, (bm = [] ∨ (e.1, bm) ∈ m) ∧ e.2 = setBit bm i) := by
  intro m
  induction m with
  | nil =>
    intro e he
    simp only [addCt, List.mem_singleton] at he
    subst he
    exact Or.inr ⟨rfl, [], Or.inl rfl, rfl⟩
  | cons x m ih =>
    intro e he
    obtain ⟨k, bm⟩ := x
    unfold addCt at he
    by_cases hk : k = ct
    · subst hk
      simp only [if_true, List.mem_cons] at he
      rcases he with he | he
      · subst he
        exact Or.inr ⟨rfl, bm, Or.inr (by simp), rfl⟩
      · exact Or.inl (by simp [he])
    · simp only [hk, if_false, List.mem_cons] at he
      rcases he with he | he
      · exact Or.inl (by simp [he])
      · rcases ih e he with h | ⟨h1, b, h2, h3⟩
        · exact Or.inl (by simp [h])
        · refine Or.inr ⟨h1, b, ?_, h3⟩
          rcases h2 with h2 | h2
          · exact Or.inl h2
          · exact Or.inr (by simp [h2])

def CtsOk (m : List (List Nat × List Nat)) : Prop :=
  ∀ e ∈ m, e.2 ≠ [] ∧ (∀ b ∈ e.2, b < 256) ∧ e.1.length < 2 ^ 64

theorem addCt_ok (m : List (List Nat × List Nat)) (ct : List Nat) (i : Nat) (hm : CtsOk m)
    (hct : ct.length < 2 ^ 64) : CtsOk (addCt m ct i) := by
  intro e he
  rcases addCt_mem ct i m e he with h | ⟨h1, bm, h2, h3⟩
  · exact hm e h
  · rw [h3, h1]
    refine ⟨setBit_ne_nil _ _, setBit_lt _ _ ?_, hct⟩
    rcases h2 with h2 | h2
    · subst h2; simp
    · exact (hm _ h2).2.1

theorem collectCts_ok (cs : List Chunk) (i : Nat) (m : List (List Nat × List Nat)) (hm : CtsOk m)
    (hcs : ∀ c ∈ cs, c.ctype.length < 2 ^ 64) : CtsOk (collectCts cs i m) := by
  induction cs generalizing i m with
  | nil => exact hm
  | cons c cs ih =>
    unfold collectCts
    apply ih
    · split
      · exact hm
      · exact addCt_ok m _ i hm (hcs c (by simp))
    · exact fun x hx => hcs x (by simp [hx])

theorem addCt_bounded (m : List (List Nat × List Nat)) (ct : List Nat) (i : Nat) (hm : CtsBounded m i)
    (hct : ct.length < 2 ^ 64) : CtsBounded (addCt m ct i) (i + 1) := by
  intro e he
  rcases addCt_mem ct i m e he with h | ⟨h1, bm, h2, h3⟩
  · obtain ⟨a, b, c, d⟩ := hm e h
    exact ⟨a, b, c, fun j hj => by have := d j hj; omega⟩
  · rw [h3, h1]
    refine ⟨setBit_ne_nil _ _, setBit_lt _ _ ?_, hct, ?_⟩
    · rcases h2 with h2 | h2
      · subst h2; simp
      · exact (hm _ h2).2.1
    · intro j hj
      rw [maskBit_setBit] at hj
      by_cases hji : j = i
      · omega
      · simp only [hji, decide_false, Bool.false_or] at hj
        rcases h2 with h2 | h2
        · subst h2; simp [maskBit_nil] at hj
        · have := (hm _ h2).2.2.2 j hj; omega

theorem CtsBounded.mono {m : List (List Nat × List Nat)} {a b : Nat} (h : CtsBounded m a) (hab : a ≤ b) :
    CtsBounded m b := by
  intro e he
  obtain ⟨x, y, z, w⟩ := h e he
  exact ⟨x, y, z, fun j hj => by have := w j hj; omega⟩

theorem CtsBounded.nobit {m : List (List Nat × List Nat)} {n j : Nat} (h : CtsBounded m n) (hj : n ≤ j) :
    ∀ e ∈ m, maskBit e.2 j = false := by
  intro e he
  cases hb : maskBit e.2 j with
  | false => rfl
  | true => have := (h e he).2.2.2 j hb; omega

/-- one step of `collectCts` -/
def stepCt (m : List (List Nat × List Nat)) (c : Chunk) (i : Nat) : List (List Nat × List Nat) :=
  if c.ctype = [] then m else addCt m c.ctype i

theorem stepCt_bounded (m : List (List Nat × List Nat)) (c : Chunk) (i : Nat) (hm : CtsBounded m i)
    (hct : c.ctype.length < 2 ^ 64) : CtsBounded (stepCt m c i) (i + 1) := by
  unfold stepCt
  split
  · exact hm.mono (by omega)
  · exact addCt_bounded m _ i hm hct

theorem assign_stepCt (m : List (List Nat × List Nat)) (c : Chunk) (i j : Nat) (acc : List Nat)
    (hm : CtsBounded m i) :
    assign (stepCt m c i) j acc = if j = i ∧ c.ctype ≠ [] then c.ctype else assign m j acc := by
  unfold stepCt
  by_cases hc : c.ctype = []
  · simp [hc]
  · simp only [hc, if_false, assign_addCt _ _ _ _ _ (hm.nobit (Nat.le_refl i))]
    by_cases hj : j = i <;> simp [hj, hc]

theorem collectCts_bounded : ∀ (cs : List Chunk) (i : Nat) (m : List (List Nat × List Nat)),
    CtsBounded m i → (∀ c ∈ cs, c.ctype.length < 2 ^ 64) →
    CtsBounded (collectCts cs i m) (i + cs.length) := by
  intro cs
  induction cs with
  | nil => intro i m hm _; exact hm
  | cons c cs ih =>
    intro i m hm hcs
    have := ih (i + 1) (stepCt m c i) (stepCt_bounded m c i hm (hcs c (by simp)))
      (fun x hx => hcs x (by simp [hx]))
    simp only [collectCts, List.length_cons]
    have e : i + (cs.length + 1) = i + 1 + cs.length := by omega
    rw [e]; exact this

theorem assign_collect_lt : ∀ (cs : List Chunk) (i : Nat) (m : List (List Nat × List Nat)) (j : Nat) (acc : List Nat),
    CtsBounded m i → (∀ c ∈ cs, c.ctype.length < 2 ^ 64) → j < i →
    assign (collectCts cs i m) j acc = assign m j acc := by
  intro cs
  induction cs with
  | nil => intro i m j acc _ _ _; rfl
  | cons c cs ih =>
    intro i m j acc hm hcs hj
    have h1 := ih (i + 1) (stepCt m c i) j acc (stepCt_bounded m c i hm (hcs c (by simp)))
      (fun x hx => hcs x (by simp [hx])) (by omega)
    have hne : ¬ (j = i ∧ c.ctype ≠ []) := by omega
    rw [assign_stepCt _ _ _ _ _ hm, if_neg hne] at h1
    have : collectCts (c :: cs) i m = collectCts cs (i + 1) (stepCt m c i) := rfl
    rw [this]; exact h1

theorem assign_collect_at : ∀ (cs : List Chunk) (i : Nat) (m : List (List Nat × List Nat)) (k : Nat) (c : Chunk),
    CtsBounded m i → (∀ c ∈ cs, c.ctype.length < 2 ^ 64) → cs[k]? = some c →
    assign (collectCts cs i m) (i + k) [] = c.ctype := by
  intro cs
  induction cs with
  | nil => intro i m k c _ _ h; simp at h
  | cons x cs ih =>
    intro i m k c hm hcs hk
    have hm' := stepCt_bounded m x i hm (hcs x (by simp))
    have hcs' : ∀ c ∈ cs, c.ctype.length < 2 ^ 64 := fun y hy => hcs y (by simp [hy])
    cases k with
    | zero =>
      simp only [List.getElem?_cons_zero, Option.some.injEq] at hk
      subst hk
      have h1 := assign_collect_lt cs (i + 1) (stepCt m x i) i [] hm' hcs' (by omega)
      rw [assign_stepCt _ _ _ _ _ hm, assign_nobit m i [] (hm.nobit (Nat.le_refl i))] at h1
      have : collectCts (x :: cs) i m = collectCts cs (i + 1) (stepCt m x i) := rfl
      rw [this]
      simp only [Nat.add_zero]
      rw [h1]
      by_cases hx : x.ctype = [] <;> simp [hx]
    | succ k =>
      simp only [List.getElem?_cons_succ] at hk
      have h1 := ih (i + 1) (stepCt m x i) k c hm' hcs' hk
      have : collectCts (x :: cs) i m = collectCts cs (i + 1) (stepCt m x i) := rfl
      have e : i + (k + 1) = i + 1 + k := by omega
      rw [this, e, h1]

/-! ### the whole record -/

def expectedCts (cs : List Chunk) (t0 : Int) : List Chunk :=
  List.zipWith (fun (r c : Chunk) => { r with ctype := c.ctype }) (readBack cs t0) cs

theorem readBack_length : ∀ (cs : List Chunk) (last : Int), (readBack cs last).length = cs.length := by
  intro cs
  induction cs with
  | nil => intro _; rfl
  | cons c cs ih => intro last; simp [readBack, ih]

theorem mapCt_eq_zipWith (f : Nat → List Nat → List Nat) (rb cs : List Chunk) (hl : rb.length = cs.length)
    (hrb : ∀ r ∈ rb, r.ctype = []) (hf : ∀ j c, cs[j]? = some c → f j [] = c.ctype) :
    mapCt f rb = List.zipWith (fun (r c : Chunk) => { r with ctype := c.ctype }) rb cs := by
  apply List.ext_getElem?
  intro j
  rw [mapCt_getElem?, List.getElem?_zipWith]
  cases hr : rb[j]? with
  | none => simp
  | some r =>
    have hj : j < cs.length := by
      have := (List.getElem?_eq_some_iff.mp hr).1; omega
    have hc : cs[j]? = some cs[j] := by simp [hj]
    have h0 : r.ctype = [] := hrb r (List.mem_of_getElem? hr)
    simp [hc, h0, hf j _ hc]

theorem record_roundtrip_cts (cs : List Chunk) (t0 : Int)
    (hok : ∀ c ∈ cs, ChunkOk c ∧ c.ctype.length < 2 ^ 64 ∧ ∀ b ∈ c.ctype, b < 256)
    (ht : TimesOk cs t0) :
    decodeRecord (encodeBody cs t0) t0
      = some { chunks := expectedCts cs t0, clientBytes := (dataOf cs false).length,
               serverBytes := (dataOf cs true).length } := by
  have hok1 : ∀ c ∈ cs, ChunkOk c := fun c hc => (hok c hc).1
  have hlen : ∀ c ∈ cs, c.ctype.length < 2 ^ 64 := fun c hc => (hok c hc).2.1
  have hb0 : CtsBounded ([] : List (List Nat × List Nat)) 0 := by intro e he; simp at he
  have hbd := collectCts_bounded cs 0 [] hb0 hlen
  unfold decodeRecord encodeBody
  rw [sizes_read _ cs false _ hok1 (by simp only [List.length_append]; omega)]
  simp only [List.dropLast_concat, sumDir_entries]
  have h1 : ¬ ((dataOf cs false ++ (dataOf cs true ++ (encodeTimes cs t0 ++ encodeCts (collectCts cs 0 [])))).length
      < (dataOf cs false).length) := by simp only [List.length_append]; omega
  simp only [h1, if_false, List.take_left', List.drop_left']
  have h2 : ¬ ((dataOf cs true ++ (encodeTimes cs t0 ++ encodeCts (collectCts cs 0 []))).length
      < (dataOf cs true).length) := by simp only [List.length_append]; omega
  simp only [h2, if_false]
  have hs := split_read (encodeCts (collectCts cs 0 [])) cs false [] [] t0 hok1 ht
  simp only [List.append_nil] at hs
  rw [hs]
  have hr := readCts_spec [] (collectCts cs 0 []) ((encodeCts (collectCts cs 0 [])).length + 1)
    (readBack cs t0) (by have := encodeCts_length (collectCts cs 0 []); omega)
    (by rw [readBack_length]; simpa using hbd)
  simp only [List.append_nil] at hr
  simp only [hr]
  have he : mapCt (assign (collectCts cs 0 [])) (readBack cs t0) = expectedCts cs t0 := by
    unfold expectedCts
    apply mapCt_eq_zipWith _ _ _ (readBack_length cs t0) (readBack_noct cs t0)
    intro j c hj
    have := assign_collect_at cs 0 [] j c hb0 hlen hj
    simpa using this
  rw [he]

end Pk.Proofs.CacheFile
