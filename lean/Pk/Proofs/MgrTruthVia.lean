/- Helper lemmas for C06Reach: the table after an event is the sweep `inherit` of an explicit table. -/
import Pk.Proofs.MgrTagsStep
import Pk.Proofs.MgrSettleFrame
import Pk.Proofs.MgrTruthDrop
import Pk.Proofs.MgrTruthInherit
import Pk.Proofs.MgrTruthEdit
import Pk.Proofs.MgrTruthMasks
namespace Pk.Proofs.MgrTruth
open Pk.Mgr Pk.Proofs.MgrTags

theorem importDone_via (s : St) (p u : Nat) (c : List (Nat × List Nat)) (a b d : List Nat) (st : Started)
    (jn : Nat) (held : List Nat) (hj : s.jImport = some (jn, held)) (hc : c ≠ []) :
    ∃ s1 : St, (step s (.importDone p u c a b d) st).1.tags = (inherit s1).tags ∧
      (step s (.importDone p u c a b d) st).1.all = jn + u ∧ (step s (.importDone p u c a b d) st).1.next = jn + u ∧
      s1.all = jn + u ∧
      s1.tags = s.tags.map (fun q => (q.1, invF (jn + u) (ofList a) (ofList b) (ofList d) q.2)) := by
  rw [step_importDone_eq, hj]
  have hce : c.isEmpty = false := by cases c <;> simp_all
  have hB := idBase_tags s jn u held
  let C := idCreated (idBase s jn u held) (jn + u) c (ofList a) (ofList b) (ofList d)
  have hCt : C.tags = s.tags := hB.1
  have hCa : C.all = jn + u := hB.2.1
  let s1 : St := { C with tags := C.tags.map fun q => (q.1, invF C.all (ofList a) (ofList b) (ofList d) q.2) }
  have hA : idApply (release { s with all := jn + u, jImport := none } held) (jn + u) c (ofList a) (ofList b) (ofList d) =
      invalidateConverters (invalidateConverters (inherit s1) (ofList a)) (ofList b) := by
    unfold idApply
    simp only [hce, Bool.false_eq_true, if_false]
    rw [invalidateTags_eq]; rfl
  have hS : Same (inherit s1) (jobTail (idQueue { idApply (release { s with all := jn + u, jImport := none } held)
            (jn + u) c (ofList a) (ofList b) (ofList d) with
            queue := (idApply (release { s with all := jn + u, jImport := none } held)
            (jn + u) c (ofList a) (ofList b) (ofList d)).queue.drop p }) st) := by
    rw [hA]
    refine Same.trans ?_ ((idQueue_same _).trans (jobTail_same _ _))
    refine Same.trans ((invalidateConverters_same _ (ofList a)).trans (invalidateConverters_same _ (ofList b))) ?_
    exact ⟨rfl, rfl, rfl⟩
  refine ⟨s1, hS.1, ?_, ?_, hCa, ?_⟩
  · rw [hS.2.1]; exact hCa
  · rw [hS.2.2]; rfl
  · show C.tags.map _ = _
    rw [hCt, hCa]

theorem importDone_nil (s : St) (p u : Nat) (a b d : List Nat) (st : Started)
    (jn : Nat) (held : List Nat) (hj : s.jImport = some (jn, held)) :
    (step s (.importDone p u [] a b d) st).1.tags = s.tags ∧
    (step s (.importDone p u [] a b d) st).1.all = jn + u ∧ (step s (.importDone p u [] a b d) st).1.next = s.next := by
  obtain ⟨s2, hs, h0, _⟩ := step_importDone_some s p u [] a b d st jn held hj
  obtain ⟨e1, e2, e3⟩ := h0 rfl
  exact ⟨hs.1.trans e1, hs.2.1.trans e2, hs.2.2.trans e3⟩

/-- all converter results applied to one tag -/
def cdAll (all : Nat) (convs : List String) (sets : List (String × IdSet)) (t : Tag) : Tag :=  -- CHANGED (conv)
  sets.foldl (fun t p => if convs.contains p.1 then cdF all p.2 t else t) t

theorem cdF_feat (all : Nat) (ids : IdSet) (t : Tag) :  -- CHANGED (conv)
    (cdF all ids t).mfeat = t.mfeat ∧ (cdF all ids t).sfeat = t.sfeat := by
  unfold cdF; split
  · split <;> exact ⟨rfl, rfl⟩
  · split <;> exact ⟨rfl, rfl⟩

-- CHANGED (conv): `mem_cdF_unc` (exact characterisation, no longer true) replaced by four one-step lemmas
theorem cdF_grow (all : Nat) (ids : IdSet) (t : Tag) (id : Nat) (h : id ∈ t.unc) (hb : id < all) :
    id ∈ (cdF all ids t).unc := (trel_cdF all ids t).2.2 id h hb

theorem cdF_main (all : Nat) (ids : IdSet) (t : Tag) (id : Nat) (hm : t.mfeat &&& fData ≠ 0) (hid : id ∈ ids)
    (hb : id < all) : id ∈ (cdF all ids t).unc := by
  unfold cdF; split
  · split
    · rename_i h; simp only [List.isEmpty_iff] at h; subst h; cases hid
    · simpa using hb
  · split
    · rename_i h; simp only [beq_iff_eq] at h; exact absurd h hm
    · simp [hid]

theorem cdF_sub (all : Nat) (ids : IdSet) (t : Tag) (id : Nat) (hs : t.sfeat &&& fData ≠ 0) (hne : ids ≠ [])
    (hb : id < all) : id ∈ (cdF all ids t).unc := by
  unfold cdF; split
  · split
    · rename_i h; simp only [List.isEmpty_iff] at h; exact absurd h hne
    · simpa using hb
  · rename_i h; simp only [bne_iff_ne, ne_eq, Decidable.not_not] at h; exact absurd h hs

theorem cdF_bound (all : Nat) (ids : IdSet) (t : Tag) (id : Nat) (h : id ∈ (cdF all ids t).unc) :
    id ∈ t.unc ∨ id < all ∨ id ∈ ids := by
  revert h; unfold cdF; split
  · split
    · exact Or.inl
    · intro h; exact Or.inr (Or.inl (by simpa using h))
  · split
    · exact Or.inl
    · intro h
      rcases (mem_union _ _ _).1 h with h | h
      · exact Or.inl h
      · exact Or.inr (Or.inr h)

-- CHANGED (conv): `mem_cdAll_unc` replaced by `cdAll_grow`, `cdAll_main`, `cdAll_sub`, `cdAll_bound`
theorem cdAll_grow (all : Nat) (convs : List String) (sets : List (String × IdSet)) (t : Tag) (id : Nat)
    (h : id ∈ t.unc) (hb : id < all) : id ∈ (cdAll all convs sets t).unc := by
  unfold cdAll
  induction sets generalizing t with
  | nil => exact h
  | cons q sets ih =>
    simp only [List.foldl_cons]
    apply ih
    split
    · exact cdF_grow all q.2 t id h hb
    · exact h

/-- main-query data features (and no sub-query data features): the reported streams -/
theorem cdAll_main (all : Nat) (convs : List String) (sets : List (String × IdSet)) (t : Tag) (id : Nat)
    (hm : t.mfeat &&& fData ≠ 0) (p : String × IdSet) (hp : p ∈ sets) (hc : p.1 ∈ convs) (hid : id ∈ p.2)
    (hb : id < all) : id ∈ (cdAll all convs sets t).unc := by
  induction sets generalizing t with
  | nil => cases hp
  | cons q sets ih =>
    rcases List.mem_cons.1 hp with rfl | hp
    · have hq : convs.contains p.1 = true := by simpa using hc
      simp only [cdAll, List.foldl_cons, hq, if_true]
      exact cdAll_grow all convs sets _ id (cdF_main all p.2 t id hm hid hb) hb
    · simp only [cdAll, List.foldl_cons]
      refine ih _ ?_ hp
      split
      · rw [(cdF_feat all q.2 t).1]; exact hm
      · exact hm

/-- sub-query data features: every stream, as soon as some configured converter reports a non-empty set -/
theorem cdAll_sub (all : Nat) (convs : List String) (sets : List (String × IdSet)) (t : Tag) (id : Nat)
    (hs : t.sfeat &&& fData ≠ 0) (p : String × IdSet) (hp : p ∈ sets) (hc : p.1 ∈ convs) (hne : p.2 ≠ [])
    (hb : id < all) : id ∈ (cdAll all convs sets t).unc := by
  induction sets generalizing t with
  | nil => cases hp
  | cons q sets ih =>
    rcases List.mem_cons.1 hp with rfl | hp
    · have hq : convs.contains p.1 = true := by simpa using hc
      simp only [cdAll, List.foldl_cons, hq, if_true]
      exact cdAll_grow all convs sets _ id (cdF_sub all p.2 t id hs hne hb) hb
    · simp only [cdAll, List.foldl_cons]
      refine ih _ ?_ hp
      split
      · rw [(cdF_feat all q.2 t).2]; exact hs
      · exact hs

theorem cdAll_bound (all : Nat) (convs : List String) (sets : List (String × IdSet)) (t : Tag) (id : Nat)
    (h : id ∈ (cdAll all convs sets t).unc) :
    id ∈ t.unc ∨ id < all ∨ ∃ p, p ∈ sets ∧ id ∈ p.2 := by
  induction sets generalizing t with
  | nil => exact Or.inl h
  | cons q sets ih =>
    simp only [cdAll, List.foldl_cons] at h
    rcases ih _ h with h1 | h1 | ⟨p, hp, h1⟩
    · revert h1
      split
      · intro h1
        rcases cdF_bound all q.2 t id h1 with h2 | h2 | h2
        · exact Or.inl h2
        · exact Or.inr (Or.inl h2)
        · exact Or.inr (Or.inr ⟨q, List.mem_cons_self, h2⟩)
      · exact Or.inl
    · exact Or.inr (Or.inl h1)
    · exact Or.inr (Or.inr ⟨p, List.mem_cons_of_mem _ hp, h1⟩)

theorem foldl_cdMark (sets : List (String × IdSet)) (s0 : St) :
    (sets.foldl cdMark s0).tags = s0.tags.map (fun q => (q.1, cdAll s0.all s0.convs sets q.2)) ∧  -- CHANGED (conv)
    (sets.foldl cdMark s0).all = s0.all ∧ (sets.foldl cdMark s0).next = s0.next := by
  induction sets generalizing s0 with
  | nil => simp [cdAll]
  | cons p sets ih =>
    simp only [List.foldl_cons]
    obtain ⟨h1, h2, h3⟩ := ih (cdMark s0 p)
    have hcv : (cdMark s0 p).convs = s0.convs := by unfold cdMark; split <;> rfl
    have ha : (cdMark s0 p).all = s0.all := by unfold cdMark; split <;> rfl
    have hn : (cdMark s0 p).next = s0.next := by unfold cdMark; split <;> rfl
    refine ⟨?_, h2.trans ha, h3.trans hn⟩
    rw [h1, hcv, ha]
    unfold cdMark
    split
    · rename_i hq
      apply List.map_congr_left
      intro q _
      simp only [cdAll, List.foldl_cons]
      have hq' : p.1 ∉ s0.convs := by simpa using hq
      simp [hq']
    · rename_i hq
      simp only [Bool.not_eq_true', Bool.not_eq_false] at hq
      simp only [List.map_map]
      apply List.map_congr_left
      intro q _
      have hq' : p.1 ∈ s0.convs := by simpa using hq
      simp only [cdAll, List.foldl_cons, Function.comp]
      simp [hq']

theorem convertDone_via (s : St) (st : Started) (sets : List (String × IdSet)) (held : List Nat)
    (hj : s.jConv = some (sets, held)) :
    ∃ s1 : St, (step s .convertDone st).1.tags = (inherit s1).tags ∧
      (step s .convertDone st).1.all = s.all ∧ (step s .convertDone st).1.next = s.next ∧ s1.all = s.all ∧
      s1.tags = s.tags.map (fun q => (q.1, cdAll s.all s.convs sets q.2)) := by  -- CHANGED (conv)
  rw [step_convertDone_eq, hj]
  obtain ⟨h1, h2, h3⟩ := foldl_cdMark sets { s with convert := false, jConv := none }
  have hS := ((startTagging_same (inherit (sets.foldl cdMark { s with convert := false, jConv := none })) st.tag).trans
    (startConverter_same _)).trans (release_same _ held)
  exact ⟨_, hS.1, hS.2.1.trans h2, hS.2.2.trans h3, h2, h1⟩

/-- `addRefBy`/`delRefBy` change nothing the truth of a tag depends on -/
theorem setRef_p5 {s : St} {m : String} {t t' : Tag} (hm : sget s.tags m = some t)
    (h : (t'.mat, t'.unc, t'.defn, t'.mainT, t'.subT) = (t.mat, t.unc, t.defn, t.mainT, t.subT)) (n : String) :
    (sget (setTag s m t').tags n).map (fun t => (t.mat, t.unc, t.defn, t.mainT, t.subT)) =
      (sget s.tags n).map (fun t => (t.mat, t.unc, t.defn, t.mainT, t.subT)) := by
  simp only [setTag, sget_sins]
  split
  · rename_i e; subst e; rw [hm]; simp only [Option.map_some]; rw [h]
  · rfl

theorem addRefBy_p5 (s : St) (a b n : String) :
    (sget (addRefBy s a b).tags n).map (fun t => (t.mat, t.unc, t.defn, t.mainT, t.subT)) =
      (sget s.tags n).map (fun t => (t.mat, t.unc, t.defn, t.mainT, t.subT)) := by
  unfold addRefBy; split
  · rename_i t ht; exact setRef_p5 (t' := { t with refBy := strIns b t.refBy }) ht rfl n
  · rfl

theorem delRefBy_p5 (s : St) (a b n : String) :
    (sget (delRefBy s a b).tags n).map (fun t => (t.mat, t.unc, t.defn, t.mainT, t.subT)) =
      (sget s.tags n).map (fun t => (t.mat, t.unc, t.defn, t.mainT, t.subT)) := by
  unfold delRefBy; split
  · rename_i t ht; exact setRef_p5 (t' := { t with refBy := t.refBy.filter (· != b) }) ht rfl n
  · rfl

theorem uqRefs_p5 (s : St) (name : String) (before after : List String) (n : String) :
    (sget (uqRefs s name before after).tags n).map (fun t => (t.mat, t.unc, t.defn, t.mainT, t.subT)) =
      (sget s.tags n).map (fun t => (t.mat, t.unc, t.defn, t.mainT, t.subT)) := by
  unfold uqRefs
  refine (foldl_inv (fun s' : St => (sget s'.tags n).map (fun t => (t.mat, t.unc, t.defn, t.mainT, t.subT)) =
      (sget s.tags n).map (fun t => (t.mat, t.unc, t.defn, t.mainT, t.subT))) _ ?_ _ _ ?_)
  · intro a b ha; exact (addRefBy_p5 a b name n).trans ha
  · refine (foldl_inv (fun s' : St => (sget s'.tags n).map (fun t => (t.mat, t.unc, t.defn, t.mainT, t.subT)) =
      (sget s.tags n).map (fun t => (t.mat, t.unc, t.defn, t.mainT, t.subT))) _ ?_ _ _ rfl)
    intro a b ha; exact (delRefBy_p5 a b name n).trans ha

theorem uqRefs_fr (s : St) (name : String) (before after : List String) :
    Fr NT s (uqRefs s name before after) := by
  unfold uqRefs
  refine Fr.trans ?_ (foldl_fr _ (fun s r => addRefBy_fr s r name) _ _)
  exact foldl_fr _ (fun s r => delRefBy_fr s r name) _ _

theorem updQuery_via (s : St) (name defn : String) (f : Facts) (st : Started)
    (hok : (step s (.updQuery name defn f) st).2 = Res.ok) :
    ∃ (s1 : St) (t : Tag), sget s.tags name = some t ∧
      (step s (.updQuery name defn f) st).1.tags = (inherit s1).tags ∧
      (step s (.updQuery name defn f) st).1.all = s.all ∧ (step s (.updQuery name defn f) st).1.next = s.next ∧
      s1.all = s.all ∧ (Sorted s.tags → Sorted s1.tags) ∧
      sget s1.tags name = some (uqTag2 (uqTag defn f) t s.all) ∧
      (∀ n, n ≠ name → (sget s1.tags n).map (fun t => (t.mat, t.unc, t.defn, t.mainT, t.subT)) =
                         (sget s.tags n).map (fun t => (t.mat, t.unc, t.defn, t.mainT, t.subT))) := by
  revert hok
  rw [step_updQuery_eq]
  repeat' split
  all_goals first | (intro h; cases h; done) | skip
  rename_i t ht _ _ _
  intro _
  have hF := uqRefs_fr s name t.refs (uqTag2 (uqTag defn f) t s.all).refs
  refine ⟨setTag (uqRefs s name t.refs (uqTag2 (uqTag defn f) t s.all).refs) name (uqTag2 (uqTag defn f) t s.all),
    t, ht, ?_, ?_, ?_, hF.all, ?_, ?_, ?_⟩
  · exact (((invalidatedDuring_same _ _).trans (startTagging_same _ _)).trans (startConverter_same _)).1
  · exact (((invalidatedDuring_same _ _).trans (startTagging_same _ _)).trans (startConverter_same _)).2.1.trans hF.all
  · exact (((invalidatedDuring_same _ _).trans (startTagging_same _ _)).trans (startConverter_same _)).2.2.trans hF.next
  · intro h; exact sorted_sins _ _ _ (hF.sorted h)
  · simp [setTag, sget_sins]
  · intro n hn
    rw [← uqRefs_p5 s name t.refs (uqTag2 (uqTag defn f) t s.all).refs n]
    simp only [setTag, sget_sins, Ne.symm hn, if_false]

theorem mem_muAdd_unc (t : Tag) (s : St) (a : List Nat) (id : Nat) :
    id ∈ (muAdd t s a).1.unc ↔ id ∈ t.unc ∨ (id ∈ a ∧ id ∉ t.mat) := by
  unfold muAdd
  split
  · rename_i h; simp only [List.isEmpty_iff] at h; simp [h]
  · simp only []
    split <;> (simp only [mem_union, mem_muFresh])

theorem mem_muDel_unc (t : Tag) (d : List Nat) (id : Nat) :
    id ∈ (muDel t d).unc ↔ id ∈ t.unc ∨ (id ∈ d ∧ id ∈ t.mat) := by
  unfold muDel
  split
  · rename_i h; simp only [List.isEmpty_iff] at h; simp [h]
  · simp only []
    split <;> (simp only [mem_union, List.mem_filter, List.contains_iff_mem])

theorem muFin_sget_ne (s : St) (name : String) (u : IdSet) (n : String) (hn : n ≠ name) :
    sget (muFin s name u).tags n = sget s.tags n := by
  unfold muFin
  split
  · simp only [setTag, sget_sins, Ne.symm hn, if_false]
  · rfl

theorem markUpdate_sget_ne (s : St) (name : String) (a d : List Nat) (t : Tag) (ht : sget s.tags name = some t)
    (n : String) (hn : n ≠ name) :
    sget (markUpdate s name a d).1.tags n =
      sget (inherit (setTag (muAdd t s a).2 name (muDel (muAdd t s a).1 d))).tags n := by
  rw [markUpdate_eq, ht]
  simp only []
  rw [muFin_sget_ne _ _ _ _ hn, same_sget (invalidatedDuring_same _ _)]

theorem markTail_sget (p : St × Res) (st : Started) (n : String) :
    sget (markTail p st).1.tags n = sget p.1.tags n :=
  same_sget ((startTagging_same _ _).trans (startConverter_same _)) n

theorem markAdd_via (s : St) (name : String) (ids : List Nat) (st : Started) (t : Tag)
    (hok : (step s (.markAdd name ids) st).2 = Res.ok) (hne : ids ≠ []) (ht : sget s.tags name = some t) :
    ∃ s1 : St, s1.all = s.all ∧ s1.tags = sins name (muAdd t s ids).1 s.tags ∧
      (step s (.markAdd name ids) st).1.all = s.all ∧ (step s (.markAdd name ids) st).1.next = s.next ∧
      ∀ n, n ≠ name → sget (step s (.markAdd name ids) st).1.tags n = sget (inherit s1).tags n := by
  have hfr := step_markAdd_fr s name ids st
  refine ⟨setTag (muAdd t s ids).2 name (muAdd t s ids).1, (muAdd_same t s ids).2.1, ?_, hfr.all, hfr.next, ?_⟩
  · show sins name _ (muAdd t s ids).2.tags = _
    rw [(muAdd_same t s ids).1]
  · intro n hn
    revert hok
    rw [step_markAdd_eq, ht]
    repeat' split
    all_goals first | (intro h; cases h; done) | skip
    · rename_i h; simp only [List.isEmpty_iff] at h; exact absurd h hne
    · intro _
      rw [markTail_sget, markUpdate_sget_ne s name ids [] t ht n hn]
      rfl

theorem markDel_via (s : St) (name : String) (ids : List Nat) (st : Started) (t : Tag)
    (hok : (step s (.markDel name ids) st).2 = Res.ok) (hne : ids ≠ []) (ht : sget s.tags name = some t) :
    ∃ s1 : St, s1.all = s.all ∧ s1.tags = sins name (muDel t ids) s.tags ∧
      (step s (.markDel name ids) st).1.all = s.all ∧ (step s (.markDel name ids) st).1.next = s.next ∧
      ∀ n, n ≠ name → sget (step s (.markDel name ids) st).1.tags n = sget (inherit s1).tags n := by
  have hfr := step_markDel_fr s name ids st
  refine ⟨setTag s name (muDel t ids), rfl, rfl, hfr.all, hfr.next, ?_⟩
  intro n hn
  revert hok
  rw [step_markDel_eq, ht]
  repeat' split
  all_goals first | (intro h; cases h; done) | skip
  · rename_i h; simp only [List.isEmpty_iff] at h; exact absurd h hne
  · intro _
    rw [markTail_sget, markUpdate_sget_ne s name [] ids t ht n hn]
    rfl

theorem qConv_masks (s : St) (cs : List String) (ids : IdSet) :
    (qConv s cs ids).upd = s.upd ∧ (qConv s cs ids).rst = s.rst ∧ (qConv s cs ids).add = s.add := by
  unfold qConv
  refine foldl_inv (fun s' : St => s'.upd = s.upd ∧ s'.rst = s.rst ∧ s'.add = s.add) _ ?_ _ _ ⟨rfl, rfl, rfl⟩
  intro a b ha; exact ha

theorem tagDone_same (s : St) (name : String) (result : List Nat) (st : Started) (snap : Tag) (held : List Nat)
    (hj : s.jTag = some (name, snap, held)) :
    Same (tdPublish { s with jTag := none } name snap (ofList result)) (step s (.tagDone name result) st).1 := by
  rw [step_tagDone_eq, hj]
  simp only [bne_self_eq_false, Bool.false_eq_true, if_false]
  exact Same.trans (b := { tdPublish { s with jTag := none } name snap (ofList result) with tag := false })
      ⟨rfl, rfl, rfl⟩ ((jobTail_same _ _).trans (release_same _ _))

theorem tdPublish_live (s : St) (name : String) (snap ot : Tag) (result : IdSet)
    (hot : sget s.tags name = some ot) (hd : ot.defn = snap.defn) (hg : ot.gen = snap.gen) :  -- CHANGED (gen)
    tdPublish s name snap result =
      tdInval (setTag (qConv s (tdTag snap ot result).convs (tdTag snap ot result).mat) name (tdTag snap ot result)) := by
  unfold tdPublish
  rw [hot]
  simp only [hd, hg, beq_self_eq_true, Bool.and_self, if_true]

theorem tagDone_via (s : St) (name : String) (result : List Nat) (st : Started) (snap ot : Tag) (held : List Nat)
    (hj : s.jTag = some (name, snap, held)) (hot : sget s.tags name = some ot) (hd : ot.defn = snap.defn)
    (hg : ot.gen = snap.gen)  -- CHANGED (gen)
    (hm : ¬ (s.upd = [] ∧ s.rst = [] ∧ s.add = [])) :
    ∃ s1 : St, (step s (.tagDone name result) st).1.tags = (inherit s1).tags ∧
      (step s (.tagDone name result) st).1.all = s.all ∧ (step s (.tagDone name result) st).1.next = s.next ∧
      s1.all = s.all ∧
      s1.tags = (sins name (tdTag snap ot (ofList result)) s.tags).map
        (fun q => (q.1, invF s.all s.upd s.rst s.add q.2)) := by
  have hS := tagDone_same s name result st snap held hj
  have hot' : sget ({ s with jTag := none } : St).tags name = some ot := hot
  rw [tdPublish_live _ name snap ot _ hot' hd hg] at hS
  generalize hX : setTag (qConv { s with jTag := none } (tdTag snap ot (ofList result)).convs
      (tdTag snap ot (ofList result)).mat) name (tdTag snap ot (ofList result)) = X at hS
  have hq := qConv_same { s with jTag := none } (tdTag snap ot (ofList result)).convs (tdTag snap ot (ofList result)).mat
  have hqm := qConv_masks { s with jTag := none } (tdTag snap ot (ofList result)).convs (tdTag snap ot (ofList result)).mat
  have hXt : X.tags = sins name (tdTag snap ot (ofList result)) s.tags := by
    rw [← hX]; show sins name _ (qConv _ _ _).tags = _; rw [hq.1]
  have hXa : X.all = s.all := by rw [← hX]; exact hq.2.1
  have hXn : X.next = s.next := by rw [← hX]; exact hq.2.2
  have hXu : X.upd = s.upd := by rw [← hX]; exact hqm.1
  have hXr : X.rst = s.rst := by rw [← hX]; exact hqm.2.1
  have hXd : X.add = s.add := by rw [← hX]; exact hqm.2.2
  have hI : tdInval X = inherit { X with tags := X.tags.map fun p => (p.1, invF X.all X.upd X.rst X.add p.2) } := by
    unfold tdInval
    split
    · rename_i h
      simp only [Bool.and_eq_true, List.isEmpty_iff] at h
      rw [hXu, hXr, hXd] at h
      exact absurd ⟨h.1.1, h.1.2, h.2⟩ hm
    · exact invalidateTags_eq _ _ _ _
  rw [hI] at hS
  refine ⟨_, hS.1, hS.2.1.trans hXa, hS.2.2.trans hXn, hXa, ?_⟩
  show X.tags.map _ = _
  rw [hXt, hXa, hXu, hXr, hXd]

theorem tagDone_plain (s : St) (name : String) (result : List Nat) (st : Started) (snap ot : Tag) (held : List Nat)
    (hj : s.jTag = some (name, snap, held)) (hot : sget s.tags name = some ot) (hd : ot.defn = snap.defn)
    (hg : ot.gen = snap.gen)  -- CHANGED (gen)
    (hm : s.upd = [] ∧ s.rst = [] ∧ s.add = []) :
    (step s (.tagDone name result) st).1.tags = sins name (tdTag snap ot (ofList result)) s.tags ∧
    (step s (.tagDone name result) st).1.all = s.all ∧ (step s (.tagDone name result) st).1.next = s.next := by
  have hS := tagDone_same s name result st snap held hj
  have hot' : sget ({ s with jTag := none } : St).tags name = some ot := hot
  rw [tdPublish_live _ name snap ot _ hot' hd hg] at hS
  have hq := qConv_same { s with jTag := none } (tdTag snap ot (ofList result)).convs (tdTag snap ot (ofList result)).mat
  have hqm := qConv_masks { s with jTag := none } (tdTag snap ot (ofList result)).convs (tdTag snap ot (ofList result)).mat
  have hI : tdInval (setTag (qConv { s with jTag := none } (tdTag snap ot (ofList result)).convs
      (tdTag snap ot (ofList result)).mat) name (tdTag snap ot (ofList result))) =
      setTag (qConv { s with jTag := none } (tdTag snap ot (ofList result)).convs
      (tdTag snap ot (ofList result)).mat) name (tdTag snap ot (ofList result)) := by
    unfold tdInval
    split
    · rfl
    · rename_i h
      exfalso; apply h
      show ((qConv _ _ _).upd.isEmpty && (qConv _ _ _).rst.isEmpty && (qConv _ _ _).add.isEmpty) = true
      rw [hqm.1, hqm.2.1, hqm.2.2]
      show (s.upd.isEmpty && s.rst.isEmpty && s.add.isEmpty) = true
      rw [hm.1, hm.2.1, hm.2.2]; rfl
  rw [hI] at hS
  refine ⟨hS.1.trans ?_, hS.2.1.trans hq.2.1, hS.2.2.trans hq.2.2⟩
  show sins name _ (qConv _ _ _).tags = _
  rw [hq.1]

theorem tagDone_dead (s : St) (name : String) (result : List Nat) (st : Started) (snap : Tag) (held : List Nat)
    (hj : s.jTag = some (name, snap, held))
    (h : ∀ ot, sget s.tags name = some ot → ¬ (ot.defn = snap.defn ∧ ot.gen = snap.gen)) :  -- CHANGED (gen)
    (step s (.tagDone name result) st).1.tags = s.tags ∧
    (step s (.tagDone name result) st).1.all = s.all ∧ (step s (.tagDone name result) st).1.next = s.next := by
  have hS := tagDone_same s name result st snap held hj
  have hP : tdPublish { s with jTag := none } name snap (ofList result) = { s with jTag := none } := by
    unfold tdPublish
    split
    · rename_i ot hot
      split
      · rename_i hd
        simp only [Bool.and_eq_true, beq_iff_eq] at hd
        exact absurd hd (h ot hot)
      · rfl
    · rfl
  rw [hP] at hS
  exact hS

/-! ## the table after an `updConv` / `delTag` that dropped converter output -/

section dropped
open Pk.Proofs.MgrTermination

theorem good_transfer' {L L' : List (String × Tag)} {R : List String} (h : GoodOrder L R)
    (h1 : ∀ n ∈ R, ∀ t, (n, t) ∈ L → ∃ t', (n, t') ∈ L' ∧ t'.refs = t.refs) : GoodOrder L' R := by
  induction h with
  | nil => exact GoodOrder.nil
  | cons n t R hm hn hr _ ih =>
    obtain ⟨t', hm', hrefs⟩ := h1 n List.mem_cons_self t hm
    exact GoodOrder.cons n t' R hm' hn (hrefs ▸ hr) (ih (fun x hx => h1 x (List.mem_cons_of_mem _ hx)))

theorem refs_of_attrs {t t' : Tag} (h : Attrs t' = Attrs t) : t'.refs = t.refs := by
  simp only [Attrs, Prod.mk.injEq] at h
  unfold Tag.refs; rw [h.1, h.2.1]

theorem akeep_get {n : String} {L L' : List (String × Tag)} {t : Tag} (h : AKeep n L L')
    (hg : sget L n = some t) : ∃ t', sget L' n = some t' ∧ Attrs t' = Attrs t := by
  unfold AKeep at h
  rw [hg] at h
  exact Option.map_eq_some_iff.mp h

theorem akeep_get' {n : String} {L L' : List (String × Tag)} {t' : Tag} (h : AKeep n L L')
    (hg : sget L' n = some t') : ∃ t, sget L n = some t ∧ Attrs t' = Attrs t := by
  unfold AKeep at h
  rw [hg] at h
  obtain ⟨t, h1, h2⟩ := Option.map_eq_some_iff.mp h.symm
  exact ⟨t, h1, h2.symm⟩

/-- a table with the same keys and the same references has a topological order too (`topo_of_fq`, stated with
    `AKeep`) -/
theorem topo_of_akeep {L L' : List (String × Tag)} (hs : Sorted L) (h : ∀ n, AKeep n L L') (ht : Topo L) :
    Topo L' := by
  obtain ⟨R, hg, hall⟩ := ht
  refine ⟨R, good_transfer' hg ?_, ?_⟩
  · intro n _ t hm
    obtain ⟨t', h1, h2⟩ := akeep_get (h n) (MgrConv.mem_sget_of_sorted _ hs _ _ hm)
    exact ⟨t', sget_mem_pair _ _ _ h1, refs_of_attrs h2⟩
  · intro k hk
    obtain ⟨t', ht'⟩ := sget_of_mem_keys _ _ hk
    obtain ⟨t, h1, _⟩ := akeep_get' (h k) ht'
    exact hall k (sget_mem_keys _ _ _ h1)

/-- closed under the propagation rules, and every payload tag pending for every stream -/
def DGood (all : Nat) (T : List (String × Tag)) : Prop :=
  (∀ n t', sget T n = some t' → Closed all T t') ∧
  (∀ n t', sget T n = some t' → Payload t' → ∀ id, id < all → id ∈ t'.unc)

/-- every entry of `T'` is an entry of `T` up to the fields the propagation rules do not look at -/
def Sub (T T' : List (String × Tag)) : Prop :=
  ∀ n t', sget T' n = some t' → ∃ t, sget T n = some t ∧ t'.mainT = t.mainT ∧ t'.subT = t.subT ∧
    t'.mfeat = t.mfeat ∧ t'.sfeat = t.sfeat ∧ t'.unc = t.unc

theorem Sub.refl (T : List (String × Tag)) : Sub T T := fun _ t' h => ⟨t', h, rfl, rfl, rfl, rfl, rfl⟩
theorem Sub.trans {A B C : List (String × Tag)} (h1 : Sub A B) (h2 : Sub B C) : Sub A C := by
  intro n t' h
  obtain ⟨t, hb, b1, b2, b3, b4, b5⟩ := h2 n t' h
  obtain ⟨t0, ha, a1, a2, a3, a4, a5⟩ := h1 n t hb
  exact ⟨t0, ha, b1.trans a1, b2.trans a2, b3.trans a3, b4.trans a4, b5.trans a5⟩

theorem sub_of_ke {T T' : List (String × Tag)} (h : ∀ n, KeepR AE n T T') : Sub T T' := by
  intro n t' ht'
  cases hg : sget T n with
  | none => rw [(h n).2 hg] at ht'; cases ht'
  | some t =>
    obtain ⟨t'', h1, _, a2, _, a4, a5, a6, a7, _⟩ := (h n).1 t hg
    rw [ht'] at h1; cases h1
    exact ⟨t, rfl, a4, a5, a6, a7, a2⟩

theorem sub_sdel (T : List (String × Tag)) (k : String) : Sub T (sdel T k) := by
  intro n t' h
  rw [sget_sdel] at h
  split at h
  · cases h
  · exact ⟨t', h, rfl, rfl, rfl, rfl, rfl⟩

theorem good_sub {all : Nat} {T T' : List (String × Tag)} (hg : DGood all T) (hs : Sub T T') : DGood all T' := by
  have hU : ∀ r, tagUnc T' r = tagUnc T r ∨ tagUnc T' r = [] := by
    intro r
    cases h : sget T' r with
    | none => right; simp [tagUnc, h]
    | some t' =>
      obtain ⟨t, ht, _, _, _, _, hu⟩ := hs r t' h
      left; simp [tagUnc, h, ht, hu]
  constructor
  · intro n t' h
    obtain ⟨t, ht, m, sb, _, _, hu⟩ := hs n t' h
    have hc := hg.1 n t ht
    constructor
    · intro r hr id hid
      rw [hu]
      rcases hU r with e | e
      · rw [e] at hid; exact hc.1 r (m ▸ hr) id hid
      · rw [e] at hid; cases hid
    · rintro ⟨r, hr, hne⟩ id hid
      rw [hu]
      rcases hU r with e | e
      · rw [e] at hne; exact hc.2 ⟨r, sb ▸ hr, hne⟩ id hid
      · exact absurd e hne
  · intro n t' h hp id hid
    obtain ⟨t, ht, _, _, mf, sf, hu⟩ := hs n t' h
    rw [hu]
    refine hg.2 n t ht ?_ id hid
    unfold Payload at hp ⊢
    rw [← mf, ← sf]; exact hp

theorem inherit_bnd (s : St) (hb : Bounded s.all s.tags) : Bounded s.all (inherit s).tags := by
  obtain ⟨res, hp, _⟩ := inheritLoop_inv s.all (fun acc => PInv s.all acc)
    (fun acc nt h => passStep_pinv _ _ _ h) (s.tags.length + 1) s.tags [] ⟨by simp, by simp, hb⟩
  exact hp.bnd

theorem odF_payload (all : Nat) (t : Tag) (hp : Payload (odF all t)) (id : Nat) (hid : id < all) :
    id ∈ (odF all t).unc := by
  unfold odF at hp ⊢
  split
  · simpa using hid
  · rename_i hc
    rw [if_neg hc] at hp
    exact absurd (by simpa [Payload] using hp) hc

/-- `outputDropped` on a sorted, bounded table with a topological order -/
theorem outputDropped_table (Z : St) (choice : Option String) (hs : Sorted Z.tags) (hb : Bounded Z.all Z.tags)
    (htopo : Topo Z.tags) :
    Sorted (outputDropped Z choice).tags ∧ Bounded Z.all (outputDropped Z choice).tags ∧
    (DGood Z.all Z.tags → DGood Z.all (outputDropped Z choice).tags) ∧
    (Z.tags.any (fun nt => (nt.2.mfeat ||| nt.2.sfeat) &&& fData != 0) = true →
      DGood Z.all (outputDropped Z choice).tags) := by
  by_cases hp : Z.tags.any (fun nt => (nt.2.mfeat ||| nt.2.sfeat) &&& fData != 0) = true
  · rw [outputDropped_tags Z choice hp]
    generalize hY : ({ Z with tags := Z.tags.map fun p => (p.1, odF Z.all p.2) } : St) = Y
    have hYt : Y.tags = Z.tags.map fun p => (p.1, odF Z.all p.2) := by rw [← hY]
    have hYa : Y.all = Z.all := by rw [← hY]
    have hget : ∀ n, sget Y.tags n = (sget Z.tags n).map (odF Z.all) := by
      intro n; rw [hYt]; exact sget_map (fun _ t => odF Z.all t) Z.tags n
    have hYs : Sorted Y.tags := by
      apply sorted_of_keys_eq _ _ _ hs
      rw [hYt]; simp [Function.comp_def]
    have hYb : Bounded Y.all Y.tags := by
      intro n t' h id hid
      rw [hget] at h
      obtain ⟨t, ht, rfl⟩ := Option.map_eq_some_iff.mp h
      rw [hYa]
      revert hid
      unfold odF
      split
      · intro hid; simpa using hid
      · intro hid; exact hb n t ht id hid
    have hYtopo : Topo Y.tags :=
      topo_of_akeep hs (fun n => hYt ▸ akeep_map (fun _ t => odF Z.all t) (fun _ t => attrs_odF _ t) n Z.tags) htopo
    have hok := inheritLoop_ok Y.all Y.tags hYs hYtopo
    have hgood : DGood Z.all (inherit Y).tags := by
      rw [← hYa]
      constructor
      · intro n t' h; exact inherit_closed_aux Y hYs hYb hok n t' h
      · intro n t' h hpay id hid
        have hk := inherit_keepR Y n
        cases hy : sget Y.tags n with
        | none => rw [hk.2 hy] at h; cases h
        | some ty =>
          obtain ⟨t'', h'', _, _, _, _, a5, a6, _, a8⟩ := hk.1 ty hy
          rw [h] at h''; cases h''
          rw [hget] at hy
          obtain ⟨t, _, rfl⟩ := Option.map_eq_some_iff.mp hy
          refine a8 id (odF_payload _ t ?_ id (hYa ▸ hid)) hid
          unfold Payload at hpay ⊢
          rw [← a5, ← a6]; exact hpay
    exact ⟨inherit_sorted Y hYs, hYa ▸ inherit_bnd Y hYb, fun _ => hgood, fun _ => hgood⟩
  · rw [outputDropped_idle Z choice hp]
    exact ⟨hs, hb, id, fun h => absurd h hp⟩

theorem dcBase_table (X : St) (name c : String) (tX : Tag) (hx : sget X.tags name = some tX)
    (hs : Sorted X.tags) (hb : Bounded X.all X.tags) (htopo : Topo X.tags) :
    Sorted (dcBase X name c tX).tags ∧ Bounded X.all (dcBase X name c tX).tags ∧ Topo (dcBase X name c tX).tags ∧
    Sub X.tags (dcBase X name c tX).tags := by
  refine ⟨sorted_sins _ _ _ hs, ?_, ?_, ?_⟩
  · intro n t' h
    simp only [dcBase, sget_sins] at h
    split at h
    · cases h; exact hb name tX hx
    · exact hb n t' h
  · exact topo_of_akeep hs (fun n => akeep_sins_attrs hx (t' := dcTag tX c) rfl n) htopo
  · exact sub_of_ke fun n => keepR_sins_rel AE.refl hx (t' := dcTag tX c)
      (by exact ⟨rfl, rfl, rfl, rfl, rfl, rfl, rfl, rfl⟩) n

theorem detachConv_table (X : St) (name c : String) (choice : Option String) (tX : Tag)
    (hx : sget X.tags name = some tX) (hs : Sorted X.tags) (hb : Bounded X.all X.tags) (htopo : Topo X.tags) :
    Sorted (detachConv X name c choice).tags ∧ Bounded X.all (detachConv X name c choice).tags ∧
    (DGood X.all X.tags → DGood X.all (detachConv X name c choice).tags) ∧
    (dcOthers X name c tX = [] → (∃ n t, sget X.tags n = some t ∧ Payload t) →
      DGood X.all (detachConv X name c choice).tags) := by
  obtain ⟨b1, b2, b3, b4⟩ := dcBase_table X name c tX hx hs hb htopo
  rw [detachConv_dc X name c choice tX hx]
  split
  · obtain ⟨o1, o2, o3, o4⟩ :=
      outputDropped_table { dcBase X name c tX with cached := sins c [] X.cached } choice b1 b2 b3
    exact ⟨o1, o2, fun hg => o3 (good_sub hg b4), fun _ hp => o4 (dcBase_any X name c tX hx hp)⟩
  · rename_i hne
    exact ⟨b1, b2, fun hg => good_sub hg b4, fun h0 => absurd (by rw [h0]; rfl) hne⟩

/-- the fold of `detachConv` calls of an `updConv` / `delTag` on a sorted, bounded table with a topological order -/
theorem detachFold_table (name : String) (choice : Option String) (T0 : List (String × Tag)) (all : Nat)
    (hs0 : Sorted T0) (htopo : Topo T0)
    (hname : ∃ t, sget T0 name = some t) (hp : ∃ n t, sget T0 n = some t ∧ Payload t)
    (L : List String) (X : St) (hall : X.all = all) (hs : Sorted X.tags) (hb : Bounded all X.tags)
    (hak : ∀ n, AKeep n T0 X.tags) (hsrc : Src name T0 X.tags) :
    (DGood all X.tags → DGood all (L.foldl (fun s c => detachConv s name c choice) X).tags) ∧
    ((∃ c, c ∈ L ∧ othersOf T0 name c = []) →
      DGood all (L.foldl (fun s c => detachConv s name c choice) X).tags) := by
  induction L generalizing X with
  | nil => exact ⟨id, fun ⟨c, hc, _⟩ => by cases hc⟩
  | cons c L ih =>
    simp only [List.foldl_cons]
    obtain ⟨t0, ht0⟩ := hname
    obtain ⟨tX, hx, _⟩ := akeep_get (hak name) ht0
    subst hall
    obtain ⟨s1, s2, s3, s4⟩ := detachConv_table X name c choice tX hx hs hb (topo_of_akeep hs0 hak htopo)
    have hak' : ∀ n, AKeep n T0 (detachConv X name c choice).tags :=
      fun n => (hak n).trans (detachConv_afr X name c choice n trivial)
    have hsrc' := detachConv_src X c choice tX hx hsrc
    obtain ⟨f1, f2⟩ := ih (detachConv X name c choice) (detachConv_fr X name c choice).all s1 s2 hak' hsrc'
    refine ⟨fun hg => f1 (s3 hg), ?_⟩
    rintro ⟨c', hc', h0⟩
    rcases List.mem_cons.mp hc' with rfl | hc'
    · exact f1 (s4 (dcOthers_nil X c' tX hsrc h0) (payload_akeep hak hp))
    · exact f2 ⟨c', hc', h0⟩

theorem attachConv_ke (n : String) (s : St) (m c : String) : KE n s (attachConv s m c).1 := by
  unfold attachConv
  split
  · exact KE.refl _ _
  · rename_i t ht
    split
    · exact KE.refl _ _
    · split
      · exact KE.refl _ _
      · exact keepR_sins_rel AE.refl ht (t' := { t with convs := t.convs ++ [c] })
          (by exact ⟨rfl, rfl, rfl, rfl, rfl, rfl, rfl, rfl⟩) n

/-- after an event that dropped converter output, the table is closed under the propagation rules and every
    payload tag is pending for every stream -/
theorem dropped_table (s : St) (e : Ev) (st : Started)
    (he : (∃ name convs, e = .updConv name convs) ∨ (∃ name, e = .delTag name))
    (hok : (step s e st).2 = Res.ok) (hd : DropsOutput s e)
    (hp : ∃ n t, sget s.tags n = some t ∧ Payload t)
    (hw : Sorted s.tags) (hb : ∀ n t, sget s.tags n = some t → ∀ id, id ∈ t.unc → id < s.all)
    (ht : Pk.Proofs.MgrTermination.Topo s.tags) :
    (∀ n t', sget (step s e st).1.tags n = some t' → Closed s.all (step s e st).1.tags t') ∧
    (∀ n t', sget (step s e st).1.tags n = some t' → Payload t' → ∀ id, id < s.all → id ∈ t'.unc) := by
  show DGood s.all (step s e st).1.tags
  obtain ⟨c, hc, h0⟩ := hd
  rcases he with ⟨name, convs, rfl⟩ | ⟨name, rfl⟩
  · revert hok
    rw [step_updConv_eq]
    simp only [detached, evName] at hc h0
    split
    · intro h; cases h
    · rename_i t hg
      rw [hg] at hc
      split
      · intro h; cases h
      · intro _
        obtain ⟨_, f2⟩ := detachFold_table name st.tag s.tags s.all hw ht ⟨t, hg⟩ hp
          (t.convs.filter (fun c => !convs.contains c)) s rfl hw hb (fun n => AKeep.refl _ _) (Src.refl _ _)
        refine good_sub (f2 ⟨c, hc, h0⟩) (sub_of_ke fun n => ?_)
        show KE n (ucDetach s name t convs st.tag) (startConverter (ucAttach (ucDetach s name t convs st.tag) name convs))
        unfold ucAttach
        exact (foldl_ke n _ (fun s c => attachConv_ke n s name c) _ _).trans (KE.of_same (startConverter_same _))
  · revert hok
    rw [step_delTag_eq]
    simp only [detached, evName] at hc h0
    split
    · intro h; cases h
    · rename_i t hg
      rw [hg] at hc
      split
      · intro h; cases h
      · intro _
        obtain ⟨_, f2⟩ := detachFold_table name st.tag s.tags s.all hw ht ⟨t, hg⟩ hp
          t.convs s rfl hw hb (fun n => AKeep.refl _ _) (Src.refl _ _)
        refine good_sub (f2 ⟨c, hc, h0⟩) ?_
        show Sub _ (dtApply s name t st.tag).tags
        unfold dtApply
        exact (sub_sdel _ name).trans
          (sub_of_ke fun n => foldl_ke n _ (fun s r => delRefBy_ke n s r name) t.refs
            { (t.convs.foldl (fun s c => detachConv s name c st.tag) s) with
              tags := sdel (t.convs.foldl (fun s c => detachConv s name c st.tag) s).tags name })

end dropped

end Pk.Proofs.MgrTruth
