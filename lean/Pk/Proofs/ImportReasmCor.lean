/-
  Helper lemmas for Pk/Props/C05Reasm.lean: the disturbance vocabulary (retransmission runs,
  permuted in-order runs) reduced to "data segments of B that cover B".
-/
import Pk.Proofs.ImportReasmRun

namespace Pk.Proofs.ImportReasm
open Pk.Import

theorem SeqLinear.mono {isn n m : Nat} (h : SeqLinear isn n) (hm : m ≤ n) : SeqLinear isn m := by
  obtain ⟨h1, h2⟩ := h
  exact ⟨by omega, by omega⟩

theorem slice_take_eq {B : Bytes} {a b m : Nat} (hb : b ≤ m) : slice (B.take m) a b = slice B a b := by
  unfold slice
  rw [List.drop_take, List.take_take]
  congr 1; omega

theorem DataPkt.restrict {isn : Nat} {B : Bytes} {p : Pkt} (h : DataPkt isn B p) {m : Nat}
    (hm : pEnd isn p ≤ m) : DataPkt isn (B.take m) p := by
  obtain ⟨h1, h2, h3, h4⟩ := h
  refine ⟨h1, h2, ?_, ?_⟩
  · rw [List.length_take]; omega
  · rw [slice_take_eq hm]; exact h4

theorem SegPkt.restrict {isn : Nat} {B : Bytes} {p : Pkt} (h : SegPkt isn B p) {m : Nat}
    (hm : pEnd isn p ≤ m) : SegPkt isn (B.take m) p := by
  obtain ⟨h1, h2, h3, h4⟩ := h
  refine ⟨h1, h2, ?_, ?_⟩
  · rw [List.length_take]; omega
  · rw [slice_take_eq hm]; exact h4

theorem ChunksOk.of_take {isn : Nat} {B : Bytes} {m n0 : Nat} {done : List Pkt} {c : Nat} {chunks : List (Nat × Bytes)}
    (h : ChunksOk isn (B.take m) n0 done c chunks) : ChunksOk isn B n0 done c chunks := by
  induction h with
  | nil => exact .nil
  | cons _ h1 h2 h3 h4 h5 h6 ih =>
    rw [List.length_take] at h2
    rw [slice_take_eq (by omega)]
    exact .cons ih h1 (by omega) h3 h4 h5 h6

/-! ### retransmissions -/

/-- `RetransRun isn B c ps`: a run of segments of `B` (`SegPkt`: data segments, also empty ones) in
    which no segment starts beyond what has been sent so far (`c` = offset reached by the earlier
    segments).  In-order segments start exactly there; exact retransmissions and re-segmentations
    of earlier bytes start before it and may end before, at or after it. -/
def RetransRun (isn : Nat) (B : Bytes) : Nat → List Pkt → Prop
  | _, [] => True
  | c, p :: rest => SegPkt isn B p ∧ pOff isn p ≤ c ∧ RetransRun isn B (max c (pEnd isn p)) rest

instance (isn : Nat) (B : Bytes) : (c : Nat) → (ps : List Pkt) → Decidable (RetransRun isn B c ps)
  | _, [] => isTrue trivial
  | c, p :: rest =>
    have := instDecidableRetransRun isn B (max c (pEnd isn p)) rest
    by unfold RetransRun; infer_instance

/-- the offset reached by a run that starts at offset `c` -/
def reach (isn : Nat) : Nat → List Pkt → Nat
  | c, [] => c
  | c, p :: rest => reach isn (max c (pEnd isn p)) rest

theorem retransRun_covers {isn : Nat} {B : Bytes} (ps : List Pkt) : ∀ c, RetransRun isn B c ps →
    c ≤ reach isn c ps ∧ (∀ p ∈ ps, SegPkt isn B p ∧ pEnd isn p ≤ reach isn c ps) ∧
    ∀ x, c ≤ x → x < reach isn c ps → ∃ p ∈ ps, pOff isn p ≤ x ∧ x < pEnd isn p := by
  induction ps with
  | nil => intro c _; exact ⟨Nat.le_refl _, (by intro p hm; cases hm), (by intro x h1 h2; simp [reach] at h2; omega)⟩
  | cons p rest ih =>
    intro c ⟨h1, h2, h3⟩
    obtain ⟨i1, i2, i3⟩ := ih _ h3
    simp only [reach]
    refine ⟨by omega, ?_, ?_⟩
    · intro q hm
      rcases List.mem_cons.mp hm with rfl | hm
      · exact ⟨h1, by omega⟩
      · exact i2 q hm
    · intro x hx1 hx2
      by_cases hx : x < pEnd isn p
      · exact ⟨p, List.mem_cons_self .., by omega, hx⟩
      · obtain ⟨q, hm, hq⟩ := i3 x (by omega) hx2
        exact ⟨q, List.mem_cons_of_mem _ hm, hq⟩

/-! ### the undisturbed segment sequence as data segments of its payload -/

theorem inorder_data {isn : Nat} (l : List Pkt) : ∀ (pre : Bytes),
    SeqLinear isn (pre ++ payloadOf l).length → InOrder (isn + pre.length) l →
    (∀ p ∈ l, DataPkt isn (pre ++ payloadOf l) p) ∧
    ∀ x, pre.length ≤ x → x < (pre ++ payloadOf l).length → ∃ p ∈ l, pOff isn p ≤ x ∧ x < pEnd isn p := by
  induction l with
  | nil =>
    intro pre _ _
    exact ⟨(by intro p hm; cases hm), (by intro x h1 h2; simp [payloadOf] at h2; omega)⟩
  | cons p rest ih =>
    intro pre hl ⟨hs, hp, hrest⟩
    have hB : pre ++ payloadOf (p :: rest) = (pre ++ p.payload) ++ payloadOf rest := by
      simp [payloadOf]
    rw [hB] at hl ⊢
    have hlen : (pre ++ p.payload ++ payloadOf rest).length = pre.length + p.payload.length + (payloadOf rest).length := by
      simp only [List.length_append]
    have hsa : seqAdd (isn + pre.length) p.payload.length = isn + (pre ++ p.payload).length := by
      rw [seqAdd_lin hl (by omega)]; simp; omega
    rw [hsa] at hrest
    obtain ⟨i1, i2⟩ := ih (pre ++ p.payload) hl hrest
    have ho : pOff isn p = pre.length := by unfold pOff; omega
    have he : pEnd isn p = pre.length + p.payload.length := by unfold pEnd; omega
    have hdp : DataPkt isn (pre ++ p.payload ++ payloadOf rest) p := by
      refine ⟨hp, by omega, by rw [he, hlen]; omega, ?_⟩
      rw [ho, he]
      unfold slice
      rw [List.append_assoc, List.drop_left]
      have : pre.length + p.payload.length - pre.length = p.payload.length := by omega
      rw [this, List.take_left]
    refine ⟨?_, ?_⟩
    · intro q hm
      rcases List.mem_cons.mp hm with rfl | hm
      · exact hdp
      · exact i1 q hm
    · intro x hx1 hx2
      by_cases hx : x < pre.length + p.payload.length
      · exact ⟨p, List.mem_cons_self .., by omega, by omega⟩
      · obtain ⟨q, hm, hq⟩ := i2 x (by simp; omega) hx2
        exact ⟨q, List.mem_cons_of_mem _ hm, hq⟩

end Pk.Proofs.ImportReasm
