/-
  Helper lemmas for C09 `settles`, part 4: every job completion strictly decreases the measure.
-/
import Pk.Proofs.MgrTerminationConv
import Pk.Proofs.MgrTagsStep
import Pk.Proofs.MgrTruthEdit
namespace Pk.Proofs.MgrTermination
open Pk.Mgr Pk.Proofs.MgrTags
open Pk.Proofs.MgrConv (cOf qOf activeOf sc2 clr1 add1 foundOf)

/-! ## the common tail of the completions: `start…JobIfNeeded`, then release the held files -/

structure TailOK (X Y : St) : Prop where
  h1 : m1 Y = m1 X
  h2 : m2 Y ≤ m2 X
  h3 : m3 Y ≤ m3 X ∨ m2 Y < m2 X
  h4 : m4 Y ≤ m4 X
  h5 : m5 Y ≤ m5 X
  h6 : m6 Y = m6 X

theorem tail_core (X : St) (c : Option String) (hs : Sorted X.tags) (hj : X.convert = false → X.jConv = none)
    (hb : ∀ sets held, (startConverter (startTagging X c)).jConv = some (sets, held) →
      ∀ p ∈ sets, ∀ id ∈ p.2, id < X.all) :
    TailOK X (startConverter (startTagging X c)) := by
  have hC := mC_congr (startTagging_coreC X c)
  have hT := mT_congr (startConverter_coreT (startTagging X c))
  have hcc : coreC (startTagging X c) = coreC X := startTagging_coreC X c
  have hj' : (startTagging X c).convert = false → (startTagging X c).jConv = none := by
    simp only [coreC, Prod.mk.injEq] at hcc
    rw [hcc.2.2.2.1, hcc.2.2.2.2.2]; exact hj
  have hm := startConverter_meas (startTagging X c) hj' (by rw [startTagging_all]; exact hb)
  have hst := startTagging_meas X c hs
  refine ⟨?_, ?_, ?_, ?_, ?_, ?_⟩
  · simp only [m1, startConverter_queue, startTagging_queue]
  · rw [← hC.1]; exact hm.1
  · rw [← hC.1, ← hC.2.1]; exact hm.2.1
  · rw [hT.1]
    simp only [m4, startTagging_tags]
    have := hst.1; have := hst.2
    omega
  · rw [← hC.2.2]; exact hm.2.2
  · rw [hT.2]; simp only [m6, startTagging_tags]

theorem TailOK.congr {X Y Z : St} (h : TailOK X Y) (hq : Z.queue = Y.queue) (hc : coreC Z = coreC Y)
    (ht : coreT Z = coreT Y) : TailOK X Z := by
  have hC := mC_congr hc
  have hT := mT_congr ht
  refine ⟨?_, ?_, ?_, ?_, ?_, ?_⟩
  · have := h.h1; simp only [m1, hq] at this ⊢; exact this
  · rw [hC.1]; exact h.h2
  · rw [hC.1, hC.2.1]; exact h.h3
  · rw [hT.1]; exact h.h4
  · rw [hC.2.2]; exact h.h5
  · rw [hT.2]; exact h.h6

/-- tail of a converter-job completion -/
theorem tail2 (X : St) (c : Option String) (held : List Nat) (hs : Sorted X.tags)
    (hj : X.convert = false → X.jConv = none)
    (hb : ∀ sets h', (release (startConverter (startTagging X c)) held).jConv = some (sets, h') →
      ∀ p ∈ sets, ∀ id ∈ p.2, id < X.all) :
    TailOK X (release (startConverter (startTagging X c)) held) := by
  have hc := release_coreC (startConverter (startTagging X c)) held
  refine (tail_core X c hs hj ?_).congr (release_queue _ _) hc (release_coreT _ _)
  intro sets h' he
  apply hb sets h'
  simp only [coreC, Prod.mk.injEq] at hc
  rw [hc.2.2.2.1]; exact he

/-- tail of a tagging-job completion -/
theorem tail3 (X : St) (st : Started) (held : List Nat) (hs : Sorted X.tags)
    (hj : X.convert = false → X.jConv = none)
    (hb : ∀ sets h', (release (jobTail X st) held).jConv = some (sets, h') →
      ∀ p ∈ sets, ∀ id ∈ p.2, id < X.all) :
    TailOK X (release (jobTail X st) held) := by
  unfold jobTail at hb ⊢
  have hc : coreC (release (startMerge (startConverter (startTagging X st.tag))) held) =
      coreC (startConverter (startTagging X st.tag)) := (release_coreC _ _).trans (startMerge_coreC _)
  refine (tail_core X st.tag hs hj ?_).congr ((release_queue _ _).trans (startMerge_queue _)) hc
    ((release_coreT _ _).trans (startMerge_coreT _))
  intro sets h' he
  apply hb sets h'
  simp only [coreC, Prod.mk.injEq] at hc
  rw [hc.2.2.2.1]; exact he

/-! ## import completion -/

theorem idApply_queue (s : St) (n : Nat) (created : List (Nat × List Nat)) (u r a : IdSet) :
    (idApply s n created u r a).queue = s.queue := by
  unfold idApply
  split
  · rfl
  · simp only [MgrSettle.invalidateConverters_queue, MgrSettle.invalidateTags_queue]
    rfl

theorem importDone_m1 (s : St) (st : Started) (processed usednew : Nat) (created : List (Nat × List Nat))
    (upd rst add : List Nat) (jn : Nat) (held : List Nat) (hj : s.jImport = some (jn, held))
    (hp : 0 < processed ∧ processed ≤ s.queue.length) :
    m1 (step s (.importDone processed usednew created upd rst add) st).1 < m1 s := by
  rw [step_importDone_eq, hj]
  simp only [m1, jobTail, startMerge_queue, startConverter_queue, startTagging_queue]
  have : ∀ Z : St, (idQueue Z).queue = Z.queue := by
    intro Z; unfold idQueue; split
    · rfl
    · rfl
  rw [this]
  simp only [idApply_queue, release_queue, List.length_drop]
  omega

/-! ## merge completion -/

theorem mergeOffsetGo_unm (s : St) (l : List Nat) (i n j : Nat) (h : mergeOffsetGo s l i n = some j) :
    s.unm ≤ j := by
  induction l generalizing i n with
  | nil => simp [mergeOffsetGo] at h
  | cons f fs ih =>
    simp only [mergeOffsetGo] at h
    split at h
    · rename_i hc
      simp only [Option.some.injEq] at h
      subst h
      exact hc.1
    · exact ih _ _ h

theorem startMerge_m7 (Z : St) (hm : Z.merge = false) :
    (startMerge Z).idx = Z.idx ∧ (startMerge Z).unm = Z.unm ∧
    ((startMerge Z).merge = true → Z.unm < Z.idx.length) := by
  unfold startMerge
  split
  · exact ⟨rfl, rfl, fun h => by rw [hm] at h; cases h⟩
  · split
    · exact ⟨rfl, rfl, fun h => by rw [hm] at h; cases h⟩
    · split
      · exact ⟨rfl, rfl, fun h => by rw [hm] at h; cases h⟩
      · rename_i i hi
        refine ⟨rfl, rfl, fun _ => ?_⟩
        have h1 := MgrSettle.mergeOffset_bound Z i hi
        have h2 := mergeOffsetGo_unm Z Z.idx 0 Z.nrec i hi
        omega

theorem mdApply_fr {γ : Type _} (g : St → γ)
    (h : ∀ s u f i m n, g { s with used := u, files := f, idx := i, unm := m, nrec := n } = g s)
    (s : St) (off : Nat) (held : List Nat) (merged : List (Nat × List Nat)) :
    g (mdApply s off held merged) = g s := by
  unfold mdApply
  split
  · exact h s s.used s.files s.idx _ s.nrec
  · dsimp only
    rw [h]
    exact release_fr g (fun s u f => h s u f s.idx s.unm s.nrec) _ _

theorem mergeDone_rest (s : St) (st : Started) (merged : List (Nat × List Nat)) (off : Nat) (held : List Nat)
    (hj : s.jMerge = some (off, held)) :
    (step s (.mergeDone merged) st).1.queue = s.queue ∧
    coreC (step s (.mergeDone merged) st).1 = coreC s ∧ coreT (step s (.mergeDone merged) st).1 = coreT s := by
  rw [step_mergeDone_eq, hj]
  dsimp only
  refine ⟨?_, ?_, ?_⟩
  · rw [release_queue, startMerge_queue]
    exact mdApply_fr (·.queue) (fun _ _ _ _ _ _ => rfl) _ _ _ _
  · rw [release_coreC, startMerge_coreC]
    exact mdApply_fr coreC (fun _ _ _ _ _ _ => rfl) { s with jMerge := none } _ _ _
  · rw [release_coreT, startMerge_coreT]
    exact mdApply_fr coreT (fun _ _ _ _ _ _ => rfl) { s with jMerge := none } _ _ _

theorem mergeDone_m7 (s : St) (st : Started) (merged : List (Nat × List Nat)) (off : Nat) (held : List Nat)
    (hj : s.jMerge = some (off, held)) (hm : s.merge = true) (h2 : merged ≠ [] → 2 ≤ held.length)
    (hh : held = (s.idx.drop off).take held.length) :
    m7 (step s (.mergeDone merged) st).1 < m7 s := by
  rw [step_mergeDone_eq, hj]
  dsimp only
  have hlen : held.length ≤ s.idx.length - off := by
    have := congrArg List.length hh
    simp only [List.length_take, List.length_drop] at this
    omega
  rw [m7_congr (release_coreM _ _)]
  generalize hZ : ({ mdApply { s with jMerge := none } off held merged with merge := false } : St) = Z
  have hZm : Z.merge = false := by rw [← hZ]
  obtain ⟨e1, e2, e3⟩ := startMerge_m7 Z hZm
  have hidx : Z.idx.length = if merged.isEmpty then s.idx.length else s.idx.length - held.length + merged.length := by
    rw [← hZ]
    simp only [mdApply]
    split
    · rfl
    · simp only [List.length_append, List.length_take, List.length_drop, List.length_map, release_idx]
      omega
  have hunm : Z.unm = if merged.isEmpty then s.unm + 1 else s.unm + (merged.length - 1) := by
    rw [← hZ]
    simp only [mdApply]
    split
    · rfl
    · simp only [release_unm]
  simp only [m7, e1, e2, hm, if_true]
  have hk : merged.isEmpty = false → 1 ≤ merged.length := by
    intro h
    cases merged with
    | nil => simp at h
    | cons a l => simp
  by_cases hme : merged.isEmpty = true
  · simp only [hme, if_true] at hidx hunm
    rw [hidx, hunm]
    split
    · rename_i hf; have := e3 hf; omega
    · omega
  · have hme' : merged.isEmpty = false := by simpa using hme
    simp only [hme', Bool.false_eq_true, if_false] at hidx hunm
    have := hk hme'
    have := h2 (by intro e; rw [e] at hme'; simp at hme')
    rw [hidx, hunm]
    split
    · rename_i hf; have := e3 hf; omega
    · omega


/-! ## converter-job completion -/

theorem m23_congr {a b : St} (h1 : a.convs = b.convs) (h2 : a.all = b.all) (h3 : a.cached = b.cached)
    (h4 : a.jConv = b.jConv) : m2 a = m2 b ∧ m3 a = m3 b := by
  simp only [m2, m3, cOf, h1, h2, h3, h4, and_self]

theorem m2_congr {a b : St} (h1 : a.convs = b.convs) (h2 : a.all = b.all) (h3 : a.cached = b.cached) :
    m2 a = m2 b := by
  simp only [m2, cOf, h1, h2, h3]

theorem cdMark_noop (s : St) (p : String × IdSet) (h : ¬ (p.1 ∈ s.convs ∧ p.2 ≠ [])) : cdMark s p = s := by
  unfold cdMark
  split
  · rfl
  · rename_i hc
    have hc' : p.1 ∈ s.convs := by simpa using hc
    have hp : p.2 = [] := by
      cases hp : p.2 with
      | nil => rfl
      | cons a l => exact absurd ⟨hc', by rw [hp]; simp⟩ h
    rw [hp]
    have hF : ∀ t, cdF s.all [] t = t := by
      intro t; unfold cdF
      split
      · rfl
      · split <;> rfl
    have hm : s.tags.map (fun q => (q.1, cdF s.all [] q.2)) = s.tags := by
      simp only [hF]; exact List.map_id' _
    rw [hm]
    rfl

theorem cdMark_fr {γ : Type _} (g : St → γ) (h : ∀ s t u, g { s with tags := t, upd := u } = g s)
    (s : St) (p : String × IdSet) : g (cdMark s p) = g s := by
  unfold cdMark
  split
  · rfl
  · exact h s _ _

theorem cdFold_noop (sets : List (String × IdSet)) (s : St)
    (h : ∀ p ∈ sets, ¬ (p.1 ∈ s.convs ∧ p.2 ≠ [])) : sets.foldl cdMark s = s := by
  induction sets with
  | nil => rfl
  | cons a l ih =>
    simp only [List.foldl_cons]
    rw [cdMark_noop s a (h a List.mem_cons_self)]
    exact ih (fun p hp => h p (List.mem_cons_of_mem _ hp))

theorem jb_inherit (s : St) (hub : ∀ n t, sget s.tags n = some t → ∀ id, id ∈ t.unc → id < s.all) :
    jb (inherit s) ≤ jb s := by
  unfold jb
  by_cases hb : jobBad s = true
  · simp only [hb, if_true]; split <;> omega
  · have hb' : jobBad s = false := by simpa using hb
    suffices h : jobBad (inherit s) = false by simp [h]
    unfold jobBad at hb' ⊢
    have hjt : (inherit s).jTag = s.jTag := rfl
    rw [hjt]
    cases hj : s.jTag with
    | none => rfl
    | some q =>
      obtain ⟨n, snap, hh⟩ := q
      rw [hj] at hb'
      dsimp only at hb' ⊢
      cases hg : sget s.tags n with
      | none => rw [hg] at hb'; cases hb'
      | some ot =>
        rw [hg] at hb'
        dsimp only at hb'
        obtain ⟨t', ht', hrel⟩ := (MgrTruth.inherit_keepR s n).1 ot hg
        rw [ht']
        dsimp only
        simp only [Bool.not_eq_false', Bool.and_eq_true, beq_iff_eq, Bool.not_eq_true',
          List.isEmpty_eq_false_iff] at hb' ⊢
        obtain ⟨_, r2, _, _, _, _, r7, r8⟩ := hrel
        refine ⟨⟨r2.trans hb'.1.1, r7.trans hb'.1.2⟩, ?_⟩
        obtain ⟨x, hx⟩ := exists_mem_of_ne_nil hb'.2
        exact ne_nil_of_mem (r8 x hx (hub n ot hg x hx))

theorem sur_inherit (s : St) (hs : Sorted s.tags) : sur (inherit s) = sur s := by
  have hl := length_of_keys (inherit_sweep s hs).1
  unfold sur masksEmpty
  rw [hl]
  rfl

theorem inherit_coreC (s : St) : coreC (inherit s) = coreC s := rfl
theorem inherit_queue (s : St) : (inherit s).queue = s.queue := rfl

theorem convertDone_lt (s : St) (st : Started) (sets : List (String × IdSet)) (held : List Nat)
    (hj : s.jConv = some (sets, held)) (hcv : s.convert = true) (hs : Sorted s.tags)
    (hs' : Sorted (step s .convertDone st).1.tags)
    (hub : ∀ n t, sget s.tags n = some t → ∀ id, id ∈ t.unc → id < s.all)
    (hb' : ∀ sets' h', (step s .convertDone st).1.jConv = some (sets', h') →
      ∀ p ∈ sets', ∀ id ∈ p.2, id < (step s .convertDone st).1.all) :
    LexLt (mu (step s .convertDone st).1) (mu s) := by
  rw [step_convertDone_eq, hj] at hs' hb' ⊢
  dsimp only at hs' hb' ⊢
  generalize hF : sets.foldl cdMark { s with convert := false, jConv := none } = F at hs' hb' ⊢
  have hFq : F.queue = s.queue := by
    rw [← hF]; exact foldl_fr (g := (·.queue)) _ _ (fun s p => cdMark_fr (·.queue) (fun _ _ _ => rfl) s p)
  have hFc : coreC F = coreC { s with convert := false, jConv := none } := by
    rw [← hF]; exact foldl_fr (g := coreC) _ _ (fun s p => cdMark_fr coreC (fun _ _ _ => rfl) s p)
  have hFc' := hFc
  simp only [coreC, Prod.mk.injEq] at hFc'
  obtain ⟨c1, c2, c3, c4, c5, c6⟩ := hFc'
  -- the tail
  have hXtags : (release (startConverter (startTagging (inherit F) st.tag)) held).tags = (inherit F).tags := by
    have h1 := release_coreT (startConverter (startTagging (inherit F) st.tag)) held
    have h2 := startConverter_coreT (startTagging (inherit F) st.tag)
    simp only [coreT, Prod.mk.injEq] at h1 h2
    rw [h1.1, h2.1, startTagging_tags]
  have hXall : (release (startConverter (startTagging (inherit F) st.tag)) held).all = (inherit F).all := by
    rw [release_all, startConverter_all, startTagging_all]
  rw [hXtags] at hs'
  rw [hXall] at hb'
  have htl := tail2 (inherit F) st.tag held hs' (fun _ => c4) hb'
  have h23 : m2 (inherit F) = m2 s := m2_congr (a := inherit F) (b := s) c1 c2 c3
  -- `inherit F` has no converter job
  have hm3X : m3 (inherit F) = 0 := by
    simp only [m3, show (inherit F).jConv = F.jConv from rfl, c4]
  have hm1 : m1 (inherit F) = m1 s := by simp only [m1, inherit_queue, hFq]
  by_cases h3 : m3 s = 0
  · -- nothing is handed back: the tags are only swept
    have hnoop : F = { s with convert := false, jConv := none } := by
      rw [← hF]
      apply cdFold_noop
      intro p hp hpp
      simp only [m3, hj] at h3
      split at h3
      · cases h3
      · rename_i hany
        apply hany
        apply List.any_eq_true.mpr
        exact ⟨p, hp, by simp [hpp.1, hpp.2]⟩
    have hm4 : m4 (inherit F) ≤ m4 s := by
      rw [hnoop]
      have e1 := tcount_inherit { s with convert := false, jConv := none } hs
      have e2 := jb_inherit { s with convert := false, jConv := none } hub
      have e3 := sur_inherit { s with convert := false, jConv := none } hs
      have e4 : m4 { s with convert := false, jConv := none } = m4 s := (mT_congr rfl).1
      rw [← e4]
      unfold m4
      omega
    have hm5 : m5 (inherit F) < m5 s := by
      have : m5 (inherit F) = m5 F := (mC_congr (inherit_coreC F)).2.2
      rw [this, hnoop]
      simp only [m5, qOf, hcv, if_true, Bool.false_eq_true, if_false]
      omega
    apply lex7
    have := htl.h1; have := htl.h2; have := htl.h3; have := htl.h4; have := htl.h5
    omega
  · have h3' : m3 s = 1 := by
      simp only [m3, hj] at h3 ⊢
      split
      · rfl
      · rename_i h; rw [if_neg h] at h3; exact absurd rfl h3
    apply lex7
    have := htl.h1; have := htl.h2; have := htl.h3
    omega


/-! ## tagging-job completion -/

/-- converters are attached to reference-free tags only -/
def ConvPlain (s : St) : Prop := ∀ n t, sget s.tags n = some t → t.convs ≠ [] → t.mainT = [] ∧ t.subT = []

theorem qConv_fr {γ : Type _} (g : St → γ) (h : ∀ s t, g { s with toconv := t } = g s)
    (s : St) (cs : List String) (ids : IdSet) : g (qConv s cs ids) = g s := by
  unfold qConv
  exact foldl_fr _ _ (fun s c => h s _)

theorem invalidateTags_keys (Y : St) (hs : Sorted Y.tags) (u r a : IdSet) :
    (invalidateTags Y u r a).tags.map (·.1) = Y.tags.map (·.1) := by
  rw [invalidateTags_eq]
  have hk : (Y.tags.map fun p => (p.1, invF Y.all u r a p.2)).map (·.1) = Y.tags.map (·.1) := by
    simp [List.map_map, Function.comp_def]
  have hs2 : Sorted ({ Y with tags := Y.tags.map fun p => (p.1, invF Y.all u r a p.2) } : St).tags := by
    unfold Sorted; rw [hk]; exact hs
  exact (inherit_sweep _ hs2).1.trans hk

theorem tdPublish_fr {γ : Type _} (g : St → γ)
    (h : ∀ s t c d, g { s with tags := t, toconv := c, diverged := d } = g s)
    (s : St) (name : String) (snap : Tag) (res : IdSet) : g (tdPublish s name snap res) = g s := by
  have hq : ∀ s cs ids, g (qConv s cs ids) = g s :=
    fun s cs ids => qConv_fr g (fun s t => h s s.tags t s.diverged) s cs ids
  have hst : ∀ (s : St) n t, g (setTag s n t) = g s := fun s n t => h s _ s.toconv s.diverged
  unfold tdPublish
  split
  · split
    · unfold tdInval
      split
      · rw [hst, hq]
      · unfold invalidateTags
        rw [MgrSettle.inherit_frame g (fun s v => h s v s.toconv s.diverged) (fun s v => h s s.tags s.toconv v)]
        exact (h _ _ _ _).trans (by rw [hst, hq])
    · rfl
  · rfl

theorem tdPublish_keys (s : St) (hs : Sorted s.tags) (name : String) (snap : Tag) (res : IdSet) :
    (tdPublish s name snap res).tags.map (·.1) = s.tags.map (·.1) := by
  unfold tdPublish
  split
  · rename_i ot hg
    split
    · have hqt : (qConv s (tdTag snap ot res).convs (tdTag snap ot res).mat).tags = s.tags :=
        qConv_fr (·.tags) (fun _ _ => rfl) _ _ _
      have hk : (setTag (qConv s (tdTag snap ot res).convs (tdTag snap ot res).mat) name (tdTag snap ot res)).tags.map (·.1)
          = s.tags.map (·.1) := by
        simp only [setTag, hqt]
        exact keys_sins_of_sget _ hs _ _ _ hg
      have hs2 : Sorted (setTag (qConv s (tdTag snap ot res).convs (tdTag snap ot res).mat) name (tdTag snap ot res)).tags := by
        unfold Sorted; rw [hk]; exact hs
      unfold tdInval
      split
      · exact hk
      · exact (invalidateTags_keys _ hs2 _ _ _).trans hk
    · rfl
  · rfl

theorem tdPublish_empty (s : St) (name : String) (snap : Tag) (res : IdSet) (hm : masksEmpty s = true) :
    tdPublish s name snap res =
      match sget s.tags name with
      | some ot => if ot.defn == snap.defn && ot.gen == snap.gen then  -- CHANGED (gen)
          setTag (qConv s ot.convs (tdTag snap ot res).mat) name (tdTag snap ot res) else s
      | none => s := by
  unfold tdPublish
  cases hg : sget s.tags name with
  | none => rfl
  | some ot =>
    dsimp only
    by_cases hd : (ot.defn == snap.defn && ot.gen == snap.gen) = true
    · rw [if_pos hd, if_pos hd]
      unfold tdInval
      have hme : masksEmpty (setTag (qConv s (tdTag snap ot res).convs (tdTag snap ot res).mat) name (tdTag snap ot res)) = true := by
        have := qConv_fr (g := fun z => masksEmpty (setTag z name (tdTag snap ot res))) (fun _ _ => rfl) s
          (tdTag snap ot res).convs (tdTag snap ot res).mat
        rw [this]; exact hm
      unfold masksEmpty at hme
      rw [if_pos hme]
      rfl
    · rw [if_neg hd, if_neg hd]

theorem pend_sins (l : List (String × Tag)) (hs : Sorted l) (k : String) (v v0 : Tag)
    (h : sget l k = some v0) (hv : v.unc = []) (hv0 : v0.unc ≠ []) :
    ((sins k v l).filter fun nt => !nt.2.unc.isEmpty).length + 1 =
      (l.filter fun nt => !nt.2.unc.isEmpty).length := by
  induction l with
  | nil => simp at h
  | cons p r ih =>
    obtain ⟨k2, v2⟩ := p
    have hs' : Sorted r := (List.pairwise_cons.mp hs).2
    simp only [sins]
    split
    · rename_i hlt
      exfalso
      rw [sget_cons] at h
      split at h
      · rename_i he; subst he; exact absurd hlt (String.lt_irrefl _)
      · have hm := sget_mem_keys _ _ _ h
        have := (List.pairwise_cons.mp hs).1 k hm
        exact absurd (String.lt_trans hlt this) (String.lt_irrefl _)
    · split
      · rename_i he; subst he
        rw [sget_cons] at h
        simp only [if_true, Option.some.injEq] at h
        subst h
        simp [hv, hv0]
      · rename_i hne
        rw [sget_cons] at h
        have : ¬ k2 = k := fun e => hne e.symm
        simp only [this, if_false] at h
        have := ih hs' h
        simp only [List.filter_cons]
        split <;> (try simp only [List.length_cons]) <;> omega

theorem tagDone_lt (s : St) (st : Started) (name : String) (result : List Nat) (snap : Tag) (held : List Nat)
    (hj : s.jTag = some (name, snap, held)) (htag : s.tag = true)
    (hjc : s.convert = false → s.jConv = none) (hs : Sorted s.tags)
    (hs' : Sorted (step s (.tagDone name result) st).1.tags)
    (hfacts : ∀ ot, sget s.tags name = some ot → ot.defn = snap.defn → ot.mainT = snap.mainT ∧ ot.subT = snap.subT)
    (hcp : ConvPlain s)
    (hb' : ∀ sets' h', (step s (.tagDone name result) st).1.jConv = some (sets', h') →
      ∀ p ∈ sets', ∀ id ∈ p.2, id < (step s (.tagDone name result) st).1.all) :
    LexLt (mu (step s (.tagDone name result) st).1) (mu s) := by
  rw [step_tagDone_eq, hj] at hs' hb' ⊢
  have hnn : (name != name) = false := by simp
  simp only [hnn, Bool.false_eq_true, if_false] at hs' hb' ⊢
  have hs0 : Sorted ({ s with jTag := none } : St).tags := hs
  have fq : (tdPublish { s with jTag := none } name snap (ofList result)).queue = s.queue :=
    tdPublish_fr (·.queue) (fun _ _ _ _ => rfl) _ _ _ _
  have f1 := tdPublish_fr (fun z => (z.convs, z.all, z.cached, z.jConv, z.convert, z.jTag, z.upd, z.rst, z.add))
    (fun _ _ _ _ => rfl) { s with jTag := none } name snap (ofList result)
  have fk := tdPublish_keys { s with jTag := none } hs0 name snap (ofList result)
  have hPe := tdPublish_empty { s with jTag := none } name snap (ofList result)
  generalize tdPublish { s with jTag := none } name snap (ofList result) = P at hs' hb' fq f1 fk hPe ⊢
  simp only [Prod.mk.injEq] at f1
  obtain ⟨c1, c2, c3, c4, c5, c6, c7, c8, c9⟩ := f1
  generalize hX : ({ P with tag := false } : St) = X at hs' hb' ⊢
  have xtags : X.tags = P.tags := by rw [← hX]
  have xq : X.queue = s.queue := by rw [← hX]; exact fq
  have xconvs : X.convs = s.convs := by rw [← hX]; exact c1
  have xall : X.all = s.all := by rw [← hX]; exact c2
  have xcached : X.cached = s.cached := by rw [← hX]; exact c3
  have xjConv : X.jConv = s.jConv := by rw [← hX]; exact c4
  have xconvert : X.convert = s.convert := by rw [← hX]; exact c5
  have xjTag : X.jTag = none := by rw [← hX]; exact c6
  have xtag : X.tag = false := by rw [← hX]
  have xtoconv : X.toconv = P.toconv := by rw [← hX]
  -- final state: tags and all
  have hYtags : (release (jobTail X st) held).tags = X.tags := by
    unfold jobTail
    have h1 := release_coreT (startMerge (startConverter (startTagging X st.tag))) held
    have h2 := startMerge_coreT (startConverter (startTagging X st.tag))
    have h3 := startConverter_coreT (startTagging X st.tag)
    simp only [coreT, Prod.mk.injEq] at h1 h2 h3
    rw [h1.1, h2.1, h3.1, startTagging_tags]
  have hYall : (release (jobTail X st) held).all = X.all := by
    unfold jobTail
    rw [release_all, startMerge_all, startConverter_all, startTagging_all]
  rw [hYtags] at hs'
  rw [hYall] at hb'
  have htl := tail3 X st held hs' (by rw [xconvert, xjConv]; exact hjc) hb'
  have hm1 : m1 X = m1 s := by simp only [m1, xq]
  have h23 := m23_congr (a := X) (b := s) xconvs xall xcached xjConv
  have hm4X : m4 X = 2 * tcount X.tags := by
    have e1 : jb X = 0 := by simp [jb, jobBad, xjTag]
    have e2 : sur X = 0 := by simp [sur, xtag]
    unfold m4; omega
  have hm4s : m4 s = 2 * tcount s.tags + jb s + sur s := rfl
  have hlen : X.tags.length = s.tags.length := by rw [xtags]; exact length_of_keys fk
  have hle := tcount_le_length X.tags
  by_cases hme : masksEmpty s = true
  · have hPeq := hPe hme
    cases hg : sget s.tags name with
    | none =>
      have hg' : sget ({ s with jTag := none } : St).tags name = none := hg
      rw [hg'] at hPeq
      dsimp only at hPeq
      have hjb : jb s = 1 := by simp [jb, jobBad, hj, hg]
      have : X.tags = s.tags := by rw [xtags, hPeq]
      rw [this] at hm4X
      apply lex7
      have := htl.h1; have := htl.h2; have := htl.h3; have := htl.h4; have := h23.1; have := h23.2
      omega
    | some ot =>
      have hg' : sget ({ s with jTag := none } : St).tags name = some ot := hg
      rw [hg'] at hPeq
      dsimp only at hPeq
      by_cases hd : (ot.defn == snap.defn && ot.gen == snap.gen) = true
      · rw [if_pos hd] at hPeq
        have hdg : ot.defn = snap.defn ∧ ot.gen = snap.gen := by simpa using hd
        have hd' : ot.defn = snap.defn := hdg.1
        have hf := hfacts ot hg hd'
        have hPt : P.tags = sins name (tdTag snap ot (ofList result)) s.tags := by
          rw [hPeq]
          simp only [setTag]
          rw [qConv_fr (·.tags) (fun _ _ => rfl)]
        have hrefs : (tdTag snap ot (ofList result)).refs = ot.refs := by
          unfold Tag.refs
          rw [hf.1, hf.2]
          rfl
        have hbelow : Below s.tags (sins name (tdTag snap ot (ofList result)) s.tags) := by
          intro n t' hn
          rw [sget_sins] at hn
          split at hn
          · rename_i he
            subst he
            cases hn
            exact ⟨ot, hg, hrefs, fun hu => absurd rfl hu⟩
          · exact ⟨t', hn, rfl, fun hu => Tainted.self n t' hn hu⟩
        have hkeys := keys_sins_of_sget s.tags hs name (tdTag snap ot (ofList result)) ot hg
        have htc : tcount X.tags ≤ tcount s.tags := by
          rw [xtags, hPt]; exact tcount_mono hkeys hbelow.tainted
        by_cases hou : ot.unc = []
        · have hjb : jb s = 1 := by simp [jb, jobBad, hj, hg, hou]
          apply lex7
          have := htl.h1; have := htl.h2; have := htl.h3; have := htl.h4; have := h23.1; have := h23.2
          omega
        · by_cases hoc : ot.convs = []
          · have hPc : P.toconv = s.toconv := by
              rw [hPeq, hoc]; rfl
            have hm5 : m5 X = m5 s := by
              apply (mC_congr _).2.2
              simp only [coreC, Prod.mk.injEq]
              exact ⟨xconvs, xall, xcached, xjConv, xtoconv.trans hPc, xconvert⟩
            have hm6 : m6 X + 1 = m6 s := by
              unfold m6
              rw [xtags, hPt]
              exact pend_sins s.tags hs name _ ot hg rfl hou
            apply lex7
            have := htl.h1; have := htl.h2; have := htl.h3; have := htl.h4; have := htl.h5; have := htl.h6
            have := h23.1; have := h23.2
            omega
          · have hpl := hcp name ot hg hoc
            have hr0 : (tdTag snap ot (ofList result)).refs = [] := by
              rw [hrefs]; unfold Tag.refs; rw [hpl.1, hpl.2]; rfl
            have hnt : ¬ Tainted (sins name (tdTag snap ot (ofList result)) s.tags) name := by
              intro h
              cases h with
              | self n t hn hu =>
                rw [sget_sins] at hn
                simp only [if_true, Option.some.injEq] at hn
                subst hn
                exact hu rfl
              | ref n t r hn hr _ =>
                rw [sget_sins] at hn
                simp only [if_true, Option.some.injEq] at hn
                subst hn
                rw [hr0] at hr; cases hr
            have hlt : tcount X.tags < tcount s.tags := by
              rw [xtags, hPt]
              exact tcount_lt hkeys hbelow.tainted name (sget_mem_keys _ _ _ hg) (Tainted.self name ot hg hou) hnt
            apply lex7
            have := htl.h1; have := htl.h2; have := htl.h3; have := htl.h4; have := h23.1; have := h23.2
            omega
      · rw [if_neg hd] at hPeq
        have hd' : (ot.defn == snap.defn && ot.gen == snap.gen) = false := by
          cases h : (ot.defn == snap.defn && ot.gen == snap.gen) with
          | false => rfl
          | true => exact absurd h hd
        have hjb : jb s = 1 := by simp only [jb, jobBad, hj, hg, hd']; rfl
        have : X.tags = s.tags := by rw [xtags, hPeq]
        rw [this] at hm4X
        apply lex7
        have := htl.h1; have := htl.h2; have := htl.h3; have := htl.h4; have := h23.1; have := h23.2
        omega
  · have hsur : sur s = 2 * s.tags.length + 2 := by simp [sur, htag, hme]
    apply lex7
    have := htl.h1; have := htl.h2; have := htl.h3; have := htl.h4; have := h23.1; have := h23.2
    omega

end Pk.Proofs.MgrTermination
