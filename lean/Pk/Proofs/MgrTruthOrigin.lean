/- Helper lemmas for C06Reach: where the attributes (references, features, identity `gen`) of a table entry
   after an event come from. -/
import Pk.Props.MgrReach
import Pk.Proofs.MgrTruthFrame
import Pk.Proofs.MgrTruthEdit
import Pk.Proofs.MgrTruthJob
import Pk.Proofs.MgrTruthVia
namespace Pk.Proofs.MgrTruth
open Pk.Mgr Pk.Proofs.MgrTags

theorem attrs_get {L L' : List (String × Tag)} {n : String} {t : Tag}
    (h : (sget L' n).map Attrs = (sget L n).map Attrs) (ht : sget L n = some t) :
    ∃ t', sget L' n = some t' ∧ Attrs t' = Attrs t := by
  rw [ht] at h
  cases h' : sget L' n with
  | none => rw [h'] at h; cases h
  | some t' => rw [h'] at h; exact ⟨t', rfl, by simpa using h⟩

theorem attrs_get' {L L' : List (String × Tag)} {n : String} {t' : Tag}
    (h : (sget L' n).map Attrs = (sget L n).map Attrs) (ht : sget L' n = some t') :
    ∃ t, sget L n = some t ∧ Attrs t' = Attrs t := by
  rw [ht] at h
  cases h' : sget L n with
  | none => rw [h'] at h; cases h
  | some t => rw [h'] at h; exact ⟨t, rfl, by simpa using h⟩

theorem attrs_eq {t t' : Tag} (h : Attrs t' = Attrs t) :
    t'.mainT = t.mainT ∧ t'.subT = t.subT ∧ t'.mfeat = t.mfeat ∧ t'.sfeat = t.sfeat ∧ t'.gen = t.gen := by
  simp only [Attrs, Prod.mk.injEq] at h
  exact h

theorem attrs_mk {t t' : Tag} (h1 : t'.mainT = t.mainT) (h2 : t'.subT = t.subT) (h3 : t'.mfeat = t.mfeat)
    (h4 : t'.sfeat = t.sfeat) (h5 : t'.gen = t.gen) : Attrs t' = Attrs t := by
  simp only [Attrs, h1, h2, h3, h4, h5]

/-- the entry of the job's tag after a completion that published -/
theorem tagDone_entry (s : St) (name : String) (result : List Nat) (st : Started) (snap ot : Tag) (held : List Nat)
    (hj : s.jTag = some (name, snap, held)) (hot : sget s.tags name = some ot) (hd : ot.defn = snap.defn)
    (hg : ot.gen = snap.gen) (t' : Tag) (h' : sget (step s (.tagDone name result) st).1.tags name = some t') :
    Attrs t' = Attrs snap ∧ t'.defn = snap.defn := by
  by_cases hm : s.upd = [] ∧ s.rst = [] ∧ s.add = []
  · rw [(tagDone_plain s name result st snap ot held hj hot hd hg hm).1, sget_sins] at h'
    simp only [if_true, Option.some.injEq] at h'
    subst h'
    exact ⟨rfl, rfl⟩
  · obtain ⟨s1, htags, _, _, _, h1tags⟩ := tagDone_via s name result st snap ot held hj hot hd hg hm
    rw [htags] at h'
    have h1 : sget s1.tags name = some (invF s.all s.upd s.rst s.add (tdTag snap ot (ofList result))) := by
      rw [h1tags, sget_map (fun _ t => invF s.all s.upd s.rst s.add t), sget_sins]
      simp
    obtain ⟨t2, h2, ha⟩ := attrs_get (inherit_akeep s1 name) h1
    rw [h'] at h2; cases h2
    obtain ⟨t3, h3, hr⟩ := (inherit_keep s1 name).1 _ h1
    rw [h'] at h3; cases h3
    refine ⟨ha.trans (attrs_invF _ _ _ _ _), hr.2.1.trans ?_⟩
    exact (trel_invF s.all s.upd s.rst s.add (tdTag snap ot (ofList result))).2.1

/-- where an entry of the table after an event comes from: an entry of the table before with the same
    attributes (possibly under another name: rename), the facts of an `addTag`/`updQuery`, or the snapshot
    of the job that completed -/
theorem entry_origin (s : St) (e : Ev) (st : Started) (hev : Pk.Props.C09.EvOK s e)
    (n : String) (t' : Tag) (h' : sget (step s e st).1.tags n = some t') :
    (∃ n0 t, sget s.tags n0 = some t ∧ Attrs t' = Attrs t) ∨
    (∃ color defn f, e = .addTag n color defn f ∧ t'.mainT = f.main ∧ t'.subT = f.sub ∧ t'.mfeat = f.mfeat ∧
        t'.sfeat = f.sfeat ∧ t'.gen = s.ngen ∧ (step s e st).1.ngen = s.ngen + 1) ∨
    (∃ defn f t, e = .updQuery n defn f ∧ sget s.tags n = some t ∧ t'.mainT = f.main ∧ t'.subT = f.sub ∧
        t'.mfeat = f.mfeat ∧ t'.sfeat = f.sfeat ∧ t'.gen = t.gen) ∨
    (∃ res snap held, e = .tagDone n res ∧ s.jTag = some (n, snap, held) ∧ Attrs t' = Attrs snap) := by
  by_cases herr : (step s e st).2 = Res.err
  · rw [step_rejected s e st herr] at h'
    exact Or.inl ⟨n, t', h', rfl⟩
  by_cases hE : EditsN e n
  · cases e with
    | tagDone name res =>
      have hn : name = n := hE
      subst hn
      cases hj : s.jTag with
      | none =>
        have : (step s (.tagDone name res) st).1 = s := by rw [step_tagDone_eq, hj]
        rw [this] at h'
        exact Or.inl ⟨name, t', h', rfl⟩
      | some j =>
        obtain ⟨jn, snap, held⟩ := j
        have hjn : jn = name := hev jn snap held hj
        subst hjn
        by_cases hlive : ∃ ot, sget s.tags jn = some ot ∧ ot.defn = snap.defn ∧ ot.gen = snap.gen
        · obtain ⟨ot, hot, hd, hg⟩ := hlive
          exact Or.inr (Or.inr (Or.inr ⟨res, snap, held, rfl, rfl,
            (tagDone_entry s jn res st snap ot held hj hot hd hg t' h').1⟩))
        · have hdead : ∀ ot, sget s.tags jn = some ot → ¬ (ot.defn = snap.defn ∧ ot.gen = snap.gen) :=
            fun ot h1 h2 => hlive ⟨ot, h1, h2.1, h2.2⟩
          rw [(tagDone_dead s jn res st snap held hj hdead).1] at h'
          exact Or.inl ⟨jn, t', h', rfl⟩
    | addTag name color defn f =>
      have hn : name = n := hE
      subst hn
      have hok : (step s (.addTag name color defn f) st).2 = Res.ok := by
        have : (step s (.addTag name color defn f) st).2 = Res.ok ∨ (step s (.addTag name color defn f) st).2 = Res.err := by
          rw [step_addTag_eq]
          repeat' split
          all_goals first | exact Or.inr rfl | exact Or.inl rfl
        rcases this with h | h
        · exact h
        · exact absurd h herr
      obtain ⟨_, _, t2, h2, _, e1, e2, e3, e4, _, e5, e6⟩ := addTag_ok s name color defn f st hok
      rw [h'] at h2; cases h2
      exact Or.inr (Or.inl ⟨color, defn, f, rfl, e1, e2, e3, e4, e5, e6⟩)
    | updQuery name defn f =>
      have hn : name = n := hE
      subst hn
      have hok : (step s (.updQuery name defn f) st).2 = Res.ok := by
        have : (step s (.updQuery name defn f) st).2 = Res.ok ∨ (step s (.updQuery name defn f) st).2 = Res.err := by
          rw [step_updQuery_eq]
          repeat' split
          all_goals first | exact Or.inr rfl | exact Or.inl rfl
        rcases this with h | h
        · exact h
        · exact absurd h herr
      obtain ⟨t, t2, ht, h2, _, e1, e2, e3, e4, _, e5⟩ := updQuery_ok s name defn f st hok
      rw [h'] at h2; cases h2
      exact Or.inr (Or.inr (Or.inl ⟨defn, f, t, rfl, ht, e1, e2, e3, e4, e5⟩))
    | updName name new =>
      have hok : (step s (.updName name new) st).2 = Res.ok := by
        have : (step s (.updName name new) st).2 = Res.ok ∨ (step s (.updName name new) st).2 = Res.err := by
          rw [step_updName_eq]
          repeat' split
          all_goals first | exact Or.inr rfl | exact Or.inl rfl
        rcases this with h | h
        · exact h
        · exact absurd h herr
      rcases updName_ok s name new st hok with h1 | ⟨t, ht, _, _, _, hgone, t2, h2, _, _, _, e1, e2, e3, e4, e5⟩
      · rw [h1] at h'; exact Or.inl ⟨n, t', h', rfl⟩
      · have hn : name = n ∨ new = n := hE
        rcases hn with hn | hn
        · subst hn; rw [hgone] at h'; cases h'
        · subst hn
          rw [h'] at h2; cases h2
          exact Or.inl ⟨name, t, ht, attrs_mk e1 e2 e3 e4 e5⟩
    | markAdd name ids =>
      have hn : name = n := hE
      subst hn
      cases hs : sget s.tags name with
      | none =>
        exfalso
        revert h'
        rw [step_markAdd_eq, hs]
        split <;> (intro h'; simp_all)
      | some t =>
        obtain ⟨t2, h2, _, ha⟩ := step_markAdd_self s name ids st t hs
        rw [h'] at h2; cases h2
        exact Or.inl ⟨name, t, hs, ha⟩
    | markDel name ids =>
      have hn : name = n := hE
      subst hn
      cases hs : sget s.tags name with
      | none =>
        exfalso
        revert h'
        rw [step_markDel_eq, hs]
        split <;> (intro h'; simp_all)
      | some t =>
        obtain ⟨t2, h2, _, ha⟩ := step_markDel_self s name ids st t hs
        rw [h'] at h2; cases h2
        exact Or.inl ⟨name, t, hs, ha⟩
    | delTag name =>
      have hn : name = n := hE
      subst hn
      have hok : (step s (.delTag name) st).2 = Res.ok := by
        have : (step s (.delTag name) st).2 = Res.ok ∨ (step s (.delTag name) st).2 = Res.err := by
          rw [step_delTag_eq]
          repeat' split
          all_goals first | exact Or.inr rfl | exact Or.inl rfl
        rcases this with h | h
        · exact h
        · exact absurd h herr
      obtain ⟨_, _, _, hgone⟩ := delTag_ok s name st hok
      rw [hgone] at h'; cases h'
    | _ => exact absurd hE (by simp [EditsN])
  · obtain ⟨t, ht, ha⟩ := attrs_get' (step_attrs s e st n hE) h'
    exact Or.inl ⟨n, t, ht, ha⟩

/-- where the identity of an entry after an event comes from: the entry of the same name before, the renamed
    entry, or the counter (`addTag`) -/
theorem gen_origin (s : St) (e : Ev) (st : Started) (hev : Pk.Props.C09.EvOK s e)
    (n : String) (t' : Tag) (h' : sget (step s e st).1.tags n = some t') :
    (∃ t, sget s.tags n = some t ∧ t'.gen = t.gen) ∨
    (∃ name t, e = .updName name n ∧ sget s.tags name = some t ∧ t'.gen = t.gen ∧
        sget (step s e st).1.tags name = none) ∨
    (∃ color defn f, e = .addTag n color defn f ∧ t'.gen = s.ngen) := by
  rcases entry_origin s e st hev n t' h' with
    ⟨n0, t, ht, ha⟩ | ⟨c, d, f, he, _, _, _, _, eg, _⟩ | ⟨d, f, t, _, ht, _, _, _, _, eg⟩ | ⟨res, snap, held, he, hj, ha⟩
  · -- need the name: redo the case distinction
    by_cases herr : (step s e st).2 = Res.err
    · rw [step_rejected s e st herr] at h'
      exact Or.inl ⟨t', h', rfl⟩
    by_cases hE : EditsN e n
    · cases e with
      | tagDone name res =>
        have hn : name = n := hE
        subst hn
        cases hj : s.jTag with
        | none =>
          have : (step s (.tagDone name res) st).1 = s := by rw [step_tagDone_eq, hj]
          rw [this] at h'
          exact Or.inl ⟨t', h', rfl⟩
        | some j =>
          obtain ⟨jn, snap, held⟩ := j
          have hjn : jn = name := hev jn snap held hj
          subst hjn
          by_cases hlive : ∃ ot, sget s.tags jn = some ot ∧ ot.defn = snap.defn ∧ ot.gen = snap.gen
          · obtain ⟨ot, hot, hd, hg⟩ := hlive
            refine Or.inl ⟨ot, hot, ?_⟩
            rw [(attrs_eq (tagDone_entry s jn res st snap ot held hj hot hd hg t' h').1).2.2.2.2, hg]
          · have hdead : ∀ ot, sget s.tags jn = some ot → ¬ (ot.defn = snap.defn ∧ ot.gen = snap.gen) :=
              fun ot h1 h2 => hlive ⟨ot, h1, h2.1, h2.2⟩
            rw [(tagDone_dead s jn res st snap held hj hdead).1] at h'
            exact Or.inl ⟨t', h', rfl⟩
      | updName name new =>
        have hok : (step s (.updName name new) st).2 = Res.ok := by
          have : (step s (.updName name new) st).2 = Res.ok ∨ (step s (.updName name new) st).2 = Res.err := by
            rw [step_updName_eq]
            repeat' split
            all_goals first | exact Or.inr rfl | exact Or.inl rfl
          rcases this with h | h
          · exact h
          · exact absurd h herr
        rcases updName_ok s name new st hok with h1 | ⟨t0, ht0, _, _, _, hgone, t2, h2, _, _, _, _, _, _, _, e5⟩
        · rw [h1] at h'; exact Or.inl ⟨t', h', rfl⟩
        · have hn : name = n ∨ new = n := hE
          rcases hn with hn | hn
          · subst hn; rw [hgone] at h'; cases h'
          · subst hn
            rw [h'] at h2; cases h2
            exact Or.inr (Or.inl ⟨name, t0, rfl, ht0, e5, hgone⟩)
      | markAdd name ids =>
        have hn : name = n := hE
        subst hn
        cases hs : sget s.tags name with
        | none =>
          exfalso
          revert h'
          rw [step_markAdd_eq, hs]
          split <;> (intro h'; simp_all)
        | some t1 =>
          obtain ⟨t2, h2, _, ha2⟩ := step_markAdd_self s name ids st t1 hs
          rw [h'] at h2; cases h2
          exact Or.inl ⟨t1, rfl, (attrs_eq ha2).2.2.2.2⟩
      | markDel name ids =>
        have hn : name = n := hE
        subst hn
        cases hs : sget s.tags name with
        | none =>
          exfalso
          revert h'
          rw [step_markDel_eq, hs]
          split <;> (intro h'; simp_all)
        | some t1 =>
          obtain ⟨t2, h2, _, ha2⟩ := step_markDel_self s name ids st t1 hs
          rw [h'] at h2; cases h2
          exact Or.inl ⟨t1, rfl, (attrs_eq ha2).2.2.2.2⟩
      | addTag name color defn f =>
        -- the first alternative of `entry_origin` does not arise for an accepted `addTag`, but the third
        -- alternative of this lemma covers it anyway
        have hn : name = n := hE
        subst hn
        have hok : (step s (.addTag name color defn f) st).2 = Res.ok := by
          have : (step s (.addTag name color defn f) st).2 = Res.ok ∨ (step s (.addTag name color defn f) st).2 = Res.err := by
            rw [step_addTag_eq]
            repeat' split
            all_goals first | exact Or.inr rfl | exact Or.inl rfl
          rcases this with h | h
          · exact h
          · exact absurd h herr
        obtain ⟨_, _, t2, h2, _, _, _, _, _, _, e5, _⟩ := addTag_ok s name color defn f st hok
        rw [h'] at h2; cases h2
        exact Or.inr (Or.inr ⟨color, defn, f, rfl, e5⟩)
      | updQuery name defn f =>
        have hn : name = n := hE
        subst hn
        have hok : (step s (.updQuery name defn f) st).2 = Res.ok := by
          have : (step s (.updQuery name defn f) st).2 = Res.ok ∨ (step s (.updQuery name defn f) st).2 = Res.err := by
            rw [step_updQuery_eq]
            repeat' split
            all_goals first | exact Or.inr rfl | exact Or.inl rfl
          rcases this with h | h
          · exact h
          · exact absurd h herr
        obtain ⟨t1, t2, ht1, h2, _, _, _, _, _, _, e5⟩ := updQuery_ok s name defn f st hok
        rw [h'] at h2; cases h2
        exact Or.inl ⟨t1, ht1, e5⟩
      | delTag name =>
        have hn : name = n := hE
        subst hn
        have hok : (step s (.delTag name) st).2 = Res.ok := by
          have : (step s (.delTag name) st).2 = Res.ok ∨ (step s (.delTag name) st).2 = Res.err := by
            rw [step_delTag_eq]
            repeat' split
            all_goals first | exact Or.inr rfl | exact Or.inl rfl
          rcases this with h | h
          · exact h
          · exact absurd h herr
        obtain ⟨_, _, _, hgone⟩ := delTag_ok s name st hok
        rw [hgone] at h'; cases h'
      | _ => exact absurd hE (by simp [EditsN])
    · obtain ⟨t1, ht1, ha1⟩ := attrs_get' (step_attrs s e st n hE) h'
      exact Or.inl ⟨t1, ht1, (attrs_eq ha1).2.2.2.2⟩
  · exact Or.inr (Or.inr ⟨c, d, f, he, eg⟩)
  · exact Or.inl ⟨t, ht, eg⟩
  · subst he
    -- a completion that published: the entry of the same name had the identity of the snapshot
    by_cases hlive : ∃ ot, sget s.tags n = some ot ∧ ot.defn = snap.defn ∧ ot.gen = snap.gen
    · obtain ⟨ot, hot, _, hg⟩ := hlive
      exact Or.inl ⟨ot, hot, by rw [(attrs_eq ha).2.2.2.2, hg]⟩
    · have hdead : ∀ ot, sget s.tags n = some ot → ¬ (ot.defn = snap.defn ∧ ot.gen = snap.gen) :=
        fun ot h1 h2 => hlive ⟨ot, h1, h2.1, h2.2⟩
      rw [(tagDone_dead s n res st snap held hj hdead).1] at h'
      exact Or.inl ⟨t', h', rfl⟩

end Pk.Proofs.MgrTruth
