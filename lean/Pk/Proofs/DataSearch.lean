/-
  Helper lemmas for C04 (payload filters).  Property theorems are in Pk/Props/C04.lean.
-/
import Pk.Model.DataSearch

namespace Pk.Proofs.DataSearch
open Pk.DataSearch

/-- the anchored candidates of a context-free expression only depend on the bytes they consume -/
structure Local (cands : Bytes → List Nat) : Prop where
  le_len : ∀ u n, n ∈ cands u → n ≤ u.length
  take : ∀ u c, cands (u.take c) = (cands u).filter (fun n => decide (n ≤ c))

/-- the facts are sound for the expression: every match has a length in [minLen, maxLen], starts with the
    prefix and ends with the suffix -/
structure Sound (cands : Bytes → List Nat) (f : Facts) : Prop where
  min_le : ∀ u n, n ∈ cands u → f.minLen ≤ n
  le_max : ∀ u n, n ∈ cands u → n ≤ f.maxLen
  pre : ∀ u n, n ∈ cands u → hasPrefix (u.take n) f.pre = true
  suf : ∀ u n, n ∈ cands u → hasSuffix (u.take n) f.suf = true

/-- two scan results denote the same match in absolute positions (or both none) -/
def sameAbs (a b : Found) : Bool :=
  match a.res, b.res with
  | none, none => true
  | some (s, e), some (s', e') => a.off + s == b.off + s' && a.off + e == b.off + e'
  | _, _ => false

/-! ### helper lemmas -/

theorem hasPrefix_iff (a b : Bytes) : hasPrefix a b = true ↔ b <+: a := by
  fun_induction hasPrefix a b with
  | case1 => simp
  | case2 => simp
  | case3 a as b bs ih =>
    simp only [Bool.and_eq_true, beq_iff_eq, ih, List.cons_prefix_cons]
    constructor
    · rintro ⟨h1, h2⟩; exact ⟨h1.symm, h2⟩
    · rintro ⟨h1, h2⟩; exact ⟨h1.symm, h2⟩

theorem hasSuffix_iff (a b : Bytes) : hasSuffix a b = true ↔ b <:+ a := by
  unfold hasSuffix
  rw [hasPrefix_iff, List.reverse_prefix]

theorem indexOf_none (t p : Bytes) (h : indexOf t p = none) : ∀ j, ¬ p <+: t.drop j := by
  induction t with
  | nil =>
    intro j
    unfold indexOf at h
    simp at h
    simpa using h
  | cons a rest ih =>
    unfold indexOf at h
    split at h
    · simp at h
    · rename_i hp
      split at h
      · simp at h
      · rename_i hr
        intro j
        cases j with
        | zero => simpa [hasPrefix_iff] using hp
        | succ j => simpa using ih hr j

theorem indexOf_some (t p : Bytes) (i : Nat) (h : indexOf t p = some i) :
    p <+: t.drop i ∧ ∀ j, j < i → ¬ p <+: t.drop j := by
  induction t generalizing i with
  | nil =>
    unfold indexOf at h
    simp at h
    obtain ⟨h1, h2⟩ := h
    subst h2
    simp [h1]
  | cons a rest ih =>
    unfold indexOf at h
    split at h
    · rename_i hp
      simp at h; subst h
      simpa [hasPrefix_iff] using hp
    · rename_i hp
      split at h
      · rename_i i' hr
        simp at h; subst h
        obtain ⟨h1, h2⟩ := ih i' hr
        refine ⟨by simpa using h1, ?_⟩
        intro j hj
        cases j with
        | zero => simpa [hasPrefix_iff] using hp
        | succ j => simpa using h2 j (by omega)
      · simp at h

theorem lastIndexOf_none (t p : Bytes) (h : lastIndexOf t p = none) : ∀ j, ¬ p <+: t.drop j := by
  induction t with
  | nil =>
    intro j
    unfold lastIndexOf at h
    simp at h
    simpa using h
  | cons a rest ih =>
    unfold lastIndexOf at h
    split at h
    · simp at h
    · rename_i hr
      split at h
      · simp at h
      · rename_i hp
        intro j
        cases j with
        | zero => simpa [hasPrefix_iff] using hp
        | succ j => simpa using ih hr j

theorem lastIndexOf_some (t p : Bytes) (i : Nat) (h : lastIndexOf t p = some i) :
    p <+: t.drop i ∧ ∀ j, j ≤ t.length → p <+: t.drop j → j ≤ i := by
  induction t generalizing i with
  | nil =>
    unfold lastIndexOf at h
    simp at h
    obtain ⟨h1, h2⟩ := h
    subst h2
    simp [h1]
  | cons a rest ih =>
    unfold lastIndexOf at h
    split at h
    · rename_i i' hr
      simp at h; subst h
      obtain ⟨h1, h2⟩ := ih i' hr
      refine ⟨by simpa using h1, ?_⟩
      intro j hj hpj
      cases j with
      | zero => omega
      | succ j => have := h2 j (by simpa using hj) (by simpa using hpj); omega
    · rename_i hr
      split at h
      · rename_i hp
        simp at h; subst h
        refine ⟨by simpa [hasPrefix_iff] using hp, ?_⟩
        intro j hj hpj
        cases j with
        | zero => omega
        | succ j => exact absurd (by simpa using hpj) (lastIndexOf_none rest p hr j)
      · simp at h

theorem matcherOf_head (cands : Bytes → List Nat) (t : Bytes) (n : Nat)
    (h : (cands t).head? = some n) : matcherOf cands t = some (0, n) := by
  cases t with
  | nil => simp [matcherOf, h]
  | cons a rest => simp [matcherOf, h]

theorem matcherOf_shift (cands : Bytes → List Nat) (p : Nat) (t : Bytes)
    (h : ∀ i, i < p → cands (t.drop i) = []) :
    matcherOf cands t = (matcherOf cands (t.drop p)).map (fun r => (r.1 + p, r.2 + p)) := by
  induction p generalizing t with
  | zero => simp
  | succ p ih =>
    cases t with
    | nil =>
      have := h 0 (by omega)
      simp at this
      simp [matcherOf, this]
    | cons a rest =>
      have h0 := h 0 (by omega)
      simp at h0
      have := ih rest (fun i hi => by simpa using h (i + 1) (by omega))
      simp only [matcherOf, h0, List.head?_nil, List.drop_succ_cons, this, Option.map_map]
      congr 1

theorem matcherOf_none_of (cands : Bytes → List Nat) (t : Bytes)
    (h : ∀ i, cands (t.drop i) = []) : matcherOf cands t = none := by
  have := matcherOf_shift cands (t.length) t (fun i _ => h i)
  rw [this]
  have h1 := h t.length
  simp at h1
  simp [matcherOf, h1]

theorem matcherOf_some_spec (cands : Bytes → List Nat) (t : Bytes) (s e : Nat)
    (h : matcherOf cands t = some (s, e)) :
    s ≤ t.length ∧ (∀ i, i < s → cands (t.drop i) = []) ∧
    ∃ n, (cands (t.drop s)).head? = some n ∧ e = s + n := by
  induction t generalizing s e with
  | nil =>
    simp [matcherOf] at h
    obtain ⟨h1, h2⟩ := h
    subst h2
    simp [h1]
  | cons a rest ih =>
    simp only [matcherOf] at h
    split at h
    · rename_i n hn
      simp at h
      obtain ⟨h2, h3⟩ := h
      subst h2 h3
      simp [hn]
    · rename_i hn
      simp at h
      obtain ⟨s', e', h1, h2, h3⟩ := h
      subst h2 h3
      obtain ⟨a1, a2, n, a3, a4⟩ := ih s' e' h1
      refine ⟨by simp; omega, ?_, n, by simpa using a3, by omega⟩
      intro i hi
      cases i with
      | zero => simpa using hn
      | succ i => simpa using a2 i (by omega)

theorem matcherOf_none_spec (cands : Bytes → List Nat) (t : Bytes)
    (h : matcherOf cands t = none) : ∀ i, cands (t.drop i) = [] := by
  induction t with
  | nil =>
    simp [matcherOf] at h
    intro i; simpa using h
  | cons a rest ih =>
    simp only [matcherOf] at h
    split at h
    · simp at h
    · rename_i hn
      simp at h
      intro i
      cases i with
      | zero => simpa using hn
      | succ i => simpa using ih h i


theorem matcherOf_none_of' (cands : Bytes → List Nat) (t : Bytes)
    (h : ∀ i, i ≤ t.length → cands (t.drop i) = []) : matcherOf cands t = none := by
  apply matcherOf_none_of
  intro i
  by_cases hi : i ≤ t.length
  · exact h i hi
  · have : t.drop i = t.drop t.length := by
      rw [List.drop_of_length_le (by omega), List.drop_of_length_le (by omega)]
    rw [this]; exact h _ (Nat.le_refl _)

theorem matcherOf_take (cands : Bytes → List Nat) (hl : Local cands) (t : Bytes) (c : Nat)
    (h : ∀ i n, i ≤ t.length → n ∈ cands (t.drop i) → i + n ≤ c) :
    matcherOf cands (t.take c) = matcherOf cands t := by
  induction t generalizing c with
  | nil => simp
  | cons a rest ih =>
    have hc : cands ((a :: rest).take c) = cands (a :: rest) := by
      rw [hl.take, List.filter_eq_self]
      intro n hn
      have := h 0 n (by simp) (by simpa using hn)
      simp; omega
    cases c with
    | zero =>
      simp only [List.take_zero] at hc ⊢
      have hr : matcherOf cands rest = none := by
        apply matcherOf_none_of'
        intro i hi
        rw [List.eq_nil_iff_forall_not_mem]
        intro n hn
        have := h (i + 1) n (by simpa using hi) (by simpa using hn)
        omega
      simp only [matcherOf, hc, hr]
      cases (cands (a :: rest)).head? <;> simp
    | succ c =>
      simp only [List.take_succ_cons] at hc ⊢
      have := ih c (fun i n hi hn => by
        have := h (i + 1) n (by simpa using hi) (by simpa using hn)
        omega)
      simp only [matcherOf, hc, this]

theorem cand_bound (cands : Bytes → List Nat) (hl : Local cands) (t : Bytes) (i n : Nat)
    (hi : i ≤ t.length) (hn : n ∈ cands (t.drop i)) : i + n ≤ t.length := by
  have := hl.le_len _ _ hn
  simp at this; omega

theorem cand_pre (cands : Bytes → List Nat) (f : Facts) (hs : Sound cands f) (u : Bytes) (n : Nat)
    (hn : n ∈ cands u) : f.pre <+: u ∧ f.pre.length ≤ n := by
  have := hs.pre u n hn
  rw [hasPrefix_iff, List.prefix_take_iff] at this
  exact this

theorem cand_suf (cands : Bytes → List Nat) (f : Facts) (hl : Local cands) (hs : Sound cands f)
    (t : Bytes) (i n : Nat) (hn : n ∈ cands (t.drop i)) :
    f.suf.length ≤ n ∧ f.suf <+: t.drop (i + n - f.suf.length) := by
  have h1 := hs.suf _ n hn
  have h2 := hl.le_len _ _ hn
  rw [hasSuffix_iff] at h1
  have h3 := h1.length_le
  rw [List.suffix_iff_eq_drop] at h1
  simp only [List.length_take, Nat.min_eq_left h2] at h1 h3
  refine ⟨h3, ?_⟩
  rw [List.drop_take, List.drop_drop] at h1
  have : i + n - f.suf.length = i + (n - f.suf.length) := by omega
  rw [this]
  generalize f.suf = sf at *
  have h4 := List.take_prefix (n - (n - sf.length)) (List.drop (i + (n - sf.length)) t)
  rw [← h1] at h4
  exact h4

/-- last stage of `find`: window or matcher, on the cut buffer -/
def stage3 (m : Matcher) (f : Facts) (total : Nat) (buffer : Bytes) (off : Nat) : Found :=
  if buffer.length < f.minLen then ⟨none, off⟩ else
  if f.minLen == f.maxLen && f.pre.isEmpty && !f.suf.isEmpty then
    window m f total (buffer.length + 1) buffer off
  else
    match m buffer with
    | some r => ⟨some r, off⟩
    | none => ⟨none, if f.ctx then off else total⟩

/-- suffix cut, then `stage3` -/
def stage2 (m : Matcher) (f : Facts) (total : Nat) (buffer : Bytes) (off : Nat) : Found :=
  if buffer.length < f.minLen then ⟨none, off⟩ else
  if f.suf.isEmpty then stage3 m f total buffer off else
  match lastIndexOf buffer f.suf with
  | none => ⟨none, total⟩
  | some pos => stage3 m f total (buffer.take (pos + f.suf.length)) off

/-- min length, prefix skip, then `stage2` -/
def stage1 (m : Matcher) (f : Facts) (total : Nat) (buffer : Bytes) (off : Nat) : Found :=
  if buffer.length < f.minLen then ⟨none, off⟩ else
  if f.pre.isEmpty then stage2 m f total buffer off else
  match indexOf buffer f.pre with
  | none => ⟨none, total⟩
  | some pos => stage2 m f total (buffer.drop pos) (off + pos)

theorem find_eq_stage1 (m : Matcher) (f : Facts) (buf : Bytes) (off : Nat) :
    find m f buf off = stage1 m f buf.length (buf.drop off) off := by
  unfold find stage1 stage2 stage3
  simp only []
  split
  · first | rfl | contradiction
  · cases hp : f.pre.isEmpty <;> cases hsf : f.suf.isEmpty
    · simp only [Bool.false_eq_true, if_false]
      cases indexOf (List.drop off buf) f.pre with
      | none => rfl
      | some pos =>
        simp only []
        split
        · first | rfl | contradiction
        · cases lastIndexOf (List.drop pos (List.drop off buf)) f.suf with
          | none => rfl
          | some p2 => rfl
    · simp only [Bool.false_eq_true, if_false, if_true]
      cases indexOf (List.drop off buf) f.pre with
      | none => rfl
      | some pos =>
        simp only []
        split
        · first | rfl | contradiction
        · first | rfl | contradiction
    · simp only [Bool.false_eq_true, if_false, if_true]
      split
      · first | rfl | contradiction
      · cases lastIndexOf (List.drop off buf) f.suf with
        | none => rfl
        | some p2 => rfl
    · simp only [if_true]
      split
      · first | rfl | contradiction
      · first | rfl | contradiction

/-- `R` (a result of a scan started at `off' ≥ off`) denotes the match `mt` (relative to `off`) -/
def Rel (mt : Option (Nat × Nat)) (off : Nat) (R : Found) : Prop :=
  off ≤ R.off ∧
  match mt, R.res with
  | none, none => True
  | some a, some b => off + a.1 = R.off + b.1 ∧ off + a.2 = R.off + b.2
  | _, _ => False

theorem Rel_shift (mt : Option (Nat × Nat)) (off p : Nat) (R : Found) (h : Rel mt (off + p) R) :
    Rel (mt.map (fun r => (r.1 + p, r.2 + p))) off R := by
  unfold Rel at *
  obtain ⟨h1, h2⟩ := h
  refine ⟨by omega, ?_⟩
  cases mt <;> cases hr : R.res <;> simp [hr] at h2 ⊢
  omega

theorem matcherOf_short (cands : Bytes → List Nat) (f : Facts) (hl : Local cands) (hs : Sound cands f)
    (t : Bytes) (h : t.length < f.minLen) : matcherOf cands t = none := by
  apply matcherOf_none_of
  intro i
  rw [List.eq_nil_iff_forall_not_mem]
  intro n hn
  have h1 := hl.le_len _ _ hn
  have h2 := hs.min_le _ _ hn
  simp at h1
  omega

theorem window_ok (cands : Bytes → List Nat) (f : Facts) (hl : Local cands) (hs : Sound cands f)
    (hmm : f.minLen = f.maxLen) (hsuf : f.suf ≠ []) (total : Nat) :
    ∀ fuel t off, t.length + 1 ≤ fuel → off + t.length ≤ total →
      Rel (matcherOf cands t) off (window (matcherOf cands) f total fuel t off) := by
  have hK : 1 ≤ f.suf.length := by
    cases hq : f.suf with
    | nil => exact absurd hq hsuf
    | cons => simp
  have hL : ∀ u n, n ∈ cands u → n = f.minLen := fun u n hn => by
    have := hs.min_le u n hn; have := hs.le_max u n hn; omega
  -- a candidate at start i puts the suffix at position i of the shifted buffer
  have hocc : ∀ (t : Bytes) i n, n ∈ cands (t.drop i) →
      f.suf <+: (t.drop (f.minLen - f.suf.length)).drop i := by
    intro t i n hn
    have h1 := cand_suf cands f hl hs t i n hn
    have h2 := hL _ _ hn
    rw [List.drop_drop]
    have : i + n - f.suf.length = f.minLen - f.suf.length + i := by omega
    rw [← this]; exact h1.2
  intro fuel
  induction fuel with
  | zero => intro t off h; omega
  | succ fuel ih =>
    intro t off hfuel htot
    unfold window
    cases hidx : indexOf (t.drop (f.minLen - f.suf.length)) f.suf with
    | none =>
      simp only []
      have hnone : matcherOf cands t = none := by
        apply matcherOf_none_of
        intro i
        rw [List.eq_nil_iff_forall_not_mem]
        intro n hn
        exact indexOf_none _ _ hidx i (hocc t i n hn)
      rw [hnone]
      exact ⟨by simp; omega, by simp⟩
    | some pos =>
      simp only []
      obtain ⟨hi1, hi2⟩ := indexOf_some _ _ _ hidx
      have hlen : pos + 1 ≤ t.length := by
        have := hi1.length_le
        simp at this
        omega
      have hshift := matcherOf_shift cands pos t (fun i hi => by
        rw [List.eq_nil_iff_forall_not_mem]
        intro n hn
        exact hi2 i hi (hocc t i n hn))
      cases hhd : (cands (t.drop pos)).head? with
      | some n =>
        have hn : n ∈ cands (t.drop pos) := List.mem_of_mem_head? hhd
        have htk : cands ((t.drop pos).take f.minLen) = cands (t.drop pos) := by
          rw [hl.take, List.filter_eq_self]
          intro k hk
          have := hL _ _ hk
          simp; omega
        have h1 : matcherOf cands ((t.drop pos).take f.minLen) = some (0, n) :=
          matcherOf_head _ _ _ (by rw [htk]; exact hhd)
        have h2 : matcherOf cands (t.drop pos) = some (0, n) := matcherOf_head _ _ _ hhd
        rw [h1, hshift, h2]
        simp only [Option.map_some]
        exact ⟨by simp, by simp; omega⟩
      | none =>
        have hnil : cands (t.drop pos) = [] := by simpa using hhd
        have h1 : matcherOf cands ((t.drop pos).take f.minLen) = none := by
          apply matcherOf_none_of
          intro i
          rw [List.drop_take, hl.take, List.filter_eq_nil_iff]
          intro k hk
          cases i with
          | zero => simp [hnil] at hk
          | succ i =>
            have h3 := hL _ _ hk
            have h4 := (cand_suf cands f hl hs _ _ _ hk).1
            simp; omega
        rw [h1]
        simp only []
        have h2 := matcherOf_shift cands 1 (t.drop pos) (fun i hi => by
          have : i = 0 := by omega
          subst this; simpa using hnil)
        rw [hshift, h2]
        have := ih ((t.drop pos).drop 1) (off + pos + 1) (by simp; omega) (by simp; omega)
        have := Rel_shift _ _ 1 _ this
        have := Rel_shift _ _ pos _ this
        exact this

theorem stage3_ok (cands : Bytes → List Nat) (f : Facts) (hl : Local cands) (hs : Sound cands f)
    (total : Nat) (t : Bytes) (off : Nat) (htot : off + t.length ≤ total) :
    Rel (matcherOf cands t) off (stage3 (matcherOf cands) f total t off) := by
  unfold stage3
  split
  · rename_i h
    rw [matcherOf_short cands f hl hs t h]
    exact ⟨by simp, by simp⟩
  · split
    · rename_i h
      simp only [Bool.and_eq_true, beq_iff_eq, List.isEmpty_iff, Bool.not_eq_true',
        List.isEmpty_eq_false_iff] at h
      exact window_ok cands f hl hs h.1.1 h.2 total _ t off (Nat.le_refl _) htot
    · cases hm : matcherOf cands t with
      | none => exact ⟨by simp only []; split <;> omega, by simp⟩
      | some r => exact ⟨by simp, by simp⟩

theorem stage2_ok (cands : Bytes → List Nat) (f : Facts) (hl : Local cands) (hs : Sound cands f)
    (total : Nat) (t : Bytes) (off : Nat) (htot : off + t.length ≤ total) :
    Rel (matcherOf cands t) off (stage2 (matcherOf cands) f total t off) := by
  unfold stage2
  split
  · rename_i h
    rw [matcherOf_short cands f hl hs t h]
    exact ⟨by simp, by simp⟩
  · split
    · exact stage3_ok cands f hl hs total t off htot
    · cases hli : lastIndexOf t f.suf with
      | none =>
        simp only []
        have hnone : matcherOf cands t = none := by
          apply matcherOf_none_of
          intro i
          rw [List.eq_nil_iff_forall_not_mem]
          intro n hn
          exact lastIndexOf_none _ _ hli _ (cand_suf cands f hl hs t i n hn).2
        rw [hnone]
        exact ⟨by simp; omega, by simp⟩
      | some pos =>
        simp only []
        obtain ⟨h1, h2⟩ := lastIndexOf_some _ _ _ hli
        have htake := matcherOf_take cands hl t (pos + f.suf.length) (fun i n hi hn => by
          have hb := cand_bound cands hl t i n hi hn
          have hsf := cand_suf cands f hl hs t i n hn
          have := h2 (i + n - f.suf.length) (by omega) hsf.2
          omega)
        rw [← htake]
        exact stage3_ok cands f hl hs total _ off (by simp; omega)

theorem stage1_ok (cands : Bytes → List Nat) (f : Facts) (hl : Local cands) (hs : Sound cands f)
    (total : Nat) (t : Bytes) (off : Nat) (htot : off + t.length ≤ total) :
    Rel (matcherOf cands t) off (stage1 (matcherOf cands) f total t off) := by
  unfold stage1
  split
  · rename_i h
    rw [matcherOf_short cands f hl hs t h]
    exact ⟨by simp, by simp⟩
  · split
    · exact stage2_ok cands f hl hs total t off htot
    · cases hidx : indexOf t f.pre with
      | none =>
        simp only []
        have hnone : matcherOf cands t = none := by
          apply matcherOf_none_of
          intro i
          rw [List.eq_nil_iff_forall_not_mem]
          intro n hn
          exact indexOf_none _ _ hidx _ (cand_pre cands f hs _ n hn).1
        rw [hnone]
        exact ⟨by simp; omega, by simp⟩
      | some pos =>
        simp only []
        obtain ⟨h1, h2⟩ := indexOf_some _ _ _ hidx
        have hlen : pos ≤ t.length := by
          false_or_by_contra
          rename_i hc
          rw [List.drop_of_length_le (by omega)] at h1
          have hp : f.pre = [] := by simpa using h1
          have := h2 0 (by omega)
          simp [hp] at this
        have hshift := matcherOf_shift cands pos t (fun i hi => by
          rw [List.eq_nil_iff_forall_not_mem]
          intro n hn
          exact h2 i hi (cand_pre cands f hs _ n hn).1)
        rw [hshift]
        apply Rel_shift
        exact stage2_ok cands f hl hs total _ _ (by simp; omega)

theorem find_Rel (cands : Bytes → List Nat) (f : Facts) (hl : Local cands) (hs : Sound cands f)
    (buf : Bytes) (off : Nat) (hoff : off ≤ buf.length) :
    Rel (matcherOf cands (buf.drop off)) off (find (matcherOf cands) f buf off) := by
  rw [find_eq_stage1]
  exact stage1_ok cands f hl hs _ _ _ (by simp; omega)


/-- MAIN LEMMA: with sound facts and a context-free expression the shortcuts of `find` do not change the
    match: same absolute start and end as the plain scan of the rest of the buffer, the offset never moves
    backwards and never beyond the start of the match. -/
theorem find_eq_plain' (cands : Bytes → List Nat) (f : Facts) (hl : Local cands) (hs : Sound cands f)
    (hctx : f.ctx = false) (buf : Bytes) (off : Nat) (hoff : off ≤ buf.length) :
    sameAbs (find (matcherOf cands) f buf off) (plainFind (matcherOf cands) buf off) = true ∧
    off ≤ (find (matcherOf cands) f buf off).off := by
  have _ := hctx  -- not needed: `sameAbs` ignores the offset of a miss
  have h := find_Rel cands f hl hs buf off hoff
  unfold Rel at h
  refine ⟨?_, h.1⟩
  obtain ⟨h1, h2⟩ := h
  unfold sameAbs plainFind
  cases hm : matcherOf cands (buf.drop off) <;>
    cases hr : (find (matcherOf cands) f buf off).res <;> simp [hm, hr] at h2 ⊢
  omega


/-- expressions with assertions: no shortcut is taken, any matcher -/
theorem find_noShortcuts' (m : Matcher) (buf : Bytes) (off : Nat) :
    (find m Facts.noShortcuts buf off).res = (plainFind m buf off).res ∧
    (find m Facts.noShortcuts buf off).off = off := by
  unfold find plainFind Facts.noShortcuts
  simp
  cases m (List.drop off buf) <;> simp

/-- an element on which the shortcut scan and the plain scan agree everywhere -/
def Agree (e : Elem) : Prop :=
  ∀ buf off, off ≤ buf.length → sameAbs (find e.m e.facts buf off) (plainFind e.m buf off) = true

theorem window_off_ge (m : Matcher) (f : Facts) (total : Nat) :
    ∀ fuel t off r, (window m f total fuel t off).res = some r → off ≤ (window m f total fuel t off).off := by
  intro fuel
  induction fuel with
  | zero => intro t off r h; simp [window] at h
  | succ fuel ih =>
    intro t off r h
    unfold window at h ⊢
    cases hidx : indexOf (t.drop (f.minLen - f.suf.length)) f.suf with
    | none => simp [hidx] at h
    | some pos =>
      simp only [hidx] at h ⊢
      cases hm : m (List.take f.minLen (List.drop pos t)) with
      | some r' => simp
      | none =>
        simp only [hm] at h ⊢
        have := ih _ _ r h
        omega

theorem stage1_off_ge (m : Matcher) (f : Facts) (total : Nat) (t : Bytes) (off : Nat) (r : Nat × Nat)
    (h : (stage1 m f total t off).res = some r) : off ≤ (stage1 m f total t off).off := by
  have h3 : ∀ t off, (stage3 m f total t off).res = some r → off ≤ (stage3 m f total t off).off := by
    intro t off h
    unfold stage3 at h ⊢
    split
    · simp
    · rename_i h1
      simp only [h1, if_false] at h
      split
      · rename_i h2
        simp only [h2, if_true] at h
        exact window_off_ge m f total _ _ _ r h
      · rename_i h2
        simp only [h2] at h
        cases hm : m t with
        | some r' => simp
        | none => simp [hm] at h
  have h2 : ∀ t off, (stage2 m f total t off).res = some r → off ≤ (stage2 m f total t off).off := by
    intro t off h
    unfold stage2 at h ⊢
    split
    · simp
    · rename_i h1
      simp only [h1, if_false] at h
      split
      · rename_i h2
        simp only [h2, if_true] at h
        exact h3 _ _ h
      · rename_i h2
        simp only [h2] at h
        cases hli : lastIndexOf t f.suf with
        | none => simp [hli] at h
        | some pos =>
          simp only [hli] at h ⊢
          exact h3 _ _ h
  unfold stage1 at h ⊢
  split
  · simp
  · rename_i h1
    simp only [h1, if_false] at h
    split
    · rename_i h2'
      simp only [h2', if_true] at h
      exact h2 _ _ h
    · rename_i h2'
      simp only [h2'] at h
      cases hidx : indexOf t f.pre with
      | none => simp [hidx] at h
      | some pos =>
        simp only [hidx] at h ⊢
        have := h2 _ _ h
        omega

theorem find_off_ge (m : Matcher) (f : Facts) (buf : Bytes) (off : Nat) (r : Nat × Nat)
    (h : (find m f buf off).res = some r) : off ≤ (find m f buf off).off := by
  rw [find_eq_stage1] at h ⊢
  exact stage1_off_ge m f _ _ _ r h

/-- on an empty rest the scan does not depend on the offset -/
theorem stage1_nil (m : Matcher) (f : Facts) (total off : Nat) :
    (stage1 m f total [] off).res = (stage1 m f total [] 0).res ∧
    ∀ r, (stage1 m f total [] off).res = some r → (stage1 m f total [] off).off = off := by
  unfold stage1 stage2 stage3
  simp only [List.length_nil]
  by_cases h0 : 0 < f.minLen
  · simp [h0]
  · simp only [h0, if_false]
    cases hp : f.pre with
    | cons a p => simp [indexOf]
    | nil =>
      simp only [List.isEmpty_nil, if_true]
      cases hsf : f.suf with
      | cons a p => simp [lastIndexOf]
      | nil =>
        simp only [List.isEmpty_nil, if_true, Bool.not_true, Bool.and_false, Bool.false_eq_true, if_false]
        cases m [] <;> simp

/-- the second hypothesis the chain congruence needs: an empty match ending at relative position 0 is only
    reported with the offset unmoved (`advance` does nothing for `e = 0`, so the plain scan, which reports
    the same empty match as `(k, k)` with `k > 0` from the old offset, would apply the chunk-boundary rule
    and the shortcut scan would not). -/
def EmptyStays (e : Elem) : Prop :=
  ∀ buf off s, off ≤ buf.length → (find e.m e.facts buf off).res = some (s, 0) →
    (find e.m e.facts buf off).off = off

theorem find_beyond (m : Matcher) (f : Facts) (buf : Bytes) (off : Nat) (h : buf.length ≤ off) :
    (find m f buf off).res = (find m f buf buf.length).res ∧
    ∀ r, (find m f buf off).res = some r → (find m f buf off).off = off := by
  rw [find_eq_stage1, find_eq_stage1, List.drop_of_length_le h, List.drop_of_length_le (Nat.le_refl _)]
  have h1 := stage1_nil m f buf.length off
  have h2 := stage1_nil m f buf.length buf.length
  exact ⟨h1.1.trans h2.1.symm, h1.2⟩

theorem plainFind_beyond (m : Matcher) (buf : Bytes) (off : Nat) (h : buf.length ≤ off) :
    (plainFind m buf off).res = (plainFind m buf buf.length).res := by
  unfold plainFind
  rw [List.drop_of_length_le h, List.drop_of_length_le (Nat.le_refl _)]
  cases m [] <;> rfl

theorem plainFind_off (m : Matcher) (buf : Bytes) (off : Nat) (r : Nat × Nat)
    (h : (plainFind m buf off).res = some r) : (plainFind m buf off).off = off := by
  unfold plainFind at h ⊢
  cases hm : m (buf.drop off) <;> simp_all

/-- `Agree` extends to offsets beyond the buffer -/
theorem Agree.all {e : Elem} (h : Agree e) (buf : Bytes) (off : Nat) :
    sameAbs (find e.m e.facts buf off) (plainFind e.m buf off) = true := by
  by_cases hoff : off ≤ buf.length
  · exact h buf off hoff
  · have hle : buf.length ≤ off := by omega
    have h0 := h buf buf.length (Nat.le_refl _)
    have hf := find_beyond e.m e.facts buf off hle
    have hf0 := find_beyond e.m e.facts buf buf.length (Nat.le_refl _)
    have hp := plainFind_beyond e.m buf off hle
    unfold sameAbs at h0 ⊢
    rw [hf.1, hp]
    cases hr : (find e.m e.facts buf buf.length).res with
    | none =>
      cases hq : (plainFind e.m buf buf.length).res with
      | none => rfl
      | some b => simp [hr, hq] at h0
    | some a =>
      cases hq : (plainFind e.m buf buf.length).res with
      | none => simp [hr, hq] at h0
      | some b =>
        simp only [hr, hq] at h0 ⊢
        have e1 := hf.2 a (hf.1.trans hr)
        have e2 := hf0.2 a hr
        have e3 := plainFind_off e.m buf off b (hp.trans hq)
        have e4 := plainFind_off e.m buf buf.length b hq
        rw [e1, e3]
        rw [e2, e4] at h0
        simp at h0 ⊢
        omega

theorem EmptyStays.all {e : Elem} (h : EmptyStays e) (buf : Bytes) (off s : Nat)
    (hr : (find e.m e.facts buf off).res = some (s, 0)) : (find e.m e.facts buf off).off = off := by
  by_cases hoff : off ≤ buf.length
  · exact h buf off s hoff hr
  · exact (find_beyond e.m e.facts buf off (by omega)).2 _ hr

theorem sel_upd (d : Nat) (p : Nat × Nat) (v : Nat) : sel d (upd d p v) = v := by
  unfold sel upd; split <;> simp_all

theorem upd_upd (d : Nat) (p : Nat × Nat) (v w : Nat) : upd d (upd d p v) w = upd d p w := by
  unfold upd; split <;> simp_all

theorem advance_congr (bl : ChunkSizes) (d : Nat) (offs : Nat × Nat) (a o en en' : Nat)
    (h1 : a + en = o + en') (h2 : o ≤ a) (h3 : en = 0 → a = o) :
    advance bl d (upd d offs a) en = advance bl d (upd d offs o) en' := by
  unfold advance
  by_cases he : en = 0
  · have := h3 he
    subst this
    have : en' = 0 := by omega
    simp [he, this]
  · have : en' ≠ 0 := by omega
    simp only [he, this, if_false, sel_upd, upd_upd, h1]

/-- chains advance identically under both scans when the scans agree on every element and empty matches stay -/
theorem progressWith_congr_strong' (s : Source) (els : List Elem)
    (h : ∀ e ∈ els, Agree e ∧ EmptyStays e) (offs : Nat × Nat) :
    progressWith find s els offs = progressWith (fun m _ b o => plainFind m b o) s els offs := by
  induction els generalizing offs with
  | nil => rfl
  | cons e rest ih =>
    obtain ⟨ha, he⟩ := h e (by simp)
    have hs := ha.all (s.buf e.dir) (sel e.dir offs)
    simp only [progressWith]
    unfold sameAbs at hs
    cases hr : (find e.m e.facts (s.buf e.dir) (sel e.dir offs)).res with
    | none =>
      cases hq : (plainFind e.m (s.buf e.dir) (sel e.dir offs)).res with
      | none => rfl
      | some b => simp [hr, hq] at hs
    | some a =>
      cases hq : (plainFind e.m (s.buf e.dir) (sel e.dir offs)).res with
      | none => simp [hr, hq] at hs
      | some b =>
        obtain ⟨s1, en⟩ := a
        obtain ⟨s2, en'⟩ := b
        simp only [hr, hq] at hs ⊢
        have e1 := plainFind_off _ _ _ _ hq
        have e2 := find_off_ge _ _ _ _ _ hr
        simp at hs
        rw [e1] at hs
        have hadv := advance_congr s.sizes e.dir offs _ (sel e.dir offs) en en' hs.2 e2 (fun h0 => by
          subst h0
          exact he.all _ _ _ hr)
        rw [e1, hadv, ih (fun e' he' => h e' (by simp [he']))]

theorem filter_congr_strong' (conds : List Cond) (srcs : List Source)
    (h : ∀ c ∈ conds, ∀ e ∈ c.els, Agree e ∧ EmptyStays e) :
    filter conds srcs = plainFilter conds srcs := by
  unfold filter plainFilter filterWith
  split
  · rfl
  · have key : ∀ c ∈ conds, condDecision c (srcs.map (fun s => progress s c.els)) =
        condDecision c (srcs.map (fun s => plainProgress s c.els)) := by
      intro c hc
      congr 1
      apply List.map_congr_left
      intro s _
      exact progressWith_congr_strong' s c.els (h c hc) (0, 0)
    rw [Bool.eq_iff_iff, List.all_eq_true, List.all_eq_true]
    constructor
    · intro h1 c hc; rw [← key c hc]; exact h1 c hc
    · intro h1 c hc; rw [key c hc]; exact h1 c hc

/-- without prefix and suffix the offset is never moved when something is found -/
theorem find_off_eq_of_no_affix (m : Matcher) (f : Facts) (hp : f.pre = []) (hsf : f.suf = [])
    (buf : Bytes) (off : Nat) (r : Nat × Nat) (h : (find m f buf off).res = some r) :
    (find m f buf off).off = off := by
  rw [find_eq_stage1] at h ⊢
  unfold stage1 stage2 stage3 at h ⊢
  simp only [hp, hsf, List.isEmpty_nil, if_true, Bool.not_true, Bool.and_false, Bool.false_eq_true,
    if_false] at h ⊢
  split
  · rfl
  · cases hm : m (buf.drop off) with
    | some r' => simp
    | none =>
      rename_i h1
      simp only [List.length_drop] at h1
      simp [h1, hm] at h

theorem emptyStays_of_sound (cands : Bytes → List Nat) (f : Facts) (d : Nat) (hl : Local cands)
    (hs : Sound cands f) : EmptyStays ⟨d, matcherOf cands, f⟩ := by
  intro buf off s hoff hr
  simp only at hr ⊢
  have hrel := find_Rel cands f hl hs buf off hoff
  unfold Rel at hrel
  obtain ⟨h1, h2⟩ := hrel
  cases hm : matcherOf cands (buf.drop off) with
  | none => simp [hm, hr] at h2
  | some a =>
    obtain ⟨a1, a2⟩ := a
    simp only [hm, hr] at h2
    obtain ⟨_, _, n, hn, he⟩ := matcherOf_some_spec cands _ _ _ hm
    have hmem := List.mem_of_mem_head? hn
    have hn0 : n = 0 := by omega
    subst hn0
    have hp := (cand_pre cands f hs _ _ hmem).2
    have hsf := (cand_suf cands f hl hs _ _ _ hmem).1
    exact find_off_eq_of_no_affix _ f (by simpa using hp) (by simpa using hsf) buf off _ hr

theorem emptyStays_of_noShortcuts (m : Matcher) (d : Nat) : EmptyStays ⟨d, m, Facts.noShortcuts⟩ := by
  intro buf off s _ _
  exact (find_noShortcuts' m buf off).2

/-! ### `progressWith_congr'` and `filter_congr'` as stated are false -/

/-- `(?=\x02)`-like matcher: the empty match in front of the first byte 2 -/
def cexM : Matcher := fun b => (indexOf b [2]).map (fun i => (i, i))
def cexF : Facts := ⟨[2], [], 0, 100, false⟩
def cexSrc : Source := ⟨[1, 2], [2, 2, 2], [(0, 0), (0, 3), (2, 3)]⟩

theorem indexOf_of_prefix (t p : Bytes) (h : p <+: t) : indexOf t p = some 0 := by
  cases t with
  | nil =>
    have : p = [] := by simpa using h
    simp [indexOf, this]
  | cons a rest =>
    unfold indexOf
    simp [(hasPrefix_iff _ _).2 h]

theorem cex_agree (d : Nat) : Agree ⟨d, cexM, cexF⟩ := by
  intro buf off _
  simp only
  rw [find_eq_stage1]
  unfold stage1 stage2 stage3 plainFind sameAbs cexF cexM
  simp only [Nat.not_lt_zero, if_false, List.isEmpty_cons, Bool.false_eq_true, List.isEmpty_nil, if_true]
  cases hidx : indexOf (buf.drop off) [2] with
  | none => simp
  | some pos =>
    have := indexOf_of_prefix _ _ (indexOf_some _ _ _ hidx).1
    rw [List.drop_drop] at this
    simp [this]

theorem cex_progress :
    progressWith find cexSrc [⟨0, cexM, cexF⟩, ⟨1, cexM, cexF⟩] (0, 0) = 2 ∧
    progressWith (fun m _ b o => plainFind m b o) cexSrc [⟨0, cexM, cexF⟩, ⟨1, cexM, cexF⟩] (0, 0) = 1 := by
  decide

theorem cex_filter :
    filter [⟨[⟨0, cexM, cexF⟩, ⟨1, cexM, cexF⟩], false⟩] [cexSrc] = true ∧
    plainFilter [⟨[⟨0, cexM, cexF⟩, ⟨1, cexM, cexF⟩], false⟩] [cexSrc] = false := by
  decide

/-- `Agree` alone does not make the chains equal: the hypothesis `EmptyStays` of `progressWith_congr_strong'` is needed. -/
theorem progressWith_congr'_false :
    ¬ (∀ (s : Source) (els : List Elem), (∀ e ∈ els, Agree e) → ∀ (offs : Nat × Nat),
        offs.1 ≤ s.client.length → offs.2 ≤ s.server.length →
        (∀ p ∈ s.sizes, p.1 ≤ s.client.length ∧ p.2 ≤ s.server.length) →
        progressWith find s els offs = progressWith (fun m _ b o => plainFind m b o) s els offs) := by
  intro h
  have := h cexSrc [⟨0, cexM, cexF⟩, ⟨1, cexM, cexF⟩]
    (by intro e he; simp at he; rcases he with rfl | rfl <;> exact cex_agree _)
    (0, 0) (by decide) (by decide) (by decide)
  rw [cex_progress.1, cex_progress.2] at this
  exact absurd this (by decide)

/-- … nor the filters, same counterexample. -/
theorem filter_congr'_false :
    ¬ (∀ (conds : List Cond) (srcs : List Source), (∀ c ∈ conds, ∀ e ∈ c.els, Agree e) →
        (∀ s ∈ srcs, ∀ p ∈ s.sizes, p.1 ≤ s.client.length ∧ p.2 ≤ s.server.length) →
        filter conds srcs = plainFilter conds srcs) := by
  intro h
  have := h [⟨[⟨0, cexM, cexF⟩, ⟨1, cexM, cexF⟩], false⟩] [cexSrc]
    (by
      intro c hc e he
      simp at hc; subst hc
      simp at he; rcases he with rfl | rfl <;> exact cex_agree _)
    (by decide)
  rw [cex_filter.1, cex_filter.2] at this
  exact absurd this (by decide)

theorem condDecision_spec' (c : Cond) (ns : List Nat) :
    condDecision c ns =
      if c.inverted then (!ns.isEmpty && ns.all (fun n => c.els.length - n == 1))
      else ns.any (fun n => c.els.length - n == 0) := by
  have keyB : ∀ (p : Nat → Bool), (ns.length - (ns.filter p).length = 0) ↔ ns.all p = true := by
    intro p
    have := List.length_filter_le p ns
    rw [List.all_eq_true, ← List.length_filter_eq_length_iff]  
    omega
  have keyA : ∀ (p : Nat → Bool), ((ns.filter p).length = 0) ↔ ns.all (fun n => !p n) = true := by
    intro p
    rw [List.length_eq_zero_iff, List.filter_eq_nil_iff, List.all_eq_true]
    simp
  unfold condDecision
  simp only [keyA, keyB]
  cases hi : c.inverted
  · simp [failsOn, hi]
    rw [Bool.eq_iff_iff]
    simp
    constructor
    · intro h x hx; have := h x hx; omega
    · intro h x hx; have := h x hx; omega
  · simp [failsOn, hi]
    cases ns with
    | nil => simp
    | cons a t =>
      rw [Bool.eq_iff_iff]
      simp
      constructor
      · intro ⟨_, h1, h2⟩
        exact ⟨by omega, fun x hx => by have := h2 x hx; omega⟩
      · intro ⟨h1, h2⟩ 
        exact ⟨Or.inl (by omega), by omega, fun x hx => by have := h2 x hx; omega⟩

theorem negation_flips' (prog : Source → List Elem → Nat) (e : Elem) (srcs : List Source)
    (h : ∀ s, prog s [e] ≤ 1) :
    filterWith prog [⟨[e], true⟩] srcs = !filterWith prog [⟨[e], false⟩] srcs := by
  unfold filterWith
  cases srcs with
  | nil => simp
  | cons a t =>
    simp only [List.isEmpty_cons, Bool.false_eq_true, if_false, List.all_cons, List.all_nil, Bool.and_true]
    rw [condDecision_spec', condDecision_spec']
    simp
    rw [Bool.eq_iff_iff]
    simp
    constructor
    · intro ⟨h1, h2⟩
      exact ⟨by have := h a; omega, fun x hx => by have := h2 x hx; have := h x; omega⟩
    · intro ⟨h1, h2⟩
      exact ⟨by have := h a; omega, fun x hx => by have := h2 x hx; have := h x; omega⟩

end Pk.Proofs.DataSearch
