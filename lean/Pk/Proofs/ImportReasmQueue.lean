/-
  Helper lemmas for Pk/Props/C05Reasm.lean: the out-of-order queue of the reference reassembler
  (`overlapWalk`/`checkOverlap`, `addContiguous`) on pages that are slices of one byte string.
-/
import Pk.Proofs.ImportReasmSeq

namespace Pk.Proofs.ImportReasm
open Pk.Import

/-- offset of the first byte of a queued page -/
def gOff (isn : Nat) (pg : Page) : Nat := pg.seq - isn
/-- offset just after the last byte of a queued page -/
def gEnd (isn : Nat) (pg : Page) : Nat := pg.seq - isn + pg.bytes.length

/-- a queued page holds bytes `gOff .. gEnd-1` of `B` under their sequence numbers, is not empty
    and does not carry FIN/RST -/
def PageOk (isn : Nat) (B : Bytes) (pg : Page) : Prop :=
  pg.fin = false ∧ isn ≤ pg.seq ∧ pg.bytes ≠ [] ∧ gEnd isn pg ≤ B.length ∧
  pg.bytes = slice B (gOff isn pg) (gEnd isn pg)

instance (isn : Nat) (B : Bytes) (pg : Page) : Decidable (PageOk isn B pg) := by unfold PageOk; infer_instance

/-- offset `x` is held by some page of the queue -/
def Covered (isn : Nat) (q : List Page) (x : Nat) : Prop :=
  ∃ pg ∈ q, gOff isn pg ≤ x ∧ x < gEnd isn pg

/-- pages in increasing order without overlap -/
def Ascending (isn : Nat) (q : List Page) : Prop :=
  q.Pairwise (fun a b => gEnd isn a ≤ gOff isn b)

theorem PageOk.lt {isn B pg} (h : PageOk isn B pg) : gOff isn pg < gEnd isn pg := by
  obtain ⟨_, _, hne, _, _⟩ := h
  have : pg.bytes.length ≠ 0 := fun h0 => hne (List.length_eq_zero_iff.mp h0)
  unfold gOff gEnd; omega

theorem PageOk.seq_eq {isn B pg} (h : PageOk isn B pg) : pg.seq = isn + gOff isn pg := by
  obtain ⟨_, h2, _⟩ := h
  unfold gOff; omega

theorem PageOk.len {isn B pg} (_h : PageOk isn B pg) : pg.bytes.length = gEnd isn pg - gOff isn pg := by
  unfold gOff gEnd; omega

/-- one step of `overlapWalk` on a page of `B`, with the comparisons of sequence numbers written
    as comparisons of offsets -/
theorem overlapWalk_cons {isn : Nat} {B : Bytes} (hl : SeqLinear isn B.length) {s e : Nat} (hs : s ≤ B.length)
    (he : e ≤ B.length) (cur : Page) (hc : PageOk isn B cur) (prev after : List Page) (bytes : Bytes) :
    overlapWalk (isn + s) (isn + e) (cur :: prev) after bytes =
      if e < gOff isn cur then overlapWalk (isn + s) (isn + e) prev (cur :: after) bytes
      else if gEnd isn cur ≤ s then ((cur :: prev).reverse, after, bytes)
      else if gEnd isn cur ≤ e ∧ s ≤ gOff isn cur then overlapWalk (isn + s) (isn + e) prev after bytes
      else if gEnd isn cur < e then
        (({ cur with bytes := cur.bytes.take (s - gOff isn cur) } :: prev).reverse, after, bytes)
      else if s < gOff isn cur ∧ gOff isn cur < e then
        overlapWalk (isn + s) (isn + e) prev
          ({ cur with bytes := cur.bytes.drop (e - gOff isn cur), seq := seqAdd cur.seq (e - gOff isn cur) } :: after) bytes
      else if gOff isn cur ≤ s then
        overlapWalk (isn + s) (isn + e) prev
          ({ cur with bytes := cur.bytes.take (s - gOff isn cur) ++ bytes ++
                cur.bytes.drop (s - gOff isn cur + bytes.length) } :: after) []
      else overlapWalk (isn + s) (isn + e) prev (cur :: after) bytes := by
  have hlt := hc.lt
  have hseq := hc.seq_eq
  have hge : gEnd isn cur ≤ B.length := hc.2.2.2.1
  have hlen := hc.len
  have hce : seqAdd cur.seq cur.bytes.length = isn + gEnd isn cur := by
    rw [hseq, hlen, seqAdd_lin hl (by omega)]; omega
  have d1 : seqDiff (isn + e) cur.seq = (gOff isn cur : Int) - e := by
    rw [hseq, seqDiff_lin hl he (by omega)]
  have d2 : seqDiff (isn + s) (isn + gEnd isn cur) = (gEnd isn cur : Int) - s := seqDiff_lin hl hs hge
  have d3 : seqDiff (isn + s) cur.seq = (gOff isn cur : Int) - s := by
    rw [hseq, seqDiff_lin hl hs (by omega)]
  have d4 : seqDiff (isn + e) (isn + gEnd isn cur) = (gEnd isn cur : Int) - e := seqDiff_lin hl he hge
  rw [overlapWalk]
  simp only [hce, d1, d2, d3, d4]
  have t1 : (-((gOff isn cur : Int) - s)).toNat = s - gOff isn cur := by omega
  have t2 : (-((gOff isn cur : Int) - e)).toNat = e - gOff isn cur := by omega
  rw [t1, t2]
  by_cases c5 : e < gOff isn cur
  · rw [if_pos (by omega), if_pos c5]
  rw [if_neg (by omega), if_neg c5]
  by_cases c1 : gEnd isn cur ≤ s
  · rw [if_pos (by omega), if_pos c1]
  rw [if_neg (by omega), if_neg c1]
  by_cases c3 : gEnd isn cur ≤ e ∧ s ≤ gOff isn cur
  · rw [if_pos (by omega), if_pos c3]
  rw [if_neg (by omega), if_neg c3]
  by_cases c2 : gEnd isn cur < e
  · rw [if_pos (by omega), if_pos c2]
  rw [if_neg (by omega), if_neg c2]
  by_cases c4 : s < gOff isn cur ∧ gOff isn cur < e
  · rw [if_pos (by omega), if_pos c4]
  rw [if_neg (by omega), if_neg c4]
  by_cases c6 : gOff isn cur ≤ s
  · rw [if_pos (by omega), if_pos c6]
  rw [if_neg (by omega), if_neg c6]

/-- pages that all end before the new bytes: the walk stops at once -/
theorem overlapWalk_done {isn : Nat} {B : Bytes} (hl : SeqLinear isn B.length) {s e : Nat} (hse : s ≤ e)
    (he : e ≤ B.length) (revq after : List Page) (bytes : Bytes)
    (h : ∀ pg ∈ revq, PageOk isn B pg ∧ gEnd isn pg ≤ s) :
    overlapWalk (isn + s) (isn + e) revq after bytes = (revq.reverse, after, bytes) := by
  cases revq with
  | nil => simp [overlapWalk]
  | cons cur prev =>
    obtain ⟨hc, hle⟩ := h cur (List.mem_cons_self ..)
    have := hc.lt
    rw [overlapWalk_cons hl (by omega) he cur hc, if_neg (by omega), if_pos hle]

theorem asc_split {isn : Nat} (l1 : List Page) (c : Page) (l2 : List Page) :
    Ascending isn (l1 ++ c :: l2) ↔
      Ascending isn l1 ∧ Ascending isn l2 ∧ (∀ a ∈ l1, gEnd isn a ≤ gOff isn c) ∧
      (∀ b ∈ l2, gEnd isn c ≤ gOff isn b) ∧ (∀ a ∈ l1, ∀ b ∈ l2, gEnd isn a ≤ gOff isn b) := by
  unfold Ascending
  simp only [List.pairwise_append, List.pairwise_cons, List.mem_cons]
  constructor
  · rintro ⟨h1, ⟨h2, h3⟩, h4⟩
    exact ⟨h1, h3, fun a ha => h4 a ha c (Or.inl rfl), h2, fun a ha b hb => h4 a ha b (Or.inr hb)⟩
  · rintro ⟨h1, h2, h3, h4, h5⟩
    refine ⟨h1, ⟨h4, h2⟩, ?_⟩
    intro a ha b hb
    rcases hb with rfl | hb
    · exact h3 a ha
    · exact h5 a ha b hb

theorem asc_append {isn : Nat} (l1 l2 : List Page) :
    Ascending isn (l1 ++ l2) ↔
      Ascending isn l1 ∧ Ascending isn l2 ∧ (∀ a ∈ l1, ∀ b ∈ l2, gEnd isn a ≤ gOff isn b) := by
  unfold Ascending
  simp only [List.pairwise_append]

/-- what `overlapWalk` guarantees (see `overlapWalk_spec`) -/
structure WalkSpec (isn : Nat) (B : Bytes) (s e : Nat) (revq after : List Page) (bytes : Bytes)
    (r : List Page × List Page × Bytes) : Prop where
  ok : ∀ pg ∈ r.1 ++ r.2.1, PageOk isn B pg
  asc : Ascending isn (r.1 ++ r.2.1)
  res : (r.2.2 = bytes ∧ (∀ pg ∈ r.1, gEnd isn pg ≤ s) ∧ (∀ pg ∈ r.2.1, e ≤ gOff isn pg)) ∨
        (r.2.2 = [] ∧ ∃ pg ∈ revq, gOff isn pg ≤ s)
  lo : ∀ lo, (∀ pg ∈ revq, lo ≤ gOff isn pg) → (∀ pg ∈ after, lo ≤ gOff isn pg) →
        ∀ pg ∈ r.1 ++ r.2.1, lo ≤ gOff isn pg
  cov : ∀ x, Covered isn (revq ++ after) x ∨ (s ≤ x ∧ x < e) →
        Covered isn (r.1 ++ r.2.1) x ∨ (r.2.2 ≠ [] ∧ s ≤ x ∧ x < e)

theorem WalkSpec.step {isn : Nat} {B : Bytes} {s e : Nat} {cur : Page} {prev after after' : List Page} {bytes : Bytes}
    {r : List Page × List Page × Bytes} (h : WalkSpec isn B s e prev after' bytes r)
    (hlo : ∀ pg ∈ after', pg ∈ after ∨ gOff isn cur ≤ gOff isn pg)
    (hcov : ∀ x, Covered isn (cur :: prev ++ after) x → Covered isn (prev ++ after') x ∨ (s ≤ x ∧ x < e)) :
    WalkSpec isn B s e (cur :: prev) after bytes r where
  ok := h.ok
  asc := h.asc
  res := by
    rcases h.res with h1 | ⟨h1, pg, hm, h2⟩
    · exact Or.inl h1
    · exact Or.inr ⟨h1, pg, List.mem_cons_of_mem _ hm, h2⟩
  lo := by
    intro lo h1 h2
    apply h.lo lo (fun pg hm => h1 pg (List.mem_cons_of_mem _ hm))
    intro pg hm
    rcases hlo pg hm with h3 | h3
    · exact h2 pg h3
    · have := h1 cur (List.mem_cons_self ..); omega
  cov := by
    intro x hx
    apply h.cov x
    rcases hx with hx | hx
    · exact hcov x hx
    · exact Or.inr hx

@[simp] theorem covered_nil {isn : Nat} (x : Nat) : Covered isn [] x ↔ False := by simp [Covered]

@[simp] theorem covered_cons {isn : Nat} (c : Page) (l : List Page) (x : Nat) :
    Covered isn (c :: l) x ↔ (gOff isn c ≤ x ∧ x < gEnd isn c) ∨ Covered isn l x := by
  simp [Covered]

@[simp] theorem covered_append {isn : Nat} (l1 l2 : List Page) (x : Nat) :
    Covered isn (l1 ++ l2) x ↔ Covered isn l1 x ∨ Covered isn l2 x := by
  simp [Covered, or_and_right, exists_or]

@[simp] theorem covered_reverse {isn : Nat} (l : List Page) (x : Nat) :
    Covered isn l.reverse x ↔ Covered isn l x := by
  simp [Covered]

/-- case (2) of `checkOverlap`: the end of a page is cut off -/
theorem pageOk_take {isn : Nat} {B : Bytes} {cur : Page} (hc : PageOk isn B cur) {s : Nat}
    (h1 : gOff isn cur < s) (h2 : s < gEnd isn cur) :
    PageOk isn B { cur with bytes := cur.bytes.take (s - gOff isn cur) } ∧
    gOff isn { cur with bytes := cur.bytes.take (s - gOff isn cur) } = gOff isn cur ∧
    gEnd isn { cur with bytes := cur.bytes.take (s - gOff isn cur) } = s := by
  have hlen := hc.len
  obtain ⟨f, hge, hne, hend, hb⟩ := hc
  have e1 : gOff isn { cur with bytes := cur.bytes.take (s - gOff isn cur) } = gOff isn cur := rfl
  have e2 : gEnd isn { cur with bytes := cur.bytes.take (s - gOff isn cur) } = s := by
    simp only [gEnd, List.length_take]
    unfold gOff gEnd at *; omega
  refine ⟨⟨f, hge, ?_, by rw [e2]; omega, ?_⟩, e1, e2⟩
  · intro h0
    have := congrArg List.length h0
    simp only [List.length_take, List.length_nil] at this
    omega
  · rw [e1, e2]
    show cur.bytes.take (s - gOff isn cur) = _
    rw [hb, slice_take (by omega)]
    congr 1; omega

/-- case (4) of `checkOverlap`: the start of a page is cut off -/
theorem pageOk_drop {isn : Nat} {B : Bytes} (hl : SeqLinear isn B.length) {cur : Page} (hc : PageOk isn B cur) {e : Nat}
    (h1 : gOff isn cur < e) (h2 : e < gEnd isn cur) :
    PageOk isn B { cur with bytes := cur.bytes.drop (e - gOff isn cur), seq := seqAdd cur.seq (e - gOff isn cur) } ∧
    gOff isn { cur with bytes := cur.bytes.drop (e - gOff isn cur), seq := seqAdd cur.seq (e - gOff isn cur) } = e ∧
    gEnd isn { cur with bytes := cur.bytes.drop (e - gOff isn cur), seq := seqAdd cur.seq (e - gOff isn cur) } = gEnd isn cur := by
  have hlen := hc.len
  have hseq := hc.seq_eq
  obtain ⟨f, hge, hne, hend, hb⟩ := hc
  have hsa : seqAdd cur.seq (e - gOff isn cur) = isn + e := by
    rw [hseq, seqAdd_lin hl (by omega)]; omega
  have e1 : gOff isn { cur with bytes := cur.bytes.drop (e - gOff isn cur), seq := seqAdd cur.seq (e - gOff isn cur) } = e := by
    show seqAdd cur.seq (e - gOff isn cur) - isn = e
    rw [hsa]; omega
  have e2 : gEnd isn { cur with bytes := cur.bytes.drop (e - gOff isn cur), seq := seqAdd cur.seq (e - gOff isn cur) } = gEnd isn cur := by
    show seqAdd cur.seq (e - gOff isn cur) - isn + (cur.bytes.drop (e - gOff isn cur)).length = gEnd isn cur
    rw [hsa, List.length_drop, hlen]; omega
  refine ⟨⟨f, by show isn ≤ seqAdd _ _; rw [hsa]; omega, ?_, by rw [e2]; exact hend, ?_⟩, e1, e2⟩
  · intro h0
    have := congrArg List.length h0
    simp only [List.length_drop, List.length_nil] at this
    omega
  · rw [e1, e2]
    show cur.bytes.drop (e - gOff isn cur) = _
    rw [hb, slice_drop]
    congr 1; omega

/-- case (6) of `checkOverlap`: writing bytes of `B` into a page of `B` changes nothing -/
theorem page_overwrite {isn : Nat} {B : Bytes} {cur : Page} (hc : PageOk isn B cur) {s e : Nat}
    (h1 : gOff isn cur ≤ s) (h2 : s ≤ e) (h3 : e ≤ gEnd isn cur) :
    cur.bytes.take (s - gOff isn cur) ++ slice B s e ++ cur.bytes.drop (s - gOff isn cur + (slice B s e).length) =
      cur.bytes := by
  obtain ⟨f, hge, hne, hend, hb⟩ := hc
  rw [slice_length (by omega)]
  conv => lhs; rw [hb]
  rw [slice_take (by omega), slice_drop]
  have a1 : gOff isn cur + (s - gOff isn cur) = s := by omega
  have a2 : gOff isn cur + (s - gOff isn cur + (e - s)) = e := by omega
  rw [a1, a2, slice_append h1 h2, slice_append (by omega) h3, ← hb]

/-- `overlapWalk` on a queue of pages of `B` and new bytes `s .. e-1` of `B`: the pages stay pages
    of `B` in ascending order, nothing that was held is lost except inside `s .. e-1`, and the new
    bytes either survive unchanged or are already held by a page -/
theorem overlapWalk_spec {isn : Nat} {B : Bytes} (hl : SeqLinear isn B.length) {s e : Nat} (hse : s ≤ e)
    (he : e ≤ B.length) : ∀ (revq after : List Page),
    (∀ pg ∈ revq, PageOk isn B pg) → (∀ pg ∈ after, PageOk isn B pg ∧ e ≤ gOff isn pg) →
    Ascending isn (revq.reverse ++ after) →
    WalkSpec isn B s e revq after (slice B s e) (overlapWalk (isn + s) (isn + e) revq after (slice B s e)) := by
  have hbne : ∀ x, s ≤ x ∧ x < e → slice B s e ≠ [] := fun x hx => slice_ne_nil (by omega) he
  intro revq
  induction revq with
  | nil =>
    intro after _ hafter hasc
    simp only [overlapWalk]
    exact {
      ok := by intro pg hm; exact (hafter pg (by simpa using hm)).1
      asc := by simpa using hasc
      res := Or.inl ⟨rfl, (by intro pg hm; cases hm), fun pg hm => (hafter pg hm).2⟩
      lo := by intro lo _ h2 pg hm; exact h2 pg (by simpa using hm)
      cov := by
        intro x hx
        rcases hx with hx | hx
        · exact Or.inl (by simpa using hx)
        · exact Or.inr ⟨hbne x hx, hx⟩ }
  | cons cur prev ih =>
    intro after hrev hafter hasc
    have hc : PageOk isn B cur := hrev cur (List.mem_cons_self ..)
    have hprev : ∀ pg ∈ prev, PageOk isn B pg := fun pg hm => hrev pg (List.mem_cons_of_mem _ hm)
    have hlt := hc.lt
    have hasc' : Ascending isn (prev.reverse ++ cur :: after) := by simpa using hasc
    obtain ⟨a1, a2, a3, a4, a5⟩ := (asc_split _ _ _).mp hasc'
    rw [overlapWalk_cons hl (by omega) he cur hc]
    by_cases c5 : e < gOff isn cur
    · -- (5) the page lies after the new bytes
      rw [if_pos c5]
      refine (ih (cur :: after) hprev ?_ hasc').step ?_ ?_
      · intro pg hm
        rcases List.mem_cons.mp hm with rfl | hm
        · exact ⟨hc, by omega⟩
        · exact hafter pg hm
      · intro pg hm
        rcases List.mem_cons.mp hm with rfl | hm
        · exact Or.inr (Nat.le_refl _)
        · exact Or.inl hm
      · intro x hx
        simp only [List.cons_append, covered_cons, covered_append] at hx ⊢
        grind
    rw [if_neg c5]
    by_cases c1 : gEnd isn cur ≤ s
    · -- (1) the page lies before the new bytes: stop
      rw [if_pos c1]
      exact {
        ok := by
          intro pg hm
          simp only [List.mem_append, List.mem_reverse] at hm
          rcases hm with hm | hm
          · exact hrev pg hm
          · exact (hafter pg hm).1
        asc := hasc
        res := Or.inl ⟨rfl, (by
          intro pg hm
          rcases List.mem_cons.mp (List.mem_reverse.mp hm) with rfl | hm
          · exact c1
          · have := a3 pg (List.mem_reverse.mpr hm); omega),
          fun pg hm => (hafter pg hm).2⟩
        lo := by
          intro lo h1 h2 pg hm
          simp only [List.mem_append, List.mem_reverse] at hm
          rcases hm with hm | hm
          · exact h1 pg hm
          · exact h2 pg hm
        cov := by
          intro x hx
          rcases hx with hx | hx
          · left
            simp only [List.cons_append, covered_cons, covered_append, covered_reverse, List.reverse_cons,
              covered_nil, or_false] at hx ⊢
            grind
          · exact Or.inr ⟨hbne x hx, hx⟩ }
    rw [if_neg c1]
    by_cases c3 : gEnd isn cur ≤ e ∧ s ≤ gOff isn cur
    · -- (3) the page lies inside the new bytes: dropped
      rw [if_pos c3]
      refine (ih after hprev hafter ?_).step (fun pg hm => Or.inl hm) ?_
      · exact (asc_append _ _).mpr ⟨a1, a2, a5⟩
      · intro x hx
        simp only [List.cons_append, covered_cons, covered_append] at hx ⊢
        grind
    rw [if_neg c3]
    by_cases c2 : gEnd isn cur < e
    · -- (2) the end of the page overlaps the start of the new bytes: cut, stop
      rw [if_pos c2]
      obtain ⟨k1, k2, k3⟩ := pageOk_take hc (s := s) (by omega) (by omega)
      generalize hcur' : ({ cur with bytes := cur.bytes.take (s - gOff isn cur) } : Page) = cur' at k1 k2 k3
      exact {
        ok := by
          intro pg hm
          simp only [List.mem_append, List.mem_reverse, List.mem_cons] at hm
          rcases hm with (rfl | hm) | hm
          · exact k1
          · exact hprev pg hm
          · exact (hafter pg hm).1
        asc := by
          have : (cur' :: prev).reverse ++ after = prev.reverse ++ cur' :: after := by simp
          rw [this]
          refine (asc_split _ _ _).mpr ⟨a1, a2, ?_, ?_, a5⟩
          · intro a ha; rw [k2]; exact a3 a ha
          · intro b hb; rw [k3]; have := (hafter b hb).2; omega
        res := Or.inl ⟨rfl, (by
          intro pg hm
          rcases List.mem_cons.mp (List.mem_reverse.mp hm) with rfl | hm
          · omega
          · have := a3 pg (List.mem_reverse.mpr hm); omega),
          fun pg hm => (hafter pg hm).2⟩
        lo := by
          intro lo h1 h2 pg hm
          simp only [List.mem_append, List.mem_reverse, List.mem_cons] at hm
          rcases hm with (rfl | hm) | hm
          · rw [k2]; exact h1 cur (List.mem_cons_self ..)
          · exact h1 pg (List.mem_cons_of_mem _ hm)
          · exact h2 pg hm
        cov := by
          intro x hx
          have hb := hbne x
          simp only [List.cons_append, covered_cons, covered_append, covered_reverse, List.reverse_cons] at hx ⊢
          simp only [covered_nil, or_false] at hx ⊢
          rw [k2, k3]
          by_cases hxin : s ≤ x ∧ x < e
          · exact Or.inr ⟨hb hxin, hxin⟩
          · left
            grind }
    rw [if_neg c2]
    by_cases c4 : s < gOff isn cur ∧ gOff isn cur < e
    · -- (4) the start of the page overlaps the end of the new bytes: cut
      rw [if_pos c4]
      obtain ⟨k1, k2, k3⟩ := pageOk_drop hl hc (e := e) (by omega) (by omega)
      generalize hcur' : ({ cur with bytes := cur.bytes.drop (e - gOff isn cur), seq := seqAdd cur.seq (e - gOff isn cur) } : Page) = cur' at k1 k2 k3
      refine (ih (cur' :: after) hprev ?_ ?_).step ?_ ?_
      · intro pg hm
        rcases List.mem_cons.mp hm with rfl | hm
        · exact ⟨k1, by omega⟩
        · exact hafter pg hm
      · refine (asc_split _ _ _).mpr ⟨a1, a2, ?_, ?_, a5⟩
        · intro a ha; have := a3 a ha; omega
        · intro b hb; rw [k3]; exact a4 b hb
      · intro pg hm
        rcases List.mem_cons.mp hm with rfl | hm
        · exact Or.inr (by omega)
        · exact Or.inl hm
      · intro x hx
        simp only [List.cons_append, covered_cons, covered_append] at hx ⊢
        rw [k2, k3]
        grind
    rw [if_neg c4]
    by_cases c6 : gOff isn cur ≤ s
    · -- (6) the new bytes lie inside the page: nothing new
      rw [if_pos c6, page_overwrite hc c6 hse (by omega)]
      have hdone : ∀ pg ∈ prev, PageOk isn B pg ∧ gEnd isn pg ≤ s := by
        intro pg hm
        have := a3 pg (List.mem_reverse.mpr hm)
        exact ⟨hprev pg hm, by omega⟩
      have hcc : ({ cur with bytes := cur.bytes } : Page) = cur := rfl
      rw [hcc, overlapWalk_done hl hse he prev (cur :: after) [] hdone]
      exact {
        ok := by
          intro pg hm
          simp only [List.mem_append, List.mem_reverse, List.mem_cons] at hm
          rcases hm with hm | rfl | hm
          · exact hprev pg hm
          · exact hc
          · exact (hafter pg hm).1
        asc := hasc'
        res := Or.inr ⟨rfl, cur, List.mem_cons_self .., c6⟩
        lo := by
          intro lo h1 h2 pg hm
          simp only [List.mem_append, List.mem_reverse, List.mem_cons] at hm
          rcases hm with hm | rfl | hm
          · exact h1 pg (List.mem_cons_of_mem _ hm)
          · exact h1 _ (List.mem_cons_self ..)
          · exact h2 pg hm
        cov := by
          intro x hx
          left
          simp only [List.cons_append, covered_cons, covered_append, covered_reverse] at hx ⊢
          grind }
    rw [if_neg c6]
    -- the page starts exactly where the new bytes end
    refine (ih (cur :: after) hprev ?_ hasc').step ?_ ?_
    · intro pg hm
      rcases List.mem_cons.mp hm with rfl | hm
      · exact ⟨hc, by omega⟩
      · exact hafter pg hm
    · intro pg hm
      rcases List.mem_cons.mp hm with rfl | hm
      · exact Or.inr (Nat.le_refl _)
      · exact Or.inl hm
    · intro x hx
      simp only [List.cons_append, covered_cons, covered_append] at hx ⊢
      grind

end Pk.Proofs.ImportReasm
