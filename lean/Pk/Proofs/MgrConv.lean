/- Helper lemmas for C16 (converter queues and caches). -/
import Pk.Model.Manager
namespace Pk.Proofs.MgrConv
open Pk.Mgr

/-! ## assoc lists -/

theorem sget_nil {α} (k : String) : sget ([] : List (String × α)) k = none := rfl
theorem sget_cons {α} (a : String × α) (l : List (String × α)) (k : String) :
    sget (a :: l) k = if a.1 = k then some a.2 else sget l k := by
  simp only [sget, List.find?_cons]
  by_cases h : a.1 = k
  · simp [h]
  · have : (a.1 == k) = false := by simpa using h
    simp [h, this]

theorem sget_sins {α} (l : List (String × α)) (k : String) (v : α) (k' : String) :
    sget (sins k v l) k' = if k = k' then some v else sget l k' := by
  induction l with
  | nil => simp [sins, sget_cons, sget_nil]
  | cons a r ih =>
    obtain ⟨ka, va⟩ := a
    simp only [sins]
    split
    · simp [sget_cons]
    · split
      · subst_vars; simp only [sget_cons]; split <;> simp_all
      · simp only [sget_cons, ih]; split <;> split <;> simp_all

theorem sget_sdel {α} (l : List (String × α)) (k k' : String) :
    sget (sdel l k) k' = if k = k' then none else sget l k' := by
  induction l with
  | nil => simp [sdel, sget_nil]
  | cons a r ih =>
    simp only [sdel, List.filter_cons] at ih ⊢
    by_cases h : a.1 = k
    · simp [h, ih, sget_cons]; split <;> simp_all
    · have : (a.1 != k) = true := by simpa using h
      simp only [this, if_true, sget_cons, ih]; split <;> split <;> simp_all

theorem sget_mem {α} (l : List (String × α)) (k : String) (v : α) (h : sget l k = some v) :
    (k, v) ∈ l := by
  induction l with
  | nil => simp [sget_nil] at h
  | cons a r ih =>
    rw [sget_cons] at h
    split at h
    · obtain ⟨ka, va⟩ := a; simp_all
    · exact List.mem_cons_of_mem _ (ih h)

/-- lookup in a table mapped by a key-preserving function -/
theorem sget_map {α} (f : String × α → String × α) (hf : ∀ x, (f x).1 = x.1)
    (l : List (String × α)) (k : String) :
    sget (l.map f) k = (sget l k).map (fun v => (f (k, v)).2) := by
  induction l with
  | nil => simp [sget_nil]
  | cons a r ih =>
    simp only [List.map_cons, sget_cons, hf, ih]
    split
    · obtain ⟨ka, va⟩ := a; simp_all
    · rfl

theorem nget_nil {α} (k : Nat) : nget ([] : List (Nat × α)) k = none := rfl
theorem nget_cons {α} (a : Nat × α) (l : List (Nat × α)) (k : Nat) :
    nget (a :: l) k = if a.1 = k then some a.2 else nget l k := by
  simp only [nget, List.find?_cons]
  by_cases h : a.1 = k
  · simp [h]
  · have : (a.1 == k) = false := by simpa using h
    simp [h, this]

theorem nget_nins {α} (l : List (Nat × α)) (k : Nat) (v : α) (k' : Nat) :
    nget (nins k v l) k' = if k = k' then some v else nget l k' := by
  induction l with
  | nil => simp [nins, nget_cons, nget_nil]
  | cons a r ih =>
    obtain ⟨ka, va⟩ := a
    simp only [nins]
    split
    · simp [nget_cons]
    · split
      · subst_vars; simp only [nget_cons]; split <;> simp_all
      · simp only [nget_cons, ih]; split <;> split <;> simp_all

theorem nget_ndel {α} (l : List (Nat × α)) (k k' : Nat) :
    nget (ndel l k) k' = if k = k' then none else nget l k' := by
  induction l with
  | nil => simp [ndel, nget_nil]
  | cons a r ih =>
    simp only [ndel, List.filter_cons] at ih ⊢
    by_cases h : a.1 = k
    · simp [h, ih, nget_cons]; split <;> simp_all
    · have : (a.1 != k) = true := by simpa using h
      simp only [this, if_true, nget_cons, ih]; split <;> split <;> simp_all

/-! ## id sets -/

theorem mem_ins (x y : Nat) (l : List Nat) : y ∈ ins x l ↔ y = x ∨ y ∈ l := by
  induction l with
  | nil => simp [ins]
  | cons a r ih =>
    simp only [ins]; split
    · simp
    · split
      · subst_vars; simp
      · simp [ih]; grind

theorem mem_union (a b : IdSet) (x : Nat) : x ∈ union a b ↔ x ∈ a ∨ x ∈ b := by
  unfold union
  induction b generalizing a with
  | nil => simp
  | cons y ys ih => simp only [List.foldl_cons, ih, mem_ins, List.mem_cons]; grind

theorem mem_diff (a b : IdSet) (x : Nat) : x ∈ diff a b ↔ x ∈ a ∧ x ∉ b := by
  simp [diff]
theorem mem_inter (a b : IdSet) (x : Nat) : x ∈ inter a b ↔ x ∈ a ∧ x ∈ b := by
  simp [inter]
theorem mem_ofList (l : List Nat) (x : Nat) : x ∈ ofList l ↔ x ∈ l := by
  simp [ofList, mem_union]

/-! ## generic fold lemma -/

theorem foldl_rel {σ β} (R : σ → σ → Prop) (hrefl : ∀ s, R s s)
    (htrans : ∀ a b c, R a b → R b c → R a c) (f : σ → β → σ) (l : List β)
    (hf : ∀ s x, x ∈ l → R s (f s x)) (s : σ) : R s (l.foldl f s) := by
  induction l generalizing s with
  | nil => exact hrefl s
  | cons x xs ih =>
    exact htrans _ _ _ (hf s x (by simp)) (ih (fun s y hy => hf s y (by simp [hy])) _)

/-! ## views of the state used by C16 -/

def cOf (s : St) (c : String) : IdSet := (sget s.cached c).getD []
def qOf (s : St) (c : String) : IdSet := (sget s.toconv c).getD []

/-- every tag of `tags'` stems from a tag of `tags` with at least its converters and matches
    (or has no converter attached) -/
def TagsLe (tags' tags : List (String × Tag)) : Prop :=
  ∀ n t', sget tags' n = some t' →
    t'.convs = [] ∨ ∃ n0 t, sget tags n0 = some t ∧ (∀ c ∈ t'.convs, c ∈ t.convs) ∧ ∀ id ∈ t'.mat, id ∈ t.mat

theorem TagsLe.refl (tags : List (String × Tag)) : TagsLe tags tags :=
  fun n t' h => Or.inr ⟨n, t', h, fun _ h => h, fun _ h => h⟩

theorem TagsLe.trans {a b c : List (String × Tag)} (h1 : TagsLe b a) (h2 : TagsLe c b) : TagsLe c a := by
  intro n t'' h
  rcases h2 n t'' h with h0 | ⟨n', t', ht', hc, hm⟩
  · exact Or.inl h0
  · rcases h1 n' t' ht' with h0 | ⟨n0, t, ht, hc', hm'⟩
    · left
      cases hcs : t''.convs with
      | nil => rfl
      | cons x xs => have := hc x (by simp [hcs]); simp [h0] at this
    · exact Or.inr ⟨n0, t, ht, fun c h => hc' c (hc c h), fun i h => hm' i (hm i h)⟩

theorem TagsLe_sins (tags : List (String × Tag)) (n : String) (t t' : Tag)
    (ht : sget tags n = some t) (hc : ∀ c ∈ t'.convs, c ∈ t.convs) (hm : ∀ id ∈ t'.mat, id ∈ t.mat) :
    TagsLe (sins n t' tags) tags := by
  intro m u hu
  rw [sget_sins] at hu
  split at hu
  · subst_vars; cases hu; exact Or.inr ⟨_, t, ht, hc, hm⟩
  · exact TagsLe.refl _ m u hu

theorem TagsLe_sins_new (tags : List (String × Tag)) (n : String) (t' : Tag)
    (hc : t'.convs = []) : TagsLe (sins n t' tags) tags := by
  intro m u hu
  rw [sget_sins] at hu
  split at hu
  · cases hu; exact Or.inl hc
  · exact TagsLe.refl _ m u hu

theorem TagsLe_sdel (tags : List (String × Tag)) (n : String) : TagsLe (sdel tags n) tags := by
  intro m u hu
  rw [sget_sdel] at hu
  split at hu
  · cases hu
  · exact TagsLe.refl _ m u hu

theorem TagsLe_map (tags : List (String × Tag)) (f : String × Tag → String × Tag)
    (hf : ∀ x, (f x).1 = x.1 ∧ (f x).2.convs = x.2.convs ∧ (f x).2.mat = x.2.mat) :
    TagsLe (tags.map f) tags := by
  intro m u hu
  rw [sget_map f (fun x => (hf x).1)] at hu
  cases h : sget tags m with
  | none => simp [h] at hu
  | some t =>
    simp only [h, Option.map_some, Option.some.injEq] at hu
    subst hu
    refine Or.inr ⟨m, t, h, ?_, ?_⟩
    · rw [(hf (m, t)).2.1]; exact fun _ h => h
    · rw [(hf (m, t)).2.2]; exact fun _ h => h

/-- same converter state; tags only lose converters / matches -/
structure SameK (s s' : St) : Prop where
  cached : s'.cached = s.cached
  toconv : s'.toconv = s.toconv
  convs : s'.convs = s.convs
  next : s'.next = s.next
  convert : s'.convert = s.convert
  tags : TagsLe s'.tags s.tags

theorem SameK.refl (s : St) : SameK s s := ⟨rfl, rfl, rfl, rfl, rfl, TagsLe.refl _⟩
theorem SameK.trans {a b c : St} (h1 : SameK a b) (h2 : SameK b c) : SameK a c :=
  ⟨h2.cached.trans h1.cached, h2.toconv.trans h1.toconv, h2.convs.trans h1.convs,
   h2.next.trans h1.next, h2.convert.trans h1.convert, h1.tags.trans h2.tags⟩

/-- `SameK` and the served files are untouched -/
def Same (s s' : St) : Prop := SameK s s' ∧ s'.idx = s.idx ∧ s'.files = s.files

theorem Same.refl (s : St) : Same s s := ⟨SameK.refl s, rfl, rfl⟩
theorem Same.trans {a b c : St} (h1 : Same a b) (h2 : Same b c) : Same a c :=
  ⟨h1.1.trans h2.1, h2.2.1.trans h1.2.1, h2.2.2.trans h1.2.2⟩

theorem Same_foldl {β} (f : St → β → St) (l : List β) (hf : ∀ s x, Same s (f s x)) (s : St) :
    Same s (l.foldl f s) :=
  foldl_rel Same Same.refl (fun _ _ _ => Same.trans) f l (fun s x _ => hf s x) s

theorem SameK_foldl {β} (f : St → β → St) (l : List β) (hf : ∀ s x, SameK s (f s x)) (s : St) :
    SameK s (l.foldl f s) :=
  foldl_rel SameK SameK.refl (fun _ _ _ => SameK.trans) f l (fun s x _ => hf s x) s

/-- converter state may change, but nothing that was cached-or-queued gets lost -/
structure Grow (s s' : St) : Prop where
  convs : s'.convs = s.convs
  next : s'.next = s.next
  idx : s'.idx = s.idx
  files : s'.files = s.files
  tags : TagsLe s'.tags s.tags
  cov : ∀ c id, id ∈ cOf s c ∨ id ∈ qOf s c → id ∈ cOf s' c ∨ id ∈ qOf s' c

theorem Grow.refl (s : St) : Grow s s := ⟨rfl, rfl, rfl, rfl, TagsLe.refl _, fun _ _ h => h⟩
theorem Grow.trans {a b c : St} (h1 : Grow a b) (h2 : Grow b c) : Grow a c :=
  ⟨h2.convs.trans h1.convs, h2.next.trans h1.next, h2.idx.trans h1.idx, h2.files.trans h1.files,
   h1.tags.trans h2.tags, fun c id h => h2.cov c id (h1.cov c id h)⟩
theorem Same.grow {s s' : St} (h : Same s s') : Grow s s' :=
  ⟨h.1.convs, h.1.next, h.2.1, h.2.2, h.1.tags, fun c id hh => by
    simpa only [cOf, qOf, h.1.cached, h.1.toconv] using hh⟩

theorem Grow_foldl {β} (f : St → β → St) (l : List β) (hf : ∀ s x, Grow s (f s x)) (s : St) :
    Grow s (l.foldl f s) :=
  foldl_rel Grow Grow.refl (fun _ _ _ => Grow.trans) f l (fun s x _ => hf s x) s

/-! ## the invariants -/

def Acc (s : St) : Prop :=
  ∀ n t, sget s.tags n = some t → ∀ c ∈ t.convs, ∀ id, id ∈ t.mat → id < s.next →
    id ∈ cOf s c ∨ id ∈ qOf s c
def CWF (s : St) : Prop := ∀ n t, sget s.tags n = some t → ∀ c ∈ t.convs, c ∈ s.convs
def Cov (s : St) : Prop := ∀ id, id < s.next → ∃ f ∈ s.idx, id ∈ (nget s.files f).getD []

def Good0 (s : St) : Prop := Acc s ∧ CWF s ∧ Cov s

theorem CWF_of_le {s s' : St} (ht : TagsLe s'.tags s.tags) (hc : s'.convs = s.convs) (h : CWF s) :
    CWF s' := by
  intro n t' ht' c hc'
  rcases ht n t' ht' with h0 | ⟨n0, t, htt, hcs, _⟩
  · simp [h0] at hc'
  · rw [hc]; exact h n0 t htt c (hcs c hc')

theorem Acc_of_le {s s' : St} (ht : TagsLe s'.tags s.tags) (hn : s'.next = s.next)
    (hcov : ∀ c id, id ∈ cOf s c ∨ id ∈ qOf s c → id ∈ cOf s' c ∨ id ∈ qOf s' c) (h : Acc s) :
    Acc s' := by
  intro n t' ht' c hc' id hid hlt
  rcases ht n t' ht' with h0 | ⟨n0, t, htt, hcs, hm⟩
  · simp [h0] at hc'
  · exact hcov c id (h n0 t htt c (hcs c hc') id (hm id hid) (hn ▸ hlt))

theorem Good0_of_grow {s s' : St} (g : Grow s s') (h : Good0 s) : Good0 s' := by
  refine ⟨Acc_of_le g.tags g.next g.cov h.1, CWF_of_le g.tags g.convs h.2.1, ?_⟩
  intro id hid
  rw [g.idx, g.files]; exact h.2.2 id (g.next ▸ hid)

theorem Good0_of_same {s s' : St} (g : Same s s') (h : Good0 s) : Good0 s' := Good0_of_grow g.grow h

theorem Acc_of_sameK {s s' : St} (g : SameK s s') (h : Acc s) : Acc s' :=
  Acc_of_le g.tags g.next (fun c id hh => by
    simpa only [cOf, qOf, g.cached, g.toconv] using hh) h
theorem CWF_of_sameK {s s' : St} (g : SameK s s') (h : CWF s) : CWF s' :=
  CWF_of_le g.tags g.convs h

theorem Same_used (s : St) (u : List (Nat × Nat)) : Same s { s with used := u } :=
  ⟨⟨rfl, rfl, rfl, rfl, rfl, TagsLe.refl _⟩, rfl, rfl⟩

theorem Same_getIndexesCopy (s : St) (i : Nat) : Same s (getIndexesCopy s i).1 := Same_used _ _

theorem Same_startImport (s : St) : Same s (startImport s) :=
  ⟨⟨rfl, rfl, rfl, rfl, rfl, TagsLe.refl _⟩, rfl, rfl⟩

theorem Same_startMerge (s : St) : Same s (startMerge s) := by
  unfold startMerge
  split
  · exact Same.refl _
  · split
    · exact Same.refl _
    · split
      · exact Same.refl _
      · exact ⟨⟨rfl, rfl, rfl, rfl, rfl, TagsLe.refl _⟩, rfl, rfl⟩

theorem Same_startTagging (s : St) (ch : Option String) : Same s (startTagging s ch) := by
  unfold startTagging
  repeat (first | exact Same.refl _ | exact ⟨⟨rfl, rfl, rfl, rfl, rfl, TagsLe.refl _⟩, rfl, rfl⟩ | split)

theorem Same_invDuring (s : St) (ids : IdSet) : Same s (invalidatedDuringTaggingJob s ids) := by
  unfold invalidatedDuringTaggingJob
  split
  · exact ⟨⟨rfl, rfl, rfl, rfl, rfl, TagsLe.refl _⟩, rfl, rfl⟩
  · exact Same.refl _

theorem Same_tags (s : St) (tags : List (String × Tag)) (h : TagsLe tags s.tags) :
    Same s { s with tags := tags } :=
  ⟨⟨rfl, rfl, rfl, rfl, rfl, h⟩, rfl, rfl⟩

theorem Same_setTag (s : St) (n : String) (t t' : Tag) (ht : sget s.tags n = some t)
    (hc : ∀ c ∈ t'.convs, c ∈ t.convs) (hm : ∀ id ∈ t'.mat, id ∈ t.mat) : Same s (setTag s n t') :=
  Same_tags s _ (TagsLe_sins _ _ _ _ ht hc hm)

theorem Same_setTag_new (s : St) (n : String) (t' : Tag) (hc : t'.convs = []) : Same s (setTag s n t') :=
  Same_tags s _ (TagsLe_sins_new _ _ _ hc)

theorem Same_addRefBy (s : St) (a b : String) : Same s (addRefBy s a b) := by
  unfold addRefBy
  split
  · next t ht => exact Same_setTag s a t _ ht (fun _ h => h) (fun _ h => h)
  · exact Same.refl _

theorem Same_delRefBy (s : St) (a b : String) : Same s (delRefBy s a b) := by
  unfold delRefBy
  split
  · next t ht => exact Same_setTag s a t _ ht (fun _ h => h) (fun _ h => h)
  · exact Same.refl _

theorem inheritOne_convs (all : Nat) (tags : List (String × Tag)) (t : Tag) :
    (inheritOne all tags t).convs = t.convs ∧ (inheritOne all tags t).mat = t.mat := by
  unfold inheritOne
  split
  · exact ⟨rfl, rfl⟩
  · split <;> exact ⟨rfl, rfl⟩

theorem inheritPass_le (all : Nat) (l tags : List (String × Tag)) (res : List String) :
    TagsLe (l.foldl (fun (acc : List (String × Tag) × List String) (nt : String × Tag) =>
      let (tags, resolved) := acc
      let n := nt.1
      if resolved.contains n then acc
      else match sget tags n with
        | none => acc
        | some t =>
          if t.refs.all (fun r => resolved.contains r) then
            (sins n (inheritOne all tags t) tags, n :: resolved)
          else acc) (tags, res)).1 tags := by
  induction l generalizing tags res with
  | nil => exact TagsLe.refl _
  | cons a r ih =>
    simp only [List.foldl_cons]
    split
    · exact ih _ _
    · split
      · exact ih _ _
      · next t ht =>
        split
        · refine TagsLe.trans ?_ (ih _ _)
          have := inheritOne_convs all tags t
          exact TagsLe_sins _ _ t _ ht (by rw [this.1]; exact fun _ h => h) (by rw [this.2]; exact fun _ h => h)
        · exact ih _ _

theorem inheritLoop_le (all fuel : Nat) (tags : List (String × Tag)) (res : List String) :
    TagsLe (inheritLoop all fuel tags res).1 tags := by
  induction fuel generalizing tags res with
  | zero => exact TagsLe.refl _
  | succ k ih =>
    unfold inheritLoop
    split
    · exact TagsLe.refl _
    · simp only []
      refine TagsLe.trans ?_ (ih _ _)
      exact inheritPass_le all tags tags res

theorem Same_inherit (s : St) : Same s (inherit s) := by
  unfold inherit
  exact ⟨⟨rfl, rfl, rfl, rfl, rfl, inheritLoop_le _ _ _ _⟩, rfl, rfl⟩

theorem Same_invalidateTags (s : St) (u r a : IdSet) : Same s (invalidateTags s u r a) := by
  unfold invalidateTags
  refine Same.trans (Same_tags s _ ?_) (Same_inherit _)
  apply TagsLe_map
  intro x
  obtain ⟨n, t⟩ := x
  simp only []
  split
  · exact ⟨rfl, rfl, rfl⟩
  · split
    · split <;> exact ⟨rfl, rfl, rfl⟩
    · exact ⟨rfl, rfl, rfl⟩

-- CHANGED (dropped): frame of `outputDropped` for the converter bookkeeping: queues, caches, converter list,
-- converter flag, `next` and the served files are untouched; tags keep their converters and matches
theorem Same_outputDropped (s : St) (choice : Option String) : Same s (outputDropped s choice) := by
  unfold outputDropped
  split
  · simp only []
    refine Same.trans (Same.trans (Same.trans (Same_tags s _ ?_) (Same_inherit _)) (Same_invDuring _ _))
      (Same_startTagging _ _)
    apply TagsLe_map
    rintro ⟨n, t⟩
    simp only []
    split <;> exact ⟨rfl, rfl, rfl⟩
  · exact Same.refl _

-- CHANGED (dropped)
theorem outputDropped_q (s : St) (choice : Option String) (c : String) :
    qOf (outputDropped s choice) c = qOf s c := by
  simp only [qOf, (Same_outputDropped s choice).1.toconv]
-- CHANGED (dropped)
theorem outputDropped_c (s : St) (choice : Option String) (c : String) :
    cOf (outputDropped s choice) c = cOf s c := by
  simp only [cOf, (Same_outputDropped s choice).1.cached]
/-- one step of `release` -/
def rel1 (s : St) (f : Nat) : St :=
  match nget s.used f with
  | none => s
  | some n => if n ≤ 1 then { s with used := ndel s.used f, files := ndel s.files f }
              else { s with used := nins f (n - 1) s.used }

theorem release_eq (s : St) (fs : List Nat) : release s fs = fs.foldl rel1 s := rfl

theorem rel1_sameK (s : St) (f : Nat) : SameK s (rel1 s f) ∧ (rel1 s f).idx = s.idx := by
  unfold rel1
  split
  · exact ⟨SameK.refl _, rfl⟩
  · split <;> exact ⟨⟨rfl, rfl, rfl, rfl, rfl, TagsLe.refl _⟩, rfl⟩

theorem release_sameK (s : St) (fs : List Nat) : SameK s (release s fs) ∧ (release s fs).idx = s.idx := by
  rw [release_eq]
  induction fs generalizing s with
  | nil => exact ⟨SameK.refl _, rfl⟩
  | cons f r ih =>
    simp only [List.foldl_cons]
    have h1 := rel1_sameK s f
    have h2 := ih (rel1 s f)
    exact ⟨h1.1.trans h2.1, h2.2.trans h1.2⟩

/-- a file with more locks than are released stays open with its content -/
theorem release_files_keep (s : St) (fs : List Nat) (f : Nat)
    (h : fs.count f < (nget s.used f).getD 0) :
    nget (release s fs).files f = nget s.files f := by
  rw [release_eq]
  induction fs generalizing s with
  | nil => rfl
  | cons g r ih =>
    simp only [List.foldl_cons]
    have key : r.count f < (nget (rel1 s g).used f).getD 0 ∧ nget (rel1 s g).files f = nget s.files f := by
      unfold rel1
      by_cases hg : g = f
      · subst hg
        simp only [List.count_cons_self] at h
        cases hu : nget s.used g with
        | none => simp [hu] at h
        | some n =>
          simp only [hu, Option.getD_some] at h
          have : ¬ n ≤ 1 := by omega
          simp only [this, if_false, nget_nins, if_true, Option.getD_some]
          exact ⟨by omega, trivial⟩
      · have hc : (g :: r).count f = r.count f := by simp [hg]
        rw [hc] at h
        split
        · exact ⟨h, rfl⟩
        · split
          · simp only [nget_ndel, hg, if_false]; exact ⟨h, trivial⟩
          · simp only [nget_nins, hg, if_false]; exact ⟨h, trivial⟩
    rw [ih _ key.1, key.2]

/-- `release` never opens a file -/
theorem release_files_none (s : St) (fs : List Nat) (f : Nat) (h : nget s.files f = none) :
    nget (release s fs).files f = none := by
  rw [release_eq]
  induction fs generalizing s with
  | nil => exact h
  | cons g r ih =>
    simp only [List.foldl_cons]
    apply ih
    unfold rel1
    split
    · exact h
    · split
      · simp only [nget_ndel]; split <;> simp [h]
      · exact h
/-- one step of `invalidateConverters` -/
def ic1 (u : IdSet) (s : St) (c : String) : St :=
  let cache := (sget s.cached c).getD []
  let inv := inter u cache
  { s with cached := sins c (diff cache inv) s.cached,
           toconv := sins c (union ((sget s.toconv c).getD []) inv) s.toconv }

theorem invalidateConverters_eq (s : St) (u : IdSet) :
    invalidateConverters s u = s.convs.foldl (ic1 u) s := rfl

theorem cOf_ic1 (u : IdSet) (s : St) (c c' : String) (id : Nat) :
    id ∈ cOf (ic1 u s c) c' ↔ id ∈ cOf s c' ∧ (c' = c → id ∉ u) := by
  simp only [cOf, ic1, sget_sins]
  by_cases h : c = c'
  · subst h; simp [mem_diff, mem_inter]; grind
  · have h' : ¬ c' = c := fun e => h e.symm
    simp [h, h']

theorem qOf_ic1 (u : IdSet) (s : St) (c c' : String) (id : Nat) :
    id ∈ qOf (ic1 u s c) c' ↔ id ∈ qOf s c' ∨ (c' = c ∧ id ∈ u ∧ id ∈ cOf s c) := by
  simp only [qOf, cOf, ic1, sget_sins]
  by_cases h : c = c'
  · subst h; simp [mem_union, mem_inter]
  · have h' : ¬ c' = c := fun e => h e.symm
    simp [h, h']

theorem ic1_grow (u : IdSet) (s : St) (c : String) : Grow s (ic1 u s c) := by
  refine ⟨rfl, rfl, rfl, rfl, TagsLe.refl _, ?_⟩
  intro c' id h
  rw [cOf_ic1, qOf_ic1]
  by_cases hc : c' = c
  · subst hc; by_cases hu : id ∈ u <;> simp_all <;> grind
  · simp_all

theorem ic_fold (u : IdSet) (l : List String) (s : St) :
    Grow s (l.foldl (ic1 u) s) ∧ (l.foldl (ic1 u) s).convert = s.convert ∧
    ∀ c id, id ∈ cOf (l.foldl (ic1 u) s) c → id ∈ cOf s c ∧ (c ∈ l → id ∉ u) := by
  induction l generalizing s with
  | nil => exact ⟨Grow.refl _, rfl, fun c id h => ⟨h, by simp⟩⟩
  | cons a r ih =>
    simp only [List.foldl_cons]
    obtain ⟨g, hc, hs⟩ := ih (ic1 u s a)
    refine ⟨(ic1_grow u s a).trans g, hc, ?_⟩
    intro c id h
    obtain ⟨h1, h2⟩ := hs c id h
    rw [cOf_ic1] at h1
    refine ⟨h1.1, ?_⟩
    intro hmem
    rcases List.mem_cons.1 hmem with e | e
    · exact h1.2 e
    · exact h2 e

theorem invalidateConverters_grow (s : St) (u : IdSet) : Grow s (invalidateConverters s u) :=
  (ic_fold u s.convs s).1
theorem invalidateConverters_convert (s : St) (u : IdSet) :
    (invalidateConverters s u).convert = s.convert := (ic_fold u s.convs s).2.1
theorem invalidateConverters_cached (s : St) (u : IdSet) (c : String) (id : Nat)
    (h : id ∈ cOf (invalidateConverters s u) c) : id ∈ cOf s c ∧ (c ∈ s.convs → id ∉ u) :=
  (ic_fold u s.convs s).2.2 c id h
def activeOf (s : St) : List (String × IdSet) :=
  s.convs.filterMap fun c =>
    let req := (sget s.toconv c).getD []
    if req.isEmpty then none else some (c, req)
def clr1 (s : St) (x : String × IdSet) : St := { s with toconv := sins x.1 [] s.toconv }
def add1 (found : IdSet) (s : St) (x : String × IdSet) : St :=
  { s with cached := sins x.1 (union ((sget s.cached x.1).getD []) (inter x.2 found)) s.cached }
def foundOf (files : List (Nat × List Nat)) (fs : List Nat) : IdSet :=
  fs.foldl (fun acc f => union acc ((nget files f).getD [])) []

def sc2 (s : St) : St := 
  let act := activeOf s
  let s1 := act.foldl clr1 s
  let s2 := { s1 with used := lock s1.used (s1.idx.drop 0) }
  let found := foundOf s2.files (s1.idx.drop 0)
  let remaining := act.map fun x => (x.1, inter (diff x.2 ((sget s2.cached x.1).getD [])) found)
  let s3 := act.foldl (add1 found) s2
  { s3 with convert := true, jConv := some (remaining, s1.idx.drop 0) }

theorem startConverter_eq (s : St) :
    startConverter s = if s.convert then s else if (activeOf s).isEmpty then s else sc2 s := rfl

theorem mem_foundOf (files : List (Nat × List Nat)) (fs : List Nat) (id : Nat) :
    id ∈ foundOf files fs ↔ ∃ f ∈ fs, id ∈ (nget files f).getD [] := by
  unfold foundOf
  suffices h : ∀ acc : IdSet, id ∈ fs.foldl (fun acc f => union acc ((nget files f).getD [])) acc ↔
      id ∈ acc ∨ ∃ f ∈ fs, id ∈ (nget files f).getD [] by simpa using h []
  induction fs with
  | nil => simp
  | cons g r ih => intro acc; simp only [List.foldl_cons, ih, mem_union, List.mem_cons]; grind

theorem mem_activeOf (s : St) (c : String) (req : IdSet) :
    (c, req) ∈ activeOf s ↔ c ∈ s.convs ∧ req = qOf s c ∧ req ≠ [] := by
  simp only [activeOf, List.mem_filterMap, qOf]
  constructor
  · rintro ⟨a, ha, h⟩
    split at h
    · cases h
    · next hne => cases h; exact ⟨ha, rfl, by simpa using hne⟩
  · rintro ⟨h1, h2, h3⟩
    subst h2
    refine ⟨c, h1, ?_⟩
    rw [if_neg (by simpa using h3)]

/-- fields not touched by clearing queues -/
def NQ (s : St) := (s.tags, s.convs, s.next, s.idx, s.files, s.cached, s.convert, s.jTag)
/-- fields not touched by filling caches -/
def NC (s : St) := (s.tags, s.convs, s.next, s.idx, s.files, s.toconv, s.jTag)

theorem clr_fold (l : List (String × IdSet)) (s : St) : NQ (l.foldl clr1 s) = NQ s := by
  induction l generalizing s with
  | nil => rfl
  | cons a r ih => simp only [List.foldl_cons]; rw [ih]; rfl

theorem clr_fold_q (l : List (String × IdSet)) (s : St) (c : String) :
    qOf (l.foldl clr1 s) c = if c ∈ l.map (·.1) then [] else qOf s c := by
  induction l generalizing s with
  | nil => simp
  | cons a r ih =>
    simp only [List.foldl_cons, ih, List.map_cons, List.mem_cons]
    by_cases h1 : c ∈ r.map (·.1)
    · simp [h1]
    · simp only [h1, if_false, or_false, qOf, clr1, sget_sins]
      by_cases h2 : a.1 = c
      · simp [h2]
      · have : ¬ c = a.1 := fun e => h2 e.symm
        simp [h2, this]

theorem add_fold (found : IdSet) (l : List (String × IdSet)) (s : St) :
    NC (l.foldl (add1 found) s) = NC s := by
  induction l generalizing s with
  | nil => rfl
  | cons a r ih => simp only [List.foldl_cons]; rw [ih]; rfl

theorem add_fold_c (found : IdSet) (l : List (String × IdSet)) (s : St) (c : String) (id : Nat) :
    id ∈ cOf (l.foldl (add1 found) s) c ↔
      id ∈ cOf s c ∨ ∃ x ∈ l, x.1 = c ∧ id ∈ x.2 ∧ id ∈ found := by
  induction l generalizing s with
  | nil => simp
  | cons a r ih =>
    simp only [List.foldl_cons, ih, List.mem_cons]
    have : id ∈ cOf (add1 found s a) c ↔ id ∈ cOf s c ∨ (a.1 = c ∧ id ∈ a.2 ∧ id ∈ found) := by
      simp only [cOf, add1, sget_sins]
      by_cases h2 : a.1 = c
      · simp [h2, mem_union, mem_inter]
      · simp [h2]
    rw [this]
    grind

theorem sc2_frame (s : St) :
    (sc2 s).tags = s.tags ∧ (sc2 s).convs = s.convs ∧ (sc2 s).next = s.next ∧
    (sc2 s).idx = s.idx ∧ (sc2 s).files = s.files := by
  have h1 := clr_fold (activeOf s) s
  have h2 := add_fold (foundOf ((activeOf s).foldl clr1 s).files (((activeOf s).foldl clr1 s).idx.drop 0))
    (activeOf s) { ((activeOf s).foldl clr1 s) with
      used := lock ((activeOf s).foldl clr1 s).used (((activeOf s).foldl clr1 s).idx.drop 0) }
  simp only [NQ, NC, Prod.mk.injEq] at h1 h2
  simp only [sc2]
  refine ⟨h2.1.trans h1.1, h2.2.1.trans h1.2.1, h2.2.2.1.trans h1.2.2.1,
    h2.2.2.2.1.trans h1.2.2.2.1, h2.2.2.2.2.1.trans h1.2.2.2.2.1⟩

theorem sc2_cached (s : St) (c : String) (id : Nat) :
    id ∈ cOf (sc2 s) c ↔
      id ∈ cOf s c ∨ (c ∈ s.convs ∧ id ∈ qOf s c ∧ id ∈ foundOf s.files s.idx) := by
  have h1 := clr_fold (activeOf s) s
  simp only [NQ, Prod.mk.injEq] at h1
  have : cOf (sc2 s) c = cOf ((activeOf s).foldl (add1 (foundOf s.files s.idx))
      { ((activeOf s).foldl clr1 s) with
        used := lock ((activeOf s).foldl clr1 s).used (((activeOf s).foldl clr1 s).idx.drop 0) }) c := by
    simp only [sc2, cOf, List.drop_zero, h1.2.2.2.1, h1.2.2.2.2.1]
  rw [this, add_fold_c]
  have hc : cOf { ((activeOf s).foldl clr1 s) with
        used := lock ((activeOf s).foldl clr1 s).used (((activeOf s).foldl clr1 s).idx.drop 0) } c = cOf s c := by
    simp only [cOf, h1.2.2.2.2.2.1]
  rw [hc]
  constructor
  · rintro (h | ⟨⟨c', req⟩, hx, rfl, h2, h3⟩)
    · exact Or.inl h
    · rw [mem_activeOf] at hx
      obtain ⟨hx1, hx2, _⟩ := hx
      exact Or.inr ⟨hx1, hx2 ▸ h2, h3⟩
  · rintro (h | ⟨h1, h2, h3⟩)
    · exact Or.inl h
    · refine Or.inr ⟨(c, qOf s c), ?_, rfl, h2, h3⟩
      rw [mem_activeOf]
      exact ⟨h1, rfl, fun e => by simp [e] at h2⟩

theorem startConverter_frame (s : St) :
    (startConverter s).tags = s.tags ∧ (startConverter s).convs = s.convs ∧
    (startConverter s).next = s.next ∧ (startConverter s).idx = s.idx ∧
    (startConverter s).files = s.files := by
  rw [startConverter_eq]
  split
  · simp
  · split
    · simp
    · exact sc2_frame s

theorem startConverter_cached_mono (s : St) (c : String) (id : Nat) (h : id ∈ cOf s c) :
    id ∈ cOf (startConverter s) c := by
  rw [startConverter_eq]
  split
  · exact h
  · split
    · exact h
    · rw [sc2_cached]; exact Or.inl h

/-- the converter job either does not start (nothing changes) or it starts now -/
theorem startConverter_cases (s : St) :
    startConverter s = s ∨ (s.convert = false ∧ (startConverter s).convert = true) := by
  rw [startConverter_eq]
  split
  · exact Or.inl rfl
  · split
    · exact Or.inl rfl
    · next h _ => exact Or.inr ⟨by simpa using h, rfl⟩

theorem Good0_startConverter (s : St) (h : Good0 s) : Good0 (startConverter s) := by
  obtain ⟨hacc, hcwf, hcov⟩ := h
  have hf := startConverter_frame s
  rw [startConverter_eq] at hf ⊢
  split
  · exact ⟨hacc, hcwf, hcov⟩
  · split
    · exact ⟨hacc, hcwf, hcov⟩
    · next hnc hact =>
      rw [if_neg hnc, if_neg hact] at hf
      obtain ⟨f1, f2, f3, f4, f5⟩ := hf
      refine ⟨?_, ?_, ?_⟩
      · intro n t ht c hc id hid hlt
        rw [f1] at ht; rw [f3] at hlt
        left
        rw [sc2_cached]
        rcases hacc n t ht c hc id hid hlt with h | h
        · exact Or.inl h
        · refine Or.inr ⟨hcwf n t ht c hc, h, ?_⟩
          rw [mem_foundOf]; exact hcov id hlt
      · intro n t ht c hc
        rw [f1] at ht; rw [f2]; exact hcwf n t ht c hc
      · intro id hid
        rw [f4, f5]; exact hcov id (f3 ▸ hid)
/-! ## attach / detach -/

def othersOf (tags : List (String × Tag)) (n c : String) : IdSet :=
  tags.foldl (fun acc (x : String × Tag) =>
      if x.1 != n && x.2.convs.contains c then union acc x.2.mat else acc) ([] : IdSet)

def dc2 (s : St) (n c : String) (t : Tag) : St :=
  let t' := { t with convs := t.convs.filter (· != c) }
  let s1 := setTag s n t'
  let others := othersOf s1.tags n c
  -- CHANGED (detach): only what the other tags with `c` still match stays queued
  let s2 := { s1 with toconv := sins c (inter ((sget s1.toconv c).getD []) others) s1.toconv }
  if others.isEmpty then { s2 with cached := sins c [] s2.cached } else s2

/-- CHANGED (dropped): `dc2` is the state after the converter was taken off the tag (queue trimmed, cache cleared
    when no other tag has `c`); `dc3` adds the dropped-output step of the model -/
def dc3 (s : St) (n c : String) (t : Tag) (choice : Option String) : St :=
  let t' := { t with convs := t.convs.filter (· != c) }
  let s1 := setTag s n t'
  let others := othersOf s1.tags n c
  let s2 := { s1 with toconv := sins c (inter ((sget s1.toconv c).getD []) others) s1.toconv }
  if others.isEmpty then outputDropped { s2 with cached := sins c [] s2.cached } choice else s2

-- CHANGED (dropped): `detachConv` takes the tagging choice; `dc3` instead of `dc2`
theorem detachConv_eq (s : St) (n c : String) (choice : Option String) :
    detachConv s n c choice = match sget s.tags n with | none => s | some t => dc3 s n c t choice := rfl

-- CHANGED (dropped)
theorem dc3_eq (s : St) (n c : String) (t : Tag) (choice : Option String) :
    dc3 s n c t choice =
      if (othersOf (sins n { t with convs := t.convs.filter (· != c) } s.tags) n c).isEmpty
      then outputDropped (dc2 s n c t) choice else dc2 s n c t := by
  unfold dc3 dc2
  simp only [setTag]
  split <;> rename_i h <;> simp only [h] <;> rfl

-- CHANGED (dropped)
theorem dc3_cases (s : St) (n c : String) (t : Tag) (choice : Option String) :
    dc3 s n c t choice = dc2 s n c t ∨ dc3 s n c t choice = outputDropped (dc2 s n c t) choice := by
  rw [dc3_eq]; split
  · exact Or.inr rfl
  · exact Or.inl rfl

-- CHANGED (dropped)
theorem Same_dc3 (s : St) (n c : String) (t : Tag) (choice : Option String) :
    Same (dc2 s n c t) (dc3 s n c t choice) := by
  rcases dc3_cases s n c t choice with e | e <;> rw [e]
  · exact Same.refl _
  · exact Same_outputDropped _ _

theorem mem_othersOf (tags : List (String × Tag)) (n c : String) (id : Nat) :
    id ∈ othersOf tags n c ↔ ∃ x ∈ tags, x.1 ≠ n ∧ c ∈ x.2.convs ∧ id ∈ x.2.mat := by
  unfold othersOf
  suffices h : ∀ acc : IdSet, id ∈ tags.foldl (fun acc (x : String × Tag) =>
      if x.1 != n && x.2.convs.contains c then union acc x.2.mat else acc) acc ↔
      id ∈ acc ∨ ∃ x ∈ tags, x.1 ≠ n ∧ c ∈ x.2.convs ∧ id ∈ x.2.mat by simpa using h []
  induction tags with
  | nil => simp
  | cons a r ih =>
    intro acc
    simp only [List.foldl_cons, ih, List.mem_cons]
    by_cases h : a.1 != n && a.2.convs.contains c
    · rw [if_pos h, mem_union]
      have h' : a.1 ≠ n ∧ c ∈ a.2.convs := by simpa using h
      grind
    · rw [if_neg h]
      have h' : ¬ (a.1 ≠ n ∧ c ∈ a.2.convs) := by simpa using h
      grind

theorem dc2_frame (s : St) (n c : String) (t : Tag) :
    (dc2 s n c t).tags = sins n { t with convs := t.convs.filter (· != c) } s.tags ∧
    (dc2 s n c t).convs = s.convs ∧ (dc2 s n c t).next = s.next ∧
    (dc2 s n c t).idx = s.idx ∧ (dc2 s n c t).files = s.files := by
  unfold dc2
  simp only []
  split <;> exact ⟨rfl, rfl, rfl, rfl, rfl⟩

-- CHANGED (detach): `inter … others` instead of `diff … (diff t.mat others)`
theorem dc2_q (s : St) (n c : String) (t : Tag) (c' : String) :
    qOf (dc2 s n c t) c' = if c = c' then
      inter (qOf s c) (othersOf (sins n { t with convs := t.convs.filter (· != c) } s.tags) n c)
      else qOf s c' := by
  unfold dc2
  simp only []
  split <;> simp only [qOf, setTag, sget_sins] <;> split <;> rfl

theorem dc2_c (s : St) (n c : String) (t : Tag) (c' : String) :
    cOf (dc2 s n c t) c' = if c = c' ∧
        othersOf (sins n { t with convs := t.convs.filter (· != c) } s.tags) n c = [] then []
      else cOf s c' := by
  unfold dc2
  simp only []
  split
  · next h =>
    have h' := List.isEmpty_iff.1 h
    simp only [setTag] at h'
    simp only [cOf, setTag, sget_sins, h', and_true]; split <;> rfl
  · next h =>
    have h' : ¬ _ = [] := fun e => h (List.isEmpty_iff.2 e)
    simp only [setTag] at h'
    simp only [cOf, setTag, h', and_false, if_false]

-- CHANGED (dropped): the dropped-output step leaves queues and caches alone
theorem dc3_q (s : St) (n c : String) (t : Tag) (choice : Option String) (c' : String) :
    qOf (dc3 s n c t choice) c' = if c = c' then
      inter (qOf s c) (othersOf (sins n { t with convs := t.convs.filter (· != c) } s.tags) n c)
      else qOf s c' := by
  rw [← dc2_q]
  simp only [qOf, (Same_dc3 s n c t choice).1.toconv]

-- CHANGED (dropped)
theorem dc3_c (s : St) (n c : String) (t : Tag) (choice : Option String) (c' : String) :
    cOf (dc3 s n c t choice) c' = if c = c' ∧
        othersOf (sins n { t with convs := t.convs.filter (· != c) } s.tags) n c = [] then []
      else cOf s c' := by
  rw [← dc2_c]
  simp only [cOf, (Same_dc3 s n c t choice).1.cached]

-- CHANGED (dropped): the tag table after the dropped-output step is no longer `sins n … s.tags` (pending sets
-- may have grown); what stays: converter list, `next`, served files, and every tag stems from a tag of
-- `sins n … s.tags` with the same converters and matches or fewer
theorem dc3_frame (s : St) (n c : String) (t : Tag) (choice : Option String) :
    TagsLe (dc3 s n c t choice).tags (sins n { t with convs := t.convs.filter (· != c) } s.tags) ∧
    (dc3 s n c t choice).convs = s.convs ∧ (dc3 s n c t choice).next = s.next ∧
    (dc3 s n c t choice).idx = s.idx ∧ (dc3 s n c t choice).files = s.files := by
  obtain ⟨f1, f2, f3, f4, f5⟩ := dc2_frame s n c t
  have g := Same_dc3 s n c t choice
  exact ⟨f1 ▸ g.1.tags, g.1.convs.trans f2, g.1.next.trans f3, g.2.1.trans f4, g.2.2.trans f5⟩

theorem Good0_dc2 (s : St) (n c : String) (t : Tag) (ht : sget s.tags n = some t) (h : Good0 s) :
    Good0 (dc2 s n c t) := by
  · obtain ⟨hacc, hcwf, hcov⟩ := h
    obtain ⟨f1, f2, f3, f4, f5⟩ := dc2_frame s n c t
    have hle : TagsLe (dc2 s n c t).tags s.tags := by
      rw [f1]
      exact TagsLe_sins _ _ t _ ht (fun c' h => (List.mem_filter.1 h).1) (fun _ h => h)
    refine ⟨?_, CWF_of_le hle f2 hcwf, ?_⟩
    · intro m u hu c' hc' id hid hlt
      rw [f3] at hlt
      rw [dc2_q, dc2_c]
      by_cases hcc : c = c'
      · subst hcc
        -- the tag is another one
        have hmn : m ≠ n := by
          intro e; subst e
          rw [f1, sget_sins, if_pos rfl] at hu
          cases hu
          simp at hc'
        have hu' : sget s.tags m = some u := by
          rw [f1, sget_sins, if_neg (fun e => hmn e.symm)] at hu; exact hu
        have hoth : id ∈ othersOf (sins n { t with convs := t.convs.filter (· != c) } s.tags) n c := by
          rw [mem_othersOf]
          refine ⟨(m, u), ?_, hmn, hc', hid⟩
          apply sget_mem
          rw [sget_sins, if_neg (fun e => hmn e.symm)]; exact hu'
        have hne : ¬ othersOf (sins n { t with convs := t.convs.filter (· != c) } s.tags) n c = [] :=
          fun e => by simp [e] at hoth
        simp only [hne, and_false, if_false, if_true, mem_inter]
        rcases hacc m u hu' c hc' id hid hlt with h | h
        · exact Or.inl h
        · exact Or.inr ⟨h, hoth⟩
      · simp only [hcc, false_and, if_false]
        rcases hle m u hu with h0 | ⟨n0, t0, ht0, hcs, hm⟩
        · simp [h0] at hc'
        · exact hacc n0 t0 ht0 c' (hcs c' hc') id (hm id hid) hlt
    · intro id hid
      rw [f4, f5]; exact hcov id (f3 ▸ hid)

-- CHANGED (dropped): `detachConv` takes the tagging choice
theorem Good0_detachConv (s : St) (n c : String) (choice : Option String) (h : Good0 s) :
    Good0 (detachConv s n c choice) := by
  rw [detachConv_eq]
  split
  · exact h
  · next t ht => exact Good0_of_same (Same_dc3 s n c t choice) (Good0_dc2 s n c t ht h)

-- CHANGED (dropped): `detachConv` takes the tagging choice
theorem detachConv_convs (s : St) (n c : String) (choice : Option String) :
    (detachConv s n c choice).convs = s.convs := by
  rw [detachConv_eq]; split
  · rfl
  · exact (dc3_frame _ _ _ _ _).2.1
theorem attachConv_convs (s : St) (n c : String) : (attachConv s n c).1.convs = s.convs := by
  unfold attachConv
  split
  · rfl
  · split
    · rfl
    · split <;> rfl

theorem Good0_attachConv (s : St) (n c : String) (hc : c ∈ s.convs) (h : Good0 s) :
    Good0 (attachConv s n c).1 := by
  unfold attachConv
  split
  · exact h
  · next t ht =>
    split
    · exact h
    · split
      · exact h
      · obtain ⟨hacc, hcwf, hcov⟩ := h
        simp only [setTag]
        refine ⟨?_, ?_, hcov⟩
        · intro m u hu c' hc' id hid hlt
          simp only [sget_sins] at hu
          simp only [cOf, qOf, sget_sins]
          change id < s.next at hlt
          split at hu
          · next e =>
            subst e; cases hu
            simp only [List.mem_append, List.mem_singleton] at hc'
            by_cases hcc : c = c'
            · subst hcc; simp only [if_true, Option.getD_some, mem_union]; exact Or.inr (Or.inr hid)
            · rcases hc' with h1 | h1
              · simp only [hcc, if_false]; exact hacc n t ht c' h1 id hid hlt
              · exact absurd h1.symm hcc
          · have := hacc m u hu c' hc' id hid hlt
            by_cases hcc : c = c'
            · subst hcc; simp only [if_true, Option.getD_some, mem_union]
              rcases this with h1 | h1
              · exact Or.inl h1
              · exact Or.inr (Or.inl h1)
            · simp only [hcc, if_false]; exact this
        · intro m u hu c' hc'
          simp only [sget_sins] at hu
          change c' ∈ s.convs
          split at hu
          · cases hu
            simp only [List.mem_append, List.mem_singleton] at hc'
            rcases hc' with h1 | h1
            · exact hcwf n t ht c' h1
            · exact h1 ▸ hc
          · exact hcwf m u hu c' hc'

/-! ## sorted keys: entries are lookups -/

theorem mem_sget_of_sorted {α} (l : List (String × α)) (hw : (l.map (·.1)).Pairwise (· < ·))
    (k : String) (v : α) (h : (k, v) ∈ l) : sget l k = some v := by
  induction l with
  | nil => simp at h
  | cons a r ih =>
    simp only [List.map_cons, List.pairwise_cons] at hw
    rw [sget_cons]
    rcases List.mem_cons.1 h with e | e
    · subst e; simp
    · have : a.1 < k := hw.1 k (List.mem_map.2 ⟨(k, v), e, rfl⟩)
      have hne : ¬ a.1 = k := fun e => by subst e; exact absurd this (String.lt_irrefl _)
      rw [if_neg hne]; exact ih hw.2 e

theorem sins_sorted {α} (l : List (String × α)) (hw : (l.map (·.1)).Pairwise (· < ·)) (k : String) (v : α) :
    ((sins k v l).map (·.1)).Pairwise (· < ·) ∧ ∀ x ∈ sins k v l, x = (k, v) ∨ x ∈ l := by
  induction l with
  | nil => simp [sins]
  | cons a r ih =>
    obtain ⟨ka, va⟩ := a
    simp only [List.map_cons, List.pairwise_cons] at hw
    simp only [sins]
    split
    · next hlt =>
      refine ⟨?_, by simp⟩
      simp only [List.map_cons, List.pairwise_cons, List.mem_cons, forall_eq_or_imp]
      exact ⟨⟨hlt, fun b hb => String.lt_trans hlt (hw.1 b hb)⟩, hw.1, hw.2⟩
    · split
      · next _ he =>
        subst he
        refine ⟨?_, by simp; grind⟩
        simp only [List.map_cons, List.pairwise_cons]
        exact hw
      · next h1 h2 =>
        obtain ⟨i1, i2⟩ := ih hw.2
        refine ⟨?_, ?_⟩
        · simp only [List.map_cons, List.pairwise_cons]
          refine ⟨?_, i1⟩
          intro b hb
          obtain ⟨x, hx, rfl⟩ := List.mem_map.1 hb
          rcases i2 x hx with e | e
          · subst e
            rcases Std.lt_trichotomy (a := k) (b := ka) with h | h | h
            · exact absurd h h1
            · exact absurd h h2
            · exact h
          · exact hw.1 _ (List.mem_map.2 ⟨x, e, rfl⟩)
        · intro x hx
          rcases List.mem_cons.1 hx with e | e
          · exact Or.inr (by simp [e])
          · rcases i2 x e with e | e
            · exact Or.inl e
            · exact Or.inr (by simp [e])

-- CHANGED (dropped): for every tagging choice
theorem detach_stops' (s : St) (n c : String) (t : Tag) (hw : (s.tags.map (·.1)).Pairwise (· < ·))
    (ht : sget s.tags n = some t) (id : Nat) (hm : id ∈ t.mat)
    (hothers : ∀ n2 t2, sget s.tags n2 = some t2 → n2 ≠ n → c ∈ t2.convs → id ∉ t2.mat)
    (choice : Option String) :
    id ∉ qOf (detachConv s n c choice) c := by
  have _ := hm
  rw [detachConv_eq, ht]
  simp only [dc3_q, if_true, mem_inter]
  rintro ⟨_, hh⟩
  rw [mem_othersOf] at hh
  obtain ⟨⟨n2, t2⟩, hx, h1, h2, h3⟩ := hh
  rcases (sins_sorted s.tags hw n _).2 _ hx with e | e
  · cases e; exact h1 rfl
  · exact hothers n2 t2 (mem_sget_of_sorted _ hw _ _ e) h1 h2 h3
/-! ## queueing a set of streams for a list of converters -/

def qadd1 (X : IdSet) (s : St) (c : String) : St :=
  { s with toconv := sins c (union ((sget s.toconv c).getD []) X) s.toconv }

theorem qadd_fold (X : IdSet) (l : List String) (s : St) : NQ (l.foldl (qadd1 X) s) = NQ s := by
  induction l generalizing s with
  | nil => rfl
  | cons a r ih => simp only [List.foldl_cons]; rw [ih]; rfl

theorem qadd_fold_q (X : IdSet) (l : List String) (s : St) (c : String) (id : Nat) :
    id ∈ qOf (l.foldl (qadd1 X) s) c ↔ id ∈ qOf s c ∨ (c ∈ l ∧ id ∈ X) := by
  induction l generalizing s with
  | nil => simp
  | cons a r ih =>
    simp only [List.foldl_cons, ih, List.mem_cons]
    have : id ∈ qOf (qadd1 X s a) c ↔ id ∈ qOf s c ∨ (c = a ∧ id ∈ X) := by
      simp only [qOf, qadd1, sget_sins]
      by_cases h2 : a = c
      · simp [h2, mem_union]
      · have : ¬ c = a := fun e => h2 e.symm
        simp [h2, this]
    rw [this]
    grind

/-! ## mark updates -/

def muAdd (t : Tag) (s : St) (addIds : List Nat) : Tag × St :=
  if addIds.isEmpty then (t, s) else
    let fresh := addIds.foldl (fun (acc : List Nat) x => if t.mat.contains x || acc.contains x then acc else acc ++ [x]) []
    let t1 := { t with mat := union t.mat fresh, unc := union t.unc fresh }
    let s := t.convs.foldl (fun s c => { s with toconv := sins c (union ((sget s.toconv c).getD []) fresh) s.toconv }) s
    if fresh.isEmpty then (t1, s)
    else
      let mq := mkQuery fresh
      let d := if t1.defn == "id:-1" then mq
               else if isPlainIdList t1.defn then t1.defn ++ "," ++ (mq.drop 3)
               else "(" ++ t1.defn ++ ") or " ++ mq
      ({ t1 with defn := d }, s)

def muDel (t : Tag) (delIds : List Nat) : Tag :=
  if delIds.isEmpty then t else
    let gone := delIds.filter (fun x => t.mat.contains x)
    let t1 := { t with mat := diff t.mat gone, unc := union t.unc gone }
    if t1.mat.isEmpty then { t1 with defn := "id:-1" } else { t1 with defn := mkQuery t1.mat }

def muFin (s : St) (name : String) (t : Tag) (prevU : IdSet) : St :=
  let s := setTag s name t
  let s := inherit s
  let s := invalidatedDuringTaggingJob s t.unc
  match sget s.tags name with
  | some t' => setTag s name { t' with unc := prevU }
  | none => s

theorem markUpdate_eq (s : St) (name : String) (a d : List Nat) :
    markUpdate s name a d = match sget s.tags name with
      | none => (s, .err)
      | some t => (muFin (muAdd t s a).2 name (muDel (muAdd t s a).1 d) t.unc, .ok) := by
  unfold markUpdate
  cases sget s.tags name <;> rfl

theorem muAdd_props (t : Tag) (s : St) (a : List Nat) :
    ∃ fresh : IdSet, (muAdd t s a).1.convs = t.convs ∧
      (∀ id ∈ (muAdd t s a).1.mat, id ∈ t.mat ∨ id ∈ fresh) ∧
      NQ (muAdd t s a).2 = NQ s ∧
      ∀ c id, id ∈ qOf (muAdd t s a).2 c ↔ id ∈ qOf s c ∨ (c ∈ t.convs ∧ id ∈ fresh) := by
  unfold muAdd
  split
  · exact ⟨[], rfl, fun id h => Or.inl h, rfl, by simp⟩
  · simp only []
    generalize List.foldl (fun (acc : List Nat) x => if t.mat.contains x || acc.contains x then acc else acc ++ [x]) [] a = fresh
    refine ⟨fresh, ?_⟩
    have e : (List.foldl (fun (s : St) c => { s with toconv := sins c (union ((sget s.toconv c).getD []) fresh) s.toconv }) s t.convs)
        = t.convs.foldl (qadd1 fresh) s := rfl
    rw [e]
    split
    · exact ⟨rfl, fun id h => (mem_union _ _ _).1 h, qadd_fold _ _ _, qadd_fold_q _ _ _⟩
    · exact ⟨rfl, fun id h => (mem_union _ _ _).1 h, qadd_fold _ _ _, qadd_fold_q _ _ _⟩

theorem muDel_props (t : Tag) (d : List Nat) :
    (muDel t d).convs = t.convs ∧ ∀ id ∈ (muDel t d).mat, id ∈ t.mat := by
  unfold muDel
  split
  · exact ⟨rfl, fun _ h => h⟩
  · simp only []
    split <;> exact ⟨rfl, fun id h => ((mem_diff _ _ _).1 h).1⟩

theorem muFin_same (s : St) (name : String) (t : Tag) (u : IdSet) :
    Same (setTag s name t) (muFin s name t u) := by
  unfold muFin
  simp only []
  have h1 : Same (setTag s name t) (invalidatedDuringTaggingJob (inherit (setTag s name t)) t.unc) :=
    (Same_inherit _).trans (Same_invDuring _ _)
  split
  · next t' ht' => exact h1.trans (Same_setTag _ _ t' _ ht' (fun _ h => h) (fun _ h => h))
  · exact h1

theorem Good0_markUpdate (s : St) (name : String) (a d : List Nat) (h : Good0 s) :
    Good0 (markUpdate s name a d).1 := by
  rw [markUpdate_eq]
  split
  · exact h
  · next t ht =>
    simp only []
    apply Good0_of_same (muFin_same _ _ _ _)
    obtain ⟨hacc, hcwf, hcov⟩ := h
    obtain ⟨fresh, a1, a2, a3, a4⟩ := muAdd_props t s a
    obtain ⟨d1, d2⟩ := muDel_props (muAdd t s a).1 d
    simp only [NQ, Prod.mk.injEq] at a3
    obtain ⟨e1, e2, e3, e4, e5, e6, _⟩ := a3
    refine ⟨?_, ?_, ?_⟩
    · intro m u hu c hc id hid hlt
      simp only [setTag, sget_sins, e1] at hu
      change id < (muAdd t s a).2.next at hlt
      rw [e3] at hlt
      have hc' : cOf (setTag (muAdd t s a).2 name (muDel (muAdd t s a).1 d)) c = cOf s c := by
        simp only [cOf, setTag, e6]
      have hq : ∀ id, id ∈ qOf (setTag (muAdd t s a).2 name (muDel (muAdd t s a).1 d)) c ↔
          id ∈ qOf s c ∨ (c ∈ t.convs ∧ id ∈ fresh) := a4 c
      rw [hc', hq]
      split at hu
      · cases hu
        rw [d1, a1] at hc
        rcases a2 id (d2 id hid) with h1 | h1
        · rcases hacc name t ht c hc id h1 hlt with h2 | h2
          · exact Or.inl h2
          · exact Or.inr (Or.inl h2)
        · exact Or.inr (Or.inr ⟨hc, h1⟩)
      · rcases hacc m u hu c hc id hid hlt with h2 | h2
        · exact Or.inl h2
        · exact Or.inr (Or.inl h2)
    · intro m u hu c hc
      simp only [setTag, sget_sins, e1] at hu
      change c ∈ (muAdd t s a).2.convs
      rw [e2]
      split at hu
      · cases hu
        rw [d1, a1] at hc
        exact hcwf name t ht c hc
      · exact hcwf m u hu c hc
    · intro id hid
      change id < (muAdd t s a).2.next at hid
      change ∃ f ∈ (muAdd t s a).2.idx, id ∈ (nget (muAdd t s a).2.files f).getD []
      rw [e4, e5]; exact hcov id (e3 ▸ hid)
theorem TagsLe_sins' (tags' tags : List (String × Tag)) (hle : TagsLe tags' tags) (n n0 : String) (t t' : Tag)
    (ht : sget tags n0 = some t) (hc : ∀ c ∈ t'.convs, c ∈ t.convs) (hm : ∀ id ∈ t'.mat, id ∈ t.mat) :
    TagsLe (sins n t' tags') tags := by
  intro m u hu
  rw [sget_sins] at hu
  split at hu
  · cases hu; exact Or.inr ⟨n0, t, ht, hc, hm⟩
  · exact hle m u hu

theorem Same_setTag' (s s' : St) (h : Same s s') (n n0 : String) (t t' : Tag)
    (ht : sget s.tags n0 = some t) (hc : ∀ c ∈ t'.convs, c ∈ t.convs) (hm : ∀ id ∈ t'.mat, id ∈ t.mat) :
    Same s (setTag s' n t') :=
  ⟨⟨h.1.cached, h.1.toconv, h.1.convs, h.1.next, h.1.convert,
    TagsLe_sins' _ _ h.1.tags n n0 t t' ht hc hm⟩, h.2.1, h.2.2⟩

theorem foldl_inv {σ β} (P : σ → Prop) (f : σ → β → σ) (l : List β)
    (hf : ∀ s x, x ∈ l → P s → P (f s x)) (s : σ) (h : P s) : P (l.foldl f s) := by
  induction l generalizing s with
  | nil => exact h
  | cons x xs ih =>
    exact ih (fun s y hy => hf s y (by simp [hy])) _ (hf s x (by simp) h)

/-- publishing a tag whose matches are all queued for its converters -/
theorem Good0_publish (s : St) (name n0 : String) (ot t : Tag) (ht : sget s.tags n0 = some ot)
    (hc : t.convs = ot.convs) (h : Good0 s) :
    Good0 (setTag (t.convs.foldl (qadd1 t.mat) s) name t) := by
  obtain ⟨hacc, hcwf, hcov⟩ := h
  have e := qadd_fold t.mat t.convs s
  simp only [NQ, Prod.mk.injEq] at e
  obtain ⟨e1, e2, e3, e4, e5, e6, _⟩ := e
  have hq := qadd_fold_q t.mat t.convs s
  refine ⟨?_, ?_, ?_⟩
  · intro m u hu c hcu id hid hlt
    simp only [setTag, sget_sins, e1] at hu
    change id < (t.convs.foldl (qadd1 t.mat) s).next at hlt
    rw [e3] at hlt
    have hc' : cOf (setTag (t.convs.foldl (qadd1 t.mat) s) name t) c = cOf s c := by
      simp only [cOf, setTag, e6]
    have hq' : ∀ id, id ∈ qOf (setTag (t.convs.foldl (qadd1 t.mat) s) name t) c ↔
        id ∈ qOf s c ∨ (c ∈ t.convs ∧ id ∈ t.mat) := hq c
    rw [hc', hq']
    split at hu
    · cases hu; exact Or.inr (Or.inr ⟨hcu, hid⟩)
    · rcases hacc m u hu c hcu id hid hlt with h2 | h2
      · exact Or.inl h2
      · exact Or.inr (Or.inl h2)
  · intro m u hu c hcu
    simp only [setTag, sget_sins, e1] at hu
    change c ∈ (t.convs.foldl (qadd1 t.mat) s).convs
    rw [e2]
    split at hu
    · cases hu; rw [hc] at hcu; exact hcwf n0 ot ht c hcu
    · exact hcwf m u hu c hcu
  · intro id hid
    change id < (t.convs.foldl (qadd1 t.mat) s).next at hid
    change ∃ f ∈ (t.convs.foldl (qadd1 t.mat) s).idx, id ∈ (nget (t.convs.foldl (qadd1 t.mat) s).files f).getD []
    rw [e4, e5]; exact hcov id (e3 ▸ hid)

theorem Grow_flags (s : St) (b : Bool) (j : Option (List (String × IdSet) × List Nat)) :
    Grow s { s with convert := b, jConv := j } :=
  ⟨rfl, rfl, rfl, rfl, TagsLe.refl _, fun _ _ h => h⟩
/-! ## the invariant with an optional accounting part

`Good b s`: converters of tags are known; if `b` holds, matching streams are accounted for and
every stream is stored in a served file.  `b := False` gives the bare `CWF` preservation. -/

def Good (b : Prop) (s : St) : Prop := CWF s ∧ (b → Acc s ∧ Cov s)

theorem Good.lift {b : Prop} {s s' : St} (hc : CWF s → CWF s') (hg : Good0 s → Good0 s')
    (h : Good b s) : Good b s' :=
  ⟨hc h.1, fun hb => have g := hg ⟨(h.2 hb).1, h.1, (h.2 hb).2⟩; ⟨g.1, g.2.2⟩⟩

theorem Good_of_grow {b : Prop} {s s' : St} (g : Grow s s') (h : Good b s) : Good b s' :=
  Good.lift (CWF_of_le g.tags g.convs) (Good0_of_grow g) h
theorem Good_of_same {b : Prop} {s s' : St} (g : Same s s') (h : Good b s) : Good b s' :=
  Good_of_grow g.grow h

theorem CWF_startConverter (s : St) (h : CWF s) : CWF (startConverter s) := by
  obtain ⟨f1, f2, _⟩ := startConverter_frame s
  intro n t ht c hc
  rw [f1] at ht; rw [f2]; exact h n t ht c hc

theorem Good_startConverter {b : Prop} (s : St) (h : Good b s) : Good b (startConverter s) :=
  Good.lift (CWF_startConverter s) (Good0_startConverter s) h

-- CHANGED (dropped): `detachConv` takes the tagging choice
theorem CWF_detachConv (s : St) (n c : String) (choice : Option String) (h : CWF s) :
    CWF (detachConv s n c choice) := by
  rw [detachConv_eq]
  split
  · exact h
  · next t ht =>
    obtain ⟨f1, f2, _⟩ := dc3_frame s n c t choice
    refine CWF_of_le ?_ f2 h
    refine TagsLe.trans ?_ f1
    exact TagsLe_sins _ _ t _ ht (fun c' h => (List.mem_filter.1 h).1) (fun _ h => h)

-- CHANGED (dropped): `detachConv` takes the tagging choice
theorem Good_detachConv {b : Prop} (s : St) (n c : String) (choice : Option String) (h : Good b s) :
    Good b (detachConv s n c choice) :=
  Good.lift (CWF_detachConv s n c choice) (Good0_detachConv s n c choice) h

theorem CWF_attachConv (s : St) (n c : String) (hc : c ∈ s.convs) (h : CWF s) :
    CWF (attachConv s n c).1 := by
  unfold attachConv
  split
  · exact h
  · next t ht =>
    split
    · exact h
    · split
      · exact h
      · intro m u hu c' hc'
        simp only [setTag, sget_sins] at hu
        change c' ∈ s.convs
        split at hu
        · cases hu
          simp only [List.mem_append, List.mem_singleton] at hc'
          rcases hc' with h1 | h1
          · exact h n t ht c' h1
          · exact h1 ▸ hc
        · exact h m u hu c' hc'

theorem Good_attachConv {b : Prop} (s : St) (n c : String) (hc : c ∈ s.convs) (h : Good b s) :
    Good b (attachConv s n c).1 :=
  Good.lift (CWF_attachConv s n c hc) (Good0_attachConv s n c hc) h

theorem CWF_publish (s : St) (name n0 : String) (ot t : Tag) (ht : sget s.tags n0 = some ot)
    (hc : t.convs = ot.convs) (h : CWF s) :
    CWF (setTag (t.convs.foldl (qadd1 t.mat) s) name t) := by
  have e := qadd_fold t.mat t.convs s
  simp only [NQ, Prod.mk.injEq] at e
  obtain ⟨e1, e2, _⟩ := e
  intro m u hu c hcu
  simp only [setTag, sget_sins, e1] at hu
  change c ∈ (t.convs.foldl (qadd1 t.mat) s).convs
  rw [e2]
  split at hu
  · cases hu; rw [hc] at hcu; exact h n0 ot ht c hcu
  · exact h m u hu c hcu

theorem Good_publish {b : Prop} (s : St) (name n0 : String) (ot t : Tag) (ht : sget s.tags n0 = some ot)
    (hc : t.convs = ot.convs) (h : Good b s) :
    Good b (setTag (t.convs.foldl (qadd1 t.mat) s) name t) :=
  Good.lift (CWF_publish s name n0 ot t ht hc) (Good0_publish s name n0 ot t ht hc) h

theorem CWF_markUpdate (s : St) (name : String) (a d : List Nat) (h : CWF s) :
    CWF (markUpdate s name a d).1 := by
  rw [markUpdate_eq]
  split
  · exact h
  · next t ht =>
    simp only []
    apply CWF_of_sameK (muFin_same _ _ _ _).1
    obtain ⟨fresh, a1, a2, a3, a4⟩ := muAdd_props t s a
    obtain ⟨d1, d2⟩ := muDel_props (muAdd t s a).1 d
    simp only [NQ, Prod.mk.injEq] at a3
    obtain ⟨e1, e2, _⟩ := a3
    intro m u hu c hc
    simp only [setTag, sget_sins, e1] at hu
    change c ∈ (muAdd t s a).2.convs
    rw [e2]
    split at hu
    · cases hu
      rw [d1, a1] at hc
      exact h name t ht c hc
    · exact h m u hu c hc

theorem Good_markUpdate {b : Prop} (s : St) (name : String) (a d : List Nat) (h : Good b s) :
    Good b (markUpdate s name a d).1 :=
  Good.lift (CWF_markUpdate s name a d) (Good0_markUpdate s name a d) h

/-! ## per-event lemmas -/

section events
variable {b : Prop}

theorem Acc_release (s : St) (fs : List Nat) (h : Acc s) : Acc (release s fs) :=
  Acc_of_sameK (release_sameK s fs).1 h
theorem CWF_release (s : St) (fs : List Nat) (h : CWF s) : CWF (release s fs) :=
  CWF_of_sameK (release_sameK s fs).1 h

/-- what remains of `Good` after files were released -/
def AC (b : Prop) (s : St) : Prop := CWF s ∧ (b → Acc s)
theorem AC_of_sameK {s s' : St} (g : SameK s s') (h : AC b s) : AC b s' :=
  ⟨CWF_of_sameK g h.1, fun hb => Acc_of_sameK g (h.2 hb)⟩
theorem AC_release (s : St) (fs : List Nat) (h : AC b s) : AC b (release s fs) :=
  AC_of_sameK (release_sameK s fs).1 h
theorem Good.ac {s : St} (h : Good b s) : AC b s := ⟨h.1, fun hb => (h.2 hb).1⟩

theorem ev_nop (s : St) (st : Started) (h : Good b s) : Good b (step s .nop st).1 := h

theorem ev_importPcaps (s : St) (st : Started) (names : List String) (h : Good b s) :
    Good b (step s (.importPcaps names) st).1 := by
  simp only [step]
  split
  · exact h
  · simp only []
    split
    · exact Good_of_same (Same_startImport _) (Good_of_same ⟨⟨rfl, rfl, rfl, rfl, rfl, TagsLe.refl _⟩, rfl, rfl⟩ h)
    · exact Good_of_same ⟨⟨rfl, rfl, rfl, rfl, rfl, TagsLe.refl _⟩, rfl, rfl⟩ h

theorem ev_viewOpen (s : St) (st : Started) (k : Nat) (h : Good b s) :
    Good b (step s (.viewOpen k) st).1 := by
  simp only [step]
  split
  · exact h
  · exact Good_of_same ⟨⟨rfl, rfl, rfl, rfl, rfl, TagsLe.refl _⟩, rfl, rfl⟩ h

theorem ev_viewRelease (s : St) (st : Started) (k : Nat) (h : AC b s) :
    AC b (step s (.viewRelease k) st).1 := by
  simp only [step]
  split
  · exact h
  · have g : SameK s { s with views := ndel s.views k } := ⟨rfl, rfl, rfl, rfl, rfl, TagsLe.refl _⟩
    exact AC_release _ _ (AC_of_sameK g h)

theorem ev_updColor (s : St) (st : Started) (name color : String) (h : Good b s) :
    Good b (step s (.updColor name color) st).1 := by
  simp only [step]
  split
  · exact h
  · next t ht =>
    simp only []
    split
    · exact h
    · exact Good_of_same (Same_setTag s name t _ ht (fun _ h => h) (fun _ h => h)) h
theorem Same_tagflag (s : St) (b : Bool) : Same s { s with tag := b } :=
  ⟨⟨rfl, rfl, rfl, rfl, rfl, TagsLe.refl _⟩, rfl, rfl⟩

theorem ev_mergeDone (s : St) (st : Started) (merged : List (Nat × List Nat)) (h : AC b s) :
    AC b (step s (.mergeDone merged) st).1 := by
  simp only [step]
  split
  · exact h
  · next off held hj =>
    simp only []
    apply AC_release
    apply AC_of_sameK (Same_startMerge _).1
    split
    · exact AC_of_sameK ⟨rfl, rfl, rfl, rfl, rfl, TagsLe.refl _⟩ h
    · have g := (release_sameK { s with jMerge := none } (List.take held.length (List.drop off s.idx))).1
      refine AC_of_sameK ?_ (AC_of_sameK g (AC_of_sameK ⟨rfl, rfl, rfl, rfl, rfl, TagsLe.refl _⟩ h))
      exact ⟨rfl, rfl, rfl, rfl, rfl, TagsLe.refl _⟩

theorem ev_tagDone (s : St) (st : Started) (name : String) (result : List Nat) (h : Good b s) :
    AC b (step s (.tagDone name result) st).1 := by
  simp only [step]
  split
  · exact h.ac
  · next jn snap held hj =>
    split
    · exact AC_of_sameK ⟨rfl, rfl, rfl, rfl, rfl, TagsLe.refl _⟩ h.ac
    · simp only []
      apply AC_release
      apply Good.ac
      apply Good_of_same (Same_startMerge _)
      apply Good_startConverter
      apply Good_of_same (Same_startTagging _ _)
      have h0 : Good b { s with jTag := none } := Good_of_same ⟨⟨rfl, rfl, rfl, rfl, rfl, TagsLe.refl _⟩, rfl, rfl⟩ h
      refine Good_of_same (Same_tagflag _ false) ?_
      split
      · next ot hot =>
        split
        · have hp := Good_publish { s with jTag := none } name name ot
            { snap with mat := union (diff snap.mat snap.unc) (ofList result), unc := [], color := ot.color, convs := ot.convs, refBy := ot.refBy }
            hot rfl h0
          split
          · exact hp
          · exact Good_of_same (Same_invalidateTags _ _ _ _) hp
        · exact h0
      · exact h0
theorem ev_convertDone (s : St) (st : Started) (h : Good b s) :
    AC b (step s .convertDone st).1 := by
  simp only [step]
  split
  · exact h.ac
  · next sets held hj =>
    simp only []
    apply AC_release
    apply Good.ac
    apply Good_startConverter
    apply Good_of_same (Same_startTagging _ _)
    apply Good_of_same (Same_inherit _)
    refine Good_of_same (Same_foldl _ _ ?_ _) (Good_of_grow (Grow_flags s false none) h)
    intro s' x
    split
    · exact Same.refl _
    · refine ⟨⟨rfl, rfl, rfl, rfl, rfl, ?_⟩, rfl, rfl⟩
      apply TagsLe_map
      intro y
      split
      · split <;> exact ⟨rfl, rfl, rfl⟩
      · split <;> exact ⟨rfl, rfl, rfl⟩

theorem ev_markAdd (s : St) (st : Started) (name : String) (ids : List Nat) (h : Good b s) :
    Good b (step s (.markAdd name ids) st).1 := by
  simp only [step]
  split
  · exact h
  · split
    · exact h
    · split
      · exact h
      · split
        · exact h
        · simp only []
          apply Good_startConverter
          apply Good_of_same (Same_startTagging _ _)
          exact Good_markUpdate _ _ _ _ h

theorem ev_markDel (s : St) (st : Started) (name : String) (ids : List Nat) (h : Good b s) :
    Good b (step s (.markDel name ids) st).1 := by
  simp only [step]
  split
  · exact h
  · split
    · exact h
    · split
      · exact h
      · split
        · exact h
        · simp only []
          apply Good_startConverter
          apply Good_of_same (Same_startTagging _ _)
          exact Good_markUpdate _ _ _ _ h

theorem ev_delTag (s : St) (st : Started) (name : String) (h : Good b s) :
    Good b (step s (.delTag name) st).1 := by
  simp only [step]
  split
  · exact h
  · next t ht =>
    split
    · exact h
    · simp only []
      refine Good_of_same (Same_foldl _ _ (fun s r => Same_delRefBy s r name) _) ?_
      refine Good_of_same (s := t.convs.foldl (fun s c => detachConv s name c st.tag) s)
        ⟨⟨rfl, rfl, rfl, rfl, rfl, TagsLe_sdel _ _⟩, rfl, rfl⟩ ?_
      exact foldl_inv (Good b) _ _ (fun s c _ hs => Good_detachConv s name c st.tag hs) s h
theorem ev_addTag (s : St) (st : Started) (name color defn : String) (f : Facts) (h : Good b s) :
    Good b (step s (.addTag name color defn f) st).1 := by
  simp only [step]
  rcases parseTagName name with ⟨typ, sub, isMark⟩
  simp only []
  split
  · exact h
  · split
    · exact h
    · split
      · exact h
      · split
        · exact h
        · split
          · exact h
          · split
            · exact h
            · simp only []
              refine Good_of_same (Same_foldl _ _ (fun s r => Same_addRefBy s r name) _) ?_
              cases isMark
              · simp only [Bool.false_eq_true, if_false]
                refine Good_of_same (Same_startTagging _ _) ?_
                exact Good_of_same (Same_setTag_new _ _ _ rfl) h
              · simp only [if_true]
                exact Good_of_same (Same_setTag_new _ _ _ rfl) h

theorem ev_updQuery (s : St) (st : Started) (name defn : String) (f : Facts) (h : Good b s) :
    Good b (step s (.updQuery name defn f) st).1 := by
  simp only [step]
  split
  · exact h
  · split
    · exact h
    · split
      · exact h
      · split
        · exact h
        · next t ht =>
          split
          · exact h
          · split
            · exact h
            · split
              · exact h
              · simp only []
                apply Good_startConverter
                apply Good_of_same (Same_startTagging _ _)
                apply Good_of_same (Same_invDuring _ _)
                apply Good_of_same (Same_inherit _)
                refine Good_of_same (Same_setTag' s _ ?_ name name t _ ht (fun _ h => h) (fun _ h => by simp at h)) h
                exact (Same_foldl _ _ (fun s r => Same_delRefBy s r name) _).trans
                  (Same_foldl _ _ (fun s r => Same_addRefBy s r name) _)

theorem ev_updName (s : St) (st : Started) (name new : String) (h : Good b s) :
    Good b (step s (.updName name new) st).1 := by
  simp only [step]
  split
  · exact h
  · next t ht =>
    split
    · exact h
    · rcases parseTagName name with ⟨oldTyp, x1, x2⟩
      rcases parseTagName new with ⟨newTyp, newSub, x3⟩
      simp only []
      split
      · exact h
      · split
        · exact h
        · split
          · exact h
          · split
            · exact h
            · simp only []
              refine Good_of_same (Same_foldl _ _ (fun s r => (Same_delRefBy s r name).trans (Same_addRefBy _ r new)) _) ?_
              refine Good_of_same (Same_tags s _ ?_) h
              exact TagsLe_sins' _ _ (TagsLe_sdel _ _) new name t t ht (fun _ h => h) (fun _ h => h)

theorem attach_fold (name : String) (l : List String) (s : St) (hl : ∀ c ∈ l, c ∈ s.convs) (h : Good b s) :
    Good b (l.foldl (fun s c => (attachConv s name c).1) s) := by
  induction l generalizing s with
  | nil => exact h
  | cons a r ih =>
    simp only [List.foldl_cons]
    apply ih
    · intro c hc; rw [attachConv_convs]; exact hl c (by simp [hc])
    · exact Good_attachConv s name a (hl a (by simp)) h

-- CHANGED (dropped): `detachConv` takes the tagging choice
theorem detach_fold (name : String) (choice : Option String) (l : List String) (s : St) (h : Good b s) :
    Good b (l.foldl (fun s c => detachConv s name c choice) s) ∧
    (l.foldl (fun s c => detachConv s name c choice) s).convs = s.convs := by
  induction l generalizing s with
  | nil => exact ⟨h, rfl⟩
  | cons a r ih =>
    simp only [List.foldl_cons]
    have := ih (detachConv s name a choice) (Good_detachConv s name a choice h)
    exact ⟨this.1, this.2.trans (detachConv_convs _ _ _ _)⟩

theorem ev_updConv (s : St) (st : Started) (name : String) (convs : List String) (h : Good b s) :
    Good b (step s (.updConv name convs) st).1 := by
  simp only [step]
  split
  · exact h
  · next t ht =>
    split
    · exact h
    · next hval =>
      simp only []
      apply Good_startConverter
      obtain ⟨hd, hdc⟩ := detach_fold name st.tag (t.convs.filter (fun c => !convs.contains c)) s h
      apply attach_fold
      · intro c hc
        rw [hdc]
        have hc1 : c ∈ convs := (List.mem_filter.1 hc).1
        simp only [List.any_eq_true, not_exists, not_and, Bool.and_eq_true, Bool.not_eq_true'] at hval
        by_cases hin : c ∈ t.convs
        · exact h.1 name t ht c hin
        · have := hval c hc1 (by simpa using hin)
          simp only [Bool.or_eq_true, not_or, Bool.not_eq_true', Bool.not_eq_true, Bool.not_eq_false'] at this
          simpa using this.1
      · exact hd
end events

/-! ## import completion -/

theorem insFold_other (created : List (Nat × List Nat)) (files : List (Nat × List Nat)) (f : Nat)
    (h : f ∉ created.map (·.1)) :
    nget (created.foldl (fun fs (x : Nat × List Nat) => nins x.1 x.2 fs) files) f = nget files f := by
  induction created generalizing files with
  | nil => rfl
  | cons a r ih =>
    simp only [List.map_cons, List.mem_cons, not_or] at h
    simp only [List.foldl_cons]
    rw [ih _ h.2, nget_nins, if_neg (fun e => h.1 e.symm)]

theorem insFold_mem (created : List (Nat × List Nat)) (files : List (Nat × List Nat))
    (hnd : (created.map (·.1)).Nodup) (c : Nat × List Nat) (hc : c ∈ created) :
    nget (created.foldl (fun fs (x : Nat × List Nat) => nins x.1 x.2 fs) files) c.1 = some c.2 := by
  induction created generalizing files with
  | nil => simp at hc
  | cons a r ih =>
    simp only [List.map_cons, List.nodup_cons] at hnd
    simp only [List.foldl_cons]
    rcases List.mem_cons.1 hc with e | e
    · subst e
      rw [insFold_other _ _ _ hnd.1, nget_nins, if_pos rfl]
    · exact ih _ hnd.2 e

theorem Good0_import_mid (s : St) (jn : Nat) (held : List Nat) (usednew : Nat)
    (created : List (Nat × List Nat)) (u r a : IdSet) (nrec : Nat) (used : List (Nat × Nat))
    (u' r' a' : IdSet)
    (h : Good0 s)
    (hmb : ∀ n t, sget s.tags n = some t → ∀ id ∈ t.mat, id < s.next)
    (hused : ∀ f ∈ s.idx, held.count f < (nget s.used f).getD 0)
    (hfresh : (created.map (·.1)).Nodup ∧ ∀ o ∈ created.map (·.1), nget s.files o = none)
    (hjn : jn = s.next)
    (hpay : ∀ id, jn ≤ id → id < jn + usednew → ∃ c ∈ created, id ∈ c.2) :
    let s1 := release { s with all := jn + usednew, jImport := none } held
    Good0 s1 ∧
    Good0 (invalidateConverters (invalidateConverters (invalidateTags
      { s1 with idx := s1.idx ++ created.map (·.1),
                files := created.foldl (fun fs (x : Nat × List Nat) => nins x.1 x.2 fs) s1.files,
                nrec := nrec, next := jn + usednew, used := used, upd := u', rst := r', add := a' } u r a) u) r) := by
  intro s1
  obtain ⟨hacc, hcwf, hcov⟩ := h
  have g0 : SameK s { s with all := jn + usednew, jImport := none } := ⟨rfl, rfl, rfl, rfl, rfl, TagsLe.refl _⟩
  have g1 := release_sameK { s with all := jn + usednew, jImport := none } held
  have g : SameK s s1 := g0.trans g1.1
  have hidx : s1.idx = s.idx := g1.2
  have hfiles : ∀ f ∈ s.idx, nget s1.files f = nget s.files f := fun f hf =>
    release_files_keep { s with all := jn + usednew, jImport := none } held f (hused f hf)
  have hnone : ∀ o ∈ created.map (·.1), nget s1.files o = none := fun o ho =>
    release_files_none { s with all := jn + usednew, jImport := none } held o (hfresh.2 o ho)
  have hcov1 : Cov s1 := by
    intro id hid
    rw [g.next] at hid
    obtain ⟨f, hf, hm⟩ := hcov id hid
    exact ⟨f, hidx ▸ hf, by rw [hfiles f hf]; exact hm⟩
  have hG1 : Good0 s1 := ⟨Acc_of_sameK g hacc, CWF_of_sameK g hcwf, hcov1⟩
  refine ⟨hG1, ?_⟩
  apply Good0_of_grow (invalidateConverters_grow _ _)
  apply Good0_of_grow (invalidateConverters_grow _ _)
  apply Good0_of_same (Same_invalidateTags _ _ _ _)
  refine ⟨?_, ?_, ?_⟩
  · intro n t ht c hc id hid _
    have := hG1.1 n t ht c hc id hid
    rcases g.tags n t ht with h0 | ⟨n0, t0, ht0, _, hm⟩
    · simp [h0] at hc
    · exact this (by rw [g.next]; exact hmb n0 t0 ht0 id (hm id hid))
  · exact hG1.2.1
  · intro id hid
    change id < jn + usednew at hid
    change ∃ f ∈ s1.idx ++ created.map (·.1),
      id ∈ (nget (created.foldl (fun fs (x : Nat × List Nat) => nins x.1 x.2 fs) s1.files) f).getD []
    by_cases hlt : id < s.next
    · obtain ⟨f, hf, hm⟩ := hcov1 id (by rw [g.next]; exact hlt)
      refine ⟨f, List.mem_append_left _ hf, ?_⟩
      have hnot : f ∉ created.map (·.1) := by
        intro hin
        rw [hnone f hin] at hm
        simp at hm
      rw [insFold_other _ _ _ hnot]; exact hm
    · obtain ⟨c, hc, hm⟩ := hpay id (by omega) hid
      refine ⟨c.1, List.mem_append_right _ (List.mem_map.2 ⟨c, hc, rfl⟩), ?_⟩
      rw [insFold_mem _ _ hfresh.1 c hc]; exact hm

theorem Same_queue (s : St) (q : List String) : Same s { s with queue := q } :=
  ⟨⟨rfl, rfl, rfl, rfl, rfl, TagsLe.refl _⟩, rfl, rfl⟩

def impA (s : St) (jn : Nat) (held : List Nat) (usednew : Nat) : St :=
  release { s with all := jn + usednew, jImport := none } held

def impB (s : St) (jn usednew : Nat) (created : List (Nat × List Nat)) (upd rst add : IdSet) : St :=
  if created.isEmpty then s else
    let ords := created.map (·.1)
    let s := { s with idx := s.idx ++ ords,
                      files := created.foldl (fun fs (x : Nat × List Nat) => nins x.1 x.2 fs) s.files,
                      nrec := s.nrec + (created.map (·.2.length)).sum,
                      next := jn + usednew,
                      used := lock s.used ords,
                      upd := union s.upd upd, rst := union s.rst rst, add := union s.add add }
    let s := invalidateTags s upd rst add
    invalidateConverters (invalidateConverters s upd) rst

def impC (s : St) (processed : Nat) : St :=
  let s := { s with queue := s.queue.drop processed }
  if s.queue.isEmpty then s else startImport s

def impD (s : St) (st : Started) : St := startMerge (startConverter (startTagging s st.tag))

theorem step_importDone_eq (s : St) (st : Started) (processed usednew : Nat)
    (created : List (Nat × List Nat)) (upd rst add : List Nat) :
    step s (.importDone processed usednew created upd rst add) st =
      match s.jImport with
      | none => (s, .none)
      | some (jn, held) =>
        (impD (impC (impB (impA s jn held usednew) jn usednew created (ofList upd) (ofList rst) (ofList add)) processed) st, .none) := by
  simp only [step]
  cases s.jImport <;> rfl

theorem Good_impC {b : Prop} (s : St) (processed : Nat) (h : Good b s) : Good b (impC s processed) := by
  unfold impC
  simp only []
  split
  · exact Good_of_same (Same_queue _ _) h
  · exact Good_of_same (Same_startImport _) (Good_of_same (Same_queue _ _) h)

theorem Good_impD {b : Prop} (s : St) (st : Started) (h : Good b s) : Good b (impD s st) :=
  Good_of_same (Same_startMerge _) (Good_startConverter _ (Good_of_same (Same_startTagging _ _) h))

theorem CWF_impAB (s : St) (jn : Nat) (held : List Nat) (usednew : Nat)
    (created : List (Nat × List Nat)) (u r a : IdSet) (h : CWF s) :
    CWF (impB (impA s jn held usednew) jn usednew created u r a) := by
  have gA : SameK s (impA s jn held usednew) :=
    SameK.trans (b := { s with all := jn + usednew, jImport := none })
      ⟨rfl, rfl, rfl, rfl, rfl, TagsLe.refl _⟩ (release_sameK _ _).1
  have hA := CWF_of_sameK gA h
  unfold impB
  split
  · exact hA
  · simp only []
    have g1 := invalidateConverters_grow
    refine CWF_of_le (g1 _ _).tags (g1 _ _).convs (CWF_of_le (g1 _ _).tags (g1 _ _).convs ?_)
    refine CWF_of_sameK (Same_invalidateTags _ _ _ _).1 ?_
    exact hA

theorem ev_importDone {b : Prop} (s : St) (st : Started) (processed usednew : Nat)
    (created : List (Nat × List Nat)) (upd rst add : List Nat)
    (h : Good b s)
    (hmb : b → ∀ n t, sget s.tags n = some t → ∀ id ∈ t.mat, id < s.next)
    (hused : b → ∀ jn held, s.jImport = some (jn, held) → ∀ f ∈ s.idx, held.count f < (nget s.used f).getD 0)
    (hfresh : b → (created.map (·.1)).Nodup ∧ ∀ o ∈ created.map (·.1), nget s.files o = none)
    (hpay : b → ∀ jn held, s.jImport = some (jn, held) → jn = s.next ∧
      ∀ id, jn ≤ id → id < jn + usednew → ∃ c ∈ created, id ∈ c.2) :
    Good b (step s (.importDone processed usednew created upd rst add) st).1 := by
  rw [step_importDone_eq]
  split
  · exact h
  · next jn held hj =>
    simp only []
    apply Good_impD
    apply Good_impC
    refine ⟨CWF_impAB s jn held usednew created _ _ _ h.1, fun hb => ?_⟩
    have hmid := Good0_import_mid s jn held usednew created (ofList upd) (ofList rst) (ofList add)
      ((impA s jn held usednew).nrec + (created.map (·.2.length)).sum)
      (lock (impA s jn held usednew).used (created.map (·.1)))
      (union (impA s jn held usednew).upd (ofList upd))
      (union (impA s jn held usednew).rst (ofList rst))
      (union (impA s jn held usednew).add (ofList add))
      ⟨(h.2 hb).1, h.1, (h.2 hb).2⟩ (hmb hb) (hused hb jn held hj) (hfresh hb) (hpay hb jn held hj).1 (hpay hb jn held hj).2
    have : Good0 (impB (impA s jn held usednew) jn usednew created (ofList upd) (ofList rst) (ofList add)) := by
      unfold impB
      split
      · exact hmid.1
      · exact hmid.2
    exact ⟨this.1, this.2.2⟩

/-- cache, converter list and converter flag are the same -/
def SameC (s s' : St) : Prop := s'.cached = s.cached ∧ s'.convs = s.convs ∧ s'.convert = s.convert
theorem SameK.c {s s' : St} (h : SameK s s') : SameC s s' := ⟨h.cached, h.convs, h.convert⟩
theorem SameC.trans {a b c : St} (h1 : SameC a b) (h2 : SameC b c) : SameC a c :=
  ⟨h2.1.trans h1.1, h2.2.1.trans h1.2.1, h2.2.2.trans h1.2.2⟩

theorem import_drops' (s : St) (st : Started) (processed usednew : Nat)
    (created : List (Nat × List Nat)) (upd rst add : List Nat) (c : String) (id : Nat)
    (hj : s.jImport.isSome) (hcr : created ≠ []) (hc : c ∈ s.convs)
    (hid : id ∈ upd ∨ id ∈ rst)
    (hcached : id ∈ cOf (step s (.importDone processed usednew created upd rst add) st).1 c) :
    s.convert = false ∧ (step s (.importDone processed usednew created upd rst add) st).1.convert = true := by
  rw [step_importDone_eq] at hcached ⊢
  cases hjj : s.jImport with
  | none => simp [hjj] at hj
  | some p =>
    obtain ⟨jn, held⟩ := p
    simp only [hjj] at hcached ⊢
    -- the state after the invalidation
    have gA : SameK s (impA s jn held usednew) :=
      SameK.trans (b := { s with all := jn + usednew, jImport := none })
        ⟨rfl, rfl, rfl, rfl, rfl, TagsLe.refl _⟩ (release_sameK _ _).1
    generalize hA : impA s jn held usednew = sA at gA hcached ⊢
    have hB : ∃ sT : St, SameC s sT ∧
        impB sA jn usednew created (ofList upd) (ofList rst) (ofList add) =
          invalidateConverters (invalidateConverters sT (ofList upd)) (ofList rst) := by
      unfold impB
      rw [if_neg (by simpa using hcr)]
      refine ⟨_, ?_, rfl⟩
      refine SameC.trans gA.c ?_
      refine SameC.trans ?_ (Same_invalidateTags _ _ _ _).1.c
      exact ⟨rfl, rfl, rfl⟩
    obtain ⟨sT, gT, eB⟩ := hB
    generalize impB sA jn usednew created (ofList upd) (ofList rst) (ofList add) = sB at eB hcached ⊢
    have hBconv : sB.convert = s.convert := by
      rw [eB, invalidateConverters_convert, invalidateConverters_convert, gT.2.2]
    have hBnot : id ∉ cOf sB c := by
      intro hin
      rw [eB] at hin
      obtain ⟨h1, h2⟩ := invalidateConverters_cached _ _ _ _ hin
      obtain ⟨_, h4⟩ := invalidateConverters_cached _ _ _ _ h1
      have hc1 : c ∈ sT.convs := by rw [gT.2.1]; exact hc
      have hc2 : c ∈ (invalidateConverters sT (ofList upd)).convs := by
        rw [(invalidateConverters_grow _ _).convs]; exact hc1
      rcases hid with h | h
      · exact h4 hc1 ((mem_ofList _ _).2 h)
      · exact h2 hc2 ((mem_ofList _ _).2 h)
    have gC : Same sB (impC sB processed) := by
      unfold impC
      simp only []
      split
      · exact Same_queue _ _
      · exact (Same_queue _ _).trans (Same_startImport _)
    have gX : Same sB (startTagging (impC sB processed) st.tag) := gC.trans (Same_startTagging _ _)
    simp only [impD] at hcached ⊢
    generalize startTagging (impC sB processed) st.tag = x at gX hcached ⊢
    have gM := Same_startMerge (startConverter x)
    have hcc : id ∈ cOf (startConverter x) c := by
      simpa only [cOf, gM.1.cached] using hcached
    rw [gM.1.convert]
    rcases startConverter_cases x with e | ⟨e1, e2⟩
    · rw [e] at hcc
      exact absurd (by simpa only [cOf, gX.1.cached] using hcc) hBnot
    · exact ⟨by rw [← hBconv, ← gX.1.convert]; exact e1, e2⟩

/-! ## assembling the step -/

/-- what the completion of an import needs beyond `Good` (only for the accounting part) -/
def ImportOK (s : St) : Ev → Prop
  | .importDone _ usednew created _ _ _ =>
    (∀ n t, sget s.tags n = some t → ∀ id ∈ t.mat, id < s.next) ∧
    (∀ jn held, s.jImport = some (jn, held) → ∀ f ∈ s.idx, held.count f < (nget s.used f).getD 0) ∧
    ((created.map (·.1)).Nodup ∧ ∀ o ∈ created.map (·.1), nget s.files o = none) ∧
    (∀ jn held, s.jImport = some (jn, held) → jn = s.next ∧
      ∀ id, jn ≤ id → id < jn + usednew → ∃ c ∈ created, id ∈ c.2)
  | _ => True

theorem step_ac {b : Prop} (s : St) (e : Ev) (st : Started) (h : Good b s) (hi : b → ImportOK s e) :
    AC b (step s e st).1 := by
  cases e with
  | nop => exact (ev_nop s st h).ac
  | importPcaps names => exact (ev_importPcaps s st names h).ac
  | importDone processed usednew created upd rst add =>
    exact (ev_importDone s st processed usednew created upd rst add h
      (fun hb => (hi hb).1) (fun hb => (hi hb).2.1) (fun hb => (hi hb).2.2.1) (fun hb => (hi hb).2.2.2)).ac
  | tagDone name result => exact ev_tagDone s st name result h
  | mergeDone merged => exact ev_mergeDone s st merged h.ac
  | convertDone => exact ev_convertDone s st h
  | addTag name color defn f => exact (ev_addTag s st name color defn f h).ac
  | updQuery name defn f => exact (ev_updQuery s st name defn f h).ac
  | updColor name color => exact (ev_updColor s st name color h).ac
  | updName name new => exact (ev_updName s st name new h).ac
  | updConv name convs => exact (ev_updConv s st name convs h).ac
  | markAdd name ids => exact (ev_markAdd s st name ids h).ac
  | markDel name ids => exact (ev_markDel s st name ids h).ac
  | delTag name => exact (ev_delTag s st name h).ac
  | viewOpen k => exact (ev_viewOpen s st k h).ac
  | viewRelease k => exact ev_viewRelease s st k h.ac

/-! ## tables that differ in the pending sets only -- CHANGED (dropped): new, for the dropped-output step -/

/-- erase the pending set of an entry -/
def eraseU (p : String × Tag) : String × Tag := (p.1, { p.2 with unc := [] })

/-- same keys in the same order; corresponding entries differ in `unc` only -/
def TagsU (tags tags' : List (String × Tag)) : Prop := tags'.map eraseU = tags.map eraseU

theorem TagsU.refl (tags : List (String × Tag)) : TagsU tags tags := rfl
theorem TagsU.trans {a b c : List (String × Tag)} (h1 : TagsU a b) (h2 : TagsU b c) : TagsU a c :=
  Eq.trans h2 h1
theorem TagsU.symm {a b : List (String × Tag)} (h : TagsU a b) : TagsU b a := Eq.symm h

theorem TagsU.keys {a b : List (String × Tag)} (h : TagsU a b) : b.map (·.1) = a.map (·.1) := by
  have := congrArg (List.map (·.1)) h
  simpa [List.map_map, Function.comp_def, eraseU] using this

/-- corresponding entries: same key, same everything except `unc` -/
theorem TagsU.entry {a b : List (String × Tag)} (h : TagsU a b) (n : String) (t' : Tag)
    (ht : sget b n = some t') :
    ∃ t, sget a n = some t ∧ t' = { t with unc := t'.unc } := by
  have e1 := sget_map eraseU (fun _ => rfl) a n
  have e2 := sget_map eraseU (fun _ => rfl) b n
  rw [h, e1, ht] at e2
  cases ha : sget a n with
  | none => rw [ha] at e2; cases e2
  | some t =>
    rw [ha] at e2
    simp only [Option.map_some, Option.some.injEq, eraseU] at e2
    refine ⟨t, rfl, ?_⟩
    have : ({ t' with unc := [] } : Tag) = { t with unc := [] } := e2.symm
    cases t; cases t'
    simp only [Tag.mk.injEq] at this ⊢
    simp_all

theorem TagsU_map (tags : List (String × Tag)) (f : String × Tag → String × Tag)
    (hf : ∀ x, eraseU (f x) = eraseU x) : TagsU tags (tags.map f) := by
  unfold TagsU
  rw [List.map_map]
  exact List.map_congr_left (fun x _ => hf x)

/-- replacing an entry of a sorted table by one that differs in `unc` only -/
theorem TagsU_sins (l : List (String × Tag)) (hw : (l.map (·.1)).Pairwise (· < ·)) (n : String) (t t' : Tag)
    (ht : sget l n = some t) (he : eraseU (n, t') = eraseU (n, t)) : TagsU l (sins n t' l) := by
  induction l with
  | nil => simp [sget_nil] at ht
  | cons a r ih =>
    obtain ⟨ka, va⟩ := a
    simp only [List.map_cons, List.pairwise_cons] at hw
    simp only [sins]
    split
    · next hlt =>
      exfalso
      have hm := sget_mem _ _ _ ht
      rcases List.mem_cons.1 hm with e | e
      · cases e; exact absurd hlt (String.lt_irrefl _)
      · have := hw.1 n (List.mem_map.2 ⟨(n, t), e, rfl⟩)
        exact absurd (String.lt_trans hlt this) (String.lt_irrefl _)
    · split
      · next _ e =>
        subst e
        rw [sget_cons, if_pos rfl] at ht
        cases ht
        unfold TagsU
        simp only [List.map_cons, he]
      · next _ hne =>
        rw [sget_cons, if_neg (fun e => hne e.symm)] at ht
        unfold TagsU
        simp only [List.map_cons]
        rw [ih hw.2 ht]

theorem inheritOne_eu (all : Nat) (tags : List (String × Tag)) (n : String) (t : Tag) :
    eraseU (n, inheritOne all tags t) = eraseU (n, t) := by
  unfold inheritOne
  split
  · rfl
  · split <;> rfl

theorem inheritPass_u (all : Nat) (l tags : List (String × Tag)) (res : List String)
    (hw : (tags.map (·.1)).Pairwise (· < ·)) :
    TagsU tags (l.foldl (fun (acc : List (String × Tag) × List String) (nt : String × Tag) =>
      let (tags, resolved) := acc
      let n := nt.1
      if resolved.contains n then acc
      else match sget tags n with
        | none => acc
        | some t =>
          if t.refs.all (fun r => resolved.contains r) then
            (sins n (inheritOne all tags t) tags, n :: resolved)
          else acc) (tags, res)).1 := by
  induction l generalizing tags res with
  | nil => exact TagsU.refl _
  | cons a r ih =>
    simp only [List.foldl_cons]
    split
    · exact ih _ _ hw
    · split
      · exact ih _ _ hw
      · next t ht =>
        split
        · have h1 := TagsU_sins tags hw a.1 t _ ht (inheritOne_eu all tags a.1 t)
          refine TagsU.trans h1 (ih _ _ ?_)
          exact (sins_sorted tags hw _ _).1
        · exact ih _ _ hw

theorem inheritLoop_u (all fuel : Nat) (tags : List (String × Tag)) (res : List String)
    (hw : (tags.map (·.1)).Pairwise (· < ·)) : TagsU tags (inheritLoop all fuel tags res).1 := by
  induction fuel generalizing tags res with
  | zero => exact TagsU.refl _
  | succ k ih =>
    unfold inheritLoop
    split
    · exact TagsU.refl _
    · simp only []
      have h1 := inheritPass_u all tags tags res hw
      refine TagsU.trans h1 (ih _ _ ?_)
      have := h1.keys
      rw [this]; exact hw

theorem inherit_tagsU (s : St) (hw : (s.tags.map (·.1)).Pairwise (· < ·)) : TagsU s.tags (inherit s).tags := by
  unfold inherit
  exact inheritLoop_u _ _ _ _ hw

theorem od_startTagging_tags (s : St) (ch : Option String) : (startTagging s ch).tags = s.tags := by
  unfold startTagging
  repeat (first | rfl | split)

/-- the dropped-output step changes pending sets only -/
theorem outputDropped_tagsU (s : St) (choice : Option String) (hw : (s.tags.map (·.1)).Pairwise (· < ·)) :
    TagsU s.tags (outputDropped s choice).tags := by
  unfold outputDropped
  split
  · simp only []
    rw [od_startTagging_tags]
    have h0 : ∀ (x : St) ids, (invalidatedDuringTaggingJob x ids).tags = x.tags := by
      intro x ids; unfold invalidatedDuringTaggingJob; split <;> rfl
    rw [h0]
    have h1 : TagsU s.tags (s.tags.map fun (x : String × Tag) =>
        match x with
        | (n, t) => if (t.mfeat ||| t.sfeat) &&& fData != 0 then (n, { t with unc := rangeSet s.all }) else (n, t)) := by
      apply TagsU_map
      rintro ⟨n, t⟩
      simp only []
      split <;> rfl
    refine TagsU.trans h1 (inherit_tagsU _ ?_)
    show List.Pairwise _ (List.map _ (List.map _ s.tags))
    rw [h1.keys]; exact hw
  · exact TagsU.refl _

/-- the table after a detach: `sins n … s.tags` up to pending sets -/
theorem dc3_tagsU (s : St) (n c : String) (t : Tag) (choice : Option String)
    (hw : (s.tags.map (·.1)).Pairwise (· < ·)) :
    TagsU (sins n { t with convs := t.convs.filter (· != c) } s.tags) (dc3 s n c t choice).tags := by
  have f1 := (dc2_frame s n c t).1
  rcases dc3_cases s n c t choice with e | e <;> rw [e]
  · rw [f1]; exact TagsU.refl _
  · rw [← f1]
    apply outputDropped_tagsU
    rw [f1]; exact (sins_sorted s.tags hw _ _).1

end Pk.Proofs.MgrConv
