/- Helper lemmas for C16 (converter queues and caches). -/
import Pk.Model.Manager
namespace Pk.Proofs.MgrConv
open Pk.Mgr
end Pk.Proofs.MgrConv
