/-
  Helper lemmas for Pk/Props/C05Reasm.lean: sequence arithmetic without wrap, slices of the byte
  string of one direction, the two branches of `assembleHalf` for a data segment.
-/
import Pk.Proofs.ImportReasm

namespace Pk.Proofs.ImportReasm
open Pk.Import

/-! ### sequence numbers of a direction that does not wrap -/

/-- the sequence numbers `isn .. isn + n` of one direction do not cross 2^32, and
    `Sequence.Difference` never applies its wrap correction to two of them (that needs one number in
    the last and one in the first quarter of the sequence space) -/
def SeqLinear (isn n : Nat) : Prop :=
  isn + n < 4294967296 ∧ (uint32Max / 4 ≤ isn ∨ isn + n ≤ uint32Max - uint32Max / 4)

instance (isn n : Nat) : Decidable (SeqLinear isn n) := by unfold SeqLinear; infer_instance

theorem seqDiff_lin {isn n : Nat} (hl : SeqLinear isn n) {x y : Nat} (hx : x ≤ n) (hy : y ≤ n) :
    seqDiff (isn + x) (isn + y) = (y : Int) - x := by
  obtain ⟨h1, h2⟩ := hl
  unfold seqDiff
  have hM : uint32Max = 4294967295 := rfl
  rw [if_neg (by omega), if_neg (by omega)]
  omega

theorem seqAdd_lin {isn n : Nat} (hl : SeqLinear isn n) {x k : Nat} (hx : x + k ≤ n) :
    seqAdd (isn + x) k = isn + x + k := by
  obtain ⟨h1, _⟩ := hl
  unfold seqAdd; omega

/-! ### slices -/

/-- bytes `a .. b-1` of `B` -/
def slice (B : Bytes) (a b : Nat) : Bytes := (B.drop a).take (b - a)

theorem slice_length {B : Bytes} {a b : Nat} (hb : b ≤ B.length) : (slice B a b).length = b - a := by
  simp [slice]; omega

theorem slice_self (B : Bytes) (a : Nat) : slice B a a = [] := by simp [slice]

theorem slice_zero (B : Bytes) (c : Nat) : slice B 0 c = B.take c := by simp [slice]

theorem slice_append {B : Bytes} {a b c : Nat} (hab : a ≤ b) (hbc : b ≤ c) :
    slice B a b ++ slice B b c = slice B a c := by
  unfold slice
  have e1 : c - a = (b - a) + (c - b) := by omega
  have e2 : List.drop b B = List.drop (b - a) (List.drop a B) := by
    rw [List.drop_drop]; congr 1; omega
  rw [e1, e2, List.take_add]

theorem slice_drop {B : Bytes} {a b k : Nat} : (slice B a b).drop k = slice B (a + k) b := by
  unfold slice
  rw [List.drop_take, List.drop_drop]
  congr 1; omega

theorem slice_take {B : Bytes} {a b k : Nat} (h : a + k ≤ b) : (slice B a b).take k = slice B a (a + k) := by
  unfold slice
  rw [List.take_take]
  congr 1; omega

theorem slice_ne_nil {B : Bytes} {a b : Nat} (hab : a < b) (hb : b ≤ B.length) : slice B a b ≠ [] := by
  intro h
  have := slice_length (B := B) (a := a) hb
  rw [h] at this
  simp at this; omega

/-! ### data segments of a byte string -/

/-- offset (in the byte string of the direction) of the first byte of `p` -/
def pOff (isn : Nat) (p : Pkt) : Nat := p.seq - isn
/-- offset just after the last byte of `p` -/
def pEnd (isn : Nat) (p : Pkt) : Nat := p.seq - isn + p.payload.length

/-- `p` is a pure data segment that carries bytes `pOff .. pEnd-1` of `B` under their sequence
    numbers (first byte of `B` = sequence number `isn`) — an original segment, a retransmission or
    any re-segmentation of `B` -/
def DataPkt (isn : Nat) (B : Bytes) (p : Pkt) : Prop :=
  PlainData p ∧ isn ≤ p.seq ∧ pEnd isn p ≤ B.length ∧ p.payload = slice B (pOff isn p) (pEnd isn p)

instance (isn : Nat) (B : Bytes) (p : Pkt) : Decidable (DataPkt isn B p) := by unfold DataPkt; infer_instance

/-- like `DataPkt`, but the payload may be empty (a pure ACK, a keep-alive): a packet without
    SYN/FIN/RST whose payload — possibly none — is `B[pOff .. pEnd)` at sequence number `isn + pOff` -/
def SegPkt (isn : Nat) (B : Bytes) (p : Pkt) : Prop :=
  (p.syn = false ∧ p.fin = false ∧ p.rst = false) ∧ isn ≤ p.seq ∧ pEnd isn p ≤ B.length ∧
  p.payload = slice B (pOff isn p) (pEnd isn p)

instance (isn : Nat) (B : Bytes) (p : Pkt) : Decidable (SegPkt isn B p) := by unfold SegPkt; infer_instance

theorem DataPkt.seg {isn B p} (h : DataPkt isn B p) : SegPkt isn B p :=
  ⟨⟨h.1.1, h.1.2.1, h.1.2.2.1⟩, h.2⟩

theorem SegPkt.le {isn B p} (_h : SegPkt isn B p) : pOff isn p ≤ pEnd isn p := by
  unfold pOff pEnd; omega

theorem SegPkt.seq_eq {isn B p} (h : SegPkt isn B p) : p.seq = isn + pOff isn p := by
  obtain ⟨_, h2, _, _⟩ := h
  unfold pOff; omega

theorem DataPkt.lt {isn B p} (h : DataPkt isn B p) : pOff isn p < pEnd isn p := by
  obtain ⟨⟨_, _, _, hne⟩, _, _, _⟩ := h
  have : p.payload.length ≠ 0 := fun h0 => hne (List.length_eq_zero_iff.mp h0)
  unfold pOff pEnd; omega

theorem DataPkt.seq_eq {isn B p} (h : DataPkt isn B p) : p.seq = isn + pOff isn p := by
  obtain ⟨_, h2, _, _⟩ := h
  unfold pOff; omega

/-- a data segment that starts after the expected sequence number is only queued -/
theorem asm_ahead {isn : Nat} {B : Bytes} (hl : SeqLinear isn B.length) (st : Stream) (h : Half) (p : Pkt) (c : Nat)
    (hopen : h.closed = false) (hnext : h.nextSeq = some (isn + c)) (hc : c ≤ B.length)
    (hp : SegPkt isn B p) (ha : c < pOff isn p) :
    assembleHalf st h p = (st, (checkOverlap h true p.seq p.payload p.ref false).1) := by
  have hlt := hp.le
  have hseq := hp.seq_eq
  obtain ⟨⟨h1, h2, h3⟩, hge, hend, hpl⟩ := hp
  have hd : seqDiff (isn + c) p.seq > 0 := by
    rw [hseq, seqDiff_lin hl hc (by omega)]; omega
  unfold assembleHalf
  simp [hopen, hnext, hd, h2, h3]

/-- a data segment that starts at or before the expected sequence number: the bytes from the
    expected sequence number on are cleared of overlaps with the queue and delivered -/
theorem asm_behind {isn : Nat} {B : Bytes} (hl : SeqLinear isn B.length) (st : Stream) (h : Half) (p : Pkt) (c : Nat)
    (hopen : h.closed = false) (hnext : h.nextSeq = some (isn + c)) (hc : c ≤ B.length)
    (hp : SegPkt isn B p) (ha : pOff isn p ≤ c) :
    assembleHalf st h p =
      (let r := checkOverlap h false (isn + c) (slice B c (max c (pEnd isn p))) p.ref false
       if r.2.length ≠ 0 then
         let s := sendToConnection st r.1 (isn + c) r.2 p.ref false
         (s.1, { s.2.1 with nextSeq := some s.2.2 })
       else (st, r.1)) := by
  have hlt := hp.le
  have hseq := hp.seq_eq
  obtain ⟨⟨h1, h2, h3⟩, hge, hend, hpl⟩ := hp
  have hd : ¬ seqDiff (isn + c) p.seq > 0 := by
    rw [hseq, seqDiff_lin hl hc (by omega)]; omega
  have hd2 : seqDiff p.seq (isn + c) = (c : Int) - pOff isn p := by
    rw [hseq, seqDiff_lin hl (by omega) hc]
  have hoe : overlapExisting h p.seq p.payload = (slice B c (max c (pEnd isn p)), isn + c) := by
    unfold overlapExisting
    simp only [hnext, hd2]
    split
    · rename_i h0
      have : pOff isn p = c := by omega
      rw [hpl, hseq, this, Nat.max_eq_right (by omega)]
    · rename_i h0
      have hlen : p.payload.length = pEnd isn p - pOff isn p := by unfold pEnd pOff; omega
      have htn : ((c : Int) - (pOff isn p : Int)).toNat = c - pOff isn p := by omega
      rw [htn, hlen]
      split
      · rw [hpl, slice_drop, Nat.max_eq_left (by omega), slice_self]
        have : pOff isn p + (pEnd isn p - pOff isn p) = pEnd isn p := by omega
        rw [this, slice_self]
      · rw [hpl, slice_drop, Nat.max_eq_right (by omega)]
        have : pOff isn p + (c - pOff isn p) = c := by omega
        rw [this]
  unfold assembleHalf
  simp only [hopen, hnext, hd, h1, h2, h3]
  simp [hoe]

end Pk.Proofs.ImportReasm
