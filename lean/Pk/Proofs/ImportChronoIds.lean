/-
  Chronological arrival, part 5: the ID bookkeeping of one import (`classifyWalk`, `assignIDs`,
  `lookupFirst`, `visibleStream`, `visibleIDs`) on its own — no reassembler here.
-/
import Pk.Props.C08
import Pk.Proofs.ImportChronoSort

namespace Pk.Proofs.ImportChrono
open Pk.Import Pk.Props.C08

/-! ### first packets and the lookup -/

/-- key (file, index) of the first packet of a stream -/
def firstKey (s : Stream) : Option (String × Nat) := s.pktsRev.getLast?.map (fun x => PRef.key x.1)

theorem byFirstPacket_some {ix : Index} {f : String} {n id : Nat} (h : ix.byFirstPacket f n = some id) :
    ∃ e ∈ ix.streams, e.1 = id ∧ firstKey e.2 = some (f, n) := by
  unfold Index.byFirstPacket at h
  split at h
  · rename_i e he
    cases h
    refine ⟨e, List.mem_of_find?_eq_some he, rfl, ?_⟩
    have := List.find?_some he
    unfold firstKey
    cases hl : e.2.pktsRev.getLast? with
    | none => simp [hl] at this
    | some x =>
      obtain ⟨r, d⟩ := x
      simp [hl] at this
      simp [PRef.key, this.1, this.2]
  · cases h

theorem byFirstPacket_none {ix : Index} {f : String} {n : Nat} (h : ix.byFirstPacket f n = none) :
    ∀ e ∈ ix.streams, firstKey e.2 ≠ some (f, n) := by
  unfold Index.byFirstPacket at h
  split at h
  · cases h
  · rename_i he
    intro e hm hk
    have := List.find?_eq_none.mp he e hm
    unfold firstKey at hk
    cases hl : e.2.pktsRev.getLast? with
    | none => simp [hl] at hk
    | some x =>
      obtain ⟨r, d⟩ := x
      simp [hl, PRef.key] at hk
      simp [hl, hk.1, hk.2] at this

theorem lookupFirst_some {ex : List Index} {f : String} {n id : Nat} (h : lookupFirst ex f n = some id) :
    ∃ ix ∈ ex, ∃ e ∈ ix.streams, e.1 = id ∧ firstKey e.2 = some (f, n) := by
  induction ex with
  | nil => cases h
  | cons ix rest ih =>
    unfold lookupFirst at h
    split at h
    · rename_i id' hb
      cases h
      obtain ⟨e, he, h1, h2⟩ := byFirstPacket_some hb
      exact ⟨ix, List.mem_cons_self .., e, he, h1, h2⟩
    · obtain ⟨ix', hm, r⟩ := ih h
      exact ⟨ix', List.mem_cons_of_mem _ hm, r⟩

theorem lookupFirst_none {ex : List Index} {f : String} {n : Nat} (h : lookupFirst ex f n = none) :
    ∀ ix ∈ ex, ∀ e ∈ ix.streams, firstKey e.2 ≠ some (f, n) := by
  induction ex with
  | nil => intro ix hm; cases hm
  | cons ix rest ih =>
    unfold lookupFirst at h
    split at h
    · cases h
    · rename_i hb
      intro ix' hm
      rcases List.mem_cons.mp hm with rfl | hm
      · exact byFirstPacket_none hb
      · exact ih h ix' hm

/-- if every stored stream that starts with this packet carries the ID `k`, and there is one, the
    lookup answers `k` -/
theorem lookupFirst_eq {ex : List Index} {f : String} {n k : Nat}
    (hex : ∃ ix ∈ ex, ∃ e ∈ ix.streams, firstKey e.2 = some (f, n))
    (hall : ∀ ix ∈ ex, ∀ e ∈ ix.streams, firstKey e.2 = some (f, n) → e.1 = k) :
    lookupFirst ex f n = some k := by
  cases h : lookupFirst ex f n with
  | none =>
    obtain ⟨ix, hm, e, he, hk⟩ := hex
    exact absurd hk (lookupFirst_none h ix hm e he)
  | some id =>
    obtain ⟨ix, hm, e, he, h1, h2⟩ := lookupFirst_some h
    rw [← h1, hall ix hm e he h2]

/-! ### the walk over the packets of one stream -/

theorem cw_some_nil (nf : List String) (ex : List Index) (id : Nat) (t : Bool) :
    classifyWalk nf ex [] (some id) t = (some id, .added, t) := by simp [classifyWalk]

theorem cw_some_old (nf : List String) (ex : List Index) (id : Nat) (t : Bool) (rest : List (PRef × Bool)) :
    ∀ (old : List (PRef × Bool)), (∀ x ∈ old, x.1.file ∉ nf) →
      classifyWalk nf ex (old ++ rest) (some id) t = classifyWalk nf ex rest (some id) t := by
  intro old
  induction old with
  | nil => intro _; rfl
  | cons x old ih =>
    intro h
    obtain ⟨r, d⟩ := x
    have hn : r.file ∉ nf := h (r, d) (List.mem_cons_self ..)
    rw [List.cons_append]
    simp only [classifyWalk, List.contains_eq_mem, hn, decide_false, Bool.false_eq_true, if_false,
      Option.isSome_some, if_true]
    exact ih (fun y hy => h y (List.mem_cons_of_mem _ hy))

theorem cw_some_new (nf : List String) (ex : List Index) (id : Nat) (t : Bool) (x : PRef × Bool)
    (rest : List (PRef × Bool)) (hx : x.1.file ∈ nf) :
    classifyWalk nf ex (x :: rest) (some id) t = (some id, .updated, true) := by
  obtain ⟨r, d⟩ := x
  simp [classifyWalk, show r.file ∈ nf from hx]

/-- a stream that continues a stored one: old packets (the first of which is found in the stack
    under `k`), then packets of the new captures -/
theorem cw_continued (nf : List String) (ex : List Index) (k : Nat) (r : PRef) (d : Bool)
    (old np : List (PRef × Bool)) (hr : r.file ∉ nf) (hold : ∀ x ∈ old, x.1.file ∉ nf)
    (hnp : ∀ x ∈ np, x.1.file ∈ nf) (hl : lookupFirst ex r.file r.idx = some k) :
    classifyWalk nf ex ((r, d) :: old ++ np) none false =
      (some k, if np = [] then .added else .updated, !np.isEmpty) := by
  rw [List.cons_append]
  simp only [classifyWalk, List.contains_eq_mem, hr, decide_false, Bool.false_eq_true, if_false,
    Option.isSome_none, hl]
  rw [cw_some_old nf ex k false np old hold]
  cases np with
  | nil => simp [cw_some_nil]
  | cons x np => rw [cw_some_new nf ex k false x np (hnp x (List.mem_cons_self ..))]; simp

/-- a stream of the new captures only -/
theorem cw_new (nf : List String) (ex : List Index) : ∀ (ps : List (PRef × Bool)) (t : Bool),
    (∀ x ∈ ps, x.1.file ∈ nf) → classifyWalk nf ex ps none t = (none, .added, t || !ps.isEmpty) := by
  intro ps
  induction ps with
  | nil => intro t _; simp [classifyWalk]
  | cons x ps ih =>
    intro t h
    obtain ⟨r, d⟩ := x
    have hn : r.file ∈ nf := h (r, d) (List.mem_cons_self ..)
    simp only [classifyWalk, List.contains_eq_mem, hn, decide_true, if_true, Option.isSome_none,
      Bool.false_eq_true, if_false]
    rw [ih true (fun y hy => h y (List.mem_cons_of_mem _ hy))]
    simp

/-! ### `assignIDs` -/

def touchedOf (nf : List String) (ex : List Index) (s : Stream) : Bool := (classifyWalk nf ex s.pkts none false).2.2
def idOf (nf : List String) (ex : List Index) (s : Stream) : Option Nat := (classifyWalk nf ex s.pkts none false).1

theorem assignStep_index (nf : List String) (ex : List Index) (a : Assigned) (s : Stream) :
    (assignStep nf ex a s).index =
      if touchedOf nf ex s then a.index ++ [((idOf nf ex s).getD a.next, s)] else a.index := by
  unfold touchedOf idOf assignStep
  rcases h : classifyWalk nf ex s.pkts none false with ⟨id, cat, t⟩
  cases t <;> cases id <;> cases cat <;> simp

theorem assignStep_next' (nf : List String) (ex : List Index) (a : Assigned) (s : Stream) :
    (assignStep nf ex a s).next =
      if touchedOf nf ex s = true ∧ idOf nf ex s = none then a.next + 1 else a.next := by
  unfold touchedOf idOf assignStep
  rcases h : classifyWalk nf ex s.pkts none false with ⟨id, cat, t⟩
  cases t <;> cases id <;> cases cat <;> simp

/-- the loop over the streams when the streams at the positions below `n0` are either untouched or
    found in the stack under their position, and those from `n0` on are new: every touched stream is
    written under its position -/
theorem assign_run (nf : List String) (ex : List Index) (n0 : Nat) : ∀ (l : List Stream) (off : Nat) (a : Assigned),
    a.next = max n0 off →
    (∀ (i : Nat) (s : Stream), l[i]? = some s →
      (off + i < n0 ∧ (touchedOf nf ex s = false ∨ (touchedOf nf ex s = true ∧ idOf nf ex s = some (off + i)))) ∨
      (n0 ≤ off + i ∧ touchedOf nf ex s = true ∧ idOf nf ex s = none)) →
    (l.foldl (assignStep nf ex) a).next = max n0 (off + l.length) ∧
    (∀ e, e ∈ (l.foldl (assignStep nf ex) a).index ↔
      e ∈ a.index ∨ ∃ (i : Nat) (s : Stream), l[i]? = some s ∧ touchedOf nf ex s = true ∧ e = (off + i, s)) := by
  intro l
  induction l with
  | nil =>
    intro off a ha _
    refine ⟨by simpa using ha, ?_⟩
    intro e
    simp
  | cons s l ih =>
    intro off a ha h
    rw [List.foldl_cons]
    have h0 := h 0 s rfl
    have hrest : ∀ (i : Nat) (s' : Stream), l[i]? = some s' →
        (off + 1 + i < n0 ∧ (touchedOf nf ex s' = false ∨ (touchedOf nf ex s' = true ∧ idOf nf ex s' = some (off + 1 + i)))) ∨
        (n0 ≤ off + 1 + i ∧ touchedOf nf ex s' = true ∧ idOf nf ex s' = none) := by
      intro i s' hi
      have := h (i + 1) s' (by simpa using hi)
      have e : off + (i + 1) = off + 1 + i := by omega
      rw [e] at this
      exact this
    have hnext : (assignStep nf ex a s).next = max n0 (off + 1) := by
      rw [assignStep_next']
      rcases h0 with ⟨h1, h2 | ⟨h2, h3⟩⟩ | ⟨h1, h2, h3⟩
      · simp [h2]; omega
      · simp [h3]; omega
      · simp [h2, h3]; omega
    obtain ⟨r1, r2⟩ := ih (off + 1) (assignStep nf ex a s) hnext hrest
    refine ⟨by rw [r1, List.length_cons]; congr 1; omega, ?_⟩
    intro e
    rw [r2 e, assignStep_index]
    constructor
    · rintro (hm | ⟨i, s', hi, ht, he⟩)
      · split at hm
        · rename_i ht
          rcases List.mem_append.mp hm with hm | hm
          · exact Or.inl hm
          · right
            refine ⟨0, s, rfl, ht, ?_⟩
            rw [List.mem_singleton] at hm
            rw [hm]
            rcases h0 with ⟨h1, h2 | ⟨h2, h3⟩⟩ | ⟨h1, h2, h3⟩
            · rw [h2] at ht; cases ht
            · rw [h3]; rfl
            · rw [h3, ha]; simp; omega
        · exact Or.inl hm
      · right
        exact ⟨i + 1, s', by simpa using hi, ht, by rw [he]; congr 1; omega⟩
    · rintro (hm | ⟨i, s', hi, ht, he⟩)
      · left
        split
        · exact List.mem_append_left _ hm
        · exact hm
      · cases i with
        | zero =>
          simp only [List.getElem?_cons_zero, Option.some.injEq] at hi
          subst hi
          left
          rw [if_pos ht]
          apply List.mem_append_right
          rw [List.mem_singleton, he]
          rcases h0 with ⟨h1, h2 | ⟨h2, h3⟩⟩ | ⟨h1, h2, h3⟩
          · rw [h2] at ht; cases ht
          · rw [h3]; rfl
          · rw [h3, ha]; simp; omega
        | succ i =>
          right
          exact ⟨i, s', by simpa using hi, ht, by rw [he]; congr 1; omega⟩

/-! ### what is visible -/

theorem visibleStream_append (stack : List Index) (ix : Index) (id : Nat) :
    visibleStream (stack ++ [ix]) id =
      match ix.streams.find? (fun e => e.1 = id) with
      | some e => some e.2
      | none => visibleStream stack id := by
  unfold visibleStream
  rw [List.foldl_append]
  rfl

theorem visibleStream_fold_mem (id : Nat) (V : Stream) : ∀ (stack : List Index) (acc : Option Stream),
    stack.foldl (fun acc i => match i.streams.find? (fun e => e.1 = id) with
                            | some e => some e.2
                            | none => acc) acc = some V →
    acc = some V ∨ ∃ ix ∈ stack, (id, V) ∈ ix.streams := by
  intro stack
  induction stack with
  | nil => intro acc h; exact Or.inl h
  | cons ix rest ih =>
    intro acc h
    rw [List.foldl_cons] at h
    rcases ih _ h with h1 | ⟨ix', hm, h2⟩
    · split at h1
      · rename_i e he
        right
        refine ⟨ix, List.mem_cons_self .., ?_⟩
        have hm := List.mem_of_find?_eq_some he
        have hid : e.1 = id := by simpa using List.find?_some he
        cases h1
        rw [← hid]; exact hm
      · exact Or.inl h1
    · exact Or.inr ⟨ix', List.mem_cons_of_mem _ hm, h2⟩

theorem visibleStream_mem {stack : List Index} {id : Nat} {V : Stream} (h : visibleStream stack id = some V) :
    ∃ ix ∈ stack, (id, V) ∈ ix.streams := by
  rcases visibleStream_fold_mem id V stack none h with h | h
  · cases h
  · exact h

/-- `find?` by ID in an index whose entries carry their position's stream -/
theorem find_id {l : List (Nat × Stream)} {k : Nat} {s : Stream} (hm : (k, s) ∈ l)
    (huniq : ∀ e ∈ l, e.1 = k → e.2 = s) : l.find? (fun e => e.1 = k) = some (k, s) := by
  cases h : l.find? (fun e => e.1 = k) with
  | none =>
    have := List.find?_eq_none.mp h (k, s) hm
    simp at this
  | some e =>
    have h1 : e.1 = k := by simpa using List.find?_some h
    have h2 := huniq e (List.mem_of_find?_eq_some h) h1
    obtain ⟨a, b⟩ := e
    simp only at h1 h2
    rw [h1, h2]

theorem find_id_none {l : List (Nat × Stream)} {k : Nat} (h : ∀ e ∈ l, e.1 ≠ k) :
    l.find? (fun e => e.1 = k) = none := by
  apply List.find?_eq_none.mpr
  intro e he
  simpa using h e he

/-! ### `visibleIDs` -/

theorem idsInner (l : List (Nat × Stream)) : ∀ (acc : List Nat), acc.Nodup →
    (l.foldl (fun acc e => if acc.contains e.1 then acc else acc ++ [e.1]) acc).Nodup ∧
    ∀ x, x ∈ l.foldl (fun acc e => if acc.contains e.1 then acc else acc ++ [e.1]) acc ↔ x ∈ acc ∨ ∃ e ∈ l, e.1 = x := by
  induction l with
  | nil => intro acc h; exact ⟨h, by simp⟩
  | cons e l ih =>
    intro acc h
    rw [List.foldl_cons]
    by_cases hc : e.1 ∈ acc
    · have : acc.contains e.1 = true := by simpa using hc
      rw [if_pos this]
      obtain ⟨r1, r2⟩ := ih acc h
      refine ⟨r1, ?_⟩
      intro x
      rw [r2 x]
      constructor
      · rintro (h1 | ⟨e', he', h1⟩)
        · exact Or.inl h1
        · exact Or.inr ⟨e', List.mem_cons_of_mem _ he', h1⟩
      · rintro (h1 | ⟨e', he', h1⟩)
        · exact Or.inl h1
        · rcases List.mem_cons.mp he' with rfl | he'
          · left; rw [← h1]; exact hc
          · exact Or.inr ⟨e', he', h1⟩
    · have : ¬ (acc.contains e.1 = true) := by simpa using hc
      rw [if_neg this]
      have hnd : (acc ++ [e.1]).Nodup := by
        rw [List.nodup_append]
        refine ⟨h, by simp, ?_⟩
        intro a ha b hb
        rw [List.mem_singleton] at hb
        intro hab
        exact hc (by rw [← hb, ← hab]; exact ha)
      obtain ⟨r1, r2⟩ := ih (acc ++ [e.1]) hnd
      refine ⟨r1, ?_⟩
      intro x
      rw [r2 x]
      constructor
      · rintro (h1 | ⟨e', he', h1⟩)
        · rcases List.mem_append.mp h1 with h1 | h1
          · exact Or.inl h1
          · rw [List.mem_singleton] at h1
            exact Or.inr ⟨e, List.mem_cons_self .., h1.symm⟩
        · exact Or.inr ⟨e', List.mem_cons_of_mem _ he', h1⟩
      · rintro (h1 | ⟨e', he', h1⟩)
        · exact Or.inl (List.mem_append_left _ h1)
        · rcases List.mem_cons.mp he' with rfl | he'
          · left; rw [← h1]; simp
          · exact Or.inr ⟨e', he', h1⟩

theorem idsOuter (stack : List Index) : ∀ (acc : List Nat), acc.Nodup →
    (stack.foldl (fun acc i => i.streams.foldl (fun acc e => if acc.contains e.1 then acc else acc ++ [e.1]) acc) acc).Nodup ∧
    ∀ x, x ∈ stack.foldl (fun acc i => i.streams.foldl (fun acc e => if acc.contains e.1 then acc else acc ++ [e.1]) acc) acc ↔
      x ∈ acc ∨ ∃ ix ∈ stack, ∃ e ∈ ix.streams, e.1 = x := by
  induction stack with
  | nil => intro acc h; exact ⟨h, by simp⟩
  | cons ix rest ih =>
    intro acc h
    rw [List.foldl_cons]
    obtain ⟨i1, i2⟩ := idsInner ix.streams acc h
    obtain ⟨r1, r2⟩ := ih _ i1
    refine ⟨r1, ?_⟩
    intro x
    rw [r2 x, i2 x]
    constructor
    · rintro ((h1 | ⟨e, he, h1⟩) | ⟨ix', hm, e, he, h1⟩)
      · exact Or.inl h1
      · exact Or.inr ⟨ix, List.mem_cons_self .., e, he, h1⟩
      · exact Or.inr ⟨ix', List.mem_cons_of_mem _ hm, e, he, h1⟩
    · rintro (h1 | ⟨ix', hm, e, he, h1⟩)
      · exact Or.inl (Or.inl h1)
      · rcases List.mem_cons.mp hm with rfl | hm
        · exact Or.inl (Or.inr ⟨e, he, h1⟩)
        · exact Or.inr ⟨ix', hm, e, he, h1⟩

/-- if the IDs stored in the stack are exactly `0 .. n-1`, these are the visible IDs, in order -/
theorem visibleIDs_range (stack : List Index) (n : Nat)
    (h1 : ∀ ix ∈ stack, ∀ e ∈ ix.streams, e.1 < n)
    (h2 : ∀ k, k < n → ∃ ix ∈ stack, ∃ e ∈ ix.streams, e.1 = k) :
    visibleIDs stack = List.range n := by
  unfold visibleIDs
  obtain ⟨nd, mem⟩ := idsOuter stack [] List.nodup_nil
  simp only
  apply List.Perm.eq_of_pairwise (le := fun a b => a ≤ b)
  · intro a b _ _ hab hba
    exact Nat.le_antisymm hab hba
  · have := List.pairwise_mergeSort (le := fun (a b : Nat) => decide (a ≤ b))
      (fun a b c hab hbc => by simp at hab hbc ⊢; omega) (fun a b => by simp; omega)
      (stack.foldl (fun acc i => i.streams.foldl (fun acc e => if acc.contains e.1 then acc else acc ++ [e.1]) acc) [])
    exact this.imp (fun h => by simpa using h)
  · exact List.pairwise_lt_range.imp (fun h => Nat.le_of_lt h)
  · refine (List.mergeSort_perm _ _).trans ?_
    rw [List.perm_ext_iff_of_nodup nd List.nodup_range]
    intro x
    rw [mem x, List.mem_range]
    constructor
    · rintro (h | ⟨ix, hm, e, he, h⟩)
      · cases h
      · rw [← h]; exact h1 ix hm e he
    · intro hx
      exact Or.inr (h2 x hx)

end Pk.Proofs.ImportChrono
