/-
  Helper lemmas for the full C07 statement (`MergeViewEq'` of Pk/Props/C07Full.lean): entry point.

  Layout of the development (Pk/Proofs/MergeFull*.lean):
    Defs       vocabulary: pieces of a stream (`Comp`), `Located`, `compView`, `Reader.WF`, `Reader.Fits`, `WInv`
    Walk       `packetsWalk`/`dataWalk`/`dataRuns`/`copyPackets`/`copySeg` only look at the stream's own records
    Hosts      host group remapping of `AddIndex`
    Imports    import table remapping; file-name section round trip
    AddStream  `AddStream` keeps `WInv`
    View       `Located` ⇒ `Reader.view = compView`; Int-level re-basing
    Copy*      `copyStreams`
    Step*      one `AddIndex`: `WInv` kept, old views kept, new views = views in the added index
    Stack      `StreamByID` / `stackView` as "last record with the id"
    Reopen     `Finalize` + `NewReader` of a writer with `WInv`
    Merge      `index.Merge` as a fold; `merge_stackView`
    Cex        counterexamples to the unrestricted statement
    Witness    a concrete merge of two well-formed files (hypotheses of `MergeViewEq'` jointly satisfiable)
-/
import Pk.Proofs.MergeFullMerge
import Pk.Proofs.MergeFullCex
import Pk.Proofs.MergeFullWitness

namespace Pk.Index
open Pk Pk.Bytes

/-- writers reachable from the empty writer by `AddStream` of well-formed streams and `AddIndex` of well-formed
    index files, below the capacity limits of the format -/
inductive Reach : Writer → Prop
  | empty : Reach {}
  | addStream {w w' : Writer} {s : StreamIn} {b : Bool} : Reach w → s.WF → w.addStream s = .ok (w', b) → w'.Fits → Reach w'
  | addIndex {w w' : Writer} {r : Reader} {b : Bool} : Reach w → r.WF → w.addIndex r = .ok (w', b) → w'.Fits → Reach w'

theorem reach_winv {w : Writer} (h : Reach w) : WInv w := by
  induction h with
  | empty => exact WInv.empty
  | addStream _ hs h hfit ih => exact addStream_winv _ _ _ _ ih hs h hfit
  | addIndex _ hr h hfit ih => exact (addIndex_step_aux _ _ _ _ ih hr h hfit).1

/-- every index file written by a reachable writer is well-formed (so `Reader.WF` is not vacuous: it holds for
    every file the program itself produces, by `AddStream` or by merging) -/
theorem reach_reader_wf {w : Writer} (h : Reach w) (r : Reader) (hr : newReader w.finalize = .ok r) (hfit : r.Fits) : r.WF :=
  reopen_wf w (reach_winv h) (reopen_fits w r hr hfit) r hr

/-- the outputs of a merge of well-formed files are well-formed -/
theorem merge_wf (suf merged : List Reader) (hwf : ∀ r ∈ suf, r.WF) (hm : merge suf = .ok merged)
    (hfit : ∀ m ∈ merged, m.Fits) : ∀ m ∈ merged, m.WF := by
  rcases merge_cases suf merged hm with ⟨rfl, rfl⟩ | ⟨wf, m, hfold, hnr, rfl⟩
  · intro m hm; simp at hm
  · intro m' hm'
    simp only [List.mem_singleton] at hm'
    subst hm'
    have hfitw : wf.Fits := reopen_fits wf m' hnr (hfit m' (by simp))
    obtain ⟨hw, _⟩ := fold_agree suf.reverse {} wf [] hfold WInv.empty (fun r hr => hwf r (by simpa using hr)) hfitw Agree.empty
    exact reopen_wf wf hw hfitw m' hnr

end Pk.Index
