/-
  Chronological arrival, part 6: one import on top of a stack that is in step with the reassembler.
  `StackInv stack R`: the streams `R = reasm (fed so far)` are visible through `stack` under their
  positions as IDs (same packets; the data of the visible version is a prefix of the current data),
  every stored version of ID `k` starts with the first packet of `R[k]`, and the next ID is `R.size`.
  If `R'` extends `R` by packets of the new captures only (`ReasmExt`), the import of `R'` rewrites
  exactly the streams that got a packet, under their old IDs, gives the new streams the next IDs in
  order, and re-establishes the invariant for `R'` (`importArr_visible`, `importArr_inv`).
-/
import Pk.Proofs.ImportChronoIds
import Pk.Proofs.ImportChronoRun

namespace Pk.Proofs.ImportChrono
open Pk.Import Pk.Props.C08 Pk.Proofs.ImportReasm

/-- `importStep` with the streams of the reassembler given -/
def importArr (nf : List String) (R' : Array Stream) (stack : List Index) : List Index :=
  let a := assignIDs nf stack R'.toList (nextStreamID stack)
  if a.index.isEmpty then stack else stack ++ [{ streams := a.index }]

theorem importStep_eq (nf : List String) (fed : List Pkt) (stack : List Index) :
    importStep nf fed stack = importArr nf (reasm fed) stack := rfl

structure StackInv (stack : List Index) (R : Array Stream) : Prop where
  entries : ∀ ix ∈ stack, ∀ e ∈ ix.streams, e.1 < R.size ∧ firstKey e.2 = firstKey R[e.1]!
  vis : ∀ k : Nat, k < R.size → ∃ V, visibleStream stack k = some V ∧ V.pktsRev = R[k]!.pktsRev ∧
    ∃ more, R[k]!.dataRev = more ++ V.dataRev
  next : nextStreamID stack = R.size

theorem StackInv.empty : StackInv [] #[] :=
  ⟨(by intro ix h; cases h), (by intro k h; simp at h), rfl⟩

/-- streams hold packets, and different streams start with different packets -/
structure RGood (R : Array Stream) : Prop where
  ne : ∀ k : Nat, k < R.size → R[k]!.pktsRev ≠ []
  inj : ∀ i j : Nat, i < R.size → j < R.size → firstKey R[i]! = firstKey R[j]! → i = j

theorem getLast?_mem {α} {l : List α} {x : α} (h : l.getLast? = some x) : x ∈ l :=
  List.mem_of_getLast? h

theorem RGood.of_keyDisj {F : List Pkt} {R : Array Stream} (hne : ∀ k : Nat, k < R.size → R[k]!.pktsRev ≠ [])
    (hk : KeyDisj F R) : RGood R := by
  refine ⟨hne, ?_⟩
  intro i j hi hj h
  unfold firstKey at h
  cases h1 : R[i]!.pktsRev.getLast? with
  | none => exact absurd (List.getLast?_eq_none_iff.mp h1) (hne i hi)
  | some x =>
    cases h2 : R[j]!.pktsRev.getLast? with
    | none => exact absurd (List.getLast?_eq_none_iff.mp h2) (hne j hj)
    | some y =>
      rw [h1, h2] at h
      simp only [Option.map_some, Option.some.injEq] at h
      exact hk.disj i j x (getLast?_mem h1) y (getLast?_mem h2) h

theorem getLast?_append_ne {α} (a b : List α) (hb : b ≠ []) : (a ++ b).getLast? = b.getLast? := by
  rw [List.getLast?_append]
  cases h : b.getLast? with
  | none => exact absurd (List.getLast?_eq_none_iff.mp h) hb
  | some y => rfl

/-- the hypotheses of one chronological import -/
structure StepHyp (nf : List String) (G : List Pkt) (stack : List Index) (R R' : Array Stream) : Prop where
  inv : StackInv stack R
  good : RGood R
  ext : ReasmExt G R R'
  hG : ∀ q ∈ G, q.file ∈ nf
  hR : ∀ k : Nat, ∀ x ∈ R[k]!.pktsRev, x.1.file ∉ nf

variable {nf : List String} {G : List Pkt} {stack : List Index} {R R' : Array Stream}

theorem StepHyp.firstKey_keep (H : StepHyp nf G stack R R') (k : Nat) (hk : k < R.size) :
    firstKey R'[k]! = firstKey R[k]! := by
  obtain ⟨np, ⟨hp, _⟩, _⟩ := H.ext.ext k
  unfold firstKey
  rw [hp, getLast?_append_ne _ _ (H.good.ne k hk)]

theorem array_get!_default (R : Array Stream) (k : Nat) (h : R.size ≤ k) : R[k]! = default := by
  simp [h]

theorem StepHyp.lookup (H : StepHyp nf G stack R R') (k : Nat) (hk : k < R.size) (r : PRef) (d : Bool)
    (hl : R[k]!.pktsRev.getLast? = some (r, d)) : lookupFirst stack r.file r.idx = some k := by
  have hfk : firstKey R[k]! = some (r.file, r.idx) := by unfold firstKey; rw [hl]; rfl
  apply lookupFirst_eq
  · obtain ⟨V, hv, hp, _⟩ := H.inv.vis k hk
    obtain ⟨ix, hm, he⟩ := visibleStream_mem hv
    refine ⟨ix, hm, (k, V), he, ?_⟩
    show firstKey V = _
    unfold firstKey
    rw [hp, hl]; rfl
  · intro ix hm e he hke
    obtain ⟨h1, h2⟩ := H.inv.entries ix hm e he
    exact H.good.inj e.1 k h1 hk (by rw [← h2, hke, hfk])

/-- how the walk classifies the stream at position `i` -/
theorem StepHyp.classify (H : StepHyp nf G stack R R') (i : Nat) (hi : i < R'.size) :
    (i < R.size ∧
      ((touchedOf nf stack R'[i]! = false ∧ R'[i]!.pktsRev = R[i]!.pktsRev) ∨
       (touchedOf nf stack R'[i]! = true ∧ idOf nf stack R'[i]! = some i ∧ R'[i]!.pktsRev ≠ R[i]!.pktsRev))) ∨
    (R.size ≤ i ∧ touchedOf nf stack R'[i]! = true ∧ idOf nf stack R'[i]! = none ∧ R'[i]!.pktsRev ≠ R[i]!.pktsRev) := by
  obtain ⟨np, ⟨hp, _⟩, hq⟩ := H.ext.ext i
  have hnpf : ∀ x ∈ np.reverse, x.1.file ∈ nf := by
    intro x hx
    obtain ⟨q, hqG, hqr⟩ := hq x (List.mem_reverse.mp hx)
    rw [← hqr]; exact H.hG q hqG
  by_cases hlt : i < R.size
  · left
    refine ⟨hlt, ?_⟩
    have hne := H.good.ne i hlt
    -- the old packets: first packet, rest
    obtain ⟨x, old, hold⟩ : ∃ x old, R[i]!.pktsRev.reverse = x :: old := by
      cases h : R[i]!.pktsRev.reverse with
      | nil => exact absurd (List.reverse_eq_nil_iff.mp h) hne
      | cons x old => exact ⟨x, old, rfl⟩
    obtain ⟨r, d⟩ := x
    have hlast : R[i]!.pktsRev.getLast? = some (r, d) := by
      rw [← List.head?_reverse, hold]; rfl
    have hmemR : ∀ y ∈ (r, d) :: old, y.1.file ∉ nf := by
      intro y hy
      rw [← hold] at hy
      exact H.hR i y (List.mem_reverse.mp hy)
    have hpk : R'[i]!.pkts = (r, d) :: old ++ np.reverse := by
      unfold Stream.pkts
      rw [hp, List.reverse_append, hold]
    have hcw := cw_continued nf stack i r d old np.reverse (hmemR _ (List.mem_cons_self ..))
      (fun y hy => hmemR y (List.mem_cons_of_mem _ hy)) hnpf (H.lookup i hlt r d hlast)
    rw [← hpk] at hcw
    cases np with
    | nil =>
      left
      refine ⟨?_, by rw [hp]; rfl⟩
      unfold touchedOf; rw [hcw]; rfl
    | cons y np =>
      right
      refine ⟨?_, ?_, ?_⟩
      · unfold touchedOf; rw [hcw]; simp
      · unfold idOf; rw [hcw]
      · rw [hp]
        intro h
        have := congrArg List.length h
        simp at this
        omega
  · right
    have hge : R.size ≤ i := by omega
    have hdef : R[i]!.pktsRev = [] := by rw [array_get!_default R i hge]; rfl
    have hne := H.ext.new i hge hi
    have hpk : R'[i]!.pkts = np.reverse := by
      unfold Stream.pkts
      rw [hp, hdef, List.append_nil]
    have hcw := cw_new nf stack np.reverse false hnpf
    rw [← hpk] at hcw
    have hnpne : np ≠ [] := by
      intro h; rw [hp, hdef, h] at hne; exact hne rfl
    refine ⟨hge, ?_, ?_, by rw [hdef]; exact hne⟩
    · unfold touchedOf; rw [hcw]
      have : R'[i]!.pkts ≠ [] := by rw [hpk]; simpa using hnpne
      simp [this]
    · unfold idOf; rw [hcw]

/-- the stream at position `i` got a packet (or is new) -/
def changed (R R' : Array Stream) (i : Nat) : Prop := R'[i]!.pktsRev ≠ R[i]!.pktsRev

theorem toList_get? (R : Array Stream) (i : Nat) (s : Stream) : R.toList[i]? = some s ↔ i < R.size ∧ s = R[i]! := by
  constructor
  · intro h
    have hi : i < R.size := by
      rcases Nat.lt_or_ge i R.size with h' | h'
      · exact h'
      · rw [List.getElem?_eq_none (by simpa using h')] at h; cases h
    refine ⟨hi, ?_⟩
    have : R.toList[i]? = some R[i]! := by simp [hi]
    rw [this] at h
    exact (Option.some.inj h).symm
  · rintro ⟨hi, rfl⟩
    simp [hi]

/-- what the import writes: exactly the changed streams, under their positions; the next ID -/
theorem StepHyp.assign (H : StepHyp nf G stack R R') :
    (assignIDs nf stack R'.toList (nextStreamID stack)).next = R'.size ∧
    ∀ e, e ∈ (assignIDs nf stack R'.toList (nextStreamID stack)).index ↔
      ∃ i : Nat, i < R'.size ∧ changed R R' i ∧ e = (i, R'[i]!) := by
  have hrun := assign_run nf stack R.size R'.toList 0 { next := nextStreamID stack }
    (by show nextStreamID stack = _; rw [H.inv.next]; simp) ?_
  · obtain ⟨r1, r2⟩ := hrun
    unfold assignIDs
    refine ⟨?_, ?_⟩
    · rw [r1]
      have := H.ext.size_le
      simp; omega
    · intro e
      rw [r2 e]
      constructor
      · rintro (h | ⟨i, s, hi, ht, he⟩)
        · cases h
        · obtain ⟨hlt, rfl⟩ := (toList_get? R' i s).mp hi
          refine ⟨i, hlt, ?_, by simpa using he⟩
          rcases H.classify i hlt with ⟨_, ⟨h1, _⟩ | ⟨_, _, h3⟩⟩ | ⟨_, _, _, h3⟩
          · rw [h1] at ht; cases ht
          · exact h3
          · exact h3
      · rintro ⟨i, hlt, hc, he⟩
        right
        refine ⟨i, R'[i]!, (toList_get? R' i _).mpr ⟨hlt, rfl⟩, ?_, by simpa using he⟩
        rcases H.classify i hlt with ⟨_, ⟨_, h2⟩ | ⟨h1, _, _⟩⟩ | ⟨_, h1, _, _⟩
        · exact absurd h2 hc
        · exact h1
        · exact h1
  · intro i s hi
    obtain ⟨hlt, rfl⟩ := (toList_get? R' i s).mp hi
    rw [Nat.zero_add]
    rcases H.classify i hlt with ⟨h0, ⟨h1, _⟩ | ⟨h1, h2, _⟩⟩ | ⟨h0, h1, h2, _⟩
    · exact Or.inl ⟨h0, Or.inl h1⟩
    · exact Or.inl ⟨h0, Or.inr ⟨h1, h2⟩⟩
    · exact Or.inr ⟨h0, h1, h2⟩

/-- what is visible after the import: the changed streams in their new version, everything else
    as before -/
theorem StepHyp.visible (H : StepHyp nf G stack R R') (k : Nat) :
    (k < R'.size → changed R R' k → visibleStream (importArr nf R' stack) k = some R'[k]!) ∧
    (¬ (k < R'.size ∧ changed R R' k) → visibleStream (importArr nf R' stack) k = visibleStream stack k) := by
  obtain ⟨_, hidx⟩ := H.assign
  unfold importArr
  simp only
  by_cases hemp : (assignIDs nf stack R'.toList (nextStreamID stack)).index.isEmpty = true
  · rw [if_pos hemp]
    refine ⟨?_, fun _ => rfl⟩
    intro hk hc
    have : (k, R'[k]!) ∈ (assignIDs nf stack R'.toList (nextStreamID stack)).index := (hidx _).mpr ⟨k, hk, hc, rfl⟩
    rw [List.isEmpty_iff.mp hemp] at this
    cases this
  · rw [if_neg hemp]
    refine ⟨?_, ?_⟩
    · intro hk hc
      rw [visibleStream_append]
      have hf : (assignIDs nf stack R'.toList (nextStreamID stack)).index.find? (fun e => e.1 = k) = some (k, R'[k]!) := by
        apply find_id ((hidx _).mpr ⟨k, hk, hc, rfl⟩)
        intro e he hek
        obtain ⟨i, _, _, rfl⟩ := (hidx e).mp he
        simp only at hek ⊢
        rw [hek]
      simp only [hf]
    · intro hn
      rw [visibleStream_append]
      have hf : (assignIDs nf stack R'.toList (nextStreamID stack)).index.find? (fun e => e.1 = k) = none := by
        apply find_id_none
        intro e he hek
        obtain ⟨i, hi, hc, rfl⟩ := (hidx e).mp he
        simp only at hek
        subst hek
        exact hn ⟨hi, hc⟩
      simp only [hf]

theorem maxID_le (ix : Index) (m : Nat) (h : ∀ e ∈ ix.streams, e.1 ≤ m) : ix.maxID ≤ m := by
  unfold Index.maxID
  have aux : ∀ (l : List (Nat × Stream)) (m0 : Nat), m0 ≤ m → (∀ e ∈ l, e.1 ≤ m) → l.foldl (fun m e => max m e.1) m0 ≤ m := by
    intro l
    induction l with
    | nil => intro m0 h0 _; exact h0
    | cons x xs ih =>
      intro m0 h0 hl
      rw [List.foldl_cons]
      apply ih
      · have := hl x (List.mem_cons_self ..); omega
      · exact fun e he => hl e (List.mem_cons_of_mem _ he)
  exact aux ix.streams 0 (Nat.zero_le _) h

theorem nextStreamID_append (stack : List Index) (ix : Index) :
    nextStreamID (stack ++ [ix]) = if nextStreamID stack ≤ ix.maxID then ix.maxID + 1 else nextStreamID stack := by
  unfold nextStreamID
  rw [List.foldl_append]
  rfl

theorem StepHyp.next (H : StepHyp nf G stack R R') : nextStreamID (importArr nf R' stack) = R'.size := by
  obtain ⟨_, hidx⟩ := H.assign
  have hsz := H.ext.size_le
  have hnext := H.inv.next
  -- a new stream is always written
  have hnew : R.size < R'.size → (R'.size - 1, R'[R'.size - 1]!) ∈ (assignIDs nf stack R'.toList (nextStreamID stack)).index := by
    intro hlt
    apply (hidx _).mpr
    refine ⟨R'.size - 1, by omega, ?_, rfl⟩
    rcases H.classify (R'.size - 1) (by omega) with ⟨h0, _⟩ | ⟨_, _, _, h3⟩
    · omega
    · exact h3
  unfold importArr
  simp only
  by_cases hemp : (assignIDs nf stack R'.toList (nextStreamID stack)).index.isEmpty = true
  · rw [if_pos hemp, hnext]
    rcases Nat.lt_or_ge R.size R'.size with hlt | hge
    · have := hnew hlt
      rw [List.isEmpty_iff.mp hemp] at this
      cases this
    · omega
  · rw [if_neg hemp, nextStreamID_append]
    have hle : Index.maxID { streams := (assignIDs nf stack R'.toList (nextStreamID stack)).index } ≤ R'.size - 1 := by
      apply maxID_le
      intro e he
      obtain ⟨i, hi, _, rfl⟩ := (hidx e).mp he
      show i ≤ _
      omega
    -- the index is not empty, so there is a stream
    have hpos : 0 < R'.size := by
      cases hl : (assignIDs nf stack R'.toList (nextStreamID stack)).index with
      | nil => rw [hl] at hemp; simp at hemp
      | cons e l =>
        obtain ⟨i, hi, _, _⟩ := (hidx e).mp (by rw [hl]; exact List.mem_cons_self ..)
        omega
    rcases Nat.lt_or_ge R.size R'.size with hlt | hge
    · have hge' := maxID_ge { streams := (assignIDs nf stack R'.toList (nextStreamID stack)).index } _ (hnew hlt)
      have e1 : Index.maxID { streams := (assignIDs nf stack R'.toList (nextStreamID stack)).index } = R'.size - 1 := by
        have : R'.size - 1 ≤ Index.maxID { streams := (assignIDs nf stack R'.toList (nextStreamID stack)).index } := hge'
        omega
      rw [e1]
      split <;> omega
    · split <;> omega

/-- the invariant is re-established for `R'` -/
theorem StepHyp.inv' (H : StepHyp nf G stack R R') : StackInv (importArr nf R' stack) R' := by
  obtain ⟨_, hidx⟩ := H.assign
  have hsz := H.ext.size_le
  refine ⟨?_, ?_, H.next⟩
  · intro ix hm e he
    have hmem : ix ∈ stack ∨ ix.streams = (assignIDs nf stack R'.toList (nextStreamID stack)).index := by
      unfold importArr at hm
      simp only at hm
      split at hm
      · exact Or.inl hm
      · rcases List.mem_append.mp hm with hm | hm
        · exact Or.inl hm
        · rw [List.mem_singleton] at hm
          right; rw [hm]
    rcases hmem with hm | hm
    · obtain ⟨h1, h2⟩ := H.inv.entries ix hm e he
      exact ⟨by omega, by rw [h2, H.firstKey_keep e.1 h1]⟩
    · rw [hm] at he
      obtain ⟨i, hi, _, rfl⟩ := (hidx e).mp he
      exact ⟨hi, rfl⟩
  · intro k hk
    by_cases hc : changed R R' k
    · exact ⟨R'[k]!, (H.visible k).1 hk hc, rfl, [], rfl⟩
    · have hv := (H.visible k).2 (fun h => hc h.2)
      have hlt : k < R.size := by
        rcases H.classify k hk with ⟨h0, _⟩ | ⟨_, _, _, h3⟩
        · exact h0
        · exact absurd h3 hc
      obtain ⟨V, h1, h2, more, h3⟩ := H.inv.vis k hlt
      have heq : R'[k]!.pktsRev = R[k]!.pktsRev := by
        unfold changed at hc
        exact Classical.not_not.mp hc
      obtain ⟨np, ⟨_, more', hd⟩, _⟩ := H.ext.ext k
      exact ⟨V, by rw [hv, h1], by rw [h2, heq], more' ++ more, by rw [hd, h3, List.append_assoc]⟩

/-! ### inside one window: the visible versions are the current streams -/

/-- every stream of `R` is visible, in its current version, under its position -/
def StackCur (stack : List Index) (R : Array Stream) : Prop :=
  ∀ k : Nat, k < R.size → visibleStream stack k = some R[k]!

theorem StepHyp.cur (H : StepHyp nf G stack R R') (hc : StackCur stack R)
    (hframe : ∀ k : Nat, k < R.size → R'[k]!.pktsRev = R[k]!.pktsRev → R'[k]! = R[k]!) :
    StackCur (importArr nf R' stack) R' := by
  intro k hk
  by_cases hch : changed R R' k
  · exact (H.visible k).1 hk hch
  · have hv := (H.visible k).2 (fun h => hch h.2)
    have hlt : k < R.size := by
      rcases H.classify k hk with ⟨h0, _⟩ | ⟨_, _, _, h3⟩
      · exact h0
      · exact absurd h3 hch
    have heq : R'[k]!.pktsRev = R[k]!.pktsRev := by
      unfold changed at hch
      exact Classical.not_not.mp hch
    rw [hv, hc k hlt, hframe k hlt heq]

end Pk.Proofs.ImportChrono
