/-
  Helper lemmas for C09 `settles`, part 1: "tainted" tags.

  A tag is tainted when it, or a tag it (transitively) references, has pending streams.  The number of
  tainted tags is the part of the termination measure that `inheritTagUncertainty` cannot increase:
  the sweep only makes a tag pending when one of its references is pending.
-/
import Pk.Proofs.MgrTagsInherit
namespace Pk.Proofs.MgrTermination
open Pk.Mgr Pk.Proofs.MgrTags

inductive Tainted (T : List (String × Tag)) : String → Prop
  | self (n : String) (t : Tag) : sget T n = some t → t.unc ≠ [] → Tainted T n
  | ref (n : String) (t : Tag) (r : String) : sget T n = some t → r ∈ t.refs → Tainted T r → Tainted T n

open Classical in
/-- number of tainted tags -/
noncomputable def tcount (T : List (String × Tag)) : Nat :=
  (T.map (·.1)).countP (fun n => decide (Tainted T n))

open Classical in
theorem tcount_le_length (T : List (String × Tag)) : tcount T ≤ T.length := by
  unfold tcount
  have := List.countP_le_length (p := fun n => decide (Tainted T n)) (l := T.map (·.1))
  simpa using this

theorem countP_lt_of {α} (p q : α → Bool) (l : List α) (h : ∀ x ∈ l, p x = true → q x = true)
    (x0 : α) (hx : x0 ∈ l) (h1 : q x0 = true) (h2 : p x0 = false) : l.countP p < l.countP q := by
  induction l with
  | nil => cases hx
  | cons a l ih =>
    simp only [List.countP_cons]
    have hle : l.countP p ≤ l.countP q :=
      List.countP_mono_left (fun x hx hp => h x (List.mem_cons_of_mem _ hx) hp)
    rcases List.mem_cons.mp hx with rfl | hx'
    · simp only [h1, h2, if_true]
      simp only [Bool.false_eq_true, if_false]
      omega
    · have := ih (fun x hx hp => h x (List.mem_cons_of_mem _ hx) hp) hx'
      have h3 : p a = true → q a = true := h a List.mem_cons_self
      by_cases hp : p a = true
      · simp only [hp, h3 hp, if_true]; omega
      · have hp' : p a = false := by simpa using hp
        simp only [hp', Bool.false_eq_true, if_false]
        split <;> omega

open Classical in
theorem tcount_mono {T T' : List (String × Tag)} (hk : T'.map (·.1) = T.map (·.1))
    (h : ∀ n, Tainted T' n → Tainted T n) : tcount T' ≤ tcount T := by
  unfold tcount
  rw [hk]
  exact List.countP_mono_left (fun x _ hp => by simpa using h x (by simpa using hp))

open Classical in
theorem tcount_lt {T T' : List (String × Tag)} (hk : T'.map (·.1) = T.map (·.1))
    (h : ∀ n, Tainted T' n → Tainted T n) (n0 : String) (hn0 : n0 ∈ T.map (·.1))
    (h1 : Tainted T n0) (h2 : ¬ Tainted T' n0) : tcount T' < tcount T := by
  unfold tcount
  rw [hk]
  exact countP_lt_of _ _ _ (fun x _ hp => by simpa using h x (by simpa using hp)) n0 hn0
    (by simpa using h1) (by simpa using h2)

/-- every entry of `T'` looks like the entry of `T` under the same name: same references, and pending
    only if the name is tainted in `T` -/
def Below (T T' : List (String × Tag)) : Prop :=
  ∀ n t', sget T' n = some t' → ∃ t, sget T n = some t ∧ t'.refs = t.refs ∧ (t'.unc ≠ [] → Tainted T n)

theorem Below.tainted {T T' : List (String × Tag)} (h : Below T T') : ∀ n, Tainted T' n → Tainted T n := by
  intro n hn
  induction hn with
  | self n t' ht hu =>
    obtain ⟨t, _, _, h3⟩ := h n t' ht
    exact h3 hu
  | ref n t' r ht hr _ ih =>
    obtain ⟨t, h1, h2, _⟩ := h n t' ht
    exact Tainted.ref n t r h1 (h2 ▸ hr) ih

theorem Below.refl (T : List (String × Tag)) : Below T T :=
  fun n t' h => ⟨t', h, rfl, fun hu => Tainted.self n t' h hu⟩

/-! ### keys -/

theorem keys_sins_of_sget {α} (l : List (String × α)) (hs : Sorted l) (k : String) (v v0 : α)
    (h : sget l k = some v0) : (sins k v l).map (·.1) = l.map (·.1) := by
  induction l with
  | nil => simp at h
  | cons p r ih =>
    obtain ⟨k2, v2⟩ := p
    have hs' : Sorted r := (List.pairwise_cons.mp hs).2
    simp only [sins]
    split
    · rename_i hlt
      exfalso
      rw [sget_cons] at h
      split at h
      · rename_i he; subst he; exact absurd hlt (String.lt_irrefl _)
      · have hm := sget_mem_keys _ _ _ h
        have := (List.pairwise_cons.mp hs).1 k hm
        exact absurd (String.lt_trans hlt this) (String.lt_irrefl _)
    · split
      · rename_i he; subst he; rfl
      · rename_i hne
        rw [sget_cons] at h
        have : ¬ k2 = k := fun e => hne e.symm
        simp only [this, if_false] at h
        simp only [List.map_cons, ih hs' h]

/-! ### the inherit sweep does not taint anything -/

theorem union_eq_nil (a b : IdSet) (h : union a b = []) : a = [] ∧ b = [] := by
  constructor
  · cases a with
    | nil => rfl
    | cons x xs =>
      have : x ∈ union (x :: xs) b := by simp
      rw [h] at this; cases this
  · cases b with
    | nil => rfl
    | cons x xs =>
      have : x ∈ union a (x :: xs) := by simp
      rw [h] at this; cases this

theorem ne_nil_of_mem {l : List Nat} {x : Nat} (h : x ∈ l) : l ≠ [] := by
  intro e; rw [e] at h; cases h

theorem exists_mem_of_ne_nil {l : List Nat} (h : l ≠ []) : ∃ x, x ∈ l := by
  cases l with
  | nil => exact absurd rfl h
  | cons x xs => exact ⟨x, by simp⟩

theorem inheritOne_unc_ne (all : Nat) (T : List (String × Tag)) (t : Tag)
    (h : (inheritOne all T t).unc ≠ []) : t.unc ≠ [] ∨ ∃ r ∈ t.refs, tagUnc T r ≠ [] := by
  unfold inheritOne at h
  split at h
  · exact Or.inl h
  · split at h
    · rename_i hany
      right
      obtain ⟨r, hr, hne⟩ := List.any_eq_true.mp hany
      refine ⟨r, by simp [hr], ?_⟩
      simpa [List.isEmpty_iff] using hne
    · obtain ⟨x, hx⟩ := exists_mem_of_ne_nil h
      simp only [mem_foldl_union] at hx
      rcases hx with hx | ⟨r, hr, hx⟩
      · exact Or.inl (ne_nil_of_mem hx)
      · exact Or.inr ⟨r, by simp [hr], ne_nil_of_mem hx⟩

theorem inheritOne_refs' (all : Nat) (T : List (String × Tag)) (t : Tag) :
    (inheritOne all T t).refs = t.refs := by
  have := inheritOne_refs all T t
  unfold Tag.refs; rw [this.1, this.2]

theorem tagUnc_ne {T : List (String × Tag)} {r : String} (h : tagUnc T r ≠ []) :
    ∃ t, sget T r = some t ∧ t.unc ≠ [] := by
  unfold tagUnc at h
  cases hr : sget T r with
  | none => simp [hr] at h
  | some t => exact ⟨t, rfl, by simpa [hr] using h⟩

structure SweepInv (T0 : List (String × Tag)) (acc : List (String × Tag) × List String) : Prop where
  sorted : Sorted acc.1
  keys : acc.1.map (·.1) = T0.map (·.1)
  below : Below T0 acc.1

theorem passStep_sweep (all : Nat) (T0 : List (String × Tag)) (acc) (nt : String × Tag)
    (h : SweepInv T0 acc) : SweepInv T0 (passStep all acc nt) := by
  unfold passStep
  split
  · exact h
  · split
    · exact h
    · rename_i t ht
      split
      · refine ⟨sorted_sins _ _ _ h.sorted, (keys_sins_of_sget _ h.sorted _ _ _ ht).trans h.keys, ?_⟩
        intro n t' hn
        dsimp only at hn
        rw [sget_sins] at hn
        split at hn
        · rename_i he
          subst he
          cases hn
          obtain ⟨t0, h1, h2, h3⟩ := h.below _ t ht
          refine ⟨t0, h1, (inheritOne_refs' _ _ _).trans h2, ?_⟩
          intro hu
          rcases inheritOne_unc_ne _ _ _ hu with hu | ⟨r, hr, hu⟩
          · exact h3 hu
          · obtain ⟨tr, htr, hur⟩ := tagUnc_ne hu
            obtain ⟨_, _, _, h6⟩ := h.below r tr htr
            exact Tainted.ref _ t0 r h1 (h2 ▸ hr) (h6 hur)
        · exact h.below n t' hn
      · exact h

theorem inherit_sweep (s : St) (hs : Sorted s.tags) :
    (inherit s).tags.map (·.1) = s.tags.map (·.1) ∧ Below s.tags (inherit s).tags := by
  obtain ⟨res, h, _⟩ := inheritLoop_inv s.all (fun acc => SweepInv s.tags acc)
    (passStep_sweep s.all s.tags) (s.tags.length + 1) s.tags [] ⟨hs, rfl, Below.refl _⟩
  exact ⟨h.keys, h.below⟩

theorem tcount_inherit (s : St) (hs : Sorted s.tags) : tcount (inherit s).tags ≤ tcount s.tags :=
  tcount_mono (inherit_sweep s hs).1 (inherit_sweep s hs).2.tainted

theorem length_of_keys {α β} {l : List (String × α)} {l' : List (String × β)}
    (h : l'.map (·.1) = l.map (·.1)) : l'.length = l.length := by
  have := congrArg List.length h
  simpa using this

end Pk.Proofs.MgrTermination
