/- Helper lemmas for C12 at the stream level: membership characterisations of `visibleIn`, `nextID`. -/
import Pk.Model.RecoverIdx
namespace Pk.Proofs.RecoverIdx
open Pk.Recover

theorem serves_iff (f : IndexFile) (id : Nat) :
    serves f id = true ↔ f.complete = true ∧ id ∈ f.ids := by
  simp [serves]

/-- `n` is the name of a complete file of `d` holding `id` -/
def Holds (d : List IndexFile) (id n : Nat) : Prop := ∃ f ∈ d, serves f id = true ∧ f.name = n

theorem holds_cons (f : IndexFile) (fs : List IndexFile) (id n : Nat) :
    Holds (f :: fs) id n ↔ (serves f id = true ∧ f.name = n) ∨ Holds fs id n := by
  simp [Holds]

theorem holds_append (a b : List IndexFile) (id n : Nat) :
    Holds (a ++ b) id n ↔ Holds a id n ∨ Holds b id n := by
  simp only [Holds, List.mem_append]
  constructor
  · rintro ⟨f, hf | hf, h⟩
    · exact Or.inl ⟨f, hf, h⟩
    · exact Or.inr ⟨f, hf, h⟩
  · rintro (⟨f, hf, h⟩ | ⟨f, hf, h⟩)
    · exact ⟨f, Or.inl hf, h⟩
    · exact ⟨f, Or.inr hf, h⟩

theorem visibleIn_none_holds (d : List IndexFile) (id : Nat) (h : visibleIn d id = none) :
    ∀ n, ¬ Holds d id n := by
  intro n hn
  induction d with
  | nil => obtain ⟨f, hf, _⟩ := hn; cases hf
  | cons f fs ih =>
    simp only [visibleIn] at h
    split at h
    · split at h <;> cases h
    · rename_i hs
      rcases (holds_cons f fs id n).mp hn with ⟨h1, _⟩ | h2
      · exact hs h1
      · exact ih h h2

theorem visibleIn_some_iff (d : List IndexFile) (id n : Nat) :
    visibleIn d id = some n ↔ Holds d id n ∧ ∀ m, Holds d id m → m ≤ n := by
  induction d generalizing n with
  | nil => simp [visibleIn, Holds]
  | cons f fs ih =>
    simp only [visibleIn, holds_cons]
    cases hs : serves f id with
    | false =>
      simp only [Bool.false_eq_true, if_false, false_and, false_or]
      exact ih n
    | true =>
      simp only [if_true, true_and]
      cases hv : visibleIn fs id with
      | none =>
        have hnone : ∀ m, ¬ Holds fs id m := visibleIn_none_holds fs id hv
        simp only [Option.some.injEq]
        constructor
        · rintro rfl
          exact ⟨Or.inl rfl, fun m hm => by
            rcases hm with rfl | hm
            · exact Nat.le_refl _
            · exact absurd hm (hnone m)⟩
        · rintro ⟨h | h, _⟩
          · exact h
          · exact absurd h (hnone n)
      | some k =>
        have ⟨hk1, hk2⟩ := (ih k).mp hv
        simp only [Option.some.injEq]
        constructor
        · rintro rfl
          refine ⟨?_, ?_⟩
          · by_cases hle : k ≤ f.name
            · left; omega
            · right
              have : max f.name k = k := by omega
              rw [this]; exact hk1
          · rintro m (rfl | hm)
            · omega
            · have := hk2 m hm; omega
        · rintro ⟨h | h, hmax⟩
          · have := hmax k (Or.inr hk1); omega
          · have h1 := hk2 n h
            have h2 := hmax k (Or.inr hk1)
            have h3 := hmax f.name (Or.inl rfl)
            omega

theorem visibleIn_none_iff (d : List IndexFile) (id : Nat) :
    visibleIn d id = none ↔ ∀ n, ¬ Holds d id n := by
  constructor
  · exact visibleIn_none_holds d id
  · intro h
    cases hv : visibleIn d id with
    | none => rfl
    | some k => exact absurd ((visibleIn_some_iff d id k).mp hv).1 (h k)

/-- `visibleIn` depends only on the set of names of the complete files holding the id -/
theorem visibleIn_congr (d d' : List IndexFile) (id : Nat)
    (h : ∀ n, Holds d id n ↔ Holds d' id n) : visibleIn d id = visibleIn d' id := by
  cases hv : visibleIn d id with
  | none =>
    symm
    rw [visibleIn_none_iff] at hv ⊢
    exact fun n hn => hv n ((h n).mpr hn)
  | some k =>
    symm
    rw [visibleIn_some_iff] at hv ⊢
    exact ⟨(h k).mp hv.1, fun m hm => hv.2 m ((h m).mpr hm)⟩

theorem visibleIn_isSome_iff (d : List IndexFile) (id : Nat) :
    (visibleIn d id).isSome = true ↔ ∃ n, Holds d id n := by
  cases hv : visibleIn d id with
  | none =>
    simp only [Option.isSome_none, Bool.false_eq_true, false_iff]
    rintro ⟨n, hn⟩
    exact (visibleIn_none_iff d id).mp hv n hn
  | some k =>
    simp only [Option.isSome_some, true_iff]
    exact ⟨k, ((visibleIn_some_iff d id k).mp hv).1⟩

/-! ### nextID -/

theorem idsNext_le (ids : List Nat) (b : Nat) : idsNext ids ≤ b ↔ ∀ i ∈ ids, i < b := by
  induction ids with
  | nil => simp [idsNext]
  | cons i is ih =>
    simp only [idsNext, List.mem_cons, forall_eq_or_imp, ← ih]
    omega

theorem nextID_le (d : List IndexFile) (b : Nat) :
    nextID d ≤ b ↔ ∀ f ∈ d, f.complete = true → ∀ i ∈ f.ids, i < b := by
  induction d with
  | nil => simp [nextID]
  | cons f fs ih =>
    simp only [nextID, List.mem_cons, forall_eq_or_imp, ← ih]
    cases hc : f.complete with
    | false => simp
    | true =>
      simp only [if_true, forall_const, ← idsNext_le]
      omega

theorem lt_nextID (d : List IndexFile) (f : IndexFile) (hf : f ∈ d) (hc : f.complete = true)
    (i : Nat) (hi : i ∈ f.ids) : i < nextID d :=
  (nextID_le d (nextID d)).mp (Nat.le_refl _) f hf hc i hi

/-- every id held by a complete file of `d` is held by a complete file of `d'` ⇒ `nextID` grows -/
theorem nextID_mono (d d' : List IndexFile)
    (h : ∀ f ∈ d, f.complete = true → ∀ i ∈ f.ids, ∃ g ∈ d', g.complete = true ∧ i ∈ g.ids) :
    nextID d ≤ nextID d' := by
  rw [nextID_le]
  intro f hf hc i hi
  obtain ⟨g, hg, hgc, hig⟩ := h f hf hc i hi
  exact lt_nextID d' g hg hgc i hig

theorem nextID_congr (d d' : List IndexFile)
    (h : ∀ i, (∃ f ∈ d, f.complete = true ∧ i ∈ f.ids) ↔ (∃ g ∈ d', g.complete = true ∧ i ∈ g.ids)) :
    nextID d = nextID d' := by
  apply Nat.le_antisymm
  · exact nextID_mono d d' fun f hf hc i hi => (h i).mp ⟨f, hf, hc, hi⟩
  · exact nextID_mono d' d fun f hf hc i hi => (h i).mpr ⟨f, hf, hc, hi⟩

/-- an id is held by some complete file iff it is visible -/
theorem held_iff_visible (d : List IndexFile) (i : Nat) :
    (∃ f ∈ d, f.complete = true ∧ i ∈ f.ids) ↔ (visibleIn d i).isSome = true := by
  rw [visibleIn_isSome_iff]
  constructor
  · rintro ⟨f, hf, hc, hi⟩
    exact ⟨f.name, f, hf, (serves_iff f i).mpr ⟨hc, hi⟩, rfl⟩
  · rintro ⟨_, f, hf, hs, _⟩
    exact ⟨f, hf, (serves_iff f i).mp hs⟩

end Pk.Proofs.RecoverIdx
