/-
  Helper lemmas for C09 `acyclic_step`: the tag graph keeps a topological order.
-/
import Pk.Proofs.MgrTerminationCycle
import Pk.Proofs.MgrReachGraph
namespace Pk.Proofs.MgrTermination
open Pk.Mgr Pk.Proofs.MgrTags
open Pk.Proofs.MgrReach (F2 W WEq SameV SameFJ RSpec)

/-- same names, same references -/
def FQ (L L' : List (String × Tag)) : Prop := ∀ n, (sget L' n).map F2 = (sget L n).map F2

theorem FQ.refl (L) : FQ L L := fun _ => rfl
theorem FQ.trans {A B C} (h1 : FQ A B) (h2 : FQ B C) : FQ A C := fun n => (h2 n).trans (h1 n)
theorem FQ.of_eq {L L'} (h : L' = L) : FQ L L' := h ▸ FQ.refl L
theorem FQ.sameV {P} {L} {s s' : St} (q : FQ L s.tags) (h : SameV P s s') : FQ L s'.tags := q.trans h.w.fac
theorem FQ.eq {L} {s s' : St} (q : FQ L s.tags) (h : s'.tags = s.tags) : FQ L s'.tags := h ▸ q
theorem FQ.rspec {A D} {L L'} (h : RSpec A D L L') : FQ L L' := by
  intro n
  cases hg : sget L n with
  | none => rw [(h n).1 hg]
  | some t =>
    obtain ⟨t', h1, h2, h3, _⟩ := (h n).2 t hg
    rw [h1]; simp [F2, h2, h3]

theorem refs_of_F2 {t t' : Tag} (h : F2 t' = F2 t) : t'.refs = t.refs := by
  simp only [F2, Prod.mk.injEq] at h
  unfold Tag.refs; rw [h.1, h.2]

theorem FQ.get {L L'} (h : FQ L L') {n t} (hg : sget L n = some t) : ∃ t', sget L' n = some t' ∧ t'.refs = t.refs := by
  have := h n
  rw [hg] at this
  cases hg' : sget L' n with
  | none => rw [hg'] at this; cases this
  | some t' =>
    rw [hg'] at this
    simp only [Option.map_some, Option.some.injEq] at this
    exact ⟨t', rfl, refs_of_F2 this⟩

theorem FQ.get' {L L'} (h : FQ L L') {n t'} (hg : sget L' n = some t') : ∃ t, sget L n = some t ∧ t'.refs = t.refs := by
  have := h n
  rw [hg] at this
  cases hg' : sget L n with
  | none => rw [hg'] at this; cases this
  | some t =>
    rw [hg'] at this
    simp only [Option.map_some, Option.some.injEq] at this
    exact ⟨t, rfl, refs_of_F2 this⟩

theorem good_transfer {L L' R} (h : GoodOrder L R)
    (h1 : ∀ n ∈ R, ∀ t, (n, t) ∈ L → ∃ t', (n, t') ∈ L' ∧ t'.refs = t.refs) : GoodOrder L' R := by
  induction h with
  | nil => exact GoodOrder.nil
  | cons n t R hm hn hr _ ih =>
    obtain ⟨t', hm', hrefs⟩ := h1 n List.mem_cons_self t hm
    exact GoodOrder.cons n t' R hm' hn (hrefs ▸ hr) (ih (fun x hx => h1 x (List.mem_cons_of_mem _ hx)))

theorem topo_of_fq {L L'} (hs : Sorted L) (h : FQ L L') (ht : Topo L) : Topo L' := by
  obtain ⟨R, hg, hall⟩ := ht
  refine ⟨R, good_transfer hg ?_, ?_⟩
  · intro n _ t hm
    obtain ⟨t', h1, h2⟩ := h.get (MgrConv.mem_sget_of_sorted _ hs _ _ hm)
    exact ⟨t', MgrConv.sget_mem _ _ _ h1, h2⟩
  · intro k hk
    obtain ⟨t', ht'⟩ := sget_of_mem_keys _ _ hk
    obtain ⟨t, h1, _⟩ := h.get' ht'
    exact hall k (sget_mem_keys _ _ _ h1)

/-- a new tag whose references exist -/
theorem topo_add {L} (hs : Sorted L) (name : String) (nt : Tag) (hnew : sget L name = none)
    (hrefs : ∀ r ∈ nt.refs, (sget L r).isSome = true) (ht : Topo L) : Topo (sins name nt L) := by
  obtain ⟨R, hg, hall⟩ := ht
  have hnk : name ∉ L.map (·.1) := fun hk => by
    obtain ⟨v, hv⟩ := sget_of_mem_keys _ _ hk
    rw [hnew] at hv; cases hv
  refine ⟨name :: R, GoodOrder.cons name nt R ?_ ?_ ?_ (good_transfer hg ?_), ?_⟩
  · exact MgrConv.sget_mem _ _ _ (by rw [sget_sins]; simp)
  · exact fun h => hnk (hg.keys name h)
  · intro r hr
    have := hrefs r hr
    obtain ⟨v, hv⟩ := Option.isSome_iff_exists.mp this
    exact hall r (sget_mem_keys _ _ _ hv)
  · intro n hn t hm
    have hne : name ≠ n := fun e => hnk (e ▸ hg.keys n hn)
    refine ⟨t, MgrConv.sget_mem _ _ _ ?_, rfl⟩
    rw [sget_sins, if_neg hne]
    exact MgrConv.mem_sget_of_sorted _ hs _ _ hm
  · intro k hk
    rw [mem_keys_sins] at hk
    rcases hk with rfl | hk
    · exact List.mem_cons_self
    · exact List.mem_cons_of_mem _ (hall k hk)

/-- removing a tag nobody references -/
theorem topo_del {L} (hs : Sorted L) (name : String)
    (hno : ∀ n t, sget L n = some t → n ≠ name → name ∉ t.refs) (ht : Topo L) : Topo (sdel L name) := by
  obtain ⟨R, hg, hall⟩ := ht
  have hg' : GoodOrder (sdel L name) (R.filter (· != name)) := by
    clear hall
    induction hg with
    | nil => exact GoodOrder.nil
    | cons n t R hm hn hr _ ih =>
      simp only [List.filter_cons]
      split
      · rename_i hne
        have hne' : n ≠ name := by simpa using hne
        have hsg := MgrConv.mem_sget_of_sorted _ hs _ _ hm
        refine GoodOrder.cons n t _ ?_ ?_ ?_ ih
        · apply MgrConv.sget_mem
          rw [sget_sdel, if_neg (fun e => hne' e.symm)]
          exact hsg
        · intro h; exact hn (List.mem_filter.mp h).1
        · intro r hr'
          have : r ≠ name := fun e => hno n t hsg hne' (e ▸ hr')
          exact List.mem_filter.mpr ⟨hr r hr', by simpa using this⟩
      · exact ih
  refine ⟨_, hg', ?_⟩
  intro k hk
  obtain ⟨v, hv⟩ := sget_of_mem_keys _ _ hk
  rw [sget_sdel] at hv
  split at hv
  · cases hv
  · rename_i hne
    have : k ≠ name := fun e => hne e.symm
    exact List.mem_filter.mpr ⟨hall k (sget_mem_keys _ _ _ hv), by simpa using this⟩

/-! ## events that do not edit the graph -/

theorem fq_jobTail {L} (X : St) (st : Started) (q : FQ L X.tags) : FQ L (jobTail X st).tags := by
  unfold jobTail
  refine (FQ.sameV (P := MgrReach.PT) ?_ (MgrReach.SameV_startMerge _))
  refine (FQ.sameV (P := MgrReach.PT) ?_ (MgrReach.SameV_startConverter _))
  exact q.eq (MgrSettle.startTagging_tags _ _)

theorem fq_importDone (s : St) (p u : Nat) (c : List (Nat × List Nat)) (a b d : List Nat) (st : Started) :
    FQ s.tags (step s (.importDone p u c a b d) st).1.tags := by
  rw [step_importDone_eq]
  split
  · exact FQ.refl _
  · next jnext held _ =>
    apply fq_jobTail
    have h1 : FQ s.tags (release { s with all := jnext + u, jImport := none } held).tags :=
      FQ.sameV (P := MgrReach.PT) (s := { s with all := jnext + u, jImport := none }) (FQ.refl _)
        (MgrReach.SameV_release _ _)
    have h2 : FQ s.tags (idApply (release { s with all := jnext + u, jImport := none } held) (jnext + u) c
        (ofList a) (ofList b) (ofList d)).tags := by
      unfold idApply
      split
      · exact h1
      · refine FQ.sameV (P := MgrReach.PT) ?_ (MgrReach.SameV_invalidateConverters _ _)
        refine FQ.sameV (P := MgrReach.PT) ?_ (MgrReach.SameV_invalidateConverters _ _)
        refine FQ.sameV (P := MgrReach.PT) ?_ (MgrReach.SameV_invalidateTags _ _ _ _)
        exact h1.eq rfl
    unfold idQueue
    split
    · exact h2.eq rfl
    · exact h2.eq rfl

theorem fq_tagDone (s : St) (name : String) (result : List Nat) (st : Started)
    (hf : ∀ n snap held ot, s.jTag = some (n, snap, held) → sget s.tags n = some ot → ot.defn = snap.defn →
      ot.mainT = snap.mainT ∧ ot.subT = snap.subT) :
    FQ s.tags (step s (.tagDone name result) st).1.tags := by
  rw [step_tagDone_eq]
  split
  · exact FQ.refl _
  · next jn snap held hj =>
    split
    · exact FQ.refl _
    · next hne =>
      have hjn : jn = name := by simpa using hne
      subst hjn
      refine FQ.sameV (P := MgrReach.PT) ?_ (MgrReach.SameV_release _ _)
      apply fq_jobTail
      refine FQ.eq (s := tdPublish { s with jTag := none } jn snap (ofList result)) ?_ rfl
      unfold tdPublish
      split
      · next ot hot =>
        split
        · next hd =>
          have hdg : ot.defn = snap.defn ∧ ot.gen = snap.gen := by simpa using hd
          have hd' : ot.defn = snap.defn := hdg.1
          have hsf := hf jn snap held ot hj hot hd'
          have hW : W (tdTag snap ot (ofList result)) = W ot := by
            simp only [W, tdTag, hsf.1, hsf.2]
          have h1 : FQ s.tags (setTag (qConv { s with jTag := none } (tdTag snap ot (ofList result)).convs
              (tdTag snap ot (ofList result)).mat) jn (tdTag snap ot (ofList result))).tags := by
            refine FQ.sameV (P := MgrReach.PT) (s := { s with jTag := none }) (FQ.refl _)
              (MgrReach.SameV.trans (MgrReach.SameV_qConv _ _ _) (MgrReach.SameV_setTag (t := ot) ?_ hW hd'.symm))
            rw [(qConv_same _ _ _).1]; exact hot
          unfold tdInval
          split
          · exact h1
          · exact FQ.sameV (P := MgrReach.PT) h1 (MgrReach.SameV_invalidateTags _ _ _ _)
        · exact FQ.refl _
      · exact FQ.refl _

theorem fq_mergeDone (s : St) (merged : List (Nat × List Nat)) (st : Started) :
    FQ s.tags (step s (.mergeDone merged) st).1.tags := by
  rw [step_mergeDone_eq]
  split
  · exact FQ.refl _
  · next off held _ =>
    refine FQ.sameV (P := MgrReach.PT) ?_ (MgrReach.SameV_release _ _)
    refine FQ.sameV (P := MgrReach.PT) ?_ (MgrReach.SameV_startMerge _)
    refine FQ.eq (s := mdApply { s with jMerge := none } off held merged) ?_ rfl
    exact FQ.eq (s := s) (FQ.refl _) (mdApply_same _ _ _ _).1

theorem fq_convertDone (s : St) (st : Started) : FQ s.tags (step s .convertDone st).1.tags := by
  rw [step_convertDone_eq]
  split
  · exact FQ.refl _
  · refine FQ.sameV (P := MgrReach.PT) ?_ (MgrReach.SameV_release _ _)
    refine FQ.sameV (P := MgrReach.PT) ?_ (MgrReach.SameV_startConverter _)
    refine FQ.eq ?_ (MgrSettle.startTagging_tags _ _)
    refine FQ.sameV (P := MgrReach.PT) ?_ (MgrReach.SameV_inherit _)
    refine FQ.sameV (P := MgrReach.PT) ?_ (MgrReach.SameV_foldl _ (fun s p => MgrReach.SameV_cdMark s p) _ _)
    exact FQ.refl _

/-- a helper that keeps the graph view and the key order; the running tagging job may change
    (`detachConv` may start one through `outputDropped`, so it is no `SameV` any more) -- CHANGED (dropped): new -/
structure SameW (s s' : St) : Prop where
  w : WEq s.tags s'.tags
  sorted : Sorted s.tags → Sorted s'.tags

theorem SameW.refl (s : St) : SameW s s := ⟨MgrReach.WEq.refl _, id⟩
theorem SameW.trans {a b c : St} (h1 : SameW a b) (h2 : SameW b c) : SameW a c :=
  ⟨h1.w.trans h2.w, fun h => h2.sorted (h1.sorted h)⟩
theorem SameW.of_sameV {P} {s s' : St} (h : SameV P s s') : SameW s s' := ⟨h.w, h.sorted⟩
theorem SameW.of_eq {s s' : St} (h : s'.tags = s.tags) : SameW s s' := ⟨h ▸ MgrReach.WEq.refl _, fun hs => h ▸ hs⟩
theorem FQ.sameW {L} {s s' : St} (q : FQ L s.tags) (h : SameW s s') : FQ L s'.tags := q.trans h.w.fac

theorem SameW_foldl {β} (f : St → β → St) (hf : ∀ s x, SameW s (f s x)) (l : List β) (s : St) :
    SameW s (l.foldl f s) := by
  induction l generalizing s with
  | nil => exact SameW.refl s
  | cons a l ih => exact (hf s a).trans (ih _)

theorem W_odF (all : Nat) (t : Tag) : W (odF all t) = W t ∧ (odF all t).defn = t.defn := by
  unfold odF
  split <;> exact ⟨rfl, rfl⟩

/-- `outputDropped` keeps all references (CHANGED (dropped): new) -/
theorem SameW_outputDropped (s : St) (choice : Option String) : SameW s (outputDropped s choice) := by
  rw [outputDropped_eq]
  split
  · refine SameW.trans ?_ (SameW.of_eq (MgrSettle.startTagging_tags _ _))
    refine SameW.of_sameV (P := MgrReach.PT) ?_
    refine MgrReach.SameV.trans ?_ (MgrReach.SameV_invDuring _ _)
    refine MgrReach.SameV.trans (b := { s with tags := s.tags.map fun p => (p.1, odF s.all p.2) }) ?_
      (MgrReach.SameV_inherit _)
    exact MgrReach.SameV_map s (fun _ t => odF s.all t) (fun _ t => (W_odF _ t).1) (fun _ t => (W_odF _ t).2) _ rfl rfl
  · exact SameW.refl _

-- CHANGED (dropped): replaces the use of `MgrReach.SameV_detachConv` (the tagging job may change)
theorem SameW_detachConv (s : St) (n c : String) (choice : Option String) : SameW s (detachConv s n c choice) := by
  unfold detachConv
  split
  · exact SameW.refl _
  · next t ht =>
    have h : SameW s (setTag s n { t with convs := t.convs.filter (· != c) }) :=
      SameW.of_sameV (MgrReach.SameV_setTag (P := MgrReach.PT) ht rfl rfl)
    simp only []
    split
    · refine SameW.trans (h.trans ?_) (SameW_outputDropped _ _)
      exact SameW.of_eq rfl
    · exact h.trans (SameW.of_eq rfl)

theorem fq_updConv (s : St) (name : String) (convs : List String) (st : Started) :
    FQ s.tags (step s (.updConv name convs) st).1.tags := by
  rw [step_updConv_eq]
  split
  · exact FQ.refl _
  · split
    · exact FQ.refl _
    · unfold ucAttach ucDetach
      refine FQ.sameV (P := MgrReach.PT) ?_ (MgrReach.SameV_startConverter _)
      refine FQ.sameV (P := MgrReach.PT) ?_ (MgrReach.SameV_foldl _ (fun s c => MgrReach.SameV_attachConv s name c) _ _)
      exact FQ.sameW (FQ.refl _) (SameW_foldl _ (fun s c => SameW_detachConv s name c st.tag) _ _)

theorem fq_markTail (s : St) (name : String) (a d : List Nat) (st : Started) :
    FQ s.tags (markTail (markUpdate s name a d) st).1.tags := by
  unfold markTail
  refine FQ.sameV (P := MgrReach.PT) ?_ (MgrReach.SameV_startConverter _)
  refine FQ.eq ?_ (MgrSettle.startTagging_tags _ _)
  exact FQ.sameV (FQ.refl _) (MgrReach.SameV_markUpdate s name a d)

theorem fq_markAdd (s : St) (name : String) (ids : List Nat) (st : Started) :
    FQ s.tags (step s (.markAdd name ids) st).1.tags := by
  rw [step_markAdd_eq]
  split
  · exact FQ.refl _
  · split
    · exact FQ.refl _
    · split
      · exact FQ.refl _
      · split
        · exact FQ.refl _
        · exact fq_markTail s name ids [] st

theorem fq_markDel (s : St) (name : String) (ids : List Nat) (st : Started) :
    FQ s.tags (step s (.markDel name ids) st).1.tags := by
  rw [step_markDel_eq]
  split
  · exact FQ.refl _
  · split
    · exact FQ.refl _
    · split
      · exact FQ.refl _
      · split
        · exact FQ.refl _
        · exact fq_markTail s name [] ids st

theorem fq_simple (s : St) (e : Ev) (st : Started)
    (he : match e with | .nop | .importPcaps _ | .updColor _ _ | .viewOpen _ | .viewRelease _ => True | _ => False) :
    FQ s.tags (step s e st).1.tags := by
  cases e with
  | nop => exact FQ.refl _
  | importPcaps names =>
    unfold step
    simp only []
    split
    · exact FQ.refl _
    · split
      · exact FQ.of_eq rfl
      · exact FQ.of_eq rfl
  | updColor name color =>
    unfold step
    simp only []
    split
    · exact FQ.refl _
    · next t ht =>
      split
      · exact FQ.refl _
      · exact FQ.sameV (P := MgrReach.PT) (FQ.refl _) (MgrReach.SameV_setTag (t' := { t with color := color }) ht rfl rfl)
  | viewOpen k =>
    unfold step
    simp only []
    split
    · exact FQ.refl _
    · exact FQ.of_eq rfl
  | viewRelease k =>
    unfold step
    simp only []
    split
    · exact FQ.refl _
    · exact FQ.sameV (P := MgrReach.PT) (s := { s with views := ndel s.views k }) (FQ.refl _) (MgrReach.SameV_release _ _)
  | _ => exact he.elim


/-! ## events that edit the graph -/

theorem topo_atFinish (s : St) (name : String) (nt' : Tag) (isMark : Bool) (st : Started) (hs : Sorted s.tags)
    (hnew : sget s.tags name = none) (hrefs : ∀ r ∈ nt'.refs, (sget s.tags r).isSome = true)
    (ht : Topo s.tags) : Topo (atFinish s name nt' isMark st).tags := by
  unfold atFinish
  have hbase : (if isMark = true then setTag s name nt' else startTagging (setTag s name nt') st.tag).tags
      = sins name nt' s.tags := by
    split
    · rfl
    · rw [MgrSettle.startTagging_tags]; rfl
  have h1 := topo_add hs name nt' hnew hrefs ht
  refine topo_of_fq (sorted_sins _ _ _ hs) ?_ h1
  have := MgrReach.RSpec_foldAdd name nt'.refs
    (if isMark = true then setTag s name nt' else startTagging (setTag s name nt') st.tag)
  rw [hbase] at this
  exact FQ.rspec this

theorem topo_addTag (s : St) (name color defn : String) (f : Facts) (st : Started) (hs : Sorted s.tags)
    (ht : Topo s.tags) : Topo (step s (.addTag name color defn f) st).1.tags := by
  rw [step_addTag_eq]
  split
  rename_i typ sub isMark _
  split
  · exact ht
  · split
    · exact ht
    · split
      · exact ht
      · split
        · exact ht
        · split
          · exact ht
          · rename_i hsome
            split
            · exact ht
            · rename_i hany
              have hp1 : (atPair s (atTagG s.ngen color defn f isMark) f isMark).1 = s := by
                unfold atPair; split <;> rfl
              have hp2 : (atPair s (atTagG s.ngen color defn f isMark) f isMark).2.refs = (atTag color defn f isMark).refs := by
                unfold atPair; split <;> rfl
              rw [hp1]
              apply topo_atFinish { s with ngen := s.ngen + 1 } name _ isMark st hs
              · cases hg : sget s.tags name with
                | none => rfl
                | some v => rw [hg] at hsome; simp at hsome
              · intro r hr
                rw [hp2] at hr
                cases hg : sget s.tags r with
                | some v => rfl
                | none =>
                  exfalso
                  apply hany
                  exact List.any_eq_true.mpr ⟨r, hr, by simp [hg]⟩
              · exact ht

theorem noref_of_refBy (s : St) (name : String) (t : Tag) (_hs : Sorted s.tags)
    (hrb : ∀ nt ∈ s.tags, ∀ r ∈ nt.2.refs, ∀ tr, sget s.tags r = some tr → nt.1 ∈ tr.refBy)
    (hg : sget s.tags name = some t) (he : t.refBy = []) :
    ∀ n t0, sget s.tags n = some t0 → name ∉ t0.refs := by
  intro n t0 h0 hr
  have := hrb (n, t0) (MgrConv.sget_mem _ _ _ h0) name hr t hg
  rw [he] at this; cases this

theorem topo_delTag (s : St) (name : String) (st : Started) (hs : Sorted s.tags)
    (hrb : ∀ nt ∈ s.tags, ∀ r ∈ nt.2.refs, ∀ tr, sget s.tags r = some tr → nt.1 ∈ tr.refBy)
    (ht : Topo s.tags) : Topo (step s (.delTag name) st).1.tags := by
  rw [step_delTag_eq]
  split
  · exact ht
  · next t hg =>
    split
    · exact ht
    · rename_i hrbe
      have he : t.refBy = [] := by simpa using hrbe
      have hno := noref_of_refBy s name t hs hrb hg he
      unfold dtApply
      have hD : SameW s (t.convs.foldl (fun s c => detachConv s name c st.tag) s) :=
        SameW_foldl _ (fun s c => SameW_detachConv s name c st.tag) _ _
      have hq : FQ s.tags (t.convs.foldl (fun s c => detachConv s name c st.tag) s).tags := (FQ.refl _).sameW hD
      have hsD := hD.sorted hs
      have h1 : Topo (t.convs.foldl (fun s c => detachConv s name c st.tag) s).tags := topo_of_fq hs hq ht
      have h2 : Topo (sdel (t.convs.foldl (fun s c => detachConv s name c st.tag) s).tags name) := by
        apply topo_del hsD name _ h1
        intro n t1 hg1 _ hr
        obtain ⟨t0, hg0, hrefs⟩ := hq.get' hg1
        exact hno n t0 hg0 (hrefs ▸ hr)
      refine topo_of_fq (sorted_sdel _ _ hsD) ?_ h2
      exact FQ.rspec (MgrReach.RSpec_foldDel name t.refs
        { (t.convs.foldl (fun s c => detachConv s name c st.tag) s) with
          tags := sdel (t.convs.foldl (fun s c => detachConv s name c st.tag) s).tags name })

theorem topo_updName (s : St) (name new : String) (st : Started) (hs : Sorted s.tags)
    (hrb : ∀ nt ∈ s.tags, ∀ r ∈ nt.2.refs, ∀ tr, sget s.tags r = some tr → nt.1 ∈ tr.refBy)
    (hre : ∀ nt ∈ s.tags, ∀ r ∈ nt.2.refs, (sget s.tags r).isSome = true)
    (ht : Topo s.tags) : Topo (step s (.updName name new) st).1.tags := by
  rw [step_updName_eq]
  split
  · exact ht
  · next t hg =>
    split
    · exact ht
    · split
      · exact ht
      · split
        · exact ht
        · split
          · exact ht
          · rename_i hnew
            split
            · exact ht
            · rename_i hrbe
              have he : t.refBy = [] := by simpa using hrbe
              have hno := noref_of_refBy s name t hs hrb hg he
              have hnew' : sget s.tags new = none := by
                cases h : sget s.tags new with
                | none => rfl
                | some v => rw [h] at hnew; simp at hnew
              have hne : name ≠ new := fun e => by rw [e, hnew'] at hg; cases hg
              unfold unApply
              have h1 : Topo (sdel s.tags name) := topo_del hs name (fun n t0 h0 _ => hno n t0 h0) ht
              have h2 : Topo (sins new t (sdel s.tags name)) := by
                apply topo_add (sorted_sdel _ _ hs) new t _ _ h1
                · rw [sget_sdel]; split
                  · rfl
                  · exact hnew'
                · intro r hr
                  have hrn : name ≠ r := fun e => hno name t hg (e ▸ hr)
                  rw [sget_sdel, if_neg hrn]
                  exact hre (name, t) (MgrConv.sget_mem _ _ _ hg) r hr
              refine topo_of_fq (sorted_sins _ _ _ (sorted_sdel _ _ hs)) ?_ h2
              exact FQ.rspec (MgrReach.RSpec_foldRen name new hne t.refs
                { s with tags := sins new t (sdel s.tags name) })

theorem sget_replace (L : List (String × Tag)) (name : String) (nt : Tag) (n : String) :
    sget (L.map fun (n, t) => if n == name then (n, nt) else (n, t)) n =
      (sget L n).map (fun t => if n == name then nt else t) := by
  have : (fun (p : String × Tag) => match p with | (n, t) => if n == name then (n, nt) else (n, t)) =
      fun p => (p.1, (fun k t => if k == name then nt else t) p.1 p.2) := by
    funext p
    obtain ⟨k, t⟩ := p
    dsimp only
    split <;> rfl
  rw [this]
  exact sget_map (fun k t => if k == name then nt else t) L n

theorem topo_updQuery (s : St) (name defn : String) (f : Facts) (st : Started) (hs : Sorted s.tags)
    (ht : Topo s.tags) : Topo (step s (.updQuery name defn f) st).1.tags := by
  rw [step_updQuery_eq]
  split
  · exact ht
  · split
    · exact ht
    · split
      · exact ht
      · split
        · exact ht
        · next t hg =>
          split
          · exact ht
          · split
            · exact ht
            · rename_i hcyc
              split
              · exact ht
              · -- the table the cycle check looked at
                have hcyc' : createsTagCycle s.tags name (uqTag defn f) = false := by simpa using hcyc
                unfold createsTagCycle at hcyc'
                simp only [bne_eq_false_iff_eq] at hcyc'
                have hkeys : (s.tags.map fun (n, t) => if n == name then (n, uqTag defn f) else (n, t)).map (·.1)
                    = s.tags.map (·.1) := by
                  rw [List.map_map]
                  apply List.map_congr_left
                  rintro ⟨k, v⟩ _
                  simp only [Function.comp]
                  split <;> rfl
                have hsT : Sorted (s.tags.map fun (n, t) => if n == name then (n, uqTag defn f) else (n, t)) := by
                  unfold Sorted; rw [hkeys]; exact hs
                have hT := topo_of_full _ _ hcyc'
                refine topo_of_fq hsT ?_ hT
                unfold uqApply
                have hA : FQ s.tags (uqRefs s name t.refs (uqTag2 (uqTag defn f) t s.all).refs).tags := by
                  unfold uqRefs
                  exact (FQ.rspec (MgrReach.RSpec_foldDel name _ s)).trans (FQ.rspec (MgrReach.RSpec_foldAdd name _ _))
                have hB : FQ (s.tags.map fun (n, t) => if n == name then (n, uqTag defn f) else (n, t))
                    (setTag (uqRefs s name t.refs (uqTag2 (uqTag defn f) t s.all).refs) name
                      (uqTag2 (uqTag defn f) t s.all)).tags := by
                  intro n
                  simp only [setTag]
                  rw [sget_sins, sget_replace]
                  by_cases hn : name = n
                  · subst hn
                    simp [hg, F2, uqTag2]
                  · have hn' : (n == name) = false := by simpa using fun e : n = name => hn e.symm
                    rw [if_neg hn, hA n]
                    simp [hn']
                refine FQ.sameV (P := MgrReach.PT) ?_ (MgrReach.SameV_startConverter _)
                refine FQ.eq ?_ (MgrSettle.startTagging_tags _ _)
                unfold uqInv
                refine FQ.eq ?_ (MgrSettle.invalidatedDuringTaggingJob_tags _ _)
                exact FQ.sameV (P := MgrReach.PT) hB (MgrReach.SameV_inherit _)

end Pk.Proofs.MgrTermination
