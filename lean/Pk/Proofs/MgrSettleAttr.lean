/- Simp attribute collecting the frame lemmas of the service-loop helpers (C09 proofs). -/
import Lean.Meta.Tactic.Simp.RegisterCommand
register_simp_attr c09_frame
