/-
  Soundness of the memoised MaxLength walk of `AcceptedLength` (`maxGo` in Pk/Model/RegexProg.lean):
  for EVERY program and every state of the `cache` map reachable by the walk itself, the returned
  value is `MaxUint` ("unbounded") or an upper bound for the length of every accepted word.
  The memo is sound for the maximum because "unbounded" is an upper bound in every context;
  (for the minimum it was not — see `finding_F23`).
-/
import Pk.Model.RegexProg
import Pk.Proofs.RegexProg

namespace Pk.RegexProg
open Pk.Regex

/-- `v` is an upper bound for `x`, `MAXU` standing for "unbounded" -/
def UB (x v : Nat) : Prop := MAXU ≤ v ∨ x ≤ v

/-- every cached value is (at most `MAXU` and) an upper bound for the words accepted from its key -/
def CacheOK (p : Prog) (c : Cache Nat) : Prop :=
  ∀ e v, c[e]? = some (some v) → v ≤ MAXU ∧ ∀ pre w post, Accepts p e pre w post → UB w.length v

/-- every word accepted from `entry` consists of at most `r` bytes followed by a word accepted from `pos` -/
def PathInv (p : Prog) (entry pos r : Nat) : Prop :=
  ∀ pre w post, Accepts p entry pre w post →
    ∃ pre' w' post', Accepts p pos pre' w' post' ∧ UB w.length (r + w'.length)

theorem cacheOK_set {p : Prog} {c : Cache Nat} (hc : CacheOK p c) (entry v : Nat) (hv : v ≤ MAXU)
    (hb : ∀ pre w post, Accepts p entry pre w post → UB w.length v) :
    CacheOK p (c.setIfInBounds entry (some v)) := by
  intro e x hx
  rw [Array.getElem?_setIfInBounds] at hx
  split at hx
  · rename_i heq
    split at hx
    · simp at hx; subst hx; subst heq; exact ⟨hv, hb⟩
    · simp at hx
  · exact hc e x hx

theorem inc_le {r : Nat} (h : r ≤ MAXU) : inc r ≤ MAXU := by
  unfold inc; split <;> omega

theorem satAdd_le (a b : Nat) : satAdd a b ≤ MAXU := by
  rw [satAdd_eq]; unfold MAXU; split <;> omega

theorem maxGo_sound (p : Prog) :
    ∀ (fuel : Nat) (c : Cache Nat) (entry pos r : Nat) (seen : List Nat) (res : Nat) (c' : Cache Nat),
      maxGo p fuel c entry pos r seen = some (res, c') →
      CacheOK p c → r ≤ MAXU → PathInv p entry pos r →
      CacheOK p c' ∧ res ≤ MAXU ∧ ∀ pre w post, Accepts p pos pre w post → UB (r + w.length) res := by
  intro fuel
  induction fuel with
  | zero => intro c entry pos r seen res c' h; simp [maxGo] at h
  | succ fuel ih =>
    intro c entry pos r seen res c' h hc hr hpi
    unfold maxGo at h
    cases hi : p.inst[pos]? with
    | none => simp [hi] at h
    | some i =>
      simp only [hi] at h
      by_cases hrune : i.op.isRune = true
      · simp only [hrune, if_true] at h
        have hpi' : PathInv p entry i.out (inc r) := by
          intro pre w post hacc
          obtain ⟨pre', w', post', hacc', hub⟩ := hpi pre w post hacc
          cases hacc' with
          | match_ _ i' _ _ hi' hop => rw [hi] at hi'; cases hi'; simp [hop, Op.isRune] at hrune
          | rune _ i' b _ w'' _ hi' _ hm hrest =>
            rw [hi] at hi'; cases hi'
            refine ⟨_, w'', _, hrest, ?_⟩
            unfold UB inc MAXU at *
            simp at hub
            split <;> omega
          | pass _ i' _ _ _ hi' hop _ => rw [hi] at hi'; cases hi'; rcases hop with hop | hop <;> simp [hop, Op.isRune] at hrune
          | empty _ i' _ _ _ hi' hop _ _ => rw [hi] at hi'; cases hi'; simp [hop, Op.isRune] at hrune
          | altOut _ i' _ _ _ hi' hop _ => rw [hi] at hi'; cases hi'; cases hop' : i.op <;> simp [hop', Op.isRune, Op.isAlt] at hrune hop
          | altArg _ i' _ _ _ hi' hop _ => rw [hi] at hi'; cases hi'; cases hop' : i.op <;> simp [hop', Op.isRune, Op.isAlt] at hrune hop
        obtain ⟨h1, h2, h3⟩ := ih _ _ _ _ _ _ _ h hc (inc_le hr) hpi'
        refine ⟨h1, h2, ?_⟩
        intro pre w post hacc
        cases hacc with
        | match_ _ i' _ _ hi' hop => rw [hi] at hi'; cases hi'; simp [hop, Op.isRune] at hrune
        | rune _ i' b _ w'' _ hi' _ hm hrest =>
          rw [hi] at hi'; cases hi'
          have := h3 _ _ _ hrest
          unfold UB inc MAXU at *
          simp
          split at this <;> omega
        | pass _ i' _ _ _ hi' hop _ => rw [hi] at hi'; cases hi'; rcases hop with hop | hop <;> simp [hop, Op.isRune] at hrune
        | empty _ i' _ _ _ hi' hop _ _ => rw [hi] at hi'; cases hi'; simp [hop, Op.isRune] at hrune
        | altOut _ i' _ _ _ hi' hop _ => rw [hi] at hi'; cases hi'; cases hop' : i.op <;> simp [hop', Op.isRune, Op.isAlt] at hrune hop
        | altArg _ i' _ _ _ hi' hop _ => rw [hi] at hi'; cases hi'; cases hop' : i.op <;> simp [hop', Op.isRune, Op.isAlt] at hrune hop
      · simp only [hrune] at h
        by_cases hpass : i.op.isPass = true
        · simp only [hpass, if_true] at h
          have hpi' : PathInv p entry i.out r := by
            intro pre w post hacc
            obtain ⟨pre', w', post', hacc', hub⟩ := hpi pre w post hacc
            cases hacc' with
            | match_ _ i' _ _ hi' hop => rw [hi] at hi'; cases hi'; simp [hop, Op.isPass] at hpass
            | rune _ i' b _ w'' _ hi' hr' _ _ => rw [hi] at hi'; cases hi'; exact absurd hr' hrune
            | pass _ i' _ _ _ hi' _ hrest => rw [hi] at hi'; cases hi'; exact ⟨_, _, _, hrest, hub⟩
            | empty _ i' _ _ _ hi' _ _ hrest => rw [hi] at hi'; cases hi'; exact ⟨_, _, _, hrest, hub⟩
            | altOut _ i' _ _ _ hi' hop _ => rw [hi] at hi'; cases hi'; cases hop' : i.op <;> simp [hop', Op.isPass, Op.isAlt] at hpass hop
            | altArg _ i' _ _ _ hi' hop _ => rw [hi] at hi'; cases hi'; cases hop' : i.op <;> simp [hop', Op.isPass, Op.isAlt] at hpass hop
          obtain ⟨h1, h2, h3⟩ := ih _ _ _ _ _ _ _ h hc hr hpi'
          refine ⟨h1, h2, ?_⟩
          intro pre w post hacc
          cases hacc with
          | match_ _ i' _ _ hi' hop => rw [hi] at hi'; cases hi'; simp [hop, Op.isPass] at hpass
          | rune _ i' b _ w'' _ hi' hr' _ _ => rw [hi] at hi'; cases hi'; exact absurd hr' hrune
          | pass _ i' _ _ _ hi' _ hrest => rw [hi] at hi'; cases hi'; exact h3 _ _ _ hrest
          | empty _ i' _ _ _ hi' _ _ hrest => rw [hi] at hi'; cases hi'; exact h3 _ _ _ hrest
          | altOut _ i' _ _ _ hi' hop _ => rw [hi] at hi'; cases hi'; cases hop' : i.op <;> simp [hop', Op.isPass, Op.isAlt] at hpass hop
          | altArg _ i' _ _ _ hi' hop _ => rw [hi] at hi'; cases hi'; cases hop' : i.op <;> simp [hop', Op.isPass, Op.isAlt] at hpass hop
        · simp only [hpass] at h
          -- a bound for the words accepted from `pos` gives the cache entry for `entry`
          have entryBound : ∀ res, res ≤ MAXU → (∀ pre w post, Accepts p pos pre w post → UB (r + w.length) res) →
              ∀ pre w post, Accepts p entry pre w post → UB w.length res := by
            intro res hres hb pre w post hacc
            obtain ⟨pre', w', post', hacc', hub⟩ := hpi pre w post hacc
            have := hb _ _ _ hacc'
            unfold UB MAXU at *
            omega
          by_cases halt : i.op.isAlt = true
          · simp only [halt, if_true] at h
            by_cases hseen : seen.contains pos = true
            · simp only [hseen, if_true] at h
              simp at h
              obtain ⟨rfl, rfl⟩ := h
              refine ⟨cacheOK_set hc _ _ (Nat.le_refl _) (fun _ _ _ _ => Or.inl (Nat.le_refl _)), Nat.le_refl _, fun _ _ _ _ => Or.inl (Nat.le_refl _)⟩
            · simp only [hseen] at h
              simp only [Bool.false_eq_true, if_false] at h
              have final : ∀ (r1 r2 : Nat) (c2 : Cache Nat), CacheOK p c2 → r1 ≤ MAXU → r2 ≤ MAXU →
                  (∀ pre w post, Accepts p i.out pre w post → UB w.length r1) →
                  (∀ pre w post, Accepts p i.arg pre w post → UB w.length r2) →
                  CacheOK p (c2.setIfInBounds entry (some (satAdd r (Nat.max r1 r2)))) ∧
                  satAdd r (Nat.max r1 r2) ≤ MAXU ∧
                  ∀ pre w post, Accepts p pos pre w post → UB (r + w.length) (satAdd r (Nat.max r1 r2)) := by
                intro r1 r2 c2 hc2 hr1 hr2 hb1 hb2
                have hb : ∀ pre w post, Accepts p pos pre w post →
                    UB (r + w.length) (satAdd r (Nat.max r1 r2)) := by
                  intro pre w post hacc
                  have key : UB w.length (Nat.max r1 r2) := by
                    cases hacc with
                    | match_ _ i' _ _ hi' hop => rw [hi] at hi'; cases hi'; simp [hop, Op.isAlt] at halt
                    | rune _ i' b _ w'' _ hi' hr' _ _ => rw [hi] at hi'; cases hi'; exact absurd hr' hrune
                    | pass _ i' _ _ _ hi' hop _ => rw [hi] at hi'; cases hi'; rcases hop with hop | hop <;> simp [hop, Op.isAlt] at halt
                    | empty _ i' _ _ _ hi' hop _ _ => rw [hi] at hi'; cases hi'; simp [hop, Op.isAlt] at halt
                    | altOut _ i' _ _ _ hi' _ hrest =>
                      rw [hi] at hi'; cases hi'
                      have := hb1 _ _ _ hrest
                      unfold UB MAXU at *
                      simp [Nat.max_def]; split <;> omega
                    | altArg _ i' _ _ _ hi' _ hrest =>
                      rw [hi] at hi'; cases hi'
                      have := hb2 _ _ _ hrest
                      unfold UB MAXU at *
                      simp [Nat.max_def]; split <;> omega
                  have hm : Nat.max r1 r2 ≤ MAXU := Nat.max_le.2 ⟨hr1, hr2⟩
                  rw [satAdd_eq]
                  unfold UB MAXU at *
                  split <;> omega
                exact ⟨cacheOK_set hc2 _ _ (satAdd_le _ _) (entryBound _ (satAdd_le _ _) hb), satAdd_le _ _, hb⟩
              -- a fresh sub-evaluation is sound
              have fresh : ∀ (c0 : Cache Nat) (e v : Nat) (c1 : Cache Nat), CacheOK p c0 →
                  maxGo p fuel c0 e e 0 (seen ++ [pos]) = some (v, c1) →
                  CacheOK p c1 ∧ v ≤ MAXU ∧ ∀ pre w post, Accepts p e pre w post → UB w.length v := by
                intro c0 e v c1 hc0 hs
                have := ih _ _ _ _ _ _ _ hs hc0 (by unfold MAXU; omega)
                  (fun pre w post hacc => ⟨pre, w, post, hacc, Or.inr (by omega)⟩)
                refine ⟨this.1, this.2.1, ?_⟩
                intro pre w post hacc
                simpa using this.2.2 pre w post hacc
              -- second sub-evaluation, given the first
              have second : ∀ (r1 : Nat) (c1 : Cache Nat), CacheOK p c1 → r1 ≤ MAXU →
                  (∀ pre w post, Accepts p i.out pre w post → UB w.length r1) →
                  (match (match c1[i.arg]? with
                      | some (some v) => some (v, c1)
                      | some none => maxGo p fuel c1 i.arg i.arg 0 (seen ++ [pos])
                      | none => none) with
                    | none => none
                    | some (r2, c2) =>
                      some (satAdd r (r1.max r2), Array.setIfInBounds c2 entry (some (satAdd r (r1.max r2))))) =
                    some (res, c') →
                  CacheOK p c' ∧ res ≤ MAXU ∧ ∀ pre w post, Accepts p pos pre w post → UB (r + w.length) res := by
                intro r1 c1 hc1 hr1 hb1 h
                cases hca : c1[i.arg]? with
                | none => simp [hca] at h
                | some o =>
                  cases o with
                  | some v =>
                    simp [hca] at h
                    obtain ⟨rfl, rfl⟩ := h
                    exact final r1 v c1 hc1 hr1 (hc1 _ _ hca).1 hb1 (hc1 _ _ hca).2
                  | none =>
                    simp only [hca] at h
                    cases hg : maxGo p fuel c1 i.arg i.arg 0 (seen ++ [pos]) with
                    | none => simp [hg] at h
                    | some rc =>
                      obtain ⟨r2, c2⟩ := rc
                      simp [hg] at h
                      obtain ⟨rfl, rfl⟩ := h
                      obtain ⟨hc2, hr2, hb2⟩ := fresh c1 i.arg r2 c2 hc1 hg
                      exact final r1 r2 c2 hc2 hr1 hr2 hb1 hb2
              cases hco : c[i.out]? with
              | none => simp [hco] at h
              | some o =>
                cases o with
                | some v =>
                  simp only [hco] at h
                  exact second v c hc (hc _ _ hco).1 (hc _ _ hco).2 h
                | none =>
                  simp only [hco] at h
                  cases hg : maxGo p fuel c i.out i.out 0 (seen ++ [pos]) with
                  | none => simp [hg] at h
                  | some rc =>
                    obtain ⟨r1, c1⟩ := rc
                    simp only [hg] at h
                    obtain ⟨hc1, hr1, hb1⟩ := fresh c i.out r1 c1 hc hg
                    exact second r1 c1 hc1 hr1 hb1 h
          · simp only [halt] at h
            by_cases hm : i.op = .match_
            · simp [hm] at h
              obtain ⟨rfl, rfl⟩ := h
              have hb : ∀ pre w post, Accepts p pos pre w post → UB (r + w.length) r := by
                intro pre w post hacc
                cases hacc with
                | match_ _ i' _ _ hi' hop => exact Or.inr (by simp)
                | rune _ i' b _ w'' _ hi' hr' _ _ => rw [hi] at hi'; cases hi'; exact absurd hr' hrune
                | pass _ i' _ _ _ hi' hop _ => rw [hi] at hi'; cases hi'; rcases hop with hop | hop <;> simp [hop] at hm
                | empty _ i' _ _ _ hi' hop _ _ => rw [hi] at hi'; cases hi'; simp [hop] at hm
                | altOut _ i' _ _ _ hi' hop _ => rw [hi] at hi'; cases hi'; exact absurd hop halt
                | altArg _ i' _ _ _ hi' hop _ => rw [hi] at hi'; cases hi'; exact absurd hop halt
              exact ⟨cacheOK_set hc _ _ hr (entryBound _ hr hb), hr, hb⟩
            · simp [hm] at h
              obtain ⟨rfl, rfl⟩ := h
              exact ⟨cacheOK_set hc _ _ (Nat.le_refl _) (fun _ _ _ _ => Or.inl (Nat.le_refl _)), Nat.le_refl _, fun _ _ _ _ => Or.inl (Nat.le_refl _)⟩

theorem maxWalk_sound_aux (p : Prog) (m : Nat) (hm : maxWalk p = some m)
    (pre w post : List Byte) (hacc : Accepts p p.start pre w post) : m = MAXU ∨ w.length ≤ m := by
  unfold maxWalk at hm
  cases h : maxGo p p.fuel (Array.replicate p.inst.size none) p.start p.start 0 [] with
  | none => simp [h] at hm
  | some rc =>
    obtain ⟨res, c'⟩ := rc
    simp [h] at hm
    subst hm
    have hc : CacheOK p (Array.replicate p.inst.size none) := by
      intro e v hv
      rw [Array.getElem?_replicate] at hv
      split at hv <;> simp at hv
    have := (maxGo_sound p _ _ _ _ _ _ _ _ h hc (by unfold MAXU; omega)
      (fun pre w post hacc => ⟨pre, w, post, hacc, Or.inr (by omega)⟩)).2.2 pre w post hacc
    unfold UB at this
    rcases this with h' | h'
    · have := (maxGo_sound p _ _ _ _ _ _ _ _ h hc (by unfold MAXU; omega)
        (fun pre w post hacc => ⟨pre, w, post, hacc, Or.inr (by omega)⟩)).2.1
      exact Or.inl (Nat.le_antisymm this h')
    · exact Or.inr (by simpa using h')

end Pk.RegexProg
