/-
  Helper lemmas for C11More: the start-up validation `loadTags` of a saved tag table.
-/
import Pk.Model.TagGraph
import Pk.Proofs.TagGraph
import Pk.Props.C11

namespace Pk.Proofs.TagGraphMore
open Pk.TagGraph Pk.Proofs.TagGraph

/-! ### `loadTags` in named pieces -/

/-- one step of the table construction of `loadTags` -/
def buildStep (all : List Nat) (acc : Option TagMap) (s : Saved) : Option TagMap :=
  match acc with
  | none => none
  | some m =>
    if s.facts.parseErr then none
    else if thas m s.name then none
    else if markPrefix s.name && !s.facts.idsOk then none
    else some (tset m s.name (loadTag all s))

/-- the self-reference / missing-reference check of `loadTags` -/
def refCheck (m : TagMap) : Bool :=
  m.any (fun x => x.2.refs.contains x.1 || x.2.refs.any (fun r => !thas m r))

/-- the `referencedBy` pass of `loadTags` -/
def refFold (l : TagMap) (acc : TagMap) : TagMap :=
  l.foldl (fun acc x => addReferrer x.1 acc x.2.refs) acc

theorem loadTags_def (next : Nat) (convs : List Name) (saved : List Saved) :
    loadTags next convs saved =
      match saved.foldl (buildStep (List.range next)) (some []) with
      | none => none
      | some m =>
        if refCheck m then none else
        if (elim (refsOf (refFold m m)) (tkeys (refFold m m)) ((tkeys (refFold m m)).length + 1) []).isNone then none
        else some { tags := refFold m m, nextStreamID := next, convs := convs } := rfl

/-! ### association lists with distinct keys -/

theorem tset_new (m : TagMap) (n : Name) (t : Tag) (h : tget m n = none) : tset m n t = m ++ [(n, t)] := by
  induction m with
  | nil => rfl
  | cons a m ih =>
    obtain ⟨k, v⟩ := a
    unfold tget at h
    split at h
    · cases h
    · rename_i hk
      simp only [tset, hk, if_false, List.cons_append]
      rw [ih h]

theorem mem_of_tget (m : TagMap) (n : Name) (t : Tag) (h : tget m n = some t) : (n, t) ∈ m := by
  induction m with
  | nil => cases h
  | cons a m ih =>
    obtain ⟨k, v⟩ := a
    unfold tget at h
    split at h
    · rename_i hk
      cases h; subst hk
      exact List.mem_cons_self
    · exact List.mem_cons_of_mem _ (ih h)

theorem tget_of_mem (m : TagMap) (hnd : (tkeys m).Nodup) (n : Name) (t : Tag) (h : (n, t) ∈ m) :
    tget m n = some t := by
  induction m with
  | nil => cases h
  | cons a m ih =>
    obtain ⟨k, v⟩ := a
    simp only [tkeys, List.map_cons, List.nodup_cons] at hnd
    rcases List.mem_cons.mp h with h | h
    · cases h
      simp [tget]
    · have hk : k ≠ n := by
        intro hk; subst hk
        apply hnd.1
        exact List.mem_map.mpr ⟨(k, t), h, rfl⟩
      simp only [tget, hk, if_false]
      exact ih hnd.2 h

/-! ### the table construction -/

/-- the table entry of a saved tag -/
def entry (all : List Nat) (s : Saved) : Name × Tag := (s.name, loadTag all s)

/-- what the construction pass accepts of a single entry -/
def EntryOK (s : Saved) : Prop :=
  s.facts.parseErr = false ∧ ¬ (markPrefix s.name = true ∧ s.facts.idsOk = false)

theorem build_none (all : List Nat) (saved : List Saved) : saved.foldl (buildStep all) none = none := by
  induction saved with
  | nil => rfl
  | cons s saved ih => exact ih

theorem tkeys_append (a b : TagMap) : tkeys (a ++ b) = tkeys a ++ tkeys b := by simp [tkeys]

theorem tget_none_iff (m : TagMap) (n : Name) : tget m n = none ↔ n ∉ tkeys m := by
  rw [mem_keys]
  cases tget m n <;> simp

/-- the construction pass succeeds exactly on tables of acceptable entries with distinct (new) names,
    and then lists the entries in the order saved -/
theorem build_some_iff (all : List Nat) (saved : List Saved) (m0 m : TagMap) :
    saved.foldl (buildStep all) (some m0) = some m ↔
      ((∀ s ∈ saved, EntryOK s) ∧ (saved.map (·.name)).Nodup ∧ (∀ s ∈ saved, s.name ∉ tkeys m0) ∧
        m = m0 ++ saved.map (entry all)) := by
  induction saved generalizing m0 with
  | nil => simp; exact eq_comm
  | cons s saved ih =>
    simp only [List.foldl_cons]
    by_cases h1 : s.facts.parseErr = true
    · simp only [buildStep, h1, if_true, build_none]
      constructor
      · intro h; cases h
      · rintro ⟨h, _⟩
        have := (h s List.mem_cons_self).1
        rw [h1] at this; cases this
    by_cases h2 : thas m0 s.name = true
    · simp only [buildStep, h1, h2, if_true, Bool.false_eq_true, if_false, build_none]
      constructor
      · intro h; cases h
      · rintro ⟨_, _, h, _⟩
        exfalso
        apply h s List.mem_cons_self
        rw [mem_keys]
        exact h2
    by_cases h3 : (markPrefix s.name && !s.facts.idsOk) = true
    · simp only [buildStep, h1, h2, h3, if_true, Bool.false_eq_true, if_false, build_none]
      constructor
      · intro h; cases h
      · rintro ⟨h, _⟩
        exfalso
        apply (h s List.mem_cons_self).2
        simpa using h3
    have hn : tget m0 s.name = none := none_of_not_has _ _ h2
    simp only [buildStep, h1, h2, h3, Bool.false_eq_true, if_false]
    rw [ih, tset_new _ _ _ hn]
    have hok : EntryOK s := ⟨by simpa using h1, fun h => h3 (by simp [h.1, h.2])⟩
    constructor
    · rintro ⟨a, b, c, d⟩
      refine ⟨?_, ?_, ?_, ?_⟩
      · intro x hx
        rcases List.mem_cons.mp hx with rfl | hx
        · exact hok
        · exact a x hx
      · simp only [List.map_cons, List.nodup_cons]
        refine ⟨?_, b⟩
        intro hmem
        obtain ⟨x, hx, hxn⟩ := List.mem_map.mp hmem
        apply c x hx
        rw [tkeys_append]
        simp [tkeys, hxn]
      · intro x hx
        rcases List.mem_cons.mp hx with rfl | hx
        · exact (tget_none_iff _ _).mp hn
        · intro hmem
          apply c x hx
          rw [tkeys_append]
          exact List.mem_append_left _ hmem
      · rw [d]; simp [entry]
    · rintro ⟨a, b, c, d⟩
      simp only [List.map_cons, List.nodup_cons] at b
      refine ⟨fun x hx => a x (List.mem_cons_of_mem _ hx), b.2, ?_, ?_⟩
      · intro x hx hmem
        rw [tkeys_append] at hmem
        rcases List.mem_append.mp hmem with h | h
        · exact c x (List.mem_cons_of_mem _ hx) h
        · simp only [tkeys, List.map_cons, List.map_nil, List.mem_singleton] at h
          apply b.1
          exact List.mem_map.mpr ⟨x, hx, h⟩
      · rw [d]; simp [entry]

/-- the saved table passes the construction pass -/
def BuildOK (saved : List Saved) : Prop :=
  (∀ s ∈ saved, EntryOK s) ∧ (saved.map (·.name)).Nodup

theorem build_iff (all : List Nat) (saved : List Saved) (m : TagMap) :
    saved.foldl (buildStep all) (some []) = some m ↔ (BuildOK saved ∧ m = saved.map (entry all)) := by
  rw [build_some_iff]
  simp [BuildOK, tkeys, and_assoc]

theorem tkeys_entries (all : List Nat) (saved : List Saved) :
    tkeys (saved.map (entry all)) = saved.map (·.name) := by
  simp [tkeys, entry, Function.comp_def]

/-- lookups in the constructed table -/
theorem tget_entries (all : List Nat) (saved : List Saved) (hnd : (saved.map (·.name)).Nodup)
    (n : Name) (t : Tag) :
    tget (saved.map (entry all)) n = some t ↔ ∃ s ∈ saved, s.name = n ∧ t = loadTag all s := by
  constructor
  · intro h
    obtain ⟨s, hs, he⟩ := List.mem_map.mp (mem_of_tget _ _ _ h)
    simp only [entry, Prod.mk.injEq] at he
    exact ⟨s, hs, he.1, he.2.symm⟩
  · rintro ⟨s, hs, rfl, rfl⟩
    apply tget_of_mem _ (by rw [tkeys_entries]; exact hnd)
    exact List.mem_map.mpr ⟨s, hs, rfl⟩

theorem loadTag_refs (all : List Nat) (s : Saved) : (loadTag all s).refs = s.facts.refs := by
  unfold loadTag
  split <;> rfl

theorem loadTag_rb (all : List Nat) (s : Saved) : (loadTag all s).referencedBy = [] := by
  unfold loadTag
  split <;> rfl

/-! ### the `referencedBy` pass -/

theorem get_refFold (l : TagMap) (acc : TagMap) (k : Name) :
    ∃ g : List Name → List Name,
      tget (refFold l acc) k = (tget acc k).map (liftRB g) ∧
      ∀ lst x, x ∈ g lst ↔ (x ∈ lst ∨ ∃ e ∈ l, k ∈ e.2.refs ∧ x = e.1) := by
  induction l generalizing acc with
  | nil =>
    refine ⟨id, ?_, by simp⟩
    simp only [refFold, List.foldl_nil]
    cases tget acc k <;> rfl
  | cons e l ih =>
    obtain ⟨g2, h21, h22⟩ := ih (addReferrer e.1 acc e.2.refs)
    obtain ⟨g1, h11, h12⟩ := get_addReferrer e.1 acc e.2.refs k
    refine ⟨g2 ∘ g1, ?_, ?_⟩
    · show tget (refFold l (addReferrer e.1 acc e.2.refs)) k = _
      rw [h21, h11]
      cases tget acc k <;> rfl
    · intro lst x
      simp only [Function.comp, h22, h12, List.mem_cons]
      constructor
      · rintro ((h | ⟨h1, h2⟩) | ⟨e', he', h⟩)
        · exact Or.inl h
        · exact Or.inr ⟨e, Or.inl rfl, h1, h2⟩
        · exact Or.inr ⟨e', Or.inr he', h⟩
      · rintro (h | ⟨e', he' | he', h⟩)
        · exact Or.inl (Or.inl h)
        · subst he'; exact Or.inl (Or.inr h)
        · exact Or.inr ⟨e', he', h⟩

/-- the tags of the loaded table: the entries of the saved table with `referencedBy` filled in -/
theorem tget_loaded_of_mem (all : List Nat) (saved : List Saved) (hnd : (saved.map (·.name)).Nodup)
    (s : Saved) (hs : s ∈ saved) :
    ∃ rb, tget (refFold (saved.map (entry all)) (saved.map (entry all))) s.name =
        some { loadTag all s with referencedBy := rb } ∧
      ∀ x, x ∈ rb ↔ ∃ s' ∈ saved, s'.name = x ∧ s.name ∈ s'.facts.refs := by
  obtain ⟨g, h1, h2⟩ := get_refFold (saved.map (entry all)) (saved.map (entry all)) s.name
  have hm := (tget_entries all saved hnd s.name _).mpr ⟨s, hs, rfl, rfl⟩
  refine ⟨g (loadTag all s).referencedBy, ?_, ?_⟩
  · rw [h1, hm]; rfl
  · intro x
    rw [h2, loadTag_rb]
    simp only [List.not_mem_nil, false_or]
    constructor
    · rintro ⟨e, he, hn, hx⟩
      obtain ⟨s', hs', rfl⟩ := List.mem_map.mp he
      exact ⟨s', hs', hx.symm, by simpa [entry, loadTag_refs] using hn⟩
    · rintro ⟨s', hs', hx, hn⟩
      exact ⟨entry all s', List.mem_map.mpr ⟨s', hs', rfl⟩, by simpa [entry, loadTag_refs] using hn, hx.symm⟩

theorem tget_loaded_some (all : List Nat) (saved : List Saved) (hnd : (saved.map (·.name)).Nodup)
    (n : Name) (t' : Tag)
    (h : tget (refFold (saved.map (entry all)) (saved.map (entry all))) n = some t') :
    ∃ s ∈ saved, s.name = n := by
  obtain ⟨g, h1, _⟩ := get_refFold (saved.map (entry all)) (saved.map (entry all)) n
  rw [h1] at h
  cases hm : tget (saved.map (entry all)) n with
  | none => rw [hm] at h; cases h
  | some t =>
    obtain ⟨s, hs, hsn, _⟩ := (tget_entries all saved hnd n t).mp hm
    exact ⟨s, hs, hsn⟩

/-! ### the reference conditions on a saved table -/

/-- every reference names a saved tag -/
def RefsClosed (saved : List Saved) : Prop :=
  ∀ s ∈ saved, ∀ r ∈ s.facts.refs, r ∈ saved.map (·.name)

/-- no saved tag references itself -/
def NoSelfRef (saved : List Saved) : Prop := ∀ s ∈ saved, s.name ∉ s.facts.refs

/-- no reference cycle: a rank function exists -/
def RefsAcyclic (saved : List Saved) : Prop :=
  ∃ rank : Name → Nat, ∀ s ∈ saved, ∀ r ∈ s.facts.refs, rank r < rank s.name

theorem noSelfRef_of_acyclic (saved : List Saved) (h : RefsAcyclic saved) : NoSelfRef saved := by
  obtain ⟨rank, hr⟩ := h
  intro s hs hself
  have := hr s hs s.name hself
  omega

theorem thas_entries (all : List Nat) (saved : List Saved) (r : Name) :
    thas (saved.map (entry all)) r = true ↔ r ∈ saved.map (·.name) := by
  unfold thas
  rw [← mem_keys, tkeys_entries]

theorem refCheck_false_iff (all : List Nat) (saved : List Saved) :
    refCheck (saved.map (entry all)) = false ↔ (NoSelfRef saved ∧ RefsClosed saved) := by
  unfold refCheck
  rw [List.any_eq_false]
  constructor
  · intro h
    constructor
    · intro s hs hself
      apply h (entry all s) (List.mem_map.mpr ⟨s, hs, rfl⟩)
      simp [entry, loadTag_refs, hself]
    · intro s hs r hr
      have := h (entry all s) (List.mem_map.mpr ⟨s, hs, rfl⟩)
      simp only [entry, loadTag_refs, Bool.or_eq_true, not_or, Bool.not_eq_true, List.any_eq_false] at this
      have h2 := this.2 r hr
      rw [← thas_entries all]
      simpa using h2
  · rintro ⟨h1, h2⟩ e he
    obtain ⟨s, hs, rfl⟩ := List.mem_map.mp he
    simp only [entry, loadTag_refs, Bool.or_eq_true, not_or, Bool.not_eq_true, List.any_eq_false]
    refine ⟨by simpa using h1 s hs, ?_⟩
    intro r hr
    have := (thas_entries all saved r).mpr (h2 s hs r hr)
    simp [this]

theorem loaded_refs (all : List Nat) (saved : List Saved) (hnd : (saved.map (·.name)).Nodup)
    (n : Name) (t' : Tag)
    (h : tget (refFold (saved.map (entry all)) (saved.map (entry all))) n = some t') :
    ∃ s ∈ saved, s.name = n ∧ t'.refs = s.facts.refs ∧
      (∃ rb, t' = { loadTag all s with referencedBy := rb }) ∧
      ∀ x, x ∈ t'.referencedBy ↔ ∃ s' ∈ saved, s'.name = x ∧ n ∈ s'.facts.refs := by
  obtain ⟨s, hs, hsn⟩ := tget_loaded_some all saved hnd n t' h
  obtain ⟨rb, h1, h2⟩ := tget_loaded_of_mem all saved hnd s hs
  subst hsn
  rw [h1] at h
  cases h
  exact ⟨s, hs, rfl, loadTag_refs all s, ⟨rb, rfl⟩, h2⟩

theorem loaded_isSome (all : List Nat) (saved : List Saved) (hnd : (saved.map (·.name)).Nodup) (n : Name) :
    (tget (refFold (saved.map (entry all)) (saved.map (entry all))) n).isSome ↔ n ∈ saved.map (·.name) := by
  constructor
  · intro h
    obtain ⟨t', ht'⟩ := Option.isSome_iff_exists.mp h
    obtain ⟨s, hs, hsn⟩ := tget_loaded_some all saved hnd n t' ht'
    exact List.mem_map.mpr ⟨s, hs, hsn⟩
  · intro h
    obtain ⟨s, hs, hsn⟩ := List.mem_map.mp h
    obtain ⟨rb, h1, _⟩ := tget_loaded_of_mem all saved hnd s hs
    have hsn' : s.name = n := hsn
    rw [← hsn', h1]; rfl

/-- the walk over the loaded table finishes iff the saved references are closed and acyclic -/
theorem loaded_elim_iff (all : List Nat) (saved : List Saved) (hnd : (saved.map (·.name)).Nodup) :
    (elim (refsOf (refFold (saved.map (entry all)) (saved.map (entry all))))
      (tkeys (refFold (saved.map (entry all)) (saved.map (entry all))))
      ((tkeys (refFold (saved.map (entry all)) (saved.map (entry all)))).length + 1) []).isSome ↔
      (RefsClosed saved ∧ RefsAcyclic saved) := by
  have := Pk.Props.C11.fixpoint_terminates_iff_acyclic (refFold (saved.map (entry all)) (saved.map (entry all)))
  unfold resolveOrder at this
  rw [Option.isSome_map] at this
  rw [this]
  constructor
  · rintro ⟨hcl, rank, hrank⟩
    constructor
    · intro s hs r hr
      obtain ⟨rb, h1, _⟩ := tget_loaded_of_mem all saved hnd s hs
      have := hcl s.name _ h1 r (by show r ∈ (loadTag all s).refs; rw [loadTag_refs]; exact hr)
      exact (loaded_isSome all saved hnd r).mp this
    · refine ⟨rank, ?_⟩
      intro s hs r hr
      obtain ⟨rb, h1, _⟩ := tget_loaded_of_mem all saved hnd s hs
      exact hrank s.name _ h1 r (by show r ∈ (loadTag all s).refs; rw [loadTag_refs]; exact hr)
  · rintro ⟨hcl, rank, hrank⟩
    constructor
    · intro n t' ht' r hr
      obtain ⟨s, hs, hsn, hrefs, _⟩ := loaded_refs all saved hnd n t' ht'
      exact (loaded_isSome all saved hnd r).mpr (hcl s hs r (hrefs ▸ hr))
    · refine ⟨rank, ?_⟩
      intro n t' ht' r hr
      obtain ⟨s, hs, hsn, hrefs, _⟩ := loaded_refs all saved hnd n t' ht'
      rw [← hsn]
      exact hrank s hs r (hrefs ▸ hr)

/-- the loaded table of a saved table -/
def loadedTags (next : Nat) (saved : List Saved) : TagMap :=
  refFold (saved.map (entry (List.range next))) (saved.map (entry (List.range next)))

/-- `loadTags` accepts exactly the tables that pass the construction pass and whose references are
    closed and acyclic, and then answers the loaded table -/
theorem loadTags_eq_some_iff (next : Nat) (convs : List Name) (saved : List Saved) (st : State) :
    loadTags next convs saved = some st ↔
      (BuildOK saved ∧ RefsClosed saved ∧ RefsAcyclic saved ∧
        st = { tags := loadedTags next saved, nextStreamID := next, convs := convs }) := by
  rw [loadTags_def]
  cases hb : saved.foldl (buildStep (List.range next)) (some []) with
  | none =>
    refine ⟨fun h => (by cases h), ?_⟩
    rintro ⟨hok, _⟩
    have := (build_iff (List.range next) saved _).mpr ⟨hok, rfl⟩
    rw [this] at hb; cases hb
  | some m =>
    obtain ⟨hok, rfl⟩ := (build_iff (List.range next) saved m).mp hb
    simp only
    by_cases hrc : refCheck (saved.map (entry (List.range next))) = true
    · simp only [hrc, if_true]
      refine ⟨fun h => (by cases h), ?_⟩
      rintro ⟨_, hcl, hac, _⟩
      have := (refCheck_false_iff (List.range next) saved).mpr ⟨noSelfRef_of_acyclic saved hac, hcl⟩
      rw [this] at hrc; cases hrc
    · simp only [hrc, Bool.false_eq_true, if_false]
      have hel := loaded_elim_iff (List.range next) saved hok.2
      by_cases he : (elim (refsOf (refFold (saved.map (entry (List.range next))) (saved.map (entry (List.range next)))))
          (tkeys (refFold (saved.map (entry (List.range next))) (saved.map (entry (List.range next)))))
          ((tkeys (refFold (saved.map (entry (List.range next))) (saved.map (entry (List.range next))))).length + 1) []).isSome = true
      · obtain ⟨hcl, hac⟩ := hel.mp he
        have hn : (elim (refsOf (refFold (saved.map (entry (List.range next))) (saved.map (entry (List.range next)))))
          (tkeys (refFold (saved.map (entry (List.range next))) (saved.map (entry (List.range next)))))
          ((tkeys (refFold (saved.map (entry (List.range next))) (saved.map (entry (List.range next))))).length + 1) []).isNone = false := by
          rw [Option.isNone_eq_false_iff]; exact he
        rw [hn]
        simp only [Bool.false_eq_true, if_false, Option.some.injEq]
        constructor
        · intro h; exact ⟨hok, hcl, hac, h.symm⟩
        · rintro ⟨_, _, _, h⟩; exact h.symm
      · have hn : (elim (refsOf (refFold (saved.map (entry (List.range next))) (saved.map (entry (List.range next)))))
          (tkeys (refFold (saved.map (entry (List.range next))) (saved.map (entry (List.range next)))))
          ((tkeys (refFold (saved.map (entry (List.range next))) (saved.map (entry (List.range next))))).length + 1) []).isNone = true := by
          cases hx : (elim (refsOf (refFold (saved.map (entry (List.range next))) (saved.map (entry (List.range next)))))
            (tkeys (refFold (saved.map (entry (List.range next))) (saved.map (entry (List.range next)))))
            ((tkeys (refFold (saved.map (entry (List.range next))) (saved.map (entry (List.range next))))).length + 1) []) with
          | none => rfl
          | some o => rw [hx] at he; exact absurd rfl he
        rw [hn]
        simp only [if_true]
        refine ⟨fun h => (by cases h), ?_⟩
        rintro ⟨_, hcl, hac, _⟩
        exact absurd (hel.mpr ⟨hcl, hac⟩) he

/-- the loaded table is well-formed -/
theorem loadedTags_wf (next : Nat) (saved : List Saved) (hok : BuildOK saved) (hcl : RefsClosed saved)
    (hac : RefsAcyclic saved) : GraphWF (loadedTags next saved) := by
  have hnd := hok.2
  obtain ⟨rank, hrank⟩ := hac
  refine ⟨?_, ?_, ?_⟩
  · intro n t' ht' r hr
    obtain ⟨s, hs, hsn, hrefs, _⟩ := loaded_refs _ saved hnd n t' ht'
    exact (loaded_isSome _ saved hnd r).mpr (hcl s hs r (hrefs ▸ hr))
  · refine ⟨rank, ?_⟩
    intro n t' ht' r hr
    obtain ⟨s, hs, hsn, hrefs, _⟩ := loaded_refs _ saved hnd n t' ht'
    rw [← hsn]
    exact hrank s hs r (hrefs ▸ hr)
  · intro n t' ht' x
    obtain ⟨s, hs, hsn, hrefs, _, hrb⟩ := loaded_refs _ saved hnd n t' ht'
    rw [hrb x]
    constructor
    · rintro ⟨s', hs', hx, hn⟩
      obtain ⟨rb, h1, _⟩ := tget_loaded_of_mem (List.range next) saved hnd s' hs'
      refine ⟨_, hx ▸ h1, ?_⟩
      show n ∈ (loadTag (List.range next) s').refs
      rw [loadTag_refs]; exact hn
    · rintro ⟨u, hu, hn⟩
      obtain ⟨s', hs', hsn', hrefs', _⟩ := loaded_refs _ saved hnd x u hu
      exact ⟨s', hs', hsn', hrefs' ▸ hn⟩

end Pk.Proofs.TagGraphMore
