/-
  Helper lemmas for C18 about the program-level model (Pk/Model/RegexProg.lean):
  the saturating add, the common suffix, and soundness of the `ConstantSuffix` walk.
-/
import Pk.Model.RegexProg

namespace Pk.RegexProg
open Pk.Regex

/-! ### the overflow trick of `add` -/
theorem and_and_one (a b : Nat) : a &&& b &&& 1 = (a % 2) * (b % 2) := by
  rw [Nat.and_one_is_mod]
  have h := Nat.and_mod_two_pow (a := a) (b := b) (n := 1)
  simp only [Nat.pow_one] at h
  rw [h]
  have ha : a % 2 = 0 ∨ a % 2 = 1 := by omega
  have hb : b % 2 = 0 ∨ b % 2 = 1 := by omega
  rcases ha with ha | ha <;> rcases hb with hb | hb <;> simp [ha, hb]

theorem half_sum (a b : Nat) : (a >>> 1) + (b >>> 1) + (a &&& b &&& 1) = (a + b) / 2 := by
  rw [and_and_one, Nat.shiftRight_eq_div_pow, Nat.shiftRight_eq_div_pow]
  have ha : a % 2 = 0 ∨ a % 2 = 1 := by omega
  have hb : b % 2 = 0 ∨ b % 2 = 1 := by omega
  rcases ha with ha | ha <;> rcases hb with hb | hb <;> simp [ha, hb] <;> omega

theorem satAdd_eq (a b : Nat) : satAdd a b = if 2 ^ 64 ≤ a + b then MAXU else a + b := by
  unfold satAdd
  rw [half_sum, Nat.shiftRight_eq_div_pow]
  by_cases h : 2 ^ 64 ≤ a + b
  · have : (a + b) / 2 / 2 ^ 63 ≠ 0 := by
      rw [Nat.div_div_eq_div_mul]
      have : 1 ≤ (a + b) / (2 * 2 ^ 63) := by
        apply (Nat.le_div_iff_mul_le (by decide)).2
        simpa using h
      omega
    simp [this, h]
  · have : (a + b) / 2 / 2 ^ 63 = 0 := by
      rw [Nat.div_div_eq_div_mul]
      apply Nat.div_eq_of_lt
      omega
    simp [this, h]

/-! ### ConstantSuffix -/

theorem commonPrefix_left (a b : List Byte) : commonPrefix a b <+: a := by
  induction a generalizing b with
  | nil => simp [commonPrefix]
  | cons x xs ih =>
    cases b with
    | nil => simp [commonPrefix]
    | cons y ys =>
      simp only [commonPrefix]
      split
      · exact List.cons_prefix_cons.2 ⟨rfl, ih ys⟩
      · exact List.nil_prefix

theorem commonPrefix_right (a b : List Byte) : commonPrefix a b <+: b := by
  induction a generalizing b with
  | nil => simp [commonPrefix]
  | cons x xs ih =>
    cases b with
    | nil => simp [commonPrefix]
    | cons y ys =>
      simp only [commonPrefix]
      split
      · rename_i h; exact List.cons_prefix_cons.2 ⟨h, ih ys⟩
      · exact List.nil_prefix

theorem commonSuffix_left (a b : List Byte) : commonSuffix a b <:+ a := by
  unfold commonSuffix
  have := commonPrefix_left a.reverse b.reverse
  simpa using List.reverse_suffix.2 this

theorem commonSuffix_right (a b : List Byte) : commonSuffix a b <:+ b := by
  unfold commonSuffix
  have := commonPrefix_right a.reverse b.reverse
  simpa using List.reverse_suffix.2 this

theorem wf_get {p : Prog} (h : p.wf = true) {pc : Nat} {i : Inst} (hi : p.inst[pc]? = some i) : i.wf = true := by
  unfold Prog.wf at h
  rw [List.all_eq_true] at h
  apply h
  obtain ⟨hlt, rfl⟩ := Array.getElem?_eq_some_iff.1 hi
  simp

theorem literal_matchByte {i : Inst} (hwf : i.wf = true) (hr : i.op.isRune = true) {r b : Byte}
    (hl : i.literal? = some r) (hm : i.matchByte b = true) : b = r := by
  unfold Inst.literal? at hl
  split at hl
  · rename_i r' hrune
    split at hl
    · rename_i hc
      simp at hl
      subst hl
      unfold Inst.matchByte at hm
      unfold Inst.wf at hwf
      cases hop : i.op <;> simp [hop, Op.isRune, hrune] at hr hm hwf
      · simpa [hc.2] using hm
      · simpa [hc.2] using hm
    · simp at hl
  · simp at hl

theorem suffixEval_sound (p : Prog) (hwf : p.wf = true) :
    ∀ (fuel : Nat) (s : List Byte) (pos : Nat) (seen : List Nat) (s' : List Byte),
      suffixEval p fuel s pos seen = some s' →
      ∀ (pre w post : List Byte), Accepts p pos pre w post →
      ∀ u : List Byte, s <:+ u → s' <:+ u ++ w := by
  intro fuel
  induction fuel with
  | zero => intro s pos seen s' h; simp [suffixEval] at h
  | succ fuel ih =>
    intro s pos seen s' h pre w post hacc u hsu
    unfold suffixEval at h
    cases hi : p.inst[pos]? with
    | none => simp [hi] at h
    | some i =>
      simp only [hi] at h
      by_cases hrune : i.op.isRune = true
      · simp only [hrune, if_true] at h
        cases hacc with
        | match_ _ i' _ _ hi' hop => rw [hi] at hi'; cases hi'; simp [hop, Op.isRune] at hrune
        | rune _ i' b _ w' _ hi' _ hm hrest =>
          rw [hi] at hi'; cases hi'
          have := ih _ _ _ _ h _ _ _ hrest
          cases hl : i.literal? with
          | none =>
            simp only [hl] at this
            have := this (u ++ [b]) List.nil_suffix
            simpa using this
          | some r =>
            simp only [hl] at this
            have hb : b = r := literal_matchByte (wf_get hwf hi) hrune hl hm
            subst hb
            have := this (u ++ [b]) (by
              obtain ⟨t, rfl⟩ := hsu
              exact ⟨t, by simp⟩)
            simpa using this
        | pass _ i' _ _ _ hi' hop _ => rw [hi] at hi'; cases hi'; rcases hop with hop | hop <;> simp [hop, Op.isRune] at hrune
        | empty _ i' _ _ _ hi' hop _ _ => rw [hi] at hi'; cases hi'; simp [hop, Op.isRune] at hrune
        | altOut _ i' _ _ _ hi' hop _ => rw [hi] at hi'; cases hi'; cases hop' : i.op <;> simp [hop', Op.isRune, Op.isAlt] at hrune hop
        | altArg _ i' _ _ _ hi' hop _ => rw [hi] at hi'; cases hi'; cases hop' : i.op <;> simp [hop', Op.isRune, Op.isAlt] at hrune hop
      · simp only [hrune] at h
        by_cases hpass : i.op.isPass = true
        · simp only [hpass, if_true] at h
          cases hacc with
          | match_ _ i' _ _ hi' hop => rw [hi] at hi'; cases hi'; simp [hop, Op.isPass] at hpass
          | rune _ i' b _ w' _ hi' hr _ _ => rw [hi] at hi'; cases hi'; exact absurd hr hrune
          | pass _ i' _ _ _ hi' _ hrest => rw [hi] at hi'; cases hi'; exact ih _ _ _ _ h _ _ _ hrest u hsu
          | empty _ i' _ _ _ hi' _ _ hrest => rw [hi] at hi'; cases hi'; exact ih _ _ _ _ h _ _ _ hrest u hsu
          | altOut _ i' _ _ _ hi' hop _ => rw [hi] at hi'; cases hi'; cases hop' : i.op <;> simp [hop', Op.isPass, Op.isAlt] at hpass hop
          | altArg _ i' _ _ _ hi' hop _ => rw [hi] at hi'; cases hi'; cases hop' : i.op <;> simp [hop', Op.isPass, Op.isAlt] at hpass hop
        · simp only [hpass] at h
          by_cases halt : i.op.isAlt = true
          · simp only [halt, if_true] at h
            by_cases hseen : seen.contains pos = true
            · simp only [hseen, if_true] at h
              simp at h; subst h; exact List.nil_suffix
            · simp only [hseen] at h
              cases h2 : suffixEval p fuel s i.out (seen ++ [pos]) with
              | none => simp [h2] at h
              | some s2 =>
                cases h1 : suffixEval p fuel s i.arg (seen ++ [pos]) with
                | none => simp [h2, h1] at h
                | some s1 =>
                  simp [h2, h1] at h
                  subst h
                  cases hacc with
                  | match_ _ i' _ _ hi' hop => rw [hi] at hi'; cases hi'; simp [hop, Op.isAlt] at halt
                  | rune _ i' b _ w' _ hi' hr _ _ => rw [hi] at hi'; cases hi'; exact absurd hr hrune
                  | pass _ i' _ _ _ hi' hop _ => rw [hi] at hi'; cases hi'; rcases hop with hop | hop <;> simp [hop, Op.isAlt] at halt
                  | empty _ i' _ _ _ hi' hop _ _ => rw [hi] at hi'; cases hi'; simp [hop, Op.isAlt] at halt
                  | altOut _ i' _ _ _ hi' _ hrest =>
                    rw [hi] at hi'; cases hi'
                    exact List.IsSuffix.trans (commonSuffix_right s1 s2) (ih _ _ _ _ h2 _ _ _ hrest u hsu)
                  | altArg _ i' _ _ _ hi' _ hrest =>
                    rw [hi] at hi'; cases hi'
                    exact List.IsSuffix.trans (commonSuffix_left s1 s2) (ih _ _ _ _ h1 _ _ _ hrest u hsu)
          · simp only [halt] at h
            by_cases hm : i.op = .match_
            · simp [hm] at h
              subst h
              cases hacc with
              | match_ _ i' _ _ hi' hop => simpa using hsu
              | rune _ i' b _ w' _ hi' hr _ _ => rw [hi] at hi'; cases hi'; exact absurd hr hrune
              | pass _ i' _ _ _ hi' hop _ => rw [hi] at hi'; cases hi'; rcases hop with hop | hop <;> simp [hop] at hm
              | empty _ i' _ _ _ hi' hop _ _ => rw [hi] at hi'; cases hi'; simp [hop] at hm
              | altOut _ i' _ _ _ hi' hop _ => rw [hi] at hi'; cases hi'; exact absurd hop halt
              | altArg _ i' _ _ _ hi' hop _ => rw [hi] at hi'; cases hi'; exact absurd hop halt
            · simp [hm] at h
              subst h
              exact List.nil_suffix

end Pk.RegexProg
