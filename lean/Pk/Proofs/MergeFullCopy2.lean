/-
  `copyStreams` over the whole stream table of the added index.
-/
import Pk.Proofs.MergeFullCopy

namespace Pk.Index
open Pk Pk.Bytes

theorem copyStreams_cons (r : Reader) (existing importRemap : List Nat) (hgRemap : List HgRemap) (s : StreamRec)
    (ss : List StreamRec) (acc : CopyAcc) :
    copyStreams r existing importRemap hgRemap (s :: ss) acc =
      if existing.contains s.id then copyStreams r existing importRemap hgRemap ss acc else
      match hgRemap[s.hg]? with
      | none => .error .panic
      | some hgr =>
        match hgr.hostRemap[s.ch]?, hgr.hostRemap[s.sh]? with
        | some ch, some sh =>
          match copyPackets importRemap (r.f.packets.drop s.pstart) with
          | .error e => .error e
          | .ok ps =>
            match blobOf r s with
            | .error e => .error e
            | .ok blob =>
              copyStreams r existing importRemap hgRemap ss
                { packets := acc.packets ++ ps,
                  streams := acc.streams ++ [{ s with hg := hgr.group, ch := ch, sh := sh, pstart := acc.packets.length % 2 ^ 32, dataStart := acc.dataLen }],
                  blobs := acc.blobs ++ [blob],
                  dataLen := acc.dataLen + blob.length, minFirst := if acc.minFirst > s.first then s.first else acc.minFirst }
        | _, _ => .error .panic := by
  rfl

theorem copyStreams_full {r : Reader} {nimp' : Nat} {importRemap : List Nat} {gs' : List HostGroup} {hgRemap : List HgRemap}
    (ctx : CopyCtx r nimp' importRemap gs' hgRemap) (existing : List Nat) (ss : List StreamRec) (hss : ∀ s ∈ ss, s ∈ r.f.streams) :
    ∀ (acc acc' : CopyAcc), acc.dataLen = acc.blobs.flatten.length →
      copyStreams r existing importRemap hgRemap ss acc = .ok acc' → acc'.packets.length ≤ 2 ^ 32 →
      (∃ X, acc'.packets = acc.packets ++ X) ∧ (∃ Y, acc'.blobs = acc.blobs ++ Y) ∧ acc'.dataLen = acc'.blobs.flatten.length ∧
      ∃ new, acc'.streams = acc.streams ++ new ∧
        All₂ (NewRel r nimp' acc'.packets acc'.blobs.flatten gs' importRemap) (ss.filter fun s => !existing.contains s.id) new := by
  induction ss with
  | nil =>
    intro acc acc' hd h _
    simp [copyStreams] at h
    subst h
    exact ⟨⟨[], by simp⟩, ⟨[], by simp⟩, hd, [], by simp, All₂.nil⟩
  | cons s ss ih =>
    intro acc acc' hd h hcap
    have hss' : ∀ x ∈ ss, x ∈ r.f.streams := fun x hx => hss x (by simp [hx])
    rw [copyStreams_cons] at h
    split at h
    · rename_i hex
      have hmem : s.id ∈ existing := by simpa using hex
      have hf : (s :: ss).filter (fun s => !existing.contains s.id) = ss.filter (fun s => !existing.contains s.id) := by
        simp [hmem]
      rw [hf]
      exact ih hss' acc acc' hd h hcap
    · rename_i hex
      have hmem : ¬ s.id ∈ existing := by simpa using hex
      have hf : (s :: ss).filter (fun s => !existing.contains s.id) = s :: ss.filter (fun s => !existing.contains s.id) := by
        simp [hmem]
      rw [hf]
      split at h
      · simp at h
      · rename_i hgr h1
        split at h
        · rename_i ch sh h2 h3
          split at h
          · simp at h
          · rename_i ps h4
            split at h
            · simp at h
            · rename_i blob h5
              obtain ⟨⟨X, hX⟩, ⟨Y, hY⟩, hdl, new, hnew, hall⟩ := ih hss' _ acc' (by simp [hd]) h hcap
              simp only at hX hY hnew
              obtain ⟨c, hc, hps, _⟩ := copyPackets_spec _ _ _ h4
              have hpsne : ps.length ≠ 0 := by
                have := chainOf_ne_nil hc
                rw [hps]; simp; exact this
              have hP : acc.packets.length < 2 ^ 32 := by
                have := congrArg List.length hX
                simp at this
                omega
              have hone := copy_one ctx s (hss s (by simp)) hgr ch sh h1 h2 h3 ps h4 blob h5 acc.packets hP acc.blobs
              rw [← hd] at hone
              refine ⟨⟨ps ++ X, by rw [hX, List.append_assoc]⟩, ⟨[blob] ++ Y, by rw [hY, List.append_assoc]⟩, hdl,
                _ :: new, by rw [hnew, List.append_assoc]; rfl, All₂.cons ?_ hall⟩
              have := hone.mono X Y.flatten
              rw [hX, hY]
              simpa using this
        · simp at h

/-! ## minFirst -/

def MinP (all : List StreamRec) (acc : CopyAcc) : Prop :=
  (acc.streams = [] ∧ acc.minFirst = 2 ^ 64 - 1) ∨ (∃ s ∈ all, acc.minFirst = s.first)

theorem copyStreams_minFirst (r : Reader) (existing importRemap : List Nat) (hgRemap : List HgRemap) (all : List StreamRec)
    (hall : ∀ s ∈ all, s.first < 2 ^ 64) (ss : List StreamRec) (hss : ∀ s ∈ ss, s ∈ all) :
    ∀ (acc acc' : CopyAcc), MinP all acc → copyStreams r existing importRemap hgRemap ss acc = .ok acc' → MinP all acc' := by
  induction ss with
  | nil => intro acc acc' hm h; simp [copyStreams] at h; subst h; exact hm
  | cons s ss ih =>
    intro acc acc' hm h
    have hss' : ∀ x ∈ ss, x ∈ all := fun x hx => hss x (by simp [hx])
    rw [copyStreams_cons] at h
    split at h
    · exact ih hss' acc acc' hm h
    · split at h
      · simp at h
      · split at h
        · split at h
          · simp at h
          · split at h
            · simp at h
            · refine ih hss' _ acc' ?_ h
              right
              have hs := hall s (hss s (by simp))
              simp only
              rcases hm with ⟨_, hm⟩ | ⟨x, hx, hm⟩
              · refine ⟨s, hss s (by simp), ?_⟩
                split
                · rfl
                · omega
              · split
                · exact ⟨s, hss s (by simp), rfl⟩
                · exact ⟨x, hx, hm⟩
        · simp at h

end Pk.Index
