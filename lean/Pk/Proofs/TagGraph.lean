/-
  Helper lemmas for C11 (tag graph).  Property theorems are in Pk/Props/C11.lean.
-/
import Pk.Model.TagGraph

namespace Pk.Proofs.TagGraph
open Pk.TagGraph

/-! ### the tag table as a function -/

theorem get_set (m : TagMap) (k : Name) (v : Tag) (k' : Name) :
    tget (tset m k v) k' = if k = k' then some v else tget m k' := by
  induction m with
  | nil => simp [tset, tget]
  | cons a m ih =>
    obtain ⟨a1, a2⟩ := a
    by_cases h : a1 = k <;> by_cases h' : k = k' <;> simp_all [tset, tget]

theorem get_del (m : TagMap) (k k' : Name) :
    tget (tdel m k) k' = if k = k' then none else tget m k' := by
  induction m with
  | nil => simp [tdel, tget]
  | cons a m ih =>
    obtain ⟨a1, a2⟩ := a
    by_cases h : a1 = k <;> by_cases h' : k = k' <;> simp_all [tdel, tget]

theorem get_modify (m : TagMap) (k : Name) (f : Tag → Tag) (k' : Name) :
    tget (tmod m k f) k' = if k = k' then (tget m k).map f else tget m k' := by
  unfold tmod
  cases h : tget m k with
  | none => by_cases h' : k = k' <;> simp_all
  | some t => by_cases h' : k = k' <;> simp_all [get_set]

theorem mem_keys (m : TagMap) (k : Name) : k ∈ tkeys m ↔ (tget m k).isSome := by
  induction m with
  | nil => simp [tkeys, tget]
  | cons a m ih =>
    obtain ⟨a1, a2⟩ := a
    by_cases h : a1 = k <;> simp_all [tkeys, tget]
    · intro h2; exact absurd h2.symm h

theorem has_iff (m : TagMap) (k : Name) : thas m k = true ↔ ∃ t, tget m k = some t := by
  simp [thas, Option.isSome_iff_exists]


/-! ### dependency-ordered elimination -/

/-- every element's references were resolved before it (list is most-recent-first) -/
def Ord (refs : Name → List Name) : List Name → Prop
  | [] => True
  | n :: rest => (∀ r ∈ refs n, r ∈ rest) ∧ Ord refs rest

theorem elimRound_mono (refs : Name → List Name) (ns res : List Name) :
    ∀ x ∈ res, x ∈ elimRound refs ns res := by
  induction ns generalizing res with
  | nil => intro x hx; simpa [elimRound] using hx
  | cons n ns ih =>
    intro x hx
    unfold elimRound
    split
    · exact ih _ x hx
    · split
      · exact ih _ x (List.mem_cons_of_mem _ hx)
      · exact ih _ x hx

theorem elimRound_sub (refs : Name → List Name) (ns res : List Name) :
    ∀ x ∈ elimRound refs ns res, x ∈ res ∨ x ∈ ns := by
  induction ns generalizing res with
  | nil => intro x hx; left; simpa [elimRound] using hx
  | cons n ns ih =>
    intro x hx
    unfold elimRound at hx
    split at hx
    · rcases ih _ x hx with h | h
      · exact Or.inl h
      · exact Or.inr (List.mem_cons_of_mem _ h)
    · split at hx
      · rcases ih _ x hx with h | h
        · rcases List.mem_cons.mp h with h | h
          · exact Or.inr (h ▸ List.mem_cons_self)
          · exact Or.inl h
        · exact Or.inr (List.mem_cons_of_mem _ h)
      · rcases ih _ x hx with h | h
        · exact Or.inl h
        · exact Or.inr (List.mem_cons_of_mem _ h)

theorem elimRound_ord (refs : Name → List Name) (ns res : List Name) (h : Ord refs res) :
    Ord refs (elimRound refs ns res) := by
  induction ns generalizing res with
  | nil => simpa [elimRound] using h
  | cons n ns ih =>
    unfold elimRound
    split
    · exact ih _ h
    · split
      · rename_i hall
        apply ih
        refine ⟨?_, h⟩
        intro r hr
        have := List.all_eq_true.mp hall r hr
        simpa using this
      · exact ih _ h

/-- a name whose references are all resolved is resolved by the round -/
theorem elimRound_resolves (refs : Name → List Name) (ns res : List Name) (n : Name)
    (hn : n ∈ ns) (hr : ∀ r ∈ refs n, r ∈ res) : n ∈ elimRound refs ns res := by
  induction ns generalizing res with
  | nil => cases hn
  | cons a ns ih =>
    unfold elimRound
    rcases List.mem_cons.mp hn with rfl | hn'
    · split
      · rename_i hc
        exact elimRound_mono _ _ _ _ (by simpa using hc)
      · split
        · exact elimRound_mono _ _ _ _ List.mem_cons_self
        · rename_i hnot
          exfalso; apply hnot
          exact List.all_eq_true.mpr (fun r hr' => by simpa using hr r hr')
    · split
      · exact ih _ hn' hr
      · split
        · exact ih _ hn' (fun r hr' => List.mem_cons_of_mem _ (hr r hr'))
        · exact ih _ hn' hr

theorem elim_some (refs : Name → List Name) (names : List Name) (fuel : Nat) (res out : List Name)
    (h : elim refs names fuel res = some out) (ho : Ord refs res) :
    Ord refs out ∧ (∀ n ∈ names, n ∈ out) ∧ (∀ x ∈ out, x ∈ res ∨ x ∈ names) := by
  induction fuel generalizing res with
  | zero =>
    unfold elim at h
    split at h
    · rename_i hall
      cases h
      exact ⟨ho, fun n hn => by simpa using List.all_eq_true.mp hall n hn, fun x hx => Or.inl hx⟩
    · cases h
  | succ f ih =>
    unfold elim at h
    split at h
    · rename_i hall
      cases h
      exact ⟨ho, fun n hn => by simpa using List.all_eq_true.mp hall n hn, fun x hx => Or.inl hx⟩
    · obtain ⟨h1, h2, h3⟩ := ih _ h (elimRound_ord _ _ _ ho)
      refine ⟨h1, h2, ?_⟩
      intro x hx
      rcases h3 x hx with h | h
      · exact elimRound_sub _ _ _ x h
      · exact Or.inr h

/-- rank of a name = length of the suffix that starts at its last occurrence -/
def rk : List Name → Name → Nat
  | [], _ => 0
  | _ :: xs, n => if n ∈ xs then rk xs n else xs.length + 1

theorem rk_le (l : List Name) (n : Name) : rk l n ≤ l.length + 0 ∨ n ∉ l := by
  induction l with
  | nil => right; simp
  | cons x xs ih =>
    by_cases h : n ∈ xs
    · left; simp only [rk, h, if_true]
      rcases ih with ih | ih
      · simp at ih ⊢; omega
      · exact absurd h ih
    · by_cases hx : n = x
      · left; simp [rk, h]
      · right; simp [hx, h]

theorem rk_le_length (l : List Name) (n : Name) (h : n ∈ l) : rk l n ≤ l.length := by
  rcases rk_le l n with h' | h'
  · simpa using h'
  · exact absurd h h'

theorem ord_mem (refs : Name → List Name) (l : List Name) (h : Ord refs l) (n r : Name)
    (hn : n ∈ l) (hr : r ∈ refs n) : r ∈ l := by
  induction l with
  | nil => cases hn
  | cons x xs ih =>
    rcases List.mem_cons.mp hn with rfl | hn'
    · exact List.mem_cons_of_mem _ (h.1 r hr)
    · exact List.mem_cons_of_mem _ (ih h.2 hn')

theorem ord_rank (refs : Name → List Name) (l : List Name) (h : Ord refs l) (n r : Name)
    (hn : n ∈ l) (hr : r ∈ refs n) : rk l r < rk l n := by
  induction l with
  | nil => cases hn
  | cons x xs ih =>
    by_cases hnx : n ∈ xs
    · have hrx : r ∈ xs := ord_mem refs xs h.2 n r hnx hr
      simp only [rk, hnx, hrx, if_true]
      exact ih h.2 hnx
    · have hxn : n = x := by
        rcases List.mem_cons.mp hn with h1 | h1
        · exact h1
        · exact absurd h1 hnx
      subst hxn
      have hrx : r ∈ xs := h.1 r hr
      simp only [rk, hnx, hrx, if_true, if_false]
      have := rk_le_length xs r hrx
      omega

/-! #### progress: with a rank function every incomplete round resolves something -/

def unres (names res : List Name) : Nat := (names.filter (fun n => !res.contains n)).length

theorem filter_length_lt {α : Type} (l : List α) (p q : α → Bool) (hpq : ∀ x, q x = true → p x = true)
    (hx : ∃ x ∈ l, p x = true ∧ q x = false) : (l.filter q).length < (l.filter p).length := by
  induction l with
  | nil => obtain ⟨x, hx, _⟩ := hx; cases hx
  | cons a l ih =>
    have hle : ∀ l : List α, (l.filter q).length ≤ (l.filter p).length := by
      intro l
      induction l with
      | nil => simp
      | cons b l ih2 =>
        simp only [List.filter_cons]
        cases hq : q b
        · cases hp : p b <;> simp <;> omega
        · simp [hpq b hq]; omega
    obtain ⟨x, hxm, hp, hq⟩ := hx
    simp only [List.filter_cons]
    rcases List.mem_cons.mp hxm with rfl | hxm'
    · simp [hp, hq]
      have := hle l
      omega
    · have := ih ⟨x, hxm', hp, hq⟩
      cases hq' : q a
      · cases hp' : p a <;> simp <;> omega
      · simp [hpq a hq']; omega

theorem unres_lt (names res res' : List Name) (hsub : ∀ x ∈ res, x ∈ res')
    (hnew : ∃ x ∈ names, x ∉ res ∧ x ∈ res') : unres names res' < unres names res := by
  unfold unres
  apply filter_length_lt
  · intro x hx
    simp at hx ⊢
    exact fun h => hx (hsub x h)
  · obtain ⟨x, hx, h1, h2⟩ := hnew
    exact ⟨x, hx, by simpa using h1, by simpa using h2⟩

theorem unres_pos (names res : List Name) (h : names.all (fun n => res.contains n) = false) :
    0 < unres names res := by
  unfold unres
  have : ∃ x ∈ names, res.contains x = false := by
    have := h
    simp only [List.all_eq_false] at this
    obtain ⟨x, hx, hc⟩ := this
    exact ⟨x, hx, by simpa using hc⟩
  obtain ⟨x, hx, hc⟩ := this
  have hm : x ∈ names.filter (fun n => !res.contains n) := by
    simp [List.mem_filter, hx]
    simpa using hc
  exact List.length_pos_of_mem hm

/-- some unresolved name has all its references resolved -/
theorem exists_ready (refs : Name → List Name) (names res : List Name) (rank : Name → Nat)
    (hcl : ∀ n ∈ names, ∀ r ∈ refs n, r ∈ names ∧ rank r < rank n) :
    ∀ k n, rank n < k → n ∈ names → n ∉ res → ∃ n0 ∈ names, n0 ∉ res ∧ ∀ r ∈ refs n0, r ∈ res := by
  intro k
  induction k with
  | zero => intro n h; omega
  | succ k ih =>
    intro n hk hn hres
    by_cases hall : ∀ r ∈ refs n, r ∈ res
    · exact ⟨n, hn, hres, hall⟩
    · have : ∃ r, r ∈ refs n ∧ r ∉ res := by
        apply Classical.byContradiction
        intro hne
        apply hall
        intro r hr
        apply Classical.byContradiction
        intro hnr
        exact hne ⟨r, hr, hnr⟩
      obtain ⟨r, hr, hnr⟩ := this
      have := hcl n hn r hr
      exact ih r (by omega) this.1 hnr

theorem elim_isSome (refs : Name → List Name) (names : List Name) (rank : Name → Nat)
    (hcl : ∀ n ∈ names, ∀ r ∈ refs n, r ∈ names ∧ rank r < rank n) :
    ∀ fuel res, unres names res ≤ fuel → (elim refs names fuel res).isSome := by
  intro fuel
  induction fuel with
  | zero =>
    intro res h
    unfold elim
    split
    · rfl
    · rename_i hall
      have := unres_pos names res (by simpa using hall)
      omega
  | succ f ih =>
    intro res h
    unfold elim
    split
    · rfl
    · rename_i hall
      have hall' : names.all (fun n => res.contains n) = false := by simpa using hall
      apply ih
      have hex : ∃ x ∈ names, res.contains x = false := by
        simp only [List.all_eq_false] at hall'
        obtain ⟨x, hx, hc⟩ := hall'
        exact ⟨x, hx, by simpa using hc⟩
      obtain ⟨x, hx, hc⟩ := hex
      have hxr : x ∉ res := by simpa using hc
      obtain ⟨n0, hn0, hn0r, hrefs⟩ := exists_ready refs names res rank hcl (rank x + 1) x (by omega) hx hxr
      have hlt := unres_lt names res (elimRound refs names res) (elimRound_mono _ _ _)
        ⟨n0, hn0, hn0r, elimRound_resolves _ _ _ n0 hn0 hrefs⟩
      omega


/-! ### well-formed tag graphs -/

/-- the tag graph is closed (no dangling reference), acyclic (a rank function exists) and
    `referencedBy` is exactly the inverse of `referencedTags` -/
structure GraphWF (m : TagMap) : Prop where
  closed : ∀ n t, tget m n = some t → ∀ r ∈ t.refs, (tget m r).isSome
  acyclic : ∃ rank : Name → Nat, ∀ n t, tget m n = some t → ∀ r ∈ t.refs, rank r < rank n
  mirror : ∀ n t, tget m n = some t → ∀ x, x ∈ t.referencedBy ↔ ∃ u, tget m x = some u ∧ n ∈ u.refs

/-- the part of the table the graph predicates look at -/
def gview (m : TagMap) (k : Name) : Option (List Name × List Name) :=
  (tget m k).map fun t => (t.refs, t.referencedBy)

theorem gview_some {m m' : TagMap} (h : ∀ k, gview m' k = gview m k) {n : Name} {t' : Tag}
    (ht : tget m' n = some t') : ∃ t, tget m n = some t ∧ t.refs = t'.refs ∧ t.referencedBy = t'.referencedBy := by
  have := h n
  unfold gview at this
  rw [ht] at this
  cases hm : tget m n with
  | none => rw [hm] at this; simp at this
  | some t =>
    rw [hm] at this
    simp at this
    exact ⟨t, rfl, this.1.symm, this.2.symm⟩

theorem GraphWF.congr {m m' : TagMap} (h : ∀ k, gview m' k = gview m k) (wf : GraphWF m) : GraphWF m' := by
  have hsymm : ∀ k, gview m k = gview m' k := fun k => (h k).symm
  refine ⟨?_, ?_, ?_⟩
  · intro n t' ht' r hr
    obtain ⟨t, ht, h1, _⟩ := gview_some h ht'
    have := wf.closed n t ht r (h1 ▸ hr)
    obtain ⟨u, hu⟩ := Option.isSome_iff_exists.mp this
    obtain ⟨u', hu', _, _⟩ := gview_some hsymm hu
    simp [hu']
  · obtain ⟨rank, hrank⟩ := wf.acyclic
    refine ⟨rank, ?_⟩
    intro n t' ht' r hr
    obtain ⟨t, ht, h1, _⟩ := gview_some h ht'
    exact hrank n t ht r (h1 ▸ hr)
  · intro n t' ht' x
    obtain ⟨t, ht, _, h2⟩ := gview_some h ht'
    rw [← h2, wf.mirror n t ht x]
    constructor
    · rintro ⟨u, hu, hn⟩
      obtain ⟨u', hu', h1, _⟩ := gview_some hsymm hu
      exact ⟨u', hu', h1 ▸ hn⟩
    · rintro ⟨u', hu', hn⟩
      obtain ⟨u, hu, h1, _⟩ := gview_some h hu'
      exact ⟨u, hu, h1 ▸ hn⟩

theorem graphWF_empty : GraphWF [] :=
  ⟨fun _ _ h => by simp [tget] at h, ⟨fun _ => 0, fun _ _ h => by simp [tget] at h⟩, fun _ _ h => by simp [tget] at h⟩

/-! #### updates of `referencedBy` along a reference list -/

def liftRB (f : List Name → List Name) (t : Tag) : Tag := { t with referencedBy := f t.referencedBy }

theorem mem_addRef (x y : Name) (l : List Name) : y ∈ addRef x l ↔ y ∈ l ∨ y = x := by
  unfold addRef
  split
  · rename_i h
    have hx : x ∈ l := by simpa using h
    constructor
    · exact Or.inl
    · rintro (h | h)
      · exact h
      · exact h ▸ hx
  · simp

theorem mem_delRef (x y : Name) (l : List Name) : y ∈ delRef x l ↔ y ∈ l ∧ y ≠ x := by
  simp [delRef]

/-- folding `tmod _ r (liftRB f)` over a reference list: every listed tag gets `f` applied (possibly twice),
    which on the level of membership is `φ` once when `φ` is idempotent -/
theorem foldRB_spec (f : List Name → List Name) (φ : Name → Prop → Prop)
    (hf : ∀ l x, x ∈ f l ↔ φ x (x ∈ l)) (hidem : ∀ x p, φ x (φ x p) ↔ φ x p)
    (hcongr : ∀ x p q, (p ↔ q) → (φ x p ↔ φ x q))
    (rs : List Name) (m : TagMap) (k : Name) :
    ∃ g : List Name → List Name,
      tget (rs.foldl (fun m r => tmod m r (liftRB f)) m) k = (tget m k).map (liftRB g) ∧
      ∀ l x, x ∈ g l ↔ (if k ∈ rs then φ x (x ∈ l) else x ∈ l) := by
  induction rs generalizing m with
  | nil =>
    refine ⟨id, ?_, by simp⟩
    simp only [List.foldl_nil]
    cases tget m k <;> simp [liftRB]
  | cons r rs ih =>
    obtain ⟨g1, h1, h2⟩ := ih (tmod m r (liftRB f))
    simp only [List.foldl_cons]
    rw [h1, get_modify]
    by_cases hrk : r = k
    · subst hrk
      refine ⟨g1 ∘ f, ?_, ?_⟩
      · cases tget m r <;> simp [liftRB]
      · intro l x
        simp only [Function.comp, List.mem_cons, true_or, if_true]
        rw [h2]
        by_cases hk : r ∈ rs
        · simp only [hk, if_true]
          rw [hcongr x _ _ (hf l x)]
          exact hidem x _
        · simp only [hk, if_false]
          exact hf l x
    · refine ⟨g1, by simp [hrk], ?_⟩
      intro l x
      rw [h2]
      have : (k ∈ r :: rs) ↔ k ∈ rs := by
        simp only [List.mem_cons]
        constructor
        · rintro (h | h)
          · exact absurd h.symm hrk
          · exact h
        · exact Or.inr
      by_cases hk : k ∈ rs <;> simp [hk, this]

theorem get_addReferrer (name : Name) (m : TagMap) (rs : List Name) (k : Name) :
    ∃ g : List Name → List Name,
      tget (addReferrer name m rs) k = (tget m k).map (liftRB g) ∧
      ∀ l x, x ∈ g l ↔ (x ∈ l ∨ (k ∈ rs ∧ x = name)) := by
  obtain ⟨g, h1, h2⟩ := foldRB_spec (addRef name) (fun x p => p ∨ x = name)
    (fun l x => mem_addRef name x l) (by intro x p; constructor <;> (intro h; rcases h with h | h <;> simp_all))
    (by intro x p q h; simp [h]) rs m k
  refine ⟨g, h1, ?_⟩
  intro l x
  rw [h2]
  by_cases hk : k ∈ rs <;> simp [hk]

theorem get_delReferrer (name : Name) (m : TagMap) (rs : List Name) (k : Name) :
    ∃ g : List Name → List Name,
      tget (delReferrer name m rs) k = (tget m k).map (liftRB g) ∧
      ∀ l x, x ∈ g l ↔ (x ∈ l ∧ ¬ (k ∈ rs ∧ x = name)) := by
  obtain ⟨g, h1, h2⟩ := foldRB_spec (delRef name) (fun x p => p ∧ x ≠ name)
    (fun l x => mem_delRef name x l) (by intro x p; constructor <;> (intro h; simp_all))
    (by intro x p q h; simp [h]) rs m k
  refine ⟨g, h1, ?_⟩
  intro l x
  rw [h2]
  by_cases hk : k ∈ rs <;> simp [hk]


theorem liftRB_refs (g : List Name → List Name) (t : Tag) : (liftRB g t).refs = t.refs := rfl
theorem liftRB_rb (g : List Name → List Name) (t : Tag) : (liftRB g t).referencedBy = g t.referencedBy := rfl

theorem le_sum_of_mem (rank : Name → Nat) (l : List Name) (r : Name) (h : r ∈ l) :
    rank r ≤ (l.map rank).sum := by
  induction l with
  | nil => cases h
  | cons a l ih =>
    rcases List.mem_cons.mp h with rfl | h'
    · simp
    · have := ih h'
      simp; omega

/-! #### AddTag -/

theorem wf_add (m : TagMap) (name : Name) (nt : Tag) (rs : List Name) (wf : GraphWF m)
    (hnew : tget m name = none) (hrefs : nt.refs = rs) (hrb : nt.referencedBy = [])
    (hex : ∀ r ∈ rs, (tget m r).isSome) (hself : name ∉ rs) :
    GraphWF (addReferrer name (tset m name nt) rs) := by
  -- shape of the new table
  have hname : ∃ t', tget (addReferrer name (tset m name nt) rs) name = some t' ∧ t'.refs = rs ∧
      ∀ x, x ∉ t'.referencedBy := by
    obtain ⟨g, h1, h2⟩ := get_addReferrer name (tset m name nt) rs name
    refine ⟨liftRB g nt, by simp [h1, get_set], by simp [liftRB_refs, hrefs], ?_⟩
    intro x
    rw [liftRB_rb, h2, hrb]
    simp [hself]
  have hother : ∀ k, k ≠ name → ∀ t', tget (addReferrer name (tset m name nt) rs) k = some t' →
      ∃ t, tget m k = some t ∧ t'.refs = t.refs ∧
        ∀ x, x ∈ t'.referencedBy ↔ (x ∈ t.referencedBy ∨ (k ∈ rs ∧ x = name)) := by
    intro k hk t' ht'
    obtain ⟨g, h1, h2⟩ := get_addReferrer name (tset m name nt) rs k
    rw [h1, get_set] at ht'
    simp only [Ne.symm hk, if_false] at ht'
    cases hm : tget m k with
    | none => simp [hm] at ht'
    | some t =>
      simp [hm] at ht'
      subst ht'
      exact ⟨t, rfl, rfl, fun x => by rw [liftRB_rb, h2]⟩
  have hkeep : ∀ k t, tget m k = some t → ∃ t', tget (addReferrer name (tset m name nt) rs) k = some t' ∧ t'.refs = t.refs := by
    intro k t ht
    have hk : k ≠ name := by intro h; subst h; simp [hnew] at ht
    obtain ⟨g, h1, _⟩ := get_addReferrer name (tset m name nt) rs k
    refine ⟨liftRB g t, ?_, rfl⟩
    rw [h1, get_set]
    simp [Ne.symm hk, ht]
  have hsome : ∀ r, (tget m r).isSome → (tget (addReferrer name (tset m name nt) rs) r).isSome := by
    intro r hr
    obtain ⟨t, ht⟩ := Option.isSome_iff_exists.mp hr
    obtain ⟨t', ht', _⟩ := hkeep r t ht
    simp [ht']
  obtain ⟨tn, htn, htnrefs, htnrb⟩ := hname
  refine ⟨?_, ?_, ?_⟩
  · intro k t' ht' r hr
    by_cases hk : k = name
    · subst hk
      rw [htn] at ht'; cases ht'
      exact hsome r (hex r (htnrefs ▸ hr))
    · obtain ⟨t, ht, h1, _⟩ := hother k hk t' ht'
      exact hsome r (wf.closed k t ht r (h1 ▸ hr))
  · obtain ⟨rank, hrank⟩ := wf.acyclic
    refine ⟨fun x => if x = name then (rs.map rank).sum + 1 else rank x, ?_⟩
    intro k t' ht' r hr
    by_cases hk : k = name
    · subst hk
      rw [htn] at ht'; cases ht'
      have hr' : r ∈ rs := htnrefs ▸ hr
      have hrn : r ≠ k := fun h => hself (h ▸ hr')
      simp only [hrn, if_false, if_true]
      have := le_sum_of_mem rank rs r hr'
      omega
    · obtain ⟨t, ht, h1, _⟩ := hother k hk t' ht'
      have hr' : r ∈ t.refs := h1 ▸ hr
      have hrn : r ≠ name := by
        intro h
        have := wf.closed k t ht r hr'
        rw [h, hnew] at this
        simp at this
      simp only [hk, hrn, if_false]
      exact hrank k t ht r hr'
  · intro k t' ht' x
    by_cases hk : k = name
    · subst hk
      rw [htn] at ht'; cases ht'
      constructor
      · intro h; exact absurd h (htnrb x)
      · rintro ⟨u, hu, hku⟩
        exfalso
        by_cases hx : x = k
        · subst hx
          rw [htn] at hu; cases hu
          exact hself (htnrefs ▸ hku)
        · obtain ⟨t, ht, h1, _⟩ := hother x hx u hu
          have := wf.closed x t ht k (h1 ▸ hku)
          rw [hnew] at this
          simp at this
    · obtain ⟨t, ht, h1, h2⟩ := hother k hk t' ht'
      rw [h2 x]
      constructor
      · rintro (h | ⟨hkr, hxn⟩)
        · obtain ⟨u, hu, hku⟩ := (wf.mirror k t ht x).mp h
          obtain ⟨u', hu', hur⟩ := hkeep x u hu
          exact ⟨u', hu', hur ▸ hku⟩
        · subst hxn
          exact ⟨tn, htn, htnrefs ▸ hkr⟩
      · rintro ⟨u, hu, hku⟩
        by_cases hx : x = name
        · subst hx
          rw [htn] at hu; cases hu
          exact Or.inr ⟨htnrefs ▸ hku, rfl⟩
        · obtain ⟨tx, htx, h1x, _⟩ := hother x hx u hu
          exact Or.inl ((wf.mirror k t ht x).mpr ⟨tx, htx, h1x ▸ hku⟩)


/-! #### DelTag -/

theorem wf_del (m : TagMap) (name : Name) (t : Tag) (wf : GraphWF m)
    (ht : tget m name = some t) (hrb : t.referencedBy = []) :
    GraphWF (delReferrer name (tdel m name) t.refs) := by
  have hnoref : ∀ k u, tget m k = some u → name ∉ u.refs := by
    intro k u hu hn
    have := (wf.mirror name t ht k).mpr ⟨u, hu, hn⟩
    rw [hrb] at this; cases this
  have hshape : ∀ k t', tget (delReferrer name (tdel m name) t.refs) k = some t' →
      k ≠ name ∧ ∃ u, tget m k = some u ∧ t'.refs = u.refs ∧
        ∀ x, x ∈ t'.referencedBy ↔ (x ∈ u.referencedBy ∧ ¬ (k ∈ t.refs ∧ x = name)) := by
    intro k t' ht'
    obtain ⟨g, h1, h2⟩ := get_delReferrer name (tdel m name) t.refs k
    rw [h1, get_del] at ht'
    by_cases hk : name = k
    · simp [hk] at ht'
    · simp only [hk, if_false] at ht'
      cases hm : tget m k with
      | none => simp [hm] at ht'
      | some u =>
        simp [hm] at ht'
        subst ht'
        exact ⟨Ne.symm hk, u, rfl, rfl, fun x => by rw [liftRB_rb, h2]⟩
  have hkeep : ∀ k u, k ≠ name → tget m k = some u →
      ∃ t', tget (delReferrer name (tdel m name) t.refs) k = some t' ∧ t'.refs = u.refs := by
    intro k u hk hu
    obtain ⟨g, h1, _⟩ := get_delReferrer name (tdel m name) t.refs k
    refine ⟨liftRB g u, ?_, rfl⟩
    rw [h1, get_del]
    simp [Ne.symm hk, hu]
  refine ⟨?_, ?_, ?_⟩
  · intro k t' ht' r hr
    obtain ⟨hk, u, hu, h1, _⟩ := hshape k t' ht'
    have hr' : r ∈ u.refs := h1 ▸ hr
    have hrn : r ≠ name := fun h => hnoref k u hu (h ▸ hr')
    obtain ⟨v, hv⟩ := Option.isSome_iff_exists.mp (wf.closed k u hu r hr')
    obtain ⟨v', hv', _⟩ := hkeep r v hrn hv
    simp [hv']
  · obtain ⟨rank, hrank⟩ := wf.acyclic
    refine ⟨rank, ?_⟩
    intro k t' ht' r hr
    obtain ⟨_, u, hu, h1, _⟩ := hshape k t' ht'
    exact hrank k u hu r (h1 ▸ hr)
  · intro k t' ht' x
    obtain ⟨hk, u, hu, h1, h2⟩ := hshape k t' ht'
    rw [h2 x]
    constructor
    · rintro ⟨hx, hnot⟩
      obtain ⟨v, hv, hkv⟩ := (wf.mirror k u hu x).mp hx
      have hxn : x ≠ name := by
        intro h
        subst h
        rw [ht] at hv; cases hv
        exact hnot ⟨hkv, rfl⟩
      obtain ⟨v', hv', hvr⟩ := hkeep x v hxn hv
      exact ⟨v', hv', hvr ▸ hkv⟩
    · rintro ⟨v', hv', hkv'⟩
      obtain ⟨hxn, v, hv, h1v, _⟩ := hshape x v' hv'
      exact ⟨(wf.mirror k u hu x).mpr ⟨v, hv, h1v ▸ hkv'⟩, fun h => hxn h.2⟩

/-! #### UpdateTag(name) -/

theorem wf_rename (m : TagMap) (name new : Name) (t : Tag) (wf : GraphWF m)
    (ht : tget m name = some t) (hnew : tget m new = none) (hrb : t.referencedBy = []) :
    GraphWF (t.refs.foldl (fun m r => tmod m r fun rt =>
      { rt with referencedBy := addRef new (delRef name rt.referencedBy) }) (tset (tdel m name) new t)) := by
  have hne : name ≠ new := by intro h; subst h; simp [ht] at hnew
  have hnoref : ∀ k u, tget m k = some u → name ∉ u.refs := by
    intro k u hu hn
    have := (wf.mirror name t ht k).mpr ⟨u, hu, hn⟩
    rw [hrb] at this; cases this
  have hnonew : ∀ k u, tget m k = some u → new ∉ u.refs := by
    intro k u hu hn
    have := wf.closed k u hu new hn
    rw [hnew] at this; simp at this
  have hspec := foldRB_spec (fun l => addRef new (delRef name l)) (fun x p => (p ∧ x ≠ name) ∨ x = new)
    (by intro l x; rw [mem_addRef, mem_delRef])
    (by intro x p; by_cases hx : x = new <;> by_cases hn : x = name <;> by_cases hp : p <;> simp [*])
    (by intro x p q h; simp [h]) t.refs (tset (tdel m name) new t)
  have hfold : ∀ mm : TagMap, (t.refs.foldl (fun m r => tmod m r fun rt =>
      { rt with referencedBy := addRef new (delRef name rt.referencedBy) }) mm) =
      (t.refs.foldl (fun m r => tmod m r (liftRB (fun l => addRef new (delRef name l)))) mm) := fun _ => rfl
  rw [hfold]
  have hnewtag : ∃ t', tget (t.refs.foldl (fun m r => tmod m r (liftRB (fun l => addRef new (delRef name l))))
      (tset (tdel m name) new t)) new = some t' ∧ t'.refs = t.refs ∧ ∀ x, x ∉ t'.referencedBy := by
    obtain ⟨g, h1, h2⟩ := hspec new
    refine ⟨liftRB g t, by simp [h1, get_set], rfl, ?_⟩
    intro x
    rw [liftRB_rb, h2, hrb]
    simp [hnonew name t ht]
  have hshape : ∀ k t', k ≠ new → tget (t.refs.foldl (fun m r => tmod m r (liftRB (fun l => addRef new (delRef name l))))
      (tset (tdel m name) new t)) k = some t' →
      k ≠ name ∧ ∃ u, tget m k = some u ∧ t'.refs = u.refs ∧
        ∀ x, x ∈ t'.referencedBy ↔ (if k ∈ t.refs then ((x ∈ u.referencedBy ∧ x ≠ name) ∨ x = new) else x ∈ u.referencedBy) := by
    intro k t' hkn ht'
    obtain ⟨g, h1, h2⟩ := hspec k
    rw [h1, get_set, get_del] at ht'
    simp only [Ne.symm hkn, if_false] at ht'
    by_cases hk : name = k
    · simp [hk] at ht'
    · simp only [hk, if_false] at ht'
      cases hm : tget m k with
      | none => simp [hm] at ht'
      | some u =>
        simp [hm] at ht'
        subst ht'
        exact ⟨Ne.symm hk, u, rfl, rfl, fun x => by rw [liftRB_rb, h2]⟩
  have hkeep : ∀ k u, k ≠ name → tget m k = some u →
      ∃ t', tget (t.refs.foldl (fun m r => tmod m r (liftRB (fun l => addRef new (delRef name l))))
        (tset (tdel m name) new t)) k = some t' ∧ t'.refs = u.refs := by
    intro k u hk hu
    have hkn : k ≠ new := by intro h; subst h; simp [hnew] at hu
    obtain ⟨g, h1, _⟩ := hspec k
    refine ⟨liftRB g u, ?_, rfl⟩
    rw [h1, get_set, get_del]
    simp [Ne.symm hk, Ne.symm hkn, hu]
  obtain ⟨tn, htn, htnrefs, htnrb⟩ := hnewtag
  refine ⟨?_, ?_, ?_⟩
  · intro k t' ht' r hr
    have hexists : ∀ u, tget m k = some u ∨ (k = new ∧ u = t) → r ∈ u.refs → (tget (t.refs.foldl (fun m r => tmod m r (liftRB (fun l => addRef new (delRef name l))))
        (tset (tdel m name) new t)) r).isSome := by
      intro u hu hr'
      have hu' : ∃ kk, tget m kk = some u := by
        rcases hu with hu | ⟨_, rfl⟩
        · exact ⟨k, hu⟩
        · exact ⟨name, ht⟩
      obtain ⟨kk, hkk⟩ := hu'
      have hrn : r ≠ name := fun h => hnoref kk u hkk (h ▸ hr')
      obtain ⟨v, hv⟩ := Option.isSome_iff_exists.mp (wf.closed kk u hkk r hr')
      obtain ⟨v', hv', _⟩ := hkeep r v hrn hv
      simp [hv']
    by_cases hk : k = new
    · subst hk
      rw [htn] at ht'; cases ht'
      exact hexists t (Or.inr ⟨rfl, rfl⟩) (htnrefs ▸ hr)
    · obtain ⟨_, u, hu, h1, _⟩ := hshape k t' hk ht'
      exact hexists u (Or.inl hu) (h1 ▸ hr)
  · obtain ⟨rank, hrank⟩ := wf.acyclic
    refine ⟨fun x => if x = new then rank name else rank x, ?_⟩
    intro k t' ht' r hr
    by_cases hk : k = new
    · subst hk
      rw [htn] at ht'; cases ht'
      have hr' : r ∈ t.refs := htnrefs ▸ hr
      have hrn : r ≠ k := fun h => hnonew name t ht (h ▸ hr')
      simp only [hrn, if_false, if_true]
      exact hrank name t ht r hr'
    · obtain ⟨_, u, hu, h1, _⟩ := hshape k t' hk ht'
      have hr' : r ∈ u.refs := h1 ▸ hr
      have hrn : r ≠ new := fun h => hnonew k u hu (h ▸ hr')
      simp only [hk, hrn, if_false]
      exact hrank k u hu r hr'
  · intro k t' ht' x
    by_cases hk : k = new
    · subst hk
      rw [htn] at ht'; cases ht'
      constructor
      · intro h; exact absurd h (htnrb x)
      · rintro ⟨v', hv', hkv'⟩
        exfalso
        by_cases hx : x = k
        · subst hx
          rw [htn] at hv'; cases hv'
          exact hnonew name t ht (htnrefs ▸ hkv')
        · obtain ⟨_, v, hv, h1v, _⟩ := hshape x v' hx hv'
          exact hnonew x v hv (h1v ▸ hkv')
    · obtain ⟨hkname, u, hu, h1, h2⟩ := hshape k t' hk ht'
      rw [h2 x]
      have hnamerb : name ∈ u.referencedBy ↔ k ∈ t.refs := by
        rw [wf.mirror k u hu name]
        constructor
        · rintro ⟨v, hv, hkv⟩
          rw [ht] at hv; cases hv; exact hkv
        · intro h; exact ⟨t, ht, h⟩
      constructor
      · intro h
        have hcases : (x ∈ u.referencedBy ∧ x ≠ name) ∨ (x = new ∧ k ∈ t.refs) := by
          by_cases hkt : k ∈ t.refs
          · simp only [hkt, if_true] at h
            rcases h with h | h
            · exact Or.inl h
            · exact Or.inr ⟨h, hkt⟩
          · simp only [hkt, if_false] at h
            refine Or.inl ⟨h, ?_⟩
            intro hx; subst hx
            exact hkt (hnamerb.mp h)
        rcases hcases with ⟨hx, hxn⟩ | ⟨hx, hkt⟩
        · obtain ⟨v, hv, hkv⟩ := (wf.mirror k u hu x).mp hx
          obtain ⟨v', hv', hvr⟩ := hkeep x v hxn hv
          exact ⟨v', hv', hvr ▸ hkv⟩
        · subst hx
          exact ⟨tn, htn, htnrefs ▸ hkt⟩
      · rintro ⟨v', hv', hkv'⟩
        by_cases hx : x = new
        · subst hx
          rw [htn] at hv'; cases hv'
          have hkt : k ∈ t.refs := htnrefs ▸ hkv'
          simp [hkt]
        · obtain ⟨hxn, v, hv, h1v, _⟩ := hshape x v' hx hv'
          have hxrb : x ∈ u.referencedBy := (wf.mirror k u hu x).mpr ⟨v, hv, h1v ▸ hkv'⟩
          by_cases hkt : k ∈ t.refs
          · simp only [hkt, if_true]
            exact Or.inl ⟨hxrb, hxn⟩
          · simp only [hkt, if_false]
            exact hxrb


/-! #### updates that do not touch the graph -/

theorem gview_tset_same (m : TagMap) (name : Name) (t t' : Tag) (ht : tget m name = some t)
    (h1 : t'.refs = t.refs) (h2 : t'.referencedBy = t.referencedBy) (k : Name) :
    gview (tset m name t') k = gview m k := by
  unfold gview
  rw [get_set]
  by_cases hk : name = k
  · subst hk; simp [ht, h1, h2]
  · simp [hk]

theorem gview_tmod (m : TagMap) (n : Name) (f : Tag → Tag)
    (hf : ∀ t, (f t).refs = t.refs ∧ (f t).referencedBy = t.referencedBy) (k : Name) :
    gview (tmod m n f) k = gview m k := by
  unfold gview
  rw [get_modify]
  by_cases hk : n = k
  · subst hk
    cases tget m n with
    | none => simp
    | some t => simp [(hf t).1, (hf t).2]
  · simp [hk]

theorem gview_inheritApply (all : List Nat) (order : List Name) (m : TagMap) (k : Name) :
    gview (inheritApply all m order) k = gview m k := by
  induction order generalizing m with
  | nil => rfl
  | cons n ns ih =>
    unfold inheritApply
    simp only [List.foldl_cons]
    have := ih (inheritOne all m n)
    unfold inheritApply at this
    rw [this]
    unfold inheritOne
    apply gview_tmod
    intro t
    split
    · exact ⟨rfl, rfl⟩
    · split <;> exact ⟨rfl, rfl⟩

theorem gview_inherit (st st' : State) (h : inherit st = some st') (k : Name) :
    gview st'.tags k = gview st.tags k := by
  unfold inherit at h
  split at h
  · cases h
  · cases h
    exact gview_inheritApply _ _ _ _

/-! #### UpdateTag(query) -/

theorem wf_update (m : TagMap) (name : Name) (t nt : Tag) (rs out : List Name) (wf : GraphWF m)
    (ht : tget m name = some t) (hrefs : nt.refs = rs) (hrb : nt.referencedBy = t.referencedBy)
    (hself : name ∉ rs)
    (helim : elim (fun n => if n = name then rs else refsOf m n) (tkeys m) ((tkeys m).length + 1) [] = some out) :
    GraphWF (tset (addReferrer name (delReferrer name m (t.refs.filter (fun r => !rs.contains r)))
      (rs.filter (fun r => !t.refs.contains r))) name nt) := by
  obtain ⟨hord, hall, hsub⟩ := elim_some _ _ _ _ _ helim trivial
  have hself_old : name ∉ t.refs := by
    intro h
    obtain ⟨rank, hrank⟩ := wf.acyclic
    have := hrank name t ht name h
    omega
  have hoB : ∀ k, k ∈ t.refs.filter (fun r => !rs.contains r) ↔ (k ∈ t.refs ∧ k ∉ rs) := by
    intro k; simp [List.mem_filter]
  have hoA : ∀ k, k ∈ rs.filter (fun r => !t.refs.contains r) ↔ (k ∈ rs ∧ k ∉ t.refs) := by
    intro k; simp [List.mem_filter]
  have hnametag : tget (tset (addReferrer name (delReferrer name m (t.refs.filter (fun r => !rs.contains r)))
      (rs.filter (fun r => !t.refs.contains r))) name nt) name = some nt := by simp [get_set]
  have hshape : ∀ k t', k ≠ name → tget (tset (addReferrer name (delReferrer name m (t.refs.filter (fun r => !rs.contains r)))
      (rs.filter (fun r => !t.refs.contains r))) name nt) k = some t' →
      ∃ u, tget m k = some u ∧ t'.refs = u.refs ∧
        ∀ x, x ∈ t'.referencedBy ↔ ((x ∈ u.referencedBy ∧ ¬ ((k ∈ t.refs ∧ k ∉ rs) ∧ x = name)) ∨ ((k ∈ rs ∧ k ∉ t.refs) ∧ x = name)) := by
    intro k t' hk ht'
    obtain ⟨g2, h21, h22⟩ := get_addReferrer name (delReferrer name m (t.refs.filter (fun r => !rs.contains r)))
      (rs.filter (fun r => !t.refs.contains r)) k
    obtain ⟨g1, h11, h12⟩ := get_delReferrer name m (t.refs.filter (fun r => !rs.contains r)) k
    rw [get_set] at ht'
    simp only [Ne.symm hk, if_false] at ht'
    rw [h21, h11] at ht'
    cases hm : tget m k with
    | none => simp [hm] at ht'
    | some u =>
      simp [hm] at ht'
      subst ht'
      refine ⟨u, rfl, rfl, ?_⟩
      intro x
      rw [liftRB_rb, h22, liftRB_rb, h12, hoB, hoA]
  have hkeep : ∀ k u, k ≠ name → tget m k = some u →
      ∃ t', tget (tset (addReferrer name (delReferrer name m (t.refs.filter (fun r => !rs.contains r)))
        (rs.filter (fun r => !t.refs.contains r))) name nt) k = some t' ∧ t'.refs = u.refs := by
    intro k u hk hu
    obtain ⟨g2, h21, _⟩ := get_addReferrer name (delReferrer name m (t.refs.filter (fun r => !rs.contains r)))
      (rs.filter (fun r => !t.refs.contains r)) k
    obtain ⟨g1, h11, _⟩ := get_delReferrer name m (t.refs.filter (fun r => !rs.contains r)) k
    refine ⟨liftRB g2 (liftRB g1 u), ?_, rfl⟩
    rw [get_set]
    simp only [Ne.symm hk, if_false]
    rw [h21, h11, hu]
    rfl
  -- references of the new table are `refs'`, every key is in `out`
  have hrefs' : ∀ k t', tget (tset (addReferrer name (delReferrer name m (t.refs.filter (fun r => !rs.contains r)))
      (rs.filter (fun r => !t.refs.contains r))) name nt) k = some t' →
      k ∈ out ∧ t'.refs = (fun n => if n = name then rs else refsOf m n) k := by
    intro k t' ht'
    by_cases hk : k = name
    · subst hk
      rw [hnametag] at ht'; cases ht'
      exact ⟨hall k ((mem_keys m k).mpr (by simp [ht])), by simp [hrefs]⟩
    · obtain ⟨u, hu, h1, _⟩ := hshape k t' hk ht'
      exact ⟨hall k ((mem_keys m k).mpr (by simp [hu])), by simp [hk, refsOf, hu, h1]⟩
  have hsomeOut : ∀ r, r ∈ out → (tget (tset (addReferrer name (delReferrer name m (t.refs.filter (fun r => !rs.contains r)))
      (rs.filter (fun r => !t.refs.contains r))) name nt) r).isSome := by
    intro r hr
    have hrk : r ∈ tkeys m := by
      rcases hsub r hr with h | h
      · cases h
      · exact h
    by_cases hrn : r = name
    · subst hrn; rw [hnametag]; rfl
    · obtain ⟨v, hv⟩ := Option.isSome_iff_exists.mp ((mem_keys m r).mp hrk)
      obtain ⟨v', hv', _⟩ := hkeep r v hrn hv
      rw [hv']; rfl
  refine ⟨?_, ?_, ?_⟩
  · intro k t' ht' r hr
    obtain ⟨hko, hkr⟩ := hrefs' k t' ht'
    exact hsomeOut r (ord_mem _ out hord k r hko (by have h2 : t'.refs = (if k = name then rs else refsOf m k) := hkr; rw [← h2]; exact hr))
  · refine ⟨rk out, ?_⟩
    intro k t' ht' r hr
    obtain ⟨hko, hkr⟩ := hrefs' k t' ht'
    exact ord_rank _ out hord k r hko (by have h2 : t'.refs = (if k = name then rs else refsOf m k) := hkr; rw [← h2]; exact hr)
  · intro k t' ht' x
    by_cases hk : k = name
    · subst hk
      rw [hnametag] at ht'; cases ht'
      rw [hrb, wf.mirror k t ht x]
      constructor
      · rintro ⟨v, hv, hkv⟩
        have hxn : x ≠ k := by
          intro h; subst h
          rw [ht] at hv; cases hv
          exact hself_old hkv
        obtain ⟨v', hv', hvr⟩ := hkeep x v hxn hv
        exact ⟨v', hv', hvr ▸ hkv⟩
      · rintro ⟨v', hv', hkv'⟩
        have hxn : x ≠ k := by
          intro h; subst h
          rw [hnametag] at hv'; cases hv'
          exact hself (hrefs ▸ hkv')
        obtain ⟨v, hv, h1v, _⟩ := hshape x v' hxn hv'
        exact ⟨v, hv, h1v ▸ hkv'⟩
    · obtain ⟨u, hu, h1, h2⟩ := hshape k t' hk ht'
      rw [h2 x]
      have hnamerb : name ∈ u.referencedBy ↔ k ∈ t.refs := by
        rw [wf.mirror k u hu name]
        constructor
        · rintro ⟨v, hv, hkv⟩
          rw [ht] at hv; cases hv; exact hkv
        · intro h; exact ⟨t, ht, h⟩
      by_cases hx : x = name
      · subst hx
        have : ((x ∈ u.referencedBy ∧ ¬ ((k ∈ t.refs ∧ k ∉ rs) ∧ x = x)) ∨ ((k ∈ rs ∧ k ∉ t.refs) ∧ x = x)) ↔ k ∈ rs := by
          rw [hnamerb]
          by_cases a : k ∈ t.refs <;> by_cases b : k ∈ rs <;> simp [a, b]
        rw [this]
        constructor
        · intro h; exact ⟨nt, hnametag, hrefs ▸ h⟩
        · rintro ⟨v', hv', hkv'⟩
          rw [hnametag] at hv'; cases hv'
          exact hrefs ▸ hkv'
      · have : ((x ∈ u.referencedBy ∧ ¬ ((k ∈ t.refs ∧ k ∉ rs) ∧ x = name)) ∨ ((k ∈ rs ∧ k ∉ t.refs) ∧ x = name)) ↔ x ∈ u.referencedBy := by
          simp [hx]
        rw [this, wf.mirror k u hu x]
        constructor
        · rintro ⟨v, hv, hkv⟩
          obtain ⟨v', hv', hvr⟩ := hkeep x v hx hv
          exact ⟨v', hv', hvr ▸ hkv⟩
        · rintro ⟨v', hv', hkv'⟩
          obtain ⟨v, hv, h1v, _⟩ := hshape x v' hx hv'
          exact ⟨v, hv, h1v ▸ hkv'⟩


/-! #### small facts used at the leaves of the API functions -/

theorem refs_exist_of_not_any (m : TagMap) (rs : List Name)
    (h : ¬ (rs.any fun r => !thas m r) = true) : ∀ r ∈ rs, (tget m r).isSome := by
  intro r hr
  have : (rs.any fun r => !thas m r) = false := by simpa using h
  rw [List.any_eq_false] at this
  have := this r hr
  cases hg : tget m r with
  | none => simp [thas, hg] at this
  | some t => rfl

theorem none_of_not_has (m : TagMap) (n : Name) (h : ¬ thas m n = true) : tget m n = none := by
  unfold thas at h
  cases hg : tget m n with
  | none => rfl
  | some t => simp [hg] at h

theorem not_self_of_not_rejected (n : Name) (p : Facts) (b : Bool)
    (h : ¬ defRejected n p b = true) : n ∉ p.refs := by
  intro hn
  apply h
  unfold defRejected
  simp [hn]

theorem mkTag_refs (c d : String) (p : Facts) : (mkTag c d p).refs = p.refs := rfl

theorem rb_nil_of_isEmpty (t : Tag) (h : ¬ (!t.referencedBy.isEmpty) = true) : t.referencedBy = [] := by
  cases hr : t.referencedBy with
  | nil => rfl
  | cons a l => simp [hr] at h

theorem markAddApply_graph (t : Tag) (ids : List Nat) :
    (markAddApply t ids).refs = t.refs ∧ (markAddApply t ids).referencedBy = t.referencedBy := by
  simp only [markAddApply]
  split <;> exact ⟨rfl, rfl⟩

theorem markDelApply_graph (t : Tag) (ids : List Nat) :
    (markDelApply t ids).refs = t.refs ∧ (markDelApply t ids).referencedBy = t.referencedBy := ⟨rfl, rfl⟩

/-- the walks of a well-formed table terminate -/
theorem resolveOrder_isSome (m : TagMap) (wf : GraphWF m) : (resolveOrder m).isSome := by
  unfold resolveOrder
  obtain ⟨rank, hrank⟩ := wf.acyclic
  have hcl : ∀ n ∈ tkeys m, ∀ r ∈ refsOf m n, r ∈ tkeys m ∧ rank r < rank n := by
    intro n hn r hr
    obtain ⟨t, ht⟩ := Option.isSome_iff_exists.mp ((mem_keys m n).mp hn)
    have hr' : r ∈ t.refs := by simpa [refsOf, ht] using hr
    exact ⟨(mem_keys m r).mpr (wf.closed n t ht r hr'), hrank n t ht r hr'⟩
  have := elim_isSome (refsOf m) (tkeys m) rank hcl ((tkeys m).length + 1) []
    (by unfold unres; exact Nat.le_succ_of_le (List.length_filter_le _ _))
  simpa using this

theorem inherit_isSome (st : State) (wf : GraphWF st.tags) : ∃ st', inherit st = some st' := by
  unfold inherit
  obtain ⟨o, ho⟩ := Option.isSome_iff_exists.mp (resolveOrder_isSome st.tags wf)
  rw [ho]
  exact ⟨_, rfl⟩

theorem tagJobPanics_false (m : TagMap) (wf : GraphWF m) : tagJobPanics m = false := by
  unfold tagJobPanics
  rw [List.any_eq_false]
  intro n _
  cases ht : tget m n with
  | none => simp
  | some t =>
    simp only [Bool.and_eq_true, Bool.not_eq_true', not_and]
    intro _
    simp only [Bool.not_eq_true, List.any_eq_false]
    intro r hr
    have := wf.closed n t ht r hr
    simp [thas, this]


theorem tagJobPanics_false_of_closed (m : TagMap)
    (hcl : ∀ n t, tget m n = some t → ∀ r ∈ t.refs, (tget m r).isSome) : tagJobPanics m = false := by
  unfold tagJobPanics
  rw [List.any_eq_false]
  intro n _
  cases ht : tget m n with
  | none => simp
  | some t =>
    simp only [Bool.and_eq_true, Bool.not_eq_true', not_and]
    intro _
    simp only [Bool.not_eq_true, List.any_eq_false]
    intro r hr
    have := hcl n t ht r hr
    simp [thas, this]

theorem closed_tset_new (m : TagMap) (n : Name) (nt : Tag)
    (hcl : ∀ k t, tget m k = some t → ∀ r ∈ t.refs, (tget m r).isSome)
    (hnt : ∀ r ∈ nt.refs, (tget m r).isSome) :
    ∀ k t, tget (tset m n nt) k = some t → ∀ r ∈ t.refs, (tget (tset m n nt) r).isSome := by
  intro k t hk r hr
  rw [get_set] at hk
  have hex : (tget m r).isSome := by
    by_cases hnk : n = k
    · simp only [hnk, if_true] at hk
      cases hk
      exact hnt r hr
    · simp only [hnk, if_false] at hk
      exact hcl k t hk r hr
  rw [get_set]
  split
  · rfl
  · exact hex

end Pk.Proofs.TagGraph
