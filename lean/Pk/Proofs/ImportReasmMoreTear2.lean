/-
  Helper lemmas for Pk/Props/C05More.lean, target (1): the FIN segment and the RST segment of one
  direction through `assembleHalf`, under the invariant of `Pk/Proofs/ImportReasmStep.lean`
  ("expected sequence number = isn + c, the queue holds slices of B beyond c").
-/
import Pk.Proofs.ImportReasmMoreTear1

namespace Pk.Proofs.ImportReasm
open Pk.Import

/-! ### vocabulary -/

/-- the FIN segment of a direction whose byte string is `B` (first byte at sequence number `isn`):
    FIN without SYN/RST that carries the LAST bytes `B[pOff .. |B|)` of the byte string — possibly
    none — at their sequence number ("data on the FIN segment") -/
def FinPkt (isn : Nat) (B : Bytes) (p : Pkt) : Prop :=
  (p.syn = false ∧ p.fin = true ∧ p.rst = false) ∧ isn ≤ p.seq ∧ pEnd isn p = B.length ∧
  p.payload = slice B (pOff isn p) (pEnd isn p)

instance (isn : Nat) (B : Bytes) (p : Pkt) : Decidable (FinPkt isn B p) := by unfold FinPkt; infer_instance

/-- an RST segment of a direction whose byte string is `B`: RST without SYN/FIN and without
    payload, with a sequence number inside the range used by the direction -/
def RstPkt (isn : Nat) (B : Bytes) (p : Pkt) : Prop :=
  (p.syn = false ∧ p.fin = false ∧ p.rst = true) ∧ isn ≤ p.seq ∧ pOff isn p ≤ B.length ∧ p.payload = []

instance (isn : Nat) (B : Bytes) (p : Pkt) : Decidable (RstPkt isn B p) := by unfold RstPkt; infer_instance

/-! ### pieces of `assembleHalf` -/

/-- `overlapExisting` for a slice of `B` that starts at or before the expected sequence number -/
theorem overlapExisting_behind {isn : Nat} {B : Bytes} (hl : SeqLinear isn B.length) (h : Half) (p : Pkt) (c : Nat)
    (hnext : h.nextSeq = some (isn + c)) (hc : c ≤ B.length)
    (hge : isn ≤ p.seq) (_hend : pEnd isn p ≤ B.length) (hpl : p.payload = slice B (pOff isn p) (pEnd isn p))
    (ha : pOff isn p ≤ c) :
    overlapExisting h p.seq p.payload = (slice B c (max c (pEnd isn p)), isn + c) := by
  have hlt : pOff isn p ≤ pEnd isn p := by unfold pOff pEnd; omega
  have hseq : p.seq = isn + pOff isn p := by unfold pOff; omega
  have hd2 : seqDiff p.seq (isn + c) = (c : Int) - pOff isn p := by
    rw [hseq, seqDiff_lin hl (by omega) hc]
  unfold overlapExisting
  simp only [hnext, hd2]
  split
  · rename_i h0
    have : pOff isn p = c := by omega
    rw [hpl, hseq, this, Nat.max_eq_right (by omega)]
  · rename_i h0
    have hlen : p.payload.length = pEnd isn p - pOff isn p := by unfold pEnd pOff; omega
    have htn : ((c : Int) - (pOff isn p : Int)).toNat = c - pOff isn p := by omega
    rw [htn, hlen]
    split
    · rw [hpl, slice_drop, Nat.max_eq_left (by omega), slice_self]
      have : pOff isn p + (pEnd isn p - pOff isn p) = pEnd isn p := by omega
      rw [this, slice_self]
    · rw [hpl, slice_drop, Nat.max_eq_right (by omega)]
      have : pOff isn p + (c - pOff isn p) = c := by omega
      rw [this]

/-- bytes that are delivered at once are never queued: the FIN flag handed to `checkOverlap` is not used -/
theorem checkOverlap_nofin (h : Half) (s : Nat) (b : Bytes) (r : PRef) (f : Bool) :
    checkOverlap h false s b r f = checkOverlap h false s b r false := by
  unfold checkOverlap
  simp

theorem checkOverlap_closed (h : Half) (q : Bool) (s : Nat) (b : Bytes) (r : PRef) (f : Bool) :
    (checkOverlap h q s b r f).1.closed = h.closed ∧ (checkOverlap h q s b r f).1.nextSeq = h.nextSeq := by
  unfold checkOverlap
  simp only
  split <;> exact ⟨rfl, rfl⟩

/-- no queued page continues offset `e` -/
theorem addContiguous_none {isn : Nat} {B : Bytes} (hl : SeqLinear isn B.length) (q : List Page) (e : Nat)
    (he : e ≤ B.length) (hq : ∀ pg ∈ q, PageOk isn B pg ∧ e < gOff isn pg) :
    addContiguous q (isn + e) = ([], q, isn + e) := by
  cases q with
  | nil => rfl
  | cons pg rest =>
    obtain ⟨hpg, hgt⟩ := hq pg (List.mem_cons_self ..)
    have hlt := hpg.lt
    have hend : gEnd isn pg ≤ B.length := hpg.2.2.2.1
    have hd : seqDiff (isn + e) pg.seq = (gOff isn pg : Int) - e := by
      rw [hpg.seq_eq, seqDiff_lin hl he (by omega)]
    rw [addContiguous, hd, if_neg (by omega)]

/-! ### the FIN segment -/

/-- the FIN segment of `B`, arriving when everything before it has been delivered (`pOff ≤ c`):
    the remaining bytes `B[c .. |B|)` are delivered as one chunk attributed to the FIN packet (no
    chunk if there are none), the half-connection is closed, its queue emptied, and it expects
    `isn + |B| + 1` -/
theorem feed_fin {isn : Nat} {B : Bytes} (hl : SeqLinear isn B.length) (dir : Bool) (st : Stream) (h : Half) (p : Pkt)
    (c : Nat) (hinv : HalfInv isn B c h) (hp : FinPkt isn B p) (ha : pOff isn p ≤ c) :
    feed dir (st, h) p =
      (if c = B.length then st.addPkt p.ref dir else Stream.record st p.ref dir (slice B c B.length),
       { h with closed := true, queue := [], nextSeq := some (seqAdd (isn + B.length) 1) }) := by
  obtain ⟨hopen, hnext, hc, hq⟩ := hinv
  obtain ⟨⟨h1, h2, h3⟩, hge, hend, hpl⟩ := hp
  have hseq : p.seq = isn + pOff isn p := by unfold pOff; omega
  have hd : ¬ seqDiff (isn + c) p.seq > 0 := by
    rw [hseq, seqDiff_lin hl hc (by omega)]; omega
  have hoe := overlapExisting_behind hl h p c hnext hc hge (by omega) hpl ha
  rw [hend, Nat.max_eq_right hc] at hoe
  obtain ⟨q', e1, e2, _, _⟩ := checkOverlap_deliver hl h p.ref c B.length hq hc (Nat.le_refl _)
  have hq' : q' = [] := by
    cases q' with
    | nil => rfl
    | cons pg rest =>
      obtain ⟨k1, k2, _⟩ := e2 pg (List.mem_cons_self ..)
      have := k1.lt
      have : gEnd isn pg ≤ B.length := k1.2.2.2.1
      omega
  subst hq'
  have hp1 : phase1 h p = (p.seq, h, false) := by simp [phase1, hnext, hd]
  unfold feed
  rw [assembleHalf_eq, if_neg (by simp [hopen]), hp1]
  unfold phase2
  simp only [Bool.false_eq_true, if_false, hoe, checkOverlap_nofin, e1, h1, h2, h3]
  by_cases hcB : c = B.length
  · subst hcB
    simp [slice_self, sendToConnection, addContiguous, seqAdd]
  · have hlen : (slice B c B.length).length ≠ 0 := by rw [slice_length (Nat.le_refl _)]; omega
    have hpos : 0 < (slice B c B.length).length := Nat.pos_of_ne_zero hlen
    have hsa : seqAdd (isn + c) (slice B c B.length).length = isn + B.length := by
      rw [slice_length (Nat.le_refl _), seqAdd_lin hl (by omega)]; omega
    rw [← addPkt_addData]
    simp [hcB, sendToConnection, addContiguous, firstNonEmptyRef, hlen, hpos, hsa]

/-! ### the RST segment -/

/-- an RST segment: nothing is delivered.  If its sequence number is not beyond the expected one the
    half-connection is closed and its queue — data waiting behind a hole — is dropped; an RST
    beyond the expected sequence number leaves the half-connection open. -/
theorem feed_rst {isn : Nat} {B : Bytes} (hl : SeqLinear isn B.length) (dir : Bool) (st : Stream) (h : Half) (p : Pkt)
    (c : Nat) (hinv : HalfInv isn B c h) (hp : RstPkt isn B p) :
    ∃ h', feed dir (st, h) p = (st.addPkt p.ref dir, h') ∧ h'.closed = decide (pOff isn p ≤ c) ∧
      (pOff isn p ≤ c → h'.queue = []) := by
  obtain ⟨hopen, hnext, hc, hq⟩ := hinv
  obtain ⟨⟨h1, h2, h3⟩, hge, hoff, hpl⟩ := hp
  have hseq : p.seq = isn + pOff isn p := by unfold pOff; omega
  have hend : pEnd isn p = pOff isn p := by unfold pEnd pOff; rw [hpl]; simp
  by_cases ha : pOff isn p ≤ c
  · have hd : ¬ seqDiff (isn + c) p.seq > 0 := by
      rw [hseq, seqDiff_lin hl hc (by omega)]; omega
    have hoe := overlapExisting_behind hl h p c hnext hc hge (by omega)
      (by rw [hpl, hend, slice_self]) ha
    rw [hend, Nat.max_eq_left ha, slice_self, hpl] at hoe
    obtain ⟨q', e1, e2, _, _⟩ := checkOverlap_deliver hl h p.ref c c hq (Nat.le_refl _) hc
    rw [slice_self] at e1
    have hac := addContiguous_none hl q' c hc (fun pg hm => ⟨(e2 pg hm).1, (e2 pg hm).2.2⟩)
    refine ⟨{ h with closed := true, queue := [], nextSeq := some (isn + c) }, ?_, by simp [ha], fun _ => rfl⟩
    have hsa : seqAdd (isn + c) 0 = isn + c := by
      have := hl.1; unfold seqAdd; omega
    have hp1 : phase1 h p = (p.seq, h, false) := by simp [phase1, hnext, hd]
    unfold feed
    rw [assembleHalf_eq, if_neg (by simp [hopen]), hp1]
    unfold phase2
    simp only [Bool.false_eq_true, if_false, hpl, hoe, checkOverlap_nofin, e1, h1, h2, h3]
    simp [sendToConnection, hsa, hac]
  · have hd : seqDiff (isn + c) p.seq > 0 := by
      rw [hseq, seqDiff_lin hl hc (by omega)]; omega
    refine ⟨(checkOverlap h true p.seq p.payload p.ref true).1, ?_, ?_, fun h0 => absurd h0 ha⟩
    · unfold feed assembleHalf
      simp [hopen, hnext, hd, h2, h3]
    · rw [(checkOverlap_closed ..).1, hopen]; simp [ha]

end Pk.Proofs.ImportReasm
