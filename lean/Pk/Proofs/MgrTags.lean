/- Helper lemmas for C06 (set operations, tag table, invalidateTags, inherit). -/
import Pk.Model.Manager
namespace Pk.Proofs.MgrTags
open Pk.Mgr
end Pk.Proofs.MgrTags
