/- Helper lemmas for C06 (set operations, tag table, invalidateTags, inherit). -/
import Pk.Model.Manager
namespace Pk.Proofs.MgrTags
open Pk.Mgr

theorem str_tri {a b : String} (h : ¬ a < b) (h2 : a ≠ b) : b < a := by
  rcases Decidable.em (b < a) with h3 | h3
  · exact h3
  · exact absurd (String.le_antisymm (String.not_lt.mp h3) (String.not_lt.mp h)) h2

/-! ## id sets -/
@[simp] theorem mem_ins (x y : Nat) (l : List Nat) : x ∈ ins y l ↔ x = y ∨ x ∈ l := by
  induction l with
  | nil => simp [ins]
  | cons z zs ih =>
    simp only [ins]
    split
    · simp
    · split
      · subst_vars; simp
      · simp [ih]; grind

@[simp] theorem mem_union (a b : IdSet) (x : Nat) : x ∈ union a b ↔ x ∈ a ∨ x ∈ b := by
  unfold union
  induction b generalizing a with
  | nil => simp
  | cons y ys ih => simp [ih]; grind

@[simp] theorem mem_diff (a b : IdSet) (x : Nat) : x ∈ diff a b ↔ x ∈ a ∧ x ∉ b := by
  simp [diff]
@[simp] theorem mem_inter (a b : IdSet) (x : Nat) : x ∈ inter a b ↔ x ∈ a ∧ x ∈ b := by
  simp [inter]
@[simp] theorem mem_rangeSet (n x : Nat) : x ∈ rangeSet n ↔ x < n := by
  simp [rangeSet]
@[simp] theorem mem_ofList (l : List Nat) (x : Nat) : x ∈ ofList l ↔ x ∈ l := by
  simp [ofList]

@[simp] theorem mem_strIns (x y : String) (l : List String) : x ∈ strIns y l ↔ x = y ∨ x ∈ l := by
  induction l with
  | nil => simp [strIns]
  | cons z zs ih =>
    simp only [strIns]
    split
    · simp
    · split
      · subst_vars; simp
      · simp [ih]; grind

@[simp] theorem mem_strSet (l : List String) (x : String) : x ∈ strSet l ↔ x ∈ l := by
  unfold strSet
  suffices h : ∀ acc, x ∈ l.foldl (fun acc x => strIns x acc) acc ↔ x ∈ acc ∨ x ∈ l by simpa using h []
  induction l with
  | nil => simp
  | cons y ys ih => intro acc; simp [ih]; grind

@[simp] theorem mem_refs (t : Tag) (r : String) : r ∈ t.refs ↔ r ∈ t.mainT ∨ r ∈ t.subT := by
  simp [Tag.refs]

/-! ## string-keyed tables -/
@[simp] theorem sget_nil {α} (k : String) : sget ([] : List (String × α)) k = none := rfl

theorem sget_cons {α} (k' : String) (v' : α) (r : List (String × α)) (k : String) :
    sget ((k', v') :: r) k = if k' = k then some v' else sget r k := by
  simp only [sget, List.find?_cons]
  by_cases h : k' = k
  · simp [h]
  · have : (k' == k) = false := by simpa using h
    simp [h, this]

theorem sget_sins {α} (k : String) (v : α) (l : List (String × α)) (k' : String) :
    sget (sins k v l) k' = if k = k' then some v else sget l k' := by
  induction l with
  | nil => simp [sins, sget_cons]
  | cons p r ih =>
    obtain ⟨k2, v2⟩ := p
    simp only [sins]
    split
    · simp [sget_cons]
    · split
      · subst_vars; simp only [sget_cons]; grind
      · simp only [sget_cons, ih]; grind

theorem sget_sdel {α} (l : List (String × α)) (k k' : String) :
    sget (sdel l k) k' = if k = k' then none else sget l k' := by
  induction l with
  | nil => simp [sdel]
  | cons p r ih =>
    obtain ⟨k2, v2⟩ := p
    simp only [sdel, List.filter_cons] at ih ⊢
    by_cases h : k2 = k
    · subst h; simp [sget_cons, ih]; grind
    · simp [h, sget_cons, ih]; grind

theorem sget_map {α β} (f : String → α → β) (l : List (String × α)) (k : String) :
    sget (l.map fun p => (p.1, f p.1 p.2)) k = (sget l k).map (f k) := by
  induction l with
  | nil => simp
  | cons p r ih =>
    obtain ⟨k2, v2⟩ := p
    simp only [List.map_cons, sget_cons, ih]
    split <;> simp_all

theorem sget_mem_keys {α} (l : List (String × α)) (k : String) (v : α) (h : sget l k = some v) :
    k ∈ l.map (·.1) := by
  induction l with
  | nil => simp at h
  | cons p r ih =>
    obtain ⟨k2, v2⟩ := p
    rw [sget_cons] at h
    split at h
    · simp_all
    · simp [ih h]

theorem sget_of_mem_keys {α} (l : List (String × α)) (k : String) (h : k ∈ l.map (·.1)) :
    ∃ v, sget l k = some v := by
  induction l with
  | nil => simp at h
  | cons p r ih =>
    obtain ⟨k2, v2⟩ := p
    rw [sget_cons]
    by_cases hk : k2 = k
    · simp [hk]
    · simp only [hk, if_false]; apply ih; simp at h; grind

/-- keys sorted -/
def Sorted {α} (l : List (String × α)) : Prop := (l.map (·.1)).Pairwise (· < ·)

theorem mem_keys_sins {α} (k : String) (v : α) (l : List (String × α)) (x : String) :
    x ∈ (sins k v l).map (·.1) ↔ x = k ∨ x ∈ l.map (·.1) := by
  induction l with
  | nil => simp [sins]
  | cons p r ih =>
    obtain ⟨k2, v2⟩ := p
    simp only [sins]
    split
    · simp
    · split
      · subst_vars; simp
      · simp only [List.map_cons, List.mem_cons, ih]; grind

theorem sorted_sins {α} (k : String) (v : α) (l : List (String × α)) (h : Sorted l) :
    Sorted (sins k v l) := by
  unfold Sorted at *
  induction l with
  | nil => simp [sins]
  | cons p r ih =>
    obtain ⟨k2, v2⟩ := p
    simp only [sins]
    simp only [List.map_cons, List.pairwise_cons] at h
    split
    · rename_i hlt
      simp only [List.map_cons, List.pairwise_cons]
      refine ⟨?_, h⟩
      intro a ha
      simp at ha
      rcases ha with rfl | ha
      · exact hlt
      · exact String.lt_trans hlt (h.1 a (by simpa using ha))
    · split
      · subst_vars; simpa using h
      · rename_i h1 h2
        simp only [List.map_cons, List.pairwise_cons]
        refine ⟨?_, ih h.2⟩
        intro a ha
        rw [mem_keys_sins] at ha
        rcases ha with rfl | ha
        · exact str_tri h1 h2
        · exact h.1 a ha

theorem sorted_sdel {α} (l : List (String × α)) (k : String) (h : Sorted l) : Sorted (sdel l k) := by
  unfold Sorted at *
  rw [List.pairwise_map] at *
  exact h.filter _

theorem sorted_of_keys_eq {α β} (l : List (String × α)) (l' : List (String × β))
    (hk : l'.map (·.1) = l.map (·.1)) (h : Sorted l) : Sorted l' := by
  unfold Sorted at *; rw [hk]; exact h

end Pk.Proofs.MgrTags
