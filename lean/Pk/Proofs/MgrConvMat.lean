/- Helper lemmas for C16: the matches of every tag (and of the tagging job's snapshot) are
   existing streams (`MatBounded` is an invariant). -/
import Pk.Proofs.MgrConv
namespace Pk.Proofs.MgrConv
open Pk.Mgr

/-- all matches of all table entries are below `k` -/
def MB (k : Nat) (tags : List (String × Tag)) : Prop := ∀ nt ∈ tags, ∀ id ∈ nt.2.mat, id < k

theorem mem_sins {α} (l : List (String × α)) (k : String) (v : α) (x : String × α)
    (h : x ∈ sins k v l) : x = (k, v) ∨ x ∈ l := by
  induction l with
  | nil => simpa [sins] using h
  | cons a r ih =>
    obtain ⟨ka, va⟩ := a
    simp only [sins] at h
    split at h
    · simpa using h
    · split at h
      · rcases List.mem_cons.1 h with e | e
        · exact Or.inl e
        · exact Or.inr (List.mem_cons_of_mem _ e)
      · rcases List.mem_cons.1 h with e | e
        · exact Or.inr (by simp [e])
        · rcases ih e with e | e
          · exact Or.inl e
          · exact Or.inr (List.mem_cons_of_mem _ e)

theorem MB_sins {k : Nat} {l : List (String × Tag)} (h : MB k l) (n : String) (v : Tag)
    (hv : ∀ id ∈ v.mat, id < k) : MB k (sins n v l) := by
  intro nt hnt
  rcases mem_sins _ _ _ _ hnt with e | e
  · subst e; exact hv
  · exact h nt e

theorem MB_sdel {k : Nat} {l : List (String × Tag)} (h : MB k l) (n : String) : MB k (sdel l n) :=
  fun nt hnt => h nt (List.mem_filter.1 hnt).1

theorem MB_map {k : Nat} {l : List (String × Tag)} (h : MB k l) (f : String × Tag → String × Tag)
    (hf : ∀ x, (f x).2.mat = x.2.mat) : MB k (l.map f) := by
  intro nt hnt
  obtain ⟨x, hx, rfl⟩ := List.mem_map.1 hnt
  rw [hf]; exact h x hx

theorem MB_sget {k : Nat} {l : List (String × Tag)} (h : MB k l) {n : String} {t : Tag}
    (ht : sget l n = some t) : ∀ id ∈ t.mat, id < k :=
  h (n, t) (sget_mem _ _ _ ht)

theorem MB_mono {k k' : Nat} {l : List (String × Tag)} (h : MB k l) (hk : k ≤ k') : MB k' l :=
  fun nt hnt id hid => Nat.lt_of_lt_of_le (h nt hnt id hid) hk

/-- `next` and the tagging job are untouched, the bound on the matches is kept -/
structure SameM (k : Nat) (s s' : St) : Prop where
  next : s'.next = s.next
  jTag : s'.jTag = s.jTag
  tags : MB k s.tags → MB k s'.tags

theorem SameM.refl (k : Nat) (s : St) : SameM k s s := ⟨rfl, rfl, fun h => h⟩
theorem SameM.trans {k : Nat} {a b c : St} (h1 : SameM k a b) (h2 : SameM k b c) : SameM k a c :=
  ⟨h2.next.trans h1.next, h2.jTag.trans h1.jTag, fun h => h2.tags (h1.tags h)⟩
theorem SameM_foldl {k : Nat} {β} (f : St → β → St) (l : List β) (hf : ∀ s x, SameM k s (f s x)) (s : St) :
    SameM k s (l.foldl f s) :=
  foldl_rel (SameM k) (SameM.refl k) (fun _ _ _ => SameM.trans) f l (fun s x _ => hf s x) s

/-- same tags, `next`, tagging job -/
theorem SameM_of_eq {k : Nat} {s s' : St} (h1 : s'.tags = s.tags) (h2 : s'.next = s.next)
    (h3 : s'.jTag = s.jTag) : SameM k s s' := ⟨h2, h3, fun h => h1 ▸ h⟩

theorem SameM_setTag {k : Nat} (s : St) (n n0 : String) (t t' : Tag) (ht : sget s.tags n0 = some t)
    (hm : ∀ id ∈ t'.mat, id ∈ t.mat) : SameM k s (setTag s n t') :=
  ⟨rfl, rfl, fun h => MB_sins h n t' (fun id hid => MB_sget h ht id (hm id hid))⟩

theorem SameM_addRefBy {k : Nat} (s : St) (a b : String) : SameM k s (addRefBy s a b) := by
  unfold addRefBy
  split
  · next t ht => exact SameM_setTag s a a t _ ht (fun _ h => h)
  · exact SameM.refl _ _

theorem SameM_delRefBy {k : Nat} (s : St) (a b : String) : SameM k s (delRefBy s a b) := by
  unfold delRefBy
  split
  · next t ht => exact SameM_setTag s a a t _ ht (fun _ h => h)
  · exact SameM.refl _ _

theorem inheritPass_MB (k all : Nat) (l tags : List (String × Tag)) (res : List String) (h : MB k tags) :
    MB k (l.foldl (fun (acc : List (String × Tag) × List String) (nt : String × Tag) =>
      let (tags, resolved) := acc
      let n := nt.1
      if resolved.contains n then acc
      else match sget tags n with
        | none => acc
        | some t =>
          if t.refs.all (fun r => resolved.contains r) then
            (sins n (inheritOne all tags t) tags, n :: resolved)
          else acc) (tags, res)).1 := by
  induction l generalizing tags res with
  | nil => exact h
  | cons a r ih =>
    simp only [List.foldl_cons]
    split
    · exact ih _ _ h
    · split
      · exact ih _ _ h
      · next t ht =>
        split
        · apply ih
          apply MB_sins h
          rw [(inheritOne_convs all tags t).2]
          exact MB_sget h ht
        · exact ih _ _ h

theorem inheritLoop_MB (k all fuel : Nat) (tags : List (String × Tag)) (res : List String) (h : MB k tags) :
    MB k (inheritLoop all fuel tags res).1 := by
  induction fuel generalizing tags res with
  | zero => exact h
  | succ f ih =>
    unfold inheritLoop
    split
    · exact h
    · simp only []
      apply ih
      exact inheritPass_MB k all tags tags res h

theorem SameM_inherit {k : Nat} (s : St) : SameM k s (inherit s) := by
  unfold inherit
  exact ⟨rfl, rfl, fun h => inheritLoop_MB _ _ _ _ _ h⟩

theorem SameM_invalidateTags {k : Nat} (s : St) (u r a : IdSet) : SameM k s (invalidateTags s u r a) := by
  unfold invalidateTags
  refine SameM.trans ?_ (SameM_inherit _)
  refine ⟨rfl, rfl, fun h => MB_map h _ ?_⟩
  intro x
  obtain ⟨n, t⟩ := x
  simp only []
  split
  · rfl
  · split
    · split <;> rfl
    · rfl

theorem SameM_invDuring {k : Nat} (s : St) (ids : IdSet) : SameM k s (invalidatedDuringTaggingJob s ids) := by
  unfold invalidatedDuringTaggingJob
  split
  · exact SameM_of_eq rfl rfl rfl
  · exact SameM.refl _ _

theorem SameM_startMerge {k : Nat} (s : St) : SameM k s (startMerge s) := by
  unfold startMerge
  repeat (first | exact SameM.refl _ _ | exact SameM_of_eq rfl rfl rfl | split)

theorem SameM_startImport {k : Nat} (s : St) : SameM k s (startImport s) := SameM_of_eq rfl rfl rfl

theorem SameM_release {k : Nat} (s : St) (fs : List Nat) : SameM k s (release s fs) := by
  rw [release_eq]
  apply SameM_foldl
  intro s f
  unfold rel1
  split
  · exact SameM.refl _ _
  · split <;> exact SameM_of_eq rfl rfl rfl

theorem SameM_invalidateConverters {k : Nat} (s : St) (u : IdSet) : SameM k s (invalidateConverters s u) := by
  rw [invalidateConverters_eq]
  exact SameM_foldl (ic1 u) _ (fun s c => SameM_of_eq rfl rfl rfl) _

theorem SameM_startConverter {k : Nat} (s : St) : SameM k s (startConverter s) := by
  rw [startConverter_eq]
  split
  · exact SameM.refl _ _
  · split
    · exact SameM.refl _ _
    · have h1 := clr_fold (activeOf s) s
      have h2 := add_fold (foundOf ((activeOf s).foldl clr1 s).files (((activeOf s).foldl clr1 s).idx.drop 0))
        (activeOf s) { ((activeOf s).foldl clr1 s) with
          used := lock ((activeOf s).foldl clr1 s).used (((activeOf s).foldl clr1 s).idx.drop 0) }
      simp only [NQ, NC, Prod.mk.injEq] at h1 h2
      refine SameM_of_eq ?_ ?_ ?_
      · exact h2.1.trans h1.1
      · exact h2.2.2.1.trans h1.2.2.1
      · exact h2.2.2.2.2.2.2.trans h1.2.2.2.2.2.2.2

-- CHANGED (dropped): was `SameM_detachConv : SameM k s (detachConv s n c)`; `detachConv` may now start a tagging
-- job (`jTag` changes), so `SameM` holds for the part before the dropped-output step (`dc2`) only; the
-- preservation of `MI` by the whole `detachConv` is `MI_detachConv` below
theorem SameM_dc2 {k : Nat} (s : St) (n c : String) (t : Tag) (ht : sget s.tags n = some t) :
    SameM k s (dc2 s n c t) := by
  have h0 : SameM k s (setTag s n { t with convs := t.convs.filter (· != c) }) :=
    SameM_setTag s n n t _ ht (fun _ h => h)
  refine h0.trans ?_
  unfold dc2
  simp only []
  split <;> exact SameM_of_eq rfl rfl rfl

theorem SameM_attachConv {k : Nat} (s : St) (n c : String) : SameM k s (attachConv s n c).1 := by
  unfold attachConv
  split
  · exact SameM.refl _ _
  · next t ht =>
    split
    · exact SameM.refl _ _
    · split
      · exact SameM.refl _ _
      · have h0 : SameM k s (setTag s n { t with convs := t.convs ++ [c] }) :=
          SameM_setTag s n n t _ ht (fun _ h => h)
        exact h0.trans (SameM_of_eq rfl rfl rfl)

/-- the matches of all tags and of the running tagging job's snapshot are existing streams -/
def MI (s : St) : Prop :=
  MB s.next s.tags ∧ ∀ n snap held, s.jTag = some (n, snap, held) → ∀ id ∈ snap.mat, id < s.next

theorem MI_of_sameM {s s' : St} (g : SameM s.next s s') (h : MI s) : MI s' := by
  refine ⟨by rw [g.next]; exact g.tags h.1, ?_⟩
  rw [g.next, g.jTag]; exact h.2

def pickOf (s : St) (choice : Option String) : Option (String × Tag) :=
  match choice with
  | some n => (match sget s.tags n with
      | some t => if eligible s t then some (n, t) else none
      | none => none)
  | none => none

theorem pickOf_mem (s : St) (choice : Option String) (n : String) (t : Tag)
    (h : pickOf s choice = some (n, t)) : (n, t) ∈ s.tags := by
  unfold pickOf at h
  split at h
  · split at h
    · next m t' ht' =>
      split at h
      · cases h; exact sget_mem _ _ _ ht'
      · cases h
    · cases h
  · cases h

theorem startTagging_eq (s : St) (choice : Option String) :
    startTagging s choice =
      if s.tag then s
      else if !(s.tags.any (fun nt => eligible s nt.2)) then s
      else match pickOf s choice with
        | none =>
          match s.tags.find? (fun nt => eligible s nt.2) with
          | none => s
          | some (n, t) =>
            { (getIndexesCopy s 0).1 with tag := true, upd := [], rst := [], add := [], jTag := some (n, t, (getIndexesCopy s 0).2), badChoice := true }
        | some (n, t) =>
          { (getIndexesCopy s 0).1 with tag := true, upd := [], rst := [], add := [], jTag := some (n, t, (getIndexesCopy s 0).2) } := rfl

theorem MI_startTagging (s : St) (choice : Option String) (h : MI s) : MI (startTagging s choice) := by
  rw [startTagging_eq]
  split
  · exact h
  · split
    · exact h
    · split
      · split
        · exact h
        · next n t hf =>
          have hm : (n, t) ∈ s.tags := List.mem_of_find?_eq_some hf
          refine ⟨h.1, ?_⟩
          intro n' snap held e
          cases e
          exact h.1 (n, t) hm
      · next n t hp =>
        have hm : (n, t) ∈ s.tags := pickOf_mem s choice n t hp
        refine ⟨h.1, ?_⟩
        intro n' snap held e
        cases e
        exact h.1 (n, t) hm

-- CHANGED (dropped): `outputDropped` keeps the matches of every tag; a job it starts snapshots a table entry
theorem MI_outputDropped (s : St) (choice : Option String) (h : MI s) : MI (outputDropped s choice) := by
  unfold outputDropped
  split
  · simp only []
    apply MI_startTagging
    apply MI_of_sameM (SameM_invDuring _ _)
    apply MI_of_sameM (SameM_inherit _)
    refine MI_of_sameM (s := s) ⟨rfl, rfl, fun hh => MB_map hh _ ?_⟩ h
    rintro ⟨n, t⟩
    simp only []
    split <;> rfl
  · exact h

-- CHANGED (dropped): replaces `SameM_detachConv` (see `SameM_dc2`)
theorem MI_detachConv (s : St) (n c : String) (choice : Option String) (h : MI s) :
    MI (detachConv s n c choice) := by
  rw [detachConv_eq]
  split
  · exact h
  · next t ht =>
    have h2 : MI (dc2 s n c t) := MI_of_sameM (SameM_dc2 s n c t ht) h
    rcases dc3_cases s n c t choice with e | e <;> rw [e]
    · exact h2
    · exact MI_outputDropped _ _ h2

theorem fresh_sub (m : List Nat) (l : List Nat) (acc : List Nat) (x : Nat)
    (h : x ∈ l.foldl (fun (acc : List Nat) x => if m.contains x || acc.contains x then acc else acc ++ [x]) acc) :
    x ∈ acc ∨ x ∈ l := by
  induction l generalizing acc with
  | nil => exact Or.inl h
  | cons a r ih =>
    simp only [List.foldl_cons] at h
    rcases ih _ h with e | e
    · split at e
      · exact Or.inl e
      · rcases List.mem_append.1 e with e | e
        · exact Or.inl e
        · exact Or.inr (by simp at e; simp [e])
    · exact Or.inr (List.mem_cons_of_mem _ e)

theorem muAdd_mat (t : Tag) (s : St) (a : List Nat) :
    ∀ id ∈ (muAdd t s a).1.mat, id ∈ t.mat ∨ id ∈ a := by
  unfold muAdd
  split
  · exact fun id h => Or.inl h
  · simp only []
    have key : ∀ id ∈ union t.mat (List.foldl (fun (acc : List Nat) x => if t.mat.contains x || acc.contains x then acc else acc ++ [x]) [] a),
        id ∈ t.mat ∨ id ∈ a := by
      intro id hid
      rcases (mem_union _ _ _).1 hid with e | e
      · exact Or.inl e
      · rcases fresh_sub _ _ _ _ e with e | e
        · simp at e
        · exact Or.inr e
    split <;> exact key

theorem SameM_markUpdate {k : Nat} (s : St) (name : String) (a d : List Nat) (ha : ∀ id ∈ a, id < k) :
    SameM k s (markUpdate s name a d).1 := by
  rw [markUpdate_eq]
  split
  · exact SameM.refl _ _
  · next t ht =>
    simp only []
    obtain ⟨fresh, a1, a2, a3, a4⟩ := muAdd_props t s a
    obtain ⟨d1, d2⟩ := muDel_props (muAdd t s a).1 d
    simp only [NQ, Prod.mk.injEq] at a3
    have g0 : SameM k s (muAdd t s a).2 := SameM_of_eq a3.1 a3.2.2.1 a3.2.2.2.2.2.2.2
    refine g0.trans ?_
    unfold muFin
    simp only []
    have g1 : SameM k (muAdd t s a).2 (setTag (muAdd t s a).2 name (muDel (muAdd t s a).1 d)) := by
      refine ⟨rfl, rfl, fun h => MB_sins h _ _ ?_⟩
      intro id hid
      rcases muAdd_mat t s a id (d2 id hid) with e | e
      · rw [a3.1] at h; exact MB_sget h ht id e
      · exact ha id e
    have g2 := (g1.trans (SameM_inherit _)).trans (SameM_invDuring _ (muDel (muAdd t s a).1 d).unc)
    split
    · next t' ht' => exact g2.trans (SameM_setTag _ name name t' _ ht' (fun _ h => h))
    · exact g2

theorem le_foldl_max (l : List Nat) (a x : Nat) (h : x ∈ l ∨ x ≤ a) : x ≤ l.foldl max a := by
  induction l generalizing a with
  | nil => simpa using h
  | cons b r ih =>
    simp only [List.foldl_cons]
    apply ih
    rcases h with h | h
    · rcases List.mem_cons.1 h with e | e
      · subst e; exact Or.inr (Nat.le_max_right _ _)
      · exact Or.inl e
    · exact Or.inr (Nat.le_trans h (Nat.le_max_left _ _))

/-! ## events -/

/-- payload bounds: reported matches are existing streams -/
def MatOK (s : St) : Ev → Prop
  | .tagDone _ result => ∀ id ∈ result, id < s.next
  | .addTag _ _ _ f => ∀ id ∈ f.ids, id < s.next
  | .importDone _ _ _ _ _ _ => ∀ jn held, s.jImport = some (jn, held) → s.next ≤ jn
  | _ => True

theorem SameM_rec {k : Nat} (s s' : St) (h1 : s'.tags = s.tags) (h2 : s'.next = s.next)
    (h3 : s'.jTag = s.jTag) : SameM k s s' := SameM_of_eq h1 h2 h3

theorem mi_nop (s : St) (st : Started) (h : MI s) : MI (step s .nop st).1 := h

theorem mi_importPcaps (s : St) (st : Started) (names : List String) (h : MI s) :
    MI (step s (.importPcaps names) st).1 := by
  simp only [step]
  split
  · exact h
  · simp only []
    split
    · exact MI_of_sameM (SameM_startImport _) (MI_of_sameM (SameM_of_eq rfl rfl rfl) h)
    · exact MI_of_sameM (SameM_of_eq rfl rfl rfl) h

theorem mi_viewOpen (s : St) (st : Started) (k : Nat) (h : MI s) :
    MI (step s (.viewOpen k) st).1 := by
  simp only [step]
  split
  · exact h
  · exact MI_of_sameM (SameM_of_eq rfl rfl rfl) h

theorem mi_viewRelease (s : St) (st : Started) (k : Nat) (h : MI s) :
    MI (step s (.viewRelease k) st).1 := by
  simp only [step]
  split
  · exact h
  · exact MI_of_sameM (SameM_release _ _) (MI_of_sameM (s' := { s with views := ndel s.views k }) (SameM_of_eq rfl rfl rfl) h)

theorem mi_updColor (s : St) (st : Started) (name color : String) (h : MI s) :
    MI (step s (.updColor name color) st).1 := by
  simp only [step]
  split
  · exact h
  · next t ht =>
    simp only []
    split
    · exact h
    · exact MI_of_sameM (SameM_setTag s name name t _ ht (fun _ h => h)) h

theorem mi_mergeDone (s : St) (st : Started) (merged : List (Nat × List Nat)) (h : MI s) :
    MI (step s (.mergeDone merged) st).1 := by
  simp only [step]
  split
  · exact h
  · next off held hj =>
    simp only []
    apply MI_of_sameM (SameM_release _ _)
    apply MI_of_sameM (SameM_startMerge _)
    have h0 : MI { s with jMerge := none } := MI_of_sameM (SameM_of_eq rfl rfl rfl) h
    split
    · exact MI_of_sameM (SameM_of_eq rfl rfl rfl) h0
    · have h1 := MI_of_sameM (SameM_release { s with jMerge := none } (List.take held.length (List.drop off s.idx))) h0
      exact MI_of_sameM (SameM_of_eq rfl rfl rfl) h1
theorem MI_publish (s : St) (name : String) (t : Tag) (hb : ∀ id ∈ t.mat, id < s.next) (h : MI s) :
    MI (setTag (t.convs.foldl (qadd1 t.mat) s) name t) := by
  have e := qadd_fold t.mat t.convs s
  simp only [NQ, Prod.mk.injEq] at e
  have g0 : SameM s.next s (t.convs.foldl (qadd1 t.mat) s) := SameM_of_eq e.1 e.2.2.1 e.2.2.2.2.2.2.2
  refine MI_of_sameM (g0.trans ⟨rfl, rfl, fun hh => MB_sins hh _ _ hb⟩) h

theorem SameM_tagflag {k : Nat} (s : St) (b : Bool) : SameM k s { s with tag := b } :=
  SameM_of_eq rfl rfl rfl

theorem mi_tagDone (s : St) (st : Started) (name : String) (result : List Nat) (h : MI s)
    (hr : ∀ id ∈ result, id < s.next) :
    MI (step s (.tagDone name result) st).1 := by
  simp only [step]
  split
  · exact h
  · next jn snap held hj =>
    split
    · exact MI_of_sameM (SameM_of_eq rfl rfl rfl) h
    · simp only []
      apply MI_of_sameM (SameM_release _ _)
      apply MI_of_sameM (SameM_startMerge _)
      apply MI_of_sameM (SameM_startConverter _)
      apply MI_startTagging
      have h0 : MI { s with jTag := none } := ⟨h.1, fun _ _ _ e => by cases e⟩
      have hsnap := h.2 jn snap held hj
      refine MI_of_sameM (SameM_tagflag _ false) ?_
      split
      · next ot hot =>
        split
        · have hp := MI_publish { s with jTag := none } name
            { snap with mat := union (diff snap.mat snap.unc) (ofList result), unc := [], color := ot.color, convs := ot.convs, refBy := ot.refBy }
            (by
              intro id hid
              rcases (mem_union _ _ _).1 hid with e | e
              · exact hsnap id ((mem_diff _ _ _).1 e).1
              · exact hr id ((mem_ofList _ _).1 e)) h0
          split
          · exact hp
          · exact MI_of_sameM (SameM_invalidateTags _ _ _ _) hp
        · exact h0
      · exact h0

theorem mi_convertDone (s : St) (st : Started) (h : MI s) :
    MI (step s .convertDone st).1 := by
  simp only [step]
  split
  · exact h
  · next sets held hj =>
    simp only []
    apply MI_of_sameM (SameM_release _ _)
    apply MI_of_sameM (SameM_startConverter _)
    apply MI_startTagging
    apply MI_of_sameM (SameM_inherit _)
    have h0 : MI { s with convert := false, jConv := none } := MI_of_sameM (SameM_of_eq rfl rfl rfl) h
    refine MI_of_sameM (SameM_foldl _ _ ?_ _) h0
    intro s' x
    split
    · exact SameM.refl _ _
    · refine ⟨rfl, rfl, fun hh => MB_map hh _ ?_⟩
      intro y
      split
      · split <;> rfl
      · split <;> rfl

theorem mi_markAdd (s : St) (st : Started) (name : String) (ids : List Nat) (h : MI s) :
    MI (step s (.markAdd name ids) st).1 := by
  simp only [step]
  split
  · exact h
  · split
    · exact h
    · split
      · exact h
      · split
        · exact h
        · next hlt =>
          simp only []
          apply MI_of_sameM (SameM_startConverter _)
          apply MI_startTagging
          refine MI_of_sameM (SameM_markUpdate _ _ _ _ ?_) h
          intro id hid
          have := le_foldl_max ids 0 id (Or.inl hid)
          omega

theorem mi_markDel (s : St) (st : Started) (name : String) (ids : List Nat) (h : MI s) :
    MI (step s (.markDel name ids) st).1 := by
  simp only [step]
  split
  · exact h
  · split
    · exact h
    · split
      · exact h
      · split
        · exact h
        · simp only []
          apply MI_of_sameM (SameM_startConverter _)
          apply MI_startTagging
          exact MI_of_sameM (SameM_markUpdate _ _ _ _ (by simp)) h

theorem mi_delTag (s : St) (st : Started) (name : String) (h : MI s) :
    MI (step s (.delTag name) st).1 := by
  simp only [step]
  split
  · exact h
  · next t ht =>
    split
    · exact h
    · simp only []
      refine MI_of_sameM (SameM_foldl _ _ (fun s r => SameM_delRefBy s r name) _) ?_
      have h1 : MI (t.convs.foldl (fun s c => detachConv s name c st.tag) s) :=
        foldl_inv MI _ _ (fun s c _ hs => MI_detachConv s name c st.tag hs) s h
      exact MI_of_sameM (s := t.convs.foldl (fun s c => detachConv s name c st.tag) s)
        ⟨rfl, rfl, fun hh => MB_sdel hh _⟩ h1
theorem SameM_setTag_bound {k : Nat} (s : St) (n : String) (t' : Tag) (hb : ∀ id ∈ t'.mat, id < k) :
    SameM k s (setTag s n t') := ⟨rfl, rfl, fun hh => MB_sins hh _ _ hb⟩

theorem mi_addTag (s : St) (st : Started) (name color defn : String) (f : Facts) (h : MI s)
    (hf : ∀ id ∈ f.ids, id < s.next) :
    MI (step s (.addTag name color defn f) st).1 := by
  simp only [step]
  rcases parseTagName name with ⟨typ, sub, isMark⟩
  simp only []
  split
  · exact h
  · split
    · exact h
    · split
      · exact h
      · split
        · exact h
        · split
          · exact h
          · split
            · exact h
            · simp only []
              refine MI_of_sameM (SameM_foldl _ _ (fun s r => SameM_addRefBy s r name) _) ?_
              cases isMark
              · simp only [Bool.false_eq_true, if_false]
                apply MI_startTagging
                exact MI_of_sameM (SameM_setTag_bound _ _ _ (by simp)) h
              · simp only [if_true]
                refine MI_of_sameM (SameM_setTag_bound _ _ _ ?_) h
                intro id hid
                exact hf id ((mem_ofList _ _).1 hid)

theorem mi_updQuery (s : St) (st : Started) (name defn : String) (f : Facts) (h : MI s) :
    MI (step s (.updQuery name defn f) st).1 := by
  simp only [step]
  split
  · exact h
  · split
    · exact h
    · split
      · exact h
      · split
        · exact h
        · next t ht =>
          split
          · exact h
          · split
            · exact h
            · split
              · exact h
              · simp only []
                apply MI_of_sameM (SameM_startConverter _)
                apply MI_startTagging
                apply MI_of_sameM (SameM_invDuring _ _)
                apply MI_of_sameM (SameM_inherit _)
                apply MI_of_sameM (SameM_setTag_bound _ _ _ (by simp))
                apply MI_of_sameM (SameM_foldl _ _ (fun s r => SameM_addRefBy s r name) _)
                exact MI_of_sameM (SameM_foldl _ _ (fun s r => SameM_delRefBy s r name) _) h

theorem mi_updName (s : St) (st : Started) (name new : String) (h : MI s) :
    MI (step s (.updName name new) st).1 := by
  simp only [step]
  split
  · exact h
  · next t ht =>
    split
    · exact h
    · rcases parseTagName name with ⟨oldTyp, x1, x2⟩
      rcases parseTagName new with ⟨newTyp, newSub, x3⟩
      simp only []
      split
      · exact h
      · split
        · exact h
        · split
          · exact h
          · split
            · exact h
            · simp only []
              refine MI_of_sameM (SameM_foldl _ _ (fun s r => (SameM_delRefBy s r name).trans (SameM_addRefBy _ r new)) _) ?_
              refine MI_of_sameM (s := s) ⟨rfl, rfl, fun hh => MB_sins (MB_sdel hh _) _ _ (MB_sget hh ht)⟩ h

theorem mi_updConv (s : St) (st : Started) (name : String) (convs : List String) (h : MI s) :
    MI (step s (.updConv name convs) st).1 := by
  simp only [step]
  split
  · exact h
  · next t ht =>
    split
    · exact h
    · simp only []
      apply MI_of_sameM (SameM_startConverter _)
      apply MI_of_sameM (SameM_foldl _ _ (fun s c => SameM_attachConv s name c) _)
      exact foldl_inv MI _ _ (fun s c _ hs => MI_detachConv s name c st.tag hs) s h
theorem MI_mono_next (s s' : St) (h1 : s'.tags = s.tags) (h2 : s.next ≤ s'.next) (h3 : s'.jTag = s.jTag)
    (h : MI s) : MI s' := by
  refine ⟨h1 ▸ MB_mono h.1 h2, ?_⟩
  rw [h3]
  intro n snap held e id hid
  exact Nat.lt_of_lt_of_le (h.2 n snap held e id hid) h2

theorem mi_importDone (s : St) (st : Started) (processed usednew : Nat)
    (created : List (Nat × List Nat)) (upd rst add : List Nat) (h : MI s)
    (hjn : ∀ jn held, s.jImport = some (jn, held) → s.next ≤ jn) :
    MI (step s (.importDone processed usednew created upd rst add) st).1 := by
  rw [step_importDone_eq]
  split
  · exact h
  · next jn held hj =>
    simp only []
    have hle := hjn jn held hj
    have hA : MI (impA s jn held usednew) := by
      unfold impA
      exact MI_of_sameM (SameM_release _ _)
        (MI_of_sameM (s' := { s with all := jn + usednew, jImport := none }) (SameM_of_eq rfl rfl rfl) h)
    have hAn : (impA s jn held usednew).next = s.next := by
      unfold impA
      exact (SameM_release (k := 0) _ _).next
    have hB : MI (impB (impA s jn held usednew) jn usednew created (ofList upd) (ofList rst) (ofList add)) := by
      unfold impB
      split
      · exact hA
      · simp only []
        apply MI_of_sameM (SameM_invalidateConverters _ _)
        apply MI_of_sameM (SameM_invalidateConverters _ _)
        apply MI_of_sameM (SameM_invalidateTags _ _ _ _)
        refine MI_mono_next (impA s jn held usednew) _ rfl ?_ rfl hA
        change (impA s jn held usednew).next ≤ jn + usednew
        omega
    have hC : MI (impC (impB (impA s jn held usednew) jn usednew created (ofList upd) (ofList rst) (ofList add)) processed) := by
      unfold impC
      simp only []
      split
      · exact MI_of_sameM (SameM_of_eq rfl rfl rfl) hB
      · exact MI_of_sameM (SameM_startImport _) (MI_of_sameM (SameM_of_eq rfl rfl rfl) hB)
    unfold impD
    exact MI_of_sameM (SameM_startMerge _) (MI_of_sameM (SameM_startConverter _) (MI_startTagging _ _ hC))

theorem mi_step (s : St) (e : Ev) (st : Started) (h : MI s) (hok : MatOK s e) : MI (step s e st).1 := by
  cases e with
  | nop => exact mi_nop s st h
  | importPcaps names => exact mi_importPcaps s st names h
  | importDone processed usednew created upd rst add =>
    exact mi_importDone s st processed usednew created upd rst add h hok
  | tagDone name result => exact mi_tagDone s st name result h hok
  | mergeDone merged => exact mi_mergeDone s st merged h
  | convertDone => exact mi_convertDone s st h
  | addTag name color defn f => exact mi_addTag s st name color defn f h hok
  | updQuery name defn f => exact mi_updQuery s st name defn f h
  | updColor name color => exact mi_updColor s st name color h
  | updName name new => exact mi_updName s st name new h
  | updConv name convs => exact mi_updConv s st name convs h
  | markAdd name ids => exact mi_markAdd s st name ids h
  | markDel name ids => exact mi_markDel s st name ids h
  | delTag name => exact mi_delTag s st name h
  | viewOpen k => exact mi_viewOpen s st k h
  | viewRelease k => exact mi_viewRelease s st k h
end Pk.Proofs.MgrConv
