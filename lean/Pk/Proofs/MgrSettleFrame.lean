/-
  Helper lemmas for C09, part 1: frame lemmas of the service-loop helpers (which fields each helper
  leaves unchanged).  The per-field statements are generated mechanically; all of them are proved
  by the `frame` tactic below (or by `markUpdate_frame`).
-/
import Pk.Model.Manager
import Pk.Proofs.MgrSettleAttr
namespace Pk.Proofs.MgrSettle
open Pk.Mgr

theorem foldl_frame' {β γ : Type _} {g : St → γ} {f : St → β → St} {l : List β} {X : St} {v : γ}
    (h : ∀ s x, g (f s x) = g s) (h0 : g X = v) : g (l.foldl f X) = v := by
  induction l generalizing X with
  | nil => exact h0
  | cons a l ih => simp only [List.foldl_cons]; exact ih (by rw [h]; exact h0)

/-- proves `(helper s …).field = s.field` after the helper has been unfolded -/
syntax "frame" : tactic
macro_rules | `(tactic| frame) => `(tactic|
  first
  | rfl
  | (refine foldl_frame' ?_ ?_
     · intro _ _; frame
     · frame)
  | (simp only [c09_frame]; try frame)
  | (dsimp only [getIndexesCopy] ; frame)
  | (split <;> frame))

theorem inherit_frame {γ} (g : St → γ) (h2 : ∀ s v, g {s with tags := v} = g s)
    (h4 : ∀ s v, g {s with diverged := v} = g s) (s : St) : g (inherit s) = g s := by
  unfold inherit
  generalize inheritLoop _ _ _ _ = p
  obtain ⟨a, b⟩ := p
  exact (h4 { s with tags := a } _).trans (h2 s a)

theorem markUpdate_frame {γ} (g : St → γ)
    (h1 : ∀ s v, g {s with toconv := v} = g s) (h2 : ∀ s v, g {s with tags := v} = g s)
    (h3 : ∀ s v, g {s with rst := v} = g s) (h4 : ∀ s v, g {s with diverged := v} = g s)
    (s : St) (n : String) (a d : List Nat) : g (markUpdate s n a d).1 = g s := by
  unfold markUpdate
  split
  · rfl
  · rename_i t ht
    split
    rename_i t' s' heq
    have hs' : g s' = g s := by
      have := congrArg (fun p => g p.2) heq
      dsimp only at this
      rw [← this]
      split
      · rfl
      · have : ∀ (l : List String) (fresh : List Nat) (X : St), g (l.foldl (fun s c => { s with toconv := sins c (union ((sget s.toconv c).getD []) fresh) s.toconv }) X) = g X := by
          intro l fresh X
          induction l generalizing X with
          | nil => rfl
          | cons c l ih => simp only [List.foldl_cons]; rw [ih, h1]
        split <;> exact this _ _ _
    dsimp only
    have hi : ∀ X ids, g (invalidatedDuringTaggingJob X ids) = g X := by
      intro X ids; unfold invalidatedDuringTaggingJob; split
      · exact h3 _ _
      · rfl
    split
    · unfold setTag; rw [h2, hi, inherit_frame g h2 h4, h2, hs']
    · rw [hi, inherit_frame g h2 h4]; unfold setTag; rw [h2, hs']

/-! ### generated frame lemmas -/
@[simp, c09_frame] theorem release_tags (s : St) (fs : List Nat) : (release s fs).tags = s.tags := by unfold release; frame
@[simp, c09_frame] theorem release_tag (s : St) (fs : List Nat) : (release s fs).tag = s.tag := by unfold release; frame
@[simp, c09_frame] theorem release_jTag (s : St) (fs : List Nat) : (release s fs).jTag = s.jTag := by unfold release; frame
@[simp, c09_frame] theorem release_merge (s : St) (fs : List Nat) : (release s fs).merge = s.merge := by unfold release; frame
@[simp, c09_frame] theorem release_jMerge (s : St) (fs : List Nat) : (release s fs).jMerge = s.jMerge := by unfold release; frame
@[simp, c09_frame] theorem release_convert (s : St) (fs : List Nat) : (release s fs).convert = s.convert := by unfold release; frame
@[simp, c09_frame] theorem release_jConv (s : St) (fs : List Nat) : (release s fs).jConv = s.jConv := by unfold release; frame
@[simp, c09_frame] theorem release_queue (s : St) (fs : List Nat) : (release s fs).queue = s.queue := by unfold release; frame
@[simp, c09_frame] theorem release_jImport (s : St) (fs : List Nat) : (release s fs).jImport = s.jImport := by unfold release; frame
@[simp, c09_frame] theorem release_convs (s : St) (fs : List Nat) : (release s fs).convs = s.convs := by unfold release; frame
@[simp, c09_frame] theorem release_toconv (s : St) (fs : List Nat) : (release s fs).toconv = s.toconv := by unfold release; frame
@[simp, c09_frame] theorem inherit_tag (s : St)  : (inherit s).tag = s.tag := by rfl
@[simp, c09_frame] theorem inherit_jTag (s : St)  : (inherit s).jTag = s.jTag := by rfl
@[simp, c09_frame] theorem inherit_merge (s : St)  : (inherit s).merge = s.merge := by rfl
@[simp, c09_frame] theorem inherit_jMerge (s : St)  : (inherit s).jMerge = s.jMerge := by rfl
@[simp, c09_frame] theorem inherit_convert (s : St)  : (inherit s).convert = s.convert := by rfl
@[simp, c09_frame] theorem inherit_jConv (s : St)  : (inherit s).jConv = s.jConv := by rfl
@[simp, c09_frame] theorem inherit_queue (s : St)  : (inherit s).queue = s.queue := by rfl
@[simp, c09_frame] theorem inherit_jImport (s : St)  : (inherit s).jImport = s.jImport := by rfl
@[simp, c09_frame] theorem inherit_convs (s : St)  : (inherit s).convs = s.convs := by rfl
@[simp, c09_frame] theorem inherit_toconv (s : St)  : (inherit s).toconv = s.toconv := by rfl
@[simp, c09_frame] theorem invalidateTags_tag (s : St) (a b c : IdSet) : (invalidateTags s a b c).tag = s.tag := by rfl
@[simp, c09_frame] theorem invalidateTags_jTag (s : St) (a b c : IdSet) : (invalidateTags s a b c).jTag = s.jTag := by rfl
@[simp, c09_frame] theorem invalidateTags_merge (s : St) (a b c : IdSet) : (invalidateTags s a b c).merge = s.merge := by rfl
@[simp, c09_frame] theorem invalidateTags_jMerge (s : St) (a b c : IdSet) : (invalidateTags s a b c).jMerge = s.jMerge := by rfl
@[simp, c09_frame] theorem invalidateTags_convert (s : St) (a b c : IdSet) : (invalidateTags s a b c).convert = s.convert := by rfl
@[simp, c09_frame] theorem invalidateTags_jConv (s : St) (a b c : IdSet) : (invalidateTags s a b c).jConv = s.jConv := by rfl
@[simp, c09_frame] theorem invalidateTags_queue (s : St) (a b c : IdSet) : (invalidateTags s a b c).queue = s.queue := by rfl
@[simp, c09_frame] theorem invalidateTags_jImport (s : St) (a b c : IdSet) : (invalidateTags s a b c).jImport = s.jImport := by rfl
@[simp, c09_frame] theorem invalidateTags_convs (s : St) (a b c : IdSet) : (invalidateTags s a b c).convs = s.convs := by rfl
@[simp, c09_frame] theorem invalidateTags_toconv (s : St) (a b c : IdSet) : (invalidateTags s a b c).toconv = s.toconv := by rfl
@[simp, c09_frame] theorem invalidatedDuringTaggingJob_tags (s : St) (ids : IdSet) : (invalidatedDuringTaggingJob s ids).tags = s.tags := by unfold invalidatedDuringTaggingJob; frame
@[simp, c09_frame] theorem invalidatedDuringTaggingJob_tag (s : St) (ids : IdSet) : (invalidatedDuringTaggingJob s ids).tag = s.tag := by unfold invalidatedDuringTaggingJob; frame
@[simp, c09_frame] theorem invalidatedDuringTaggingJob_jTag (s : St) (ids : IdSet) : (invalidatedDuringTaggingJob s ids).jTag = s.jTag := by unfold invalidatedDuringTaggingJob; frame
@[simp, c09_frame] theorem invalidatedDuringTaggingJob_merge (s : St) (ids : IdSet) : (invalidatedDuringTaggingJob s ids).merge = s.merge := by unfold invalidatedDuringTaggingJob; frame
@[simp, c09_frame] theorem invalidatedDuringTaggingJob_jMerge (s : St) (ids : IdSet) : (invalidatedDuringTaggingJob s ids).jMerge = s.jMerge := by unfold invalidatedDuringTaggingJob; frame
@[simp, c09_frame] theorem invalidatedDuringTaggingJob_convert (s : St) (ids : IdSet) : (invalidatedDuringTaggingJob s ids).convert = s.convert := by unfold invalidatedDuringTaggingJob; frame
@[simp, c09_frame] theorem invalidatedDuringTaggingJob_jConv (s : St) (ids : IdSet) : (invalidatedDuringTaggingJob s ids).jConv = s.jConv := by unfold invalidatedDuringTaggingJob; frame
@[simp, c09_frame] theorem invalidatedDuringTaggingJob_queue (s : St) (ids : IdSet) : (invalidatedDuringTaggingJob s ids).queue = s.queue := by unfold invalidatedDuringTaggingJob; frame
@[simp, c09_frame] theorem invalidatedDuringTaggingJob_jImport (s : St) (ids : IdSet) : (invalidatedDuringTaggingJob s ids).jImport = s.jImport := by unfold invalidatedDuringTaggingJob; frame
@[simp, c09_frame] theorem invalidatedDuringTaggingJob_convs (s : St) (ids : IdSet) : (invalidatedDuringTaggingJob s ids).convs = s.convs := by unfold invalidatedDuringTaggingJob; frame
@[simp, c09_frame] theorem invalidatedDuringTaggingJob_toconv (s : St) (ids : IdSet) : (invalidatedDuringTaggingJob s ids).toconv = s.toconv := by unfold invalidatedDuringTaggingJob; frame
@[simp, c09_frame] theorem invalidateConverters_tags (s : St) (u : IdSet) : (invalidateConverters s u).tags = s.tags := by unfold invalidateConverters; frame
@[simp, c09_frame] theorem invalidateConverters_tag (s : St) (u : IdSet) : (invalidateConverters s u).tag = s.tag := by unfold invalidateConverters; frame
@[simp, c09_frame] theorem invalidateConverters_jTag (s : St) (u : IdSet) : (invalidateConverters s u).jTag = s.jTag := by unfold invalidateConverters; frame
@[simp, c09_frame] theorem invalidateConverters_merge (s : St) (u : IdSet) : (invalidateConverters s u).merge = s.merge := by unfold invalidateConverters; frame
@[simp, c09_frame] theorem invalidateConverters_jMerge (s : St) (u : IdSet) : (invalidateConverters s u).jMerge = s.jMerge := by unfold invalidateConverters; frame
@[simp, c09_frame] theorem invalidateConverters_convert (s : St) (u : IdSet) : (invalidateConverters s u).convert = s.convert := by unfold invalidateConverters; frame
@[simp, c09_frame] theorem invalidateConverters_jConv (s : St) (u : IdSet) : (invalidateConverters s u).jConv = s.jConv := by unfold invalidateConverters; frame
@[simp, c09_frame] theorem invalidateConverters_queue (s : St) (u : IdSet) : (invalidateConverters s u).queue = s.queue := by unfold invalidateConverters; frame
@[simp, c09_frame] theorem invalidateConverters_jImport (s : St) (u : IdSet) : (invalidateConverters s u).jImport = s.jImport := by unfold invalidateConverters; frame
@[simp, c09_frame] theorem invalidateConverters_convs (s : St) (u : IdSet) : (invalidateConverters s u).convs = s.convs := by unfold invalidateConverters; frame
@[simp, c09_frame] theorem getIndexesCopy_tags (s : St) (n : Nat) : ((getIndexesCopy s n).1).tags = s.tags := by rfl
@[simp, c09_frame] theorem getIndexesCopy_tag (s : St) (n : Nat) : ((getIndexesCopy s n).1).tag = s.tag := by rfl
@[simp, c09_frame] theorem getIndexesCopy_jTag (s : St) (n : Nat) : ((getIndexesCopy s n).1).jTag = s.jTag := by rfl
@[simp, c09_frame] theorem getIndexesCopy_merge (s : St) (n : Nat) : ((getIndexesCopy s n).1).merge = s.merge := by rfl
@[simp, c09_frame] theorem getIndexesCopy_jMerge (s : St) (n : Nat) : ((getIndexesCopy s n).1).jMerge = s.jMerge := by rfl
@[simp, c09_frame] theorem getIndexesCopy_convert (s : St) (n : Nat) : ((getIndexesCopy s n).1).convert = s.convert := by rfl
@[simp, c09_frame] theorem getIndexesCopy_jConv (s : St) (n : Nat) : ((getIndexesCopy s n).1).jConv = s.jConv := by rfl
@[simp, c09_frame] theorem getIndexesCopy_queue (s : St) (n : Nat) : ((getIndexesCopy s n).1).queue = s.queue := by rfl
@[simp, c09_frame] theorem getIndexesCopy_jImport (s : St) (n : Nat) : ((getIndexesCopy s n).1).jImport = s.jImport := by rfl
@[simp, c09_frame] theorem getIndexesCopy_convs (s : St) (n : Nat) : ((getIndexesCopy s n).1).convs = s.convs := by rfl
@[simp, c09_frame] theorem getIndexesCopy_toconv (s : St) (n : Nat) : ((getIndexesCopy s n).1).toconv = s.toconv := by rfl
@[simp, c09_frame] theorem startMerge_tags (s : St)  : (startMerge s).tags = s.tags := by unfold startMerge; frame
@[simp, c09_frame] theorem startMerge_tag (s : St)  : (startMerge s).tag = s.tag := by unfold startMerge; frame
@[simp, c09_frame] theorem startMerge_jTag (s : St)  : (startMerge s).jTag = s.jTag := by unfold startMerge; frame
@[simp, c09_frame] theorem startMerge_convert (s : St)  : (startMerge s).convert = s.convert := by unfold startMerge; frame
@[simp, c09_frame] theorem startMerge_jConv (s : St)  : (startMerge s).jConv = s.jConv := by unfold startMerge; frame
@[simp, c09_frame] theorem startMerge_queue (s : St)  : (startMerge s).queue = s.queue := by unfold startMerge; frame
@[simp, c09_frame] theorem startMerge_jImport (s : St)  : (startMerge s).jImport = s.jImport := by unfold startMerge; frame
@[simp, c09_frame] theorem startMerge_convs (s : St)  : (startMerge s).convs = s.convs := by unfold startMerge; frame
@[simp, c09_frame] theorem startMerge_toconv (s : St)  : (startMerge s).toconv = s.toconv := by unfold startMerge; frame
@[simp, c09_frame] theorem startTagging_tags (s : St) (c : Option String) : (startTagging s c).tags = s.tags := by unfold startTagging; frame
@[simp, c09_frame] theorem startTagging_merge (s : St) (c : Option String) : (startTagging s c).merge = s.merge := by unfold startTagging; frame
@[simp, c09_frame] theorem startTagging_jMerge (s : St) (c : Option String) : (startTagging s c).jMerge = s.jMerge := by unfold startTagging; frame
@[simp, c09_frame] theorem startTagging_convert (s : St) (c : Option String) : (startTagging s c).convert = s.convert := by unfold startTagging; frame
@[simp, c09_frame] theorem startTagging_jConv (s : St) (c : Option String) : (startTagging s c).jConv = s.jConv := by unfold startTagging; frame
@[simp, c09_frame] theorem startTagging_queue (s : St) (c : Option String) : (startTagging s c).queue = s.queue := by unfold startTagging; frame
@[simp, c09_frame] theorem startTagging_jImport (s : St) (c : Option String) : (startTagging s c).jImport = s.jImport := by unfold startTagging; frame
@[simp, c09_frame] theorem startTagging_convs (s : St) (c : Option String) : (startTagging s c).convs = s.convs := by unfold startTagging; frame
@[simp, c09_frame] theorem startTagging_toconv (s : St) (c : Option String) : (startTagging s c).toconv = s.toconv := by unfold startTagging; frame
@[simp, c09_frame] theorem startConverter_tags (s : St)  : (startConverter s).tags = s.tags := by unfold startConverter; frame
@[simp, c09_frame] theorem startConverter_tag (s : St)  : (startConverter s).tag = s.tag := by unfold startConverter; frame
@[simp, c09_frame] theorem startConverter_jTag (s : St)  : (startConverter s).jTag = s.jTag := by unfold startConverter; frame
@[simp, c09_frame] theorem startConverter_merge (s : St)  : (startConverter s).merge = s.merge := by unfold startConverter; frame
@[simp, c09_frame] theorem startConverter_jMerge (s : St)  : (startConverter s).jMerge = s.jMerge := by unfold startConverter; frame
@[simp, c09_frame] theorem startConverter_queue (s : St)  : (startConverter s).queue = s.queue := by unfold startConverter; frame
@[simp, c09_frame] theorem startConverter_jImport (s : St)  : (startConverter s).jImport = s.jImport := by unfold startConverter; frame
@[simp, c09_frame] theorem startConverter_convs (s : St)  : (startConverter s).convs = s.convs := by unfold startConverter; frame
@[simp, c09_frame] theorem startImport_tags (s : St)  : (startImport s).tags = s.tags := by unfold startImport; frame
@[simp, c09_frame] theorem startImport_tag (s : St)  : (startImport s).tag = s.tag := by unfold startImport; frame
@[simp, c09_frame] theorem startImport_jTag (s : St)  : (startImport s).jTag = s.jTag := by unfold startImport; frame
@[simp, c09_frame] theorem startImport_merge (s : St)  : (startImport s).merge = s.merge := by unfold startImport; frame
@[simp, c09_frame] theorem startImport_jMerge (s : St)  : (startImport s).jMerge = s.jMerge := by unfold startImport; frame
@[simp, c09_frame] theorem startImport_convert (s : St)  : (startImport s).convert = s.convert := by unfold startImport; frame
@[simp, c09_frame] theorem startImport_jConv (s : St)  : (startImport s).jConv = s.jConv := by unfold startImport; frame
@[simp, c09_frame] theorem startImport_queue (s : St)  : (startImport s).queue = s.queue := by unfold startImport; frame
@[simp, c09_frame] theorem startImport_convs (s : St)  : (startImport s).convs = s.convs := by unfold startImport; frame
@[simp, c09_frame] theorem startImport_toconv (s : St)  : (startImport s).toconv = s.toconv := by unfold startImport; frame
@[simp, c09_frame] theorem setTag_tag (s : St) (n : String) (t : Tag) : (setTag s n t).tag = s.tag := by rfl
@[simp, c09_frame] theorem setTag_jTag (s : St) (n : String) (t : Tag) : (setTag s n t).jTag = s.jTag := by rfl
@[simp, c09_frame] theorem setTag_merge (s : St) (n : String) (t : Tag) : (setTag s n t).merge = s.merge := by rfl
@[simp, c09_frame] theorem setTag_jMerge (s : St) (n : String) (t : Tag) : (setTag s n t).jMerge = s.jMerge := by rfl
@[simp, c09_frame] theorem setTag_convert (s : St) (n : String) (t : Tag) : (setTag s n t).convert = s.convert := by rfl
@[simp, c09_frame] theorem setTag_jConv (s : St) (n : String) (t : Tag) : (setTag s n t).jConv = s.jConv := by rfl
@[simp, c09_frame] theorem setTag_queue (s : St) (n : String) (t : Tag) : (setTag s n t).queue = s.queue := by rfl
@[simp, c09_frame] theorem setTag_jImport (s : St) (n : String) (t : Tag) : (setTag s n t).jImport = s.jImport := by rfl
@[simp, c09_frame] theorem setTag_convs (s : St) (n : String) (t : Tag) : (setTag s n t).convs = s.convs := by rfl
@[simp, c09_frame] theorem setTag_toconv (s : St) (n : String) (t : Tag) : (setTag s n t).toconv = s.toconv := by rfl
@[simp, c09_frame] theorem addRefBy_tag (s : St) (a b : String) : (addRefBy s a b).tag = s.tag := by unfold addRefBy; frame
@[simp, c09_frame] theorem addRefBy_jTag (s : St) (a b : String) : (addRefBy s a b).jTag = s.jTag := by unfold addRefBy; frame
@[simp, c09_frame] theorem addRefBy_merge (s : St) (a b : String) : (addRefBy s a b).merge = s.merge := by unfold addRefBy; frame
@[simp, c09_frame] theorem addRefBy_jMerge (s : St) (a b : String) : (addRefBy s a b).jMerge = s.jMerge := by unfold addRefBy; frame
@[simp, c09_frame] theorem addRefBy_convert (s : St) (a b : String) : (addRefBy s a b).convert = s.convert := by unfold addRefBy; frame
@[simp, c09_frame] theorem addRefBy_jConv (s : St) (a b : String) : (addRefBy s a b).jConv = s.jConv := by unfold addRefBy; frame
@[simp, c09_frame] theorem addRefBy_queue (s : St) (a b : String) : (addRefBy s a b).queue = s.queue := by unfold addRefBy; frame
@[simp, c09_frame] theorem addRefBy_jImport (s : St) (a b : String) : (addRefBy s a b).jImport = s.jImport := by unfold addRefBy; frame
@[simp, c09_frame] theorem addRefBy_convs (s : St) (a b : String) : (addRefBy s a b).convs = s.convs := by unfold addRefBy; frame
@[simp, c09_frame] theorem addRefBy_toconv (s : St) (a b : String) : (addRefBy s a b).toconv = s.toconv := by unfold addRefBy; frame
@[simp, c09_frame] theorem delRefBy_tag (s : St) (a b : String) : (delRefBy s a b).tag = s.tag := by unfold delRefBy; frame
@[simp, c09_frame] theorem delRefBy_jTag (s : St) (a b : String) : (delRefBy s a b).jTag = s.jTag := by unfold delRefBy; frame
@[simp, c09_frame] theorem delRefBy_merge (s : St) (a b : String) : (delRefBy s a b).merge = s.merge := by unfold delRefBy; frame
@[simp, c09_frame] theorem delRefBy_jMerge (s : St) (a b : String) : (delRefBy s a b).jMerge = s.jMerge := by unfold delRefBy; frame
@[simp, c09_frame] theorem delRefBy_convert (s : St) (a b : String) : (delRefBy s a b).convert = s.convert := by unfold delRefBy; frame
@[simp, c09_frame] theorem delRefBy_jConv (s : St) (a b : String) : (delRefBy s a b).jConv = s.jConv := by unfold delRefBy; frame
@[simp, c09_frame] theorem delRefBy_queue (s : St) (a b : String) : (delRefBy s a b).queue = s.queue := by unfold delRefBy; frame
@[simp, c09_frame] theorem delRefBy_jImport (s : St) (a b : String) : (delRefBy s a b).jImport = s.jImport := by unfold delRefBy; frame
@[simp, c09_frame] theorem delRefBy_convs (s : St) (a b : String) : (delRefBy s a b).convs = s.convs := by unfold delRefBy; frame
@[simp, c09_frame] theorem delRefBy_toconv (s : St) (a b : String) : (delRefBy s a b).toconv = s.toconv := by unfold delRefBy; frame
@[simp, c09_frame] theorem attachConv_tag (s : St) (n c : String) : ((attachConv s n c).1).tag = s.tag := by unfold attachConv; frame
@[simp, c09_frame] theorem attachConv_jTag (s : St) (n c : String) : ((attachConv s n c).1).jTag = s.jTag := by unfold attachConv; frame
@[simp, c09_frame] theorem attachConv_merge (s : St) (n c : String) : ((attachConv s n c).1).merge = s.merge := by unfold attachConv; frame
@[simp, c09_frame] theorem attachConv_jMerge (s : St) (n c : String) : ((attachConv s n c).1).jMerge = s.jMerge := by unfold attachConv; frame
@[simp, c09_frame] theorem attachConv_convert (s : St) (n c : String) : ((attachConv s n c).1).convert = s.convert := by unfold attachConv; frame
@[simp, c09_frame] theorem attachConv_jConv (s : St) (n c : String) : ((attachConv s n c).1).jConv = s.jConv := by unfold attachConv; frame
@[simp, c09_frame] theorem attachConv_queue (s : St) (n c : String) : ((attachConv s n c).1).queue = s.queue := by unfold attachConv; frame
@[simp, c09_frame] theorem attachConv_jImport (s : St) (n c : String) : ((attachConv s n c).1).jImport = s.jImport := by unfold attachConv; frame
@[simp, c09_frame] theorem attachConv_convs (s : St) (n c : String) : ((attachConv s n c).1).convs = s.convs := by unfold attachConv; frame
-- CHANGED (dropped): frame lemmas of `outputDropped` (it changes `tags`, `tag`, `jTag`, `used`, the masks, `diverged`, `badChoice`)
@[simp, c09_frame] theorem outputDropped_merge (s : St) (ch : Option String) : (outputDropped s ch).merge = s.merge := by unfold outputDropped; frame
@[simp, c09_frame] theorem outputDropped_jMerge (s : St) (ch : Option String) : (outputDropped s ch).jMerge = s.jMerge := by unfold outputDropped; frame
@[simp, c09_frame] theorem outputDropped_convert (s : St) (ch : Option String) : (outputDropped s ch).convert = s.convert := by unfold outputDropped; frame
@[simp, c09_frame] theorem outputDropped_jConv (s : St) (ch : Option String) : (outputDropped s ch).jConv = s.jConv := by unfold outputDropped; frame
@[simp, c09_frame] theorem outputDropped_queue (s : St) (ch : Option String) : (outputDropped s ch).queue = s.queue := by unfold outputDropped; frame
@[simp, c09_frame] theorem outputDropped_jImport (s : St) (ch : Option String) : (outputDropped s ch).jImport = s.jImport := by unfold outputDropped; frame
@[simp, c09_frame] theorem outputDropped_convs (s : St) (ch : Option String) : (outputDropped s ch).convs = s.convs := by unfold outputDropped; frame
@[simp, c09_frame] theorem outputDropped_toconv (s : St) (ch : Option String) : (outputDropped s ch).toconv = s.toconv := by unfold outputDropped; frame
-- CHANGED (dropped): `detachConv_tag`, `detachConv_jTag` removed (false now: `detachConv` may start a tagging job);
-- the remaining ones take the tagging choice
@[simp, c09_frame] theorem detachConv_merge (s : St) (n c : String) (ch : Option String := none) : (detachConv s n c ch).merge = s.merge := by unfold detachConv; frame  -- CHANGED (dropped)
@[simp, c09_frame] theorem detachConv_jMerge (s : St) (n c : String) (ch : Option String := none) : (detachConv s n c ch).jMerge = s.jMerge := by unfold detachConv; frame  -- CHANGED (dropped)
@[simp, c09_frame] theorem detachConv_convert (s : St) (n c : String) (ch : Option String := none) : (detachConv s n c ch).convert = s.convert := by unfold detachConv; frame  -- CHANGED (dropped)
@[simp, c09_frame] theorem detachConv_jConv (s : St) (n c : String) (ch : Option String := none) : (detachConv s n c ch).jConv = s.jConv := by unfold detachConv; frame  -- CHANGED (dropped)
@[simp, c09_frame] theorem detachConv_queue (s : St) (n c : String) (ch : Option String := none) : (detachConv s n c ch).queue = s.queue := by unfold detachConv; frame  -- CHANGED (dropped)
@[simp, c09_frame] theorem detachConv_jImport (s : St) (n c : String) (ch : Option String := none) : (detachConv s n c ch).jImport = s.jImport := by unfold detachConv; frame  -- CHANGED (dropped)
@[simp, c09_frame] theorem detachConv_convs (s : St) (n c : String) (ch : Option String := none) : (detachConv s n c ch).convs = s.convs := by unfold detachConv; frame  -- CHANGED (dropped)
@[simp, c09_frame] theorem markUpdate_tag (s : St) (n : String) (a d : List Nat) : ((markUpdate s n a d).1).tag = s.tag :=
  markUpdate_frame (·.tag) (fun _ _ => rfl) (fun _ _ => rfl) (fun _ _ => rfl) (fun _ _ => rfl) s n a d
@[simp, c09_frame] theorem markUpdate_jTag (s : St) (n : String) (a d : List Nat) : ((markUpdate s n a d).1).jTag = s.jTag :=
  markUpdate_frame (·.jTag) (fun _ _ => rfl) (fun _ _ => rfl) (fun _ _ => rfl) (fun _ _ => rfl) s n a d
@[simp, c09_frame] theorem markUpdate_merge (s : St) (n : String) (a d : List Nat) : ((markUpdate s n a d).1).merge = s.merge :=
  markUpdate_frame (·.merge) (fun _ _ => rfl) (fun _ _ => rfl) (fun _ _ => rfl) (fun _ _ => rfl) s n a d
@[simp, c09_frame] theorem markUpdate_jMerge (s : St) (n : String) (a d : List Nat) : ((markUpdate s n a d).1).jMerge = s.jMerge :=
  markUpdate_frame (·.jMerge) (fun _ _ => rfl) (fun _ _ => rfl) (fun _ _ => rfl) (fun _ _ => rfl) s n a d
@[simp, c09_frame] theorem markUpdate_convert (s : St) (n : String) (a d : List Nat) : ((markUpdate s n a d).1).convert = s.convert :=
  markUpdate_frame (·.convert) (fun _ _ => rfl) (fun _ _ => rfl) (fun _ _ => rfl) (fun _ _ => rfl) s n a d
@[simp, c09_frame] theorem markUpdate_jConv (s : St) (n : String) (a d : List Nat) : ((markUpdate s n a d).1).jConv = s.jConv :=
  markUpdate_frame (·.jConv) (fun _ _ => rfl) (fun _ _ => rfl) (fun _ _ => rfl) (fun _ _ => rfl) s n a d
@[simp, c09_frame] theorem markUpdate_queue (s : St) (n : String) (a d : List Nat) : ((markUpdate s n a d).1).queue = s.queue :=
  markUpdate_frame (·.queue) (fun _ _ => rfl) (fun _ _ => rfl) (fun _ _ => rfl) (fun _ _ => rfl) s n a d
@[simp, c09_frame] theorem markUpdate_jImport (s : St) (n : String) (a d : List Nat) : ((markUpdate s n a d).1).jImport = s.jImport :=
  markUpdate_frame (·.jImport) (fun _ _ => rfl) (fun _ _ => rfl) (fun _ _ => rfl) (fun _ _ => rfl) s n a d
@[simp, c09_frame] theorem markUpdate_convs (s : St) (n : String) (a d : List Nat) : ((markUpdate s n a d).1).convs = s.convs :=
  markUpdate_frame (·.convs) (fun _ _ => rfl) (fun _ _ => rfl) (fun _ _ => rfl) (fun _ _ => rfl) s n a d

end Pk.Proofs.MgrSettle
