/-
  Two concurrent uploads of one name under the expected facts (O_CREATE|O_EXCL, guard, remove on
  failed copy, one ImportPcaps): the invariant behind `upload_exclusive` (property C19).
-/
import Pk.Model.Upload
import Pk.Proofs.Upload

namespace Pk.Upload
open Pk.Path

/-- the request currently "has" the file it created -/
def holds (r : Req) : Bool :=
  match r.pc with
  | .start => false
  | .done => r.code = 200
  | _ => true

/-- ... and the file holds the complete body -/
def complete (r : Req) : Bool :=
  match r.pc with
  | .copied | .closed => true
  | .done => r.code = 200
  | _ => false

def succ (r : Req) : Nat := if r.pc = .done ∧ r.code = 200 then 1 else 0

def Own (c : Cfg) (d0 : Disk) (w : World) (r : Req) : Prop :=
  (holds r = true → ∃ f, w.disk.lookup (c.full r.param) = some (.file f) ∧ f.owner = r.id) ∧
  (holds r = true → d0.lookup (c.full r.param) = none) ∧
  (complete r = true → w.disk.lookup (c.full r.param) = some (.file ⟨r.body, none, r.id⟩))

structure Inv (c : Cfg) (d0 : Disk) (q0 : List P) (n : P) (w : World) (a b : Req) : Prop where
  pa : a.param = n
  pb : b.param = n
  ne : a.id ≠ b.id
  oa : Own c d0 w a
  ob : Own c d0 w b
  frame : ∀ k, k ≠ c.full n → w.disk.lookup k = d0.lookup k
  absent : holds a = false → holds b = false → w.disk.lookup (c.full n) = d0.lookup (c.full n)
  queue : w.queue = q0 ++ List.replicate (succ a + succ b) n

theorem Inv.symm {c d0 q0 n w a b} (h : Inv c d0 q0 n w a b) : Inv c d0 q0 n w b a :=
  { pa := h.pb, pb := h.pa, ne := fun e => h.ne e.symm, oa := h.ob, ob := h.oa, frame := h.frame,
    absent := fun hb ha => h.absent ha hb, queue := by rw [Nat.add_comm]; exact h.queue }

/-- not both requests can have the file -/
theorem Inv.excl {c d0 q0 n w a b} (h : Inv c d0 q0 n w a b) : ¬ (holds a = true ∧ holds b = true) := by
  intro ⟨ha, hb⟩
  obtain ⟨fa, h1, h2⟩ := h.oa.1 ha
  obtain ⟨fb, h3, h4⟩ := h.ob.1 hb
  rw [h.pa] at h1; rw [h.pb] at h3
  rw [h1] at h3
  injection h3 with h3; injection h3 with h3
  subst h3
  exact h.ne (h2.symm.trans h4)

theorem complete_holds (r : Req) (h : complete r = true) : holds r = true := by
  unfold complete at h; unfold holds
  cases hpc : r.pc <;> simp_all

/-- one atomic step of the first request preserves the invariant (expected facts) -/
theorem Inv.step_left {c d0 q0 n w a b} (hf : c.facts = Facts.expected) (h : Inv c d0 q0 n w a b) :
    Inv c d0 q0 n (step c w a).1 (step c w a).2 b := by
  have hex := h.excl
  obtain ⟨pa, pb, ne, oa, ob, frame, absent, queue⟩ := h
  obtain ⟨oa1, oa2, oa3⟩ := oa
  obtain ⟨ob1, ob2, ob3⟩ := ob
  have hfull : c.full a.param = c.full n := by rw [pa]
  have hfullb : c.full b.param = c.full n := by rw [pb]
  cases hpc : a.pc
  case done =>
    have : step c w a = (w, a) := by simp [step, hpc]
    rw [this]
    exact ⟨pa, pb, ne, ⟨oa1, oa2, oa3⟩, ⟨ob1, ob2, ob3⟩, frame, absent, queue⟩
  case copyFailed =>
    have : step c w a = (w, { a with pc := .cfClosed }) := by simp [step, hpc]
    rw [this]
    have hha : holds a = true := by simp [holds, hpc]
    refine ⟨pa, pb, ne, ⟨?_, ?_, ?_⟩, ⟨ob1, ob2, ob3⟩, frame, ?_, ?_⟩
    · intro _; exact oa1 hha
    · intro _; exact oa2 hha
    · intro hc; simp [complete] at hc
    · intro hc; simp [holds] at hc
    · simpa [succ, hpc] using queue
  case copied =>
    have : step c w a = (w, { a with pc := .closed }) := by simp [step, hpc]
    rw [this]
    have hha : holds a = true := by simp [holds, hpc]
    have hca : complete a = true := by simp [complete, hpc]
    refine ⟨pa, pb, ne, ⟨?_, ?_, ?_⟩, ⟨ob1, ob2, ob3⟩, frame, ?_, ?_⟩
    · intro _; exact oa1 hha
    · intro _; exact oa2 hha
    · intro _; exact oa3 hca
    · intro hc; simp [holds] at hc
    · simpa [succ, hpc] using queue
  case closed =>
    have : step c w a = ({ w with queue := w.queue ++ [a.param] }, { a with pc := .done, code := 200 }) := by
      simp [step, hpc, hf, Facts.expected, finish]
    rw [this]
    have hha : holds a = true := by simp [holds, hpc]
    have hca : complete a = true := by simp [complete, hpc]
    refine ⟨pa, pb, ne, ⟨?_, ?_, ?_⟩, ⟨ob1, ob2, ob3⟩, frame, ?_, ?_⟩
    · intro _; exact oa1 hha
    · intro _; exact oa2 hha
    · intro _; exact oa3 hca
    · intro hc; simp [holds] at hc
    · have hs : succ a = 0 := by simp [succ, hpc]
      have hs' : ∀ r : Req, r.pc = .done → r.code = 200 → succ r = 1 := by
        intro r h1 h2; simp [succ, h1, h2]
      simp only [queue, hs, pa]
      rw [hs' { id := a.id, param := n, body := a.body, failAt := a.failAt, pc := Pc.done, code := 200 } rfl rfl,
        Nat.zero_add, Nat.add_comm 1, List.replicate_succ', List.append_assoc]
  case cfClosed =>
    have hha : holds a = true := by simp [holds, hpc]
    obtain ⟨f, hl, hown⟩ := oa1 hha
    have hd0 := oa2 hha
    have hnb : holds b = false := by
      cases hb : holds b
      · rfl
      · exact absurd ⟨hha, hb⟩ hex
    have : step c w a = ({ w with disk := w.disk.erase (c.full a.param) }, { a with pc := .done, code := 500 }) := by
      simp [step, hpc, hf, Facts.expected, finish, hl]
    rw [this]
    refine ⟨pa, pb, ne, ⟨?_, ?_, ?_⟩, ⟨?_, ?_, ?_⟩, ?_, ?_, ?_⟩
    · intro hc; simp [holds] at hc
    · intro hc; simp [holds] at hc
    · intro hc; simp [complete] at hc
    · intro hc; rw [hnb] at hc; cases hc
    · intro hc; rw [hnb] at hc; cases hc
    · intro hc; have := complete_holds b hc; rw [hnb] at this; cases this
    · intro k hk
      simp only []
      rw [lookup_erase_ne _ _ _ (by rw [hfull]; exact hk)]
      exact frame k hk
    · intro _ _
      simp only []
      rw [hfull, lookup_erase_self, ← hfull, hd0]
    · simpa [succ, hpc] using queue
  case opened =>
    have hha : holds a = true := by simp [holds, hpc]
    obtain ⟨f, hl, hown⟩ := oa1 hha
    have hd0 := oa2 hha
    have hnb : holds b = false := by
      cases hb : holds b
      · rfl
      · exact absurd ⟨hha, hb⟩ hex
    have : step c w a = ({ w with disk := w.disk.insert (c.full a.param) (.file { f with body := a.body, upto := a.failAt }) },
        { a with pc := if a.failAt.isSome then .copyFailed else .copied }) := by
      simp [step, hpc, hl]
    rw [this]
    refine ⟨pa, pb, ne, ⟨?_, ?_, ?_⟩, ⟨?_, ?_, ?_⟩, ?_, ?_, ?_⟩
    · intro _
      exact ⟨_, lookup_insert_self _ _ _, hown⟩
    · intro _; exact hd0
    · intro hc
      simp only []
      rw [lookup_insert_self]
      cases hfa : a.failAt with
      | none => simp [← hown]
      | some k => simp [complete, hfa] at hc
    · intro hc; rw [hnb] at hc; cases hc
    · intro hc; rw [hnb] at hc; cases hc
    · intro hc; have := complete_holds b hc; rw [hnb] at this; cases this
    · intro k hk
      simp only []
      rw [lookup_insert_ne _ _ _ _ (by rw [hfull]; exact hk)]
      exact frame k hk
    · intro hc; cases hfa : a.failAt <;> simp [holds, hfa] at hc
    · have : succ ({ a with pc := if a.failAt.isSome then Pc.copyFailed else Pc.copied } : Req) = 0 := by
        cases hfa : a.failAt <;> simp [succ]
      rw [this]
      simpa [succ, hpc] using queue
  case start =>
    have hna : holds a = false := by simp [holds, hpc]
    have hsa : succ a = 0 := by simp [succ, hpc]
    -- all rejecting branches leave the world alone and finish with a non-200 code
    have rej : ∀ code, code ≠ 200 → Inv c d0 q0 n w (finish a code) b := by
      intro code hcode
      refine ⟨pa, pb, ne, ⟨?_, ?_, ?_⟩, ⟨ob1, ob2, ob3⟩, frame, ?_, ?_⟩
      · intro hc; simp [holds, finish, hcode] at hc
      · intro hc; simp [holds, finish, hcode] at hc
      · intro hc; simp [complete, finish, hcode] at hc
      · intro _ hb; exact absent hna hb
      · have : succ (finish a code) = 0 := by simp [succ, finish, hcode]
        rw [this, ← hsa]; exact queue
    by_cases hg : a.param ≠ base a.param
    · have : step c w a = (w, finish a 400) := by simp [step, hpc, hf, Facts.expected, hg]
      rw [this]; exact rej 400 (by decide)
    · by_cases hsys : sysRejects (c.full a.param) = true
      · have : step c w a = (w, finish a 500) := by
          simp only [step, hpc, hf, Facts.expected]
          simp [hg, hsys]
        rw [this]; exact rej 500 (by decide)
      · cases hl : w.disk.lookup (c.full a.param) with
        | some e =>
          have : step c w a = (w, finish a 500) := by
            simp only [step, hpc, hf, Facts.expected]
            cases e <;> simp [hg, hsys, hl]
          rw [this]; exact rej 500 (by decide)
        | none =>
          have hnb : holds b = false := by
            cases hb : holds b
            · rfl
            · obtain ⟨f, h1, _⟩ := ob1 hb
              rw [hfullb, ← hfull, hl] at h1; cases h1
          have hd0 : d0.lookup (c.full a.param) = none := by
            rw [hfull, ← absent hna hnb, ← hfull]; exact hl
          have : step c w a = ({ w with disk := w.disk.insert (c.full a.param) (.file ⟨a.body, some 0, a.id⟩) },
              { a with pc := .opened }) := by
            simp only [step, hpc, hf, Facts.expected]
            simp [hg, hsys, hl]
          rw [this]
          refine ⟨pa, pb, ne, ⟨?_, ?_, ?_⟩, ⟨?_, ?_, ?_⟩, ?_, ?_, ?_⟩
          · intro _; exact ⟨_, lookup_insert_self _ _ _, rfl⟩
          · intro _; exact hd0
          · intro hc; simp [complete] at hc
          · intro hc; rw [hnb] at hc; cases hc
          · intro hc; rw [hnb] at hc; cases hc
          · intro hc; have := complete_holds b hc; rw [hnb] at this; cases this
          · intro k hk
            simp only []
            rw [lookup_insert_ne _ _ _ _ (by rw [hfull]; exact hk)]
            exact frame k hk
          · intro hc; simp [holds] at hc
          · simpa [succ, hpc] using queue

theorem Inv.step_right {c d0 q0 n w a b} (hf : c.facts = Facts.expected) (h : Inv c d0 q0 n w a b) :
    Inv c d0 q0 n (step c w b).1 a (step c w b).2 :=
  (Inv.step_left hf h.symm).symm

/-! ### identity of a request is not changed by its steps -/

def SameReq (r r0 : Req) : Prop := r.id = r0.id ∧ r.param = r0.param ∧ r.body = r0.body ∧ r.failAt = r0.failAt

theorem step_same (c : Cfg) (w : World) (r : Req) : SameReq (step c w r).2 r := by
  unfold step SameReq
  cases r.pc <;> simp only [finish] <;> (repeat' split) <;> simp

theorem SameReq.trans {a b c : Req} (h1 : SameReq a b) (h2 : SameReq b c) : SameReq a c :=
  ⟨h1.1.trans h2.1, h1.2.1.trans h2.2.1, h1.2.2.1.trans h2.2.2.1, h1.2.2.2.trans h2.2.2.2⟩

/-! ### progress: without copy failures and with an acceptable fresh name, a request only fails
    because the other one has the file -/

def okPc (r : Req) : Prop := r.pc ≠ .copyFailed ∧ r.pc ≠ .cfClosed

structure Live (c : Cfg) (d0 : Disk) (n : P) (a b : Req) : Prop where
  fa : a.failAt = none
  fb : b.failAt = none
  ka : okPc a
  kb : okPc b
  guard : n = base n
  sys : sysRejects (c.full n) = false
  fresh : d0.lookup (c.full n) = none
  la : a.pc = .done → a.code ≠ 200 → (a.code = 500 ∧ holds b = true)
  lb : b.pc = .done → b.code ≠ 200 → (b.code = 500 ∧ holds a = true)

theorem Live.symm {c d0 n a b} (h : Live c d0 n a b) : Live c d0 n b a :=
  { fa := h.fb, fb := h.fa, ka := h.kb, kb := h.ka, guard := h.guard, sys := h.sys, fresh := h.fresh,
    la := h.lb, lb := h.la }

theorem Live.step_left {c d0 q0 n w a b} (hf : c.facts = Facts.expected) (hi : Inv c d0 q0 n w a b)
    (h : Live c d0 n a b) : Live c d0 n (step c w a).2 b := by
  obtain ⟨fa, fb, ka, kb, guard, sys, fresh, la, lb⟩ := h
  have pa := hi.pa
  cases hpc : a.pc
  case done =>
    have : step c w a = (w, a) := by simp [step, hpc]
    rw [this]; exact ⟨fa, fb, ka, kb, guard, sys, fresh, la, lb⟩
  case copyFailed => exact absurd hpc ka.1
  case cfClosed => exact absurd hpc ka.2
  case copied =>
    have : step c w a = (w, { a with pc := .closed }) := by simp [step, hpc]
    rw [this]
    refine ⟨fa, fb, ⟨by simp, by simp⟩, kb, guard, sys, fresh, by simp, ?_⟩
    intro h1 h2; obtain ⟨h3, _⟩ := lb h1 h2; exact ⟨h3, by simp [holds]⟩
  case closed =>
    have : step c w a = ({ w with queue := w.queue ++ [a.param] }, { a with pc := .done, code := 200 }) := by
      simp [step, hpc, hf, Facts.expected, finish]
    rw [this]
    refine ⟨fa, fb, ⟨by simp, by simp⟩, kb, guard, sys, fresh, by simp, ?_⟩
    intro h1 h2; obtain ⟨h3, _⟩ := lb h1 h2; exact ⟨h3, by simp [holds]⟩
  case opened =>
    have : (step c w a).2 = { a with pc := .copied } := by
      simp [step, hpc, fa]
    rw [this]
    refine ⟨fa, fb, ⟨by simp, by simp⟩, kb, guard, sys, fresh, by simp, ?_⟩
    intro h1 h2; obtain ⟨h3, _⟩ := lb h1 h2; exact ⟨h3, by simp [holds]⟩
  case start =>
    have hna : holds a = false := by simp [holds, hpc]
    have hg : ¬ (a.param ≠ base a.param) := by rw [pa]; intro h; exact h guard
    have hsys : ¬ (sysRejects (c.full a.param) = true) := by rw [pa, sys]; simp
    cases hl : w.disk.lookup (c.full a.param) with
    | some e =>
      have : step c w a = (w, finish a 500) := by
        simp only [step, hpc, hf, Facts.expected]
        cases e <;> simp [hg, hsys, hl]
      rw [this]
      have hb : holds b = true := by
        cases hb : holds b
        · have := hi.absent hna hb
          rw [← pa, hl, pa, fresh] at this; cases this
        · rfl
      refine ⟨fa, fb, ⟨by simp [finish], by simp [finish]⟩, kb, guard, sys, fresh, ?_, ?_⟩
      · intro _ _; exact ⟨by simp [finish], hb⟩
      · intro h1 h2
        simp [holds, h1, h2] at hb
    | none =>
      have : (step c w a).2 = { a with pc := .opened } := by
        simp only [step, hpc, hf, Facts.expected]
        simp [hg, hsys, hl]
      rw [this]
      refine ⟨fa, fb, ⟨by simp, by simp⟩, kb, guard, sys, fresh, by simp, ?_⟩
      intro h1 h2; obtain ⟨h3, _⟩ := lb h1 h2; exact ⟨h3, by simp [holds]⟩

/-! ### the two-request system under an arbitrary schedule -/

theorem run_two {c : Cfg} {d0 : Disk} {q0 : List P} {n : P} (hf : c.facts = Facts.expected)
    (sched : List Nat) (w : World) (a b a0 b0 : Req)
    (hi : Inv c d0 q0 n w a b) (sa : SameReq a a0) (sb : SameReq b b0) :
    ∃ w' a' b', Sys.run c ⟨w, [a, b]⟩ sched = ⟨w', [a', b']⟩ ∧ Inv c d0 q0 n w' a' b' ∧
      SameReq a' a0 ∧ SameReq b' b0 ∧ (Live c d0 n a b → Live c d0 n a' b') := by
  induction sched generalizing w a b with
  | nil => exact ⟨w, a, b, rfl, hi, sa, sb, id⟩
  | cons i t ih =>
    simp only [Sys.run, List.foldl_cons]
    match i with
    | 0 =>
      have hs : Sys.step c ⟨w, [a, b]⟩ 0 = ⟨(step c w a).1, [(step c w a).2, b]⟩ := by
        simp [Sys.step, setAt]
      rw [hs]
      obtain ⟨w', a', b', h1, h2, h3, h4, h5⟩ :=
        ih (step c w a).1 (step c w a).2 b (Inv.step_left hf hi) ((step_same c w a).trans sa) sb
      exact ⟨w', a', b', h1, h2, h3, h4, fun hl => h5 (Live.step_left hf hi hl)⟩
    | 1 =>
      have hs : Sys.step c ⟨w, [a, b]⟩ 1 = ⟨(step c w b).1, [a, (step c w b).2]⟩ := by
        simp [Sys.step, setAt]
      rw [hs]
      obtain ⟨w', a', b', h1, h2, h3, h4, h5⟩ :=
        ih (step c w b).1 a (step c w b).2 (Inv.step_right hf hi) sa ((step_same c w b).trans sb)
      exact ⟨w', a', b', h1, h2, h3, h4, fun hl => h5 (Live.step_left hf hi.symm hl.symm).symm⟩
    | j + 2 =>
      have hs : Sys.step c ⟨w, [a, b]⟩ (j + 2) = ⟨w, [a, b]⟩ := by
        simp [Sys.step]
      rw [hs]
      exact ih w a b hi sa sb

end Pk.Upload
