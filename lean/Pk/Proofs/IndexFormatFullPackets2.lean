/-
  `Stream.Packets` of a whole stream from the well-formedness of its input (glue for C01 `roundtrip_packets`).
-/
import Pk.Proofs.IndexFormatFullPackets
namespace Pk.Index
open Pk Pk.Bytes

theorem mem_trips (data : List ChunkIn) (ps : List PacketIn) : ∀ (k : Nat) (t : Trip), t ∈ trips data k ps →
    t.1 ∈ ps ∧ t.2.1 ∈ t.1.refs := by
  induction ps with
  | nil => intro k t h; simp [trips] at h
  | cons p ps ih =>
    intro k t h
    simp only [trips, List.mem_append, List.mem_map] at h
    rcases h with ⟨r, hr, rfl⟩ | h
    · simp [PacketIn.pmds] at hr; simp [hr]
    · have := ih (k + 1) t h
      exact ⟨by simp [this.1], this.2⟩

theorem trips_ne (data : List ChunkIn) (ps : List PacketIn) (k : Nat) (hne : ps ≠ []) (h : ∀ p ∈ ps, p.refs ≠ []) :
    trips data k ps ≠ [] := by
  cases ps with
  | nil => exact absurd rfl hne
  | cons p ps =>
    have := h p (by simp)
    simp only [trips]
    intro hh
    have := (List.append_eq_nil_iff.mp hh).1
    simp [PacketIn.pmds] at this
    contradiction

theorem expected_eq_trips (ts0 : Int) (data : List ChunkIn) (ps : List PacketIn) : ∀ (k : Nat),
    (ps.map fun p => p.pmds.map fun ref =>
      ({ file := ref.file, index := ref.index, dir := p.dir, ts := ts0 + (p.ts - ts0).tdiv 1000 * 1000 } : PacketOut)).flatten =
    (trips data k ps).map (outOf ts0) := by
  induction ps with
  | nil => intro k; rfl
  | cons p ps ih =>
    intro k
    simp only [List.map_cons, List.flatten_cons, trips, List.map_append, ih (k + 1), List.map_map]
    rfl

/-- consecutive packet times: non-decreasing, µs gap below 2^32 -/
def TsChain (ts0 : Int) : Int → List PacketIn → Prop
  | _, [] => True
  | a, p :: ps => a ≤ p.ts ∧ (p.ts - ts0).tdiv 1000 - (a - ts0).tdiv 1000 < 2 ^ 32 ∧ TsChain ts0 p.ts ps

theorem tsChain_of_indexed (ts0 : Int) (ps : List PacketIn) : ∀ (a : PacketIn),
    (∀ i p q, (a :: ps)[i]? = some p → (a :: ps)[i + 1]? = some q →
      p.ts ≤ q.ts ∧ (q.ts - ts0).tdiv 1000 - (p.ts - ts0).tdiv 1000 < 2 ^ 32) → TsChain ts0 a.ts ps := by
  induction ps with
  | nil => intro a _; trivial
  | cons q ps ih =>
    intro a h
    have h0 := h 0 a q (by simp) (by simp)
    refine ⟨h0.1, h0.2, ih q ?_⟩
    intro i p q' hp hq
    exact h (i + 1) p q' (by simpa using hp) (by simpa using hq)

theorem muChain_const {α : Type} (f : α → Int) (b : Int) (rest : List Int) (l : List α) : ∀ (a : Int), l ≠ [] →
    (∀ x ∈ l, f x = b) → a ≤ b → b - a < 2 ^ 32 → MuChain b rest → MuChain a (l.map f ++ rest) := by
  induction l with
  | nil => intro a h; exact absurd rfl h
  | cons x l ih =>
    intro a _ hf h1 h2 h3
    have hx : f x = b := hf x (by simp)
    simp only [List.map_cons, List.cons_append, MuChain, hx]
    refine ⟨h1, h2, ?_⟩
    cases l with
    | nil => simpa using h3
    | cons y l' => exact ih b (by simp) (fun z hz => hf z (by simp [hz])) (Int.le_refl _) (by omega) h3

theorem trips_chain (ts0 : Int) (data : List ChunkIn) (ps : List PacketIn) : ∀ (a : Int) (k : Nat), ts0 ≤ a →
    TsChain ts0 a ps → (∀ p ∈ ps, p.refs ≠ []) →
    MuChain ((a - ts0).tdiv 1000) ((trips data k ps).map (Trip.mu ts0)) := by
  induction ps with
  | nil => intro a k _ _ _; trivial
  | cons p ps ih =>
    intro a k h0 hch hrefs
    obtain ⟨h1, h2, h3⟩ := hch
    simp only [trips, List.map_append, List.map_map]
    apply muChain_const _ ((p.ts - ts0).tdiv 1000)
    · have := hrefs p (by simp)
      simp [PacketIn.pmds]; exact this
    · intro r _; rfl
    · rw [Int.tdiv_eq_ediv_of_nonneg (by omega), Int.tdiv_eq_ediv_of_nonneg (by omega)]; omega
    · exact h2
    · exact ih p.ts (k + 1) (by omega) h3 (fun q hq => hrefs q (by simp [hq]))

theorem ik_inj (imps : List ImportKey) (a b : Trip) (ha : a.2.1.key ∈ imps) (hb : b.2.1.key ∈ imps)
    (h : a.ik imps = b.ik imps) : (a.2.1.file, a.2.1.index) = (b.2.1.file, b.2.1.index) := by
  simp only [Trip.ik, Prod.mk.injEq] at h
  obtain ⟨h1, h2⟩ := h
  have hla : imps.idxOf a.2.1.key < imps.length := List.idxOf_lt_length_iff.mpr ha
  have hlb : imps.idxOf b.2.1.key < imps.length := List.idxOf_lt_length_iff.mpr hb
  have e1 : imps[imps.idxOf a.2.1.key] = a.2.1.key := List.getElem_idxOf hla
  have e2 : imps[imps.idxOf b.2.1.key] = b.2.1.key := List.getElem_idxOf hlb
  have hk : a.2.1.key = b.2.1.key := by
    rw [← e1, ← e2]; congr 1
  simp only [SrcRef.key, Prod.mk.injEq] at hk
  obtain ⟨hf, hi⟩ := hk
  simp only [Prod.mk.injEq]
  exact ⟨hf, by omega⟩

/-- `Stream.Packets` over the records of a well-formed stream returns one entry per source reference -/
theorem packets_walk_stream (imps : List ImportKey) (s : StreamIn) (B : List PacketRec) (p0 : PacketIn)
    (hp0 : s.packets.head? = some p0) (hkeys : s.KeysIn imps)
    (hrefs : ∀ p ∈ s.packets, p.refs ≠ [] ∧ p.dir < 2 ∧ ∀ ref ∈ p.refs, ref.index < 2 ^ 64)
    (hch : ∀ i p q, s.packets[i]? = some p → s.packets[i + 1]? = some q →
      p.ts ≤ q.ts ∧ (q.ts - p0.ts).tdiv 1000 - (p.ts - p0.ts).tdiv 1000 < 2 ^ 32)
    (hpw : ((trips s.data 0 s.packets).map (outOf p0.ts)).Pairwise (fun a b => (a.file, a.index) ≠ (b.file, b.index))) :
    packetsWalk imps p0.ts none 0 (streamRecs imps s ++ B) = .ok ((trips s.data 0 s.packets).map (outOf p0.ts)) := by
  have hts : s.ts0 = p0.ts := by simp [StreamIn.ts0, hp0]
  unfold streamRecs streamRaw
  rw [packetsWalk_recs, hts, allRecords_trips]
  obtain ⟨tl, htl⟩ : ∃ tl, s.packets = p0 :: tl := by
    cases hps : s.packets with
    | nil => simp [hps] at hp0
    | cons a tl => simp [hps] at hp0; subst hp0; exact ⟨tl, rfl⟩
  have hmem : ∀ t ∈ trips s.data 0 s.packets, t.2.1.key ∈ imps ∧ t.2.1.index < 2 ^ 64 ∧ t.1.dir < 2 := by
    intro t ht
    obtain ⟨h1, h2⟩ := mem_trips _ _ _ _ ht
    exact ⟨hkeys _ h1 _ h2, (hrefs _ h1).2.2 _ h2, (hrefs _ h1).2.1⟩
  have hchain : TsChain p0.ts p0.ts s.packets := by
    rw [htl]
    refine ⟨Int.le_refl _, by simp, tsChain_of_indexed p0.ts tl p0 ?_⟩
    rw [← htl]; exact hch
  have hmu := trips_chain p0.ts s.data s.packets p0.ts 0 (Int.le_refl _) hchain (fun p hp => (hrefs p hp).1)
  have hw := walk_trips imps p0.ts B (trips s.data 0 s.packets) 0 none
    (trips_ne _ _ _ (by rw [htl]; simp) (fun p hp => (hrefs p hp).1)) (Int.le_refl _) hmem
    (by simpa using hmu) (by simp)
    (by
      rw [List.pairwise_map] at hpw
      refine hpw.imp_of_mem ?_
      intro a b ha hb hab heq
      exact hab (ik_inj imps a b (hmem a ha).1 (hmem b hb).1 heq))
  simpa using hw

end Pk.Index
