/-
  `Stream.Data` on the records and the blob of a stream (glue for C01 `roundtrip_payload`).
-/
import Pk.Proofs.IndexFormatFullSizes
import Pk.Proofs.IndexFormatFullReader
namespace Pk.Index
open Pk Pk.Bytes

theorem ptSum_reverse (l : List (Int × Nat)) : ptSum l.reverse = ptSum l := by
  unfold ptSum
  rw [List.map_reverse, List.sum_reverse]

theorem PtPos_reverse (l : List (Int × Nat)) (h : PtPos l) : PtPos l.reverse := by
  intro e he; exact h e (by simpa using he)

/-- `Stream.Data` of a stream whose records sit in the packet section and whose blob sits in the data section -/
theorem data_of_stream (r : Reader) (packets : List PacketRec) (data : Bytes) (imps : List ImportKey)
    (s : StreamIn) (rec_ : StreamRec) (cds : List (Nat × Bytes))
    (hpk : r.f.packets = packets) (hdata : r.f.data = data)
    (hpa : PktAt imps packets s rec_) (hcd : chunkDirs s.packets s.data = some cds)
    (hb2 : (data.drop rec_.dataStart).take (streamBlob cds).length = streamBlob cds)
    (hcb : rec_.cb = (dirBytes 0 cds).length) (hsb : rec_.sb = (dirBytes 1 cds).length)
    (hrefs : ∀ p ∈ s.packets, p.refs ≠ [] ∧ p.dir < 2)
    (hpos : (s.data.map (·.pos)).Pairwise (· < ·)) (hsize : (s.data.map (·.bytes.length)).sum < 2 ^ 64) :
    ∃ ds, r.data rec_ = .ok ds ∧ dirFlat 0 ds = dirBytes 0 cds ∧ dirFlat 1 ds = dirBytes 1 cds ∧
      mRuns (outRuns ds) = mRuns (cds.map fun c => (c.1, c.2.length)) := by
  obtain ⟨_, hne, rest, hdrop⟩ := hpa
  obtain ⟨hnext, hskip, hsum⟩ := streamRecs_shape imps s hne
  obtain ⟨hlt, hdirs, hlen, htot⟩ := chunkDirs_spec s.packets s.data cds hcd
  -- payload sizes recorded per direction
  have hge : ∀ d, (dirBytes d cds).length ≤ dirSum d (streamRecs imps s) := by
    intro d
    rw [hsum d, hlen d, ← pktSum_eq_chSum d s.packets s.data hpos hlt]
    unfold streamRaw
    rw [allRecords_trips, dirSum_trips imps _ d _ (fun t ht => (hrefs _ (mem_trips _ _ _ _ ht).1).2)]
    exact tripSum_ge d s.data s.packets 0 (fun p hp => (hrefs p hp).1)
  unfold Reader.data
  simp only [hpk, hdata, hdrop]
  obtain ⟨st', hw, t0, t1, u0, u1⟩ := dataWalk_ok rest (streamRecs imps s).length (streamRecs imps s)
    { refTime := r.firstPacket rec_, expectWraps := (i64 (sub64 rec_.last rec_.first) + 1000).tdiv wrapNs, lastRel := 0,
      prevTs := 0, prevDir := 0, pt0 := [], pt1 := [] }
    ((streamRecs imps s ++ rest).length + 1) rfl (by simp; omega) hnext hskip
  rw [hw]
  simp only
  -- the data section from DataStart on
  have hsplit := (List.take_append_drop (streamBlob cds).length (data.drop rec_.dataStart)).symm
  rw [hb2] at hsplit
  generalize (data.drop rec_.dataStart).drop (streamBlob cds).length = tail at hsplit
  have hd : data.drop rec_.dataStart =
      dirBytes 0 cds ++ (dirBytes 1 cds ++ (segBytes 0 (segRuns (cds.map fun c => (c.1, c.2.length))) ++ tail)) := by
    rw [hsplit]
    simp only [streamBlob, List.append_assoc]
  rw [hd, hcb, hsb]
  have hlen1 : ¬ ((dirBytes 0 cds ++ (dirBytes 1 cds ++ (segBytes 0 (segRuns (cds.map fun c => (c.1, c.2.length))) ++ tail))).length <
      (dirBytes 0 cds).length + (dirBytes 1 cds).length) := by
    simp only [List.length_append]; omega
  rw [if_neg hlen1]
  have e0 : (dirBytes 0 cds ++ (dirBytes 1 cds ++ (segBytes 0 (segRuns (cds.map fun c => (c.1, c.2.length))) ++ tail))).take
      (dirBytes 0 cds).length = dirBytes 0 cds := List.take_left
  have e1 : ((dirBytes 0 cds ++ (dirBytes 1 cds ++ (segBytes 0 (segRuns (cds.map fun c => (c.1, c.2.length))) ++ tail))).drop
      (dirBytes 0 cds).length).take (dirBytes 1 cds).length = dirBytes 1 cds := by
    rw [List.drop_left, List.take_left]
  have e2 : (dirBytes 0 cds ++ (dirBytes 1 cds ++ (segBytes 0 (segRuns (cds.map fun c => (c.1, c.2.length))) ++ tail))).drop
      ((dirBytes 0 cds).length + (dirBytes 1 cds).length) =
      segBytes 0 (segRuns (cds.map fun c => (c.1, c.2.length))) ++ tail := by
    rw [← List.drop_drop, List.drop_left, List.drop_left]
  rw [e0, e1, e2]
  have hR : ∀ x ∈ segRuns (cds.map fun c => (c.1, c.2.length)), x.1 < 2 ∧ x.2 < 2 ^ 64 := by
    intro x hx
    constructor
    · obtain ⟨y, hy, he⟩ := segRuns_dirs _ x hx
      obtain ⟨c, hc, rfl⟩ := List.mem_map.mp hy
      obtain ⟨p, hp, hpd⟩ := hdirs c hc
      rw [← he]; simp only; rw [← hpd]; exact (hrefs p hp).2
    · have h1 := mem_le_runSum _ x hx
      rw [runSum_segRuns, runSum_cds, hlen] at h1
      have h2 := chSum_le x.1 s.packets s.data
      omega
  obtain ⟨ds, hds, f0, f1, fm⟩ := dataRuns_ok tail (segRuns (cds.map fun c => (c.1, c.2.length))) 0 (dirBytes 0 cds) (dirBytes 1 cds)
    st'.pt0.reverse st'.pt1.reverse ((segBytes 0 (segRuns (cds.map fun c => (c.1, c.2.length))) ++ tail).length + 1)
    hR (by omega) (by rw [runSum_segRuns, runSum_cds]) (by rw [runSum_segRuns, runSum_cds])
    (by rw [ptSum_reverse, t0]; have := hge 0; simp [ptSum]; omega)
    (by rw [ptSum_reverse, t1]; have := hge 1; simp [ptSum]; omega)
    (PtPos_reverse _ (u0 (by intro e he; simp at he))) (PtPos_reverse _ (u1 (by intro e he; simp at he))) (by omega)
  exact ⟨ds, hds, f0, f1, by rw [fm, mRuns_segRuns]⟩

end Pk.Index
