/-
  MgrConvRunStale — the concrete history behind `detach_stale_run_now_safe` (Pk/Props/C16Reach.lean).  On the model
  of the service BEFORE the fix of `detachConverterFromTag` this history gave a converter that had been detached
  from its last tag another run, for a stale queue entry (finding of the first version of C16Reach, reproduced on
  the real manager); on the patched model the detach empties the queue.

    importPcaps ["a.pcap"]; importDone adding streams 0 and 1; addTag mark/m "id:-1" (an empty mark);
    updConv mark/m ["c"] (converter "c" attached; nothing to convert yet);
    markAdd mark/m [0,1] (both streams are queued, the converter job J starts and converts them);
    importPcaps ["b.pcap"]; importDone updating stream 1 WHILE J IS IN FLIGHT (the output of stream 1 is dropped,
      stream 1 is queued again; no job can start);
    markDel mark/m [1] (the mark does not match stream 1 any more; the queue entry stays);
    updConv mark/m [] (the converter is detached from its last tag: the cache is reset and — CHANGED (detach) — only
      what OTHER tags with "c" match stays queued, i.e. nothing);
    convertDone (J completes: nothing is queued for "c", no job starts)
-/
import Pk.Props.MgrReach
import Pk.Proofs.MgrTagsStep
namespace Pk.Proofs.MgrConvRunStale
open Pk.Mgr Pk.Props.MgrReach Pk.Proofs.MgrTags

def mTag (defn : String) (mat : IdSet) (convs : List String) : Tag :=
  { defn := defn, mainT := [], subT := [], mfeat := 1, sfeat := 0, isMarkDef := true, mat := mat, convs := convs, gen := 0 }
/-- the parser facts of the definition "id:-1": an id list naming no stream -/
def mFacts : Facts := { err := false, main := [], sub := [], mfeat := 1, sfeat := 0, idsok := true, ids := [] }

def t0 : St := { convs := ["c"], toconv := [("c", [])], cached := [("c", [])] }
def t1 : St := { t0 with queue := ["a.pcap"], pcaps := ["a.pcap"], jImport := some (0, []) }
def t2 : St :=
  { convs := ["c"], toconv := [("c", [])], cached := [("c", [])], idx := [0], files := [(0, [0, 1])], used := [(0, 1)],
    next := 2, all := 2, nrec := 2, add := [0, 1], pcaps := ["a.pcap"] }
def t3 : St := { t2 with tags := [("mark/m", mTag "id:-1" [] [])], ngen := 1 }
def t4 : St := { t3 with tags := [("mark/m", mTag "id:-1" [] ["c"])] }
def t5 : St :=
  { t3 with tags := [("mark/m", mTag "id:0,1" [0, 1] ["c"])], used := [(0, 2)], convert := true,
            cached := [("c", [0, 1])], jConv := some ([("c", [0, 1])], [0]) }
def t6 : St := { t5 with used := [(0, 3)], queue := ["b.pcap"], pcaps := ["a.pcap", "b.pcap"], jImport := some (2, [0]) }
def t7 : St :=
  { t5 with idx := [0, 1], files := [(0, [0, 1]), (1, [1])], used := [(0, 2), (1, 1)], nrec := 3, upd := [1],
            toconv := [("c", [1])], cached := [("c", [0])], pcaps := ["a.pcap", "b.pcap"] }
def t8 : St := { t7 with tags := [("mark/m", mTag "id:0" [0] ["c"])] }
-- CHANGED (detach): the detach empties the queue of "c" (before the fix stream 1 stayed queued) …
def t9 : St := { t7 with tags := [("mark/m", mTag "id:0" [0] [])], toconv := [("c", [])], cached := [("c", [])] }
-- … and the completion of J starts no new job (before the fix: a job converting stream 1)
def t10 : St :=
  { t9 with used := [(0, 1), (1, 1)], upd := [0, 1], convert := false, jConv := none }

def f1 : Ev := .importPcaps ["a.pcap"]
def f2 : Ev := .importDone 1 2 [(0, [0, 1])] [] [] [0, 1]
def f3 : Ev := .addTag "mark/m" "" "id:-1" mFacts
def f4 : Ev := .updConv "mark/m" ["c"]
def f5 : Ev := .markAdd "mark/m" [0, 1]
def f6 : Ev := .importPcaps ["b.pcap"]
def f7 : Ev := .importDone 1 0 [(1, [1])] [1] [] []
def f8 : Ev := .markDel "mark/m" [1]
def f9 : Ev := .updConv "mark/m" []
def f10 : Ev := .convertDone

/-! ## the two string facts -/

theorem m_split : "mark/m".splitOn "/" = ["mark", "m"] := by
  simp only [String.splitOn]
  rw [if_neg (by decide)]
  iterate 7 (rw [String.splitOnAux]; simp (decide := true) only [↓reduceIte])

theorem m_parse : parseTagName "mark/m" = ("mark", "m", true) := by
  unfold parseTagName
  rw [m_split]
  decide

theorem m_prefix : ("mark/m".startsWith "mark/" || "mark/m".startsWith "generated/") = true := by simp

theorem m_nameOK : NameOK "mark/m" := by
  unfold NameOK
  rw [m_parse]
  simp [isMarkName]

/-! ## the steps -/

theorem step1 : step t0 f1 {} = (t1, .none) := rfl
theorem step2 : step t1 f2 {} = (t2, .none) := rfl
theorem step3 : step t2 f3 {} = (t3, .ok) := by
  unfold f3
  rw [step_addTag_eq, m_parse]
  rfl
theorem step4 : step t3 f4 {} = (t4, .ok) := rfl
theorem step5 : step t4 f5 {} = (t5, .ok) := by
  unfold f5
  rw [step_markAdd_eq, m_prefix]
  rfl
theorem step6 : step t5 f6 {} = (t6, .none) := rfl
theorem step7 : step t6 f7 {} = (t7, .none) := rfl
theorem step8 : step t7 f8 {} = (t8, .ok) := by
  unfold f8
  rw [step_markDel_eq, m_prefix]
  rfl
theorem step9 : step t8 f9 {} = (t9, .ok) := rfl
theorem step10 : step t9 f10 {} = (t10, .none) := rfl

/-! ## the payload contract, event by event -/

theorem ok1 : PayloadOK t0 f1 := ⟨trivial, trivial, trivial, trivial, trivial⟩

theorem ok2 : PayloadOK t1 f2 := by
  refine ⟨⟨⟨?_, ?_⟩, ?_⟩, ?_, trivial, ?_, trivial⟩
  · simp
  · intro o _; exact ⟨rfl, rfl⟩
  · intro jn held h
    cases h
    refine ⟨rfl, fun _ => by simp, ?_⟩
    intro id h1 h2
    refine ⟨(0, [0, 1]), List.mem_singleton.2 rfl, ?_⟩
    show id ∈ [0, 1]
    simp only [List.mem_cons, List.not_mem_nil, or_false]; omega
  · intro _; exact ⟨by decide, by decide⟩
  · intro jn held h
    cases h
    refine ⟨fun id h => (by cases h), fun id h => (by cases h), fun id h => ?_⟩
    simp only [List.mem_cons, List.not_mem_nil, or_false] at h; omega

theorem ok3 : PayloadOK t2 f3 := by
  refine ⟨trivial, trivial, ?_, trivial, ?_, ?_, ?_, m_nameOK⟩
  · intro id hid; cases hid
  · intro n snap held h; cases h
  · intro m t h; cases h
  · intro _; exact ⟨rfl, rfl⟩

theorem ok4 : PayloadOK t3 f4 := ⟨trivial, trivial, trivial, trivial, trivial⟩
theorem ok5 : PayloadOK t4 f5 := ⟨trivial, trivial, trivial, trivial, trivial⟩
theorem ok6 : PayloadOK t5 f6 := ⟨trivial, trivial, trivial, trivial, trivial⟩

theorem ok7 : PayloadOK t6 f7 := by
  refine ⟨⟨⟨?_, ?_⟩, ?_⟩, ?_, trivial, ?_, trivial⟩
  · simp
  · intro o ho
    have : o = 1 := by simpa using ho
    subst this; exact ⟨rfl, rfl⟩
  · intro jn held h
    cases h
    refine ⟨rfl, fun h => absurd rfl h, ?_⟩
    intro id h1 h2
    omega
  · intro _; exact ⟨by decide, by decide⟩
  · intro jn held h
    cases h
    refine ⟨fun id h => ?_, fun id h => (by cases h), fun id h => (by cases h)⟩
    have : id = 1 := by simpa using h
    omega

theorem ok8 : PayloadOK t7 f8 := ⟨trivial, trivial, trivial, trivial, trivial⟩
theorem ok9 : PayloadOK t8 f9 := ⟨trivial, trivial, trivial, trivial, trivial⟩
theorem ok10 : PayloadOK t9 f10 := ⟨trivial, trivial, trivial, trivial, trivial⟩

end Pk.Proofs.MgrConvRunStale
