/- Definitions for C06Reach: when an `updConv` / `delTag` event drops converter output
   (`converterOutputDropped`: a converter is detached from its last tag, its cache is reset). -/
import Pk.Model.Manager
namespace Pk.Proofs.MgrTruth
open Pk.Mgr

/-- the streams the OTHER tags with converter `c` attached match (`others` of `detachConverterFromTag`) -/
def othersOf (tags : List (String × Tag)) (n c : String) : IdSet :=
  tags.foldl (fun acc (p : String × Tag) => if p.1 != n && p.2.convs.contains c then union acc p.2.mat else acc) []

/-- the tag an `updConv` / `delTag` event works on -/
def evName : Ev → String
  | .updConv n _ => n
  | .delTag n => n
  | _ => ""

/-- the converters the event detaches from that tag -/
def detached (s : St) : Ev → List String
  | .updConv name convs =>
    match sget s.tags name with
    | some t => t.convs.filter (fun c => !convs.contains c)
    | none => []
  | .delTag name =>
    match sget s.tags name with
    | some t => t.convs
    | none => []
  | _ => []

/-- the event detaches some converter from the last tag whose matches it served (the model's `others.isEmpty`
    situation): the converter's cache is reset, its output is gone -/
def DropsOutput (s : St) (e : Ev) : Prop := ∃ c, c ∈ detached s e ∧ othersOf s.tags (evName e) c = []

/-- the definition looks at stream data, in its main query or in a sub-query ("payload tag") -/
def Payload (t : Tag) : Prop := (t.mfeat ||| t.sfeat) &&& fData ≠ 0

end Pk.Proofs.MgrTruth
