/-
  `copyStreams` of `AddIndex`: every copied stream is located, in the writer's tables, at the pieces it
  had in the reader (import ids of the packet records remapped).
-/
import Pk.Proofs.MergeFullView

namespace Pk.Index
open Pk Pk.Bytes

/-! ## `Located` is stable under growth of the tables -/

theorem getElem?_lt' {α : Type} {l : List α} {k : Nat} {x : α} (h : l[k]? = some x) : k < l.length := by
  rcases Nat.lt_or_ge k l.length with h' | h'
  · exact h'
  · simp [List.getElem?_eq_none h'] at h

theorem chainOf_drop_append {P : List PacketRec} {n : Nat} {c : List PacketRec} (h : chainOf (P.drop n) = some c)
    (X : List PacketRec) : chainOf ((P ++ X).drop n) = some c := by
  rcases Nat.lt_or_ge P.length n with hn | hn
  · rw [List.drop_of_length_le (by omega)] at h
    simp [chainOf] at h
  · rw [List.drop_append_of_le_length hn]
    exact chainOf_append h _

theorem data_drop_append {D : Bytes} {n : Nat} {a b : Bytes} (h : ∃ rest, D.drop n = a ++ b ++ rest) (Y : Bytes) :
    ∃ rest, (D ++ Y).drop n = a ++ b ++ rest := by
  obtain ⟨rest, h⟩ := h
  rcases Nat.lt_or_ge D.length n with hn | hn
  · rw [List.drop_of_length_le (by omega)] at h
    have h' := congrArg List.length h
    simp at h'
    have ha : a = [] := List.length_eq_zero_iff.mp (by omega)
    have hb : b = [] := List.length_eq_zero_iff.mp (by omega)
    exact ⟨_, by rw [ha, hb]; rfl⟩
  · exact ⟨rest ++ Y, by rw [List.drop_append_of_le_length hn, h]; simp⟩

theorem Located.mono {n n' : Nat} {P : List PacketRec} {D : Bytes} {G : List RHostGroup} {s : StreamRec} {k : Comp}
    (h : Located n P D G s k) (hn : n ≤ n') (X : List PacketRec) (Y : Bytes) : Located n' (P ++ X) (D ++ Y) G s k := by
  obtain ⟨hh, hc, hi, hd, hl⟩ := h
  exact ⟨hh, chainOf_drop_append hc X, fun p hp => Nat.lt_of_lt_of_le (hi p hp) hn, data_drop_append hd Y, hl⟩

theorem Located.groups {n : Nat} {P : List PacketRec} {D : Bytes} {gs gs' : List HostGroup} {s : StreamRec} {k : Comp}
    (h : Located n P D (gs.map HostGroup.toReader) s k) (hext : GroupsExt gs gs') :
    Located n P D (gs'.map HostGroup.toReader) s k := by
  obtain ⟨⟨g, hg, v1, v2, e1, e2⟩, rest⟩ := h
  refine ⟨?_, rest⟩
  rw [List.getElem?_map] at hg
  cases hg0 : gs[s.hg]? with
  | none => simp [hg0] at hg
  | some g0 =>
    simp [hg0] at hg
    subst hg
    obtain ⟨g', hg', hs, hx⟩ := hext _ g0 hg0
    obtain ⟨v1', e1'⟩ := hx s.ch v1
    obtain ⟨v2', e2'⟩ := hx s.sh v2
    refine ⟨g'.toReader, by rw [List.getElem?_map, hg']; rfl, v1', v2', ?_, ?_⟩
    · rw [toReader_get, e1', ← toReader_get]; exact e1
    · rw [toReader_get, e2', ← toReader_get]; exact e2

/-- `Located` does not look at the times of the record -/
theorem Located.shift {n : Nat} {P : List PacketRec} {D : Bytes} {G : List RHostGroup} {s : StreamRec} {k : Comp}
    (h : Located n P D G s k) (d : Nat) : Located n P D G (shiftRec d s) k := h

theorem Comp.Ok.shift {k : Comp} {s : StreamRec} (h : k.Ok s) (d : Nat) : k.Ok (shiftRec d s) := h

/-! ## what `AddIndex` knows about its remap tables -/

structure CopyCtx (r : Reader) (nimp' : Nat) (importRemap : List Nat) (gs' : List HostGroup) (hgRemap : List HgRemap) : Prop where
  wf : r.WF
  remapLen : importRemap.length = r.imports.length
  impValid : ∀ i, i < r.imports.length → importRemap.getD i 0 < nimp'
  hgLen : hgRemap.length = r.hostGroups.length
  hgMap : ∀ (k : Nat) (rg : RHostGroup) (m : HgRemap), r.hostGroups[k]? = some rg → hgRemap[k]? = some m →
    m.hostRemap.length = rg.hostCount ∧ ∃ g' : HostGroup, gs'[m.group]? = some g' ∧
      ∀ (i j : Nat), m.hostRemap[i]? = some j → g'.Valid j ∧ g'.hostAt j = rg.get i

/-- the copied stream `s'` of reader stream `s`: same static fields and relative times, and located in the
    writer's tables at the pieces `s` has in the reader -/
def NewRel (r : Reader) (nimp' : Nat) (P : List PacketRec) (D : Bytes) (gs' : List HostGroup) (remap : List Nat)
    (s s' : StreamRec) : Prop :=
  Copied s s' ∧ ∃ k, Located r.imports.length r.f.packets r.f.data r.hostGroups s k ∧ k.Ok s ∧
    Located nimp' P D (gs'.map HostGroup.toReader) s' { k with chain := k.chain.map (reimp remap) }

theorem NewRel.mono {r : Reader} {n : Nat} {P : List PacketRec} {D : Bytes} {gs' : List HostGroup} {remap : List Nat}
    {s s' : StreamRec} (h : NewRel r n P D gs' remap s s') (X : List PacketRec) (Y : Bytes) :
    NewRel r n (P ++ X) (D ++ Y) gs' remap s s' := by
  obtain ⟨hc, k, h1, h2, h3⟩ := h
  exact ⟨hc, k, h1, h2, h3.mono (Nat.le_refl _) X Y⟩

theorem All₂.imp {α β : Type} {R R' : α → β → Prop} (hi : ∀ a b, R a b → R' a b) {as : List α} {bs : List β}
    (h : All₂ R as bs) : All₂ R' as bs := by
  induction h with
  | nil => exact All₂.nil
  | cons hr _ ih => exact All₂.cons (hi _ _ hr) ih

theorem All₂.append {α β : Type} {R : α → β → Prop} {as as' : List α} {bs bs' : List β}
    (h : All₂ R as bs) (h' : All₂ R as' bs') : All₂ R (as ++ as') (bs ++ bs') := by
  induction h with
  | nil => exact h'
  | cons hr _ ih => exact All₂.cons hr ih

/-- the blob `AddIndex` copies for a stream -/
def blobOf (r : Reader) (s : StreamRec) : Except Fail Bytes :=
  let count := add64 s.cb s.sb
  if count = 0 then .ok [] else
  let d := r.f.data.drop s.dataStart
  if d.length < count then .error .err else
  match copySeg (d.length + 1) count (d.drop count) with
  | .error e => .error e
  | .ok seg => .ok (d.take count ++ seg)

theorem blobOf_spec (r : Reader) (s : StreamRec) (hsz : s.cb + s.sb < 2 ^ 64) (blob : Bytes) (h : blobOf r s = .ok blob) :
    ∃ c seg rest, blob = c ++ seg ∧ r.f.data.drop s.dataStart = c ++ seg ++ rest ∧ c.length = s.cb + s.sb ∧
      SegCovers (s.cb + s.sb) seg := by
  unfold blobOf at h
  have hcount : add64 s.cb s.sb = s.cb + s.sb := Nat.mod_eq_of_lt hsz
  simp only [hcount] at h
  split at h
  · rename_i h0
    simp at h; subst h
    exact ⟨[], [], r.f.data.drop s.dataStart, rfl, by simp, by simp at h0 ⊢; omega, ⟨1, by rw [h0]; simp [copySeg]⟩⟩
  · split at h
    · simp at h
    · rename_i hlen
      split at h
      · simp at h
      · rename_i seg hseg
        simp at h; subst h
        obtain ⟨⟨rest, hr⟩, hcov⟩ := copySeg_prefix hseg
        refine ⟨_, seg, rest, rfl, ?_, ?_, hcov⟩
        · rw [List.append_assoc, ← hr, List.take_append_drop]
        · have := hcount
          simp only [List.length_take, List.length_drop] at hlen ⊢; omega

theorem copy_one {r : Reader} {nimp' : Nat} {importRemap : List Nat} {gs' : List HostGroup} {hgRemap : List HgRemap}
    (ctx : CopyCtx r nimp' importRemap gs' hgRemap) (s : StreamRec) (hs : s ∈ r.f.streams)
    (hgr : HgRemap) (ch sh : Nat) (h1 : hgRemap[s.hg]? = some hgr) (h2 : hgr.hostRemap[s.ch]? = some ch)
    (h3 : hgr.hostRemap[s.sh]? = some sh) (ps : List PacketRec)
    (h4 : copyPackets importRemap (r.f.packets.drop s.pstart) = .ok ps) (blob : Bytes) (h5 : blobOf r s = .ok blob)
    (P : List PacketRec) (hP : P.length < 2 ^ 32) (bl : List Bytes) :
    NewRel r nimp' (P ++ ps) (bl ++ [blob]).flatten gs' importRemap s
      { s with hg := hgr.group, ch := ch, sh := sh, pstart := P.length % 2 ^ 32, dataStart := bl.flatten.length } := by
  have hsz := ctx.wf.sizes s hs
  -- hosts
  have hlt : s.hg < r.hostGroups.length := by rw [← ctx.hgLen]; exact getElem?_lt' h1
  obtain ⟨rg, hrg⟩ : ∃ rg, r.hostGroups[s.hg]? = some rg := ⟨_, List.getElem?_eq_getElem hlt⟩
  have hinv : rg.Inv := ctx.wf.hosts rg (List.mem_of_getElem? hrg)
  obtain ⟨hrl, g', hg', hmap⟩ := ctx.hgMap s.hg rg hgr hrg h1
  obtain ⟨vc, ec⟩ := hmap _ _ h2
  obtain ⟨vs, es⟩ := hmap _ _ h3
  have hvalid : ∀ i, i < rg.hostCount → rg.hostSize * i + rg.hostSize ≤ rg.hosts.length := by
    intro i hi
    rw [hinv.len, ← Nat.mul_succ]; exact Nat.mul_le_mul_left _ hi
  have hch : s.ch < rg.hostCount := by rw [← hrl]; exact getElem?_lt' h2
  have hsh : s.sh < rg.hostCount := by rw [← hrl]; exact getElem?_lt' h3
  -- packets
  obtain ⟨c, hc, hps, hcv⟩ := copyPackets_spec _ _ _ h4
  -- data
  obtain ⟨cc, seg, rest, hb, hd, hcl, hcov⟩ := blobOf_spec r s hsz blob h5
  refine ⟨⟨⟨rfl, rfl, rfl, rfl, rfl, rfl⟩, rfl, rfl⟩,
    { client := rg.get s.ch, server := rg.get s.sh, chain := c, c := cc, seg := seg }, ?_, ?_, ?_⟩
  · exact ⟨⟨rg, hrg, hvalid _ hch, hvalid _ hsh, rfl, rfl⟩, hc, fun p hp => by rw [← ctx.remapLen]; exact hcv p hp,
      ⟨rest, hd⟩, hcl⟩
  · exact ⟨ctx.wf.skips s hs c hc, hcov, hsz⟩
  · refine ⟨⟨g'.toReader, by simp only [List.getElem?_map, hg']; rfl, vc, vs, ?_, ?_⟩, ?_, ?_, ?_, hcl⟩
    · rw [toReader_get]; exact ec
    · rw [toReader_get]; exact es
    · simp only
      rw [Nat.mod_eq_of_lt hP, List.drop_left, hps]
      have := chainOf_self hc
      rw [chainOf_map_reimp, this]; rfl
    · intro p hp
      simp only [List.mem_map] at hp
      obtain ⟨q, hq, rfl⟩ := hp
      exact ctx.impValid _ (by rw [← ctx.remapLen]; exact hcv q hq)
    · exact ⟨[], by simp [hb]⟩

end Pk.Index
