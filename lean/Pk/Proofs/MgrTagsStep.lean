/- Helper lemmas for C06: `step` event by event. -/
import Pk.Proofs.MgrTagsFrame
namespace Pk.Proofs.MgrTags
open Pk.Mgr

/-! ## `step`, event by event, in terms of named pieces (all equations hold by `rfl`) -/

def qConv (s : St) (cs : List String) (ids : IdSet) : St :=
  cs.foldl (fun (s : St) c => { s with toconv := sins c (union ((sget s.toconv c).getD []) ids) s.toconv }) s

def tdTag (snap ot : Tag) (result : IdSet) : Tag :=
  { snap with mat := union (diff snap.mat snap.unc) result, unc := [], color := ot.color, convs := ot.convs, refBy := ot.refBy }
def tdInval (s : St) : St :=
  if s.upd.isEmpty && s.rst.isEmpty && s.add.isEmpty then s else invalidateTags s s.upd s.rst s.add
def tdPublish (s : St) (name : String) (snap : Tag) (result : IdSet) : St :=
  match sget s.tags name with
  | some ot =>
    if ot.defn == snap.defn && ot.gen == snap.gen then  -- CHANGED (gen)
      tdInval (setTag (qConv s (tdTag snap ot result).convs (tdTag snap ot result).mat) name (tdTag snap ot result))
    else s
  | none => s
def jobTail (s : St) (st : Started) : St := startMerge (startConverter (startTagging s st.tag))

theorem step_tagDone_eq (s : St) (name : String) (result : List Nat) (st : Started) :
    step s (.tagDone name result) st =
      match s.jTag with
      | none => (s, .none)
      | some (jn, snap, held) =>
        if jn != name then ({ s with badChoice := true }, .none) else
        (release (jobTail { tdPublish { s with jTag := none } name snap (ofList result) with tag := false } st) held, .none) := rfl

def idCreated (s : St) (next' : Nat) (created : List (Nat × List Nat)) (upd rst add : IdSet) : St :=
  { s with idx := s.idx ++ created.map (·.1),
           files := created.foldl (fun fs (o, ids) => nins o ids fs) s.files,
           nrec := s.nrec + (created.map (·.2.length)).sum,
           next := next',
           used := lock s.used (created.map (·.1)),
           upd := union s.upd upd, rst := union s.rst rst, add := union s.add add }
def idApply (s : St) (next' : Nat) (created : List (Nat × List Nat)) (upd rst add : IdSet) : St :=
  if created.isEmpty then s else
    invalidateConverters (invalidateConverters (invalidateTags (idCreated s next' created upd rst add) upd rst add) upd) rst
def idQueue (s : St) : St := if s.queue.isEmpty then s else startImport s

theorem step_importDone_eq (s : St) (processed usednew : Nat) (created : List (Nat × List Nat))
    (upd rst add : List Nat) (st : Started) :
    step s (.importDone processed usednew created upd rst add) st =
      match s.jImport with
      | none => (s, .none)
      | some (jnext, held) =>
        (jobTail (idQueue { idApply (release { s with all := jnext + usednew, jImport := none } held)
            (jnext + usednew) created (ofList upd) (ofList rst) (ofList add) with
            queue := (idApply (release { s with all := jnext + usednew, jImport := none } held)
            (jnext + usednew) created (ofList upd) (ofList rst) (ofList add)).queue.drop processed }) st, .none) := rfl

-- CHANGED (conv): a tag whose sub-query features include data becomes pending for ALL streams when the
-- completion reports a non-empty set; `cdF` therefore takes `all`
def cdF (all : Nat) (ids : IdSet) (t : Tag) : Tag :=
  if t.sfeat &&& fData != 0 then (if ids.isEmpty then t else { t with unc := rangeSet all })
  else if t.mfeat &&& fData == 0 then t
  else { t with unc := union t.unc ids }
def cdMark0 (s : St) : String × IdSet → St := fun (c, ids) =>
        if !s.convs.contains c then s
        else
          let tags := s.tags.map fun (n, t) =>
            if t.sfeat &&& fData != 0 then (n, if ids.isEmpty then t else { t with unc := rangeSet s.all })
            else if t.mfeat &&& fData == 0 then (n, t)
            else (n, { t with unc := union t.unc ids })
          { s with tags := tags, upd := union s.upd ids }
def cdMark (s : St) (p : String × IdSet) : St :=
  if !s.convs.contains p.1 then s
  else { s with tags := s.tags.map (fun q => (q.1, cdF s.all p.2 q.2)), upd := union s.upd p.2 }
theorem cdMark0_eq : cdMark0 = cdMark := by
  funext s ⟨c, ids⟩
  simp only [cdMark0, cdMark]
  split
  · rfl
  · congr 1
    apply List.map_congr_left
    rintro ⟨n, t⟩ _
    simp only [cdF]
    split
    · rfl
    · split <;> rfl
theorem step_convertDone_eq (s : St) (st : Started) :
    step s .convertDone st =
      match s.jConv with
      | none => (s, .none)
      | some (sets, held) =>
        (release (startConverter (startTagging (inherit (sets.foldl cdMark { s with convert := false, jConv := none })) st.tag)) held, .none) := by
  rw [← cdMark0_eq]; rfl

def atTag (color defn : String) (f : Facts) (isMark : Bool) : Tag :=
  { defn := defn, mainT := f.main, subT := f.sub, mfeat := f.mfeat, sfeat := f.sfeat, color := color, isMarkDef := isMark }
/-- the new tag with the identity of the creating call -- CHANGED (gen) -/
def atTagG (g : Nat) (color defn : String) (f : Facts) (isMark : Bool) : Tag :=
  { atTag color defn f isMark with gen := g }
def atPair (s : St) (nt : Tag) (f : Facts) (isMark : Bool) : St × Tag :=
  if isMark then (s, { nt with mat := ofList f.ids }) else (s, { nt with unc := rangeSet s.all })
def atFinish (s : St) (name : String) (nt : Tag) (isMark : Bool) (st : Started) : St :=
  nt.refs.foldl (fun s r => addRefBy s r name) (if isMark then setTag s name nt else startTagging (setTag s name nt) st.tag)

theorem step_addTag_eq (s : St) (name color defn : String) (f : Facts) (st : Started) :
    step s (.addTag name color defn f) st =
      match parseTagName name with
      | (typ, sub, isMark) =>
        if typ == "" || sub == "" then (s, .err)
        else if f.err then (s, .err)
        else if (atTag color defn f isMark).refs.contains name then (s, .err)
        else if isMark && !f.idsok then (s, .err)
        else if (sget s.tags name).isSome then (s, .err)
        else if (atTag color defn f isMark).refs.any (fun r => (sget s.tags r).isNone) then (s, .err)
        else (atFinish { (atPair s (atTagG s.ngen color defn f isMark) f isMark).1 with  -- CHANGED (gen)
                  ngen := (atPair s (atTagG s.ngen color defn f isMark) f isMark).1.ngen + 1 } name
                (atPair s (atTagG s.ngen color defn f isMark) f isMark).2 isMark st, .ok) := rfl

def uqTag (defn : String) (f : Facts) : Tag :=
  { defn := defn, mainT := f.main, subT := f.sub, mfeat := f.mfeat, sfeat := f.sfeat }
def uqTag2 (nt t : Tag) (all : Nat) : Tag :=
  { nt with color := t.color, convs := t.convs, refBy := t.refBy, gen := t.gen, unc := rangeSet all }  -- CHANGED (gen)
def uqRefs (s : St) (name : String) (before after : List String) : St :=
  (after.filter (fun r => !before.contains r)).foldl (fun s r => addRefBy s r name)
    ((before.filter (fun r => !after.contains r)).foldl (fun s r => delRefBy s r name) s)
def uqInv (s : St) : St := invalidatedDuringTaggingJob s (rangeSet s.all)
def uqApply (s : St) (name : String) (t nt : Tag) (st : Started) : St :=
  startConverter (startTagging (uqInv (inherit (setTag (uqRefs s name t.refs nt.refs) name nt))) st.tag)

theorem step_updQuery_eq (s : St) (name defn : String) (f : Facts) (st : Started) :
    step s (.updQuery name defn f) st =
      if f.err then (s, .err)
      else if (uqTag defn f).refs.contains name then (s, .err)
      else if (name.startsWith "mark/" || name.startsWith "generated/") && !f.idsok then (s, .err)
      else match sget s.tags name with
        | none => (s, .err)
        | some t =>
          if (uqTag defn f).refs.any (fun r => (sget s.tags r).isNone) then (s, .err)
          else if createsTagCycle s.tags name (uqTag defn f) then (s, .err)
          else if !t.convs.isEmpty &&
              ((uqTag defn f).mfeat &&& fData ≠ 0 || (uqTag defn f).sfeat &&& fData ≠ 0 ||
                !(uqTag defn f).mainT.isEmpty || !(uqTag defn f).subT.isEmpty) then (s, .err)
          else (uqApply s name t (uqTag2 (uqTag defn f) t s.all) st, .ok) := rfl

def unApply (s : St) (name new : String) (t : Tag) : St :=
  t.refs.foldl (fun s r => addRefBy (delRefBy s r name) r new) { s with tags := sins new t (sdel s.tags name) }

theorem step_updName_eq (s : St) (name new : String) (st : Started) :
    step s (.updName name new) st =
      match sget s.tags name with
      | none => (s, .err)
      | some t =>
        if new == "" then (s, .ok) else
        if (parseTagName new).1 != (parseTagName name).1 then (s, .err)
        else if (parseTagName new).2.1 == "" then (s, .err)
        else if (sget s.tags new).isSome then (s, .err)
        else if !t.refBy.isEmpty then (s, .err)
        else (unApply s name new t, .ok) := rfl

-- CHANGED (dropped): the detach may run `outputDropped`, which takes the tagging choice
def ucDetach (s : St) (name : String) (t : Tag) (convs : List String) (choice : Option String) : St :=
  (t.convs.filter (fun c => !convs.contains c)).foldl (fun s c => detachConv s name c choice) s
def ucAttach (s : St) (name : String) (convs : List String) : St :=
  (convs.filter (fun c => !(((sget s.tags name).map (·.convs)).getD []).contains c)).foldl
    (fun s c => (attachConv s name c).1) s

theorem step_updConv_eq (s : St) (name : String) (convs : List String) (st : Started) :
    step s (.updConv name convs) st =
      match sget s.tags name with
      | none => (s, .err)
      | some t =>
        if convs.any (fun c => !t.convs.contains c && (!s.convs.contains c ||
            !(!(t.mfeat &&& fData ≠ 0 || t.sfeat &&& fData ≠ 0 || !t.mainT.isEmpty || !t.subT.isEmpty)))) then (s, .err) else
        (startConverter (ucAttach (ucDetach s name t convs st.tag) name convs), .ok) := rfl

def markTail (p : St × Res) (st : Started) : St × Res := (startConverter (startTagging p.1 st.tag), p.2)

theorem step_markAdd_eq (s : St) (name : String) (ids : List Nat) (st : Started) :
    step s (.markAdd name ids) st =
      if !ids.isEmpty && !(name.startsWith "mark/" || name.startsWith "generated/") then (s, .err) else
      match sget s.tags name with
      | none => (s, .err)
      | some _ =>
        if ids.isEmpty then (s, .ok)
        else if ids.foldl max 0 ≥ s.next then (s, .err)
        else markTail (markUpdate s name ids []) st := rfl

theorem step_markDel_eq (s : St) (name : String) (ids : List Nat) (st : Started) :
    step s (.markDel name ids) st =
      if !ids.isEmpty && !(name.startsWith "mark/" || name.startsWith "generated/") then (s, .err) else
      match sget s.tags name with
      | none => (s, .err)
      | some _ =>
        if ids.isEmpty then (s, .ok)
        else if ids.foldl max 0 ≥ s.next then (s, .err)
        else markTail (markUpdate s name [] ids) st := rfl

-- CHANGED (dropped): the detach may run `outputDropped`, which takes the tagging choice
def dtApply (s : St) (name : String) (t : Tag) (choice : Option String) : St :=
  t.refs.foldl (fun s r => delRefBy s r name)
    { (t.convs.foldl (fun s c => detachConv s name c choice) s) with
      tags := sdel (t.convs.foldl (fun s c => detachConv s name c choice) s).tags name }

theorem step_delTag_eq (s : St) (name : String) (st : Started) :
    step s (.delTag name) st =
      match sget s.tags name with
      | none => (s, .err)
      | some t => if !t.refBy.isEmpty then (s, .err) else (dtApply s name t st.tag, .ok) := rfl


/-! ## frames, event by event -/

theorem qConv_same (s : St) (cs : List String) (ids : IdSet) : Same s (qConv s cs ids) := by
  unfold qConv; apply foldl_same; intro s b; exact ⟨rfl, rfl, rfl⟩

theorem jobTail_same (s : St) (st : Started) : Same s (jobTail s st) :=
  ((startTagging_same _ _).trans (startConverter_same _)).trans (startMerge_same _)

theorem tdInval_fr (s : St) : Fr NT s (tdInval s) := by
  unfold tdInval; split
  · exact Fr.refl _ _
  · exact invalidateTags_fr _ _ _ _

theorem tdPublish_fr (s : St) (name : String) (snap : Tag) (result : IdSet) :
    Fr (· ≠ name) s (tdPublish s name snap result) := by
  unfold tdPublish
  split
  · split
    · refine Fr.trans ?_ ((tdInval_fr _).mono fun _ _ => trivial)
      exact (Fr.of_same (qConv_same _ _ _)).trans (setTag_fr_ne _ _ _)
    · exact Fr.refl _ _
  · exact Fr.refl _ _

theorem step_tagDone_fr (s : St) (name : String) (result : List Nat) (st : Started) :
    Fr (· ≠ name) s (step s (.tagDone name result) st).1 := by
  rw [step_tagDone_eq]
  split
  · exact Fr.refl _ _
  · split
    · exact Fr.of_same ⟨rfl, rfl, rfl⟩
    · rename_i jn snap held _ _
      refine Fr.trans ?_ (Fr.of_same ((jobTail_same _ _).trans (release_same _ _)))
      refine Fr.trans (b := tdPublish { s with jTag := none } name snap (ofList result)) ?_
        (Fr.of_same ⟨rfl, rfl, rfl⟩)
      exact Fr.trans (b := { s with jTag := none }) (Fr.of_same ⟨rfl, rfl, rfl⟩) (tdPublish_fr _ name _ _)

theorem trel_cdF (all : Nat) (ids : IdSet) (t : Tag) : TRel all t (cdF all ids t) := by
  unfold cdF; split
  · split
    · exact TRel.refl _ _
    · exact ⟨rfl, rfl, fun id _ hb => by simpa using hb⟩
  · split
    · exact TRel.refl _ _
    · exact ⟨rfl, rfl, fun id h _ => by simp [h]⟩

theorem cdMark_fr (s : St) (p : String × IdSet) : Fr NT s (cdMark s p) := by
  unfold cdMark; split
  · exact Fr.refl _ _
  · exact map_fr s _ (fun _ t => cdF s.all p.2 t) rfl rfl rfl (fun _ t => trel_cdF _ _ t)

theorem step_convertDone_fr (s : St) (st : Started) : Fr NT s (step s .convertDone st).1 := by
  rw [step_convertDone_eq]
  split
  · exact Fr.refl _ _
  · refine Fr.trans ?_ (Fr.of_same (((startTagging_same _ _).trans (startConverter_same _)).trans (release_same _ _)))
    refine Fr.trans ?_ (inherit_fr _)
    refine Fr.trans ?_ (foldl_fr cdMark cdMark_fr _ _)
    exact Fr.of_same ⟨rfl, rfl, rfl⟩

theorem atPair_fst (s : St) (nt : Tag) (f : Facts) (m : Bool) : (atPair s nt f m).1 = s := by
  unfold atPair; split <;> rfl

theorem atFinish_fr (s : St) (name : String) (nt : Tag) (m : Bool) (st : Started) :
    Fr (· ≠ name) s (atFinish s name nt m st) := by
  unfold atFinish
  refine Fr.trans ?_ (foldl_fr _ (fun s r => (addRefBy_fr s r name).mono fun _ _ => trivial) _ _)
  split
  · exact setTag_fr_ne _ _ _
  · exact (setTag_fr_ne _ _ _).trans (Fr.of_same (startTagging_same _ _))

theorem step_addTag_fr (s : St) (name color defn : String) (f : Facts) (st : Started) :
    Fr (· ≠ name) s (step s (.addTag name color defn f) st).1 := by
  rw [step_addTag_eq]
  repeat' split
  all_goals first | exact Fr.refl _ _ | skip
  rw [atPair_fst]
  exact Fr.trans (b := { s with ngen := s.ngen + 1 }) (Fr.of_same ⟨rfl, rfl, rfl⟩) (atFinish_fr _ _ _ _ _)

theorem uqApply_fr (s : St) (name : String) (t nt : Tag) (st : Started) :
    Fr (· ≠ name) s (uqApply s name t nt st) := by
  unfold uqApply uqInv uqRefs
  refine Fr.trans ?_ (Fr.of_same (((invalidatedDuring_same _ _).trans (startTagging_same _ _)).trans (startConverter_same _)))
  refine Fr.trans ?_ ((inherit_fr _).mono fun _ _ => trivial)
  refine Fr.trans ?_ (setTag_fr_ne _ _ _)
  refine Fr.trans ?_ (foldl_fr _ (fun s r => (addRefBy_fr s r name).mono fun _ _ => trivial) _ _)
  exact foldl_fr _ (fun s r => (delRefBy_fr s r name).mono fun _ _ => trivial) _ _

theorem step_updQuery_fr (s : St) (name defn : String) (f : Facts) (st : Started) :
    Fr (· ≠ name) s (step s (.updQuery name defn f) st).1 := by
  rw [step_updQuery_eq]
  repeat' split
  all_goals first | exact Fr.refl _ _ | skip
  exact uqApply_fr _ _ _ _ _

theorem step_updColor_fr (s : St) (name color : String) (st : Started) :
    Fr NT s (step s (.updColor name color) st).1 := by
  unfold step
  simp only []
  split
  · exact Fr.refl _ _
  · rename_i t ht
    split
    · exact Fr.refl _ _
    · exact setTag_fr_rel ht ⟨rfl, rfl, fun _ h _ => h⟩

theorem unApply_fr (s : St) (name new : String) (t : Tag) :
    Fr (fun n => n ≠ name ∧ n ≠ new) s (unApply s name new t) := by
  unfold unApply
  refine Fr.trans (b := { s with tags := sins new t (sdel s.tags name) }) ?_ ?_
  · exact ⟨rfl, rfl, fun h => sorted_sins _ _ _ (sorted_sdel _ _ h),
      fun n hn => (keep_sdel_ne _ (Ne.symm hn.1)).trans (keep_sins_ne _ _ (Ne.symm hn.2))⟩
  · exact foldl_fr _ (fun s r => ((delRefBy_fr s r name).trans (addRefBy_fr _ r new)).mono fun _ _ => trivial) _ _

theorem step_updName_fr (s : St) (name new : String) (st : Started) :
    Fr (fun n => n ≠ name ∧ n ≠ new) s (step s (.updName name new) st).1 := by
  rw [step_updName_eq]
  repeat' split
  all_goals first | exact Fr.refl _ _ | skip
  exact unApply_fr _ _ _ _

theorem step_updConv_fr (s : St) (name : String) (convs : List String) (st : Started) :
    Fr NT s (step s (.updConv name convs) st).1 := by
  rw [step_updConv_eq]
  repeat' split
  all_goals first | exact Fr.refl _ _ | skip
  unfold ucAttach ucDetach
  refine Fr.trans ?_ (Fr.of_same (startConverter_same _))
  refine Fr.trans ?_ (foldl_fr _ (fun s c => attachConv_fr s name c) _ _)
  exact foldl_fr _ (fun s c => detachConv_fr s name c st.tag) _ _

theorem markTail_fr (s : St) (name : String) (a d : List Nat) (st : Started) :
    Fr (· ≠ name) s (markTail (markUpdate s name a d) st).1 :=
  (markUpdate_fr s name a d).trans (Fr.of_same ((startTagging_same _ _).trans (startConverter_same _)))

theorem step_markAdd_fr (s : St) (name : String) (ids : List Nat) (st : Started) :
    Fr (· ≠ name) s (step s (.markAdd name ids) st).1 := by
  rw [step_markAdd_eq]
  repeat' split
  all_goals first | exact Fr.refl _ _ | skip
  exact markTail_fr _ _ _ _ _

theorem step_markDel_fr (s : St) (name : String) (ids : List Nat) (st : Started) :
    Fr (· ≠ name) s (step s (.markDel name ids) st).1 := by
  rw [step_markDel_eq]
  repeat' split
  all_goals first | exact Fr.refl _ _ | skip
  exact markTail_fr _ _ _ _ _

theorem dtApply_fr (s : St) (name : String) (t : Tag) (choice : Option String) :
    Fr (· ≠ name) s (dtApply s name t choice) := by
  unfold dtApply
  refine Fr.trans ((foldl_fr _ (fun s c => detachConv_fr s name c choice) t.convs s).mono fun _ _ => trivial) ?_
  refine Fr.trans (b := { (t.convs.foldl (fun s c => detachConv s name c choice) s) with
      tags := sdel (t.convs.foldl (fun s c => detachConv s name c choice) s).tags name }) ?_ ?_
  · exact ⟨rfl, rfl, sorted_sdel _ _, fun n hn => keep_sdel_ne _ (Ne.symm hn)⟩
  · exact foldl_fr _ (fun s r => (delRefBy_fr s r name).mono fun _ _ => trivial) _ _

theorem step_delTag_fr (s : St) (name : String) (st : Started) :
    Fr (· ≠ name) s (step s (.delTag name) st).1 := by
  rw [step_delTag_eq]
  repeat' split
  all_goals first | exact Fr.refl _ _ | skip
  exact dtApply_fr _ _ _ _

theorem step_nop_fr (s : St) (st : Started) : Fr NT s (step s .nop st).1 := Fr.refl _ _

theorem step_importPcaps_fr (s : St) (names : List String) (st : Started) :
    Fr NT s (step s (.importPcaps names) st).1 := by
  unfold step
  simp only []
  split
  · exact Fr.refl _ _
  · split
    · exact Fr.of_same ⟨rfl, rfl, rfl⟩
    · exact Fr.of_same ⟨rfl, rfl, rfl⟩

theorem step_viewOpen_fr (s : St) (k : Nat) (st : Started) : Fr NT s (step s (.viewOpen k) st).1 := by
  unfold step
  simp only []
  split
  · exact Fr.refl _ _
  · exact Fr.of_same ⟨rfl, rfl, rfl⟩

theorem step_viewRelease_fr (s : St) (k : Nat) (st : Started) : Fr NT s (step s (.viewRelease k) st).1 := by
  unfold step
  simp only []
  split
  · exact Fr.refl _ _
  · exact Fr.trans (b := { s with views := ndel s.views k }) (Fr.of_same ⟨rfl, rfl, rfl⟩)
      (Fr.of_same (release_same _ _))


def mdApply (s : St) (off : Nat) (held : List Nat) (merged : List (Nat × List Nat)) : St :=
        if merged.isEmpty then { s with unm := s.unm + 1 }
        else
          let old := (s.idx.drop off).take held.length
          let s := release s old
          let ords := merged.map (·.1)
          let before := (old.map (step.fileCountOf s.files held)).sum
          { s with used := lock s.used ords,
                   files := merged.foldl (fun fs (o, ids) => nins o ids fs) s.files,
                   idx := s.idx.take off ++ ords ++ s.idx.drop (off + held.length),
                   unm := s.unm + (merged.length - 1),
                   nrec := s.nrec + (merged.map (·.2.length)).sum - before }

theorem step_mergeDone_eq (s : St) (merged : List (Nat × List Nat)) (st : Started) :
    step s (.mergeDone merged) st =
      match s.jMerge with
      | none => (s, .none)
      | some (off, held) =>
        (release (startMerge { mdApply { s with jMerge := none } off held merged with merge := false }) held, .none) := rfl

theorem mdApply_same (s : St) (off : Nat) (held : List Nat) (merged : List (Nat × List Nat)) :
    Same s (mdApply s off held merged) := by
  unfold mdApply
  split
  · exact ⟨rfl, rfl, rfl⟩
  · have h := release_same s ((s.idx.drop off).take held.length)
    exact ⟨h.1, h.2.1, h.2.2⟩

theorem step_mergeDone_fr (s : St) (merged : List (Nat × List Nat)) (st : Started) :
    Fr NT s (step s (.mergeDone merged) st).1 := by
  rw [step_mergeDone_eq]
  split
  · exact Fr.refl _ _
  · rename_i off held _
    refine Fr.trans ?_ (Fr.of_same ((startMerge_same _).trans (release_same _ _)))
    refine Fr.trans (b := mdApply { s with jMerge := none } off held merged) ?_ (Fr.of_same ⟨rfl, rfl, rfl⟩)
    exact Fr.trans (b := { s with jMerge := none }) (Fr.of_same ⟨rfl, rfl, rfl⟩) (Fr.of_same (mdApply_same _ _ _ _))

/-! importDone -/
theorem idQueue_same (s : St) : Same s (idQueue s) := by
  unfold idQueue; split
  · exact Same.refl _
  · exact startImport_same _

theorem idApply_nil (s : St) (n : Nat) (u r a : IdSet) : idApply s n [] u r a = s := by
  simp [idApply]

theorem idApply_fr (s : St) (n : Nat) (created : List (Nat × List Nat)) (u r a : IdSet) (hc : created ≠ []) :
    Fr NT (idCreated s n created u r a) (idApply s n created u r a) := by
  unfold idApply
  have : created.isEmpty = false := by cases created <;> simp_all
  simp only [this]
  refine Fr.trans ?_ (Fr.of_same ((invalidateConverters_same _ _).trans (invalidateConverters_same _ _)))
  exact invalidateTags_fr _ _ _ _

/-- the state in which an import completion runs `invalidateTags` -/
def idBase (s : St) (jnext usednew : Nat) (held : List Nat) : St :=
  release { s with all := jnext + usednew, jImport := none } held

theorem idBase_tags (s : St) (jnext usednew : Nat) (held : List Nat) :
    (idBase s jnext usednew held).tags = s.tags ∧ (idBase s jnext usednew held).all = jnext + usednew ∧
    (idBase s jnext usednew held).next = s.next := by
  have h := release_same { s with all := jnext + usednew, jImport := none } held
  exact ⟨h.1, h.2.1, h.2.2⟩

theorem step_importDone_none (s : St) (processed usednew : Nat) (created : List (Nat × List Nat))
    (upd rst add : List Nat) (st : Started) (hj : s.jImport = none) :
    step s (.importDone processed usednew created upd rst add) st = (s, .none) := by
  rw [step_importDone_eq, hj]

/-- everything the tag theorems need about an import completion -/
theorem step_importDone_some (s : St) (processed usednew : Nat) (created : List (Nat × List Nat))
    (upd rst add : List Nat) (st : Started) (jnext : Nat) (held : List Nat) (hj : s.jImport = some (jnext, held)) :
    ∃ s2 : St, Same s2 (step s (.importDone processed usednew created upd rst add) st).1 ∧
      (created = [] → s2.tags = s.tags ∧ s2.all = jnext + usednew ∧ s2.next = s.next) ∧
      (created ≠ [] → ∃ s1 : St, s1.tags = s.tags ∧ s1.all = jnext + usednew ∧ s1.next = jnext + usednew ∧
          Fr NT s1 s2) := by
  rw [step_importDone_eq, hj]
  refine ⟨idApply (idBase s jnext usednew held) (jnext + usednew) created (ofList upd) (ofList rst) (ofList add),
    ?_, ?_, ?_⟩
  · refine Same.trans ?_ ((idQueue_same _).trans (jobTail_same _ _))
    exact ⟨rfl, rfl, rfl⟩
  · rintro rfl
    rw [idApply_nil]; exact idBase_tags _ _ _ _
  · intro hc
    refine ⟨idCreated (idBase s jnext usednew held) (jnext + usednew) created (ofList upd) (ofList rst) (ofList add),
      (idBase_tags _ _ _ _).1, (idBase_tags _ _ _ _).2.1, rfl, idApply_fr _ _ _ _ _ _ hc⟩




theorem same_sget {s s' : St} (h : Same s s') (n : String) : sget s'.tags n = sget s.tags n := by rw [h.1]

/-- the answers published by a tagging-job completion -/
theorem step_tagDone_mat (s : St) (st : Started) (name : String) (snap ot : Tag) (held result : List Nat)
    (hj : s.jTag = some (name, snap, held)) (ht : sget s.tags name = some ot) (hd : ot.defn = snap.defn)
    (hg : ot.gen = snap.gen)  -- CHANGED (gen)
    (t' : Tag) (h' : sget (step s (.tagDone name result) st).1.tags name = some t') :
    t'.mat = union (diff snap.mat snap.unc) (ofList result) := by
  rw [step_tagDone_eq, hj] at h'
  simp only [bne_self_eq_false, Bool.false_eq_true, if_false] at h'
  have hs : Same (tdPublish { s with jTag := none } name snap (ofList result))
      (release (jobTail { tdPublish { s with jTag := none } name snap (ofList result) with tag := false } st) held) :=
    Same.trans (b := { tdPublish { s with jTag := none } name snap (ofList result) with tag := false })
      ⟨rfl, rfl, rfl⟩ ((jobTail_same _ _).trans (release_same _ _))
  rw [same_sget hs] at h'
  unfold tdPublish at h'
  have ht2 : sget ({ s with jTag := none } : St).tags name = some ot := ht
  rw [ht2] at h'
  simp only [hd, hg, beq_self_eq_true, Bool.and_self, if_true] at h'
  have hk := (tdInval_fr (setTag (qConv { s with jTag := none } (tdTag snap ot (ofList result)).convs
      (tdTag snap ot (ofList result)).mat) name (tdTag snap ot (ofList result)))).keep name trivial
  obtain ⟨t2, h2, hr⟩ := hk.1 (tdTag snap ot (ofList result)) (by simp [setTag, sget_sins])
  rw [h2] at h'; cases h'
  exact hr.1

theorem markUpdate_mat (s : St) (name : String) (t : Tag) (a d : List Nat) (ht : sget s.tags name = some t) :
    ∃ t', sget (markUpdate s name a d).1.tags name = some t' ∧
      ∀ id, id ∈ t'.mat ↔ ((id ∈ t.mat ∨ id ∈ a) ∧ id ∉ d) := by
  rw [markUpdate_eq, ht]
  simp only []
  have hk := (inherit_fr (setTag (muAdd t s a).2 name (muDel (muAdd t s a).1 d))).keep name trivial
  obtain ⟨t3, h3, hr⟩ := hk.1 (muDel (muAdd t s a).1 d) (by simp [setTag, sget_sins])
  have h4 : sget (invalidatedDuringTaggingJob (inherit (setTag (muAdd t s a).2 name (muDel (muAdd t s a).1 d)))
      (muDel (muAdd t s a).1 d).unc).tags name = some t3 := by
    rw [same_sget (invalidatedDuring_same _ _)]; exact h3
  refine ⟨{ t3 with unc := t.unc }, ?_, ?_⟩
  · unfold muFin; rw [h4]; simp [setTag, sget_sins]
  · intro id
    show id ∈ t3.mat ↔ _
    rw [hr.1, muDel_mat, muAdd_mat]

/-! what `invF` makes pending -/
theorem invF_add {all : Nat} {upd rst add : IdSet} (t : Tag) (id : Nat) (h : id ∈ add) (hb : id < all) :
    id ∈ (invF all upd rst add t).unc := by
  unfold invF
  split
  · simpa using hb
  · split
    · split
      · rename_i he; simp only [List.isEmpty_iff] at he; simp [he] at h
      · simp [h]
    · simp only []; split <;> simp [h]

theorem invF_sub {all : Nat} {upd rst add : IdSet} (t : Tag) (hs : t.sfeat ≠ 0) (id : Nat) (hb : id < all) :
    id ∈ (invF all upd rst add t).unc := by
  unfold invF; simp [hs, hb]

theorem invF_rst {all : Nat} {upd rst add : IdSet} (t : Tag) (hm : t.mfeat &&& (255 - fID) ≠ 0)
    (id : Nat) (h : id ∈ rst) (hb : id < all) : id ∈ (invF all upd rst add t).unc := by
  unfold invF
  split
  · simpa using hb
  · split
    · rename_i he; simp only [beq_iff_eq] at he; exact absurd he hm
    · simp only []; split <;> simp [h]

theorem invF_upd {all : Nat} {upd rst add : IdSet} (t : Tag)
    (hm : t.mfeat &&& (fData ||| fTimeAbs ||| fTimeRel) ≠ 0)
    (id : Nat) (h : id ∈ upd) (hb : id < all) : id ∈ (invF all upd rst add t).unc := by
  have h254 : t.mfeat &&& (255 - fID) ≠ 0 := by
    intro h0
    apply hm
    have e : (fData ||| fTimeAbs ||| fTimeRel) = (255 - fID) &&& (fData ||| fTimeAbs ||| fTimeRel) := by decide
    rw [e, ← Nat.and_assoc, h0, Nat.zero_and]
  unfold invF
  split
  · simpa using hb
  · split
    · rename_i he; simp only [beq_iff_eq] at he; exact absurd he h254
    · simp [h]



/-! ## all events together -/

/-- the event edits, renames, deletes or publishes tag `n` (= `Pk.Props.C06.Edits`) -/
def EditsN (e : Ev) (n : String) : Prop :=
  match e with
  | .tagDone m _ => m = n
  | .addTag m _ _ _ => m = n
  | .updQuery m _ _ => m = n
  | .updName m new => m = n ∨ new = n
  | .markAdd m _ => m = n
  | .markDel m _ => m = n
  | .delTag m => m = n
  | _ => False

/-- what every event does to the tag table, for the tags it does not edit (`Keep` is "same
    answers, same definition, pending ids below the bound stay pending"; both directions of
    existence) -/
theorem step_frame (s : St) (e : Ev) (st : Started) :
    (Sorted s.tags → Sorted (step s e st).1.tags) ∧
    (∀ n, ¬ EditsN e n → Keep (step s e st).1.all n s.tags (step s e st).1.tags) ∧
    ((∀ p u c a b d, e ≠ .importDone p u c a b d) → (step s e st).1.all = s.all ∧ (step s e st).1.next = s.next) := by
  have conv : ∀ (N : String → Prop), Fr N s (step s e st).1 → (∀ n, ¬ EditsN e n → N n) →
      (Sorted s.tags → Sorted (step s e st).1.tags) ∧
      (∀ n, ¬ EditsN e n → Keep (step s e st).1.all n s.tags (step s e st).1.tags) ∧
      ((∀ p u c a b d, e ≠ .importDone p u c a b d) →
        (step s e st).1.all = s.all ∧ (step s e st).1.next = s.next) :=
    fun N h hN => ⟨h.sorted, fun n hn => h.all ▸ h.keep n (hN n hn), fun _ => ⟨h.all, h.next⟩⟩
  cases e with
  | nop => exact conv _ (step_nop_fr s st) (fun _ _ => trivial)
  | importPcaps names => exact conv _ (step_importPcaps_fr s names st) (fun _ _ => trivial)
  | tagDone name result =>
    exact conv _ (step_tagDone_fr s name result st) (fun n hn h => hn (by simp [EditsN, h]))
  | mergeDone merged => exact conv _ (step_mergeDone_fr s merged st) (fun _ _ => trivial)
  | convertDone => exact conv _ (step_convertDone_fr s st) (fun _ _ => trivial)
  | addTag name color defn f =>
    exact conv _ (step_addTag_fr s name color defn f st) (fun n hn h => hn (by simp [EditsN, h]))
  | updQuery name defn f =>
    exact conv _ (step_updQuery_fr s name defn f st) (fun n hn h => hn (by simp [EditsN, h]))
  | updColor name color => exact conv _ (step_updColor_fr s name color st) (fun _ _ => trivial)
  | updName name new =>
    exact conv _ (step_updName_fr s name new st)
      (fun n hn => ⟨fun h => hn (by simp [EditsN, h]), fun h => hn (by simp [EditsN, h])⟩)
  | updConv name convs => exact conv _ (step_updConv_fr s name convs st) (fun _ _ => trivial)
  | markAdd name ids =>
    exact conv _ (step_markAdd_fr s name ids st) (fun n hn h => hn (by simp [EditsN, h]))
  | markDel name ids =>
    exact conv _ (step_markDel_fr s name ids st) (fun n hn h => hn (by simp [EditsN, h]))
  | delTag name =>
    exact conv _ (step_delTag_fr s name st) (fun n hn h => hn (by simp [EditsN, h]))
  | viewOpen k => exact conv _ (step_viewOpen_fr s k st) (fun _ _ => trivial)
  | viewRelease k => exact conv _ (step_viewRelease_fr s k st) (fun _ _ => trivial)
  | importDone processed usednew created upd rst add =>
    refine ⟨?_, ?_, fun h => absurd rfl (h _ _ _ _ _ _)⟩
    · intro hw
      cases hj : s.jImport with
      | none => rw [step_importDone_none _ _ _ _ _ _ _ _ hj]; exact hw
      | some p =>
        obtain ⟨jnext, held⟩ := p
        obtain ⟨s2, hs, h0, h1⟩ := step_importDone_some s processed usednew created upd rst add st jnext held hj
        rw [hs.1]
        by_cases hc : created = []
        · rw [(h0 hc).1]; exact hw
        · obtain ⟨s1, e1, _, _, hf⟩ := h1 hc
          exact hf.sorted (by rw [e1]; exact hw)
    · intro n _
      cases hj : s.jImport with
      | none => rw [step_importDone_none _ _ _ _ _ _ _ _ hj]; exact Keep.refl _ _ _
      | some p =>
        obtain ⟨jnext, held⟩ := p
        obtain ⟨s2, hs, h0, h1⟩ := step_importDone_some s processed usednew created upd rst add st jnext held hj
        rw [hs.1, hs.2.1]
        by_cases hc : created = []
        · exact Keep.of_eq (h0 hc).1
        · obtain ⟨s1, e1, e2, _, hf⟩ := h1 hc
          have := hf.keep n trivial
          rw [e1] at this; rw [hf.all]; exact this


end Pk.Proofs.MgrTags
