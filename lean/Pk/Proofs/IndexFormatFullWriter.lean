/-
  Writer-side bookkeeping for the full C01 statements: where the packet records of every stream sit,
  the import table (append only, duplicate free) and the file-name section.
-/
import Pk.Model.IndexFormat
import Pk.Proofs.IndexFormatRoundtrip
import Pk.Proofs.IndexFormatHostsRoundtrip
import Pk.Proofs.IndexFormatMeta
import Pk.Proofs.IndexFormatData
namespace Pk.Index
open Pk Pk.Bytes

/-! ### imports -/

theorem addImports_spec (rs : List SrcRef) : ∀ (imps : List ImportKey), imps.Nodup →
    ∃ more, addImports imps rs = imps ++ more ∧ (addImports imps rs).Nodup ∧ ∀ r ∈ rs, r.key ∈ addImports imps rs := by
  induction rs with
  | nil => intro imps h; exact ⟨[], by simp [addImports], by simpa [addImports] using h, by simp⟩
  | cons r rs ih =>
    intro imps h
    simp only [addImports]
    by_cases hc : imps.contains r.key = true
    · simp only [hc, if_true]
      obtain ⟨more, h1, h2, h3⟩ := ih imps h
      refine ⟨more, h1, h2, ?_⟩
      intro x hx
      simp at hx
      rcases hx with rfl | hx
      · rw [h1]; simp at hc; simp [hc]
      · exact h3 x hx
    · simp only [hc, Bool.false_eq_true, if_false]
      have hnd : (imps ++ [r.key]).Nodup := by
        simp at hc
        rw [List.nodup_append]
        refine ⟨h, by simp, ?_⟩
        intro a ha b hb
        simp at hb; subst hb
        intro hab; subst hab; exact hc ha
      obtain ⟨more, h1, h2, h3⟩ := ih _ hnd
      refine ⟨r.key :: more, by rw [h1]; simp, h2, ?_⟩
      intro x hx
      simp at hx
      rcases hx with rfl | hx
      · rw [h1]; simp
      · exact h3 x hx

/-! ### packet records of a stream -/

/-- time of the first packet (0 without packets) -/
def StreamIn.ts0 (s : StreamIn) : Int := (s.packets.head?.map (·.ts)).getD 0

/-- the records `AddStream` computes for `s` before the skip pass -/
def streamRaw (imports : List ImportKey) (s : StreamIn) : List PacketRec :=
  allRecords imports s.ts0 s.data 0 s.packets

/-- … and as it appends them to the packet section -/
def streamRecs (imports : List ImportKey) (s : StreamIn) : List PacketRec :=
  clearLastHasNext (setSkips (streamRaw imports s)).1

def StreamIn.KeysIn (s : StreamIn) (imports : List ImportKey) : Prop :=
  ∀ p ∈ s.packets, ∀ r ∈ p.refs, r.key ∈ imports

theorem packetRecords_ext (imps more : List ImportKey) (ts0 : Int) (n : Nat) (p : PacketIn)
    (h : ∀ r ∈ p.refs, r.key ∈ imps) : packetRecords (imps ++ more) ts0 n p = packetRecords imps ts0 n p := by
  unfold packetRecords
  simp only
  congr 1
  apply List.map_congr_left
  intro r hr
  have : r.key ∈ imps := h r (by simpa [PacketIn.pmds] using hr)
  simp [List.idxOf_append, this]

theorem allRecords_ext (imps more : List ImportKey) (ts0 : Int) (data : List ChunkIn) (ps : List PacketIn) :
    ∀ (k : Nat), (∀ p ∈ ps, ∀ r ∈ p.refs, r.key ∈ imps) →
    allRecords (imps ++ more) ts0 data k ps = allRecords imps ts0 data k ps := by
  induction ps with
  | nil => intro k _; rfl
  | cons p ps ih =>
    intro k h
    simp only [allRecords]
    rw [packetRecords_ext imps more ts0 _ p (h p (by simp)), ih (k + 1) (fun q hq => h q (by simp [hq]))]

theorem streamRecs_ext (imps more : List ImportKey) (s : StreamIn) (h : s.KeysIn imps) :
    streamRecs (imps ++ more) s = streamRecs imps s := by
  unfold streamRecs streamRaw
  rw [allRecords_ext imps more _ _ _ 0 h]

/-- everything `AddStream` does to the packet section and the import table -/
theorem addStream_spec2 (w w' : Writer) (s : StreamIn) (h : w.addStream s = .ok (w', true)) :
    w'.imports = addImports w.imports (s.packets.map PacketIn.pmds).flatten ∧
    w'.packets = w.packets ++ streamRecs w'.imports s ∧ streamRaw w'.imports s ≠ [] ∧
    w.packets.length < 2 ^ 32 := by
  unfold Writer.addStream at h
  split at h
  · simp at h
  · rename_i hcap
    split at h
    · rename_i p0 pl hp0 hpl
      simp only at h
      split at h
      · simp at h
      · rename_i hgs gid cid sid hp
        split at h
        · simp at h
        · rename_i cds hcd
          split at h
          · simp at h
          · rename_i hne
            simp at h
            subst h
            have hts : s.ts0 = p0.ts := by simp [StreamIn.ts0, hp0]
            refine ⟨rfl, ?_, ?_, by omega⟩
            · simp only [streamRecs, streamRaw, hts]
            · simp only [streamRaw, hts]
              intro hnil; apply hne; simp [hnil]
    · simp at h

/-- the packet records of `s` sit in the packet section where its record says -/
def PktAt (imports : List ImportKey) (packets : List PacketRec) (s : StreamIn) (rec_ : StreamRec) : Prop :=
  s.KeysIn imports ∧ streamRaw imports s ≠ [] ∧ ∃ rest, packets.drop rec_.pstart = streamRecs imports s ++ rest

theorem PktAt.ext {imps : List ImportKey} {pk : List PacketRec} {s : StreamIn} {r : StreamRec}
    (h : PktAt imps pk s r) (more : List ImportKey) (pk' : List PacketRec) (hp : r.pstart ≤ pk.length) :
    PktAt (imps ++ more) (pk ++ pk') s r := by
  obtain ⟨h1, h2, rest, h3⟩ := h
  refine ⟨fun p hp r hr => by simp [h1 p hp r hr], ?_, rest ++ pk', ?_⟩
  · have := streamRecs_ext imps more s h1
    unfold streamRaw at h2 ⊢
    rw [allRecords_ext imps more _ _ _ 0 h1]; exact h2
  · rw [streamRecs_ext imps more s h1, List.drop_append_of_le_length hp, h3]; simp

def PktInv (w : Writer) (ss : List StreamIn) : Prop :=
  w.imports.Nodup ∧ Zip (fun s r => PktAt w.imports w.packets s r ∧ r.pstart ≤ w.packets.length) ss w.streams

theorem rebase_pstart (w : Writer) (fs : Nat) (R : StreamIn → StreamRec → Prop)
    (hR : ∀ s r f l, R s r → R s { r with first := f, last := l }) (ss : List StreamIn)
    (h : Zip R ss w.streams) : Zip R ss (w.rebase fs).2 := by
  unfold Writer.rebase
  split
  · exact h
  · split
    · exact Zip.mono _ (fun s r hr => hR s r _ _ hr) h
    · exact h

theorem addStream_pkt (w w' : Writer) (ss : List StreamIn) (s : StreamIn) (hinv : PktInv w ss)
    (h : w.addStream s = .ok (w', true)) : PktInv w' (ss ++ [s]) := by
  obtain ⟨p0, pl, gid, cid, sid, cds, recs, _, _, _, hcd, _, hst, _, _, _, _⟩ := addStream_spec w w' s h
  obtain ⟨himp, hpk, hne, hcap⟩ := addStream_spec2 w w' s h
  obtain ⟨hnd, hz⟩ := hinv
  obtain ⟨more, hmore, hnd', hkeys⟩ := addImports_spec (s.packets.map PacketIn.pmds).flatten w.imports hnd
  rw [← himp] at hmore hnd' hkeys
  refine ⟨hnd', ?_⟩
  rw [hst]
  have hold := rebase_pstart w (unixSec p0.ts) _ (fun s r f l hr => by exact hr) ss hz
  have hold2 := Zip.mono (R' := fun s r => PktAt w'.imports w'.packets s r ∧ r.pstart ≤ w'.packets.length) id
    (fun s r hr => by
      obtain ⟨h1, h2⟩ := hr
      rw [hmore, hpk]
      exact ⟨h1.ext _ _ h2, by simp only [id]; rw [List.length_append]; omega⟩) hold
  simp only [List.map_id] at hold2
  refine hold2.append ⟨⟨?_, hne, [], ?_⟩, ?_⟩
  · intro p hp r hr
    apply hkeys
    simp only [List.mem_flatten, List.mem_map]
    exact ⟨p.pmds, ⟨p, hp, rfl⟩, by simpa [PacketIn.pmds] using hr⟩
  · have : (mkStreamRec w s w'.ref p0 pl gid cid sid cds).pstart = w.packets.length := by
      simp only [mkStreamRec]; exact Nat.mod_eq_of_lt hcap
    rw [this, hpk]; simp
  · have : (mkStreamRec w s w'.ref p0 pl gid cid sid cds).pstart = w.packets.length := by
      simp only [mkStreamRec]; exact Nat.mod_eq_of_lt hcap
    rw [this, hpk]; simp

theorem addAll_pkt (ss : List StreamIn) : ∀ (w w' : Writer) (done : List StreamIn), PktInv w done →
    w.addAll ss = some w' → PktInv w' (done ++ ss) := by
  induction ss with
  | nil => intro w w' done hinv h; simp [Writer.addAll] at h; subst h; simpa using hinv
  | cons s ss ih =>
    intro w w' done hinv h
    simp only [Writer.addAll] at h
    split at h
    · rename_i w1 h1
      have := ih w1 w' (done ++ [s]) (addStream_pkt w w1 done s hinv h1) h
      simpa using this
    · simp at h

end Pk.Index
