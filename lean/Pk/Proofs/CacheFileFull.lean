/-
  C15 helper lemmas: every operation of the cache file keeps the invariant `Inv` and acts on the
  served record bodies (`view`) like the corresponding map operation.
  (codecs: CacheFileVarBytes, CacheFileCts, CacheFileSkip; file: CacheFileInv, CacheFileCompact,
  CacheFileOpen)
-/
import Pk.Model.CacheFile
import Pk.Proofs.CacheFile
import Pk.Proofs.CacheFileVarBytes
import Pk.Proofs.CacheFileCts
import Pk.Proofs.CacheFileSkip
import Pk.Proofs.CacheFileInv
import Pk.Proofs.CacheFileCompact
import Pk.Proofs.CacheFileOpen

namespace Pk.Proofs.CacheFile
open Pk.CacheFile

/-- `setData`, compaction included: it succeeds, keeps the invariant and replaces the body of `x` -/
theorem setData_inv (st : St) (rs : List Rec) (h : Inv st rs) (x : Nat) (t0 : Int) (cs : List Chunk)
    (hx : x < 2 ^ 64 - 1) (hcs : ∀ c ∈ cs, c.content.length < 2 ^ 64 ∧ c.ctype.length < 2 ^ 64) :
    ∃ st' rs', setData st x t0 cs = some st' ∧ Inv st' rs' ∧
      ∀ y, view rs' y = if y = x then some (encodeRecord cs t0) else view rs y := by
  have hxi : x ≠ invalidStreamID := by simp only [invalidStreamID]; omega
  have hgood : GoodBody (encodeRecord cs t0) := fun rest => skip_encodeRecord cs t0 rest hcs
  rw [setData_eq]
  split
  · obtain ⟨st1, rs1, e1, i1, v1⟩ := truncateFile_inv st rs h
    refine ⟨_, _, by rw [e1]; rfl, storeCore_inv st1 rs1 i1 x t0 cs hx hgood, ?_⟩
    intro y
    rw [view_store x hxi, v1]
  · refine ⟨_, _, rfl, storeCore_inv st rs h x t0 cs hx hgood, ?_⟩
    intro y
    rw [view_store x hxi]

theorem Inv.contains_eq {st : St} {rs : List Rec} (h : Inv st rs) (x : Nat) (hv : view rs x = none) :
    contains st x = false ∧ dataForSearch st x = some none ∧ ∀ t0, data st x t0 = some none := by
  have := h.none_eq x hv
  simp [contains, dataForSearch, data, this]

end Pk.Proofs.CacheFile
