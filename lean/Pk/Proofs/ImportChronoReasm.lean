/-
  Chronological arrival, part 2: what ONE packet does to `streamFactory.Streams`, for ANY packets and
  ANY timestamps (flushes included): every stream keeps its packets and its data and may get more
  data (`SExt []`); at most one stream gets the packet appended, or one new stream is pushed that
  holds just this packet (`PktShape`).  Consequences for runs: `reasm (F ++ G)` extends `reasm F`
  stream by stream (`ReasmExt`), every stream holds a packet, and no packet key occurs in two
  streams (`KeyDisj`).
-/
import Pk.Proofs.ImportReasmMoreLocal
import Pk.Proofs.ImportChronoSort

namespace Pk.Proofs.ImportChrono
open Pk.Import Pk.Proofs.ImportReasm

/-! ### one stream -/

/-- `s'` is `s` with the packets `np` (newest first) recorded and possibly more data delivered -/
def SExt (np : List (PRef × Bool)) (s s' : Stream) : Prop :=
  s'.pktsRev = np ++ s.pktsRev ∧ ∃ more, s'.dataRev = more ++ s.dataRev

theorem SExt.refl (s : Stream) : SExt [] s s := ⟨rfl, [], rfl⟩

theorem SExt.trans {n1 n2 : List (PRef × Bool)} {a b c : Stream} (h1 : SExt n1 a b) (h2 : SExt n2 b c) :
    SExt (n2 ++ n1) a c := by
  obtain ⟨p1, m1, d1⟩ := h1
  obtain ⟨p2, m2, d2⟩ := h2
  exact ⟨by rw [p2, p1, List.append_assoc], m2 ++ m1, by rw [d2, d1, List.append_assoc]⟩

theorem SExt.of_streamExt {a b : Stream} (h : StreamExt a b) : SExt [] a b := by
  obtain ⟨m, c, rfl⟩ := h
  exact ⟨rfl, m, rfl⟩

theorem default_pktsRev : (default : Stream).pktsRev = [] := rfl
theorem default_dataRev : (default : Stream).dataRev = [] := rfl

theorem tcpBody_data (c : TcpConn) (st : Stream) (p : Pkt) (d : Bool) :
    ∃ more, (tcpBody c st p d).2.dataRev = more ++ st.dataRev := by
  have key : ∀ (h : Half), ∃ more, (acceptHalf st h p d).1.dataRev = more ++ st.dataRev := by
    intro h
    unfold acceptHalf
    simp only
    split
    · obtain ⟨m, c', he⟩ := assembleHalf_ext
        { st.addPkt p.ref d with fsm := ((st.addPkt p.ref d).fsm.check p d).1 } h p
      exact ⟨m, by rw [he]; rfl⟩
    · exact ⟨[], rfl⟩
  have aux : ∀ (X : Stream) (q : Prop) [Decidable q],
      (if q then ({ X with complete := true } : Stream) else X).dataRev = X.dataRev := by
    intro X q _; split <;> rfl
  unfold tcpBody
  simp only
  rw [aux]
  exact key _

theorem tcpBody_sext (c : TcpConn) (st : Stream) (p : Pkt) (d : Bool) : SExt [(p.ref, d)] st (tcpBody c st p d).2 :=
  ⟨tcpBody_pkts c st p d, tcpBody_data c st p d⟩

theorem udpBody_sext (st : Stream) (p : Pkt) (d : Bool) : SExt [(p.ref, d)] st (udpBody st p d) := by
  refine ⟨udpBody_pkts st p d, ?_⟩
  unfold udpBody
  simp only
  split
  · exact ⟨[], rfl⟩
  · obtain ⟨m, c', he⟩ := addData_ext (st.addPkt p.ref d) p.ref p.payload
    exact ⟨m, by rw [he]; rfl⟩

/-! ### the array of streams -/

/-- a flush: sizes and packets stay, data may be delivered -/
def DataOnly (ss ss' : Array Stream) : Prop := ss'.size = ss.size ∧ ∀ i : Nat, SExt [] ss[i]! ss'[i]!

/-- one packet: at most one stream (`j`) gets the packet; a new stream holds just this packet -/
structure PktShape (p : Pkt) (ss ss' : Array Stream) : Prop where
  size : ss'.size = ss.size ∨ ss'.size = ss.size + 1
  ex : ∃ j d, (∀ i, i ≠ j → SExt [] ss[i]! ss'[i]!) ∧
    (SExt [] ss[j]! ss'[j]! ∨ SExt [(p.ref, d)] ss[j]! ss'[j]!) ∧
    (ss'.size = ss.size + 1 → j = ss.size ∧ SExt [(p.ref, d)] ss[j]! ss'[j]!)

theorem PktShape.same (p : Pkt) (ss : Array Stream) : PktShape p ss ss :=
  ⟨Or.inl rfl, 0, false, fun i _ => SExt.refl _, Or.inl (SExt.refl _), fun h => by omega⟩

theorem PktShape.set (p : Pkt) (ss : Array Stream) (j : Nat) (d : Bool) (x : Stream) (h : SExt [(p.ref, d)] ss[j]! x) :
    PktShape p ss (ss.set! j x) := by
  refine ⟨Or.inl (by simp), j, d, ?_, ?_, ?_⟩
  · intro i hi
    rw [array_set!_get!_ne ss i j x (Ne.symm hi)]
    exact SExt.refl _
  · rw [array_set!_get!_eq]
    split
    · exact Or.inr h
    · exact Or.inl (SExt.refl _)
  · intro hs
    simp at hs

theorem array_push_get! (ss : Array Stream) (x : Stream) (i : Nat) :
    (ss.push x)[i]! = if i = ss.size then x else ss[i]! := by
  split
  · rename_i h; subst h; simp
  · rename_i h
    by_cases hi : i < ss.size
    · simp [Array.getElem!_eq_getD, Array.getD_eq_getD_getElem?, Array.getElem?_push, h]
    · have h1 : ¬ (i < (ss.push x).size) := by simp; omega
      simp [Array.getElem!_eq_getD, Array.getD_eq_getD_getElem?, Array.getElem?_push, h]

theorem array_get!_size (ss : Array Stream) : ss[ss.size]! = default := by
  simp

theorem PktShape.push (p : Pkt) (ss : Array Stream) (d : Bool) (x : Stream) (h : SExt [(p.ref, d)] default x) :
    PktShape p ss (ss.push x) := by
  have hx : SExt [(p.ref, d)] ss[ss.size]! (ss.push x)[ss.size]! := by
    rw [array_get!_size, array_push_get!, if_pos rfl]; exact h
  refine ⟨Or.inr (by simp), ss.size, d, ?_, Or.inr hx, fun _ => ⟨rfl, hx⟩⟩
  intro i hi
  rw [array_push_get!, if_neg hi]
  exact SExt.refl _

theorem PktShape.after_flush {p : Pkt} {a b c : Array Stream} (h1 : DataOnly a b) (h2 : PktShape p b c) : PktShape p a c := by
  obtain ⟨hs, j, d, e1, e2, e3⟩ := h2
  obtain ⟨s1, f1⟩ := h1
  refine ⟨by rw [← s1]; exact hs, j, d, ?_, ?_, ?_⟩
  · intro i hi
    exact (f1 i).trans (e1 i hi)
  · rcases e2 with e2 | e2
    · exact Or.inl ((f1 j).trans e2)
    · exact Or.inr ((f1 j).trans e2)
  · intro hsz
    obtain ⟨g1, g2⟩ := e3 (by rw [s1]; exact hsz)
    exact ⟨by rw [g1, s1], (f1 j).trans g2⟩

/-! ### TCP -/

/-- `tcpPacket` after its flush -/
def tcpNoFlush (r : RState) (p : Pkt) : RState :=
  match tcpFind p r.tcp 0 with
  | some (i, dir) => tcpApply { r with unmodelled := r.unmodelled || decide (p.payload.length > 1900) } p i dir
  | none =>
    tcpApply { r with streams := r.streams.push (newTcpStream p), tcp := r.tcp ++ [newConn p r.streams.size],
                      unmodelled := r.unmodelled || decide (p.payload.length > 1900) } p r.tcp.length false

theorem tcpPacket_flush (r : RState) (p : Pkt) :
    tcpPacket r p = tcpNoFlush
      { r with tcp := (tcpFlush (assemblerIndex p) p.ts r.tcp r.streams r.unmodelled).1,
               streams := (tcpFlush (assemblerIndex p) p.ts r.tcp r.streams r.unmodelled).2.1,
               unmodelled := (tcpFlush (assemblerIndex p) p.ts r.tcp r.streams r.unmodelled).2.2 } p := by
  generalize hF : tcpFlush (assemblerIndex p) p.ts r.tcp r.streams r.unmodelled = F
  obtain ⟨F1, F2, F3⟩ := F
  cases hf : tcpFind p F1 0 with
  | some x =>
    obtain ⟨i, dir⟩ := x
    cases hc : F1[i]? with
    | none =>
      unfold tcpPacket tcpNoFlush tcpApply
      simp only [hF, hf, hc]
    | some c =>
      unfold tcpPacket tcpNoFlush tcpApply
      simp only [hF, hf, hc]
      unfold tcpBody
      cases dir <;> rfl
  | none =>
    have hc : (F1 ++ [newConn p F2.size])[F1.length]? = some (newConn p F2.size) := by simp
    unfold tcpPacket tcpNoFlush tcpApply
    simp only [hF, hf, hc]
    unfold newConn at hc
    simp only [hc]
    unfold tcpBody
    rfl

theorem tcpApply_shape (r : RState) (p : Pkt) (i : Nat) (dir : Bool) : PktShape p r.streams (tcpApply r p i dir).streams := by
  unfold tcpApply
  split
  · exact PktShape.same p _
  · rename_i c _
    exact PktShape.set p r.streams c.stream dir _ (tcpBody_sext c _ p dir)

theorem tcpNoFlush_shape (r : RState) (p : Pkt) : PktShape p r.streams (tcpNoFlush r p).streams := by
  unfold tcpNoFlush
  split
  · rename_i i dir _
    exact tcpApply_shape { r with unmodelled := r.unmodelled || decide (p.payload.length > 1900) } p i dir
  · -- a new connection: the stream is pushed, then it gets the packet
    unfold tcpApply
    have h1 : (r.tcp ++ [newConn p r.streams.size])[r.tcp.length]? = some (newConn p r.streams.size) := by simp
    simp only [h1]
    have h2 : (newConn p r.streams.size).stream = r.streams.size := rfl
    simp only [h2]
    have h3 : (r.streams.push (newTcpStream p))[r.streams.size]! = newTcpStream p := by simp
    rw [h3, array_push_set!]
    exact PktShape.push p r.streams false _ (tcpBody_sext _ (newTcpStream p) p false)

theorem tcpFlush_dataOnly (k ts : Nat) (cs : List TcpConn) (ss : Array Stream) (u : Bool) :
    DataOnly ss (tcpFlush k ts cs ss u).2.1 :=
  ⟨tcpFlush_size k ts cs ss u, fun i => SExt.of_streamExt (tcpFlush_ext k ts cs ss u i)⟩

theorem tcpPacket_shape (r : RState) (p : Pkt) : PktShape p r.streams (tcpPacket r p).streams := by
  rw [tcpPacket_flush]
  exact PktShape.after_flush (tcpFlush_dataOnly (assemblerIndex p) p.ts r.tcp r.streams r.unmodelled)
    (tcpNoFlush_shape
      { r with tcp := (tcpFlush (assemblerIndex p) p.ts r.tcp r.streams r.unmodelled).1,
               streams := (tcpFlush (assemblerIndex p) p.ts r.tcp r.streams r.unmodelled).2.1,
               unmodelled := (tcpFlush (assemblerIndex p) p.ts r.tcp r.streams r.unmodelled).2.2 } p)

/-! ### UDP -/

theorem udpFlush_dataOnly (ts : Nat) (cs : List UdpConn) (ss : Array Stream) : DataOnly ss (udpFlush ts cs ss).2 := by
  refine ⟨udpFlush_size ts cs ss, ?_⟩
  intro i
  have h := udpFlush_streams ts cs ss i
  by_cases hi : i < ss.size
  · have e1 : ss[i]? = some ss[i]! := by simp [hi]
    have hi' : i < (udpFlush ts cs ss).2.size := by rw [udpFlush_size]; exact hi
    have e2 : (udpFlush ts cs ss).2[i]? = some (udpFlush ts cs ss).2[i]! := by simp [hi']
    rw [e1, e2] at h
    simp only [Option.map_some, Option.some.injEq] at h
    rw [h]
    split
    · exact ⟨rfl, [], rfl⟩
    · exact SExt.refl _
  · have hi' : ¬ i < (udpFlush ts cs ss).2.size := by rw [udpFlush_size]; exact hi
    have e1 : ss[i]! = default := by simp [hi]
    have e2 : (udpFlush ts cs ss).2[i]! = default := by
      simp [hi']
    rw [e1, e2]
    exact SExt.refl _

/-- `udpPacket` after its flush -/
def udpNoFlush (r : RState) (p : Pkt) : RState :=
  match udpLookup r.streams p r.udp 0 with
  | some (i, dir) =>
    match r.udp[i]? with
    | none => r
    | some c =>
      { r with streams := r.streams.set! c.stream (udpBody r.streams[c.stream]! p dir),
               udp := r.udp.set i { c with lastActivity := p.ts } }
  | none =>
    { r with streams := r.streams.push (udpBody (newUdpStream p) p false),
             udp := r.udp ++ [{ lastActivity := p.ts, stream := r.streams.size }] }

theorem udpPacket_flush (r : RState) (p : Pkt) :
    udpPacket r p = udpNoFlush { r with udp := (udpFlush p.ts r.udp r.streams).1, streams := (udpFlush p.ts r.udp r.streams).2 } p := by
  unfold udpPacket udpNoFlush
  rfl

theorem udpNoFlush_shape (r : RState) (p : Pkt) : PktShape p r.streams (udpNoFlush r p).streams := by
  unfold udpNoFlush
  cases hl : udpLookup r.streams p r.udp 0 with
  | none => exact PktShape.push p r.streams false _ (udpBody_sext (newUdpStream p) p false)
  | some x =>
    obtain ⟨i, dir⟩ := x
    cases hc : r.udp[i]? with
    | none => simp only [hc]; exact PktShape.same p _
    | some c => simp only [hc]; exact PktShape.set p r.streams c.stream dir _ (udpBody_sext _ p dir)

theorem udpPacket_shape (r : RState) (p : Pkt) : PktShape p r.streams (udpPacket r p).streams := by
  rw [udpPacket_flush]
  exact PktShape.after_flush (udpFlush_dataOnly p.ts r.udp r.streams)
    (udpNoFlush_shape { r with udp := (udpFlush p.ts r.udp r.streams).1, streams := (udpFlush p.ts r.udp r.streams).2 } p)

/-- what one packet does to the streams, whatever the state of the reassembler -/
theorem reasmPacket_shape (r : RState) (p : Pkt) : PktShape p r.streams (reasmPacket r p).streams := by
  unfold reasmPacket
  split
  · exact udpPacket_shape r p
  · exact tcpPacket_shape r p

end Pk.Proofs.ImportChrono
