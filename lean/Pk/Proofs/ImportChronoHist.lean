/-
  Chronological arrival, part 7: whole histories.  `runHist bs` is the fold of
  `C08.NoDoubleIdChrono` / `C08.BatchingIrrelevantChrono`: every batch is imported with the feed
  `sortPkts (everything so far)` on top of the stack so far.  Under `ChronoHist bs` the stack stays
  in step with the reassembler (`runHist_inv`), and inside one window the visible versions are the
  current streams (`runHist_cur`).
-/
import Pk.Proofs.ImportChronoInv
import Pk.Proofs.ImportChronoWindow

namespace Pk.Proofs.ImportChrono
open Pk.Import Pk.Props.C08 Pk.Proofs.Import Pk.Proofs.ImportReasm

def runStep (acc : List Index × List Pkt) (b : Batch) : List Index × List Pkt :=
  (importStep b.1 (sortPkts (acc.2 ++ b.2)) acc.1, acc.2 ++ b.2)

/-- the incremental imports of a history: (stack, all packets) -/
def runHist (bs : List Batch) : List Index × List Pkt := bs.foldl runStep ([], [])

/-- hypotheses on the batches still to come, relative to the packets `acc` imported so far -/
structure RestHyp (acc : List Pkt) (bs : List Batch) : Prop where
  before : ∀ b ∈ bs, Before acc b.2
  strict : bs.Pairwise (fun bi bj => Before bi.2 bj.2)
  keys : ((acc ++ allPkts bs).map Pkt.key).Nodup
  names : ∀ b ∈ bs, ∀ p ∈ b.2, p.file ∈ b.1
  accfresh : ∀ b ∈ bs, ∀ p ∈ acc, p.file ∉ b.1
  fresh : bs.Pairwise (fun bi bj => ∀ p ∈ bi.2, p.file ∉ bj.1)

theorem RestHyp.of_chrono {bs : List Batch} (h : ChronoHist bs) : RestHyp [] bs :=
  ⟨fun b _ => Before.nil_left _, h.strict, by simpa using h.keys, h.names, (by intro b _ p hp; cases hp), h.fresh⟩

theorem RestHyp.tail {acc : List Pkt} {b : Batch} {bs : List Batch} (h : RestHyp acc (b :: bs)) :
    RestHyp (acc ++ b.2) bs := by
  obtain ⟨h1, h2, h3, h4, h5, h6⟩ := h
  rw [List.pairwise_cons] at h2 h6
  refine ⟨?_, h2.2, ?_, fun b' hb' => h4 b' (List.mem_cons_of_mem _ hb'), ?_, h6.2⟩
  · intro b' hb'
    exact Before.append_left (h1 b' (List.mem_cons_of_mem _ hb')) (h2.1 b' hb')
  · rw [allPkts_cons, ← List.append_assoc] at h3
    exact h3
  · intro b' hb' p hp
    rcases List.mem_append.mp hp with hp | hp
    · exact h5 b' (List.mem_cons_of_mem _ hb') p hp
    · exact h6.1 b' hb' p hp

theorem RestHyp.keys_head {acc : List Pkt} {b : Batch} {bs : List Batch} (h : RestHyp acc (b :: bs)) :
    ((acc ++ b.2).map Pkt.key).Nodup := by
  have := h.keys
  rw [allPkts_cons, ← List.append_assoc, List.map_append] at this
  exact (List.nodup_append.mp this).1

theorem sortPkts_keys {l : List Pkt} (h : (l.map Pkt.key).Nodup) : ((sortPkts l).map Pkt.key).Nodup :=
  ((sortPkts_perm l).map Pkt.key).nodup_iff.mpr h

theorem reasm_good (F : List Pkt) (hk : (F.map Pkt.key).Nodup) : RGood (reasm F) :=
  RGood.of_keyDisj (reasm_pkts F).1 (reasm_keyDisj F hk)

/-- the hypotheses of the import of the next batch -/
theorem RestHyp.step {acc : List Pkt} {b : Batch} {bs : List Batch} {stack : List Index}
    (h : RestHyp acc (b :: bs)) (hI : StackInv stack (reasm (sortPkts acc))) :
    sortPkts (acc ++ b.2) = sortPkts acc ++ sortPkts b.2 ∧
    StepHyp b.1 (sortPkts b.2) stack (reasm (sortPkts acc)) (reasm (sortPkts acc ++ sortPkts b.2)) := by
  have hk := h.keys_head
  have hs := sortPkts_append acc b.2 hk (h.before b (List.mem_cons_self ..))
  have hkacc : (acc.map Pkt.key).Nodup := by
    rw [List.map_append] at hk; exact (List.nodup_append.mp hk).1
  refine ⟨hs, hI, reasm_good _ (sortPkts_keys hkacc), reasm_append_ext _ _, ?_, ?_⟩
  · intro q hq
    exact h.names b (List.mem_cons_self ..) q (mem_sortPkts.mp hq)
  · intro k x hx
    obtain ⟨q, hq, hqr⟩ := (reasm_pkts (sortPkts acc)).2 k x hx
    have := h.accfresh b (List.mem_cons_self ..) q (mem_sortPkts.mp hq)
    rw [← hqr]; exact this

theorem runStep_eq (stack : List Index) (acc : List Pkt) (b : Batch) :
    runStep (stack, acc) b = (importArr b.1 (reasm (sortPkts (acc ++ b.2))) stack, acc ++ b.2) := rfl

/-- the stack stays in step with the reassembler -/
theorem run_inv : ∀ (bs : List Batch) (stack : List Index) (acc : List Pkt), RestHyp acc bs →
    StackInv stack (reasm (sortPkts acc)) →
    (bs.foldl runStep (stack, acc)).2 = acc ++ allPkts bs ∧
    StackInv (bs.foldl runStep (stack, acc)).1 (reasm (sortPkts (acc ++ allPkts bs))) := by
  intro bs
  induction bs with
  | nil => intro stack acc _ hI; simpa [allPkts] using hI
  | cons b bs ih =>
    intro stack acc h hI
    obtain ⟨hs, hstep⟩ := h.step hI
    rw [List.foldl_cons, runStep_eq, allPkts_cons, ← List.append_assoc]
    apply ih _ _ h.tail
    rw [hs]
    exact hstep.inv'

/-- inside one window the visible versions are the current streams -/
theorem run_cur (t0 : Nat) : ∀ (bs : List Batch) (stack : List Index) (acc : List Pkt), RestHyp acc bs →
    InWindow t0 (acc ++ allPkts bs) →
    StackInv stack (reasm (sortPkts acc)) → StackCur stack (reasm (sortPkts acc)) →
    StackCur (bs.foldl runStep (stack, acc)).1 (reasm (sortPkts (acc ++ allPkts bs))) := by
  intro bs
  induction bs with
  | nil => intro stack acc _ _ _ hC; simpa [allPkts] using hC
  | cons b bs ih =>
    intro stack acc h hw hI hC
    obtain ⟨hs, hstep⟩ := h.step hI
    rw [List.foldl_cons, runStep_eq, allPkts_cons, ← List.append_assoc]
    rw [allPkts_cons, ← List.append_assoc] at hw
    have hw' : InWindow t0 (sortPkts acc ++ sortPkts b.2) := by
      intro p hp
      apply hw p
      rcases List.mem_append.mp hp with hp | hp
      · exact List.mem_append_left _ (List.mem_append_left _ (mem_sortPkts.mp hp))
      · exact List.mem_append_left _ (List.mem_append_right _ (mem_sortPkts.mp hp))
    apply ih _ _ h.tail hw
    · rw [hs]; exact hstep.inv'
    · rw [hs]
      exact hstep.cur hC (fun k hk hp => reasm_window_frame t0 _ _ hw' k hk hp)

theorem reasm_nil : reasm [] = #[] := rfl

theorem sortPkts_nil : sortPkts [] = [] := by simp [sortPkts]

theorem runHist_inv {bs : List Batch} (h : ChronoHist bs) :
    (runHist bs).2 = allPkts bs ∧ StackInv (runHist bs).1 (reasm (sortPkts (allPkts bs))) := by
  have := run_inv bs [] [] (RestHyp.of_chrono h) (by
    rw [sortPkts_nil, reasm_nil]; exact StackInv.empty)
  simpa [runHist] using this

theorem runHist_cur {bs : List Batch} (h : ChronoHist bs) (t0 : Nat) (hw : HistWindow t0 bs) :
    StackCur (runHist bs).1 (reasm (sortPkts (allPkts bs))) := by
  have e := sortPkts_nil
  have := run_cur t0 bs [] [] (RestHyp.of_chrono h) (by rw [List.nil_append]; exact hw)
    (by rw [e, reasm_nil]; exact StackInv.empty) (by rw [e, reasm_nil]; intro k hk; simp at hk)
  simpa [runHist] using this

/-! ### consequences of the invariant -/

theorem visible_some_lt {stack : List Index} {R : Array Stream} (hI : StackInv stack R) {k : Nat} {V : Stream}
    (h : visibleStream stack k = some V) : k < R.size ∧ V.pktsRev = R[k]!.pktsRev := by
  obtain ⟨ix, hm, he⟩ := visibleStream_mem h
  have hk := (hI.entries ix hm (k, V) he).1
  obtain ⟨V', h1, h2, _⟩ := hI.vis k hk
  rw [h] at h1
  cases h1
  exact ⟨hk, h2⟩

/-- no packet is visible under two IDs -/
theorem StackInv.noDouble {stack : List Index} {R : Array Stream} {F : List Pkt} (hI : StackInv stack R)
    (hk : KeyDisj F R) (i j : Nat) (hij : i ≠ j) : NoDoubleIdAt stack i j := by
  unfold NoDoubleIdAt doubleIdAt
  cases hi : visibleStream stack i with
  | none => rfl
  | some s =>
    cases hj : visibleStream stack j with
    | none => rfl
    | some t =>
      simp only
      obtain ⟨_, hs⟩ := visible_some_lt hI hi
      obtain ⟨_, ht⟩ := visible_some_lt hI hj
      cases hsp : sharePacket s t with
      | false => rfl
      | true =>
        exfalso
        unfold sharePacket at hsp
        rw [List.any_eq_true] at hsp
        obtain ⟨x, hx, hx'⟩ := hsp
        rw [List.any_eq_true] at hx'
        obtain ⟨y, hy, hxy⟩ := hx'
        have exy : x.1 = y.1 := by simpa using hxy
        unfold Stream.pkts at hx hy
        rw [List.mem_reverse, hs] at hx
        rw [List.mem_reverse, ht] at hy
        exact hij (hk.disj i j x hx y hy (by rw [exy]))

theorem filterMap_eq_map {α β} (f : α → Option β) (g : α → β) : ∀ (l : List α), (∀ a ∈ l, f a = some (g a)) →
    l.filterMap f = l.map g := by
  intro l
  induction l with
  | nil => intro _; rfl
  | cons a l ih =>
    intro h
    rw [List.filterMap_cons, h a (List.mem_cons_self ..), List.map_cons, ih (fun x hx => h x (List.mem_cons_of_mem _ hx))]

/-- if every stream is visible in its current version, `visible` lists the streams of the
    reassembler under their positions -/
theorem visible_of_cur {stack : List Index} {R : Array Stream} (hI : StackInv stack R) (hC : StackCur stack R) :
    visible stack = (List.range R.size).map (fun k => (k, R[k]!)) := by
  unfold visible
  rw [visibleIDs_range stack R.size (fun ix hm e he => (hI.entries ix hm e he).1) ?_]
  · apply filterMap_eq_map
    intro k hk
    rw [hC k (List.mem_range.mp hk)]; rfl
  · intro k hk
    obtain ⟨ix, hm, he⟩ := visibleStream_mem (hC k hk)
    exact ⟨ix, hm, (k, R[k]!), he, rfl⟩

/-- a visible stream stays visible under its ID, as an extension -/
theorem StepHyp.stable {nf : List String} {G : List Pkt} {stack : List Index} {R R' : Array Stream}
    (H : StepHyp nf G stack R R') (k : Nat) (V : Stream) (hv : visibleStream stack k = some V) :
    ∃ V' np nd, visibleStream (importArr nf R' stack) k = some V' ∧
      V'.pkts = V.pkts ++ np ∧ V'.data = V.data ++ nd ∧ (∀ x ∈ np, ∃ q ∈ G, q.ref = x.1) := by
  obtain ⟨hk, hp⟩ := visible_some_lt H.inv hv
  have hk' : k < R'.size := Nat.lt_of_lt_of_le hk H.ext.size_le
  obtain ⟨np, ⟨hpp, more', hd⟩, hq⟩ := H.ext.ext k
  by_cases hc : changed R R' k
  · obtain ⟨V0, h1, _, more, h3⟩ := H.inv.vis k hk
    rw [hv] at h1; cases h1
    refine ⟨R'[k]!, np.reverse, (more' ++ more).reverse, (H.visible k).1 hk' hc, ?_, ?_, ?_⟩
    · unfold Stream.pkts; rw [hpp, hp, List.reverse_append]
    · unfold Stream.data; rw [hd, h3, ← List.append_assoc, List.reverse_append]
    · intro x hx; exact hq x (List.mem_reverse.mp hx)
  · refine ⟨V, [], [], ?_, by simp, by simp, by intro x hx; cases hx⟩
    rw [(H.visible k).2 (fun h => hc h.2), hv]

end Pk.Proofs.ImportChrono
