/-
  Helper lemmas for C09 `settles`: the two states of the counterexample to `settles` without the
  contract `MergeOK` (a one-file merge that restarts itself forever) satisfy `Reach`, and the two merge
  completions between them satisfy `PayloadOK`.
-/
import Pk.Props.MgrReach
namespace Pk.Proofs.MgrTermination
open Pk.Mgr Pk.Props Pk.Props.MgrReach

/-- two files, the merger has given up on the first, a merge of the second file alone is in flight;
    the record counter is wrong -/
def cexSt (a : Nat) : St :=
  { idx := [1, a], files := [(1,[0]), (a,[1])], used := [(1,1),(a,2)], next := 2, all := 2, nrec := 100, unm := 1,
    merge := true, jMerge := some (1, [a]) }

theorem cex_stepA : (step (cexSt 2) (.mergeDone [(3, [1])]) {}).1 = cexSt 3 := by rfl
theorem cex_stepB : (step (cexSt 3) (.mergeDone [(2, [1])]) {}).1 = cexSt 2 := by rfl

theorem cex_count (a : Nat) (ha : a = 2 ∨ a = 3) : C13.CountInv (cexSt a) := by
  refine ⟨?_, ?_, ?_, ?_⟩
  · intro f
    rcases ha with rfl | rfl <;>
    · by_cases h1 : f = 1
      · subst h1; rfl
      · by_cases h2 : f = 2
        · subst h2; rfl
        · by_cases h3 : f = 3
          · subst h3; rfl
          · have e1 : (1 == f) = false := by simpa using Ne.symm h1
            have e2 : (2 == f) = false := by simpa using Ne.symm h2
            have e3 : (3 == f) = false := by simpa using Ne.symm h3
            simp [cexSt, C13.holders, C13.viewHeld, C13.jobHeld, nget, List.find?, e1, e2, e3, Ne.symm h1,
              Ne.symm h2, Ne.symm h3]
  · intro f
    rcases ha with rfl | rfl <;>
    · by_cases h1 : f = 1
      · subst h1; decide
      · by_cases h2 : f = 2
        · subst h2; decide
        · by_cases h3 : f = 3
          · subst h3; decide
          · have e1 : (1 == f) = false := by simpa using Ne.symm h1
            have e2 : (2 == f) = false := by simpa using Ne.symm h2
            have e3 : (3 == f) = false := by simpa using Ne.symm h3
            simp [cexSt, nget, List.find?, e1, e2, e3]
  · intro f
    rcases ha with rfl | rfl <;>
    · by_cases h1 : f = 1
      · subst h1; rfl
      · by_cases h2 : f = 2
        · subst h2; rfl
        · by_cases h3 : f = 3
          · subst h3; rfl
          · have e1 : (1 == f) = false := by simpa using Ne.symm h1
            have e2 : (2 == f) = false := by simpa using Ne.symm h2
            have e3 : (3 == f) = false := by simpa using Ne.symm h3
            simp [cexSt, nget, List.find?, e1, e2, e3]
  · refine ⟨by simp [cexSt], by simp [cexSt], by simp [cexSt], by simp [cexSt], by simp [cexSt]⟩

theorem cex_reach (a : Nat) (ha : a = 2 ∨ a = 3) : Reach (cexSt a) := by
  refine ⟨?_, ?_, cex_count a ha, ?_, ?_, ?_, ?_, ?_, ?_, ?_, ?_, ?_, ?_, ?_, ?_, ?_⟩
  · exact List.Pairwise.nil
  · simp [C09.JobsWF, cexSt]
  · intro jn held h; simp [cexSt] at h
  · intro id hid
    have hid' : id < 2 := hid
    have : id = 0 ∨ id = 1 := by omega
    rcases this with rfl | rfl
    · exact ⟨1, by simp [cexSt], by rcases ha with rfl | rfl <;> decide⟩
    · exact ⟨a, by simp [cexSt], by rcases ha with rfl | rfl <;> decide⟩
  · exact Nat.le_refl _
  · exact Nat.le_refl _
  · intro n t h; cases h
  · refine ⟨fun _ _ _ h => (by cases h), fun _ h => (by cases h), fun _ h => (by cases h), fun _ h => (by cases h),
      fun _ h => (by cases h), fun _ _ h => (by cases h)⟩
  · exact ⟨fun _ h => (by cases h), fun _ _ _ h => (by cases h)⟩
  · intro n t h; cases h
  · intro n t h; cases h
  · exact ⟨fun _ _ _ _ h => (by cases h), fun _ _ h => (by cases h), fun _ _ _ _ h => (by cases h),
      fun _ _ _ h => (by cases h), fun _ _ _ h => (by cases h)⟩
  · intro nt h; cases h
  · intro nt h; cases h
  · refine ⟨?_, ?_⟩
    · rintro ⟨nt, h, _⟩; cases h
    · intro c hc; cases hc

theorem cex_payload (a b : Nat) (hab : (a = 2 ∧ b = 3) ∨ (a = 3 ∧ b = 2)) :
    PayloadOK (cexSt a) (.mergeDone [(b, [1])]) := by
  refine ⟨⟨?_, ?_⟩, trivial, trivial, trivial, trivial⟩
  · rcases hab with ⟨rfl, rfl⟩ | ⟨rfl, rfl⟩ <;>
    · refine ⟨by simp, ?_⟩
      intro o ho
      simp at ho
      subst ho
      exact ⟨by decide, by decide⟩
  · intro off held h
    have h' : some (1, [a]) = some (off, held) := h
    cases h'
    refine ⟨rfl, ?_⟩
    rintro _ id ⟨f, hf, hid⟩
    have hf' : f = a := by simpa using hf
    subst hf'
    have : id = 1 := by
      rcases hab with ⟨rfl, rfl⟩ | ⟨rfl, rfl⟩ <;> simpa [C10.content, cexSt, nget, List.find?] using hid
    subst this
    exact ⟨(b, [1]), by simp, by simp⟩

end Pk.Proofs.MgrTermination
