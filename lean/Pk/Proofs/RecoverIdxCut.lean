/- Helper lemmas for C12 at the stream level: zeroing the header of the file under construction
   leads back to an earlier prefix of the operation sequence. -/
import Pk.Model.RecoverIdx
import Pk.Proofs.RecoverIdx
import Pk.Proofs.RecoverIdxOps
namespace Pk.Proofs.RecoverIdx
open Pk.Recover

theorem cutFile_id (d : List IndexFile) (n : Nat)
    (h : ∀ f ∈ d, f.name = n → f.complete = false) : cutFile n d = d := by
  induction d with
  | nil => rfl
  | cons f fs ih =>
    simp only [cutFile, List.map_cons] at ih ⊢
    rw [ih (fun g hg => h g (List.mem_cons_of_mem _ hg))]
    congr 1
    split
    · rename_i hn
      have := h f List.mem_cons_self hn
      cases f; simp_all
    · rfl

theorem cutFile_append (a b : List IndexFile) (n : Nat) :
    cutFile n (a ++ b) = cutFile n a ++ cutFile n b := by
  simp [cutFile]

theorem underConstruction_cons_cons (a b : IdxOp) (l : List IdxOp) :
    underConstruction (a :: b :: l) = underConstruction (b :: l) := by
  simp only [underConstruction, List.getLast?_cons_cons]

/-- the write phase: cutting the file under construction gives an earlier prefix -/
theorem write_cut (os : List (Nat × List Nat)) (hnd : (os.map (·.1)).Nodup)
    (D : List IndexFile) (hfresh : ∀ o ∈ os, ∀ f ∈ D, f.name ≠ o.1)
    (k : Nat) (hk : k ≤ 2 * os.length) :
    ∃ k', k' ≤ k ∧
      cutOpt (underConstruction ((writeOps os).take k)) (applyOps D ((writeOps os).take k)) =
        applyOps D ((writeOps os).take k') := by
  induction os generalizing D k with
  | nil => exact ⟨k, Nat.le_refl _, by simp [writeOps, underConstruction, cutOpt]⟩
  | cons o rest ih =>
    have hD : ∀ f ∈ D, f.name ≠ o.1 := hfresh o List.mem_cons_self
    match k with
    | 0 => exact ⟨0, Nat.le_refl _, by simp [underConstruction, cutOpt]⟩
    | 1 =>
      refine ⟨1, Nat.le_refl _, ?_⟩
      have : (writeOps (o :: rest)).take 1 = [.create o.1 o.2] := by simp [writeOps]
      rw [this]
      show cutFile o.1 (D ++ [mkPart o]) = D ++ [mkPart o]
      apply cutFile_id
      intro f hf hn
      rcases List.mem_append.mp hf with hf | hf
      · exact absurd hn (hD f hf)
      · have : f = mkPart o := by simpa using hf
        subst this; rfl
    | 2 =>
      refine ⟨1, by omega, ?_⟩
      have h2 : (writeOps (o :: rest)).take 2 = [.create o.1 o.2, .finish o.1] := by simp [writeOps]
      have h1 : (writeOps (o :: rest)).take 1 = [.create o.1 o.2] := by simp [writeOps]
      rw [h2, h1]
      show cutFile o.1 (applyIdxOp (applyIdxOp D (.create o.1 o.2)) (.finish o.1)) = D ++ [mkPart o]
      rw [write_one D o (fun f hf hn => absurd hn (hD f hf)), cutFile_append,
        cutFile_id D o.1 (fun f hf hn => absurd hn (hD f hf))]
      simp [cutFile, mkOut, mkPart]
    | k + 3 =>
      have hlen : k + 1 ≤ 2 * rest.length := by simp only [List.length_cons] at hk; omega
      have hnd' : (rest.map (·.1)).Nodup := by
        simp only [List.map_cons, List.nodup_cons] at hnd; exact hnd.2
      have hnot : o.1 ∉ rest.map (·.1) := by
        simp only [List.map_cons, List.nodup_cons] at hnd; exact hnd.1
      have hfresh' : ∀ o' ∈ rest, ∀ f ∈ D ++ [mkOut o], f.name ≠ o'.1 := by
        intro o' ho' f hf
        rcases List.mem_append.mp hf with hf | hf
        · exact hfresh o' (List.mem_cons_of_mem _ ho') f hf
        · have : f = mkOut o := by simpa using hf
          subst this
          intro he
          exact hnot (List.mem_map.mpr ⟨o', ho', he.symm⟩)
      obtain ⟨k'', hk'', hcut⟩ := ih hnd' (D ++ [mkOut o]) hfresh' (k + 1) hlen
      refine ⟨k'' + 2, by omega, ?_⟩
      have htk : ∀ m, (writeOps (o :: rest)).take (m + 2) =
          .create o.1 o.2 :: .finish o.1 :: (writeOps rest).take m := by
        intro m; simp [writeOps]
      have happ : ∀ l, applyOps D (.create o.1 o.2 :: .finish o.1 :: l) = applyOps (D ++ [mkOut o]) l := by
        intro l
        rw [applyOps_cons, applyOps_cons, write_one D o (fun f hf hn => absurd hn (hD f hf))]
      have hne : ∃ x l, (writeOps rest).take (k + 1) = x :: l := by
        cases rest with
        | nil => simp at hlen
        | cons p ps => exact ⟨.create p.1 p.2, (IdxOp.finish p.1 :: writeOps ps).take k, by simp [writeOps]⟩
      obtain ⟨x, l, hxl⟩ := hne
      have hu : underConstruction ((writeOps (o :: rest)).take (k + 1 + 2)) =
          underConstruction ((writeOps rest).take (k + 1)) := by
        rw [htk, hxl, underConstruction_cons_cons, underConstruction_cons_cons]
      show cutOpt (underConstruction ((writeOps (o :: rest)).take (k + 1 + 2)))
        (applyOps D ((writeOps (o :: rest)).take (k + 1 + 2))) = _
      rw [hu, htk, htk, happ, happ, hcut]

/-- import and merge: cutting the file under construction gives an earlier prefix -/
theorem merge_cut (d : List IndexFile) (ins : List Nat) (os : List (Nat × List Nat))
    (hnd : (os.map (·.1)).Nodup) (hfresh : ∀ o ∈ os, ∀ f ∈ d, f.name ≠ o.1) (k : Nat) :
    ∃ k', k' ≤ k ∧
      cutOpt (underConstruction ((mergeOps ins os).take k)) (applyOps d ((mergeOps ins os).take k)) =
        applyOps d ((mergeOps ins os).take k') := by
  have hw : ∀ m, m ≤ 2 * os.length → (mergeOps ins os).take m = (writeOps os).take m := by
    intro m hm
    rw [mergeOps, List.take_append_of_le_length (by rw [length_writeOps]; exact hm)]
  by_cases hk : k ≤ 2 * os.length
  · obtain ⟨k', hk', h⟩ := write_cut os hnd d hfresh k hk
    exact ⟨k', hk', by rw [hw k hk, hw k' (by omega)]; exact h⟩
  · obtain ⟨j, rfl⟩ : ∃ j, k = (writeOps os).length + j :=
      ⟨k - 2 * os.length, by rw [length_writeOps]; omega⟩
    have ht : (mergeOps ins os).take ((writeOps os).length + j) = writeOps os ++ deleteOps (ins.take j) := by
      rw [mergeOps, List.take_length_add_append, take_deleteOps]
    cases hl : ins.take j with
    | nil =>
      -- no input at all: the prefix is the whole write phase
      have hall : (writeOps os).take (2 * os.length) = writeOps os := by
        rw [← length_writeOps, List.take_length]
      obtain ⟨k', hk', h⟩ := write_cut os hnd d hfresh (2 * os.length) (Nat.le_refl _)
      refine ⟨k', by rw [length_writeOps]; omega, ?_⟩
      rw [ht, hl, hw k' hk']
      simp only [deleteOps, List.map_nil, List.append_nil]
      rw [hall] at h
      exact h
    | cons x xs =>
      refine ⟨(writeOps os).length + j, Nat.le_refl _, ?_⟩
      have : underConstruction (writeOps os ++ deleteOps (x :: xs)) = none := by
        have hlast : (writeOps os ++ deleteOps (x :: xs)).getLast? =
            some (.delete ((x :: xs).getLast (by simp))) := by
          rw [List.getLast?_append, deleteOps, List.getLast?_map, List.getLast?_eq_some_getLast (by simp)]
          rfl
        simp only [underConstruction, hlast]
      rw [ht, hl, this]
      rfl

theorem import_cut (d : List IndexFile) (name : Nat) (ids : List Nat)
    (hfresh : ∀ f ∈ d, f.name ≠ name) (k : Nat) :
    ∃ k', k' ≤ k ∧
      cutOpt (underConstruction ((importOps name ids).take k)) (applyOps d ((importOps name ids).take k)) =
        applyOps d ((importOps name ids).take k') := by
  have h := merge_cut d [] [(name, ids)] (by simp) (by simpa using hfresh) k
  simpa [mergeOps, writeOps, deleteOps, importOps] using h

end Pk.Proofs.RecoverIdx

namespace Pk.Proofs.RecoverIdx
open Pk.Recover

/-- unique names survive every prefix of a merge whose output names are fresh and distinct -/
theorem uniqueNames_merge_prefix (d : List IndexFile) (ins : List Nat) (os : List (Nat × List Nat))
    (hu : (d.map (·.name)).Nodup) (hnd : (os.map (·.1)).Nodup)
    (hfresh : ∀ o ∈ os, ∀ f ∈ d, f.name ≠ o.1) (k : Nat) :
    ((applyOps d ((mergeOps ins os).take k)).map (·.name)).Nodup := by
  have hbase : ∀ j, ((d ++ (os.take j).map mkOut).map (·.name)).Nodup := by
    intro j
    rw [List.map_append, List.nodup_append]
    refine ⟨hu, ?_, ?_⟩
    · rw [List.map_map]
      exact ((List.take_sublist j os).map _).nodup hnd
    · intro a ha b hb
      obtain ⟨f, hf, rfl⟩ := List.mem_map.mp ha
      rw [List.map_map] at hb
      obtain ⟨o, ho, rfl⟩ := List.mem_map.mp hb
      exact hfresh o (List.mem_of_mem_take ho) f hf
  rcases merge_prefix_cases d ins os hfresh k with ⟨j, _, _, h⟩ | ⟨j, o, ho, _, h⟩ | ⟨j, _, h⟩
  · rw [h]; exact hbase j
  · rw [h]
    obtain ⟨hj, hoj⟩ := List.getElem?_eq_some_iff.mp ho
    have := hbase (j + 1)
    rw [List.take_succ_eq_append_getElem hj, hoj] at this
    simpa [mkOut, mkPart] using this
  · rw [h]
    have := hbase os.length
    rw [List.take_length] at this
    exact (List.filter_sublist.map _).nodup this

end Pk.Proofs.RecoverIdx
