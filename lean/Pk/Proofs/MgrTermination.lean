/-
  Helper lemmas for C09 `settles`, part 2: the termination measure of the service loop and what the
  job starters (`start…JobIfNeeded`) do to it.

  The measure is a lexicographic product of seven natural numbers, most significant first:
   m1  captures queued;
   m2  (converter, stream) pairs not yet in a converter cache;
   m3  the converter job in flight will hand back a non-empty set of converted streams;
   m4  2·(tainted tags) + (the tagging job in flight will not decide its tag) + a surcharge while a
       tagging job is in flight and something was invalidated during the job;
   m5  2·(converters with queued streams) + (converter job in flight);
   m6  tags with pending streams;
   m7  2·(files the merger has not given up on) + (merge job in flight).
-/
import Pk.Props.MgrReach
import Pk.Proofs.MgrTerminationTaint
import Pk.Proofs.MgrConvMat
namespace Pk.Proofs.MgrTermination
open Pk.Mgr Pk.Proofs.MgrTags
open Pk.Proofs.MgrConv (cOf qOf activeOf sc2 clr1 add1 foundOf)

/-! ## the order -/

abbrev M7 := Nat × Nat × Nat × Nat × Nat × Nat × Nat

def LexLt : M7 → M7 → Prop :=
  Prod.Lex (· < ·) (Prod.Lex (· < ·) (Prod.Lex (· < ·) (Prod.Lex (· < ·) (Prod.Lex (· < ·)
    (Prod.Lex (· < ·) (· < ·))))))

theorem lexLt_wf : WellFounded LexLt :=
  (Prod.lex Nat.lt_wfRel (Prod.lex Nat.lt_wfRel (Prod.lex Nat.lt_wfRel (Prod.lex Nat.lt_wfRel
    (Prod.lex Nat.lt_wfRel (Prod.lex Nat.lt_wfRel Nat.lt_wfRel)))))).wf

theorem plex {β} {rb : β → β → Prop} {a' a : Nat} {b' b : β}
    (h : a' < a ∨ (a' = a ∧ rb b' b)) : Prod.Lex (· < ·) rb (a', b') (a, b) := by
  rcases h with h | ⟨rfl, h⟩
  · exact Prod.Lex.left _ _ h
  · exact Prod.Lex.right _ h

theorem lex7 {a' a b' b c' c d' d e' e f' f g' g : Nat}
    (h : a' < a ∨ (a' = a ∧ (b' < b ∨ (b' = b ∧ (c' < c ∨ (c' = c ∧ (d' < d ∨ (d' = d ∧
      (e' < e ∨ (e' = e ∧ (f' < f ∨ (f' = f ∧ g' < g)))))))))))) :
    LexLt (a', b', c', d', e', f', g') (a, b, c, d, e, f, g) := by
  unfold LexLt
  refine plex (h.imp id (And.imp id fun h => ?_))
  refine plex (h.imp id (And.imp id fun h => ?_))
  refine plex (h.imp id (And.imp id fun h => ?_))
  refine plex (h.imp id (And.imp id fun h => ?_))
  refine plex (h.imp id (And.imp id fun h => ?_))
  exact plex h

/-! ## the measure -/

def m1 (s : St) : Nat := s.queue.length

def m2 (s : St) : Nat :=
  (s.convs.map fun c => (List.range s.all).countP (fun id => !(cOf s c).contains id)).sum

def m3 (s : St) : Nat :=
  match s.jConv with
  | some (sets, _) => if sets.any (fun p => s.convs.contains p.1 && !p.2.isEmpty) then 1 else 0
  | none => 0

def masksEmpty (s : St) : Bool := s.upd.isEmpty && s.rst.isEmpty && s.add.isEmpty

/-- the tagging job in flight will not take its tag out of the pending ones -/
def jobBad (s : St) : Bool :=
  match s.jTag with
  | none => false
  | some (n, snap, _) =>
    match sget s.tags n with
    | some ot => !(ot.defn == snap.defn && ot.gen == snap.gen && !ot.unc.isEmpty)  -- CHANGED (gen)
    | none => true

def jb (s : St) : Nat := if jobBad s then 1 else 0
def sur (s : St) : Nat := if s.tag && !masksEmpty s then 2 * s.tags.length + 2 else 0

noncomputable def m4 (s : St) : Nat := 2 * tcount s.tags + jb s + sur s

def m5 (s : St) : Nat :=
  2 * (s.convs.filter fun c => !(qOf s c).isEmpty).length + (if s.convert then 1 else 0)

def m6 (s : St) : Nat := (s.tags.filter fun nt => !nt.2.unc.isEmpty).length

def m7 (s : St) : Nat := 2 * (s.idx.length - s.unm) + (if s.merge then 1 else 0)

noncomputable def mu (s : St) : M7 := (m1 s, m2 s, m3 s, m4 s, m5 s, m6 s, m7 s)

/-! ## which fields the components read -/

def coreC (s : St) := (s.convs, s.all, s.cached, s.jConv, s.toconv, s.convert)
def coreT (s : St) := (s.tags, s.jTag, s.tag, s.upd, s.rst, s.add)
def coreM (s : St) := (s.idx, s.unm, s.merge)

theorem mC_congr {a b : St} (h : coreC a = coreC b) : m2 a = m2 b ∧ m3 a = m3 b ∧ m5 a = m5 b := by
  simp only [coreC, Prod.mk.injEq] at h
  obtain ⟨h1, h2, h3, h4, h5, h6⟩ := h
  simp only [m2, m3, m5, cOf, qOf, h1, h2, h3, h4, h5, h6, and_self]

theorem mT_congr {a b : St} (h : coreT a = coreT b) : m4 a = m4 b ∧ m6 a = m6 b := by
  simp only [coreT, Prod.mk.injEq] at h
  obtain ⟨h1, h2, h3, h4, h5, h6⟩ := h
  obtain ⟨⟩ := a
  obtain ⟨⟩ := b
  simp only at h1 h2 h3 h4 h5 h6
  subst h1 h2 h3 h4 h5 h6
  exact ⟨rfl, rfl⟩

theorem m7_congr {a b : St} (h : coreM a = coreM b) : m7 a = m7 b := by
  simp only [coreM, Prod.mk.injEq] at h
  obtain ⟨h1, h2, h3⟩ := h
  simp only [m7, h1, h2, h3]

/-! ### frames -/

theorem foldl_fr {β γ : Type _} {g : St → γ} {f : St → β → St} (l : List β) (X : St)
    (h : ∀ s x, g (f s x) = g s) : g (l.foldl f X) = g X := by
  induction l generalizing X with
  | nil => rfl
  | cons a l ih => simp only [List.foldl_cons]; rw [ih, h]

theorem release_fr {γ : Type _} (g : St → γ) (h : ∀ s u f, g { s with used := u, files := f } = g s)
    (s : St) (fs : List Nat) : g (release s fs) = g s := by
  unfold release
  apply foldl_fr
  intro s x
  split
  · rfl
  · split
    · exact h s _ _
    · exact h s _ s.files

theorem release_queue (s : St) (fs : List Nat) : (release s fs).queue = s.queue :=
  release_fr (·.queue) (fun _ _ _ => rfl) s fs
theorem release_coreC (s : St) (fs : List Nat) : coreC (release s fs) = coreC s :=
  release_fr coreC (fun _ _ _ => rfl) s fs
theorem release_coreT (s : St) (fs : List Nat) : coreT (release s fs) = coreT s :=
  release_fr coreT (fun _ _ _ => rfl) s fs
theorem release_coreM (s : St) (fs : List Nat) : coreM (release s fs) = coreM s :=
  release_fr coreM (fun _ _ _ => rfl) s fs
theorem release_idx (s : St) (fs : List Nat) : (release s fs).idx = s.idx :=
  release_fr (·.idx) (fun _ _ _ => rfl) s fs
theorem release_unm (s : St) (fs : List Nat) : (release s fs).unm = s.unm :=
  release_fr (·.unm) (fun _ _ _ => rfl) s fs
theorem release_all (s : St) (fs : List Nat) : (release s fs).all = s.all :=
  release_fr (·.all) (fun _ _ _ => rfl) s fs

theorem startMerge_fr {γ : Type _} (g : St → γ) (h : ∀ s u m j, g { s with used := u, merge := m, jMerge := j } = g s)
    (s : St) : g (startMerge s) = g s := by
  unfold startMerge
  split
  · rfl
  · split
    · rfl
    · split
      · rfl
      · exact h s _ _ _

theorem startMerge_queue (s : St) : (startMerge s).queue = s.queue := startMerge_fr (·.queue) (fun _ _ _ _ => rfl) s
theorem startMerge_coreC (s : St) : coreC (startMerge s) = coreC s := startMerge_fr coreC (fun _ _ _ _ => rfl) s
theorem startMerge_coreT (s : St) : coreT (startMerge s) = coreT s := startMerge_fr coreT (fun _ _ _ _ => rfl) s
theorem startMerge_all (s : St) : (startMerge s).all = s.all := startMerge_fr (·.all) (fun _ _ _ _ => rfl) s

theorem startTagging_fr {γ : Type _} (g : St → γ)
    (h : ∀ s u t a b c j bc, g { s with used := u, tag := t, upd := a, rst := b, add := c, jTag := j, badChoice := bc } = g s)
    (s : St) (ch : Option String) : g (startTagging s ch) = g s := by
  rw [MgrConv.startTagging_eq]
  split
  · rfl
  · split
    · rfl
    · split
      · split
        · rfl
        · exact h s _ _ _ _ _ _ _
      · exact h s _ _ _ _ _ _ s.badChoice

theorem startTagging_queue (s : St) (c) : (startTagging s c).queue = s.queue :=
  startTagging_fr (·.queue) (fun _ _ _ _ _ _ _ _ => rfl) s c
theorem startTagging_coreC (s : St) (c) : coreC (startTagging s c) = coreC s :=
  startTagging_fr coreC (fun _ _ _ _ _ _ _ _ => rfl) s c
theorem startTagging_coreM (s : St) (c) : coreM (startTagging s c) = coreM s :=
  startTagging_fr coreM (fun _ _ _ _ _ _ _ _ => rfl) s c
theorem startTagging_tags (s : St) (c) : (startTagging s c).tags = s.tags :=
  startTagging_fr (·.tags) (fun _ _ _ _ _ _ _ _ => rfl) s c
theorem startTagging_all (s : St) (c) : (startTagging s c).all = s.all :=
  startTagging_fr (·.all) (fun _ _ _ _ _ _ _ _ => rfl) s c

/-! ### the tagging-job starter -/

theorem pickOf_elig (s : St) (choice : Option String) (n : String) (t : Tag)
    (h : MgrConv.pickOf s choice = some (n, t)) : eligible s t = true := by
  unfold MgrConv.pickOf at h
  split at h
  · split at h
    · split at h
      · next he => cases h; exact he
      · cases h
    · cases h
  · cases h

theorem startTagging_cases (X : St) (c : Option String) (hs : Sorted X.tags) :
    startTagging X c = X ∨ (X.tag = false ∧ ∃ n t fs u bc, sget X.tags n = some t ∧ eligible X t = true ∧
      startTagging X c = { X with used := u, tag := true, upd := [], rst := [], add := [],
                                  jTag := some (n, t, fs), badChoice := bc }) := by
  rw [MgrConv.startTagging_eq]
  split
  · exact Or.inl rfl
  · rename_i htag
    have htag' : X.tag = false := by simpa using htag
    split
    · exact Or.inl rfl
    · split
      · split
        · exact Or.inl rfl
        · next n t hf =>
          have hm : (n, t) ∈ X.tags := List.mem_of_find?_eq_some hf
          have he : eligible X t = true := by simpa using List.find?_some hf
          exact Or.inr ⟨htag', n, t, _, _, _, MgrConv.mem_sget_of_sorted _ hs _ _ hm, he, rfl⟩
      · next n t hp =>
        have hm : (n, t) ∈ X.tags := MgrConv.pickOf_mem X c n t hp
        exact Or.inr ⟨htag', n, t, _, _, X.badChoice, MgrConv.mem_sget_of_sorted _ hs _ _ hm,
          pickOf_elig X c n t hp, rfl⟩

/-- the tagging-job starter leaves the tag part of the measure alone or improves it -/
theorem startTagging_meas (X : St) (c : Option String) (hs : Sorted X.tags) :
    jb (startTagging X c) ≤ jb X ∧ sur (startTagging X c) ≤ sur X := by
  rcases startTagging_cases X c hs with h | ⟨htag, n, t, fs, u, bc, hget, hel, h⟩
  · rw [h]; exact ⟨Nat.le_refl _, Nat.le_refl _⟩
  · rw [h]
    have hu : t.unc ≠ [] := ((MgrSettle.eligT_iff _ _).mp hel).1
    constructor
    · have : jobBad { X with used := u, tag := true, upd := [], rst := [], add := [],
                             jTag := some (n, t, fs), badChoice := bc } = false := by
        simp only [jobBad, hget]
        simp [hu]
      simp only [jb, this]
      simp
    · simp [sur, masksEmpty]

theorem startTagging_sur_zero (X : St) (c : Option String) (hs : Sorted X.tags) (ht : X.tag = false) :
    sur (startTagging X c) = 0 := by
  rcases startTagging_cases X c hs with h | ⟨htag, n, t, fs, u, bc, hget, hel, h⟩
  · rw [h]; simp [sur, ht]
  · rw [h]; simp [sur, masksEmpty]

end Pk.Proofs.MgrTermination
