/-
  MgrViewsRun — helper lemmas for Pk/Props/C10Reach.lean: "which file serves a stream id" (newest file
  first) and the version it stores there, as a function of a list of files; what a frame step, a release,
  an import completion and a merge completion do to it.

  The model has no payload bytes; the version of the data a file stores for a stream is a GHOST
  `fver : Nat → Nat → Nat` (file ordinal → stream id → version), the current version of a stream is a
  ghost `ver : Nat → Nat`.  All lemmas here take the relation between the ghosts before and after as
  explicit hypotheses; the contracts that provide them are in the Props file.
-/
import Pk.Proofs.MgrViewsCover

namespace Pk.Proofs.MgrViewsRun
open Pk.Mgr Pk.Proofs.MgrViews

/-- ghost: current version of the data of every stream -/
abbrev Ver := Nat → Nat
/-- ghost: version of the data of stream `id` stored in file `o` -/
abbrev FVer := Nat → Nat → Nat

/-- stream ids stored in file `f` of the table of open files (`C10.content s f = cont s.files f`) -/
def cont (files : List (Nat × List Nat)) (f : Nat) : List Nat := (nget files f).getD []

/-- `Stream(id)` on a list of files (oldest first) given with their contents: the LAST file that
    contains the id serves it -/
def servedIn : List (Nat × List Nat) → Nat → Option Nat
  | [], _ => none
  | (o, ids) :: rest, id =>
    match servedIn rest id with
    | some g => some g
    | none => if id ∈ ids then some o else none

/-- a list of file ordinals with the contents the files have in the table of open files -/
def withCont (files : List (Nat × List Nat)) (l : List Nat) : List (Nat × List Nat) :=
  l.map (fun o => (o, cont files o))

/-- the version served for `id` through a list of files -/
def verIn (fver : FVer) (l : List (Nat × List Nat)) (id : Nat) : Option Nat :=
  (servedIn l id).map (fun o => fver o id)

/-! ### `servedIn` -/

theorem servedIn_cons (p : Nat × List Nat) (rest : List (Nat × List Nat)) (id : Nat) :
    servedIn (p :: rest) id =
      match servedIn rest id with
      | some g => some g
      | none => if id ∈ p.2 then some p.1 else none := by
  obtain ⟨o, ids⟩ := p; rfl

theorem servedIn_append (a b : List (Nat × List Nat)) (id : Nat) :
    servedIn (a ++ b) id =
      match servedIn b id with
      | some g => some g
      | none => servedIn a id := by
  induction a with
  | nil =>
    simp only [List.nil_append]
    cases servedIn b id <;> rfl
  | cons p a ih =>
    rw [List.cons_append, servedIn_cons, ih, servedIn_cons]
    cases servedIn b id <;> rfl

theorem servedIn_none_iff (l : List (Nat × List Nat)) (id : Nat) :
    servedIn l id = none ↔ ∀ p ∈ l, id ∉ p.2 := by
  induction l with
  | nil => simp [servedIn]
  | cons p l ih =>
    rw [servedIn_cons]
    cases h : servedIn l id with
    | some g =>
      simp only [List.mem_cons, forall_eq_or_imp, reduceCtorEq, false_iff, not_and]
      intro _ hall
      exact absurd (ih.2 hall) (by rw [h]; simp)
    | none =>
      have := ih.1 h
      by_cases hm : id ∈ p.2
      · simp [hm]
      · rw [if_neg hm]
        simp only [List.mem_cons, forall_eq_or_imp, true_iff]
        exact ⟨hm, this⟩

theorem servedIn_some_mem {l : List (Nat × List Nat)} {id o : Nat} (h : servedIn l id = some o) :
    ∃ p ∈ l, p.1 = o ∧ id ∈ p.2 := by
  induction l with
  | nil => simp [servedIn] at h
  | cons p l ih =>
    rw [servedIn_cons] at h
    cases h' : servedIn l id with
    | some g =>
      rw [h'] at h
      cases h
      obtain ⟨q, hq, h1, h2⟩ := ih h'
      exact ⟨q, List.mem_cons_of_mem _ hq, h1, h2⟩
    | none =>
      rw [h'] at h
      by_cases hm : id ∈ p.2
      · simp only [hm, if_true, Option.some.injEq] at h
        exact ⟨p, List.mem_cons_self, h, hm⟩
      · simp [hm] at h

theorem servedIn_isSome_of_mem {l : List (Nat × List Nat)} {id : Nat} {p : Nat × List Nat} (hp : p ∈ l)
    (hm : id ∈ p.2) : ∃ o, servedIn l id = some o := by
  cases h : servedIn l id with
  | some o => exact ⟨o, rfl⟩
  | none => exact absurd hm ((servedIn_none_iff l id).1 h p hp)

theorem verIn_append (fver : FVer) (a b : List (Nat × List Nat)) (id : Nat) :
    verIn fver (a ++ b) id =
      match verIn fver b id with
      | some v => some v
      | none => verIn fver a id := by
  unfold verIn
  rw [servedIn_append]
  cases servedIn b id <;> rfl

theorem verIn_none_iff (fver : FVer) (l : List (Nat × List Nat)) (id : Nat) :
    verIn fver l id = none ↔ servedIn l id = none := by
  unfold verIn; simp

/-- the version served through a list only depends on the versions of the files of the list -/
theorem verIn_congr {fver fver' : FVer} {l : List (Nat × List Nat)} (h : ∀ p ∈ l, fver' p.1 = fver p.1)
    (id : Nat) : verIn fver' l id = verIn fver l id := by
  unfold verIn
  cases hs : servedIn l id with
  | none => rfl
  | some o =>
    obtain ⟨p, hp, h1, _⟩ := servedIn_some_mem hs
    simp only [Option.map_some, Option.some.injEq]
    rw [← h1, h p hp]

/-! ### `withCont` -/

theorem withCont_append (fl : List (Nat × List Nat)) (a b : List Nat) :
    withCont fl (a ++ b) = withCont fl a ++ withCont fl b := by
  simp [withCont]

theorem withCont_congr {fl fl' : List (Nat × List Nat)} {l : List Nat} (h : ∀ f ∈ l, nget fl' f = nget fl f) :
    withCont fl' l = withCont fl l := by
  unfold withCont
  apply List.map_congr_left
  intro f hf
  simp only [cont, h f hf]

theorem mem_withCont {fl : List (Nat × List Nat)} {l : List Nat} {p : Nat × List Nat} (h : p ∈ withCont fl l) :
    p.1 ∈ l ∧ p.2 = cont fl p.1 := by
  simp only [withCont, List.mem_map] at h
  obtain ⟨o, ho, rfl⟩ := h
  exact ⟨ho, rfl⟩

/-- the files an event reports, once inserted, have the reported contents -/
theorem withCont_new {fl : List (Nat × List Nat)} {cr : List (Nat × List Nat)}
    (h : ∀ c ∈ cr, nget fl c.1 = some c.2) : withCont fl (cr.map (·.1)) = cr := by
  unfold withCont
  rw [List.map_map]
  conv => rhs; rw [← List.map_id cr]
  apply List.map_congr_left
  intro c hc
  simp only [Function.comp, cont, h c hc, Option.getD_some, id]

/-! ### the invariant: the service list serves every stream in its current version -/

/-- every stream id handed out so far is served through the service list by a file that stores its
    CURRENT version -/
def Newest (s : St) (fver : FVer) (ver : Ver) : Prop :=
  ∀ id, id < s.next → ∃ f, servedIn (withCont s.files s.idx) id = some f ∧ fver f id = ver id

theorem newest_frame {s s' : St} {fver : FVer} {ver : Ver} (h : Frame s s') (hn : Newest s fver ver) :
    Newest s' fver ver := by
  intro id hid
  rw [h.next] at hid
  obtain ⟨f, hf, hv⟩ := hn id hid
  refine ⟨f, ?_, hv⟩
  rw [h.idx, h.files]
  exact hf

theorem newest_release {m : St} {fver : FVer} {ver : Ver} (held : List Nat) (hn : Newest m fver ver)
    (hu : ∀ f ∈ m.idx, held.count f < (nget m.used f).getD 0) : Newest (release m held) fver ver := by
  intro id hid
  rw [release_next] at hid
  obtain ⟨f, hf, hv⟩ := hn id hid
  refine ⟨f, ?_, hv⟩
  rw [release_idx, withCont_congr (fl := m.files) (fun f hf => release_files _ _ _ (hu f hf))]
  exact hf

theorem newest_frame_release {s mid : St} {fver : FVer} {ver : Ver} (held : List Nat) (h : Frame s mid)
    (hn : Newest s fver ver) (hu : ∀ f ∈ s.idx, held.count f < (nget s.used f).getD 0) :
    Newest (release mid held) fver ver := by
  refine newest_release held (newest_frame h hn) (fun f hf => ?_)
  rw [h.idx] at hf
  exact Nat.lt_of_lt_of_le (hu f hf) (h.used f)

/-- a file of the service list is not one of the files an event reports as new -/
theorem idx_not_fresh {s : St} {held : List Nat} (hh : Holds s held) {cr : List (Nat × List Nat)}
    (hfresh : ∀ o ∈ cr.map (·.1), nget s.used o = none ∧ nget s.files o = none) {f : Nat} (hf : f ∈ s.idx) :
    f ∉ cr.map (·.1) := by
  intro hmem
  have h0 := hh.lt f hf
  rw [(hfresh f hmem).1] at h0
  simp at h0

/-- an import completion: the created files are appended.  `hver`: a stream that is in none of the
    created files keeps its version; `hf1`: a created file stores the new current version of each of its
    streams; `hf2`: the other files keep what they store -/
theorem newest_importBase (s : St) (jn : Nat) (held : List Nat) (un : Nat) (cr : List (Nat × List Nat))
    (u r a : IdSet) (fver fver' : FVer) (ver ver' : Ver)
    (hn : Newest s fver ver) (hh : Holds s held)
    (hnd : (cr.map (·.1)).Nodup)
    (hfresh : ∀ o ∈ cr.map (·.1), nget s.used o = none ∧ nget s.files o = none)
    (hjn : jn = s.next)
    (hnew : ∀ id, jn ≤ id → id < jn + un → ∃ c ∈ cr, id ∈ c.2)
    (hver : ∀ id, id < s.next → (∀ c ∈ cr, id ∉ c.2) → ver' id = ver id)
    (hf1 : ∀ c ∈ cr, ∀ id ∈ c.2, fver' c.1 id = ver' id)
    (hf2 : ∀ o, o ∉ cr.map (·.1) → fver' o = fver o) :
    Newest (importBase s jn held un cr u r a) fver' ver' := by
  have h1 : Newest (release { s with all := jn + un, jImport := none } held) fver ver :=
    newest_release held (m := { s with all := jn + un, jImport := none }) hn hh.lt
  unfold importBase; dsimp only
  split
  · rename_i hemp
    have hcr : cr = [] := by simpa using hemp
    subst hcr
    intro id hid
    rw [release_next] at hid
    obtain ⟨f, hf, hv⟩ := h1 id (by rw [release_next]; exact hid)
    refine ⟨f, hf, ?_⟩
    rw [hf2 f (by simp), hv]
    exact (hver id hid (by simp)).symm
  · rename_i hemp
    intro id hid
    dsimp only at hid ⊢
    have h1' : ∀ id, id < s.next → ∃ f, servedIn (withCont
        (release { s with all := jn + un, jImport := none } held).files s.idx) id = some f ∧ fver f id = ver id := by
      intro id hid
      have := h1 id (by rw [release_next]; exact hid)
      rw [release_idx] at this
      exact this
    rw [release_idx]
    dsimp only
    rw [withCont_append]
    have hA : withCont (cr.foldl (fun fs (x : Nat × List Nat) => nins x.1 x.2 fs)
          (release { s with all := jn + un, jImport := none } held).files) s.idx =
        withCont (release { s with all := jn + un, jImport := none } held).files s.idx :=
      withCont_congr (fun f hf => nget_foldl_nins_of_not_mem _ _ _ (idx_not_fresh hh hfresh hf))
    have hB : withCont (cr.foldl (fun fs (x : Nat × List Nat) => nins x.1 x.2 fs)
          (release { s with all := jn + un, jImport := none } held).files) (cr.map (·.1)) = cr :=
      withCont_new (fun c hc => nget_foldl_nins_of_mem _ _ hnd c hc)
    rw [hA, hB, servedIn_append]
    cases hs : servedIn cr id with
    | some g =>
      obtain ⟨p, hp, h1', h2⟩ := servedIn_some_mem hs
      exact ⟨g, rfl, by rw [← h1']; exact hf1 p hp id h2⟩
    | none =>
      have hnone := (servedIn_none_iff cr id).1 hs
      have hlt : id < s.next := by
        rcases Nat.lt_or_ge id s.next with hc | hc
        · exact hc
        · obtain ⟨c, hc1, hc2⟩ := hnew id (by omega) hid
          exact absurd hc2 (hnone c hc1)
      obtain ⟨f, hf, hv⟩ := h1' id hlt
      refine ⟨f, hf, ?_⟩
      obtain ⟨p, hp, hp1, _⟩ := servedIn_some_mem hf
      have hfi : f ∈ s.idx := by rw [← hp1]; exact (mem_withCont hp).1
      rw [hf2 f (idx_not_fresh hh hfresh hfi), hv]
      exact (hver id hlt hnone).symm

/-- a merge completion: the run `held` of the service list is replaced by the merged files.  `hkeep`:
    for every stream the version served through the merged files is the version served through the
    replaced run (none if the run does not hold the stream); `hf2`: the other files keep what they store -/
theorem newest_mergeBase (s : St) (off : Nat) (held : List Nat) (mg : List (Nat × List Nat))
    (fver fver' : FVer) (ver : Ver)
    (hn : Newest s fver ver) (hh : Holds s held)
    (hnd : (mg.map (·.1)).Nodup)
    (hfresh : ∀ o ∈ mg.map (·.1), nget s.used o = none ∧ nget s.files o = none)
    (hheld : held = (s.idx.drop off).take held.length)
    (hkeep : mg ≠ [] → ∀ id, verIn fver' mg id = verIn fver (withCont s.files held) id)
    (hf2 : ∀ o, o ∉ mg.map (·.1) → fver' o = fver o) :
    Newest (mergeBase s off held mg) fver' ver := by
  unfold mergeBase; dsimp only
  split
  · rename_i hemp
    have hmg : mg = [] := by simpa using hemp
    subst hmg
    intro id hid
    obtain ⟨f, hf, hv⟩ := hn id hid
    exact ⟨f, hf, by rw [hf2 f (by simp), hv]⟩
  · rename_i hemp
    have hne : mg ≠ [] := by intro h; simp [h] at hemp
    rw [← hheld]
    have hidx := split3 s.idx off held.length
    rw [← hheld] at hidx
    intro id hid
    simp only [release_next, release_idx] at hid ⊢
    -- contents after the replacement
    have hkeepf : ∀ f ∈ s.idx, nget (mg.foldl (fun fs (x : Nat × List Nat) => nins x.1 x.2 fs)
        (release { s with jMerge := none } held).files) f = nget s.files f := by
      intro f hf
      rw [nget_foldl_nins_of_not_mem _ _ _ (idx_not_fresh hh hfresh hf), release_files]
      exact hh.lt f hf
    have hA : withCont (mg.foldl (fun fs (x : Nat × List Nat) => nins x.1 x.2 fs)
          (release { s with jMerge := none } held).files) (s.idx.take off) = withCont s.files (s.idx.take off) :=
      withCont_congr (fun f hf => hkeepf f (List.mem_of_mem_take hf))
    have hB : withCont (mg.foldl (fun fs (x : Nat × List Nat) => nins x.1 x.2 fs)
          (release { s with jMerge := none } held).files) (s.idx.drop (off + held.length)) =
        withCont s.files (s.idx.drop (off + held.length)) :=
      withCont_congr (fun f hf => hkeepf f (List.mem_of_mem_drop hf))
    have hM : withCont (mg.foldl (fun fs (x : Nat × List Nat) => nins x.1 x.2 fs)
          (release { s with jMerge := none } held).files) (mg.map (·.1)) = mg :=
      withCont_new (fun c hc => nget_foldl_nins_of_mem _ _ hnd c hc)
    rw [withCont_append, withCont_append, hA, hB, hM, List.append_assoc, servedIn_append, servedIn_append]
    -- the state before
    obtain ⟨f, hf, hv⟩ := hn id hid
    obtain ⟨p, hp, hp1, _⟩ := servedIn_some_mem hf
    have hfi : f ∈ s.idx := by rw [← hp1]; exact (mem_withCont hp).1
    have hfv : fver' f = fver f := hf2 f (idx_not_fresh hh hfresh hfi)
    rw [hidx, withCont_append, withCont_append, servedIn_append, servedIn_append] at hf
    cases hb : servedIn (withCont s.files (s.idx.drop (off + held.length))) id with
    | some g =>
      rw [hb] at hf
      exact ⟨f, hf, by rw [hfv, hv]⟩
    | none =>
      rw [hb] at hf
      dsimp only at hf ⊢
      have hk := hkeep hne id
      cases hm : servedIn mg id with
      | some m =>
        refine ⟨m, rfl, ?_⟩
        simp only [verIn, hm, Option.map_some] at hk
        cases hr : servedIn (withCont s.files held) id with
        | none => rw [hr] at hk; simp at hk
        | some h =>
          rw [hr] at hk hf
          simp only [Option.map_some, Option.some.injEq] at hk hf
          rw [hk, hf, hv]
      | none =>
        simp only [verIn, hm, Option.map_none] at hk
        cases hr : servedIn (withCont s.files held) id with
        | some h => rw [hr] at hk; simp at hk
        | none =>
          rw [hr] at hf
          exact ⟨f, hf, by rw [hfv, hv]⟩

end Pk.Proofs.MgrViewsRun
