/-
  Helper lemmas for Pk/Model/Bytes.lean: little-endian codec round trips and the segmentation
  varint round trip (core Lean only; no Mathlib needed).
-/
import Pk.Model.Bytes
namespace Pk.Bytes
open Pk

theorem le_length (k n : Nat) : (le k n).length = k := by
  induction k generalizing n with
  | zero => rfl
  | succ k ih => simp [le, ih]

theorem val_le (k n : Nat) : val (le k n) = n % 256 ^ k := by
  induction k generalizing n with
  | zero => simp [le, val, Nat.mod_one]
  | succ k ih =>
    simp only [le, val, ih, UInt8.toNat_ofNat']
    have h : n % 256 % (2 ^ 7 * 2) = n % 256 := by omega
    rw [h, Nat.pow_succ, Nat.mul_comm (256 ^ k) 256, Nat.mod_mul]

theorem val_lt (bs : Bytes) : val bs < 256 ^ bs.length := by
  induction bs with
  | nil => simp [val]
  | cons b bs ih =>
    simp only [val, List.length_cons, Nat.pow_succ]
    have := b.toNat_lt
    omega

theorem le_val (bs : Bytes) : le bs.length (val bs) = bs := by
  induction bs with
  | nil => rfl
  | cons b bs ih =>
    simp only [List.length_cons, le, val]
    have hb := b.toNat_lt
    have h1 : (b.toNat + 256 * val bs) % 256 = b.toNat := by omega
    have h2 : (b.toNat + 256 * val bs) / 256 = val bs := by omega
    rw [h1, h2, ih]
    simp

theorem take_le_append (k n : Nat) (rest : Bytes) : (le k n ++ rest).take k = le k n := by
  rw [List.take_append_of_le_length (by simp [le_length])]
  exact List.take_of_length_le (by simp [le_length])

theorem drop_le_append (k n : Nat) (rest : Bytes) : (le k n ++ rest).drop k = rest := by
  have h := List.drop_left (l₁ := le k n) (l₂ := rest)
  rwa [le_length] at h



/-- value of the decoder's accumulator after reading the groups of `sz` (most significant first) -/
def comb (a sz : Nat) : Nat :=
  if h : sz / 128 = 0 then a * 128 + sz % 128 else comb a (sz / 128) * 128 + sz % 128
termination_by sz
decreasing_by omega

theorem comb_zero (n : Nat) : comb 0 n = n := by
  induction n using Nat.strongRecOn with
  | _ n ih =>
    rw [comb]
    split
    · omega
    · rw [ih (n / 128) (by omega)]; omega

theorem comb_ge (a sz : Nat) : comb a (sz / 128) ≤ comb a sz / 128 ∨ sz / 128 = 0 := by
  by_cases h : sz / 128 = 0
  · exact Or.inr h
  · left
    conv => rhs; rw [comb]
    simp only [h, dite_false]
    omega

theorem dec_enc_aux (sz : Nat) : ∀ (flag : Nat) (acc : Bytes) (a : Nat), (flag = 0 ∨ flag = 128) → comb a sz < 2 ^ 64 →
    decVarintAux a (encVarintAux sz flag acc) =
      if flag = 0 then some (comb a sz, acc) else decVarintAux (comb a sz) acc := by
  induction sz using Nat.strongRecOn with
  | _ sz ih =>
    intro flag acc a hf hb
    have hbyte : (UInt8.ofNat (sz % 128 + flag)).toNat = sz % 128 + flag := by
      rw [UInt8.toNat_ofNat']; rcases hf with h | h <;> subst h <;> omega
    rw [encVarintAux]
    by_cases h0 : sz / 128 = 0
    · simp only [h0, dite_true]
      rw [comb] at hb ⊢
      simp only [h0, dite_true] at hb ⊢
      simp only [decVarintAux, hbyte]
      have h1 : a * 128 % 2 ^ 64 = a * 128 := Nat.mod_eq_of_lt (by omega)
      rcases hf with h | h <;> subst h
      · simp [h1]; omega
      · simp [h1]
        intro hx; omega
    · simp only [h0, dite_false]
      have hlt : sz / 128 < sz := by omega
      have hb' : comb a (sz / 128) < 2 ^ 64 := by
        rcases comb_ge a sz with h | h
        · omega
        · exact absurd h h0
      rw [ih (sz / 128) hlt 128 _ a (Or.inr rfl) hb']
      simp only [show (128 : Nat) ≠ 0 by decide, if_false]
      have hc : comb a sz = comb a (sz / 128) * 128 + sz % 128 := by
        conv => lhs; rw [comb]
        simp only [h0, dite_false]
      simp only [decVarintAux, hbyte]
      have h1 : comb a (sz / 128) * 128 % 2 ^ 64 = comb a (sz / 128) * 128 := Nat.mod_eq_of_lt (by omega)
      rcases hf with h | h <;> subst h
      · simp [h1, hc]; omega
      · simp [h1, hc]
        intro hx; omega

/-- the segmentation varint written by the writer is read back by the reader -/
theorem varint_roundtrip (n : Nat) (h : n < 2 ^ 64) (rest : Bytes) :
    decVarint (encVarint n ++ rest) = some (n, rest) := by
  have happ : ∀ (sz flag : Nat) (acc : Bytes), encVarintAux sz flag acc = encVarintAux sz flag [] ++ acc := by
    intro sz
    induction sz using Nat.strongRecOn with
    | _ sz ih =>
      intro flag acc
      rw [encVarintAux]; conv => rhs; rw [encVarintAux]
      by_cases h0 : sz / 128 = 0
      · simp [h0]
      · simp only [h0, dite_false]
        rw [ih (sz / 128) (by omega) 128 (_ :: acc), ih (sz / 128) (by omega) 128 [_]]
        simp
  unfold decVarint encVarint
  rw [← happ n 0 rest, dec_enc_aux n 0 rest 0 (Or.inl rfl) (by rw [comb_zero]; exact h)]
  simp [comb_zero]

end Pk.Bytes
