/-
  Helper lemmas for C11More: the complete effect of a successful `updMark` on the table.
-/
import Pk.Model.TagGraph
import Pk.Proofs.TagGraph
import Pk.Proofs.TagGraphMoreSets
import Pk.Proofs.TagGraphMoreInherit

namespace Pk.Proofs.TagGraphMore
open Pk.TagGraph Pk.Proofs.TagGraph

theorem refersTo_congr {m m' : TagMap} (h : ∀ k, refsOf m' k = refsOf m k) {target k : Name}
    (hr : RefersTo m target k) : RefersTo m' target k := by
  induction hr with
  | self => exact .self
  | step hrk _ ih => exact .step (by rw [h]; exact hrk) ih

theorem refsOf_tset_same (m : TagMap) (name : Name) (t nt : Tag) (ht : tget m name = some t)
    (h : nt.refs = t.refs) (k : Name) : refsOf (tset m name nt) k = refsOf m k := by
  unfold refsOf
  rw [get_set]
  by_cases hk : name = k
  · subst hk; simp [ht, h]
  · simp [hk]

/-- the new mark tag of `updMark` for a known mark -/
def markApply (add : Bool) (t : Tag) (ids : List Nat) : Tag :=
  if add then markAddApply t ids else markDelApply t ids

/-- the ids whose membership a mark add / mark del changes -/
def Changed (add : Bool) (t : Tag) (ids : List Nat) (x : Nat) : Prop :=
  x ∈ ids ∧ (if add then x ∉ t.matched else x ∈ t.matched)

theorem markApply_graph (add : Bool) (t : Tag) (ids : List Nat) :
    (markApply add t ids).refs = t.refs ∧ (markApply add t ids).referencedBy = t.referencedBy := by
  unfold markApply
  split
  · exact markAddApply_graph t ids
  · exact markDelApply_graph t ids

theorem changed_mem_uncertain (add : Bool) (t : Tag) (ids : List Nat) (x : Nat)
    (h : Changed add t ids x) : x ∈ (markApply add t ids).uncertain := by
  unfold Changed at h
  unfold markApply
  cases add
  · simp only [Bool.false_eq_true, if_false] at h ⊢
    exact (mem_markDelApply_uncertain t ids x).mpr (Or.inr h)
  · simp only [if_true] at h ⊢
    exact (mem_markAddApply_uncertain t ids x).mpr (Or.inr h)

/-- the complete effect of a mark add / mark del on a well-formed table -/
theorem updMark_spec (st : State) (name : Name) (add : Bool) (ids : List Nat) (t : Tag)
    (wf : GraphWF st.tags) (ht : tget st.tags name = some t) (hmark : markPrefix name = true)
    (hknown : t.known = true) (hne : ids ≠ []) (hmax : maxUsed ids ≤ st.nextStreamID) :
    ∃ st', updMark st name add ids = (.ok, st') ∧
      st'.nextStreamID = st.nextStreamID ∧ st'.convs = st.convs ∧
      tget st'.tags name = some { markApply add t ids with uncertain := t.uncertain } ∧
      (∀ k, k ≠ name → (tget st'.tags k).map clearU = (tget st.tags k).map clearU) ∧
      (∀ k u', k ≠ name → RefersTo st.tags name k → tget st'.tags k = some u' →
        ∀ x, Changed add t ids x → x ∈ u'.uncertain) := by
  have hne' : ids.isEmpty = false := by
    cases ids with
    | nil => exact absurd rfl hne
    | cons a l => rfl
  have hmax' : ¬ maxUsed ids > st.nextStreamID := by omega
  have hg := markApply_graph add t ids
  have hw : GraphWF (tset st.tags name (markApply add t ids)) :=
    GraphWF.congr (fun k => gview_tset_same st.tags name t _ ht hg.1 hg.2 k) wf
  obtain ⟨s1, hs1⟩ := inherit_isSome { st with tags := tset st.tags name (markApply add t ids) } hw
  obtain ⟨hunc, hnext, hconvs⟩ := uncOnly_inherit _ _ hs1
  have hunc' : UncOnly (tset st.tags name (markApply add t ids)) s1.tags := hunc
  have hw' : GraphWF (tmod s1.tags name fun x => { x with uncertain := t.uncertain }) := by
    apply GraphWF.congr _ hw
    intro k
    refine Eq.trans ?_ (gview_inherit _ _ hs1 k)
    apply gview_tmod
    intro _
    exact ⟨rfl, rfl⟩
  refine ⟨{ s1 with tags := tmod s1.tags name fun x => { x with uncertain := t.uncertain } }, ?_, hnext, hconvs, ?_, ?_, ?_⟩
  · unfold updMark
    simp only [hne', hmark, ht, hknown, Bool.false_eq_true, if_false, Bool.not_true, if_true]
    rw [if_neg hmax']
    have : (if add = true then markAddApply t ids else markDelApply t ids) = markApply add t ids := rfl
    rw [this, hs1]
    simp only [tagJobPanics_false _ hw', Bool.false_eq_true, if_false]
  · show tget (tmod s1.tags name fun x => { x with uncertain := t.uncertain }) name = _
    rw [get_modify]
    simp only [if_true]
    obtain ⟨u', hu', he⟩ := hunc'.get (k := name) (u := markApply add t ids) (by simp [get_set])
    rw [hu']
    simp only [Option.map_some]
    exact congrArg some (setU_of_clearU he t.uncertain)
  · intro k hk
    show (tget (tmod s1.tags name fun x => { x with uncertain := t.uncertain }) k).map clearU = _
    rw [get_modify]
    simp only [Ne.symm hk, if_false]
    rw [hunc' k, get_set]
    simp [Ne.symm hk]
  · intro k u' hk hrefers hu' x hx
    have hu'' : tget s1.tags k = some u' := by
      have : tget (tmod s1.tags name fun x => { x with uncertain := t.uncertain }) k = some u' := hu'
      rw [get_modify] at this
      simpa [Ne.symm hk] using this
    have hrefs : ∀ k, refsOf (tset st.tags name (markApply add t ids)) k = refsOf st.tags k :=
      refsOf_tset_same st.tags name t _ ht hg.1
    have hsome : (tget (tset st.tags name (markApply add t ids)) k).isSome := by
      obtain ⟨u, hu, _⟩ := hunc'.get' hu''
      simp [hu]
    have hpend := inherit_pending (Changed add t ids)
      { st with tags := tset st.tags name (markApply add t ids) } s1 hs1
      (fun x hx => Nat.lt_of_lt_of_le (lt_maxUsed ids x hx.1) hmax) name
      (by
        intro x hx
        simp only [uncertainOf, get_set, if_true]
        exact changed_mem_uncertain add t ids x hx)
      k hsome (refersTo_congr hrefs hrefers) x hx
    simpa [uncertainOf, hu''] using hpend

end Pk.Proofs.TagGraphMore
