/-
  Helper lemmas for C11More: the definition texts of marks — `joinIds`, `plainIdList` (`^id:\d+(,\d+)*$`)
  and the id list such a text names (`plainIds`).
-/
import Pk.Model.TagGraph
import Pk.Proofs.TagGraphMoreSets

namespace Pk.Proofs.TagGraphMore
open Pk.TagGraph

/-- the characters of `joinIds ids` -/
def joinChars : List Nat → List Char
  | [] => []
  | [a] => Nat.toDigits 10 a
  | a :: b :: rest => Nat.toDigits 10 a ++ ',' :: joinChars (b :: rest)

theorem intercalate_comma (l : List (List Char)) (a b : List Char) :
    [','].intercalate (a :: b :: l) = a ++ ',' :: [','].intercalate (b :: l) := by
  simp [List.intercalate, List.intersperse]

theorem joinIds_toList (ids : List Nat) : (joinIds ids).toList = joinChars ids := by
  unfold joinIds
  rw [String.toList_intercalate]
  have hc : ",".toList = [','] := rfl
  rw [hc]
  induction ids with
  | nil => rfl
  | cons a ids ih =>
    cases ids with
    | nil => simp [joinChars, List.intercalate, Nat.toString_eq_repr, Nat.toList_repr]
    | cons b rest =>
      simp only [List.map_cons] at ih ⊢
      rw [intercalate_comma, ih]
      simp [joinChars, Nat.toString_eq_repr, Nat.toList_repr]

theorem isDigit_toDigits (n : Nat) : ∀ c ∈ Nat.toDigits 10 n, c.isDigit = true :=
  fun _ hc => Nat.isDigit_of_mem_toDigits (by decide) (by decide) hc

theorem comma_not_digit : ','.isDigit = false := by decide

theorem digit_ne_comma (c : Char) (h : c.isDigit = true) : (c == ',') = false := by
  cases hc : c == ','
  · rfl
  · have : c = ',' := by simpa using hc
    subst this
    exact absurd h (by decide)

/-! ### `digitsCsv` -/

theorem digitsCsv_digits (d rest : List Char) (saw : Bool) (hd : ∀ c ∈ d, c.isDigit = true) (hne : d ≠ []) :
    digitsCsv (d ++ rest) saw = digitsCsv rest true := by
  induction d generalizing saw with
  | nil => exact absurd rfl hne
  | cons c d ih =>
    have hc := hd c List.mem_cons_self
    simp only [List.cons_append, digitsCsv, hc, if_true]
    cases d with
    | nil => rfl
    | cons c' d' => exact ih true (fun x hx => hd x (List.mem_cons_of_mem _ hx)) (by simp)

theorem digitsCsv_join (ids : List Nat) (rest : List Char) (saw : Bool) (hne : ids ≠ []) :
    digitsCsv (joinChars ids ++ rest) saw = digitsCsv rest true := by
  induction ids generalizing saw with
  | nil => exact absurd rfl hne
  | cons a ids ih =>
    cases ids with
    | nil =>
      simp only [joinChars]
      exact digitsCsv_digits _ _ _ (isDigit_toDigits a) Nat.toDigits_ne_nil
    | cons b r =>
      simp only [joinChars, List.append_assoc]
      rw [digitsCsv_digits _ _ _ (isDigit_toDigits a) Nat.toDigits_ne_nil]
      simp only [List.cons_append, digitsCsv, comma_not_digit, Bool.false_eq_true, if_false]
      simp only [beq_self_eq_true, Bool.and_self, if_true]
      exact ih false (by simp)

theorem digitsCsv_append_comma (body J : List Char) (saw : Bool) (h : digitsCsv body saw = true) :
    digitsCsv (body ++ ',' :: J) saw = digitsCsv J false := by
  induction body generalizing saw with
  | nil =>
    simp only [digitsCsv] at h
    subst h
    simp [digitsCsv, comma_not_digit]
  | cons c cs ih =>
    simp only [List.cons_append, digitsCsv] at h ⊢
    split
    · rename_i hc
      simp only [hc, if_true] at h
      exact ih true h
    · rename_i hc
      simp only [hc] at h
      split
      · rename_i hc2
        simp only [hc2, if_true] at h
        exact ih false h
      · rename_i hc2
        simp only [hc2] at h
        cases h

/-! ### the ids a plain id list names -/

/-- parse `\d+(,\d+)*` -/
def csvIds : List Char → Nat → List Nat
  | [], acc => [acc]
  | c :: cs, acc => if c == ',' then acc :: csvIds cs 0 else csvIds cs (10 * acc + (c.toNat - 48))

/-- the ids named by a plain id list `id:a,b,c` -/
def plainIds (s : String) : List Nat := csvIds (s.toList.drop 3) 0

theorem csvIds_digits (d rest : List Char) (acc : Nat) (hd : ∀ c ∈ d, c.isDigit = true) :
    csvIds (d ++ rest) acc = csvIds rest (Nat.ofDigitChars 10 d acc) := by
  induction d generalizing acc with
  | nil => simp
  | cons c d ih =>
    have hc := digit_ne_comma c (hd c List.mem_cons_self)
    simp only [List.cons_append, csvIds, hc, Bool.false_eq_true, if_false]
    rw [ih _ (fun x hx => hd x (List.mem_cons_of_mem _ hx)), Nat.ofDigitChars_cons]
    rfl

theorem csvIds_join (ids : List Nat) (hne : ids ≠ []) : csvIds (joinChars ids) 0 = ids := by
  induction ids with
  | nil => exact absurd rfl hne
  | cons a ids ih =>
    cases ids with
    | nil =>
      simp only [joinChars]
      have := csvIds_digits (Nat.toDigits 10 a) [] 0 (isDigit_toDigits a)
      simp only [List.append_nil] at this
      rw [this, Nat.ofDigitChars_ten_toDigits]
      rfl
    | cons b r =>
      simp only [joinChars]
      rw [csvIds_digits _ _ _ (isDigit_toDigits a), Nat.ofDigitChars_ten_toDigits]
      simp only [csvIds, beq_self_eq_true, if_true]
      rw [ih (by simp)]

theorem csvIds_append_comma (body J : List Char) (acc : Nat) :
    csvIds (body ++ ',' :: J) acc = csvIds body acc ++ csvIds J 0 := by
  induction body generalizing acc with
  | nil => simp [csvIds]
  | cons c cs ih =>
    simp only [List.cons_append, csvIds]
    split
    · simp [ih]
    · exact ih _

/-! ### `plainIdList` -/

theorem plainIdList_iff (s : String) :
    plainIdList s = true ↔ ∃ body, s.toList = 'i' :: 'd' :: ':' :: body ∧ digitsCsv body false = true := by
  unfold plainIdList
  simp only [Bool.and_eq_true, String.startsWith_string_iff]
  have hc : "id:".toList = ['i', 'd', ':'] := rfl
  rw [hc]
  constructor
  · rintro ⟨⟨body, hb⟩, h2⟩
    refine ⟨body, by simpa using hb.symm, ?_⟩
    rw [← hb] at h2
    simpa using h2
  · rintro ⟨body, hb, h2⟩
    rw [hb]
    exact ⟨⟨body, rfl⟩, by simpa using h2⟩

theorem plainIds_of_toList (s : String) (body : List Char) (h : s.toList = 'i' :: 'd' :: ':' :: body) :
    plainIds s = csvIds body 0 := by
  simp [plainIds, h]

/-- `id:` followed by a non-empty id list is a plain id list that names exactly these ids -/
theorem plain_id_join (ids : List Nat) (hne : ids ≠ []) :
    plainIdList ("id:" ++ joinIds ids) = true ∧ plainIds ("id:" ++ joinIds ids) = ids := by
  have hl : ("id:" ++ joinIds ids).toList = 'i' :: 'd' :: ':' :: joinChars ids := by
    rw [String.toList_append, joinIds_toList]; rfl
  constructor
  · rw [plainIdList_iff]
    refine ⟨_, hl, ?_⟩
    have := digitsCsv_join ids [] false hne
    simpa [digitsCsv] using this
  · rw [plainIds_of_toList _ _ hl, csvIds_join ids hne]

/-- appending `,` and a non-empty id list to a plain id list gives a plain id list that names the old
    ids followed by the new ones -/
theorem plain_append_join (s : String) (ids : List Nat) (hs : plainIdList s = true) (hne : ids ≠ []) :
    plainIdList (s ++ "," ++ joinIds ids) = true ∧
    plainIds (s ++ "," ++ joinIds ids) = plainIds s ++ ids := by
  obtain ⟨body, hb, hd⟩ := (plainIdList_iff s).mp hs
  have hl : (s ++ "," ++ joinIds ids).toList = 'i' :: 'd' :: ':' :: (body ++ ',' :: joinChars ids) := by
    rw [String.toList_append, String.toList_append, joinIds_toList, hb]
    have hc : ",".toList = [','] := rfl
    rw [hc]
    simp
  constructor
  · rw [plainIdList_iff]
    refine ⟨_, hl, ?_⟩
    rw [digitsCsv_append_comma _ _ _ hd]
    have := digitsCsv_join ids [] false hne
    simpa [digitsCsv] using this
  · rw [plainIds_of_toList _ _ hl, plainIds_of_toList _ _ hb, csvIds_append_comma, csvIds_join ids hne]

theorem none_not_plain : plainIdList "id:-1" = false := by
  cases h : plainIdList "id:-1"
  · rfl
  · obtain ⟨body, hb, hd⟩ := (plainIdList_iff _).mp h
    have hl : "id:-1".toList = ['i', 'd', ':', '-', '1'] := rfl
    rw [hl] at hb
    simp only [List.cons.injEq, true_and] at hb
    subst hb
    exact absurd hd (by decide)

/-- the text of the third branch of `markAddApply` -/
def orForm (d : String) (ids : List Nat) : String := "(" ++ d ++ ") or id:" ++ joinIds ids

theorem orForm_toList (d : String) (ids : List Nat) :
    (orForm d ids).toList = '(' :: (d.toList ++ (") or id:".toList ++ joinChars ids)) := by
  unfold orForm
  rw [String.toList_append, String.toList_append, String.toList_append, joinIds_toList]
  have hc : "(".toList = ['('] := rfl
  rw [hc]
  simp

theorem orForm_not_plain (d : String) (ids : List Nat) : plainIdList (orForm d ids) = false := by
  cases h : plainIdList (orForm d ids)
  · rfl
  · obtain ⟨body, hb, _⟩ := (plainIdList_iff _).mp h
    rw [orForm_toList] at hb
    simp at hb

theorem orForm_ne_none (d : String) (ids : List Nat) : orForm d ids ≠ "id:-1" := by
  intro h
  have := congrArg String.toList h
  rw [orForm_toList] at this
  have hl : "id:-1".toList = ['i', 'd', ':', '-', '1'] := rfl
  rw [hl] at this
  simp at this

theorem orForm_ne_self (d : String) (ids : List Nat) : orForm d ids ≠ d := by
  intro h
  have := congrArg (fun s => s.toList.length) h
  simp only [orForm_toList] at this
  simp at this
  omega

/-! ### forms of the string tests that `decide` can evaluate on literals -/

theorem startsWith_eq_isPrefixOf (s pat : String) : s.startsWith pat = pat.toList.isPrefixOf s.toList := by
  rw [Bool.eq_iff_iff]; simp

theorem markPrefix_eq (n : Name) :
    markPrefix n = ("mark/".toList.isPrefixOf n.toList || "generated/".toList.isPrefixOf n.toList) := by
  unfold markPrefix; rw [startsWith_eq_isPrefixOf, startsWith_eq_isPrefixOf]

theorem plainIdList_eq (s : String) :
    plainIdList s = ("id:".toList.isPrefixOf s.toList && digitsCsv (s.toList.drop 3) false) := by
  unfold plainIdList; rw [startsWith_eq_isPrefixOf]

end Pk.Proofs.TagGraphMore
