/-
  `Writer.addStream` preserves the writer invariant `WInv` (helper lemmas for the full C07 statement).
-/
import Pk.Proofs.MergeFullDefs
import Pk.Proofs.IndexFormatData
import Pk.Proofs.IndexFormatSkip
namespace Pk.Index
open Pk Pk.Bytes

/-- well-formed input of `AddStream` -/
structure StreamIn.WF (s : StreamIn) : Prop where
  addr : s.AddrWF
  times : ∀ p ∈ s.packets, 0 ≤ p.ts ∧ p.ts < 2 ^ 63
  names : ∀ p ∈ s.packets, ∀ rf ∈ p.refs, (0 : UInt8) ∉ rf.file
  size : (s.data.map (·.bytes.length)).sum < 2 ^ 64
  dirs : ∀ p ∈ s.packets, p.dir = 0 ∨ p.dir = 1

/-! ## unfolding `addStream` -/

theorem mfa_addStream_false (w w' : Writer) (s : StreamIn) (h : w.addStream s = .ok (w', false)) : w' = w := by
  unfold Writer.addStream at h
  split at h
  · simp at h; exact h.symm
  · split at h
    · simp only at h
      split at h
      · simp at h; exact h.symm
      · split at h
        · simp at h
        · split at h
          · simp at h
          · simp at h
    · simp at h

theorem mfa_addStream_true (w w' : Writer) (s : StreamIn) (h : w.addStream s = .ok (w', true)) :
    ∃ p0 pl hgs gid cid sid cds,
      s.packets.head? = some p0 ∧ s.packets.getLast? = some pl ∧
      placeHosts w.hostGroups s.client s.server = some (hgs, gid, cid, sid) ∧
      chunkDirs s.packets s.data = some cds ∧
      allRecords (addImports w.imports (s.packets.map PacketIn.pmds).flatten) p0.ts s.data 0 s.packets ≠ [] ∧
      w' = { hostGroups := hgs,
             imports := addImports w.imports (s.packets.map PacketIn.pmds).flatten,
             packets := w.packets ++ clearLastHasNext (setSkips (allRecords
               (addImports w.imports (s.packets.map PacketIn.pmds).flatten) p0.ts s.data 0 s.packets)).1,
             streams := (w.rebase (unixSec p0.ts)).2 ++
               [mkStreamRec w s (w.rebase (unixSec p0.ts)).1 p0 pl gid cid sid cds],
             blobs := w.blobs ++ [streamBlob cds],
             dataLen := w.dataLen + (streamBlob cds).length,
             ref := (w.rebase (unixSec p0.ts)).1 } := by
  unfold Writer.addStream at h
  split at h
  · simp at h
  · split at h
    · rename_i p0 pl hp0 hpl
      simp only at h
      split at h
      · simp at h
      · rename_i hgs gid cid sid hp
        split at h
        · simp at h
        · rename_i cds hcd
          split at h
          · simp at h
          · rename_i hne
            simp at h
            refine ⟨p0, pl, hgs, gid, cid, sid, cds, hp0, hpl, hp, hcd, ?_, h.symm⟩
            intro hnil
            apply hne
            simp [hnil]
    · simp at h

/-! ## chains -/

theorem mfa_chainOf_append (l t c : List PacketRec) (h : chainOf l = some c) : chainOf (l ++ t) = some c := by
  induction l generalizing c with
  | nil => simp [chainOf] at h
  | cons p ps ih =>
    simp only [List.cons_append, chainOf] at h ⊢
    split
    · rename_i he; simpa [he] using h
    · rename_i he
      simp only [he, if_false] at h
      cases hc : chainOf ps with
      | none => simp [hc] at h
      | some c' =>
        rw [ih c' hc]
        simpa [hc] using h

theorem mfa_chainOf_nonempty (l c : List PacketRec) (h : chainOf l = some c) : l ≠ [] := by
  intro hl; subst hl; simp [chainOf] at h

theorem mfa_chainOf_clearLast (m t : List PacketRec) (hne : m ≠ []) (hf : ∀ p ∈ m, p.flags = 1 ∨ p.flags = 3) :
    chainOf (clearLastHasNext m ++ t) = some (clearLastHasNext m) := by
  induction m with
  | nil => exact absurd rfl hne
  | cons a r ih =>
    cases r with
    | nil =>
      have := hf a (by simp)
      simp only [clearLastHasNext, List.cons_append, List.nil_append, chainOf]
      rcases this with h | h <;> simp [h]
    | cons b r =>
      have ha := hf a (by simp)
      have := ih (by simp) (fun p hp => hf p (by simp [hp]))
      simp only [clearLastHasNext, List.cons_append, chainOf] at this ⊢
      have hodd : ¬ (a.flags % 2 = 0) := by rcases ha with h | h <;> omega
      simp only [hodd, if_false]
      rw [this]; rfl

theorem mfa_skipsOk_clearLast (m : List PacketRec) (hs : SkipSound m) (hf : ∀ p ∈ m, p.flags = 1 ∨ p.flags = 3) :
    SkipsOk (clearLastHasNext m) := by
  induction m with
  | nil => simp [clearLastHasNext, SkipsOk]
  | cons a r ih =>
    cases r with
    | nil =>
      have := hf a (by simp)
      simp only [clearLastHasNext, SkipsOk, and_true]
      intro h
      rcases this with h' | h' <;> simp [h'] at h
    | cons b r =>
      obtain ⟨h1, h2⟩ := hs
      simp only [clearLastHasNext, SkipsOk]
      refine ⟨fun _ => ?_, ih h2 (fun p hp => hf p (by simp [hp]))⟩
      rw [clearLast_length]
      rcases h1 with h1 | ⟨_, hb⟩
      · simp at h1
      · exact hb

/-- `setSkips` changes only the skip counters -/
theorem mfa_setSkips_mem (l : List PacketRec) : ∀ q ∈ (setSkips l).1, ∃ p ∈ l, q.flags = p.flags ∧ q.imp = p.imp := by
  induction l with
  | nil => simp [setSkips]
  | cons a t ih =>
    cases t with
    | nil => intro q hq; simp [setSkips] at hq; rw [hq]; exact ⟨a, by simp, rfl, rfl⟩
    | cons b r =>
      intro q hq
      simp only [setSkips] at hq
      simp only [List.mem_cons] at hq
      rcases hq with rfl | hq
      · exact ⟨a, by simp, rfl, rfl⟩
      · obtain ⟨p, hp, h⟩ := ih q hq
        exact ⟨p, by simp only [List.mem_cons] at hp ⊢; right; exact hp, h⟩

theorem mfa_clearLast_mem (l : List PacketRec) : ∀ q ∈ clearLastHasNext l, ∃ p ∈ l, q.imp = p.imp := by
  induction l with
  | nil => simp [clearLastHasNext]
  | cons a t ih =>
    cases t with
    | nil => intro q hq; simp [clearLastHasNext] at hq; rw [hq]; exact ⟨a, by simp, rfl⟩
    | cons b r =>
      intro q hq
      simp only [clearLastHasNext, List.mem_cons] at hq
      rcases hq with rfl | hq
      · exact ⟨q, by simp, rfl⟩
      · obtain ⟨p, hp, h⟩ := ih q (by simpa [clearLastHasNext] using hq)
        exact ⟨p, by simp only [List.mem_cons] at hp ⊢; right; exact hp, h⟩

/-! ## imports -/

theorem mfa_addImports_prefix (rs : List SrcRef) : ∀ imports : List ImportKey, ∃ ext, addImports imports rs = imports ++ ext := by
  induction rs with
  | nil => intro imports; exact ⟨[], by simp [addImports]⟩
  | cons r rs ih =>
    intro imports
    simp only [addImports]
    split
    · exact ih imports
    · obtain ⟨ext, he⟩ := ih (imports ++ [r.key])
      exact ⟨[r.key] ++ ext, by rw [he, List.append_assoc]⟩

theorem mfa_addImports_mem (rs : List SrcRef) : ∀ (imports : List ImportKey) (r : SrcRef), r ∈ rs → r.key ∈ addImports imports rs := by
  induction rs with
  | nil => intro _ r hr; simp at hr
  | cons a rs ih =>
    intro imports r hr
    simp only [addImports]
    simp only [List.mem_cons] at hr
    rcases hr with rfl | hr
    · obtain ⟨ext, he⟩ := mfa_addImports_prefix rs (if imports.contains r.key then imports else imports ++ [r.key])
      rw [he]
      apply List.mem_append_left
      split
      · rename_i hc; simpa using hc
      · simp
    · exact ih _ r hr

theorem mfa_addImports_nodup (rs : List SrcRef) : ∀ imports : List ImportKey, imports.Nodup → (addImports imports rs).Nodup := by
  induction rs with
  | nil => intro imports h; simpa [addImports] using h
  | cons r rs ih =>
    intro imports h
    simp only [addImports]
    apply ih
    split
    · exact h
    · rename_i hc
      have hc' : r.key ∉ imports := by simpa using hc
      rw [List.nodup_append]
      refine ⟨h, by simp, ?_⟩
      intro a ha b hb
      simp at hb
      subst hb
      intro hab; subst hab; exact hc' ha

theorem mfa_addImports_nonul (rs : List SrcRef) (hrs : ∀ r ∈ rs, (0 : UInt8) ∉ r.file) :
    ∀ imports : List ImportKey, NoNul imports → NoNul (addImports imports rs) := by
  induction rs with
  | nil => intro imports h; simpa [addImports] using h
  | cons r rs ih =>
    intro imports h
    simp only [addImports]
    apply ih (fun x hx => hrs x (by simp [hx]))
    split
    · exact h
    · intro k hk
      simp only [List.mem_append, List.mem_singleton] at hk
      rcases hk with hk | rfl
      · exact h k hk
      · exact hrs r (by simp)

/-! ## packet records -/

theorem mfa_packetRecords_mem (imports : List ImportKey) (ts0 : Int) (n : Nat) (p : PacketIn) :
    ∀ q ∈ packetRecords imports ts0 n p, (q.flags = 1 ∨ q.flags = 3) ∧ ∃ r ∈ p.pmds, q.imp = imports.idxOf r.key := by
  intro q hq
  simp only [packetRecords, List.mem_flatten, List.mem_map] at hq
  obtain ⟨l, ⟨r, hr, rfl⟩, hq⟩ := hq
  simp only [List.mem_map] at hq
  obtain ⟨sz, _, rfl⟩ := hq
  refine ⟨?_, r, hr, rfl⟩
  simp only
  split <;> simp

theorem mfa_allRecords_mem (imports : List ImportKey) (ts0 : Int) (data : List ChunkIn) (ps : List PacketIn) :
    ∀ (i : Nat), ∀ q ∈ allRecords imports ts0 data i ps,
      (q.flags = 1 ∨ q.flags = 3) ∧ ∃ p ∈ ps, ∃ r ∈ p.pmds, q.imp = imports.idxOf r.key := by
  induction ps with
  | nil => intro i q hq; simp [allRecords] at hq
  | cons p ps ih =>
    intro i q hq
    simp only [allRecords, List.mem_append] at hq
    rcases hq with hq | hq
    · obtain ⟨h1, r, hr, h2⟩ := mfa_packetRecords_mem _ _ _ _ q hq
      exact ⟨h1, p, by simp, r, hr, h2⟩
    · obtain ⟨h1, p', hp', r, hr, h2⟩ := ih _ q hq
      exact ⟨h1, p', by simp [hp'], r, hr, h2⟩

/-! ## payload -/

theorem mfa_chunkDirs_spec (packets : List PacketIn) : ∀ (data : List ChunkIn) (cds : List (Nat × Bytes)),
    chunkDirs packets data = some cds →
      cds.map (·.2.length) = data.map (·.bytes.length) ∧ ∀ c ∈ cds, ∃ p ∈ packets, c.1 = p.dir := by
  intro data
  induction data with
  | nil => intro cds h; simp [chunkDirs] at h; subst h; simp
  | cons d ds ih =>
    intro cds h
    simp only [chunkDirs] at h
    split at h
    · rename_i dir r hd hr
      simp at h; subst h
      obtain ⟨h1, h2⟩ := ih r hr
      refine ⟨by simp [h1], ?_⟩
      intro c hc
      simp only [List.mem_cons] at hc
      rcases hc with rfl | hc
      · simp only [dirOf, Option.map_eq_some_iff] at hd
        obtain ⟨p, hp, rfl⟩ := hd
        exact ⟨p, List.mem_of_getElem? hp, rfl⟩
      · exact h2 c hc
    · simp at h

theorem mfa_dirBytes_len (cds : List (Nat × Bytes)) (h : ∀ c ∈ cds, c.1 = 0 ∨ c.1 = 1) :
    (dirBytes 0 cds).length + (dirBytes 1 cds).length = (cds.map (·.2.length)).sum := by
  induction cds with
  | nil => simp [dirBytes]
  | cons c cs ih =>
    have ih := ih (fun x hx => h x (by simp [hx]))
    have hc := h c (by simp)
    simp only [dirBytes] at ih ⊢
    rcases hc with hc | hc <;> simp [hc] at ih ⊢ <;> omega

theorem mfa_segRuns_sum (l : List (Nat × Nat)) : ((segRuns l).map (·.2)).sum = (l.map (·.2)).sum := by
  induction l with
  | nil => simp [segRuns]
  | cons a t ih =>
    obtain ⟨d, n⟩ := a
    simp only [segRuns]
    split
    · rename_i d' n' rs heq
      rw [heq] at ih
      split <;> simp at ih ⊢ <;> omega
    · rename_i heq
      rw [heq] at ih
      simp at ih ⊢; omega

/-! ## times -/

theorem mfa_u64_i64 (x : Int) (h0 : -(2 ^ 63) ≤ x) (h1 : x < 2 ^ 63) : u64 x < 2 ^ 64 ∧ i64 (u64 x) = x := by
  unfold i64 u64
  omega

theorem mfa_unixSec (ts : Int) (h0 : 0 ≤ ts) (h1 : ts < 2 ^ 63) : (unixSec ts : Int) = ts / 1000000000 := by
  unfold unixSec u64
  omega

theorem mfa_timeOk_rebase (ref fs : Nat) (s : StreamRec) (h : TimeOk ref s) (hgt : ref > fs) (href : ref * 1000000000 < 2 ^ 63) :
    TimeOk fs { s with first := add64 s.first (u64 (((ref : Int) - fs) * 1000000000)),
                       last := add64 s.last (u64 (((ref : Int) - fs) * 1000000000)) } := by
  have hd : (u64 (((ref : Int) - fs) * 1000000000) : Int) = ((ref : Int) - fs) * 1000000000 := by
    apply u64_of_nonneg <;> omega
  generalize u64 (((ref : Int) - fs) * 1000000000) = u at hd ⊢
  unfold TimeOk at h ⊢
  simp only
  unfold i64 add64 at *
  omega

theorem mfa_timeOk_new (ref : Nat) (t0 tl : Int) (r : StreamRec) (href : (ref : Int) * 1000000000 ≤ t0)
    (h0 : 0 ≤ t0) (h1 : t0 < 2 ^ 63) (hl0 : 0 ≤ tl) (hl1 : tl < 2 ^ 63)
    (hf : r.first = u64 (t0 - (ref : Int) * 1000000000)) (hl : r.last = u64 (tl - (ref : Int) * 1000000000)) :
    TimeOk ref r := by
  obtain ⟨a1, a2⟩ := mfa_u64_i64 (t0 - (ref : Int) * 1000000000) (by omega) (by omega)
  obtain ⟨b1, b2⟩ := mfa_u64_i64 (tl - (ref : Int) * 1000000000) (by omega) (by omega)
  unfold TimeOk
  rw [hf, hl, a2, b2]
  refine ⟨a1, b1, ?_, ?_, ?_, ?_⟩ <;> omega

/-- a writer without packet records has no streams -/
theorem mfa_no_packets (w : Writer) (hw : WInv w) (h : w.packets.length = 0) : w.streams = [] := by
  cases hs : w.streams with
  | nil => rfl
  | cons s t =>
    obtain ⟨_, k, hloc, _⟩ := hw.streams s (by simp [hs])
    have hch := hloc.2.1
    have : w.packets = [] := List.length_eq_zero_iff.mp h
    rw [this] at hch
    simp [chainOf] at hch

/-- what `rebase` returns: a reference second not after the new stream, the old records with first/last moved -/
theorem mfa_rebase_spec (w : Writer) (hw : WInv w) (t0 : Int) (h0 : 0 ≤ t0) (h1 : t0 < 2 ^ 63) :
    ((w.rebase (unixSec t0)).1 : Int) * 1000000000 ≤ t0 ∧
    (∀ s' ∈ (w.rebase (unixSec t0)).2, TimeOk (w.rebase (unixSec t0)).1 s' ∧
      ∃ s ∈ w.streams, ∃ a b, s' = { s with first := a, last := b }) := by
  have hfs := mfa_unixSec t0 h0 h1
  have href := hw.ref
  unfold Writer.rebase
  by_cases hz : w.packets.length = 0
  · simp only [hz, if_true]
    rw [mfa_no_packets w hw hz]
    exact ⟨by omega, by simp⟩
  · simp only [hz, if_false]
    by_cases hgt : w.ref > unixSec t0
    · simp only [hgt, if_true]
      refine ⟨by omega, ?_⟩
      intro s' hs'
      simp only [List.mem_map] at hs'
      obtain ⟨s, hs, rfl⟩ := hs'
      exact ⟨mfa_timeOk_rebase w.ref (unixSec t0) s (hw.streams s hs).1 hgt href, s, hs, _, _, rfl⟩
    · simp only [hgt, if_false]
      refine ⟨by omega, ?_⟩
      intro s hs
      exact ⟨(hw.streams s hs).1, s, hs, s.first, s.last, rfl⟩

/-! ## streams already in the writer stay where they are -/

theorem mfa_drop_append_ex (data more x : Bytes) (ds : Nat) (h : ∃ rest, data.drop ds = x ++ rest) :
    ∃ rest, (data ++ more).drop ds = x ++ rest := by
  obtain ⟨rest, hr⟩ := h
  by_cases hle : ds ≤ data.length
  · exact ⟨rest ++ more, by rw [List.drop_append_of_le_length hle, hr, List.append_assoc]⟩
  · have hnil : data.drop ds = [] := List.drop_eq_nil_of_le (by omega)
    rw [hnil] at hr
    have hx : x = [] := (List.append_eq_nil_iff.mp hr.symm).1
    subst hx
    exact ⟨_, (List.nil_append _).symm⟩

theorem mfa_located_mono (n n' : Nat) (packets t : List PacketRec) (data more : Bytes) (gs gs' : List HostGroup)
    (s : StreamRec) (k : Comp) (hn : n ≤ n') (hext : GroupsExt gs gs')
    (h : Located n packets data (gs.map HostGroup.toReader) s k) :
    Located n' (packets ++ t) (data ++ more) (gs'.map HostGroup.toReader) s k := by
  obtain ⟨⟨g, hg, v1, v2, e1, e2⟩, hch, himp, hdat, hlen⟩ := h
  refine ⟨?_, ?_, fun p hp => Nat.lt_of_lt_of_le (himp p hp) hn, ?_, hlen⟩
  · simp only [List.getElem?_map, Option.map_eq_some_iff] at hg
    obtain ⟨g0, hg0, rfl⟩ := hg
    obtain ⟨g', hg', hx⟩ := hext _ g0 hg0
    obtain ⟨v1', e1'⟩ := hx.2 s.ch v1
    obtain ⟨v2', e2'⟩ := hx.2 s.sh v2
    exact ⟨g'.toReader, by simp [hg'], v1', v2', e1'.trans e1, e2'.trans e2⟩
  · have hne := mfa_chainOf_nonempty _ _ hch
    have hlt : s.pstart ≤ packets.length := by
      apply Nat.le_of_not_gt
      intro hc
      exact hne (List.drop_eq_nil_of_le (by omega))
    rw [List.drop_append_of_le_length hlt]
    exact mfa_chainOf_append _ _ _ hch
  · obtain ⟨rest, hr⟩ := hdat
    exact mfa_drop_append_ex data more (k.c ++ k.seg) s.dataStart ⟨rest, hr⟩

/-! ## the segmentation written by `AddStream` is what `copySeg` reads -/

theorem mfa_copySeg_varint (fuel count n : Nat) (pre : Bytes) (hn : n < 2 ^ 64) (hle : n ≤ count) (hc : count ≠ 0)
    (h : copySeg fuel (count - n) pre = .ok pre) :
    copySeg (fuel + 1) count (encVarint n ++ pre) = .ok (encVarint n ++ pre) := by
  have hvr := varint_roundtrip n hn pre
  have hgt : ¬ (n > count) := by omega
  simp only [copySeg, hc, if_false, hvr, hgt, h]
  simp

theorem mfa_copySeg_flip (fuel count : Nat) (x : Bytes) (hc : count ≠ 0)
    (h : copySeg fuel count x = .ok x) :
    copySeg (fuel + 1) count ((0 : UInt8) :: x) = .ok ((0 : UInt8) :: x) := by
  have hd : decVarint ((0 : UInt8) :: x) = some (0, x) := by
    simp [decVarint, decVarintAux]
  simp only [copySeg, hc, if_false, hd, Nat.sub_zero, h]
  simp

theorem mfa_segBytes_covers (runs : List (Nat × Nat)) : ∀ (want : Nat), (runs.map (·.2)).sum < 2 ^ 64 →
    ∃ pre rest, segBytes want runs = pre ++ rest ∧ SegCovers (runs.map (·.2)).sum pre := by
  induction runs with
  | nil => intro want _; exact ⟨[], [], by simp [segBytes], 1, by simp [copySeg]⟩
  | cons a rs ih =>
    obtain ⟨d, n⟩ := a
    intro want hlt
    simp only [List.map_cons, List.sum_cons] at hlt ⊢
    by_cases hz : n + (rs.map (·.2)).sum = 0
    · exact ⟨[], _, (List.nil_append _).symm, 1, by simp [copySeg, hz]⟩
    · obtain ⟨pre', rest', hsb, fuel, hcs⟩ := ih (1 - d) (by omega)
      have h1 := mfa_copySeg_varint fuel (n + (rs.map (·.2)).sum) n pre' (by omega) (by omega) hz
        (by rw [Nat.add_sub_cancel_left]; exact hcs)
      by_cases hd : d ≠ want
      · refine ⟨(0 : UInt8) :: (encVarint n ++ pre'), rest', ?_, fuel + 2, mfa_copySeg_flip _ _ _ hz h1⟩
        simp [segBytes, hd, hsb]
      · refine ⟨encVarint n ++ pre', rest', ?_, fuel + 1, h1⟩
        simp [segBytes, hd, hsb]

/-! ## the theorem -/

theorem addStream_winv_of
    (hseg : ∀ (want : Nat) (runs : List (Nat × Nat)), (runs.map (·.2)).sum < 2 ^ 64 →
      ∃ pre rest, segBytes want runs = pre ++ rest ∧ SegCovers (runs.map (·.2)).sum pre)
    (w w' : Writer) (s : StreamIn) (b : Bool) (hw : WInv w) (hs : s.WF)
    (h : w.addStream s = .ok (w', b)) (hfit : w'.Fits) : WInv w' := by
  cases b with
  | false => rw [mfa_addStream_false w w' s h]; exact hw
  | true =>
    have hgroups := addStream_inv w w' s true hs.addr hw.groups h
    obtain ⟨p0, pl, hgs, gid, cid, sid, cds, hp0, hpl, hp, hcd, hne, rfl⟩ := mfa_addStream_true w w' s h
    have hp0mem : p0 ∈ s.packets := List.mem_of_head? hp0
    have hplmem : pl ∈ s.packets := List.mem_of_getLast? hpl
    obtain ⟨hext, g', hg', v1, v2, e1, e2⟩ :=
      placeHosts_spec w.hostGroups s.client s.server hs.addr.1 hs.addr.2 hw.groups hp
    obtain ⟨hrefle, hold⟩ := mfa_rebase_spec w hw p0.ts (hs.times p0 hp0mem).1 (hs.times p0 hp0mem).2
    -- the import table
    have hrs : ∀ r ∈ (s.packets.map PacketIn.pmds).flatten, ∃ p ∈ s.packets, r ∈ p.refs := by
      intro r hr
      simp only [List.mem_flatten, List.mem_map] at hr
      obtain ⟨l, ⟨p, hp, rfl⟩, hr⟩ := hr
      exact ⟨p, hp, by simpa [PacketIn.pmds] using hr⟩
    obtain ⟨iext, hiext⟩ := mfa_addImports_prefix (s.packets.map PacketIn.pmds).flatten w.imports
    have hinodup := mfa_addImports_nodup (s.packets.map PacketIn.pmds).flatten w.imports hw.importsNodup
    have hinonul := mfa_addImports_nonul (s.packets.map PacketIn.pmds).flatten
      (fun r hr => by obtain ⟨p, hp, hrp⟩ := hrs r hr; exact hs.names p hp r hrp) w.imports hw.importsNoNul
    have himem := mfa_addImports_mem (s.packets.map PacketIn.pmds).flatten w.imports
    generalize addImports w.imports (s.packets.map PacketIn.pmds).flatten = imports at *
    have hilen : w.imports.length ≤ imports.length := by rw [hiext]; simp
    -- the packet records
    have hraw := mfa_allRecords_mem imports p0.ts s.data s.packets 0
    obtain ⟨_, hsound, _⟩ := setSkips_spec (allRecords imports p0.ts s.data 0 s.packets)
    have hmm := mfa_setSkips_mem (allRecords imports p0.ts s.data 0 s.packets)
    have hmne : (setSkips (allRecords imports p0.ts s.data 0 s.packets)).1 ≠ [] := by
      generalize allRecords imports p0.ts s.data 0 s.packets = raw at hne
      cases raw with
      | nil => exact absurd rfl hne
      | cons a t => cases t <;> simp [setSkips]
    generalize allRecords imports p0.ts s.data 0 s.packets = raw at *
    have hmflags : ∀ q ∈ (setSkips raw).1, q.flags = 1 ∨ q.flags = 3 := by
      intro q hq
      obtain ⟨p, hp, hf, _⟩ := hmm q hq
      rw [hf]; exact (hraw p hp).1
    have hmimp : ∀ q ∈ (setSkips raw).1, q.imp < imports.length := by
      intro q hq
      obtain ⟨p, hp, _, hi⟩ := hmm q hq
      obtain ⟨_, pk, hpk, r, hr, hri⟩ := hraw p hp
      rw [hi, hri]
      apply List.idxOf_lt_length_of_mem
      exact himem r (by simp only [List.mem_flatten, List.mem_map]; exact ⟨_, ⟨pk, hpk, rfl⟩, hr⟩)
    generalize (setSkips raw).1 = m at *
    -- the payload
    obtain ⟨hcl, hcdir⟩ := mfa_chunkDirs_spec s.packets s.data cds hcd
    have hsum : (dirBytes 0 cds).length + (dirBytes 1 cds).length = (cds.map (·.2.length)).sum :=
      mfa_dirBytes_len cds (fun c hc => by obtain ⟨p, hp, he⟩ := hcdir c hc; rw [he]; exact hs.dirs p hp)
    have hsize := hs.size
    rw [← hcl] at hsize
    have hruns : ((segRuns (cds.map fun c => (c.1, c.2.length))).map (·.2)).sum = (cds.map (·.2.length)).sum := by
      rw [mfa_segRuns_sum, List.map_map]; rfl
    obtain ⟨pre, rest, hsb, hcov⟩ := hseg 0 (segRuns (cds.map fun c => (c.1, c.2.length))) (by rw [hruns]; exact hsize)
    rw [hruns] at hcov
    have hpk := hfit.packets
    have hgr := hfit.groups
    simp only [List.length_append] at hpk
    have hrecne : (clearLastHasNext m).length ≠ 0 := by rw [clearLast_length]; intro h0; exact hmne (List.length_eq_zero_iff.mp h0)
    have hflat : (w.blobs ++ [streamBlob cds]).flatten = w.blobs.flatten ++ streamBlob cds := by simp
    refine ⟨hgroups, ?_, hinodup, hinonul, ?_, ?_⟩
    · show w.dataLen + (streamBlob cds).length = (w.blobs ++ [streamBlob cds]).flatten.length
      rw [hflat, hw.dataLen]; simp
    · show (w.rebase (unixSec p0.ts)).1 * 1000000000 < 2 ^ 63
      have := (hs.times p0 hp0mem).2
      omega
    · intro s' hs'
      have hs'' : s' ∈ (w.rebase (unixSec p0.ts)).2 ++ [mkStreamRec w s (w.rebase (unixSec p0.ts)).1 p0 pl gid cid sid cds] := hs'
      simp only [List.mem_append, List.mem_singleton] at hs''
      show TimeOk (w.rebase (unixSec p0.ts)).1 s' ∧ ∃ k, Located imports.length (w.packets ++ clearLastHasNext m)
        (w.blobs ++ [streamBlob cds]).flatten (hgs.map HostGroup.toReader) s' k ∧ k.Ok s'
      rw [hflat]
      rcases hs'' with hs'' | rfl
      · obtain ⟨htime, s0, hs0, a, b, rfl⟩ := hold s' hs''
        obtain ⟨_, k, hloc, hok⟩ := hw.streams s0 hs0
        exact ⟨htime, k, mfa_located_mono _ _ _ _ _ _ _ _ s0 k hilen hext hloc, hok⟩
      · refine ⟨mfa_timeOk_new _ p0.ts pl.ts _ hrefle (hs.times p0 hp0mem).1 (hs.times p0 hp0mem).2
          (hs.times pl hplmem).1 (hs.times pl hplmem).2 rfl rfl, ?_⟩
        refine ⟨{ client := s.client, server := s.server, chain := clearLastHasNext m,
                  c := dirBytes 0 cds ++ dirBytes 1 cds, seg := pre }, ⟨?_, ?_, ?_, ?_, ?_⟩, ?_, ?_, ?_⟩
        · have hgid : gid < hgs.length := by
            rcases Nat.lt_or_ge gid hgs.length with h | h
            · exact h
            · simp [List.getElem?_eq_none h] at hg'
          have hgr' : hgs.length ≤ 65536 := hgr
          have hmod : gid % 65536 = gid := Nat.mod_eq_of_lt (by omega)
          refine ⟨g'.toReader, ?_, v1, v2, e1, e2⟩
          simp only [mkStreamRec, hmod, List.getElem?_map, hg', Option.map_some]
        · have hmod : w.packets.length % 2 ^ 32 = w.packets.length := Nat.mod_eq_of_lt (by omega)
          simp only [mkStreamRec, hmod, List.drop_left]
          have := mfa_chainOf_clearLast m [] hmne hmflags
          simpa using this
        · intro q hq
          obtain ⟨p, hp, hi⟩ := mfa_clearLast_mem m q hq
          show q.imp < imports.length
          rw [hi]; exact hmimp p hp
        · refine ⟨rest, ?_⟩
          simp only [mkStreamRec, hw.dataLen, List.drop_left]
          simp only [streamBlob, hsb, List.append_assoc]
        · simp [mkStreamRec]
        · exact mfa_skipsOk_clearLast m hsound hmflags
        · show SegCovers ((dirBytes 0 cds).length + (dirBytes 1 cds).length) pre
          rw [hsum]; exact hcov
        · show (dirBytes 0 cds).length + (dirBytes 1 cds).length < 2 ^ 64
          rw [hsum]; exact hsize

theorem addStream_winv (w w' : Writer) (s : StreamIn) (b : Bool) (hw : WInv w) (hs : s.WF)
    (h : w.addStream s = .ok (w', b)) (hfit : w'.Fits) : WInv w' :=
  addStream_winv_of (fun want runs hlt => mfa_segBytes_covers runs want hlt) w w' s b hw hs h hfit

end Pk.Index
