/-
  Flow locality of the reference reassembler, part 2: `tcpPacket` / `udpPacket` without flush as
  "find the connection, apply the body"; bodies keep the stream key and the window invariant.
-/
import Pk.Proofs.ImportReasmMoreFlow1

namespace Pk.Proofs.ImportReasm
open Pk.Import

/-! ### list / array bookkeeping -/

theorem array_push_set! (ss : Array Stream) (s s' : Stream) : (ss.push s).set! ss.size s' = ss.push s' := by
  apply Array.ext'
  simp [List.set_append_right]

theorem list_toArray_set! (l1 l2 : List Stream) (s s' : Stream) :
    (l1 ++ s :: l2).toArray.set! l1.length s' = (l1 ++ s' :: l2).toArray := by
  apply Array.ext'
  simp [List.set_append_right]

theorem list_toArray_get! (l1 l2 : List Stream) (s : Stream) : (l1 ++ s :: l2).toArray[l1.length]! = s := by
  simp

theorem list_set_mid {α} (l1 l2 : List α) (s s' : α) : (l1 ++ s :: l2).set l1.length s' = (l1 ++ s' :: l2) := by
  simp

theorem list_get_mid {α} (l1 l2 : List α) (s : α) : (l1 ++ s :: l2)[l1.length]? = some s := by
  simp

/-! ### TCP -/

def touchHalf (h : Half) (ts : Nat) : Half := if h.lastSeen < ts then { h with lastSeen := ts } else h

/-- `Stream.Accept` followed by the assembler, on the half of the sender -/
def acceptHalf (st : Stream) (half : Half) (p : Pkt) (dir : Bool) : Stream × Half :=
  let st := st.addPkt p.ref dir
  let (fsm, ok) := st.fsm.check p dir
  let st := { st with fsm := fsm }
  if ok then assembleHalf st half p else (st, half)

/-- what `tcpPacket` does to the connection of the packet and to its stream (`dir` = server→client) -/
def tcpBody (c : TcpConn) (st : Stream) (p : Pkt) (dir : Bool) : TcpConn × Stream :=
  let half := touchHalf (if dir then c.s2c else c.c2s) p.ts
  let (st, half) := acceptHalf st half p dir
  let c := if dir then { c with s2c := half } else { c with c2s := half }
  let st := if c.c2s.closed ∧ c.s2c.closed then { st with complete := true } else st
  (c, st)

/-- the connection and the stream that `StreamFactory.New` creates for `p` -/
def newConn (p : Pkt) (i : Nat) : TcpConn :=
  { k := assemblerIndex p, src := p.src, dst := p.dst, sport := p.sport, dport := p.dport,
    c2s := { lastSeen := p.ts }, s2c := { lastSeen := p.ts }, stream := i }

def newTcpStream (p : Pkt) : Stream :=
  { caddr := p.src, saddr := p.dst, cport := p.sport, sport := p.dport, udp := false }

def tcpApply (r : RState) (p : Pkt) (i : Nat) (dir : Bool) : RState :=
  match r.tcp[i]? with
  | none => r
  | some c =>
    { r with streams := r.streams.set! c.stream (tcpBody c r.streams[c.stream]! p dir).2,
             tcp := r.tcp.set i (tcpBody c r.streams[c.stream]! p dir).1 }

theorem tcpPacket_eq (t0 : Nat) (r : RState) (p : Pkt) (hw : ∀ c ∈ r.tcp, ConnWin t0 c) (hts : p.ts ≤ t0 + timeout) :
    tcpPacket r p =
      match tcpFind p r.tcp 0 with
      | some (i, dir) => tcpApply { r with unmodelled := r.unmodelled || decide (p.payload.length > 1900) } p i dir
      | none =>
        tcpApply { r with streams := r.streams.push (newTcpStream p), tcp := r.tcp ++ [newConn p r.streams.size],
                          unmodelled := r.unmodelled || decide (p.payload.length > 1900) } p r.tcp.length false := by
  cases hf : tcpFind p r.tcp 0 with
  | some x =>
    obtain ⟨i, dir⟩ := x
    cases hc : r.tcp[i]? with
    | none =>
      unfold tcpPacket tcpApply
      simp only [tcpFlush_id t0 _ p.ts hts r.tcp r.streams r.unmodelled hw, hf, hc]
    | some c =>
      unfold tcpPacket tcpApply
      simp only [tcpFlush_id t0 _ p.ts hts r.tcp r.streams r.unmodelled hw, hf, hc]
      unfold tcpBody
      cases dir <;> rfl
  | none =>
    have hc : (r.tcp ++ [newConn p r.streams.size])[r.tcp.length]? = some (newConn p r.streams.size) := by simp
    unfold tcpPacket tcpApply
    simp only [tcpFlush_id t0 _ p.ts hts r.tcp r.streams r.unmodelled hw, hf, hc]
    unfold newConn at hc
    simp only [hc]
    unfold tcpBody
    rfl

theorem tcpPacket_old (t0 : Nat) (r : RState) (p : Pkt) (hw : ∀ c ∈ r.tcp, ConnWin t0 c) (hts : p.ts ≤ t0 + timeout)
    (i : Nat) (dir : Bool) (c : TcpConn) (hf : tcpFind p r.tcp 0 = some (i, dir)) (hc : r.tcp[i]? = some c) :
    tcpPacket r p =
      { streams := r.streams.set! c.stream (tcpBody c r.streams[c.stream]! p dir).2,
        tcp := r.tcp.set i (tcpBody c r.streams[c.stream]! p dir).1,
        udp := r.udp, unmodelled := r.unmodelled || decide (p.payload.length > 1900) } := by
  rw [tcpPacket_eq t0 r p hw hts, hf]
  simp only
  unfold tcpApply
  simp only [hc]

theorem tcpPacket_new (t0 : Nat) (r : RState) (p : Pkt) (hw : ∀ c ∈ r.tcp, ConnWin t0 c) (hts : p.ts ≤ t0 + timeout)
    (hf : tcpFind p r.tcp 0 = none) :
    tcpPacket r p =
      { streams := r.streams.push (tcpBody (newConn p r.streams.size) (newTcpStream p) p false).2,
        tcp := r.tcp ++ [(tcpBody (newConn p r.streams.size) (newTcpStream p) p false).1],
        udp := r.udp, unmodelled := r.unmodelled || decide (p.payload.length > 1900) } := by
  rw [tcpPacket_eq t0 r p hw hts, hf]
  simp only
  unfold tcpApply
  have h1 : (r.tcp ++ [newConn p r.streams.size])[r.tcp.length]? = some (newConn p r.streams.size) := by simp
  simp only [h1]
  have h2 : (newConn p r.streams.size).stream = r.streams.size := rfl
  simp only [h2]
  have h3 : (r.streams.push (newTcpStream p))[r.streams.size]! = newTcpStream p := by simp
  rw [h3, array_push_set!]
  congr 1
  simp

/-- the orientation test of `tcpFind` on one connection -/
def tcpDir (p : Pkt) (c : TcpConn) : Option Bool :=
  if c.src = p.src ∧ c.dst = p.dst ∧ c.sport = p.sport ∧ c.dport = p.dport then some false
  else if c.src = p.dst ∧ c.dst = p.src ∧ c.sport = p.dport ∧ c.dport = p.sport then some true
  else none

theorem tcpFind_cons (p : Pkt) (c : TcpConn) (cs : List TcpConn) (j : Nat) :
    tcpFind p (c :: cs) j = match tcpDir p c with | some d => some (j, d) | none => tcpFind p cs (j + 1) := by
  rw [tcpFind]; unfold tcpDir
  split
  · rfl
  · split <;> rfl

theorem tcpFind_append (p : Pkt) (l2 : List TcpConn) : ∀ (l1 : List TcpConn) (j : Nat),
    (∀ c ∈ l1, tcpDir p c = none) → tcpFind p (l1 ++ l2) j = tcpFind p l2 (j + l1.length) := by
  intro l1
  induction l1 with
  | nil => intro j _; rfl
  | cons c cs ih =>
    intro j h
    rw [List.cons_append, tcpFind_cons, h c (List.mem_cons_self ..)]
    simp only
    rw [ih (j + 1) (fun c hm => h c (List.mem_cons_of_mem _ hm)), List.length_cons]
    congr 1; omega

theorem tcpFind_none (p : Pkt) : ∀ (l : List TcpConn) (j : Nat),
    (∀ c ∈ l, tcpDir p c = none) → tcpFind p l j = none := by
  intro l
  induction l with
  | nil => intro j _; rfl
  | cons c cs ih =>
    intro j h
    rw [tcpFind_cons, h c (List.mem_cons_self ..)]
    exact ih (j + 1) (fun c hm => h c (List.mem_cons_of_mem _ hm))

/-! ### UDP -/

def udpBody (st : Stream) (p : Pkt) (dir : Bool) : Stream :=
  let st := st.addPkt p.ref dir
  if p.payload.length = 0 then st else st.addData p.ref p.payload

def newUdpStream (p : Pkt) : Stream :=
  { caddr := p.src, saddr := p.dst, cport := p.sport, sport := p.dport, udp := true }

theorem udpPacket_eq (t0 : Nat) (r : RState) (p : Pkt) (hw : ∀ c ∈ r.udp, t0 ≤ c.lastActivity) (hts : p.ts ≤ t0 + timeout) :
    udpPacket r p =
      match udpLookup r.streams p r.udp 0 with
      | some (i, dir) =>
        match r.udp[i]? with
        | none => r
        | some c =>
          { r with streams := r.streams.set! c.stream (udpBody r.streams[c.stream]! p dir),
                   udp := r.udp.set i { c with lastActivity := p.ts } }
      | none =>
        { r with streams := r.streams.push (udpBody (newUdpStream p) p false),
                 udp := r.udp ++ [{ lastActivity := p.ts, stream := r.streams.size }] } := by
  unfold udpPacket
  simp only [udpFlush_id t0 p.ts hts r.udp r.streams hw]
  rfl

theorem udpLookup_cons (ss : Array Stream) (p : Pkt) (c : UdpConn) (cs : List UdpConn) (j : Nat) :
    udpLookup ss p (c :: cs) j =
      match udpMatch ss[c.stream]! p with | some d => some (j, d) | none => udpLookup ss p cs (j + 1) := by
  rw [udpLookup]
  split <;> simp [*]

theorem udpLookup_append (ss : Array Stream) (p : Pkt) (l2 : List UdpConn) : ∀ (l1 : List UdpConn) (j : Nat),
    (∀ c ∈ l1, udpMatch ss[c.stream]! p = none) → udpLookup ss p (l1 ++ l2) j = udpLookup ss p l2 (j + l1.length) := by
  intro l1
  induction l1 with
  | nil => intro j _; rfl
  | cons c cs ih =>
    intro j h
    rw [List.cons_append, udpLookup_cons, h c (List.mem_cons_self ..)]
    simp only
    rw [ih (j + 1) (fun c hm => h c (List.mem_cons_of_mem _ hm)), List.length_cons]
    congr 1; omega

theorem udpLookup_none (ss : Array Stream) (p : Pkt) : ∀ (l : List UdpConn) (j : Nat),
    (∀ c ∈ l, udpMatch ss[c.stream]! p = none) → udpLookup ss p l j = none := by
  intro l
  induction l with
  | nil => intro j _; rfl
  | cons c cs ih =>
    intro j h
    rw [udpLookup_cons, h c (List.mem_cons_self ..)]
    exact ih (j + 1) (fun c hm => h c (List.mem_cons_of_mem _ hm))

/-! ### stream keys never change -/

theorem addPkt_key (s : Stream) (r : PRef) (d : Bool) : Stream.keyPkt (s.addPkt r d) = Stream.keyPkt s := rfl

theorem addData_key (s : Stream) (r : PRef) (b : Bytes) : Stream.keyPkt (s.addData r b) = Stream.keyPkt s := by
  unfold Stream.addData
  split <;> rfl

theorem sendToConnection_key (st : Stream) (h : Half) (s : Nat) (b : Bytes) (r : PRef) (f : Bool) :
    Stream.keyPkt (sendToConnection st h s b r f).1 = Stream.keyPkt st := by
  unfold sendToConnection
  simp only
  split
  · rfl
  · split
    · exact addData_key ..
    · rfl

theorem phase2_key (st : Stream) (g : Half) (seq : Nat) (queue : Bool) (p : Pkt) :
    Stream.keyPkt (phase2 st g seq queue p).1 = Stream.keyPkt st := by
  unfold phase2
  cases queue with
  | true => rfl
  | false =>
    simp only [Bool.false_eq_true, if_false]
    split
    · rw [sendToConnection_key]
    · rfl

theorem assembleHalf_key (st : Stream) (h : Half) (p : Pkt) : Stream.keyPkt (assembleHalf st h p).1 = Stream.keyPkt st := by
  rw [assembleHalf_eq]
  split
  · rfl
  · exact phase2_key ..

theorem acceptHalf_key (st : Stream) (h : Half) (p : Pkt) (dir : Bool) : Stream.keyPkt (acceptHalf st h p dir).1 = Stream.keyPkt st := by
  unfold acceptHalf
  simp only
  split
  · rw [assembleHalf_key]; rfl
  · rfl

theorem tcpBody_key (c : TcpConn) (st : Stream) (p : Pkt) (dir : Bool) : Stream.keyPkt (tcpBody c st p dir).2 = Stream.keyPkt st := by
  have h := acceptHalf_key st (touchHalf (if dir then c.s2c else c.c2s) p.ts) p dir
  unfold tcpBody
  cases dir
  · simp only [Bool.false_eq_true, if_false] at h ⊢
    split
    · exact h
    · exact h
  · simp only [if_true] at h ⊢
    split
    · exact h
    · exact h

theorem tcpBody_frame (c : TcpConn) (st : Stream) (p : Pkt) (dir : Bool) :
    (tcpBody c st p dir).1.src = c.src ∧ (tcpBody c st p dir).1.dst = c.dst ∧
    (tcpBody c st p dir).1.sport = c.sport ∧ (tcpBody c st p dir).1.dport = c.dport ∧
    (tcpBody c st p dir).1.stream = c.stream := by
  unfold tcpBody
  cases dir <;> exact ⟨rfl, rfl, rfl, rfl, rfl⟩

/-- the body does not look at the stream number of the connection -/
theorem tcpBody_stream (c : TcpConn) (st : Stream) (p : Pkt) (dir : Bool) (i : Nat) :
    tcpBody { c with stream := i } st p dir = ({ (tcpBody c st p dir).1 with stream := i }, (tcpBody c st p dir).2) := by
  unfold tcpBody
  cases dir <;> rfl

/-! ### the window invariant -/

theorem touchHalf_win (t0 : Nat) (h : Half) (ts : Nat) (hw : HalfWin t0 h) : HalfWin t0 (touchHalf h ts) := by
  unfold touchHalf
  split
  · exact ⟨by have := hw.1; simp only; omega, hw.2⟩
  · exact hw

theorem acceptHalf_win (t0 : Nat) (st : Stream) (h : Half) (p : Pkt) (dir : Bool) (hw : HalfWin t0 h) (hp : t0 ≤ p.ts) :
    HalfWin t0 (acceptHalf st h p dir).2 := by
  unfold acceptHalf
  simp only
  split
  · have := assembleHalf_refs (fun r => t0 ≤ r.ts)
      { st.addPkt p.ref dir with fsm := ((st.addPkt p.ref dir).fsm.check p dir).1 } h p hw.2 hp
    exact ⟨by rw [this.2]; exact hw.1, this.1⟩
  · exact hw

theorem tcpBody_win (t0 : Nat) (c : TcpConn) (st : Stream) (p : Pkt) (dir : Bool) (hw : ConnWin t0 c) (hp : t0 ≤ p.ts) :
    ConnWin t0 (tcpBody c st p dir).1 := by
  unfold tcpBody
  cases dir with
  | false => exact ⟨acceptHalf_win t0 st _ p false (touchHalf_win t0 _ _ hw.1) hp, hw.2⟩
  | true => exact ⟨hw.1, acceptHalf_win t0 st _ p true (touchHalf_win t0 _ _ hw.2) hp⟩

theorem newConn_win (t0 : Nat) (p : Pkt) (i : Nat) (hp : t0 ≤ p.ts) : ConnWin t0 (newConn p i) := by
  refine ⟨⟨hp, ?_⟩, ⟨hp, ?_⟩⟩ <;> intro pg hm <;> cases hm

theorem udpBody_key (st : Stream) (p : Pkt) (dir : Bool) : Stream.keyPkt (udpBody st p dir) = Stream.keyPkt st := by
  unfold udpBody
  simp only
  split
  · rfl
  · rw [addData_key]; rfl

end Pk.Proofs.ImportReasm
