/-
  The file-name section: the reader resolves every import record to the name the writer stored
  (names without NUL bytes).
-/
import Pk.Proofs.IndexFormatFullWriter
namespace Pk.Index
open Pk Pk.Bytes

/-- a file name without NUL byte (the name section is NUL separated) -/
def NoNul (fn : Bytes) : Prop := ∀ b ∈ fn, b ≠ 0

theorem takeWhile_name (fn post : Bytes) (h : NoNul fn) : (fn ++ 0 :: post).takeWhile (· ≠ 0) = fn := by
  induction fn with
  | nil => simp
  | cons b t ih =>
    have hb : b ≠ 0 := h b (by simp)
    simp only [List.cons_append, List.takeWhile_cons, hb, ne_eq, not_false_eq_true, decide_true, if_true]
    rw [ih (fun x hx => h x (by simp [hx]))]

def NamesOK (blob : Bytes) (offs : List (Bytes × Nat)) : Prop :=
  ∀ e ∈ offs, ∃ post, blob.drop e.2 = e.1 ++ 0 :: post

theorem NamesOK.append {blob : Bytes} {offs : List (Bytes × Nat)} (h : NamesOK blob offs) (more : Bytes) :
    NamesOK (blob ++ more) offs := by
  intro e he
  obtain ⟨post, hp⟩ := h e he
  have hle : e.2 ≤ blob.length := by
    rcases Nat.lt_or_ge blob.length e.2 with hlt | hge
    · rw [List.drop_of_length_le (by omega)] at hp; simp at hp
    · exact hge
  exact ⟨post ++ more, by rw [List.drop_append_of_le_length hle, hp]; simp⟩

theorem nameTableGo_spec (ks : List ImportKey) : ∀ (blob : Bytes) (offs : List (Bytes × Nat)), NamesOK blob offs →
    NamesOK (nameTableGo blob offs ks).1 (nameTableGo blob offs ks).2 ∧
    (∀ fn, offs.any (fun e => e.1 == fn) = true → (nameTableGo blob offs ks).2.any (fun e => e.1 == fn) = true) ∧
    (∀ k ∈ ks, (nameTableGo blob offs ks).2.any (fun e => e.1 == k.1) = true) := by
  induction ks with
  | nil => intro blob offs h; exact ⟨h, fun _ h => h, by simp⟩
  | cons k ks ih =>
    intro blob offs h
    obtain ⟨fn, o⟩ := k
    simp only [nameTableGo]
    by_cases hc : offs.any (fun e => e.1 == fn) = true
    · simp only [hc, if_true]
      obtain ⟨h1, h2, h3⟩ := ih blob offs h
      refine ⟨h1, h2, ?_⟩
      intro k hk
      simp at hk
      rcases hk with rfl | hk
      · exact h2 _ hc
      · exact h3 k hk
    · simp only [hc, Bool.false_eq_true, if_false]
      have hok : NamesOK (blob ++ fn ++ [0]) (offs ++ [(fn, blob.length)]) := by
        intro e he
        simp at he
        rcases he with he | rfl
        · have := (h.append (fn ++ [0])) e he
          simpa using this
        · exact ⟨[], by simp⟩
      obtain ⟨h1, h2, h3⟩ := ih _ _ hok
      refine ⟨h1, ?_, ?_⟩
      · intro g hg
        apply h2
        simp only [List.any_append, hg, Bool.true_or]
      · intro k hk
        simp at hk
        rcases hk with rfl | hk
        · apply h2; simp
        · exact h3 k hk

theorem finalize_importNames (w : Writer) : w.finalize.importNames = (nameTable w.imports).1 := rfl

theorem finalize_imports (w : Writer) : w.finalize.imports = w.imports.map fun k =>
    ({ filename := match (nameTable w.imports).2.find? (fun e => e.1 == k.1) with | some e => e.2 | none => 0,
       offset := k.2 } : ImportRec) := rfl

/-- the reader's import table is the writer's -/
theorem readImports_finalize (w : Writer) (h : ∀ k ∈ w.imports, NoNul k.1) :
    readImports w.finalize.importNames w.finalize.imports = w.imports := by
  rw [finalize_importNames, finalize_imports]
  unfold readImports
  rw [List.map_map]
  obtain ⟨hok, _, hall⟩ := nameTableGo_spec w.imports [] [] (by intro e he; simp at he)
  have hnt : nameTable w.imports = nameTableGo [] [] w.imports := rfl
  rw [← hnt] at hok hall
  conv => rhs; rw [← List.map_id w.imports]
  apply List.map_congr_left
  intro k hk
  obtain ⟨fn, o⟩ := k
  have hany := hall _ hk
  simp only [Function.comp, id]
  cases hf : (nameTable w.imports).2.find? (fun e => e.1 == fn) with
  | none =>
    rw [List.find?_eq_none] at hf
    rw [List.any_eq_true] at hany
    obtain ⟨e, he, hee⟩ := hany
    exact absurd hee (hf e he)
  | some e =>
    have hmem := List.mem_of_find?_eq_some hf
    have heq := List.find?_some hf
    simp at heq
    obtain ⟨post, hp⟩ := hok e hmem
    simp only
    rw [hp, heq, takeWhile_name fn post (h _ hk)]

end Pk.Index
