/-
  The sorted by-first-packet-source lookup table and the search over it
  (helper lemmas for C01 `lookup_by_first_packet_exact`).
-/
import Pk.Proofs.IndexFormatFullOrder
namespace Pk.Index
open Pk Pk.Bytes

/-- resolved (file name, packet index) of a sort key -/
def SrcKey.canon (k : SrcKey) : Bytes × Nat := (k.file, (k.off + k.idx) % 2 ^ 64)

/-- the writer's comparison (by import id first) is the comparison of the resolved keys -/
theorem lessSrc_canon (a b : SrcKey) (ha : a.off + a.idx < 2 ^ 64) (hb : b.off + b.idx < 2 ^ 64)
    (hsame : a.imp = b.imp → a.file = b.file ∧ a.off = b.off) : lessSrc a b = lexLt a.canon b.canon := by
  unfold lessSrc lexLt SrcKey.canon
  by_cases himp : a.imp = b.imp
  · obtain ⟨hf, ho⟩ := hsame himp
    simp only [himp, if_true, hf, ne_eq, not_true_eq_false, if_false]
    rw [Nat.mod_eq_of_lt ha, Nat.mod_eq_of_lt hb, ho]
    apply decide_eq_decide.mpr; omega
  · simp only [himp, if_false]

theorem mem_zip_range {κ : Type} (keys : List κ) (x : Nat × κ) (hx : x ∈ (List.range keys.length).zip keys) :
    keys[x.1]? = some x.2 := by
  obtain ⟨i, hi, rfl⟩ := List.mem_iff_getElem.mp hx
  simp at hi
  simp [List.getElem_zip]

theorem sortedIndexes_facts {κ : Type} (keys : List κ) (less : κ → κ → Bool) (c : κ → Bytes × Nat)
    (hless : ∀ a ∈ keys, ∀ b ∈ keys, less a b = lexLt (c a) (c b)) (d : κ) :
    (∀ j ∈ sortedIndexes keys less, j < keys.length) ∧ (∀ j, j < keys.length → j ∈ sortedIndexes keys less) ∧
    ((sortedIndexes keys less).map (fun j => c (keys.getD j d))).Pairwise (fun a b => lexLe a b = true) := by
  unfold sortedIndexes
  have hperm := List.mergeSort_perm ((List.range keys.length).zip keys) (fun a b => !(less b.2 a.2))
  have hfst : ((List.range keys.length).zip keys).map (·.1) = List.range keys.length :=
    List.map_fst_zip (by simp)
  have hp2 : (List.map (·.1) (((List.range keys.length).zip keys).mergeSort (fun a b => !(less b.2 a.2)))).Perm
      (List.range keys.length) := by
    have := hperm.map (·.1)
    rw [hfst] at this; exact this
  refine ⟨fun j hj => by simpa using (hp2.mem_iff.mp hj), fun j hj => hp2.mem_iff.mpr (by simpa using hj), ?_⟩
  -- sortedness through the map to the resolved keys
  have hmem : ∀ x ∈ (List.range keys.length).zip keys, x.2 ∈ keys := fun x hx => (List.of_mem_zip hx).2
  have hmap := List.map_mergeSort (r := fun (a b : Nat × κ) => !(less b.2 a.2))
    (s := fun (a b : Nat × (Bytes × Nat)) => lexLe a.2 b.2) (f := fun (x : Nat × κ) => (x.1, c x.2))
    (l := (List.range keys.length).zip keys)
    (by
      intro a ha b hb
      simp only [lexLe]
      rw [hless b.2 (hmem b hb) a.2 (hmem a ha)])
  have hsorted := List.pairwise_mergeSort (le := fun (a b : Nat × (Bytes × Nat)) => lexLe a.2 b.2)
    (fun a b c h1 h2 => lexLe_trans _ _ _ h1 h2) (fun a b => lexLe_total _ _)
    (((List.range keys.length).zip keys).map (fun (x : Nat × κ) => (x.1, c x.2)))
  rw [← hmap, List.pairwise_map] at hsorted
  rw [List.map_map, List.pairwise_map]
  refine hsorted.imp_of_mem ?_
  intro a b ha hb hab
  have ha' := mem_zip_range keys a (hperm.mem_iff.mp ha)
  have hb' := mem_zip_range keys b (hperm.mem_iff.mp hb)
  simp only [Function.comp, List.getD_eq_getElem?_getD, ha', hb', Option.getD_some]
  exact hab

/-- the search of `StreamByFirstPacketSource` over a sorted lookup table: it lands on an entry with the
    target key, or no entry has that key -/
theorem search_sorted (CK : List (Bytes × Nat)) (lk : List Nat) (d : Bytes × Nat) (target : Bytes × Nat) (n : Nat)
    (hlen : lk.length = n) (hA : ∀ j ∈ lk, j < n) (hB : ∀ j, j < n → j ∈ lk)
    (hC : (lk.map (fun j => CK.getD j d)).Pairwise (fun a b => lexLe a b = true)) :
    (sortSearch (fun i => lexLe target (CK.getD (lk.getD i 0) d)) 0 n < n ∧
      lk.getD (sortSearch (fun i => lexLe target (CK.getD (lk.getD i 0) d)) 0 n) 0 < n ∧
      CK.getD (lk.getD (sortSearch (fun i => lexLe target (CK.getD (lk.getD i 0) d)) 0 n) 0) d = target) ∨
    ((n ≤ sortSearch (fun i => lexLe target (CK.getD (lk.getD i 0) d)) 0 n ∨
      CK.getD (lk.getD (sortSearch (fun i => lexLe target (CK.getD (lk.getD i 0) d)) 0 n) 0) d ≠ target) ∧
      ∀ j, j < n → CK.getD j d ≠ target) := by
  have hCi : ∀ i j, i ≤ j → j < n → lexLe (CK.getD (lk.getD i 0) d) (CK.getD (lk.getD j 0) d) = true := by
    intro i j hij hj
    rcases Nat.lt_or_ge i j with hlt | hge
    · have := (List.pairwise_iff_getElem.mp hC) i j (by simp; omega) (by simp; omega) hlt
      simpa [List.getD_eq_getElem?_getD, List.getElem?_eq_getElem (show i < lk.length by omega),
        List.getElem?_eq_getElem (show j < lk.length by omega)] using this
    · have : i = j := by omega
      subst this; exact lexLe_refl _
  obtain ⟨hk, hlo, hhi⟩ := sortSearch_threshold (fun i => lexLe target (CK.getD (lk.getD i 0) d)) n
    (fun i j hij hj hi => lexLe_trans _ _ _ hi (hCi i j hij hj))
  generalize sortSearch (fun i => lexLe target (CK.getD (lk.getD i 0) d)) 0 n = k at hk hlo hhi ⊢
  by_cases hgood : k < n ∧ CK.getD (lk.getD k 0) d = target
  · left
    refine ⟨hgood.1, ?_, hgood.2⟩
    apply hA
    rw [List.getD_eq_getElem?_getD, List.getElem?_eq_getElem (show k < lk.length by omega)]
    simp
  · right
    refine ⟨by
      by_cases hkn : k < n
      · exact Or.inr (fun h => hgood ⟨hkn, h⟩)
      · exact Or.inl (by omega), ?_⟩
    intro j hj heq
    obtain ⟨i, hi, hij⟩ := List.mem_iff_getElem.mp (hB j hj)
    have hi' : i < n := by omega
    have hget : lk.getD i 0 = j := by
      rw [List.getD_eq_getElem?_getD, List.getElem?_eq_getElem hi]; simp [hij]
    have hpi : lexLe target (CK.getD (lk.getD i 0) d) = true := by rw [hget, heq]; exact lexLe_refl _
    have hki : k ≤ i := by
      rcases Nat.lt_or_ge i k with h | h
      · have := hlo i h; rw [hpi] at this; cases this
      · exact h
    have hkn : k < n := by omega
    have h1 := hhi k (Nat.le_refl _) hkn
    have h2 := hCi k i hki hi'
    rw [hget, heq] at h2
    exact hgood ⟨hkn, lexLe_antisymm _ _ h2 h1⟩

end Pk.Index
