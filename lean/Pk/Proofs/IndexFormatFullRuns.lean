/-
  Second loop of `Stream.Data`: the segmentation varints cut the two content blocks back into the
  runs that were written (helper lemmas for C01 `roundtrip_payload`).
-/
import Pk.Model.IndexFormat
import Pk.Proofs.Bytes
import Pk.Proofs.IndexFormatFullWalk
namespace Pk.Index
open Pk Pk.Bytes

/-! ### merged runs -/

/-- put a non-empty run in front of a merged run list -/
def cm (x : Nat × Nat) : List (Nat × Nat) → List (Nat × Nat)
  | (d', n') :: rs => if x.1 = d' then (x.1, x.2 + n') :: rs else x :: (d', n') :: rs
  | [] => [x]

/-- (direction, length) runs with neighbours of one direction merged and empties dropped
    (`mergedRuns` of Props/C01.lean) -/
def mRuns : List (Nat × Nat) → List (Nat × Nat)
  | [] => []
  | (d, n) :: rest => if n = 0 then mRuns rest else cm (d, n) (mRuns rest)

theorem cm_cm (d a b : Nat) (X : List (Nat × Nat)) : cm (d, a) (cm (d, b) X) = cm (d, a + b) X := by
  cases X with
  | nil => simp [cm]
  | cons y ys =>
    obtain ⟨d', n'⟩ := y
    simp only [cm]
    by_cases h : d = d'
    · simp [h]; omega
    · simp [h]

/-- a block of pieces of one direction counts as one run -/
theorem mRuns_block (d : Nat) (X : List (Nat × Nat)) (cs : List (Nat × Nat)) : ∀ (n : Nat), (∀ c ∈ cs, c.1 = d) →
    (cs.map (·.2)).sum = n → mRuns (cs ++ X) = mRuns ((d, n) :: X) := by
  induction cs with
  | nil => intro n _ h; simp at h; subst h; simp [mRuns]
  | cons c t ih =>
    intro n hd hsum
    obtain ⟨d', k⟩ := c
    have hd' : d' = d := hd (d', k) (by simp)
    subst hd'
    simp only [List.map_cons, List.sum_cons] at hsum
    have iht := ih (n - k) (fun c hc => hd c (by simp [hc])) (by omega)
    simp only [List.cons_append, mRuns]
    by_cases hk : k = 0
    · subst hk
      simp only [if_true, iht]
      simp only [mRuns]
      have : n - 0 = n := by omega
      rw [this]
    · simp only [hk, if_false, iht]
      simp only [mRuns]
      by_cases hnk : n - k = 0
      · have : n = k := by omega
        subst this
        simp [hnk, hk]
      · have hn : ¬ (n = 0) := by omega
        simp only [hnk, hn, if_false, cm_cm]
        congr 2; omega

theorem mRuns_cons_congr (x : Nat × Nat) (X Y : List (Nat × Nat)) (h : mRuns X = mRuns Y) : mRuns (x :: X) = mRuns (x :: Y) := by
  obtain ⟨d, n⟩ := x
  simp only [mRuns, h]

theorem mRuns_segRuns (l : List (Nat × Nat)) : mRuns (segRuns l) = mRuns l := by
  induction l with
  | nil => rfl
  | cons x rest ih =>
    obtain ⟨d, n⟩ := x
    simp only [segRuns]
    cases hs : segRuns rest with
    | nil =>
      rw [hs] at ih
      simp only [mRuns] at ih ⊢
      rw [← ih]
    | cons y rs =>
      obtain ⟨d', n'⟩ := y
      rw [hs] at ih
      simp only
      by_cases hdd : d = d'
      · subst hdd
        simp only [if_true]
        have : mRuns ((d, n) :: rest) = mRuns ((d, n) :: (d, n') :: rs) := mRuns_cons_congr _ _ _ ih.symm
        rw [this]
        have h2 := mRuns_block d rs [(d, n), (d, n')] (n + n') (by simp) (by simp)
        simpa using h2.symm
      · simp only [hdd, if_false]
        exact mRuns_cons_congr _ _ _ ih

/-- total length of the runs of direction `d` -/
def runSum (d : Nat) (R : List (Nat × Nat)) : Nat := (R.map fun x => if x.1 = d then x.2 else 0).sum

theorem mRuns_zero (R : List (Nat × Nat)) (hd : ∀ x ∈ R, x.1 < 2) (h0 : runSum 0 R = 0) (h1 : runSum 1 R = 0) : mRuns R = [] := by
  induction R with
  | nil => rfl
  | cons x rs ih =>
    obtain ⟨d, n⟩ := x
    simp only [runSum, List.map_cons, List.sum_cons] at h0 h1
    have hd' : d < 2 := hd (d, n) (by simp)
    have hn : n = 0 := by
      by_cases h : d = 0
      · simp [h] at h0; omega
      · have : d = 1 := by omega
        simp [this] at h1; omega
    subst hn
    simp only [mRuns, if_true]
    exact ih (fun x hx => hd x (by simp [hx])) (by simp [runSum]; omega) (by simp [runSum]; omega)

/-! ### `consume` -/

theorem consume_ok (dir : Nat) (pt : List (Int × Nat)) : ∀ (sz : Nat) (content : Bytes), 0 < sz → sz ≤ content.length →
    sz ≤ ptSum pt → PtPos pt →
    ∃ cs pt', consume dir sz content pt = .ok (cs, content.drop sz, pt') ∧
      (cs.map (·.content)).flatten = content.take sz ∧ (∀ c ∈ cs, c.dir = dir) ∧
      ptSum pt' + sz = ptSum pt ∧ PtPos pt' := by
  induction pt with
  | nil => intro sz content h0 _ h2 _; simp [ptSum] at h2; omega
  | cons e rest ih =>
    intro sz content h0 h1 h2 hpos
    obtain ⟨ts, psz⟩ := e
    have hpsz : psz ≠ 0 := hpos (ts, psz) (by simp)
    have hrest : PtPos rest := fun e he => hpos e (by simp [he])
    rw [ptSum_cons] at h2
    simp only at h2
    unfold consume
    by_cases hgt : sz > psz
    · simp only [hgt, if_true]
      have hc : ¬ (psz > content.length) := by omega
      simp only [hc, if_false]
      have hne : ¬ (sz - psz = 0) := by omega
      simp only [hne, if_false]
      obtain ⟨cs, pt', hcons, hflat, hdir, hsum, hpp⟩ := ih (sz - psz) (content.drop psz) (by omega) (by simp; omega) (by omega) hrest
      rw [hcons]
      refine ⟨({ dir, content := content.take psz, ts } : DataOut) :: cs, pt', ?_, ?_, ?_, ?_, hpp⟩
      · simp only [List.drop_drop]
        have : psz + (sz - psz) = sz := by omega
        rw [this]
      · simp only [List.map_cons, List.flatten_cons, hflat]
        have : sz = psz + (sz - psz) := by omega
        conv => rhs; rw [this, List.take_add]
      · intro c hc
        simp at hc
        rcases hc with rfl | hc
        · rfl
        · exact hdir c hc
      · rw [ptSum_cons]; simp only; omega
    · simp only [hgt, if_false]
      have hc : ¬ (sz > content.length) := by omega
      simp only [hc, if_false, Nat.sub_self, if_true]
      refine ⟨_, _, rfl, by simp, by simp, ?_, ?_⟩
      · split
        · rw [ptSum_cons]; simp only; omega
        · rw [ptSum_cons, ptSum_cons]; simp only; omega
      · split
        · exact hrest
        · rename_i hne
          intro e he
          simp at he
          rcases he with rfl | he
          · exact hne
          · exact hrest e he

/-! ### `dataRuns` -/

def dirFlat (d : Nat) (ds : List DataOut) : Bytes := ((ds.filter (·.dir == d)).map (·.content)).flatten
def outRuns (ds : List DataOut) : List (Nat × Nat) := ds.map fun d => (d.dir, d.content.length)

theorem dirFlat_append (d : Nat) (a b : List DataOut) : dirFlat d (a ++ b) = dirFlat d a ++ dirFlat d b := by
  simp [dirFlat]

theorem dirFlat_same (d : Nat) (cs : List DataOut) (h : ∀ c ∈ cs, c.dir = d) : dirFlat d cs = (cs.map (·.content)).flatten := by
  unfold dirFlat
  rw [List.filter_eq_self.mpr (fun c hc => by simp [h c hc])]

theorem dirFlat_other (d d' : Nat) (cs : List DataOut) (h : ∀ c ∈ cs, c.dir = d) (hne : d ≠ d') : dirFlat d' cs = [] := by
  unfold dirFlat
  rw [List.filter_eq_nil_iff.mpr (fun c hc => by simp [h c hc, hne])]
  rfl

theorem outRuns_sum (cs : List DataOut) : ((outRuns cs).map (·.2)).sum = ((cs.map (·.content)).flatten).length := by
  induction cs with
  | nil => rfl
  | cons c t ih => simp [outRuns] at ih ⊢; omega

theorem encVarint_zero : encVarint 0 = [0] := by
  unfold encVarint
  rw [encVarintAux]
  simp

theorem encVarint_pos (n : Nat) (h : n < 2 ^ 64) : 0 < (encVarint n).length := by
  cases he : encVarint n with
  | nil =>
    have := varint_roundtrip n h []
    rw [he] at this
    simp [decVarint, decVarintAux] at this
  | cons a t => simp

theorem dataRuns_succ (fuel dir : Nat) (c0 c1 seg : Bytes) (pt0 pt1 : List (Int × Nat)) :
    dataRuns (fuel + 1) dir c0 c1 seg pt0 pt1 =
      if c0.length = 0 ∧ c1.length = 0 then .ok [] else
      match decVarint seg with
      | none => .error .err
      | some (sz, seg') =>
        if sz = 0 then dataRuns fuel (1 - dir) c0 c1 seg' pt0 pt1 else
        match consume dir sz (if dir = 0 then c0 else c1) (if dir = 0 then pt0 else pt1) with
        | .error e => .error e
        | .ok (cs, c, pt) =>
          match (if dir = 0 then dataRuns fuel 1 c c1 seg' pt pt1 else dataRuns fuel 0 c0 c seg' pt0 pt) with
          | .error e => .error e
          | .ok more => .ok (cs ++ more) := by
  rw [dataRuns]
  rfl

theorem runSum_cons (d : Nat) (x : Nat × Nat) (R : List (Nat × Nat)) :
    runSum d (x :: R) = (if x.1 = d then x.2 else 0) + runSum d R := by
  simp [runSum]

/-- the segmentation written for the runs `R` makes the reader cut the two content blocks into pieces that
    concatenate, per direction, to the blocks and whose direction changes are those of `R` -/
theorem dataRuns_ok (tail : Bytes) (R : List (Nat × Nat)) : ∀ (want : Nat) (c0 c1 : Bytes) (pt0 pt1 : List (Int × Nat)) (fuel : Nat),
    (∀ x ∈ R, x.1 < 2 ∧ x.2 < 2 ^ 64) → want < 2 → c0.length = runSum 0 R → c1.length = runSum 1 R →
    c0.length ≤ ptSum pt0 → c1.length ≤ ptSum pt1 → PtPos pt0 → PtPos pt1 →
    (segBytes want R ++ tail).length < fuel →
    ∃ ds, dataRuns fuel want c0 c1 (segBytes want R ++ tail) pt0 pt1 = .ok ds ∧ dirFlat 0 ds = c0 ∧ dirFlat 1 ds = c1 ∧
      mRuns (outRuns ds) = mRuns R := by
  induction R with
  | nil =>
    intro want c0 c1 pt0 pt1 fuel _ _ h0 h1 _ _ _ _ hf
    cases fuel with
    | zero => omega
    | succ f =>
      simp only [runSum, List.map_nil, List.sum_nil] at h0 h1
      rw [dataRuns_succ, if_pos ⟨h0, h1⟩]
      exact ⟨[], rfl, (List.length_eq_zero_iff.mp h0).symm, (List.length_eq_zero_iff.mp h1).symm, rfl⟩
  | cons x rs ih =>
    intro want c0 c1 pt0 pt1 fuel hR hwant h0 h1 hp0 hp1 hq0 hq1 hf
    obtain ⟨d, n⟩ := x
    obtain ⟨hd, hn64⟩ := hR (d, n) (by simp)
    simp only at hd hn64
    have hRs : ∀ x ∈ rs, x.1 < 2 ∧ x.2 < 2 ^ 64 := fun x hx => hR x (by simp [hx])
    by_cases hemp : c0.length = 0 ∧ c1.length = 0
    · cases fuel with
      | zero => omega
      | succ f =>
        rw [dataRuns_succ, if_pos hemp]
        refine ⟨[], rfl, (List.length_eq_zero_iff.mp hemp.1).symm, (List.length_eq_zero_iff.mp hemp.2).symm, ?_⟩
        rw [mRuns_zero _ (fun x hx => (hR x hx).1) (by omega) (by omega)]
        rfl
    · -- the run itself, read in its own direction
      have hA : ∀ f, (encVarint n ++ (segBytes (1 - d) rs ++ tail)).length < f →
          ∃ ds, dataRuns f d c0 c1 (encVarint n ++ (segBytes (1 - d) rs ++ tail)) pt0 pt1 = .ok ds ∧
            dirFlat 0 ds = c0 ∧ dirFlat 1 ds = c1 ∧ mRuns (outRuns ds) = mRuns ((d, n) :: rs) := by
        intro f hf
        cases f with
        | zero => omega
        | succ f =>
          have hvl := encVarint_pos n hn64
          simp only [List.length_append] at hf
          rw [dataRuns_succ, if_neg hemp, varint_roundtrip n hn64]
          simp only
          rw [runSum_cons] at h0 h1
          simp only at h0 h1
          by_cases hn : n = 0
          · subst hn
            simp only [if_true]
            obtain ⟨ds, hds, e0, e1, em⟩ := ih (1 - d) c0 c1 pt0 pt1 f hRs (by omega) (by split at h0 <;> omega)
              (by split at h1 <;> omega) hp0 hp1 hq0 hq1 (by simp only [List.length_append]; omega)
            exact ⟨ds, hds, e0, e1, by rw [em]; simp [mRuns]⟩
          · simp only [hn, if_false]
            have hd01 : d = 0 ∨ d = 1 := by omega
            rcases hd01 with rfl | rfl
            · simp only [if_true, Nat.sub_zero] at h0 h1 hf ⊢
              have h1' : c1.length = runSum 1 rs := by simpa using h1
              obtain ⟨cs, pt', hcons, hflat, hdir, hsum, hpp⟩ := consume_ok 0 pt0 n c0 (by omega) (by omega) (by omega) hq0
              rw [hcons]
              simp only
              obtain ⟨more, hm, e0, e1, em⟩ := ih 1 (c0.drop n) c1 pt' pt1 f hRs (by omega) (by simp; omega) h1'
                (by simp; omega) hp1 hpp hq1 (by simp only [List.length_append] at hf ⊢; omega)
              rw [hm]
              refine ⟨cs ++ more, rfl, ?_, ?_, ?_⟩
              · rw [dirFlat_append, dirFlat_same 0 cs hdir, hflat, e0, List.take_append_drop]
              · rw [dirFlat_append, dirFlat_other 0 1 cs hdir (by omega), e1]; rfl
              · have hb := mRuns_block 0 (outRuns more) (outRuns cs) n
                  (by intro c hc; simp only [outRuns, List.mem_map] at hc; obtain ⟨x, hx, rfl⟩ := hc; exact hdir x hx)
                  (by rw [outRuns_sum, hflat]; simp; omega)
                have : outRuns (cs ++ more) = outRuns cs ++ outRuns more := by simp [outRuns]
                rw [this, hb]
                exact mRuns_cons_congr _ _ _ em
            · have hz : ¬ ((1 : Nat) = 0) := by omega
              simp only [hz, if_false, if_true, Nat.sub_self] at h0 h1 hf ⊢
              have h0' : c0.length = runSum 0 rs := by simpa using h0
              obtain ⟨cs, pt', hcons, hflat, hdir, hsum, hpp⟩ := consume_ok 1 pt1 n c1 (by omega) (by omega) (by omega) hq1
              rw [hcons]
              simp only
              obtain ⟨more, hm, e0, e1, em⟩ := ih 0 c0 (c1.drop n) pt0 pt' f hRs (by omega) h0' (by simp; omega)
                hp0 (by simp; omega) hq0 hpp (by simp only [List.length_append] at hf ⊢; omega)
              rw [hm]
              refine ⟨cs ++ more, rfl, ?_, ?_, ?_⟩
              · rw [dirFlat_append, dirFlat_other 1 0 cs hdir (by omega), e0]; rfl
              · rw [dirFlat_append, dirFlat_same 1 cs hdir, hflat, e1, List.take_append_drop]
              · have hb := mRuns_block 1 (outRuns more) (outRuns cs) n
                  (by intro c hc; simp only [outRuns, List.mem_map] at hc; obtain ⟨x, hx, rfl⟩ := hc; exact hdir x hx)
                  (by rw [outRuns_sum, hflat]; simp; omega)
                have : outRuns (cs ++ more) = outRuns cs ++ outRuns more := by simp [outRuns]
                rw [this, hb]
                exact mRuns_cons_congr _ _ _ em
      by_cases hdw : d = want
      · subst hdw
        have hseg : segBytes d ((d, n) :: rs) ++ tail = encVarint n ++ (segBytes (1 - d) rs ++ tail) := by
          simp [segBytes]
        rw [hseg] at hf ⊢
        exact hA fuel hf
      · have hseg : segBytes want ((d, n) :: rs) ++ tail = encVarint 0 ++ (encVarint n ++ (segBytes (1 - d) rs ++ tail)) := by
          simp [segBytes, hdw, encVarint_zero]
        rw [hseg] at hf ⊢
        cases fuel with
        | zero => omega
        | succ f =>
          rw [dataRuns_succ, if_neg hemp, varint_roundtrip 0 (by omega)]
          simp only [if_true]
          have : 1 - want = d := by omega
          rw [this]
          apply hA f
          rw [encVarint_zero] at hf
          simp only [List.length_append, List.length_cons, List.length_nil] at hf ⊢
          omega

end Pk.Index
