/- Helper lemmas for C02 (search engine).  Property theorems are in Pk/Props/C02.lean. -/
import Pk.Proofs.SearchOrder
import Pk.Proofs.SearchSpec
import Pk.Proofs.SearchAcc
