/-
  Helper lemmas for Pk/Props/C05Reasm.lean, target (4): the handshake, and the invariant of the
  data phase of a single conversation.
-/
import Pk.Proofs.ImportReasmConv2

namespace Pk.Proofs.ImportReasm
open Pk.Import

/-- the SYN of the conversation: client → server, SYN without ACK/FIN/RST, no payload -/
def IsSyn (e : Endpoints) (p : Pkt) : Prop :=
  isC2S e p ∧ p.syn = true ∧ p.ack = false ∧ p.fin = false ∧ p.rst = false ∧ p.payload = []
/-- the SYN/ACK of the conversation: server → client, SYN and ACK without FIN/RST, no payload -/
def IsSynAck (e : Endpoints) (p : Pkt) : Prop :=
  isS2C e p ∧ p.syn = true ∧ p.ack = true ∧ p.fin = false ∧ p.rst = false ∧ p.payload = []

instance (e : Endpoints) (p : Pkt) : Decidable (IsSyn e p) := by unfold IsSyn; infer_instance
instance (e : Endpoints) (p : Pkt) : Decidable (IsSynAck e p) := by unfold IsSynAck; infer_instance

/-- stream and connection after SYN, SYN/ACK -/
def hsStream (e : Endpoints) (p0 p1 : Pkt) : Stream :=
  { caddr := e.cip, saddr := e.sip, cport := e.cport, sport := e.sport, udp := false,
    pktsRev := [(p1.ref, true), (p0.ref, false)], npkts := 2, dataRev := [], complete := false,
    fsm := { state := .established, dir := false } }

def hsConn (e : Endpoints) (p0 p1 : Pkt) : TcpConn :=
  { k := assemblerIndex p0, src := e.cip, dst := e.sip, sport := e.cport, dport := e.sport,
    c2s := { nextSeq := some (seqAdd p0.seq 1), closed := false, lastSeen := p0.ts, queue := [] },
    s2c := { nextSeq := some (seqAdd p1.seq 1), closed := false, lastSeen := max p0.ts p1.ts, queue := [] },
    stream := 0 }

/-- stream and connection after the SYN -/
def synStream (e : Endpoints) (p0 : Pkt) : Stream :=
  { caddr := e.cip, saddr := e.sip, cport := e.cport, sport := e.sport, udp := false,
    pktsRev := [(p0.ref, false)], npkts := 1, fsm := { state := .synSent, dir := false } }

def synConn (e : Endpoints) (p0 : Pkt) : TcpConn :=
  { k := assemblerIndex p0, src := e.cip, dst := e.sip, sport := e.cport, dport := e.sport,
    c2s := { nextSeq := some (seqAdd p0.seq 1), lastSeen := p0.ts },
    s2c := { lastSeen := p0.ts }, stream := 0 }

theorem seqAdd_idem (s k : Nat) : seqAdd (seqAdd s k) 0 = seqAdd s k := by
  unfold seqAdd; omega

theorem handshake_state (e : Endpoints) (hd : e.Distinct) (p0 p1 : Pkt) (h0 : IsSyn e p0) (h1 : IsSynAck e p1)
    (ht : ¬ (p0.ts + timeout < p1.ts)) :
    ∃ u, [p0, p1].foldl reasmPacket {} =
      { streams := #[hsStream e p0 p1], tcp := [hsConn e p0 p1], udp := [], unmodelled := u } := by
  obtain ⟨⟨a0, a1, a2, a3, a4⟩, b1, b2, b3, b4, b5⟩ := h0
  obtain ⟨⟨c0, c1, c2, c3, c4⟩, d1, d2, d3, d4, d5⟩ := h1
  -- first packet
  have step0 : reasmPacket {} p0 =
      { streams := #[synStream e p0], tcp := [synConn e p0], udp := [], unmodelled := false } := by
    simp [reasmPacket, a0, tcpPacket, tcpFlush, tcpFind, a1, a2, a3, a4, Stream.addPkt, Fsm.check, b1, b2, b3, b4, b5,
      assembleHalf, overlapExisting, seqDiff_self, checkOverlap, overlapWalk, sendToConnection, addContiguous,
      seqAdd_idem, synStream, synConn]
  have hconn : ConnOf e (synConn e p0) := ⟨rfl, rfl, rfl, rfl, rfl⟩
  refine ⟨false || decide (p1.payload.length > 1900), ?_⟩
  rw [List.foldl_cons, List.foldl_cons, List.foldl_nil, step0]
  unfold reasmPacket
  rw [if_neg (by simp [c0])]
  unfold tcpPacket
  simp only [tcpFlush_single (assemblerIndex p1) p1.ts (synConn e p0) (synStream e p0) false rfl (by intro pg hm; cases hm)
    (by intro pg hm; cases hm) ht, tcpFind_s2c e _ p1 hconn hd ⟨c0, c1, c2, c3, c4⟩]
  have hmax : max p0.ts p1.ts = if p0.ts < p1.ts then p1.ts else p0.ts := by split <;> omega
  by_cases hlt : p0.ts < p1.ts
  · simp [Stream.addPkt, Fsm.check, d1, d2, d3, d4, d5, hlt, hmax,
      assembleHalf, overlapExisting, seqDiff_self, checkOverlap, overlapWalk, sendToConnection, addContiguous,
      seqAdd_idem, hsStream, hsConn, synStream, synConn]
  · simp [Stream.addPkt, Fsm.check, d1, d2, d3, d4, d5, hlt, hmax,
      assembleHalf, overlapExisting, seqDiff_self, checkOverlap, overlapWalk, sendToConnection, addContiguous,
      seqAdd_idem, hsStream, hsConn, synStream, synConn]

end Pk.Proofs.ImportReasm
