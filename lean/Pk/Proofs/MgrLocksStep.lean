/-
  Per-event lemmas for C13: every case of `step` preserves the generalised lock invariant
  (`CInv`, Pk/Proofs/MgrLocks.lean).
-/
import Pk.Proofs.MgrLocks

namespace Pk.Proofs.MgrLocks
open Pk.Mgr

theorem proj_markUpdate (s : St) (name : String) (a d : List Nat) :
    proj (markUpdate s name a d).1 = proj s := by
  unfold markUpdate
  split
  · rfl
  · simp only []
    split <;> simp only [proj_setTag, proj_inherit, proj_invalidatedDuringTaggingJob] <;>
    · split
      · rfl
      · split <;> (apply proj_foldl; intro _ _; rfl)

/-! ## job starts -/

theorem CInv_startTagging {p : List Nat} {s : St} (c : Option String) (h : CInv p s) :
    CInv p (startTagging s c) := by
  unfold startTagging
  split
  · exact h
  · next ht =>
    have ht' : (proj s).tag = false := by simpa [proj] using ht
    split
    · exact h
    · simp only []
      split
      · split
        · exact h
        · exact CInvK.start_tag 0 h ht'
      · exact CInvK.start_tag 0 h ht'

theorem CInv_startMerge {p : List Nat} {s : St} (h : CInv p s) : CInv p (startMerge s) := by
  unfold startMerge
  split
  · exact h
  · next hm =>
    have hm' : (proj s).merge = false := by
      simp only [Bool.or_eq_true, not_or, Bool.not_eq_true] at hm
      exact hm.1.1.1
    split
    · exact h
    · split
      · exact h
      · next i _ => exact CInvK.start_merge i h hm'

theorem CInv_startImport {p : List Nat} {s : St} (h : CInv p s) (hj : s.jImport = none)
    (hq : s.queue.isEmpty = false) : CInv p (startImport s) := by
  have hj' : (proj s).jI = none := by simp [proj, hj]
  exact CInvK.start_import 0 h hj' hq


theorem CInv_conv_core {p : List Nat} (s1 s3 : St) (r : List (String × IdSet)) (h : CInv p s1)
    (hc : s1.convert = false) (e : proj s3 = proj (getIndexesCopy s1 0).1) :
    CInv p { s3 with convert := true, jConv := some (r, s1.idx.drop 0) } := by
  have := CInvK.start_conv 0 h hc
  unfold CInv
  show CInvK p { proj s3 with convert := true, jC := some (s1.idx.drop 0) }
  rw [e]
  exact this

theorem CInv_startConverter {p : List Nat} {s : St} (h : CInv p s) : CInv p (startConverter s) := by
  unfold startConverter
  split
  · exact h
  · next hc =>
    simp only []
    split
    · exact h
    · generalize (List.filterMap _ s.convs) = active
      unfold getIndexesCopy
      simp only []
      have e1 : ∀ (f : St → (String × IdSet) → St), (∀ s x, proj (f s x) = proj s) →
          proj (List.foldl f s active) = proj s := fun f hf => proj_foldl f hf _ _
      apply CInv_conv_core
      · refine CInv_frame ?_ h
        apply proj_foldl; intro _ _; rfl
      · have hc2 : (proj s).convert = false := by simpa [proj] using hc
        rw [← hc2]
        refine congrArg LK.convert (e1 _ ?_)
        intro _ _; rfl
      · apply proj_foldl; intro _ _; rfl

/-! ## the events -/

theorem jImport_none_of_proj {s : St} (h : (proj s).jI = none) : s.jImport = none := by
  simpa [proj] using h

theorem CInv_importPcaps {s : St} (names : List String) (st : Started) (h : CInv [] s) :
    CInv [] (step s (.importPcaps names) st).1 := by
  simp only [step]
  split
  · exact h
  · next hn =>
    have hne : (s.queue ++ names).isEmpty = false := by
      cases names
      · simp at hn
      · simp
    have hq : CInv [] { s with queue := s.queue ++ names } := by
      unfold CInv
      show CInvK [] { proj s with qE := (s.queue ++ names).isEmpty }
      rw [hne]; exact h.queue_nonempty
    split
    · next hl =>
      have hqe : s.queue = [] := by
        simp only [List.length_append, beq_iff_eq] at hl
        exact List.eq_nil_of_length_eq_zero (by omega)
      have : (proj s).jI = none := h.2.2.2.2.1 (by simp [proj, hqe])
      exact CInv_startImport hq (jImport_none_of_proj this) hne
    · exact hq

/-- the "files were created" block of the import completion -/
def importMid (cr : List (Nat × List Nat)) (upd rst add : IdSet) (next' : Nat) (s : St) : St :=
  if cr.isEmpty then s else
    let ords := cr.map (·.1)
    let s := { s with idx := s.idx ++ ords,
                      files := cr.foldl (fun fs (o, ids) => nins o ids fs) s.files,
                      nrec := s.nrec + (cr.map (·.2.length)).sum,
                      next := next',
                      used := lock s.used ords,
                      upd := union s.upd upd, rst := union s.rst rst, add := union s.add add }
    let s := invalidateTags s upd rst add
    invalidateConverters (invalidateConverters s upd) rst

/-- the tail of the import completion: shorten the queue, start the follow-up jobs -/
def importTail (st : Started) (pr : Nat) (s : St) : St :=
  let s := { s with queue := s.queue.drop pr }
  let s := if s.queue.isEmpty then s else startImport s
  startMerge (startConverter (startTagging s st.tag))

theorem step_importDone_eq (s : St) (pr un : Nat) (cr : List (Nat × List Nat)) (u r a : List Nat)
    (st : Started) :
    (step s (.importDone pr un cr u r a) st).1 =
      match s.jImport with
      | none => s
      | some (jn, held) =>
        importTail st pr (importMid cr (ofList u) (ofList r) (ofList a) (jn + un)
          (release { s with all := jn + un, jImport := none } held)) := by
  rcases hj : s.jImport with _ | ⟨jn, held⟩
  · simp only [step, hj]
  · simp only [step, hj]; rfl

theorem CInv_importMid {p : List Nat} {s : St} (cr : List (Nat × List Nat)) (u r a : IdSet) (n : Nat)
    (h : CInv p s) : CInv p (importMid cr u r a n s) := by
  unfold importMid
  split
  · exact h
  · simp only []
    unfold CInv
    simp only [proj_invalidateConverters, proj_invalidateTags]
    exact CInvK.add_files cr h

theorem jImport_importMid {s : St} (cr : List (Nat × List Nat)) (u r a : IdSet) (n : Nat) :
    (proj (importMid cr u r a n s)).jI = (proj s).jI := by
  unfold importMid
  split
  · rfl
  · simp only [proj_invalidateConverters, proj_invalidateTags]; rfl

theorem CInv_importTail {s : St} (st : Started) (pr : Nat)
    (h : CInv [] s) (hj : (proj s).jI = none) : CInv [] (importTail st pr s) := by
  unfold importTail
  simp only []
  apply CInv_startMerge; apply CInv_startConverter; apply CInv_startTagging
  have hq : CInv [] { s with queue := s.queue.drop pr } := CInvK.set_queue _ h hj
  split
  · exact hq
  · next hne =>
    refine CInv_startImport hq (jImport_none_of_proj hj) ?_
    simpa using hne

theorem CInv_importDone {s : St} (pr un : Nat) (cr : List (Nat × List Nat)) (u r a : List Nat) (st : Started) (h : CInv [] s) :
    CInv [] (step s (.importDone pr un cr u r a) st).1 := by
  rw [step_importDone_eq]
  split
  · exact h
  · next jn held hj =>
    have h1 : CInv (held ++ []) { s with all := jn + un, jImport := none } :=
      CInvK.done_import h (by simp [proj, hj])
    have h2 := CInv_release h1
    apply CInv_importTail
    · exact CInv_importMid _ _ _ _ _ h2
    · rw [jImport_importMid, proj_release]; rfl

/-- the "result is stored" block of the tagging completion -/
def tagMid (name : String) (snap : Tag) (newMatches : IdSet) (s : St) : St :=
  match sget s.tags name with
  | some ot =>
    if ot.defn == snap.defn && ot.gen == snap.gen then  -- CHANGED (gen)
      let t : Tag := { snap with mat := newMatches, unc := [], color := ot.color, convs := ot.convs, refBy := ot.refBy }
      let s := t.convs.foldl (fun (s : St) c => { s with toconv := sins c (union ((sget s.toconv c).getD []) t.mat) s.toconv }) s
      let s := setTag s name t
      if s.upd.isEmpty && s.rst.isEmpty && s.add.isEmpty then s
      else invalidateTags s s.upd s.rst s.add
    else s
  | none => s

theorem step_tagDone_eq (s : St) (name : String) (res : List Nat) (st : Started) :
    (step s (.tagDone name res) st).1 =
      match s.jTag with
      | none => s
      | some (jn, snap, held) =>
        if jn != name then { s with badChoice := true } else
        release (startMerge (startConverter (startTagging
          { tagMid name snap (union (diff snap.mat snap.unc) (ofList res)) { s with jTag := none } with tag := false }
          st.tag))) held := by
  rcases hj : s.jTag with _ | ⟨jn, snap, held⟩
  · simp only [step, hj]
  · simp only [step, hj]
    split <;> rfl

theorem proj_tagMid (name : String) (snap : Tag) (nm : IdSet) (s : St) :
    proj (tagMid name snap nm s) = proj s := by
  unfold tagMid
  split
  · split
    · simp only []
      split
      · rw [proj_setTag]; apply proj_foldl; intro _ _; rfl
      · rw [proj_invalidateTags, proj_setTag]; apply proj_foldl; intro _ _; rfl
    · rfl
  · rfl

theorem CInv_tagDone {s : St} (name : String) (res : List Nat) (st : Started) (h : CInv [] s) :
    CInv [] (step s (.tagDone name res) st).1 := by
  rw [step_tagDone_eq]
  split
  · exact h
  · next jn snap held hj =>
    split
    · exact h
    · apply CInv_release
      apply CInv_startMerge; apply CInv_startConverter; apply CInv_startTagging
      have h1 : CInv (held ++ []) { s with jTag := none } := CInvK.done_tag h (by simp [proj, hj])
      have h2 := CInv_frame (proj_tagMid name snap (union (diff snap.mat snap.unc) (ofList res)) _) h1
      refine CInvK.clear_tag h2 ?_
      rw [proj_tagMid]; rfl

theorem count_splice (l : List Nat) (off n f : Nat) :
    l.count f = (l.take off).count f + ((l.drop off).take n).count f + (l.drop (off + n)).count f := by
  have h1 : l = l.take off ++ l.drop off := (List.take_append_drop off l).symm
  have h2 : l.drop off = (l.drop off).take n ++ (l.drop off).drop n := (List.take_append_drop n _).symm
  have h3 : (l.drop off).drop n = l.drop (off + n) := by rw [List.drop_drop]
  conv => lhs; rw [h1, h2, h3]
  simp only [List.count_append]; omega

/-- a merge replaces a run of the service list by the merged files -/
theorem CInv_merge_replace {p : List Nat} {s : St} (off n : Nat) (merged : List (Nat × List Nat))
    (h : CInv p s) :
    CInvK p { proj (release s ((s.idx.drop off).take n)) with
      used := lock (release s ((s.idx.drop off).take n)).used (merged.map (·.1)),
      files := merged.foldl (fun fs (x : Nat × List Nat) => nins x.1 x.2 fs) (release s ((s.idx.drop off).take n)).files,
      idx := s.idx.take off ++ merged.map (·.1) ++ s.idx.drop (off + n) } := by
  obtain ⟨h1, h2, h3, hw⟩ := h
  rw [proj_release]
  refine ⟨?_, lock_ne_zero _ _ (release_ne_zero s _ h2), ?_, hw⟩
  · intro f
    have := h1 f
    have hs := count_splice s.idx off n f
    simp only [LK.holders, LK.held, proj, List.count_append] at this ⊢
    simp only [lock_getD, release_getD]
    omega
  · intro f
    simp only [nget_insFiles_isSome, lock_isSome, release_sync s _ h3]

/-- the "merged files are installed" block of the merge completion -/
def mergeMid (off : Nat) (held : List Nat) (merged : List (Nat × List Nat)) (s : St) : St :=
  if merged.isEmpty then { s with unm := s.unm + 1 }
  else
    let old := (s.idx.drop off).take held.length
    let s := release s old
    let ords := merged.map (·.1)
    let before := (old.map (step.fileCountOf s.files held)).sum
    { s with used := lock s.used ords,
             files := merged.foldl (fun fs (o, ids) => nins o ids fs) s.files,
             idx := s.idx.take off ++ ords ++ s.idx.drop (off + held.length),
             unm := s.unm + (merged.length - 1),
             nrec := s.nrec + (merged.map (·.2.length)).sum - before }

theorem step_mergeDone_eq (s : St) (merged : List (Nat × List Nat)) (st : Started) :
    (step s (.mergeDone merged) st).1 =
      match s.jMerge with
      | none => s
      | some (off, held) =>
        release (startMerge { mergeMid off held merged { s with jMerge := none } with merge := false }) held := by
  rcases hj : s.jMerge with _ | ⟨off, held⟩
  · simp only [step, hj]
  · simp only [step, hj]
    unfold mergeMid
    split <;> rfl

theorem idx_release (s : St) (fs : List Nat) : (release s fs).idx = s.idx :=
  congrArg LK.idx (proj_release s fs)

theorem CInv_mergeMid {p : List Nat} {s : St} (off : Nat) (held : List Nat) (merged : List (Nat × List Nat))
    (h : CInv p s) : CInv p (mergeMid off held merged s) := by
  unfold mergeMid
  split
  · exact h
  · simp only [idx_release]
    exact CInv_merge_replace off held.length merged h

theorem jM_mergeMid {s : St} (off : Nat) (held : List Nat) (merged : List (Nat × List Nat)) :
    (proj (mergeMid off held merged s)).jM = (proj s).jM := by
  unfold mergeMid
  split
  · rfl
  · show (proj (release s ((s.idx.drop off).take held.length))).jM = (proj s).jM
    rw [proj_release]

theorem CInv_mergeDone {s : St} (merged : List (Nat × List Nat)) (st : Started) (h : CInv [] s) :
    CInv [] (step s (.mergeDone merged) st).1 := by
  rw [step_mergeDone_eq]
  split
  · exact h
  · next off held hj =>
    apply CInv_release
    apply CInv_startMerge
    have h1 : CInv (held ++ []) { s with jMerge := none } := CInvK.done_merge h (by simp [proj, hj])
    refine CInvK.clear_merge (CInv_mergeMid off held merged h1) ?_
    rw [jM_mergeMid]; rfl

/-- the "converted streams invalidate data tags" block of the converter completion -/
def convMid (sets : List (String × IdSet)) (s : St) : St :=
  sets.foldl (fun s (c, ids) =>
    if !s.convs.contains c then s
    else
      let tags := s.tags.map fun (n, t) =>
        -- CHANGED (conv)
        if t.sfeat &&& fData != 0 then (n, if ids.isEmpty then t else { t with unc := rangeSet s.all })
        else if t.mfeat &&& fData == 0 then (n, t)
        else (n, { t with unc := union t.unc ids })
      { s with tags := tags, upd := union s.upd ids }) s

theorem step_convertDone_eq (s : St) (st : Started) :
    (step s .convertDone st).1 =
      match s.jConv with
      | none => s
      | some (sets, held) =>
        release (startConverter (startTagging
          (inherit (convMid sets { s with convert := false, jConv := none })) st.tag)) held := by
  rcases hj : s.jConv with _ | ⟨sets, held⟩
  · simp only [step, hj]
  · simp only [step, hj]; rfl

theorem proj_convMid (sets : List (String × IdSet)) (s : St) : proj (convMid sets s) = proj s := by
  unfold convMid
  apply proj_foldl
  intro s x
  obtain ⟨c, ids⟩ := x
  simp only []
  split <;> rfl

theorem CInv_convertDone {s : St} (st : Started) (h : CInv [] s) :
    CInv [] (step s .convertDone st).1 := by
  rw [step_convertDone_eq]
  split
  · exact h
  · next sets held hj =>
    apply CInv_release
    apply CInv_startConverter; apply CInv_startTagging
    have h1 : CInv (held ++ []) { s with jConv := none } := CInvK.done_conv h (by simp [proj, hj])
    have h2 : CInv (held ++ []) { s with convert := false, jConv := none } := CInvK.clear_conv h1 rfl
    exact CInv_frame (by rw [proj_inherit, proj_convMid]) h2

theorem CInv_viewOpen {s : St} (k : Nat) (st : Started) (h : CInv [] s) :
    CInv [] (step s (.viewOpen k) st).1 := by
  simp only [step]
  split
  · exact h
  · next hc =>
    have hv : nget (proj s).views k = none := by
      simp only [Bool.or_eq_true, not_or] at hc
      have := hc.1
      cases hh : nget s.views k
      · exact hh
      · simp [hh] at this
    exact CInvK.open_view 0 k h hv

theorem CInv_viewRelease {s : St} (k : Nat) (st : Started) (h : CInv [] s) :
    CInv [] (step s (.viewRelease k) st).1 := by
  simp only [step]
  split
  · exact h
  · next fs hv =>
    apply CInv_release
    exact CInvK.close_view h hv

theorem CInv_iff_K (p : List Nat) (s : St) : CInv p s ↔ CInvK p (proj s) := Iff.rfl

theorem proj_withTags (s : St) (t : List (String × Tag)) : proj { s with tags := t } = proj s := rfl

/-- strip all helpers that do not touch the lock-relevant part of the state -/
macro "cinv_frame" : tactic =>
  `(tactic| (
             simp only [CInv_iff_K, proj_foldl, proj_inherit, proj_invalidateTags,
      proj_invalidatedDuringTaggingJob, proj_invalidateConverters, proj_setTag, proj_addRefBy,
      proj_delRefBy, proj_attachConv, proj_markUpdate, proj_withTags, implies_true]
             try simp only [← CInv_iff_K]))

theorem CInv_addTag {s : St} (name color defn : String) (f : Facts) (st : Started) (h : CInv [] s) :
    CInv [] (step s (.addTag name color defn f) st).1 := by
  simp only [step]
  repeat' split
  all_goals first | exact h | skip
  · cinv_frame
    exact h
  · cinv_frame
    exact CInv_startTagging _ (by cinv_frame; exact h)


theorem CInv_updQuery {s : St} (name defn : String) (f : Facts) (st : Started) (h : CInv [] s) :
    CInv [] (step s (.updQuery name defn f) st).1 := by
  simp only [step]
  repeat' split
  all_goals first | exact h | skip
  apply CInv_startConverter; apply CInv_startTagging
  cinv_frame
  exact h

theorem CInv_updColor {s : St} (name color : String) (st : Started) (h : CInv [] s) :
    CInv [] (step s (.updColor name color) st).1 := by
  simp only [step]
  repeat' split
  all_goals first | exact h | skip

theorem CInv_updName {s : St} (name new : String) (st : Started) (h : CInv [] s) :
    CInv [] (step s (.updName name new) st).1 := by
  simp only [step]
  repeat' split
  all_goals first | exact h | skip
  cinv_frame
  exact h

/-- a detach may start a tagging job (`outputDropped`): the new locks are held by `jTag` -/
theorem CInv_detachConv {p : List Nat} {s : St} (n c : String) (choice : Option String) (h : CInv p s) :
    CInv p (detachConv s n c choice) := by
  obtain ⟨s0, e, h' | h'⟩ := proj_detachConv s n c choice
  · rw [h']; exact CInv_frame e h
  · rw [h']; exact CInv_startTagging _ (CInv_frame e h)

theorem CInv_foldl {β} {p : List Nat} (f : St → β → St) (hf : ∀ s x, CInv p s → CInv p (f s x))
    (l : List β) (s : St) (h : CInv p s) : CInv p (l.foldl f s) := by
  induction l generalizing s with
  | nil => exact h
  | cons a l ih => rw [List.foldl_cons]; exact ih _ (hf s a h)

theorem CInv_updConv {s : St} (name : String) (convs : List String) (st : Started) (h : CInv [] s) :
    CInv [] (step s (.updConv name convs) st).1 := by
  simp only [step]
  repeat' split
  all_goals first | exact h | skip
  apply CInv_startConverter
  cinv_frame
  exact CInv_foldl _ (fun s c hs => CInv_detachConv name c st.tag hs) _ _ h

theorem CInv_markAdd {s : St} (name : String) (ids : List Nat) (st : Started) (h : CInv [] s) :
    CInv [] (step s (.markAdd name ids) st).1 := by
  simp only [step]
  repeat' split
  all_goals first | exact h | skip
  apply CInv_startConverter; apply CInv_startTagging
  cinv_frame
  exact h

theorem CInv_markDel {s : St} (name : String) (ids : List Nat) (st : Started) (h : CInv [] s) :
    CInv [] (step s (.markDel name ids) st).1 := by
  simp only [step]
  repeat' split
  all_goals first | exact h | skip
  apply CInv_startConverter; apply CInv_startTagging
  cinv_frame
  exact h

theorem CInv_delTag {s : St} (name : String) (st : Started) (h : CInv [] s) :
    CInv [] (step s (.delTag name) st).1 := by
  simp only [step]
  repeat' split
  all_goals first | exact h | skip
  cinv_frame
  exact CInv_foldl _ (fun s c hs => CInv_detachConv name c st.tag hs) _ _ h


/-- every transition preserves the invariant -/
theorem CInv_step (s : St) (e : Ev) (st : Started) (h : CInv [] s) : CInv [] (step s e st).1 := by
  cases e with
  | nop => exact h
  | importPcaps names => exact CInv_importPcaps names st h
  | importDone pr un cr u r a => exact CInv_importDone pr un cr u r a st h
  | tagDone name res => exact CInv_tagDone name res st h
  | mergeDone merged => exact CInv_mergeDone merged st h
  | convertDone => exact CInv_convertDone st h
  | addTag name color defn f => exact CInv_addTag name color defn f st h
  | updQuery name defn f => exact CInv_updQuery name defn f st h
  | updColor name color => exact CInv_updColor name color st h
  | updName name new => exact CInv_updName name new st h
  | updConv name convs => exact CInv_updConv name convs st h
  | markAdd name ids => exact CInv_markAdd name ids st h
  | markDel name ids => exact CInv_markDel name ids st h
  | delTag name => exact CInv_delTag name st h
  | viewOpen k => exact CInv_viewOpen k st h
  | viewRelease k => exact CInv_viewRelease k st h

end Pk.Proofs.MgrLocks
