/-
  `AddIndex` keeps what the writer holds and adds what is new (helper lemmas for C07).
-/
import Pk.Proofs.MergeStreams
namespace Pk.Index
open Pk Pk.Bytes
theorem shiftRec_static (d : Nat) (s : StreamRec) : SameStatic s (shiftRec d s) := by
  simp [SameStatic, shiftRec]

theorem shift_keeps (w w' : Writer) (d : Nat) (s : StreamRec) (hd : mul64 (sub64 w.ref w'.ref) 1000000000 = d) :
  (shiftRec d s).pstart = s.pstart ∧ (shiftRec d s).dataStart = s.dataStart ∧
      (shiftRec d s).hg = s.hg ∧ (shiftRec d s).ch = s.ch ∧ (shiftRec d s).sh = s.sh ∧
      abs64 w'.ref (shiftRec d s).first = abs64 w.ref s.first ∧ abs64 w'.ref (shiftRec d s).last = abs64 w.ref s.last := by
    have e1 : (shiftRec d s).first = add64 s.first d := rfl
    have e2 : (shiftRec d s).last = add64 s.last d := rfl
    rw [e1, e2]
    refine ⟨rfl, rfl, rfl, rfl, rfl, ?_, ?_⟩
    · rw [← hd]; exact rebase_abs_nat w.ref w'.ref s.first
    · rw [← hd]; exact rebase_abs_nat w.ref w'.ref s.last

theorem addIndex_preserves_old (w w' : Writer) (r : Reader) (ok : Bool) (h : w.addIndex r = .ok (w', ok))
    (j : Nat) (s : StreamRec) (hs : w.streams[j]? = some s) :
    ∃ s', w'.streams[j]? = some s' ∧ SameStatic s s' ∧ s'.pstart = s.pstart ∧ s'.dataStart = s.dataStart ∧
      s'.hg = s.hg ∧ s'.ch = s.ch ∧ s'.sh = s.sh ∧
      abs64 w'.ref s'.first = abs64 w.ref s.first ∧ abs64 w'.ref s'.last = abs64 w.ref s.last := by
  obtain ⟨new, _, hcase⟩ := addIndex_spec w w' r ok h
  rcases hcase with ⟨_, hst, href⟩ | ⟨_, hst⟩
  · exact ⟨s, by rw [hst]; exact hs, SameStatic.rfl' s, rfl, rfl, rfl, rfl, rfl, by rw [href], by rw [href]⟩
  · generalize hd : mul64 (sub64 w.ref w'.ref) 1000000000 = d at hst
    refine ⟨shiftRec d s, ?_, shiftRec_static d s, ?_⟩
    · rw [hst]
      have hj : j < w.streams.length := by
        rcases Nat.lt_or_ge j w.streams.length with h | h
        · exact h
        · simp [List.getElem?_eq_none h] at hs
      rw [List.getElem?_append_left (by simpa using hj)]
      simp [hs]
    · exact shift_keeps w w' d s hd


theorem shift_new (rref wref : Nat) (d : Nat) (n s : StreamRec) (hd : mul64 (sub64 rref wref) 1000000000 = d)
    (hf : n.first = s.first) (hl : n.last = s.last) :
    abs64 wref (shiftRec d n).first = abs64 rref s.first ∧ abs64 wref (shiftRec d n).last = abs64 rref s.last := by
  have e1 : (shiftRec d n).first = add64 n.first d := rfl
  have e2 : (shiftRec d n).last = add64 n.last d := rfl
  rw [e1, e2, hf, hl, ← hd]
  exact ⟨rebase_abs_nat rref wref s.first, rebase_abs_nat rref wref s.last⟩

theorem All₂.mem_left {α β : Type} {R : α → β → Prop} {as : List α} {bs : List β} (h : All₂ R as bs) {a : α} (ha : a ∈ as) :
    ∃ b ∈ bs, R a b := by
  induction h with
  | nil => simp at ha
  | cons hr _ ih =>
    simp at ha
    rcases ha with rfl | ha
    · exact ⟨_, by simp, hr⟩
    · obtain ⟨b, hb, hrb⟩ := ih ha
      exact ⟨b, by simp [hb], hrb⟩

theorem SameStatic.trans {a b c : StreamRec} (h1 : SameStatic a b) (h2 : SameStatic b c) : SameStatic a c := by
  obtain ⟨a1, a2, a3, a4, a5, a6⟩ := h1
  obtain ⟨b1, b2, b3, b4, b5, b6⟩ := h2
  exact ⟨a1.trans b1, a2.trans b2, a3.trans b3, a4.trans b4, a5.trans b5, a6.trans b6⟩

/-- `addIndex_adds_new`: a stream of the added index whose id the writer does not hold yet is in the writer
    afterwards with its static fields and its absolute first/last time (mod 2^64). -/
theorem addIndex_adds_new (w w' : Writer) (r : Reader) (ok : Bool) (h : w.addIndex r = .ok (w', ok))
    (s : StreamRec) (hs : s ∈ r.f.streams) (hid : s.id ∉ w.streams.map (·.id)) :
    ∃ s' ∈ w'.streams, SameStatic s s' ∧
      abs64 w'.ref s'.first = abs64 r.f.ref s.first ∧ abs64 w'.ref s'.last = abs64 r.f.ref s.last := by
  obtain ⟨new, hall, hcase⟩ := addIndex_spec w w' r ok h
  have hmem : s ∈ r.f.streams.filter fun s => !(w.streams.map (·.id)).contains s.id := by
    simp only [List.mem_filter]
    exact ⟨hs, by simpa using hid⟩
  obtain ⟨n, hn, hstat, hf, hl⟩ := hall.mem_left hmem
  rcases hcase with ⟨hnil, _, _⟩ | ⟨_, hst⟩
  · rw [hnil] at hn; simp at hn
  · generalize hd : mul64 (sub64 r.f.ref w'.ref) 1000000000 = d at hst
    generalize mul64 (sub64 w.ref w'.ref) 1000000000 = d0 at hst
    refine ⟨shiftRec d n, ?_, ?_, shift_new r.f.ref w'.ref d n s hd hf hl⟩
    · rw [hst]
      exact List.mem_append_right _ (List.mem_map_of_mem hn)
    · exact SameStatic.trans hstat (shiftRec_static d n)

theorem map_shift_ids (d : Nat) (l : List StreamRec) : (l.map (shiftRec d)).map (·.id) = l.map (·.id) := by
  induction l with
  | nil => rfl
  | cons a t ih => simp only [List.map_cons, ih]; rfl

/-- the skip-if-present rule: the ids after `AddIndex` are the old ids followed by those ids of the added
    index that were not present -/
theorem addIndex_ids (w w' : Writer) (r : Reader) (ok : Bool) (h : w.addIndex r = .ok (w', ok)) :
    w'.streams.map (·.id) = w.streams.map (·.id) ++
      (r.f.streams.map (·.id)).filter (fun id => !(w.streams.map (·.id)).contains id) := by
  obtain ⟨new, hall, hcase⟩ := addIndex_spec w w' r ok h
  have hnew : ∀ (as bs : List StreamRec), All₂ Copied as bs → bs.map (·.id) = as.map (·.id) := by
    intro as bs hab
    induction hab with
    | nil => rfl
    | cons hr _ ih => simp [ih, hr.1.1]
  have hfilt : ∀ (l : List StreamRec) (p : Nat → Bool), (l.filter fun s => p s.id).map (·.id) = (l.map (·.id)).filter p := by
    intro l p; induction l with
    | nil => rfl
    | cons a t ih => simp only [List.filter_cons, List.map_cons]; split <;> simp [ih]
  have hn := hnew _ _ hall
  rw [hfilt r.f.streams (fun id => !(w.streams.map (·.id)).contains id)] at hn
  rcases hcase with ⟨hnil, hst, _⟩ | ⟨_, hst⟩
  · rw [hst, ← hn, hnil]; simp
  · generalize mul64 (sub64 r.f.ref w'.ref) 1000000000 = d at hst
    generalize mul64 (sub64 w.ref w'.ref) 1000000000 = d0 at hst
    rw [hst, ← hn, List.map_append, map_shift_ids, map_shift_ids]

end Pk.Index
