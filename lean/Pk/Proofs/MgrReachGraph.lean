/- Helper lemmas for Pk/Props/MgrReach.lean, part 2: the reference graph (`refBy` mirrors the
   references, references exist) and the parser facts (same text, same facts) through the helpers. -/
import Pk.Model.Manager
import Pk.Proofs.MgrTagsStep
import Pk.Proofs.MgrSettleFrame
import Pk.Proofs.MgrConvMat
namespace Pk.Proofs.MgrReach
open Pk.Mgr Pk.Proofs.MgrTags

/-! ## views of a tag -/
/-- what the reference graph looks at -/
def W (t : Tag) : List String × List String × List String := (t.mainT, t.subT, t.refBy)
/-- the parser facts the loop stores -/
def F2 (t : Tag) : List String × List String := (t.mainT, t.subT)

/-- the test `UpdateTag` uses for "this is a mark tag" -/
def isMarkName (n : String) : Bool := n.startsWith "mark/" || n.startsWith "generated/"
def Plain (t : Tag) : Prop := t.mainT = [] ∧ t.subT = []
def SameF (a b : Tag) : Prop := a.mainT = b.mainT ∧ a.subT = b.subT

theorem map_eq_some' {α β} {f : α → β} {o : Option α} {b : β} (h : o.map f = some b) : ∃ a, o = some a ∧ f a = b := by
  cases o with
  | none => cases h
  | some a => exact ⟨a, rfl, by simpa using h⟩

/-! ## the reference graph -/
/-- every reference of every tag exists and records the referrer -/
def G (L : List (String × Tag)) : Prop :=
  ∀ n t, sget L n = some t → ∀ r, r ∈ t.refs → ∃ tr, sget L r = some tr ∧ n ∈ tr.refBy

def WEq (L L' : List (String × Tag)) : Prop := ∀ n, (sget L' n).map W = (sget L n).map W

theorem WEq.refl (L : List (String × Tag)) : WEq L L := fun _ => rfl
theorem WEq.trans {A B C : List (String × Tag)} (h1 : WEq A B) (h2 : WEq B C) : WEq A C :=
  fun n => (h2 n).trans (h1 n)

theorem WEq.get {L L' : List (String × Tag)} (h : WEq L L') {n : String} {t' : Tag} (h' : sget L' n = some t') :
    ∃ t, sget L n = some t ∧ t.mainT = t'.mainT ∧ t.subT = t'.subT ∧ t.refBy = t'.refBy := by
  have := h n
  rw [h'] at this
  obtain ⟨t, ht, e⟩ := map_eq_some' this.symm
  simp only [W, Prod.mk.injEq] at e
  exact ⟨t, ht, e.1, e.2.1, e.2.2⟩

theorem WEq.get' {L L' : List (String × Tag)} (h : WEq L L') {n : String} {t : Tag} (h' : sget L n = some t) :
    ∃ t', sget L' n = some t' ∧ t'.mainT = t.mainT ∧ t'.subT = t.subT ∧ t'.refBy = t.refBy := by
  have := h n
  rw [h'] at this
  obtain ⟨t', ht, e⟩ := map_eq_some' this
  simp only [W, Prod.mk.injEq] at e
  exact ⟨t', ht, e.1, e.2.1, e.2.2⟩

theorem G_congr {L L' : List (String × Tag)} (h : WEq L L') (g : G L) : G L' := by
  intro n t' h' r hr
  obtain ⟨t, ht, e1, e2, _⟩ := h.get h'
  have hr' : r ∈ t.refs := by simp only [mem_refs, e1, e2]; simpa using hr
  obtain ⟨tr, htr, hn⟩ := g n t ht r hr'
  obtain ⟨tr', htr', _, _, e3⟩ := h.get' htr
  exact ⟨tr', htr', e3 ▸ hn⟩

/-! ## parser facts -/
structure FI (L : List (String × Tag)) (j : Option (String × Tag × List Nat)) : Prop where
  plain : ∀ n t, sget L n = some t → isMarkName n = true → Plain t
  tc : ∀ n1 t1 n2 t2, sget L n1 = some t1 → sget L n2 = some t2 → isMarkName n1 = false →
        isMarkName n2 = false → t1.defn = t2.defn → SameF t1 t2
  jplain : ∀ n snap held, j = some (n, snap, held) → isMarkName n = true → Plain snap
  jtc : ∀ n snap held, j = some (n, snap, held) → isMarkName n = false →
        ∀ m ot, sget L m = some ot → isMarkName m = false → ot.defn = snap.defn → SameF ot snap

/-- the facts of the tables agree, the texts agree on `P` -/
structure FEq (P : String → Prop) (L L' : List (String × Tag)) : Prop where
  fac : ∀ n, (sget L' n).map F2 = (sget L n).map F2
  defn : ∀ n, P n → (sget L' n).map (·.defn) = (sget L n).map (·.defn)

theorem FEq.refl (P) (L : List (String × Tag)) : FEq P L L := ⟨fun _ => rfl, fun _ _ => rfl⟩
theorem FEq.trans {P} {A B C : List (String × Tag)} (h1 : FEq P A B) (h2 : FEq P B C) : FEq P A C :=
  ⟨fun n => (h2.fac n).trans (h1.fac n), fun n hn => (h2.defn n hn).trans (h1.defn n hn)⟩
theorem FEq.mono {P P' : String → Prop} {A B : List (String × Tag)} (h : FEq P A B) (hp : ∀ n, P' n → P n) :
    FEq P' A B := ⟨h.fac, fun n hn => h.defn n (hp n hn)⟩

theorem FEq.get {P} {L L' : List (String × Tag)} (h : FEq P L L') {n : String} {t' : Tag} (h' : sget L' n = some t') :
    ∃ t, sget L n = some t ∧ t.mainT = t'.mainT ∧ t.subT = t'.subT ∧ (P n → t.defn = t'.defn) := by
  have := h.fac n
  rw [h'] at this
  obtain ⟨t, ht, e⟩ := map_eq_some' this.symm
  simp only [F2, Prod.mk.injEq] at e
  refine ⟨t, ht, e.1, e.2, fun hp => ?_⟩
  have := h.defn n hp
  rw [h', ht] at this
  simpa using this.symm

theorem FI_congr {P} {L L' : List (String × Tag)} {j} (h : FEq P L L') (hp : ∀ n, isMarkName n = false → P n)
    (f : FI L j) : FI L' j := by
  refine ⟨?_, ?_, f.jplain, ?_⟩
  · intro n t' h' hm
    obtain ⟨t, ht, e1, e2, _⟩ := h.get h'
    have := f.plain n t ht hm
    exact ⟨e1 ▸ this.1, e2 ▸ this.2⟩
  · intro n1 t1' n2 t2' h1 h2 m1 m2 hd
    obtain ⟨t1, ht1, a1, a2, a3⟩ := h.get h1
    obtain ⟨t2, ht2, b1, b2, b3⟩ := h.get h2
    have := f.tc n1 t1 n2 t2 ht1 ht2 m1 m2 (by rw [a3 (hp _ m1), b3 (hp _ m2)]; exact hd)
    exact ⟨by rw [← a1, ← b1]; exact this.1, by rw [← a2, ← b2]; exact this.2⟩
  · intro n snap held e hm m ot' h' hmm hd
    obtain ⟨ot, hot, a1, a2, a3⟩ := h.get h'
    have := f.jtc n snap held e hm m ot hot hmm (by rw [a3 (hp _ hmm)]; exact hd)
    exact ⟨by rw [← a1]; exact this.1, by rw [← a2]; exact this.2⟩

theorem FI.dropJob {L : List (String × Tag)} {j} (f : FI L j) : FI L none :=
  ⟨f.plain, f.tc, fun _ _ _ e => (nomatch e), fun _ _ _ e => (nomatch e)⟩

theorem FI.start {L : List (String × Tag)} {j} (f : FI L j) {n : String} {t : Tag} (ht : sget L n = some t)
    (fs : List Nat) : FI L (some (n, t, fs)) := by
  refine ⟨f.plain, f.tc, ?_, ?_⟩
  · intro n' snap held e hm
    cases e
    exact f.plain n t ht hm
  · intro n' snap held e hm m ot hot hmm hd
    cases e
    exact f.tc m ot n t hot ht hmm hm hd

/-- the published facts are those of the table entry with the same text -/
theorem FI.facts {L : List (String × Tag)} {n : String} {snap : Tag} {held : List Nat}
    (f : FI L (some (n, snap, held))) {ot : Tag} (hot : sget L n = some ot) (hd : ot.defn = snap.defn) :
    SameF ot snap := by
  cases hm : isMarkName n with
  | true =>
    have h1 := f.plain n ot hot hm
    have h2 := f.jplain n snap held rfl hm
    exact ⟨h1.1.trans h2.1.symm, h1.2.trans h2.2.symm⟩
  | false => exact f.jtc n snap held rfl hm n ot hot hm hd

/-! ## table relations of the helpers -/
/-- same graph view and same texts -/
def VEq (L L' : List (String × Tag)) : Prop :=
  WEq L L' ∧ ∀ n, (sget L' n).map (·.defn) = (sget L n).map (·.defn)

theorem VEq.refl (L : List (String × Tag)) : VEq L L := ⟨WEq.refl L, fun _ => rfl⟩
theorem VEq.trans {A B C : List (String × Tag)} (h1 : VEq A B) (h2 : VEq B C) : VEq A C :=
  ⟨h1.1.trans h2.1, fun n => (h2.2 n).trans (h1.2 n)⟩

theorem VEq_sins {L : List (String × Tag)} {n : String} {t t' : Tag} (h : sget L n = some t)
    (hw : W t' = W t) (hd : t'.defn = t.defn) : VEq L (sins n t' L) := by
  constructor
  · intro m
    rw [sget_sins]
    split
    · next e => subst e; rw [h]; simp [hw]
    · rfl
  · intro m
    rw [sget_sins]
    split
    · next e => subst e; rw [h]; simp [hd]
    · rfl

theorem VEq_map {L : List (String × Tag)} (f : String → Tag → Tag) (hw : ∀ k t, W (f k t) = W t)
    (hd : ∀ k t, (f k t).defn = t.defn) : VEq L (L.map fun p => (p.1, f p.1 p.2)) := by
  constructor
  · intro m
    rw [sget_map]
    cases sget L m <;> simp [hw]
  · intro m
    rw [sget_map]
    cases sget L m <;> simp [hd]

theorem WEq.fac {L L' : List (String × Tag)} (h : WEq L L') (n : String) :
    (sget L' n).map F2 = (sget L n).map F2 := by
  have e : ∀ o : Option Tag, o.map F2 = (o.map W).map (fun w => (w.1, w.2.1)) := by
    intro o; cases o <;> rfl
  rw [e, e, h n]

/-- a helper that keeps the graph view, the texts on `P`, the running job and the key order -/
structure SameV (P : String → Prop) (s s' : St) : Prop where
  w : WEq s.tags s'.tags
  defn : ∀ n, P n → (sget s'.tags n).map (·.defn) = (sget s.tags n).map (·.defn)
  job : s'.jTag = s.jTag
  sorted : Sorted s.tags → Sorted s'.tags

abbrev PT : String → Prop := fun _ => True

theorem SameV.refl (P) (s : St) : SameV P s s := ⟨WEq.refl _, fun _ _ => rfl, rfl, id⟩
theorem SameV.trans {P} {a b c : St} (h1 : SameV P a b) (h2 : SameV P b c) : SameV P a c :=
  ⟨h1.w.trans h2.w, fun n hn => (h2.defn n hn).trans (h1.defn n hn), h2.job.trans h1.job,
   fun h => h2.sorted (h1.sorted h)⟩
theorem SameV.mono {P P' : String → Prop} {a b : St} (h : SameV P a b) (hp : ∀ n, P' n → P n) : SameV P' a b :=
  ⟨h.w, fun n hn => h.defn n (hp n hn), h.job, h.sorted⟩
theorem SameV.of_eq {P} {s s' : St} (h1 : s'.tags = s.tags) (h2 : s'.jTag = s.jTag) : SameV P s s' :=
  ⟨h1 ▸ WEq.refl _, fun _ _ => by rw [h1], h2, fun h => h1 ▸ h⟩
theorem SameV.of_veq {P} {s s' : St} (h : VEq s.tags s'.tags) (h2 : s'.jTag = s.jTag)
    (h3 : Sorted s.tags → Sorted s'.tags) : SameV P s s' :=
  ⟨h.1, fun n _ => h.2 n, h2, h3⟩
theorem SameV.feq {P} {s s' : St} (h : SameV P s s') : FEq P s.tags s'.tags := ⟨h.w.fac, h.defn⟩

theorem SameV_foldl {P} {β} (f : St → β → St) (hf : ∀ s x, SameV P s (f s x)) (l : List β) (s : St) :
    SameV P s (l.foldl f s) :=
  foldl_inv (fun s' => SameV P s s') f (fun a b ha => ha.trans (hf a b)) l s (SameV.refl P s)

-- CHANGED (dropped): a detach may start a tagging job, so it no longer keeps `jTag`; `SameT` is `SameV`
-- without the job
/-- a helper that keeps the graph view, the texts on `P` and the key order (the running job may change) -/
structure SameT (P : String → Prop) (s s' : St) : Prop where
  w : WEq s.tags s'.tags
  defn : ∀ n, P n → (sget s'.tags n).map (·.defn) = (sget s.tags n).map (·.defn)
  sorted : Sorted s.tags → Sorted s'.tags

theorem SameT.refl (P) (s : St) : SameT P s s := ⟨WEq.refl _, fun _ _ => rfl, id⟩
theorem SameT.trans {P} {a b c : St} (h1 : SameT P a b) (h2 : SameT P b c) : SameT P a c :=
  ⟨h1.w.trans h2.w, fun n hn => (h2.defn n hn).trans (h1.defn n hn), fun h => h2.sorted (h1.sorted h)⟩
theorem SameV.t {P} {s s' : St} (h : SameV P s s') : SameT P s s' := ⟨h.w, h.defn, h.sorted⟩
theorem SameT.of_eq {P} {s s' : St} (h1 : s'.tags = s.tags) : SameT P s s' :=
  ⟨h1 ▸ WEq.refl _, fun _ _ => by rw [h1], fun h => h1 ▸ h⟩
theorem SameT_foldl {P} {β} (f : St → β → St) (hf : ∀ s x, SameT P s (f s x)) (l : List β) (s : St) :
    SameT P s (l.foldl f s) :=
  foldl_inv (fun s' => SameT P s s') f (fun a b ha => ha.trans (hf a b)) l s (SameT.refl P s)

/-- same facts view (texts on `P`), same job, key order kept; `refBy` may differ -/
structure SameFJ (P : String → Prop) (s s' : St) : Prop where
  f : FEq P s.tags s'.tags
  job : s'.jTag = s.jTag
  sorted : Sorted s.tags → Sorted s'.tags

theorem SameFJ.refl (P) (s : St) : SameFJ P s s := ⟨FEq.refl _ _, rfl, id⟩
theorem SameFJ.trans {P} {a b c : St} (h1 : SameFJ P a b) (h2 : SameFJ P b c) : SameFJ P a c :=
  ⟨h1.f.trans h2.f, h2.job.trans h1.job, fun h => h2.sorted (h1.sorted h)⟩
theorem SameV.fj {P} {s s' : St} (h : SameV P s s') : SameFJ P s s' := ⟨h.feq, h.job, h.sorted⟩
theorem SameFJ_foldl {P} {β} (f : St → β → St) (hf : ∀ s x, SameFJ P s (f s x)) (l : List β) (s : St) :
    SameFJ P s (l.foldl f s) :=
  foldl_inv (fun s' => SameFJ P s s') f (fun a b ha => ha.trans (hf a b)) l s (SameFJ.refl P s)

/-- the compositional part of the invariant: sorted keys and consistent facts -/
structure FJ (s : St) : Prop where
  sorted : Sorted s.tags
  fi : FI s.tags s.jTag

theorem FJ_of_same {P} {s s' : St} (h : SameFJ P s s') (hp : ∀ n, isMarkName n = false → P n) (f : FJ s) : FJ s' :=
  ⟨h.sorted f.sorted, h.job ▸ FI_congr h.f hp f.fi⟩

theorem FJ_of_sameT {s s' : St} (h : SameFJ PT s s') (f : FJ s) : FJ s' := FJ_of_same h (fun _ _ => trivial) f

section helpers
open Pk.Proofs.MgrSettle

theorem SameV_release {P} (s : St) (fs : List Nat) : SameV P s (release s fs) :=
  SameV.of_eq (release_tags _ _) (release_jTag _ _)
theorem SameV_startMerge {P} (s : St) : SameV P s (startMerge s) :=
  SameV.of_eq (startMerge_tags _) (startMerge_jTag _)
theorem SameV_startConverter {P} (s : St) : SameV P s (startConverter s) :=
  SameV.of_eq (startConverter_tags _) (startConverter_jTag _)
theorem SameV_startImport {P} (s : St) : SameV P s (startImport s) := SameV.of_eq rfl rfl
theorem SameV_invDuring {P} (s : St) (ids : IdSet) : SameV P s (invalidatedDuringTaggingJob s ids) :=
  SameV.of_eq (invalidatedDuringTaggingJob_tags _ _) (invalidatedDuringTaggingJob_jTag _ _)
theorem SameV_invalidateConverters {P} (s : St) (u : IdSet) : SameV P s (invalidateConverters s u) :=
  SameV.of_eq (invalidateConverters_tags _ _) (invalidateConverters_jTag _ _)

theorem W_inheritOne (all : Nat) (T : List (String × Tag)) (t : Tag) :
    W (inheritOne all T t) = W t ∧ (inheritOne all T t).defn = t.defn := by
  unfold inheritOne
  split
  · exact ⟨rfl, rfl⟩
  · split <;> exact ⟨rfl, rfl⟩

theorem passStep_veq (all : Nat) (T0 : List (String × Tag)) (acc) (nt : String × Tag)
    (h : VEq T0 acc.1) : VEq T0 (passStep all acc nt).1 := by
  unfold passStep
  split
  · exact h
  · split
    · exact h
    · next t ht =>
      split
      · exact h.trans (VEq_sins ht (W_inheritOne _ _ _).1 (W_inheritOne _ _ _).2)
      · exact h

theorem inherit_veq (s : St) : VEq s.tags (inherit s).tags := by
  obtain ⟨res, h, _⟩ := inheritLoop_inv s.all (fun acc => VEq s.tags acc.1)
    (passStep_veq s.all s.tags) (s.tags.length + 1) s.tags [] (VEq.refl _)
  exact h

theorem SameV_inherit {P} (s : St) : SameV P s (inherit s) :=
  SameV.of_veq (inherit_veq s) rfl (inherit_sorted s)

theorem W_invF (all : Nat) (u r a : IdSet) (t : Tag) : W (invF all u r a t) = W t ∧ (invF all u r a t).defn = t.defn := by
  unfold invF
  split
  · exact ⟨rfl, rfl⟩
  · split
    · split <;> exact ⟨rfl, rfl⟩
    · exact ⟨rfl, rfl⟩

theorem sorted_map {L : List (String × Tag)} (f : String → Tag → Tag) (h : Sorted L) :
    Sorted (L.map fun p => (p.1, f p.1 p.2)) := by
  apply sorted_of_keys_eq _ _ _ h
  simp [Function.comp_def]

theorem SameV_map {P} (s : St) (f : String → Tag → Tag) (hw : ∀ k t, W (f k t) = W t)
    (hd : ∀ k t, (f k t).defn = t.defn) (s' : St) (ht : s'.tags = s.tags.map fun p => (p.1, f p.1 p.2))
    (hj : s'.jTag = s.jTag) : SameV P s s' :=
  SameV.of_veq (ht ▸ VEq_map f hw hd) hj (fun h => ht ▸ sorted_map f h)

theorem SameV_invalidateTags {P} (s : St) (u r a : IdSet) : SameV P s (invalidateTags s u r a) := by
  rw [invalidateTags_eq]
  refine SameV.trans (b := { s with tags := s.tags.map fun p => (p.1, invF s.all u r a p.2) }) ?_ (SameV_inherit _)
  exact SameV_map s (fun _ t => invF s.all u r a t) (fun _ t => (W_invF _ _ _ _ t).1)
    (fun _ t => (W_invF _ _ _ _ t).2) _ rfl rfl

theorem SameV_setTag {P} {s : St} {n : String} {t t' : Tag} (h : sget s.tags n = some t)
    (hw : W t' = W t) (hd : t'.defn = t.defn) : SameV P s (setTag s n t') :=
  SameV.of_veq (VEq_sins h hw hd) rfl (sorted_sins _ _ _)

theorem SameV_attachConv {P} (s : St) (n c : String) : SameV P s (attachConv s n c).1 := by
  unfold attachConv
  split
  · exact SameV.refl _ _
  · next t ht =>
    split
    · exact SameV.refl _ _
    · split
      · exact SameV.refl _ _
      · exact (SameV_setTag (t' := { t with convs := t.convs ++ [c] }) ht rfl rfl).trans (SameV.of_eq rfl rfl)

-- CHANGED (dropped): the named piece `odF` of `outputDropped` keeps the graph view and the text
theorem W_odF (all : Nat) (t : Tag) : W (odF all t) = W t ∧ (odF all t).defn = t.defn := by
  unfold odF
  split <;> exact ⟨rfl, rfl⟩

-- CHANGED (dropped): `outputDropped` up to its final `startTagging` keeps the graph view and the job
theorem SameV_odPre {P} (s : St) : SameV P s (invalidatedDuringTaggingJob
    (inherit { s with tags := s.tags.map fun p => (p.1, odF s.all p.2) }) (rangeSet s.all)) := by
  refine SameV.trans (SameV.trans (b := { s with tags := s.tags.map fun p => (p.1, odF s.all p.2) }) ?_
    (SameV_inherit _)) (SameV_invDuring _ _)
  exact SameV_map s (fun _ t => odF s.all t) (fun _ t => (W_odF _ t).1) (fun _ t => (W_odF _ t).2) _ rfl rfl

-- CHANGED (dropped): `outputDropped` keeps `mainT/subT/refBy/defn` of every tag (it may start a job)
theorem SameT_outputDropped {P} (s : St) (choice : Option String) : SameT P s (outputDropped s choice) := by
  rw [outputDropped_eq]
  split
  · exact (SameV_odPre s).t.trans (SameT.of_eq (startTagging_tags _ _))
  · exact SameT.refl _ _

-- CHANGED (dropped): was `SameV P s (detachConv s n c)`; the detach may now start a tagging job
-- (`outputDropped`), so `jTag` is not kept: the table part (`SameT`) is what remains true
theorem SameT_detachConv {P} (s : St) (n c : String) (choice : Option String) :
    SameT P s (detachConv s n c choice) := by
  unfold detachConv
  split
  · exact SameT.refl _ _
  · next t ht =>
    have h := (SameV_setTag (P := P) (t' := { t with convs := t.convs.filter (· != c) }) ht rfl rfl).t
    simp only []
    split
    · refine SameT.trans ?_ (SameT_outputDropped _ _)
      exact h.trans (SameT.of_eq rfl)
    · exact h.trans (SameT.of_eq rfl)

theorem SameV_qConv {P} (s : St) (cs : List String) (ids : IdSet) : SameV P s (qConv s cs ids) := by
  unfold qConv
  apply SameV_foldl
  intro s c
  exact SameV.of_eq rfl rfl

-- CHANGED (conv): `cdF` takes `all`
theorem W_cdF (all : Nat) (ids : IdSet) (t : Tag) : W (cdF all ids t) = W t ∧ (cdF all ids t).defn = t.defn := by
  unfold cdF; split
  · split <;> exact ⟨rfl, rfl⟩
  · split <;> exact ⟨rfl, rfl⟩

theorem SameV_cdMark {P} (s : St) (p : String × IdSet) : SameV P s (cdMark s p) := by
  unfold cdMark
  split
  · exact SameV.refl _ _
  · exact SameV_map s (fun _ t => cdF s.all p.2 t) (fun _ t => (W_cdF _ _ t).1) (fun _ t => (W_cdF _ _ t).2) _ rfl rfl

/-- refBy edits keep the facts view -/
theorem FEq_sins {L : List (String × Tag)} {n : String} {t t' : Tag} (h : sget L n = some t)
    (hf : F2 t' = F2 t) (hd : t'.defn = t.defn) : FEq PT L (sins n t' L) := by
  constructor
  · intro m
    rw [sget_sins]
    split
    · next e => subst e; rw [h]; simp [hf]
    · rfl
  · intro m _
    rw [sget_sins]
    split
    · next e => subst e; rw [h]; simp [hd]
    · rfl

theorem SameFJ_addRefBy (s : St) (a b : String) : SameFJ PT s (addRefBy s a b) := by
  unfold addRefBy
  split
  · next t ht => exact ⟨FEq_sins ht rfl rfl, rfl, sorted_sins _ _ _⟩
  · exact SameFJ.refl _ _

theorem SameFJ_delRefBy (s : St) (a b : String) : SameFJ PT s (delRefBy s a b) := by
  unfold delRefBy
  split
  · next t ht => exact ⟨FEq_sins ht rfl rfl, rfl, sorted_sins _ _ _⟩
  · exact SameFJ.refl _ _

end helpers

/-! ## starting a tagging job -/
theorem FJ_startTagging (s : St) (choice : Option String) (f : FJ s) : FJ (startTagging s choice) := by
  rw [MgrConv.startTagging_eq]
  split
  · exact f
  · split
    · exact f
    · split
      · split
        · exact f
        · next n t hf =>
          have hm : (n, t) ∈ s.tags := List.mem_of_find?_eq_some hf
          have hs : sget s.tags n = some t := MgrConv.mem_sget_of_sorted _ f.sorted _ _ hm
          exact ⟨f.sorted, f.fi.start hs _⟩
      · next n t hp =>
        have hm : (n, t) ∈ s.tags := MgrConv.pickOf_mem s choice n t hp
        have hs : sget s.tags n = some t := MgrConv.mem_sget_of_sorted _ f.sorted _ _ hm
        exact ⟨f.sorted, f.fi.start hs _⟩

/-! ## the invariant and the events that do not edit the graph -/
structure GI (b : Prop) (s : St) : Prop where
  fj : FJ s
  g : b → G s.tags

variable {b : Prop}

theorem GI_of_sameV {P} {s s' : St} (h : SameV P s s') (hp : ∀ n, isMarkName n = false → P n) (i : GI b s) : GI b s' :=
  ⟨FJ_of_same h.fj hp i.fj, fun hb => G_congr h.w (i.g hb)⟩
theorem GI_of_sameT {s s' : St} (h : SameV PT s s') (i : GI b s) : GI b s' := GI_of_sameV h (fun _ _ => trivial) i
theorem GI_of_eq {s s' : St} (i : GI b s) (h1 : s'.tags = s.tags) (h2 : s'.jTag = s.jTag) : GI b s' :=
  GI_of_sameT (SameV.of_eq h1 h2) i

theorem GI_startTagging (s : St) (c : Option String) (i : GI b s) : GI b (startTagging s c) :=
  ⟨FJ_startTagging s c i.fj, by rw [MgrSettle.startTagging_tags]; exact i.g⟩

-- CHANGED (dropped): the job `outputDropped` may start snapshots a table entry, like every other `startTagging`
theorem GI_outputDropped (s : St) (c : Option String) (i : GI b s) : GI b (outputDropped s c) := by
  rw [outputDropped_eq]
  split
  · exact GI_startTagging _ _ (GI_of_sameT (SameV_odPre s) i)
  · exact i

-- CHANGED (dropped): the invariant through a detach (which may start a tagging job)
theorem GI_detachConv (s : St) (n c : String) (choice : Option String) (i : GI b s) :
    GI b (detachConv s n c choice) := by
  unfold detachConv
  split
  · exact i
  · next t ht =>
    have h := GI_of_sameT (SameV_setTag (t' := { t with convs := t.convs.filter (· != c) }) ht rfl rfl) i
    simp only []
    split
    · exact GI_outputDropped _ _ (GI_of_eq h rfl rfl)
    · exact GI_of_eq h rfl rfl

theorem GI_foldl {β} (f : St → β → St) (hf : ∀ s x, GI b s → GI b (f s x)) (l : List β) (s : St)
    (i : GI b s) : GI b (l.foldl f s) := by
  induction l generalizing s with
  | nil => exact i
  | cons a r ih => exact ih _ (hf s a i)

theorem GI_jobTail (s : St) (st : Started) (i : GI b s) : GI b (jobTail s st) :=
  GI_of_sameT (SameV_startMerge _) (GI_of_sameT (SameV_startConverter _) (GI_startTagging _ _ i))

theorem GI_dropJob (s : St) (i : GI b s) : GI b { s with jTag := none } :=
  ⟨⟨i.fj.sorted, i.fj.fi.dropJob⟩, i.g⟩

theorem gi_importPcaps (s : St) (names : List String) (st : Started) (i : GI b s) :
    GI b (step s (.importPcaps names) st).1 := by
  unfold step
  simp only []
  split
  · exact i
  · split
    · exact GI_of_eq i rfl rfl
    · exact GI_of_eq i rfl rfl

theorem gi_viewOpen (s : St) (k : Nat) (st : Started) (i : GI b s) : GI b (step s (.viewOpen k) st).1 := by
  unfold step
  simp only []
  split
  · exact i
  · exact GI_of_eq i rfl rfl

theorem gi_viewRelease (s : St) (k : Nat) (st : Started) (i : GI b s) : GI b (step s (.viewRelease k) st).1 := by
  unfold step
  simp only []
  split
  · exact i
  · exact GI_of_sameT (SameV_release _ _) (GI_of_eq (s' := { s with views := ndel s.views k }) i rfl rfl)

theorem gi_updColor (s : St) (name color : String) (st : Started) (i : GI b s) :
    GI b (step s (.updColor name color) st).1 := by
  unfold step
  simp only []
  split
  · exact i
  · next t ht =>
    split
    · exact i
    · exact GI_of_sameT (SameV_setTag (t' := { t with color := color }) ht rfl rfl) i

theorem mdApply_jTag (s : St) (off : Nat) (held : List Nat) (merged : List (Nat × List Nat)) :
    (mdApply s off held merged).jTag = s.jTag := by
  unfold mdApply
  split
  · rfl
  · exact MgrSettle.release_jTag _ _

theorem gi_mergeDone (s : St) (merged : List (Nat × List Nat)) (st : Started) (i : GI b s) :
    GI b (step s (.mergeDone merged) st).1 := by
  rw [step_mergeDone_eq]
  split
  · exact i
  · next off held _ =>
    refine GI_of_sameT (SameV_release _ _) (GI_of_sameT (SameV_startMerge _) ?_)
    refine GI_of_eq (s := mdApply { s with jMerge := none } off held merged) ?_ rfl rfl
    exact GI_of_eq (s := s) i (mdApply_same _ _ _ _).1 (mdApply_jTag _ _ _ _)

theorem gi_convertDone (s : St) (st : Started) (i : GI b s) : GI b (step s .convertDone st).1 := by
  rw [step_convertDone_eq]
  split
  · exact i
  · refine GI_of_sameT (SameV_release _ _) (GI_of_sameT (SameV_startConverter _) (GI_startTagging _ _ ?_))
    refine GI_of_sameT (SameV_inherit _) ?_
    refine GI_of_sameT (SameV_foldl _ (fun s p => SameV_cdMark s p) _ _) ?_
    exact GI_of_eq i rfl rfl

theorem gi_updConv (s : St) (name : String) (convs : List String) (st : Started) (i : GI b s) :
    GI b (step s (.updConv name convs) st).1 := by
  rw [step_updConv_eq]
  split
  · exact i
  · split
    · exact i
    · unfold ucAttach ucDetach
      refine GI_of_sameT (SameV_startConverter _) ?_
      refine GI_of_sameT (SameV_foldl _ (fun s c => SameV_attachConv s name c) _ _) ?_
      exact GI_foldl _ (fun s c hs => GI_detachConv s name c st.tag hs) _ _ i

theorem GI_idApply (s : St) (n : Nat) (created : List (Nat × List Nat)) (u r a : IdSet) (i : GI b s) :
    GI b (idApply s n created u r a) := by
  unfold idApply
  split
  · exact i
  · refine GI_of_sameT (SameV_invalidateConverters _ _) (GI_of_sameT (SameV_invalidateConverters _ _) ?_)
    refine GI_of_sameT (SameV_invalidateTags _ _ _ _) ?_
    exact GI_of_eq i rfl rfl

theorem gi_importDone (s : St) (processed usednew : Nat) (created : List (Nat × List Nat))
    (upd rst add : List Nat) (st : Started) (i : GI b s) :
    GI b (step s (.importDone processed usednew created upd rst add) st).1 := by
  rw [step_importDone_eq]
  split
  · exact i
  · next jnext held _ =>
    apply GI_jobTail
    have h1 : GI b (release { s with all := jnext + usednew, jImport := none } held) :=
      GI_of_sameT (SameV_release _ _) (GI_of_eq i rfl rfl)
    have h2 := GI_idApply _ (jnext + usednew) created (ofList upd) (ofList rst) (ofList add) h1
    unfold idQueue
    split
    · exact GI_of_eq h2 rfl rfl
    · exact GI_of_sameT (SameV_startImport _) (GI_of_eq h2 rfl rfl)

theorem gi_tagDone (s : St) (name : String) (result : List Nat) (st : Started) (i : GI b s) :
    GI b (step s (.tagDone name result) st).1 := by
  rw [step_tagDone_eq]
  split
  · exact i
  · next jn snap held hj =>
    split
    · exact GI_of_eq i rfl rfl
    · next hne =>
      have hjn : jn = name := by simpa using hne
      subst hjn
      refine GI_of_sameT (SameV_release _ _) (GI_jobTail _ _ ?_)
      refine GI_of_eq (s := tdPublish { s with jTag := none } jn snap (ofList result)) ?_ rfl rfl
      have i0 := GI_dropJob s i
      unfold tdPublish
      split
      · next ot hot =>
        split
        · next hd =>
          have hdg : ot.defn = snap.defn ∧ ot.gen = snap.gen := by simpa using hd
          have hd' : ot.defn = snap.defn := hdg.1
          have hfi : FI s.tags (some (jn, snap, held)) := hj ▸ i.fj.fi
          have hsf := hfi.facts (ot := ot) hot hd'
          have hW : W (tdTag snap ot (ofList result)) = W ot := by
            simp only [W, tdTag, hsf.1, hsf.2]
          have h1 : GI b (setTag (qConv { s with jTag := none } (tdTag snap ot (ofList result)).convs
              (tdTag snap ot (ofList result)).mat) jn (tdTag snap ot (ofList result))) := by
            refine GI_of_sameT (SameV.trans (SameV_qConv _ _ _) (SameV_setTag (t := ot) ?_ hW hd'.symm)) i0
            rw [(qConv_same _ _ _).1]; exact hot
          unfold tdInval
          split
          · exact h1
          · exact GI_of_sameT (SameV_invalidateTags _ _ _ _) h1
        · exact i0
      · exact i0

/-! ## mark updates: the text of one (mark) tag changes, its facts do not -/
theorem muAdd_W (t : Tag) (s : St) (a : List Nat) : W (muAdd t s a).1 = W t := by
  unfold muAdd
  split
  · rfl
  · simp only []
    split <;> rfl

theorem muDel_W (t : Tag) (d : List Nat) : W (muDel t d) = W t := by
  unfold muDel
  split
  · rfl
  · simp only []
    split <;> rfl

theorem muAdd_jTag (t : Tag) (s : St) (a : List Nat) : (muAdd t s a).2.jTag = s.jTag := by
  unfold muAdd
  split
  · rfl
  · simp only []
    have : ∀ (l : List String) (fresh : List Nat) (X : St), (l.foldl (fun (s : St) c =>
        { s with toconv := sins c (union ((sget s.toconv c).getD []) fresh) s.toconv }) X).jTag = X.jTag := by
      intro l fresh X
      induction l generalizing X with
      | nil => rfl
      | cons c l ih => simp only [List.foldl_cons]; rw [ih]
    split <;> exact this _ _ _

theorem SameV_setTag_ne {s : St} {n : String} {t t' : Tag} (h : sget s.tags n = some t)
    (hw : W t' = W t) : SameV (· ≠ n) s (setTag s n t') := by
  refine ⟨?_, ?_, rfl, sorted_sins _ _ _⟩
  · intro m
    simp only [setTag, sget_sins]
    split
    · next e => subst e; rw [h]; simp [hw]
    · rfl
  · intro m hm
    simp only [setTag, sget_sins]
    rw [if_neg (fun e => hm e.symm)]

theorem SameV_muFin {P} (s : St) (name : String) (u : IdSet) : SameV P s (muFin s name u) := by
  unfold muFin
  split
  · next t' ht' => exact SameV_setTag (t' := { t' with unc := u }) ht' rfl rfl
  · exact SameV.refl _ _

theorem SameV_markUpdate (s : St) (name : String) (a d : List Nat) :
    SameV (· ≠ name) s (markUpdate s name a d).1 := by
  rw [markUpdate_eq]
  split
  · exact SameV.refl _ _
  · next t ht =>
    have h1 : SameV (· ≠ name) s (muAdd t s a).2 := SameV.of_eq (muAdd_same t s a).1 (muAdd_jTag t s a)
    have ht' : sget (muAdd t s a).2.tags name = some t := by rw [(muAdd_same t s a).1]; exact ht
    have h2 := SameV_setTag_ne (t' := muDel (muAdd t s a).1 d) ht' ((muDel_W _ _).trans (muAdd_W _ _ _))
    exact (((h1.trans h2).trans (SameV_inherit _)).trans (SameV_invDuring _ _)).trans (SameV_muFin _ _ _)

theorem GI_markTail (s : St) (name : String) (a d : List Nat) (st : Started) (hm : isMarkName name = true)
    (i : GI b s) : GI b (markTail (markUpdate s name a d) st).1 := by
  unfold markTail
  refine GI_of_sameT (SameV_startConverter _) (GI_startTagging _ _ ?_)
  refine GI_of_sameV (SameV_markUpdate s name a d) ?_ i
  intro n hn e
  subst e
  rw [hm] at hn
  cases hn

theorem gi_markAdd (s : St) (name : String) (ids : List Nat) (st : Started) (i : GI b s) :
    GI b (step s (.markAdd name ids) st).1 := by
  rw [step_markAdd_eq]
  split
  · exact i
  · next hg =>
    split
    · exact i
    · split
      · exact i
      · next hne =>
        split
        · exact i
        · apply GI_markTail _ _ _ _ _ _ i
          have hne' : ids.isEmpty = false := by simpa using hne
          simp only [hne', Bool.not_false, Bool.true_and, Bool.not_eq_true', Bool.not_eq_false] at hg
          cases h : isMarkName name with
          | true => rfl
          | false => exact absurd h (by unfold isMarkName; simp [hg])

theorem gi_markDel (s : St) (name : String) (ids : List Nat) (st : Started) (i : GI b s) :
    GI b (step s (.markDel name ids) st).1 := by
  rw [step_markDel_eq]
  split
  · exact i
  · next hg =>
    split
    · exact i
    · split
      · exact i
      · next hne =>
        split
        · exact i
        · apply GI_markTail _ _ _ _ _ _ i
          have hne' : ids.isEmpty = false := by simpa using hne
          simp only [hne', Bool.not_false, Bool.true_and, Bool.not_eq_true', Bool.not_eq_false] at hg
          cases h : isMarkName name with
          | true => rfl
          | false => exact absurd h (by unfold isMarkName; simp [hg])

/-! ## what a sequence of `refBy` edits does to the table -/
/-- `L'` is `L` with the pairs `D` removed from and the pairs `A` added to the `refBy` sets -/
def RSpec (A D : String → String → Prop) (L L' : List (String × Tag)) : Prop :=
  ∀ n, (sget L n = none → sget L' n = none) ∧
    ∀ t, sget L n = some t → ∃ t', sget L' n = some t' ∧ t'.mainT = t.mainT ∧ t'.subT = t.subT ∧
      ∀ x, x ∈ t'.refBy ↔ (x ∈ t.refBy ∧ ¬ D n x) ∨ A n x

def NoP : String → String → Prop := fun _ _ => False

theorem RSpec.refl (L : List (String × Tag)) : RSpec NoP NoP L L :=
  fun n => ⟨id, fun t h => ⟨t, h, rfl, rfl, fun x => by simp [NoP]⟩⟩

theorem RSpec.comp {A1 D1 A2 D2 A D : String → String → Prop} {L L1 L2 : List (String × Tag)}
    (h1 : RSpec A1 D1 L L1) (h2 : RSpec A2 D2 L1 L2)
    (hc : ∀ n x (p : Prop), ((((p ∧ ¬ D1 n x) ∨ A1 n x) ∧ ¬ D2 n x) ∨ A2 n x) ↔ ((p ∧ ¬ D n x) ∨ A n x)) :
    RSpec A D L L2 := by
  intro n
  refine ⟨fun h => (h2 n).1 ((h1 n).1 h), fun t ht => ?_⟩
  obtain ⟨t1, ht1, a1, a2, a3⟩ := (h1 n).2 t ht
  obtain ⟨t2, ht2, b1, b2, b3⟩ := (h2 n).2 t1 ht1
  refine ⟨t2, ht2, b1.trans a1, b2.trans a2, fun x => ?_⟩
  rw [b3 x, a3 x]
  exact hc n x _

theorem RSpec.weaken {A D A' D' : String → String → Prop} {L L' : List (String × Tag)} (h : RSpec A D L L')
    (hc : ∀ n x (p : Prop), ((p ∧ ¬ D n x) ∨ A n x) ↔ ((p ∧ ¬ D' n x) ∨ A' n x)) : RSpec A' D' L L' := by
  intro n
  refine ⟨(h n).1, fun t ht => ?_⟩
  obtain ⟨t1, ht1, a1, a2, a3⟩ := (h n).2 t ht
  exact ⟨t1, ht1, a1, a2, fun x => (a3 x).trans (hc n x _)⟩

theorem RSpec.inv {A D : String → String → Prop} {L L' : List (String × Tag)} (h : RSpec A D L L')
    {n : String} {t' : Tag} (h' : sget L' n = some t') :
    ∃ t, sget L n = some t ∧ t'.mainT = t.mainT ∧ t'.subT = t.subT ∧
      ∀ x, x ∈ t'.refBy ↔ (x ∈ t.refBy ∧ ¬ D n x) ∨ A n x := by
  cases ht : sget L n with
  | none => rw [(h n).1 ht] at h'; cases h'
  | some t =>
    obtain ⟨t1, ht1, a⟩ := (h n).2 t ht
    rw [ht1] at h'; cases h'
    exact ⟨t, rfl, a⟩

theorem RSpec_sins {L : List (String × Tag)} {r : String} {t t' : Tag} (ht : sget L r = some t)
    (e1 : t'.mainT = t.mainT) (e2 : t'.subT = t.subT) (A D : String → String → Prop)
    (hm : ∀ x, x ∈ t'.refBy ↔ (x ∈ t.refBy ∧ ¬ D r x) ∨ A r x)
    (ho : ∀ n x, n ≠ r → ¬ D n x ∧ ¬ A n x) : RSpec A D L (sins r t' L) := by
  intro n
  rw [sget_sins]
  by_cases e : r = n
  · subst e
    simp only [if_true]
    refine ⟨fun h => (by rw [ht] at h; cases h), fun t0 h0 => ?_⟩
    rw [ht] at h0; cases h0
    exact ⟨t', rfl, e1, e2, hm⟩
  · simp only [e, if_false]
    refine ⟨id, fun t0 h0 => ⟨t0, h0, rfl, rfl, fun x => ?_⟩⟩
    have := ho n x (fun h => e h.symm)
    simp [this.1, this.2]

theorem RSpec_addRefBy (s : St) (r b : String) :
    RSpec (fun n x => n = r ∧ x = b) NoP s.tags (addRefBy s r b).tags := by
  unfold addRefBy
  split
  · next t ht =>
    refine RSpec_sins (t' := { t with refBy := strIns b t.refBy }) ht rfl rfl _ _ ?_ ?_
    · intro x; simp [NoP]; grind
    · intro n x hn; simp [NoP, hn]
  · next hnone' =>
    intro n
    refine ⟨id, fun t ht => ⟨t, ht, rfl, rfl, fun x => ?_⟩⟩
    have : n ≠ r := fun e => by rw [e, hnone'] at ht; cases ht
    simp [NoP, this]

theorem RSpec_delRefBy (s : St) (r b : String) :
    RSpec NoP (fun n x => n = r ∧ x = b) s.tags (delRefBy s r b).tags := by
  unfold delRefBy
  split
  · next t ht =>
    refine RSpec_sins (t' := { t with refBy := t.refBy.filter (· != b) }) ht rfl rfl _ _ ?_ ?_
    · intro x; simp [NoP]
    · intro n x hn; simp [NoP, hn]
  · next hnone' =>
    intro n
    refine ⟨id, fun t ht => ⟨t, ht, rfl, rfl, fun x => ?_⟩⟩
    have : n ≠ r := fun e => by rw [e, hnone'] at ht; cases ht
    simp [NoP, this]

theorem RSpec_foldAdd (b : String) (rs : List String) (s : St) :
    RSpec (fun n x => n ∈ rs ∧ x = b) NoP s.tags (rs.foldl (fun s r => addRefBy s r b) s).tags := by
  induction rs generalizing s with
  | nil => exact (RSpec.refl _).weaken (fun n x p => by simp [NoP])
  | cons r rs ih =>
    simp only [List.foldl_cons]
    refine (RSpec_addRefBy s r b).comp (ih (addRefBy s r b)) ?_
    intro n x p
    simp only [NoP, List.mem_cons]
    grind

theorem RSpec_foldDel (b : String) (rs : List String) (s : St) :
    RSpec NoP (fun n x => n ∈ rs ∧ x = b) s.tags (rs.foldl (fun s r => delRefBy s r b) s).tags := by
  induction rs generalizing s with
  | nil => exact (RSpec.refl _).weaken (fun n x p => by simp [NoP])
  | cons r rs ih =>
    simp only [List.foldl_cons]
    refine (RSpec_delRefBy s r b).comp (ih (delRefBy s r b)) ?_
    intro n x p
    simp only [NoP, List.mem_cons]
    grind

theorem RSpec_foldRen (name new : String) (hne : name ≠ new) (rs : List String) (s : St) :
    RSpec (fun n x => n ∈ rs ∧ x = new) (fun n x => n ∈ rs ∧ x = name) s.tags
      (rs.foldl (fun s r => addRefBy (delRefBy s r name) r new) s).tags := by
  induction rs generalizing s with
  | nil => exact (RSpec.refl _).weaken (fun n x p => by simp [NoP])
  | cons r rs ih =>
    simp only [List.foldl_cons]
    have h1 : RSpec (fun n x => n = r ∧ x = new) (fun n x => n = r ∧ x = name) s.tags
        (addRefBy (delRefBy s r name) r new).tags := by
      refine (RSpec_delRefBy s r name).comp (RSpec_addRefBy _ r new) ?_
      intro n x p
      simp only [NoP]
      grind
    refine h1.comp (ih _) ?_
    intro n x p
    simp only [List.mem_cons]
    grind

/-! ## the graph edits, on tables -/
theorem refs_of_eq {t t' : Tag} (e1 : t'.mainT = t.mainT) (e2 : t'.subT = t.subT) (r : String) :
    r ∈ t'.refs ↔ r ∈ t.refs := by simp only [mem_refs, e1, e2]

/-- nobody references a name that is not in the table -/
theorem G.noref {L : List (String × Tag)} (g : G L) {name : String} (h : sget L name = none)
    {n : String} {t : Tag} (ht : sget L n = some t) : name ∉ t.refs := by
  intro hr
  obtain ⟨tr, htr, _⟩ := g n t ht name hr
  rw [h] at htr; cases htr

/-- nobody references a tag whose `refBy` is empty -/
theorem G.noref' {L : List (String × Tag)} (g : G L) {name : String} {t0 : Tag} (h : sget L name = some t0)
    (hrb : t0.refBy = []) {n : String} {t : Tag} (ht : sget L n = some t) : name ∉ t.refs := by
  intro hr
  obtain ⟨tr, htr, hn⟩ := g n t ht name hr
  rw [h] at htr; cases htr
  rw [hrb] at hn; cases hn

theorem G_add {L0 L2 : List (String × Tag)} {name : String} {nt : Tag} {rs : List String}
    (g : G L0) (hfresh : sget L0 name = none) (hrs : ∀ r, r ∈ rs ↔ r ∈ nt.refs)
    (hex : ∀ r, r ∈ nt.refs → ∃ tr, sget L0 r = some tr) (hself : name ∉ nt.refs)
    (hs : RSpec (fun n x => n ∈ rs ∧ x = name) NoP (sins name nt L0) L2) : G L2 := by
  intro n t2 h2 r hr
  obtain ⟨t1, h1, e1, e2, _⟩ := hs.inv h2
  rw [refs_of_eq e1 e2] at hr
  rw [sget_sins] at h1
  by_cases hn : name = n
  · subst hn
    simp only [if_true, Option.some.injEq] at h1
    subst h1
    obtain ⟨tr0, htr0⟩ := hex r hr
    have hne : name ≠ r := fun e => hself (e ▸ hr)
    obtain ⟨tr2, htr2, _, _, hm⟩ := (hs r).2 tr0 (by rw [sget_sins, if_neg hne]; exact htr0)
    exact ⟨tr2, htr2, (hm name).2 (Or.inr ⟨(hrs r).2 hr, rfl⟩)⟩
  · simp only [hn, if_false] at h1
    obtain ⟨tr0, htr0, hm0⟩ := g n t1 h1 r hr
    have hne : name ≠ r := fun e => by rw [← e, hfresh] at htr0; cases htr0
    obtain ⟨tr2, htr2, _, _, hm⟩ := (hs r).2 tr0 (by rw [sget_sins, if_neg hne]; exact htr0)
    exact ⟨tr2, htr2, (hm n).2 (Or.inl ⟨hm0, fun h => h⟩)⟩

theorem G_upd {L0 L1 L2 : List (String × Tag)} {name : String} {t nt : Tag} {ds as : List String}
    (g : G L0) (ht : sget L0 name = some t)
    (hds : ∀ r, r ∈ ds ↔ r ∈ t.refs ∧ r ∉ nt.refs) (has : ∀ r, r ∈ as ↔ r ∈ nt.refs ∧ r ∉ t.refs)
    (hex : ∀ r, r ∈ nt.refs → ∃ tr, sget L0 r = some tr) (hself : name ∉ nt.refs)
    (hrb : nt.refBy = t.refBy)
    (h1 : RSpec NoP (fun n x => n ∈ ds ∧ x = name) L0 L1)
    (h2 : RSpec (fun n x => n ∈ as ∧ x = name) NoP L1 L2) : G (sins name nt L2) := by
  intro n tn hn r hr
  rw [sget_sins] at hn
  -- the entry of a reference `r ≠ name` after the edits
  have key : ∀ r tr0, sget L0 r = some tr0 → name ≠ r → ∃ tr2, sget (sins name nt L2) r = some tr2 ∧
      (∀ x, x ≠ name → x ∈ tr0.refBy → x ∈ tr2.refBy) ∧
      ((name ∈ tr0.refBy ∧ r ∉ ds) ∨ r ∈ as → name ∈ tr2.refBy) := by
    intro r tr0 h0 hne
    obtain ⟨tr1, htr1, _, _, m1⟩ := (h1 r).2 tr0 h0
    obtain ⟨tr2, htr2, _, _, m2⟩ := (h2 r).2 tr1 htr1
    refine ⟨tr2, by rw [sget_sins, if_neg hne]; exact htr2, ?_, ?_⟩
    · intro x hx hm
      exact (m2 x).2 (Or.inl ⟨(m1 x).2 (Or.inl ⟨hm, fun h => hx h.2⟩), fun h => h⟩)
    · rintro (⟨hm, hd⟩ | ha)
      · exact (m2 name).2 (Or.inl ⟨(m1 name).2 (Or.inl ⟨hm, fun h => hd h.1⟩), fun h => h⟩)
      · exact (m2 name).2 (Or.inr ⟨ha, rfl⟩)
  by_cases hnn : name = n
  · subst hnn
    simp only [if_true, Option.some.injEq] at hn
    subst hn
    obtain ⟨tr0, htr0⟩ := hex r hr
    have hne : name ≠ r := fun e => hself (e ▸ hr)
    obtain ⟨tr2, htr2, _, k2⟩ := key r tr0 htr0 hne
    refine ⟨tr2, htr2, k2 ?_⟩
    by_cases hb : r ∈ t.refs
    · left
      obtain ⟨tr, htr, hm⟩ := g name t ht r hb
      rw [htr0] at htr; cases htr
      exact ⟨hm, fun hd => ((hds r).1 hd).2 hr⟩
    · right
      exact (has r).2 ⟨hr, hb⟩
  · simp only [hnn, if_false] at hn
    obtain ⟨t1, ht1, e1, e2, _⟩ := h2.inv hn
    obtain ⟨t0, ht0, f1, f2, _⟩ := h1.inv ht1
    rw [refs_of_eq (e1.trans f1) (e2.trans f2)] at hr
    obtain ⟨tr0, htr0, hm0⟩ := g n t0 ht0 r hr
    by_cases hrn : name = r
    · subst hrn
      rw [ht] at htr0; cases htr0
      exact ⟨nt, by rw [sget_sins, if_pos rfl], hrb ▸ hm0⟩
    · obtain ⟨tr2, htr2, k1, _⟩ := key r tr0 htr0 hrn
      exact ⟨tr2, htr2, k1 n (fun e => hnn e.symm) hm0⟩

theorem G_ren {L0 L2 : List (String × Tag)} {name new : String} {t : Tag} {rs : List String}
    (g : G L0) (ht : sget L0 name = some t) (hnew : sget L0 new = none) (hrb : t.refBy = [])
    (hrs : ∀ r, r ∈ rs ↔ r ∈ t.refs)
    (hs : RSpec (fun n x => n ∈ rs ∧ x = new) (fun n x => n ∈ rs ∧ x = name) (sins new t (sdel L0 name)) L2) :
    G L2 := by
  have hnn : name ≠ new := fun e => by rw [e, hnew] at ht; cases ht
  intro n t2 h2 r hr
  obtain ⟨t1, h1, e1, e2, _⟩ := hs.inv h2
  rw [refs_of_eq e1 e2] at hr
  rw [sget_sins, sget_sdel] at h1
  -- the entry of a reference (neither `name` nor `new`) after the edits
  have key : ∀ r tr0, sget L0 r = some tr0 → name ≠ r → new ≠ r → ∃ tr2, sget L2 r = some tr2 ∧
      (∀ x, x ≠ name → x ∈ tr0.refBy → x ∈ tr2.refBy) ∧ (r ∈ rs → new ∈ tr2.refBy) := by
    intro r tr0 h0 hne1 hne2
    obtain ⟨tr2, htr2, _, _, m2⟩ := (hs r).2 tr0 (by rw [sget_sins, sget_sdel, if_neg hne2, if_neg hne1]; exact h0)
    exact ⟨tr2, htr2, fun x hx hm => (m2 x).2 (Or.inl ⟨hm, fun h => hx h.2⟩), fun hr => (m2 new).2 (Or.inr ⟨hr, rfl⟩)⟩
  by_cases hn : new = n
  · subst hn
    simp only [if_true, Option.some.injEq] at h1
    subst h1
    have hne1 : name ≠ r := fun e => g.noref' ht hrb ht (e ▸ hr)
    have hne2 : new ≠ r := fun e => g.noref hnew ht (e ▸ hr)
    obtain ⟨tr0, htr0, _⟩ := g name _ ht r hr
    obtain ⟨tr2, htr2, _, k2⟩ := key r tr0 htr0 hne1 hne2
    exact ⟨tr2, htr2, k2 ((hrs r).2 hr)⟩
  · simp only [hn, if_false] at h1
    have hn1 : name ≠ n := fun e => by simp [e] at h1
    simp only [hn1, if_false] at h1
    have hne1 : name ≠ r := fun e => g.noref' ht hrb h1 (e ▸ hr)
    have hne2 : new ≠ r := fun e => g.noref hnew h1 (e ▸ hr)
    obtain ⟨tr0, htr0, hm0⟩ := g n t1 h1 r hr
    obtain ⟨tr2, htr2, k1, _⟩ := key r tr0 htr0 hne1 hne2
    exact ⟨tr2, htr2, k1 n (fun e => hn1 e.symm) hm0⟩

theorem G_del {L0 L2 : List (String × Tag)} {name : String} {t : Tag} {rs : List String}
    (g : G L0) (ht : sget L0 name = some t) (hrb : t.refBy = [])
    (hs : RSpec NoP (fun n x => n ∈ rs ∧ x = name) (sdel L0 name) L2) : G L2 := by
  intro n t2 h2 r hr
  obtain ⟨t1, h1, e1, e2, _⟩ := hs.inv h2
  rw [refs_of_eq e1 e2] at hr
  rw [sget_sdel] at h1
  have hn1 : name ≠ n := fun e => by simp [e] at h1
  simp only [hn1, if_false] at h1
  have hne1 : name ≠ r := fun e => g.noref' ht hrb h1 (e ▸ hr)
  obtain ⟨tr0, htr0, hm0⟩ := g n t1 h1 r hr
  obtain ⟨tr2, htr2, _, _, m2⟩ := (hs r).2 tr0 (by rw [sget_sdel, if_neg hne1]; exact htr0)
  exact ⟨tr2, htr2, (m2 n).2 (Or.inl ⟨hm0, fun h => hn1 h.2.symm⟩)⟩

/-! ## the graph edits, as events: the reference graph -/
theorem contains_false_iff {l : List String} {x : String} (h : ¬ (l.contains x = true)) : x ∉ l := by
  simpa using h

theorem any_isNone_false {L : List (String × Tag)} {l : List String}
    (h : ¬ (l.any (fun r => (sget L r).isNone) = true)) : ∀ r, r ∈ l → ∃ tr, sget L r = some tr := by
  intro r hr
  cases e : sget L r with
  | some tr => exact ⟨tr, rfl⟩
  | none =>
    exfalso; apply h
    exact List.any_eq_true.2 ⟨r, hr, by simp [e]⟩

theorem isSome_false {α} {o : Option α} (h : ¬ (o.isSome = true)) : o = none := by
  cases o <;> simp_all

theorem isEmpty_not_false {l : List String} (h : ¬ ((!l.isEmpty) = true)) : l = [] := by
  cases l <;> simp_all

theorem atPair_refs (s : St) (nt : Tag) (f : Facts) (m : Bool) :
    (atPair s nt f m).2.refs = nt.refs ∧ (atPair s nt f m).2.mainT = nt.mainT ∧
    (atPair s nt f m).2.subT = nt.subT ∧ (atPair s nt f m).2.defn = nt.defn := by
  unfold atPair; split <;> exact ⟨rfl, rfl, rfl, rfl⟩

theorem g_addTag (s : St) (name color defn : String) (f : Facts) (st : Started) (g : G s.tags) :
    G (step s (.addTag name color defn f) st).1.tags := by
  rw [step_addTag_eq]
  generalize parseTagName name = p
  obtain ⟨typ, sub, isMark⟩ := p
  simp only []
  split
  · exact g
  split
  · exact g
  split
  · exact g
  next hself =>
  split
  · exact g
  split
  · exact g
  next hfresh =>
  split
  · exact g
  next hex =>
  rw [atPair_fst]
  unfold atFinish
  generalize hnt : (atPair s (atTagG s.ngen color defn f isMark) f isMark).2 = nt
  have hr : nt.refs = (atTag color defn f isMark).refs := by rw [← hnt]; exact (atPair_refs _ _ _ _).1
  have hX : (if isMark = true then setTag { s with ngen := s.ngen + 1 } name nt
      else startTagging (setTag { s with ngen := s.ngen + 1 } name nt) st.tag).tags
      = sins name nt s.tags := by
    split
    · rfl
    · rw [MgrSettle.startTagging_tags]; rfl
  have hs := RSpec_foldAdd name nt.refs (if isMark = true then setTag { s with ngen := s.ngen + 1 } name nt
      else startTagging (setTag { s with ngen := s.ngen + 1 } name nt) st.tag)
  rw [hX] at hs
  refine G_add g (isSome_false hfresh) (fun r => Iff.rfl) ?_ ?_ hs
  · rw [hr]; exact any_isNone_false hex
  · rw [hr]; exact contains_false_iff hself

theorem uqTag2_refs (nt t : Tag) (all : Nat) : (uqTag2 nt t all).refs = nt.refs := rfl

theorem g_updQuery (s : St) (name defn : String) (f : Facts) (st : Started) (g : G s.tags) :
    G (step s (.updQuery name defn f) st).1.tags := by
  rw [step_updQuery_eq]
  split
  · exact g
  split
  · exact g
  next hself =>
  split
  · exact g
  split
  · exact g
  next t ht =>
  split
  · exact g
  next hex =>
  split
  · exact g
  split
  · exact g
  unfold uqApply uqInv uqRefs
  rw [MgrSettle.startConverter_tags, MgrSettle.startTagging_tags, MgrSettle.invalidatedDuringTaggingJob_tags]
  refine G_congr (SameV_inherit (P := PT) _).w ?_
  show G (sins name _ _)
  have h1 := RSpec_foldDel name (t.refs.filter (fun r => !(uqTag2 (uqTag defn f) t s.all).refs.contains r)) s
  have h2 := RSpec_foldAdd name ((uqTag2 (uqTag defn f) t s.all).refs.filter (fun r => !t.refs.contains r))
    ((t.refs.filter (fun r => !(uqTag2 (uqTag defn f) t s.all).refs.contains r)).foldl (fun s r => delRefBy s r name) s)
  refine G_upd g ht ?_ ?_ ?_ ?_ rfl h1 h2
  · intro r; simp
  · intro r; simp
  · rw [uqTag2_refs]; exact any_isNone_false hex
  · rw [uqTag2_refs]; exact contains_false_iff hself

theorem g_updName (s : St) (name new : String) (st : Started) (g : G s.tags) :
    G (step s (.updName name new) st).1.tags := by
  rw [step_updName_eq]
  split
  · exact g
  next t ht =>
  split
  · exact g
  split
  · exact g
  split
  · exact g
  split
  · exact g
  next hnew =>
  split
  · exact g
  next hrb =>
  unfold unApply
  have hnew' := isSome_false hnew
  have hne : name ≠ new := fun e => by rw [e, hnew'] at ht; cases ht
  have hs := RSpec_foldRen name new hne t.refs { s with tags := sins new t (sdel s.tags name) }
  exact G_ren g ht hnew' (isEmpty_not_false hrb) (fun r => Iff.rfl) hs

theorem g_delTag (s : St) (name : String) (st : Started) (g : G s.tags) :
    G (step s (.delTag name) st).1.tags := by
  rw [step_delTag_eq]
  split
  · exact g
  next t ht =>
  split
  · exact g
  next hrb =>
  unfold dtApply
  have hv : SameT PT s (t.convs.foldl (fun s c => detachConv s name c st.tag) s) :=
    SameT_foldl _ (fun s c => SameT_detachConv s name c st.tag) _ _
  obtain ⟨t', ht', _, _, e3⟩ := hv.w.get' ht
  have hs := RSpec_foldDel name t.refs { (t.convs.foldl (fun s c => detachConv s name c st.tag) s) with
      tags := sdel (t.convs.foldl (fun s c => detachConv s name c st.tag) s).tags name }
  exact G_del (G_congr hv.w g) ht' (e3.trans (isEmpty_not_false hrb)) hs

/-! ## the graph edits, as events: the parser facts -/
/-- `parseTagName` and the `startsWith` tests of `UpdateTag` agree on what a mark tag is -/
def NameOK (n : String) : Prop :=
  isMarkName n = true ↔ ((parseTagName n).1 = "mark" ∨ (parseTagName n).1 = "generated")

theorem parseTagName_isMark (n : String) :
    (parseTagName n).2.2 = ((parseTagName n).1 == "mark" || (parseTagName n).1 == "generated") := by
  unfold parseTagName
  split
  · simp only []
    split
    · decide
    · rfl
  · decide

theorem FI_reindex {L L' : List (String × Tag)} {j}
    (h : ∀ n' t', sget L' n' = some t' → ∃ n t, sget L n = some t ∧ isMarkName n = isMarkName n' ∧
      t.defn = t'.defn ∧ SameF t t') (f : FI L j) : FI L' j := by
  refine ⟨?_, ?_, f.jplain, ?_⟩
  · intro n' t' h' hm
    obtain ⟨n, t, ht, e1, _, e3⟩ := h n' t' h'
    have := f.plain n t ht (e1.trans hm)
    exact ⟨e3.1 ▸ this.1, e3.2 ▸ this.2⟩
  · intro n1' t1' n2' t2' h1 h2 m1 m2 hd
    obtain ⟨n1, t1, ht1, a1, a2, a3⟩ := h n1' t1' h1
    obtain ⟨n2, t2, ht2, b1, b2, b3⟩ := h n2' t2' h2
    have := f.tc n1 t1 n2 t2 ht1 ht2 (a1.trans m1) (b1.trans m2) (by rw [a2, b2]; exact hd)
    exact ⟨by rw [← a3.1, ← b3.1]; exact this.1, by rw [← a3.2, ← b3.2]; exact this.2⟩
  · intro n snap held e hm m' ot' h' hmm hd
    obtain ⟨m, ot, hot, a1, a2, a3⟩ := h m' ot' h'
    have := f.jtc n snap held e hm m ot hot (a1.trans hmm) (by rw [a2]; exact hd)
    exact ⟨by rw [← a3.1]; exact this.1, by rw [← a3.2]; exact this.2⟩

theorem SameF.symm {a b : Tag} (h : SameF a b) : SameF b a := ⟨h.1.symm, h.2.symm⟩
theorem SameF.refl (a : Tag) : SameF a a := ⟨rfl, rfl⟩

theorem FJ_setTag_new (s : St) (name : String) (nt : Tag)
    (h1 : isMarkName name = true → Plain nt)
    (h2 : isMarkName name = false → ∀ m ot, sget s.tags m = some ot → isMarkName m = false →
      ot.defn = nt.defn → SameF ot nt)
    (h3 : isMarkName name = false → ∀ jn snap held, s.jTag = some (jn, snap, held) → isMarkName jn = false →
      nt.defn = snap.defn → SameF nt snap)
    (fj : FJ s) : FJ (setTag s name nt) := by
  refine ⟨sorted_sins _ _ _ fj.sorted, ?_, ?_, fj.fi.jplain, ?_⟩
  · intro n t ht hm
    simp only [setTag, sget_sins] at ht
    split at ht
    · next e => subst e; cases ht; exact h1 hm
    · exact fj.fi.plain n t ht hm
  · intro n1 t1 n2 t2 ht1 ht2 m1 m2 hd
    simp only [setTag, sget_sins] at ht1 ht2
    split at ht1
    · next e1 =>
      subst e1; cases ht1
      split at ht2
      · next e2 => subst e2; cases ht2; exact SameF.refl _
      · exact (h2 m1 n2 t2 ht2 m2 hd.symm).symm
    · split at ht2
      · next e2 => subst e2; cases ht2; exact h2 m2 n1 t1 ht1 m1 hd
      · exact fj.fi.tc n1 t1 n2 t2 ht1 ht2 m1 m2 hd
  · intro jn snap held e hm m ot hot hmm hd
    simp only [setTag, sget_sins] at hot
    split at hot
    · next e1 => subst e1; cases hot; exact h3 hmm jn snap held e hm hd
    · exact fj.fi.jtc jn snap held e hm m ot hot hmm hd

/-- facts payload of an `addTag` / `updQuery` -/
structure FactsPay (s : St) (d : String) (f : Facts) : Prop where
  job : ∀ n snap held, s.jTag = some (n, snap, held) → snap.defn = d → snap.mainT = f.main ∧ snap.subT = f.sub
  tab : ∀ m t, sget s.tags m = some t → t.defn = d → t.mainT = f.main ∧ t.subT = f.sub
  ids : f.idsok = true → f.main = [] ∧ f.sub = []

theorem FJ_foldAdd (name : String) (rs : List String) (s : St) (fj : FJ s) :
    FJ (rs.foldl (fun s r => addRefBy s r name) s) :=
  FJ_of_sameT (SameFJ_foldl _ (fun s r => SameFJ_addRefBy s r name) _ _) fj

theorem FJ_foldDel (name : String) (rs : List String) (s : St) (fj : FJ s) :
    FJ (rs.foldl (fun s r => delRefBy s r name) s) :=
  FJ_of_sameT (SameFJ_foldl _ (fun s r => SameFJ_delRefBy s r name) _ _) fj

theorem fj_addTag (s : St) (name color defn : String) (f : Facts) (st : Started) (fj : FJ s)
    (hp : FactsPay s defn f) (hn : NameOK name) :
    FJ (step s (.addTag name color defn f) st).1 := by
  rw [step_addTag_eq]
  have him := parseTagName_isMark name
  rcases hpn : parseTagName name with ⟨typ, sub, isMark⟩
  rw [hpn] at him
  simp only [] at him ⊢
  split
  · exact fj
  split
  · exact fj
  split
  · exact fj
  split
  · exact fj
  next hids =>
  split
  · exact fj
  split
  · exact fj
  rw [atPair_fst]
  unfold atFinish
  generalize hnt : (atPair s (atTagG s.ngen color defn f isMark) f isMark).2 = nt
  obtain ⟨_, e1, e2, e3⟩ := atPair_refs s (atTagG s.ngen color defn f isMark) f isMark
  rw [hnt] at e1 e2 e3
  apply FJ_foldAdd
  have fj' : FJ { s with ngen := s.ngen + 1 } := ⟨fj.sorted, fj.fi⟩
  have hbase : FJ (setTag { s with ngen := s.ngen + 1 } name nt) := by
    apply FJ_setTag_new _ _ _ ?_ ?_ ?_ fj'
    · intro hm
      have := hn.1 hm
      rw [hpn] at this
      simp only [] at this
      have hmk : isMark = true := by
        rw [him]
        rcases this with e | e <;> simp [e]
      have hok : f.idsok = true := by
        cases hi : f.idsok with
        | true => rfl
        | false => exact absurd (by simp [hmk, hi]) hids
      have := hp.ids hok
      exact ⟨e1.trans this.1, e2.trans this.2⟩
    · intro _ m ot hot _ hd
      have := hp.tab m ot hot (hd.trans e3)
      exact ⟨this.1.trans e1.symm, this.2.trans e2.symm⟩
    · intro _ jn snap held hj _ hd
      have := hp.job jn snap held hj (hd.symm.trans e3)
      exact ⟨e1.trans this.1.symm, e2.trans this.2.symm⟩
  split
  · exact hbase
  · exact FJ_startTagging _ _ hbase

theorem fj_updQuery (s : St) (name defn : String) (f : Facts) (st : Started) (fj : FJ s)
    (hp : FactsPay s defn f) :
    FJ (step s (.updQuery name defn f) st).1 := by
  rw [step_updQuery_eq]
  split
  · exact fj
  split
  · exact fj
  split
  · exact fj
  next hids =>
  split
  · exact fj
  next t ht =>
  split
  · exact fj
  split
  · exact fj
  split
  · exact fj
  unfold uqApply uqInv uqRefs
  refine FJ_of_sameT (SameV_startConverter _).fj (FJ_startTagging _ _ ?_)
  refine FJ_of_sameT (SameV_invDuring _ _).fj (FJ_of_sameT (SameV_inherit _).fj ?_)
  generalize hY : (List.foldl (fun s r => addRefBy s r name)
      (List.foldl (fun s r => delRefBy s r name) s
        (List.filter (fun r => !(uqTag2 (uqTag defn f) t s.all).refs.contains r) t.refs))
      (List.filter (fun r => !t.refs.contains r) (uqTag2 (uqTag defn f) t s.all).refs)) = Y
  have hsame : SameFJ PT s Y := by
    rw [← hY]
    exact (SameFJ_foldl _ (fun s r => SameFJ_delRefBy s r name) _ _).trans
      (SameFJ_foldl _ (fun s r => SameFJ_addRefBy s r name) _ _)
  have fY : FJ Y := FJ_of_sameT hsame fj
  apply FJ_setTag_new _ _ _ ?_ ?_ ?_ fY
  · intro hm
    have hok : f.idsok = true := by
      cases hi : f.idsok with
      | true => rfl
      | false =>
        exfalso; apply hids
        have : (name.startsWith "mark/" || name.startsWith "generated/") = true := hm
        simp [this, hi]
    exact hp.ids hok
  · intro _ m ot' hot' _ hd
    obtain ⟨ot, hot, a1, a2, a3⟩ := hsame.f.get hot'
    have := hp.tab m ot hot ((a3 trivial).trans hd)
    exact ⟨a1.symm.trans this.1, a2.symm.trans this.2⟩
  · intro _ jn snap held hj _ hd
    rw [hsame.job] at hj
    have := hp.job jn snap held hj hd.symm
    exact ⟨this.1.symm, this.2.symm⟩

theorem isMarkName_eq_of_typ {a b : String} (ha : NameOK a) (hb : NameOK b)
    (h : (parseTagName a).1 = (parseTagName b).1) : isMarkName a = isMarkName b := by
  unfold NameOK at ha hb
  rw [h] at ha
  cases h1 : isMarkName a <;> cases h2 : isMarkName b <;> simp_all

theorem fj_updName (s : St) (name new : String) (st : Started) (fj : FJ s)
    (h1 : NameOK name) (h2 : NameOK new) :
    FJ (step s (.updName name new) st).1 := by
  rw [step_updName_eq]
  split
  · exact fj
  next t ht =>
  split
  · exact fj
  split
  · exact fj
  next htyp =>
  split
  · exact fj
  split
  · exact fj
  split
  · exact fj
  unfold unApply
  refine FJ_of_sameT (SameFJ_foldl _ (fun s r => (SameFJ_delRefBy s r name).trans (SameFJ_addRefBy _ r new)) _ _) ?_
  have hm : isMarkName name = isMarkName new :=
    (isMarkName_eq_of_typ h2 h1 (by simpa using htyp)).symm
  refine ⟨sorted_sins _ _ _ (sorted_sdel _ _ fj.sorted), FI_reindex ?_ fj.fi⟩
  intro n' t' h'
  simp only [sget_sins, sget_sdel] at h'
  split at h'
  · next e => subst e; cases h'; exact ⟨name, t, ht, hm, rfl, SameF.refl _⟩
  · split at h'
    · cases h'
    · exact ⟨n', t', h', rfl, rfl, SameF.refl _⟩

theorem fj_delTag (s : St) (name : String) (st : Started) (fj : FJ s) :
    FJ (step s (.delTag name) st).1 := by
  rw [step_delTag_eq]
  split
  · exact fj
  next t ht =>
  split
  · exact fj
  unfold dtApply
  apply FJ_foldDel
  -- a job started by the detach fold snapshots a table entry (possibly the one deleted next: the
  -- job invariants `jplain`/`jtc` only look at entries that are still in the table)
  have f1 : FJ (t.convs.foldl (fun s c => detachConv s name c st.tag) s) :=
    (GI_foldl (b := False) _ (fun s c hs => GI_detachConv s name c st.tag hs) _ _ ⟨fj, False.elim⟩).fj
  refine ⟨sorted_sdel _ _ f1.sorted, FI_reindex ?_ f1.fi⟩
  intro n' t' h'
  simp only [sget_sdel] at h'
  split at h'
  · cases h'
  · exact ⟨n', t', h', rfl, rfl, SameF.refl _⟩

/-! ## all events -/
/-- payload contract for the facts part -/
def FPay (s : St) : Ev → Prop
  | .addTag name _ d f => FactsPay s d f ∧ NameOK name
  | .updQuery _ d f => FactsPay s d f
  | .updName name new => NameOK name ∧ NameOK new
  | _ => True

theorem fj_step (s : St) (e : Ev) (st : Started) (fj : FJ s) (hp : FPay s e) : FJ (step s e st).1 := by
  have i : GI False s := ⟨fj, False.elim⟩
  cases e with
  | nop => exact fj
  | importPcaps names => exact (gi_importPcaps s names st i).fj
  | importDone processed usednew created upd rst add =>
    exact (gi_importDone s processed usednew created upd rst add st i).fj
  | tagDone name result => exact (gi_tagDone s name result st i).fj
  | mergeDone merged => exact (gi_mergeDone s merged st i).fj
  | convertDone => exact (gi_convertDone s st i).fj
  | addTag name color defn f => exact fj_addTag s name color defn f st fj hp.1 hp.2
  | updQuery name defn f => exact fj_updQuery s name defn f st fj hp
  | updColor name color => exact (gi_updColor s name color st i).fj
  | updName name new => exact fj_updName s name new st fj hp.1 hp.2
  | updConv name convs => exact (gi_updConv s name convs st i).fj
  | markAdd name ids => exact (gi_markAdd s name ids st i).fj
  | markDel name ids => exact (gi_markDel s name ids st i).fj
  | delTag name => exact fj_delTag s name st fj
  | viewOpen k => exact (gi_viewOpen s k st i).fj
  | viewRelease k => exact (gi_viewRelease s k st i).fj

theorem g_step (s : St) (e : Ev) (st : Started) (fj : FJ s) (g : G s.tags) : G (step s e st).1.tags := by
  have i : GI True s := ⟨fj, fun _ => g⟩
  cases e with
  | nop => exact g
  | importPcaps names => exact (gi_importPcaps s names st i).g trivial
  | importDone processed usednew created upd rst add =>
    exact (gi_importDone s processed usednew created upd rst add st i).g trivial
  | tagDone name result => exact (gi_tagDone s name result st i).g trivial
  | mergeDone merged => exact (gi_mergeDone s merged st i).g trivial
  | convertDone => exact (gi_convertDone s st i).g trivial
  | addTag name color defn f => exact g_addTag s name color defn f st g
  | updQuery name defn f => exact g_updQuery s name defn f st g
  | updColor name color => exact (gi_updColor s name color st i).g trivial
  | updName name new => exact g_updName s name new st g
  | updConv name convs => exact (gi_updConv s name convs st i).g trivial
  | markAdd name ids => exact (gi_markAdd s name ids st i).g trivial
  | markDel name ids => exact (gi_markDel s name ids st i).g trivial
  | delTag name => exact g_delTag s name st g
  | viewOpen k => exact (gi_viewOpen s k st i).g trivial
  | viewRelease k => exact (gi_viewRelease s k st i).g trivial

end Pk.Proofs.MgrReach
