/-
  Helper lemmas for Pk/Props/C05Reasm.lean: one data segment through `assembleHalf` under the
  invariant "expected sequence number = isn + c, the queue holds slices of B beyond c".
-/
import Pk.Proofs.ImportReasmQueue

namespace Pk.Proofs.ImportReasm
open Pk.Import

/-- invariant of the out-of-order queue: pages of `B`, ascending without overlap, all of them
    strictly beyond offset `c` (the first byte that has not been delivered) -/
def QueueOk (isn : Nat) (B : Bytes) (c : Nat) (q : List Page) : Prop :=
  (∀ pg ∈ q, PageOk isn B pg ∧ c < gOff isn pg) ∧ Ascending isn q

/-- `checkOverlap` for a segment that is queued -/
theorem checkOverlap_queue {isn : Nat} {B : Bytes} (hl : SeqLinear isn B.length) (h : Half) (p : Pkt) (c : Nat)
    (hq : QueueOk isn B c h.queue) (hp : SegPkt isn B p) (ha : c < pOff isn p) :
    ∃ q', (checkOverlap h true p.seq p.payload p.ref false).1 = { h with queue := q' } ∧
      QueueOk isn B c q' ∧
      ∀ x, Covered isn h.queue x ∨ (pOff isn p ≤ x ∧ x < pEnd isn p) → Covered isn q' x := by
  have hlt := hp.le
  have hseq := hp.seq_eq
  obtain ⟨⟨h1, h2, h3⟩, hge, hend, hpl⟩ := hp
  have hlen : p.payload.length = pEnd isn p - pOff isn p := by unfold pEnd pOff; omega
  have hse : seqAdd p.seq p.payload.length = isn + pEnd isn p := by
    rw [hseq, hlen, seqAdd_lin hl (by omega)]; omega
  have spec := overlapWalk_spec hl hlt hend h.queue.reverse []
    (fun pg hm => (hq.1 pg (List.mem_reverse.mp hm)).1) (fun pg hm => by cases hm)
    (by simpa using hq.2)
  unfold checkOverlap
  rw [hse, hseq, hpl]
  generalize overlapWalk (isn + pOff isn p) (isn + pEnd isn p) h.queue.reverse [] (slice B (pOff isn p) (pEnd isn p)) = r at spec
  obtain ⟨bf, af, bs⟩ := r
  simp only at spec ⊢
  have hlo := spec.lo (c + 1) (fun pg hm => (hq.1 pg (List.mem_reverse.mp hm)).2) (fun pg hm => by cases hm)
  by_cases hb : bs.length > 0
  · rw [if_pos ⟨hb, by simp⟩]
    have hbne : bs ≠ [] := by intro h0; rw [h0] at hb; simp at hb
    rcases spec.res with ⟨e1, e2, e3⟩ | ⟨e1, _⟩
    · simp only at e1 e2 e3
      subst e1
      have hnew : PageOk isn B { seq := isn + pOff isn p, bytes := slice B (pOff isn p) (pEnd isn p), ref := p.ref, fin := false } := by
        refine ⟨rfl, by show isn ≤ isn + _; omega, hbne, ?_, ?_⟩
        · show isn + pOff isn p - isn + (slice B (pOff isn p) (pEnd isn p)).length ≤ _
          rw [slice_length hend]; omega
        · show slice B (pOff isn p) (pEnd isn p) = slice B (isn + pOff isn p - isn) (isn + pOff isn p - isn + (slice B (pOff isn p) (pEnd isn p)).length)
          rw [slice_length hend]
          congr 1 <;> omega
      have o1 : gOff isn { seq := isn + pOff isn p, bytes := slice B (pOff isn p) (pEnd isn p), ref := p.ref, fin := false } = pOff isn p := by
        show isn + pOff isn p - isn = _; omega
      have o2 : gEnd isn { seq := isn + pOff isn p, bytes := slice B (pOff isn p) (pEnd isn p), ref := p.ref, fin := false } = pEnd isn p := by
        show isn + pOff isn p - isn + (slice B (pOff isn p) (pEnd isn p)).length = _
        rw [slice_length hend]; omega
      generalize ({ seq := isn + pOff isn p, bytes := slice B (pOff isn p) (pEnd isn p), ref := p.ref, fin := false } : Page) = npg at hnew o1 o2
      obtain ⟨b1, b2, b3⟩ := (asc_append _ _).mp spec.asc
      refine ⟨bf ++ [npg] ++ af, rfl, ⟨?_, ?_⟩, ?_⟩
      · intro pg hm
        simp only [List.mem_append, List.mem_singleton] at hm
        rcases hm with (hm | rfl) | hm
        · exact ⟨spec.ok pg (List.mem_append_left _ hm), hlo pg (List.mem_append_left _ hm)⟩
        · exact ⟨hnew, by omega⟩
        · exact ⟨spec.ok pg (List.mem_append_right _ hm), hlo pg (List.mem_append_right _ hm)⟩
      · have : bf ++ [npg] ++ af = bf ++ npg :: af := by simp
        rw [this]
        refine (asc_split _ _ _).mpr ⟨b1, b2, ?_, ?_, b3⟩
        · intro a ha; rw [o1]; exact e2 a ha
        · intro b hb; rw [o2]; exact e3 b hb
      · intro x hx
        have := spec.cov x (by simpa using hx)
        simp only [covered_append, covered_cons, covered_nil, or_false, o1, o2] at this ⊢
        grind
    · exact absurd e1 hbne
  · rw [if_neg (by intro h0; exact hb h0.1)]
    have hnil : bs = [] := by
      cases bs with
      | nil => rfl
      | cons a l => simp at hb
    refine ⟨bf ++ af, rfl, ⟨?_, spec.asc⟩, ?_⟩
    · intro pg hm
      exact ⟨spec.ok pg hm, hlo pg hm⟩
    · intro x hx
      have := spec.cov x (by simpa using hx)
      simp only [hnil] at this
      grind

/-- `checkOverlap` for bytes that are about to be delivered (they start at the expected sequence
    number): the bytes stay as they are, queued pages are cut back to what lies beyond them -/
theorem checkOverlap_deliver {isn : Nat} {B : Bytes} (hl : SeqLinear isn B.length) (h : Half) (ref : PRef) (c e : Nat)
    (hq : QueueOk isn B c h.queue) (hce : c ≤ e) (he : e ≤ B.length) :
    ∃ q', checkOverlap h false (isn + c) (slice B c e) ref false = ({ h with queue := q' }, slice B c e) ∧
      (∀ pg ∈ q', PageOk isn B pg ∧ e ≤ gOff isn pg ∧ c < gOff isn pg) ∧ Ascending isn q' ∧
      ∀ x, Covered isn h.queue x → Covered isn q' x ∨ (c ≤ x ∧ x < e) := by
  have hse : seqAdd (isn + c) (slice B c e).length = isn + e := by
    rw [slice_length he, seqAdd_lin hl (by omega)]; omega
  have spec := overlapWalk_spec hl hce he h.queue.reverse []
    (fun pg hm => (hq.1 pg (List.mem_reverse.mp hm)).1) (fun pg hm => by cases hm)
    (by simpa using hq.2)
  unfold checkOverlap
  rw [hse]
  generalize overlapWalk (isn + c) (isn + e) h.queue.reverse [] (slice B c e) = r at spec
  obtain ⟨bf, af, bs⟩ := r
  simp only at spec ⊢
  have hlo := spec.lo (c + 1) (fun pg hm => (hq.1 pg (List.mem_reverse.mp hm)).2) (fun pg hm => by cases hm)
  rw [if_neg (by simp)]
  rcases spec.res with ⟨e1, e2, e3⟩ | ⟨_, pg, hm, hle⟩
  · simp only at e1 e2 e3
    subst e1
    have hbf : bf = [] := by
      cases bf with
      | nil => rfl
      | cons a l =>
        have k1 := e2 a (List.mem_cons_self ..)
        have k2 := hlo a (List.mem_append_left _ (List.mem_cons_self ..))
        have k3 := (spec.ok a (List.mem_append_left _ (List.mem_cons_self ..))).lt
        omega
    subst hbf
    refine ⟨af, by simp, ?_, by simpa using spec.asc, ?_⟩
    · intro pg hm
      exact ⟨spec.ok pg (by simpa using hm), e3 pg hm, hlo pg (by simpa using hm)⟩
    · intro x hx
      have := spec.cov x (Or.inl (by simpa using hx))
      simp only [List.nil_append] at this
      grind
  · have := (hq.1 pg (List.mem_reverse.mp hm)).2
    omega

/-- `addContiguous`: the queued pages that continue offset `e` are taken, up to the next hole -/
theorem addContiguous_spec {isn : Nat} {B : Bytes} (hl : SeqLinear isn B.length) : ∀ (q : List Page) (e : Nat),
    e ≤ B.length → (∀ pg ∈ q, PageOk isn B pg ∧ e ≤ gOff isn pg) → Ascending isn q →
    ∃ taken left e', addContiguous q (isn + e) = (taken, left, isn + e') ∧ q = taken ++ left ∧
      e ≤ e' ∧ e' ≤ B.length ∧ (taken.map (·.bytes)).flatten = slice B e e' ∧
      (∀ pg ∈ left, e' < gOff isn pg) ∧ (∀ pg ∈ taken, pg.fin = false) ∧
      (∀ x, Covered isn taken x → e ≤ x ∧ x < e') := by
  intro q
  induction q with
  | nil =>
    intro e he _ _
    exact ⟨[], [], e, rfl, rfl, Nat.le_refl _, he, by simp [slice_self], (by intro pg hm; cases hm),
      (by intro pg hm; cases hm), (by intro x hx; simp at hx)⟩
  | cons pg rest ih =>
    intro e he hok hasc
    obtain ⟨hpg, hge⟩ := hok pg (List.mem_cons_self ..)
    have hlt := hpg.lt
    have hseq := hpg.seq_eq
    have hlen := hpg.len
    have hend : gEnd isn pg ≤ B.length := hpg.2.2.2.1
    have hd : seqDiff (isn + e) pg.seq = (gOff isn pg : Int) - e := by
      rw [hseq, seqDiff_lin hl he (by omega)]
    have hasc2 := List.pairwise_cons.mp hasc
    rw [addContiguous, hd]
    by_cases h0 : gOff isn pg = e
    · rw [if_pos (by omega)]
      have hsa : seqAdd (isn + e) pg.bytes.length = isn + gEnd isn pg := by
        rw [hlen, seqAdd_lin hl (by omega)]; omega
      rw [hsa]
      obtain ⟨taken, left, e', h1, h2, h3, h4, h5, h6, h7, h8⟩ := ih (gEnd isn pg) hend
        (fun pg' hm => ⟨(hok pg' (List.mem_cons_of_mem _ hm)).1, hasc2.1 pg' hm⟩) hasc2.2
      refine ⟨pg :: taken, left, e', by rw [h1], by rw [h2]; rfl, by omega, h4, ?_, h6, ?_, ?_⟩
      · simp only [List.map_cons, List.flatten_cons, h5]
        rw [hpg.2.2.2.2, h0, slice_append (by omega) h3]
      · intro pg' hm
        rcases List.mem_cons.mp hm with rfl | hm
        · exact hpg.1
        · exact h7 pg' hm
      · intro x hx
        simp only [covered_cons] at hx
        rcases hx with hx | hx
        · omega
        · have := h8 x hx; omega
    · rw [if_neg (by omega)]
      refine ⟨[], pg :: rest, e, rfl, rfl, Nat.le_refl _, he, by simp [slice_self], ?_,
        (by intro pg hm; cases hm), (by intro x hx; simp at hx)⟩
      intro pg' hm
      rcases List.mem_cons.mp hm with rfl | hm
      · omega
      · have := hasc2.1 pg' hm; omega

theorem foldr_bytes (l : List Page) :
    (l.map (fun pg => (pg.bytes, pg.ref))).foldr (fun x acc => x.1 ++ acc) ([] : Bytes) = (l.map (·.bytes)).flatten := by
  induction l with
  | nil => rfl
  | cons a l ih => simp [ih]

/-- `sendToConnection` for live bytes `c .. e-1` of `B` and a queue beyond `e`: the bytes and the
    pages that continue them are delivered as one chunk attributed to the live packet -/
theorem sendToConnection_spec {isn : Nat} {B : Bytes} (hl : SeqLinear isn B.length) (st : Stream) (h : Half) (ref : PRef)
    (c e : Nat) (hce : c < e) (he : e ≤ B.length)
    (hok : ∀ pg ∈ h.queue, PageOk isn B pg ∧ e ≤ gOff isn pg) (hasc : Ascending isn h.queue) :
    ∃ left e', sendToConnection st h (isn + c) (slice B c e) ref false =
        (st.addData ref (slice B c e'), { h with queue := left }, isn + e') ∧
      e ≤ e' ∧ e' ≤ B.length ∧ (∀ pg ∈ left, PageOk isn B pg ∧ e' < gOff isn pg) ∧ Ascending isn left ∧
      (∀ x, Covered isn h.queue x → Covered isn left x ∨ x < e') := by
  have hse : seqAdd (isn + c) (slice B c e).length = isn + e := by
    rw [slice_length he, seqAdd_lin hl (by omega)]; omega
  obtain ⟨taken, left, e', h1, h2, h3, h4, h5, h6, h7, h8⟩ := addContiguous_spec hl h.queue e he hok hasc
  have hne : slice B c e ≠ [] := slice_ne_nil hce he
  have hpos : 0 < (slice B c e).length := List.length_pos_iff.mpr hne
  refine ⟨left, e', ?_, h3, h4, ?_, ?_, ?_⟩
  · unfold sendToConnection
    rw [hse]
    simp only [h1]
    simp only [List.foldr_cons, foldr_bytes, firstNonEmptyRef, hpos, if_true, h5, slice_append (Nat.le_of_lt hce) h3]
    have : (slice B c e').length ≠ 0 := by rw [slice_length h4]; omega
    simp [this]
    intro hx
    exfalso
    cases hgl : taken.getLast? with
    | none => rw [hgl] at hx; simp at hx
    | some pg =>
      rw [hgl] at hx
      have := h7 pg (List.mem_of_getLast? hgl)
      simp [this] at hx
  · intro pg hm
    exact ⟨(hok pg (by rw [h2]; exact List.mem_append_right _ hm)).1, h6 pg hm⟩
  · rw [h2] at hasc
    exact ((asc_append _ _).mp hasc).2.1
  · intro x hx
    rw [h2, covered_append] at hx
    rcases hx with hx | hx
    · exact Or.inr (h8 x hx).2
    · exact Or.inl hx

/-- invariant of one direction: the half is open, bytes `0 .. c-1` of `B` have been delivered, the
    queue holds slices of `B` beyond `c` -/
structure HalfInv (isn : Nat) (B : Bytes) (c : Nat) (h : Half) : Prop where
  opn : h.closed = false
  nxt : h.nextSeq = some (isn + c)
  le : c ≤ B.length
  q : QueueOk isn B c h.queue

/-- one data segment of `B` (any slice, at its sequence number): the invariant is kept with a
    delivered prefix `c' ≥ c`; if bytes are delivered they are exactly `c .. c'-1`, as one chunk
    attributed to this packet, and this packet carries byte `c`; every offset that was delivered,
    queued or is carried by this packet is delivered or queued afterwards -/
theorem feed_step {isn : Nat} {B : Bytes} (hl : SeqLinear isn B.length) (dir : Bool) (st : Stream) (h : Half) (p : Pkt)
    (c : Nat) (hinv : HalfInv isn B c h) (hp : SegPkt isn B p) :
    ∃ c' h', feed dir (st, h) p =
        (if c' = c then st.addPkt p.ref dir else Stream.record st p.ref dir (slice B c c'), h') ∧
      HalfInv isn B c' h' ∧ c ≤ c' ∧ (c < c' → pOff isn p ≤ c ∧ c < pEnd isn p ∧ pEnd isn p ≤ c') ∧
      (∀ x, x < c ∨ Covered isn h.queue x ∨ (pOff isn p ≤ x ∧ x < pEnd isn p) → x < c' ∨ Covered isn h'.queue x) ∧
      h'.lastSeen = h.lastSeen := by
  obtain ⟨hopen, hnext, hc, hq⟩ := hinv
  have hlt := hp.le
  have hend : pEnd isn p ≤ B.length := hp.2.2.1
  unfold feed
  by_cases ha : c < pOff isn p
  · -- ahead of the expected sequence number: queued
    obtain ⟨q', e1, e2, e3⟩ := checkOverlap_queue hl h p c hq hp ha
    refine ⟨c, { h with queue := q' }, ?_, ⟨hopen, hnext, hc, e2⟩, Nat.le_refl _, by omega, ?_, rfl⟩
    · rw [asm_ahead hl _ h p c hopen hnext hc hp ha, e1]; simp
    · intro x hx
      rcases hx with hx | hx | hx
      · exact Or.inl hx
      · exact Or.inr (e3 x (Or.inl hx))
      · exact Or.inr (e3 x (Or.inr hx))
  · have ha' : pOff isn p ≤ c := by omega
    rw [asm_behind hl _ h p c hopen hnext hc hp ha']
    obtain ⟨q', e1, e2, e3, e4⟩ := checkOverlap_deliver hl h p.ref c (max c (pEnd isn p)) hq (Nat.le_max_left ..)
      (Nat.max_le.mpr ⟨hc, hend⟩)
    simp only [e1]
    by_cases hb : pEnd isn p ≤ c
    · -- nothing new: dropped
      have hm : max c (pEnd isn p) = c := Nat.max_eq_left hb
      rw [hm] at e2 e4 ⊢
      refine ⟨c, { h with queue := q' }, ?_, ⟨hopen, hnext, hc, ⟨fun pg hm => ⟨(e2 pg hm).1, (e2 pg hm).2.2⟩, e3⟩⟩,
        Nat.le_refl _, by omega, ?_, rfl⟩
      · simp [slice_self]
      · intro x hx
        rcases hx with hx | hx | hx
        · exact Or.inl hx
        · rcases e4 x hx with h1 | h1
          · exact Or.inr h1
          · omega
        · omega
    · -- new bytes: delivered together with what continues them in the queue
      have hm : max c (pEnd isn p) = pEnd isn p := Nat.max_eq_right (by omega)
      rw [hm] at e2 e4 ⊢
      have hne : (slice B c (pEnd isn p)).length ≠ 0 := by rw [slice_length hend]; omega
      obtain ⟨left, e', s1, s2, s3, s4, s5, s6⟩ := sendToConnection_spec hl (st.addPkt p.ref dir) { h with queue := q' } p.ref
        c (pEnd isn p) (by omega) hend (fun pg hm => ⟨(e2 pg hm).1, (e2 pg hm).2.1⟩) e3
      refine ⟨e', { h with queue := left, nextSeq := some (isn + e') }, ?_, ⟨hopen, rfl, s3, ⟨s4, s5⟩⟩, by omega,
        fun _ => ⟨ha', by omega, s2⟩, ?_, rfl⟩
      · rw [if_pos hne, if_neg (by omega)]
        simp only [s1, addPkt_addData]
      · intro x hx
        rcases hx with hx | hx | hx
        · left; omega
        · rcases e4 x hx with h1 | h1
          · rcases s6 x h1 with h2 | h2
            · exact Or.inr h2
            · exact Or.inl h2
          · left; omega
        · left; omega

end Pk.Proofs.ImportReasm
