/-
  Helper lemmas for C11More: two further invariants of the tag API —
  * a generic tag-wise invariant `TagInv P` for predicates that look only at the definition, the
    condition, the match set and the `known` flag of a tag (`CoreOnly`) — or, more generally, that in
    addition survive a growing pending set (`Frame`) — (`step_tagInv`),
  * the keys of the table are distinct (`step_keysNodup`).
-/
import Pk.Model.TagGraph
import Pk.Proofs.TagGraph
import Pk.Proofs.TagGraphMoreSets
import Pk.Proofs.TagGraphMoreInherit

namespace Pk.Proofs.TagGraphMore
open Pk.TagGraph Pk.Proofs.TagGraph

/-! ### tag-wise invariants -/

def TagInv (P : Name → Tag → Prop) (m : TagMap) : Prop := ∀ n t, tget m n = some t → P n t

/-- `P` looks only at definition, condition, match set and `known` -/
def CoreOnly (P : Name → Tag → Prop) : Prop :=
  ∀ n a b, a.definition = b.definition → a.cond = b.cond → a.matched = b.matched → a.known = b.known →
    P n a → P n b

/-- `P` looks only at definition, condition, match set, `known` and the pending set, and survives when
    the pending set grows (on streams below `next`) -/
def Frame (next : Nat) (P : Name → Tag → Prop) : Prop :=
  ∀ n a b, a.definition = b.definition → a.cond = b.cond → a.matched = b.matched → a.known = b.known →
    (∀ x, x < next → x ∈ a.uncertain → x ∈ b.uncertain) → P n a → P n b

theorem frame_of_coreOnly {P : Name → Tag → Prop} (h : CoreOnly P) (next : Nat) : Frame next P :=
  fun n a b h1 h2 h3 h4 _ hp => h n a b h1 h2 h3 h4 hp

theorem tagInv_tset {P : Name → Tag → Prop} {m : TagMap} (h : TagInv P m) (n : Name) (nt : Tag) (hp : P n nt) :
    TagInv P (tset m n nt) := by
  intro k t hk
  rw [get_set] at hk
  split at hk
  · rename_i hnk; cases hk; exact hnk ▸ hp
  · exact h k t hk

theorem tagInv_tdel {P : Name → Tag → Prop} {m : TagMap} (h : TagInv P m) (n : Name) : TagInv P (tdel m n) := by
  intro k t hk
  rw [get_del] at hk
  split at hk
  · cases hk
  · exact h k t hk

theorem tagInv_tmod {P : Name → Tag → Prop} {m : TagMap} (h : TagInv P m) (n : Name) (f : Tag → Tag)
    (hf : ∀ t, P n t → P n (f t)) : TagInv P (tmod m n f) := by
  intro k t hk
  rw [get_modify] at hk
  split at hk
  · rename_i hnk
    subst hnk
    cases hm : tget m n with
    | none => rw [hm] at hk; cases hk
    | some u =>
      rw [hm] at hk
      simp only [Option.map_some, Option.some.injEq] at hk
      subst hk
      exact hf u (h n u hm)
  · exact h k t hk

theorem tagInv_foldl_tmod {P : Name → Tag → Prop} {next : Nat} (hc : Frame next P) (f : Tag → Tag)
    (hf : ∀ t, (f t).definition = t.definition ∧ (f t).cond = t.cond ∧ (f t).matched = t.matched ∧
      (f t).known = t.known ∧ (f t).uncertain = t.uncertain)
    (rs : List Name) (m : TagMap) (h : TagInv P m) : TagInv P (rs.foldl (fun m r => tmod m r f) m) := by
  induction rs generalizing m with
  | nil => exact h
  | cons r rs ih =>
    simp only [List.foldl_cons]
    apply ih
    apply tagInv_tmod h
    intro t ht
    obtain ⟨a, b, c, d, e⟩ := hf t
    exact hc r t (f t) a.symm b.symm c.symm d.symm (fun x _ hx => e ▸ hx) ht

theorem tagInv_addReferrer {P : Name → Tag → Prop} {next : Nat} (hc : Frame next P) (name : Name) (rs : List Name) (m : TagMap)
    (h : TagInv P m) : TagInv P (addReferrer name m rs) :=
  tagInv_foldl_tmod hc (fun t => { t with referencedBy := addRef name t.referencedBy })
    (fun _ => ⟨rfl, rfl, rfl, rfl, rfl⟩) rs m h

theorem tagInv_delReferrer {P : Name → Tag → Prop} {next : Nat} (hc : Frame next P) (name : Name) (rs : List Name) (m : TagMap)
    (h : TagInv P m) : TagInv P (delReferrer name m rs) :=
  tagInv_foldl_tmod hc (fun t => { t with referencedBy := delRef name t.referencedBy })
    (fun _ => ⟨rfl, rfl, rfl, rfl, rfl⟩) rs m h

theorem tagInv_inherit {P : Name → Tag → Prop} (st st' : State) (hc : Frame st.nextStreamID P)
    (hi : inherit st = some st') (h : TagInv P st.tags) : TagInv P st'.tags := by
  intro k t' hk
  obtain ⟨t, ht, he, hg⟩ := inherit_grow st st' hi k t' hk
  have := clearU_eq he
  exact hc k t t' this.1.symm this.2.2.2.2.2.1.symm this.2.2.2.2.2.2.1.symm this.2.2.2.2.2.2.2.1.symm hg (h k t ht)

/-- what the caller has to show for the tags an operation writes -/
def OpOK (P : Name → Tag → Prop) (st : State) : Op → Prop
  | .add n c d p =>
      defRejected n p (parseTagName n).2.2 = false →
      P n (if (parseTagName n).2.2 then { mkTag c d p with matched := p.ids }
           else { mkTag c d p with uncertain := st.allStreams })
  | .query n d p =>
      defRejected n p (markPrefix n) = false → ∀ t, tget st.tags n = some t → P n t →
      P n { mkTag t.color d p with converters := t.converters, referencedBy := t.referencedBy,
                                   uncertain := st.allStreams }
  | .rename n n' =>
      ∀ t, tget st.tags n = some t → P n t → (parseTagName n').1 = (parseTagName n).1 → P n' t
  | .markAdd n ids =>
      ∀ t, tget st.tags n = some t → P n t →
      P n { (if t.known then markAddApply t ids else { t with definition := "<unknown>", cond := none })
            with uncertain := t.uncertain }
  | .markDel n ids =>
      ∀ t, tget st.tags n = some t → P n t →
      P n { (if t.known then markDelApply t ids else { t with definition := "<unknown>", cond := none })
            with uncertain := t.uncertain }
  | _ => True

theorem addTag_tagInv (P : Name → Tag → Prop) (st : State) (hc : Frame st.nextStreamID P) (n c d : String) (p : Facts)
    (inv : TagInv P st.tags) (hop : OpOK P st (.add n c d p)) : TagInv P (addTag st n c d p).2.tags := by
  unfold addTag
  simp only [OpOK] at hop
  cases hp : parseTagName n with
  | mk typ rest =>
    cases rest with
    | mk sub isMark =>
      rw [hp] at hop
      simp only at hop ⊢
      by_cases h1 : (typ == "" || sub == "") = true
      · rw [if_pos h1]; exact inv
      rw [if_neg h1]
      by_cases h2 : defRejected n p isMark = true
      · rw [if_pos h2]; exact inv
      rw [if_neg h2]
      by_cases h3 : thas st.tags n = true
      · rw [if_pos h3]; exact inv
      rw [if_neg h3]
      by_cases h4 : (p.refs.any fun r => !thas st.tags r) = true
      · rw [if_pos h4]; exact inv
      rw [if_neg h4]
      have hnew := hop (by simpa using h2)
      cases isMark
      · simp only [Bool.not_false, Bool.true_and, Bool.false_eq_true, if_false] at hnew ⊢
        split
        · exact inv
        · apply tagInv_addReferrer hc
          exact tagInv_tset inv _ _ hnew
      · simp only [Bool.not_true, Bool.false_and, Bool.false_eq_true, if_false, if_true] at hnew ⊢
        apply tagInv_addReferrer hc
        exact tagInv_tset inv _ _ hnew

theorem delTag_tagInv (P : Name → Tag → Prop) (st : State) (hc : Frame st.nextStreamID P) (n : Name)
    (inv : TagInv P st.tags) : TagInv P (delTag st n).2.tags := by
  unfold delTag
  split
  · exact inv
  · split
    · exact inv
    · simp only
      split
      · exact inv
      · exact tagInv_delReferrer hc _ _ _ (tagInv_tdel inv _)

theorem updColor_tagInv (P : Name → Tag → Prop) (st : State) (hc : Frame st.nextStreamID P) (n c : String)
    (inv : TagInv P st.tags) : TagInv P (updColor st n c).2.tags := by
  unfold updColor updNothing
  split
  · split <;> exact inv
  · split
    · exact inv
    · rename_i t ht
      exact tagInv_tset inv _ _ (hc n t _ rfl rfl rfl rfl (fun _ _ h => h) (inv n t ht))

theorem updConverters_tagInv (P : Name → Tag → Prop) (st : State) (hc : Frame st.nextStreamID P) (n : Name) (cs : List Name)
    (inv : TagInv P st.tags) : TagInv P (updConverters st n cs).2.tags := by
  unfold updConverters
  split
  · exact inv
  · rename_i t ht
    simp only
    split
    · exact inv
    · split
      · exact inv
      · exact tagInv_tset inv _ _ (hc n t _ rfl rfl rfl rfl (fun _ _ h => h) (inv n t ht))

theorem updQuery_tagInv (P : Name → Tag → Prop) (st : State) (hc : Frame st.nextStreamID P) (n d : String) (p : Facts)
    (inv : TagInv P st.tags) (hop : OpOK P st (.query n d p)) : TagInv P (updQuery st n d p).2.tags := by
  unfold updQuery
  simp only [OpOK] at hop
  split
  · exact inv
  · rename_i hrej
    split
    · exact inv
    · rename_i t ht
      split
      · exact inv
      · split
        · exact inv
        · split
          · exact inv
          · simp only
            split
            · exact inv
            · split
              · exact inv
              · split
                · exact inv
                · rename_i s' hs'
                  split
                  · exact inv
                  · refine tagInv_inherit { st with tags := tset _ n _ } s' hc hs' ?_
                    apply tagInv_tset
                    · exact tagInv_addReferrer hc _ _ _ (tagInv_delReferrer hc _ _ _ inv)
                    · exact hop (by simpa using hrej) t ht (inv n t ht)

theorem updName_tagInv (P : Name → Tag → Prop) (st : State) (hc : Frame st.nextStreamID P) (n n' : String)
    (inv : TagInv P st.tags) (hop : OpOK P st (.rename n n')) : TagInv P (updName st n n').2.tags := by
  unfold updName updNothing
  simp only [OpOK] at hop
  split
  · split <;> exact inv
  · split
    · exact inv
    · rename_i t ht
      cases hp : parseTagName n with
      | mk oldTyp rest =>
        cases hp' : parseTagName n' with
        | mk newTyp rest' =>
          cases rest' with
          | mk newSub isMark' =>
            rw [hp, hp'] at hop
            simp only at hop ⊢
            split
            · exact inv
            · rename_i htyp
              split
              · exact inv
              · split
                · exact inv
                · split
                  · exact inv
                  · split
                    · exact inv
                    · apply tagInv_foldl_tmod hc
                        (fun rt => { rt with referencedBy := addRef n' (delRef n rt.referencedBy) })
                        (fun _ => ⟨rfl, rfl, rfl, rfl, rfl⟩)
                      apply tagInv_tset (tagInv_tdel inv _)
                      exact hop t ht (inv n t ht) (by simpa using htyp)

theorem updMark_tagInv (P : Name → Tag → Prop) (st : State) (hc : Frame st.nextStreamID P) (n : Name)
    (add : Bool) (ids : List Nat) (inv : TagInv P st.tags)
    (hop : ∀ t, tget st.tags n = some t → P n t →
      P n { (if t.known then (if add then markAddApply t ids else markDelApply t ids)
             else { t with definition := "<unknown>", cond := none }) with uncertain := t.uncertain }) :
    TagInv P (updMark st n add ids).2.tags := by
  unfold updMark updNothing
  split
  · split <;> exact inv
  · split
    · exact inv
    · split
      · exact inv
      · rename_i t ht
        split
        · exact inv
        · simp only
          split
          · exact inv
          · rename_i s' hs'
            split
            · exact inv
            · -- the tag written before the walk
              have hop' := hop t ht (inv n t ht)
              generalize hnt : (if t.known = true then (if add = true then markAddApply t ids else markDelApply t ids)
                else { t with definition := "<unknown>", cond := none }) = nt at hs' hop'
              obtain ⟨hu, _, _⟩ := uncOnly_inherit _ _ hs'
              have hu' : UncOnly (tset st.tags n nt) s'.tags := hu
              intro k u hk
              show P k u
              have hk' : tget (tmod s'.tags n fun x => { x with uncertain := t.uncertain }) k = some u := hk
              rw [get_modify] at hk'
              by_cases hnk : n = k
              · subst hnk
                simp only [if_true] at hk'
                obtain ⟨v, hv, he⟩ := hu'.get (k := n) (u := nt) (by simp [get_set])
                rw [hv] at hk'
                simp only [Option.map_some, Option.some.injEq] at hk'
                subst hk'
                rw [setU_of_clearU he t.uncertain]
                exact hop'
              · simp only [hnk, if_false] at hk'
                obtain ⟨v, hv, he, hg⟩ := inherit_grow _ _ hs' k u hk'
                have hv' : tget (tset st.tags n nt) k = some v := hv
                rw [get_set] at hv'
                simp only [hnk, if_false] at hv'
                have := clearU_eq he
                exact hc k v u this.1.symm this.2.2.2.2.2.1.symm this.2.2.2.2.2.2.1.symm
                  this.2.2.2.2.2.2.2.1.symm hg (inv k v hv')

/-- every call preserves a tag-wise invariant that looks only at definition / condition / match set /
    `known` / pending set and survives a growing pending set, provided the tags the call itself writes
    satisfy it (`OpOK`) -/
theorem step_tagInv (P : Name → Tag → Prop) (st : State) (hc : Frame st.nextStreamID P) (op : Op)
    (inv : TagInv P st.tags) (hop : OpOK P st op) : TagInv P (step st op).2.tags := by
  cases op with
  | add n c d p => exact addTag_tagInv P st hc n c d p inv hop
  | del n => exact delTag_tagInv P st hc n inv
  | color n c => exact updColor_tagInv P st hc n c inv
  | query n d p => exact updQuery_tagInv P st hc n d p inv hop
  | rename n n' => exact updName_tagInv P st hc n n' inv hop
  | converters n cs => exact updConverters_tagInv P st hc n cs inv
  | markAdd n ids =>
    apply updMark_tagInv P st hc n true ids inv
    intro t ht hp
    have := hop t ht hp
    simpa using this
  | markDel n ids =>
    apply updMark_tagInv P st hc n false ids inv
    intro t ht hp
    have := hop t ht hp
    simpa using this

/-! ### distinct keys -/

theorem tkeys_tset_has (m : TagMap) (n : Name) (t u : Tag) (h : tget m n = some u) :
    tkeys (tset m n t) = tkeys m := by
  induction m with
  | nil => cases h
  | cons a m ih =>
    obtain ⟨k, v⟩ := a
    unfold tget at h
    by_cases hk : k = n
    · simp [tset, hk, tkeys]
    · simp only [hk, if_false] at h
      have := ih h
      simp only [tkeys] at this
      simp [tset, hk, tkeys, this]

theorem tkeys_tset_new (m : TagMap) (n : Name) (t : Tag) (h : tget m n = none) :
    tkeys (tset m n t) = tkeys m ++ [n] := by
  induction m with
  | nil => rfl
  | cons a m ih =>
    obtain ⟨k, v⟩ := a
    unfold tget at h
    by_cases hk : k = n
    · simp [hk] at h
    · simp only [hk, if_false] at h
      have := ih h
      simp only [tkeys] at this
      simp [tset, hk, tkeys, this]

theorem tkeys_tmod (m : TagMap) (n : Name) (f : Tag → Tag) : tkeys (tmod m n f) = tkeys m := by
  unfold tmod
  cases h : tget m n with
  | none => rfl
  | some t => exact tkeys_tset_has m n _ t h

theorem tkeys_foldl_tmod (f : Name → Tag → Tag) (rs : List Name) (m : TagMap) :
    tkeys (rs.foldl (fun m r => tmod m r (f r)) m) = tkeys m := by
  induction rs generalizing m with
  | nil => rfl
  | cons r rs ih => simp only [List.foldl_cons]; rw [ih, tkeys_tmod]

theorem tkeys_tdel (m : TagMap) (n : Name) : tkeys (tdel m n) = (tkeys m).filter (fun k => k != n) := by
  induction m with
  | nil => rfl
  | cons a m ih =>
    obtain ⟨k, v⟩ := a
    simp only [tkeys] at ih
    by_cases hk : k = n
    · simp [tdel, hk, tkeys, ih]
    · simp [tdel, hk, tkeys, ih]

theorem tkeys_inheritApply (all : List Nat) (order : List Name) (m : TagMap) :
    tkeys (inheritApply all m order) = tkeys m := by
  induction order generalizing m with
  | nil => rfl
  | cons n ns ih =>
    unfold inheritApply
    simp only [List.foldl_cons]
    have := ih (inheritOne all m n)
    unfold inheritApply at this
    rw [this]
    unfold inheritOne
    exact tkeys_tmod _ _ _

theorem tkeys_inherit (st st' : State) (h : inherit st = some st') : tkeys st'.tags = tkeys st.tags := by
  unfold inherit at h
  split at h
  · cases h
  · cases h; exact tkeys_inheritApply _ _ _

def KeysNodup (m : TagMap) : Prop := (tkeys m).Nodup

theorem keysNodup_tset (m : TagMap) (n : Name) (t : Tag) (h : KeysNodup m) : KeysNodup (tset m n t) := by
  unfold KeysNodup at *
  cases hg : tget m n with
  | some u => rw [tkeys_tset_has m n t u hg]; exact h
  | none =>
    rw [tkeys_tset_new m n t hg, List.nodup_append]
    refine ⟨h, by simp, ?_⟩
    intro a ha b hb
    simp only [List.mem_singleton] at hb
    subst hb
    intro hab; subst hab
    have := (mem_keys m a).mp ha
    rw [hg] at this; cases this

theorem keysNodup_tdel (m : TagMap) (n : Name) (h : KeysNodup m) : KeysNodup (tdel m n) := by
  unfold KeysNodup at *
  rw [tkeys_tdel]
  exact h.sublist List.filter_sublist

theorem keysNodup_of_eq {m m' : TagMap} (he : tkeys m' = tkeys m) (h : KeysNodup m) : KeysNodup m' := by
  unfold KeysNodup at *; rw [he]; exact h

theorem tkeys_addReferrer (name : Name) (m : TagMap) (rs : List Name) : tkeys (addReferrer name m rs) = tkeys m :=
  tkeys_foldl_tmod (fun _ t => { t with referencedBy := addRef name t.referencedBy }) rs m

theorem tkeys_delReferrer (name : Name) (m : TagMap) (rs : List Name) : tkeys (delReferrer name m rs) = tkeys m :=
  tkeys_foldl_tmod (fun _ t => { t with referencedBy := delRef name t.referencedBy }) rs m

theorem step_keysNodup (st : State) (op : Op) (h : KeysNodup st.tags) : KeysNodup (step st op).2.tags := by
  cases op with
  | add n c d p =>
    simp only [step]
    unfold addTag
    repeat' (first | exact h | split | (simp only))
    all_goals exact keysNodup_of_eq (tkeys_addReferrer _ _ _) (keysNodup_tset _ _ _ h)
  | del n =>
    simp only [step]
    unfold delTag
    repeat' (first | exact h | split | (simp only))
    all_goals exact keysNodup_of_eq (tkeys_delReferrer _ _ _) (keysNodup_tdel _ _ h)
  | color n c =>
    simp only [step]
    unfold updColor updNothing
    repeat' (first | exact h | split | (simp only))
    exact keysNodup_tset _ _ _ h
  | query n d p =>
    simp only [step]
    unfold updQuery
    repeat' (first | exact h | split | (simp only))
    rename_i s' hs' _
    rw [KeysNodup, tkeys_inherit _ _ hs']
    apply keysNodup_tset
    exact keysNodup_of_eq ((tkeys_addReferrer _ _ _).trans (tkeys_delReferrer _ _ _)) h
  | rename n n' =>
    simp only [step]
    unfold updName updNothing
    repeat' (first | exact h | split | (simp only))
    rw [KeysNodup, tkeys_foldl_tmod (fun _ rt => { rt with referencedBy := addRef n' (delRef n rt.referencedBy) })]
    exact keysNodup_tset _ _ _ (keysNodup_tdel _ _ h)
  | converters n cs =>
    simp only [step]
    unfold updConverters
    repeat' (first | exact h | split | (simp only))
    exact keysNodup_tset _ _ _ h
  | markAdd n ids =>
    simp only [step]
    unfold updMark updNothing
    repeat' (first | exact h | split | (simp only))
    all_goals
      rename_i s' hs' _
      rw [KeysNodup, tkeys_tmod, tkeys_inherit _ _ hs']
      exact keysNodup_tset _ _ _ h
  | markDel n ids =>
    simp only [step]
    unfold updMark updNothing
    repeat' (first | exact h | split | (simp only))
    all_goals
      rename_i s' hs' _
      rw [KeysNodup, tkeys_tmod, tkeys_inherit _ _ hs']
      exact keysNodup_tset _ _ _ h

/-! ### no call changes `nextStreamID` -/

theorem step_next (st : State) (op : Op) : (step st op).2.nextStreamID = st.nextStreamID := by
  cases op with
  | add n c d p =>
    simp only [step]; unfold addTag
    repeat' (first | rfl | split | (simp only))
  | del n =>
    simp only [step]; unfold delTag
    repeat' (first | rfl | split | (simp only))
  | color n c =>
    simp only [step]; unfold updColor updNothing
    repeat' (first | rfl | split | (simp only))
  | query n d p =>
    simp only [step]; unfold updQuery
    repeat' (first | rfl | split | (simp only))
    rename_i s' hs' _
    exact (uncOnly_inherit _ _ hs').2.1
  | rename n n' =>
    simp only [step]; unfold updName updNothing
    repeat' (first | rfl | split | (simp only))
  | converters n cs =>
    simp only [step]; unfold updConverters
    repeat' (first | rfl | split | (simp only))
  | markAdd n ids =>
    simp only [step]; unfold updMark updNothing
    repeat' (first | rfl | split | (simp only))
    all_goals
      rename_i s' hs' _
      exact (uncOnly_inherit _ _ hs').2.1
  | markDel n ids =>
    simp only [step]; unfold updMark updNothing
    repeat' (first | rfl | split | (simp only))
    all_goals
      rename_i s' hs' _
      exact (uncOnly_inherit _ _ hs').2.1

theorem run_next (ops : List Op) (st : State) : (run st ops).nextStreamID = st.nextStreamID := by
  induction ops generalizing st with
  | nil => rfl
  | cons o os ih =>
    show (run (step st o).2 os).nextStreamID = _
    rw [ih, step_next]

end Pk.Proofs.TagGraphMore
