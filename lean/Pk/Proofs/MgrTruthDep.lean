/- Helper lemmas for C06Reach: the closure of a set of (tag, stream) pairs under tag references (`Dep`)
   and why the uncertainty sweep `inherit` makes all of it pending. -/
import Pk.Proofs.MgrTagsStep
import Pk.Proofs.MgrReachGraph
import Pk.Proofs.MgrTerminationAcyclic
namespace Pk.Proofs.MgrTruth
open Pk.Mgr Pk.Proofs.MgrTags

/-- the closure of `B` under references of the table `tags`: if `(r, id)` is in the set and `n` references
    `r` in its main query then `(n, id)` is; if `n` references `r` in a sub-query then `(n, id')` is for
    every stream `id'` (`nx` bounds the streams of referenced tags that count) -/
inductive Dep (tags : List (String × Tag)) (nx : Nat) (B : String → Nat → Prop) : String → Nat → Prop
  | base {n : String} {id : Nat} : B n id → Dep tags nx B n id
  | main {n r : String} {t : Tag} {id : Nat} : sget tags n = some t → r ∈ t.mainT → Dep tags nx B r id →
      Dep tags nx B n id
  | sub {n r : String} {t : Tag} {id id' : Nat} : sget tags n = some t → r ∈ t.subT → id' < nx →
      Dep tags nx B r id' → Dep tags nx B n id

/-- stream `id` is pending for tag `n` in the table -/
def Pend (tags : List (String × Tag)) (n : String) (id : Nat) : Prop := ∃ t, sget tags n = some t ∧ id ∈ t.unc

theorem Dep.mono {tags nx} {B B' : String → Nat → Prop} (h : ∀ n id, B n id → B' n id) {n id}
    (d : Dep tags nx B n id) : Dep tags nx B' n id := by
  induction d with
  | base hb => exact .base (h _ _ hb)
  | main ht hr _ ih => exact .main ht hr ih
  | sub ht hr hlt _ ih => exact .sub ht hr hlt ih

/-- something is in the closure only if something is in the base -/
theorem Dep.nonempty {tags nx} {B : String → Nat → Prop} {n id} (d : Dep tags nx B n id) :
    ∃ n0 id0, B n0 id0 := by
  induction d with
  | base hb => exact ⟨_, _, hb⟩
  | main _ _ _ ih => exact ih
  | sub _ _ _ _ ih => exact ih

theorem pend_tagUnc {T : List (String × Tag)} {r : String} {id : Nat} (h : Pend T r id) : id ∈ tagUnc T r := by
  obtain ⟨t, ht, hid⟩ := h
  simp [tagUnc, ht, hid]

theorem tagUnc_pend {T : List (String × Tag)} {r : String} {id : Nat} (h : id ∈ tagUnc T r) : Pend T r id := by
  unfold tagUnc at h
  cases hr : sget T r with
  | none => simp [hr] at h
  | some t => simp [hr] at h; exact ⟨t, hr, h⟩

/-- in a table that is closed under the propagation rules, everything in the closure of a pending base is
    pending -/
theorem dep_pending {tags0 T' : List (String × Tag)} {all nx : Nat} {B : String → Nat → Prop}
    (hnx : nx ≤ all)
    (hclosed : ∀ n t', sget T' n = some t' → Closed all T' t')
    (hex : ∀ n t0, sget tags0 n = some t0 → ∃ t', sget T' n = some t' ∧
        (((∀ r ∈ t0.mainT, r ∈ t'.mainT) ∧ (∀ r ∈ t0.subT, r ∈ t'.subT)) ∨ ∀ id, id < all → id ∈ t'.unc))
    (hbase : ∀ n id, B n id → id < all → Pend T' n id) :
    ∀ n id, Dep tags0 nx B n id → id < all → Pend T' n id := by
  intro n id d
  induction d with
  | base hb => exact hbase _ _ hb
  | main ht hr _ ih =>
    intro hid
    obtain ⟨t', h', hc⟩ := hex _ _ ht
    refine ⟨t', h', ?_⟩
    rcases hc with hc | hc
    · exact (hclosed _ _ h').1 _ (hc.1 _ hr) _ (pend_tagUnc (ih hid))
    · exact hc _ hid
  | sub ht hr hlt _ ih =>
    intro hid
    obtain ⟨t', h', hc⟩ := hex _ _ ht
    refine ⟨t', h', ?_⟩
    rcases hc with hc | hc
    · have hp := pend_tagUnc (ih (Nat.lt_of_lt_of_le hlt hnx))
      refine (hclosed _ _ h').2 ⟨_, hc.2 _ hr, ?_⟩ _ hid
      intro h0; rw [h0] at hp; cases hp
    · exact hc _ hid

/-! ## the table after `inherit` -/

/-- `inherit` keeps the references of every tag -/
theorem inherit_fq (s : St) : MgrTermination.FQ s.tags (inherit s).tags := by
  intro n
  have h := (MgrReach.inherit_veq s).1 n
  cases h1 : sget (inherit s).tags n with
  | none =>
    rw [h1] at h
    cases h2 : sget s.tags n with
    | none => rfl
    | some t => rw [h2] at h; cases h
  | some t' =>
    rw [h1] at h
    cases h2 : sget s.tags n with
    | none => rw [h2] at h; cases h
    | some t =>
      rw [h2] at h
      simp only [Option.map_some, Option.some.injEq, MgrReach.W, Prod.mk.injEq] at h
      simp [MgrReach.F2, h.1, h.2.1]

theorem fq_symm {L L' : List (String × Tag)} (h : MgrTermination.FQ L L') : MgrTermination.FQ L' L :=
  fun n => (h n).symm

/-- a table with a topological order had one before the sweep -/
theorem topo_before_inherit (s : St) (hs : Sorted s.tags) (ht : MgrTermination.Topo (inherit s).tags) :
    MgrTermination.Topo s.tags :=
  MgrTermination.topo_of_fq (inherit_sorted s hs) (fq_symm (inherit_fq s)) ht

end Pk.Proofs.MgrTruth
