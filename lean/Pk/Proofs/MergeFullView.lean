/-
  The view of a stream from its pieces (`Located` ⇒ `Reader.view = compView`), and the Int-level
  re-basing lemma of `AddIndex`.
-/
import Pk.Proofs.MergeFullWalk
import Pk.Proofs.MergeFullHosts
import Pk.Proofs.MergeFullImports
import Pk.Proofs.MergeFullAddStream

namespace Pk.Index
open Pk Pk.Bytes

theorem reader_data_of_located (r : Reader) (s : StreamRec) (k : Comp)
    (hl : Located r.imports.length r.f.packets r.f.data r.hostGroups s k) (hk : k.Ok s) :
    r.data s = dataOf (r.firstPacket s) (expWraps s) s.cb s.sb k := by
  obtain ⟨_, hch, _, ⟨rest, hd⟩, hclen⟩ := hl
  obtain ⟨hsk, hseg, _⟩ := hk
  obtain ⟨prest, hp⟩ := chainOf_split hch
  unfold Reader.data dataOf
  simp only
  have hw : ∀ st, dataWalk ((r.f.packets.drop s.pstart).length + 1) st (r.f.packets.drop s.pstart)
      = dataWalk (k.chain.length + 1) st k.chain := by
    intro st
    apply dataWalk_chain hch hsk
    · rw [hp]; simp; omega
    · omega
  rw [show expWraps s = (i64 (sub64 s.last s.first) + 1000).tdiv wrapNs from rfl, hw]
  generalize dataWalk (k.chain.length + 1) _ k.chain = res
  cases res with
  | error e => rfl
  | ok st =>
    simp only
    rw [hd]
    have h1 : ¬ ((k.c ++ k.seg ++ rest).length < s.cb + s.sb) := by simp; omega
    simp only [h1, if_false]
    have e0 : (k.c ++ k.seg ++ rest).take s.cb = k.c.take s.cb := by
      rw [List.append_assoc, List.take_append_of_le_length (by omega)]
    have e1 : ((k.c ++ k.seg ++ rest).drop s.cb).take s.sb = (k.c.drop s.cb).take s.sb := by
      rw [List.append_assoc, List.drop_append_of_le_length (by omega),
        List.take_append_of_le_length (by simp; omega)]
    have e2 : (k.c ++ k.seg ++ rest).drop (s.cb + s.sb) = k.seg ++ rest := by
      rw [List.append_assoc, ← hclen, List.drop_left]
    rw [e0, e1, e2]
    apply dataRuns_indep hseg
    · simp; omega
    · omega
    · omega

theorem view_of_located (r : Reader) (s : StreamRec) (k : Comp)
    (hl : Located r.imports.length r.f.packets r.f.data r.hostGroups s k) (hk : k.Ok s) :
    r.view s = some (compView r.imports (r.firstPacket s) (r.lastPacket s) (expWraps s) s k) := by
  have hdata := reader_data_of_located r s k hl hk
  obtain ⟨⟨g, hg, hv1, hv2, hc, hs⟩, hch, _, _, _⟩ := hl
  unfold Reader.view Reader.hosts
  simp only [hg]
  have : ¬ (g.hostSize * s.ch + g.hostSize > g.hosts.length ∨ g.hostSize * s.sh + g.hostSize > g.hosts.length) := by omega
  simp only [this, if_false, hc, hs, hdata]
  unfold compView Reader.packets
  rw [packetsWalk_chain _ _ _ _ hch]

/-! ## time -/

/-- the re-basing of `AddIndex` keeps the absolute time as an Int, for times of this era -/
theorem rebase_abs_int (ref newRef t : Nat) (ht : t < 2 ^ 64) (hr : newRef * 1000000000 < 2 ^ 63)
    (h0 : 0 ≤ (ref : Int) * 1000000000 + i64 t) (h1 : (ref : Int) * 1000000000 + i64 t < 2 ^ 63) :
    (newRef : Int) * 1000000000 + i64 (add64 t (mul64 (sub64 ref newRef) 1000000000)) = (ref : Int) * 1000000000 + i64 t := by
  unfold i64 add64 mul64 sub64 at *
  have e : newRef % 2 ^ 64 = newRef := Nat.mod_eq_of_lt (by omega)
  rw [e]
  split at h0 <;> split <;> omega

theorem sub64_shift (a b d : Nat) : sub64 (add64 a d) (add64 b d) = sub64 a b := by
  unfold sub64 add64; omega

end Pk.Index
