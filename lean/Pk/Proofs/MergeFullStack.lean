/-
  `StreamByID` and `stackView` in terms of "the last record with that id".
-/
import Pk.Proofs.MergeFullStep3

namespace Pk.Index
open Pk Pk.Bytes

/-- the last record with the given id -/
def lastWith : List StreamRec → Nat → Option StreamRec
  | [], _ => none
  | s :: ss, id => match lastWith ss id with
    | some x => some x
    | none => if s.id = id then some s else none

theorem lastWith_none {l : List StreamRec} {id : Nat} : lastWith l id = none ↔ ∀ s ∈ l, s.id ≠ id := by
  induction l with
  | nil => simp [lastWith]
  | cons a t ih =>
    simp only [lastWith]
    cases h : lastWith t id with
    | some x =>
      simp only [reduceCtorEq, false_iff]
      intro hall
      have := ih.mpr (fun s hs => hall s (by simp [hs]))
      rw [h] at this; cases this
    | none =>
      have := ih.mp h
      by_cases ha : a.id = id
      · simp [ha]
      · simp only [ha, if_false, true_iff]
        intro s hs
        simp at hs
        rcases hs with rfl | hs
        · exact ha
        · exact this s hs

theorem lastWith_some {l : List StreamRec} {id : Nat} {s : StreamRec} (h : lastWith l id = some s) : s ∈ l ∧ s.id = id := by
  induction l with
  | nil => simp [lastWith] at h
  | cons a t ih =>
    simp only [lastWith] at h
    cases h' : lastWith t id with
    | some x =>
      rw [h'] at h
      simp at h; subst h
      exact ⟨by simp [(ih h').1], (ih h').2⟩
    | none =>
      rw [h'] at h
      simp only at h
      split at h
      · rename_i ha
        simp at h; subst h
        exact ⟨by simp, ha⟩
      · simp at h

theorem lastWith_append (a b : List StreamRec) (id : Nat) :
    lastWith (a ++ b) id = match lastWith b id with | some x => some x | none => lastWith a id := by
  induction a with
  | nil =>
    simp only [List.nil_append, lastWith]
    cases lastWith b id <;> rfl
  | cons x t ih =>
    simp only [List.cons_append, lastWith, ih]
    cases lastWith b id <;> rfl

theorem lastWith_filter (l : List StreamRec) (p : StreamRec → Bool) (id : Nat) (hp : ∀ s ∈ l, s.id = id → p s = true) :
    lastWith (l.filter p) id = lastWith l id := by
  induction l with
  | nil => rfl
  | cons a t ih =>
    have iht := ih (fun s hs => hp s (by simp [hs]))
    simp only [List.filter_cons]
    by_cases hpa : p a = true
    · simp only [hpa, if_true, lastWith, iht]
    · have : a.id ≠ id := fun h => hpa (hp a (by simp) h)
      simp only [hpa, lastWith, this, if_false, Bool.false_eq_true]
      rw [iht]
      cases lastWith t id <;> rfl

/-- element-wise related lists with equal ids have related last records -/
theorem All₂.lastWith {R : StreamRec → StreamRec → Prop} {as bs : List StreamRec} (h : All₂ R as bs)
    (hid : ∀ a b, R a b → b.id = a.id) (id : Nat) :
    (∀ a, lastWith as id = some a → ∃ b, lastWith bs id = some b ∧ R a b) ∧
    (lastWith as id = none → lastWith bs id = none) := by
  induction h with
  | nil => simp [Pk.Index.lastWith]
  | @cons a b as bs hr _ ih =>
    obtain ⟨ih1, ih2⟩ := ih
    simp only [Pk.Index.lastWith]
    cases h' : Pk.Index.lastWith as id with
    | some x =>
      obtain ⟨y, hy, hxy⟩ := ih1 x h'
      simp [hy, hxy]
    | none =>
      rw [ih2 h']
      have := hid a b hr
      simp only [this]
      by_cases ha : a.id = id
      · simp [ha, hr]
      · simp [ha]

theorem All₂.of_index {α β : Type} {R : α → β → Prop} : ∀ (as : List α) (bs : List β), bs.length = as.length →
    (∀ (j : Nat) (a : α), as[j]? = some a → ∃ b, bs[j]? = some b ∧ R a b) → All₂ R as bs := by
  intro as
  induction as with
  | nil =>
    intro bs hl _
    have : bs = [] := List.length_eq_zero_iff.mp (by simpa using hl)
    subst this; exact All₂.nil
  | cons a t ih =>
    intro bs hl h
    cases bs with
    | nil => simp at hl
    | cons b bt =>
      obtain ⟨b', hb', hr⟩ := h 0 a (by simp)
      simp at hb'; subst hb'
      refine All₂.cons hr (ih bt (by simpa using hl) ?_)
      intro j x hx
      have := h (j + 1) x (by simpa using hx)
      simpa using this

/-! ## `idIndex` -/

theorem idIndex_go_spec (id : Nat) (l : List StreamRec) : ∀ (i : Nat) (acc : Option Nat),
    (lastWith l id = none → idIndex.go id l i acc = acc) ∧
    (∀ s, lastWith l id = some s → ∃ j, idIndex.go id l i acc = some (i + j) ∧ l[j]? = some s) := by
  induction l with
  | nil => intro i acc; simp [lastWith, idIndex.go]
  | cons a t ih =>
    intro i acc
    obtain ⟨ih1, ih2⟩ := ih (i + 1) (if a.id = id then some i else acc)
    simp only [lastWith, idIndex.go]
    cases h : lastWith t id with
    | some x =>
      obtain ⟨j, hj1, hj2⟩ := ih2 x h
      simp only [reduceCtorEq, false_implies, true_and]
      intro s hs
      simp at hs; subst hs
      exact ⟨j + 1, by rw [hj1]; congr 1; omega, by simpa using hj2⟩
    | none =>
      rw [ih1 h]
      by_cases ha : a.id = id
      · simp only [ha, if_true, reduceCtorEq, false_implies, true_and]
        intro s hs
        simp at hs; subst hs
        exact ⟨0, by simp, by simp⟩
      · simp [ha]

/-- `StreamByID` returns the last record with the id, provided `idMin`/`idMax` bracket the ids of the file -/
theorem streamByID_snd (r : Reader) (hr : ∀ s ∈ r.f.streams, r.idMin ≤ s.id ∧ s.id ≤ r.idMax) (id : Nat) :
    (r.streamByID id).map (·.2) = lastWith r.f.streams id := by
  unfold Reader.streamByID
  obtain ⟨h1, h2⟩ := idIndex_go_spec id r.f.streams 0 none
  split
  · rename_i hout
    rw [Option.map_none]
    symm
    rw [lastWith_none]
    intro s hs heq
    have := hr s hs
    omega
  · unfold idIndex
    cases h : lastWith r.f.streams id with
    | none => rw [h1 h]; rfl
    | some s =>
      obtain ⟨j, hj1, hj2⟩ := h2 s h
      rw [hj1]
      simp [hj2]

/-! ## the stack -/

/-- what `stackView` returns for a stack given newest first -/
def nvSpec : List Reader → Nat → Option (Option StreamView)
  | [], _ => none
  | r :: rs, id => match lastWith r.f.streams id with
    | some s => some (r.view s)
    | none => nvSpec rs id

theorem nvSpec_snoc (rs : List Reader) (r : Reader) (id : Nat) :
    nvSpec (rs ++ [r]) id = match nvSpec rs id with
      | some x => some x
      | none => (lastWith r.f.streams id).map r.view := by
  induction rs with
  | nil =>
    simp only [List.nil_append, nvSpec]
    cases lastWith r.f.streams id <;> rfl
  | cons a t ih =>
    simp only [List.cons_append, nvSpec, ih]
    cases lastWith a.f.streams id <;> rfl

theorem stackView_spec (stack : List Reader) (hs : ∀ r ∈ stack, ∀ s ∈ r.f.streams, r.idMin ≤ s.id ∧ s.id ≤ r.idMax) (id : Nat) :
    stackView stack id = nvSpec stack.reverse id := by
  induction stack with
  | nil => rfl
  | cons r rs ih =>
    have ih' := ih (fun x hx => hs x (by simp [hx]))
    have hr := streamByID_snd r (hs r (by simp)) id
    simp only [List.reverse_cons, nvSpec_snoc, ← ih']
    unfold stackView at *
    simp only [stackLookup]
    cases h : stackLookup rs id with
    | some x => simp
    | none =>
      simp only [Option.map_none, Option.map_map]
      rw [← hr, Option.map_map]
      rfl

theorem stackView_append (pre X : List Reader) (id : Nat) :
    stackView (pre ++ X) id = match stackView X id with | some x => some x | none => stackView pre id := by
  induction pre with
  | nil =>
    simp only [List.nil_append]
    cases stackView X id <;> rfl
  | cons r rs ih =>
    unfold stackView at *
    simp only [List.cons_append, stackLookup]
    cases h : stackLookup (rs ++ X) id with
    | some x =>
      rw [h] at ih
      cases hX : stackLookup X id with
      | some y => rw [hX] at ih; simpa using ih
      | none =>
        rw [hX] at ih
        simp only [Option.map_none] at ih ⊢
        cases hrs : stackLookup rs id with
        | some z => rw [hrs] at ih; simpa using ih
        | none => rw [hrs] at ih; simp at ih
    | none =>
      rw [h] at ih
      cases hX : stackLookup X id with
      | some y => rw [hX] at ih; simp at ih
      | none =>
        rw [hX] at ih
        simp only [Option.map_none] at ih ⊢
        cases hrs : stackLookup rs id with
        | some z => rw [hrs] at ih; simp at ih
        | none => rfl

end Pk.Index
