/-
  Helper lemmas for Pk/Props/C05Reasm.lean, target (4): the data phase of a single conversation —
  both directions share one stream.
-/
import Pk.Proofs.ImportReasmConv3

namespace Pk.Proofs.ImportReasm
open Pk.Import

/-- direction of a packet of the conversation: `true` = server → client -/
def pdir (e : Endpoints) (p : Pkt) : Bool := decide (isS2C e p)

theorem pdir_c2s {e : Endpoints} (hd : e.Distinct) {p : Pkt} (h : isC2S e p) : pdir e p = false := by
  obtain ⟨_, p1, p2, p3, p4⟩ := h
  unfold pdir
  rw [decide_eq_false_iff_not]
  rintro ⟨_, q1, q2, q3, q4⟩
  exact hd ⟨by rw [← p1, q1], by rw [← p3, q3]⟩

theorem pdir_s2c {e : Endpoints} {p : Pkt} (h : isS2C e p) : pdir e p = true := by
  unfold pdir; simp [h]

/-- the parameters of the data phase: endpoints, first data sequence number and byte string of
    each direction, a time `t0` that no packet precedes -/
structure ConvParams where
  e : Endpoints
  icn : Nat
  isn : Nat
  Bc : Bytes
  Bs : Bytes
  t0 : Nat

/-- a packet of the data phase: a segment (possibly without payload) of the client's or of the
    server's byte string, not before `t0` and at most the inactivity timeout after it -/
def BodyPkt (cp : ConvParams) (p : Pkt) : Prop :=
  ((isC2S cp.e p ∧ SegPkt cp.icn cp.Bc p) ∨ (isS2C cp.e p ∧ SegPkt cp.isn cp.Bs p)) ∧
  cp.t0 ≤ p.ts ∧ p.ts ≤ cp.t0 + timeout

instance (cp : ConvParams) (p : Pkt) : Decidable (BodyPkt cp p) := by unfold BodyPkt; infer_instance

/-- `Chunks2 cp n0 done cc cs chunks`: the chunks (newest first) delivered while the packets `done`
    were fed cut `Bc[0..cc)` and `Bs[0..cs)` into consecutive non-empty pieces, interleaved in the
    order of delivery; every piece is attributed to a packet of its own direction (number `n0 + k`,
    `k` its position in `done`) that carried the first byte of the piece; packet numbers increase -/
inductive Chunks2 (cp : ConvParams) (n0 : Nat) (done : List Pkt) : Nat → Nat → List (Nat × Bytes) → Prop
  | nil : Chunks2 cp n0 done 0 0 []
  | c2s {cc cs cc' k : Nat} {p : Pkt} {chunks : List (Nat × Bytes)} :
      Chunks2 cp n0 done cc cs chunks → cc < cc' → cc' ≤ cp.Bc.length → done[k]? = some p → isC2S cp.e p →
      pOff cp.icn p ≤ cc → cc < pEnd cp.icn p → pEnd cp.icn p ≤ cc' → (∀ ch ∈ chunks, ch.1 < n0 + k) →
      Chunks2 cp n0 done cc' cs ((n0 + k, slice cp.Bc cc cc') :: chunks)
  | s2c {cc cs cs' k : Nat} {p : Pkt} {chunks : List (Nat × Bytes)} :
      Chunks2 cp n0 done cc cs chunks → cs < cs' → cs' ≤ cp.Bs.length → done[k]? = some p → isS2C cp.e p →
      pOff cp.isn p ≤ cs → cs < pEnd cp.isn p → pEnd cp.isn p ≤ cs' → (∀ ch ∈ chunks, ch.1 < n0 + k) →
      Chunks2 cp n0 done cc cs' ((n0 + k, slice cp.Bs cs cs') :: chunks)

theorem Chunks2.mono {cp n0 done cc cs chunks} (h : Chunks2 cp n0 done cc cs chunks) (more : List Pkt) :
    Chunks2 cp n0 (done ++ more) cc cs chunks := by
  have hget : ∀ {k : Nat} {p : Pkt}, done[k]? = some p → (done ++ more)[k]? = some p := by
    intro k p h3
    rw [List.getElem?_append_left (List.getElem?_eq_some_iff.mp h3).1]; exact h3
  induction h with
  | nil => exact .nil
  | c2s _ h1 h2 h3 h4 h5 h6 h7 h8 ih => exact .c2s ih h1 h2 (hget h3) h4 h5 h6 h7 h8
  | s2c _ h1 h2 h3 h4 h5 h6 h7 h8 ih => exact .s2c ih h1 h2 (hget h3) h4 h5 h6 h7 h8

theorem Chunks2.lt {cp n0 done cc cs chunks} (h : Chunks2 cp n0 done cc cs chunks) :
    ∀ ch ∈ chunks, ch.1 < n0 + done.length := by
  induction h with
  | nil => intro ch hm; cases hm
  | c2s _ _ _ h3 _ _ _ _ _ ih =>
    intro ch hm
    rcases List.mem_cons.mp hm with rfl | hm
    · have := (List.getElem?_eq_some_iff.mp h3).1; simp only; omega
    · exact ih ch hm
  | s2c _ _ _ h3 _ _ _ _ _ ih =>
    intro ch hm
    rcases List.mem_cons.mp hm with rfl | hm
    · have := (List.getElem?_eq_some_iff.mp h3).1; simp only; omega
    · exact ih ch hm

/-- the stream of the conversation after the handshake stream `hs`, the data-phase packets `done`
    and the delivered `chunks` -/
def convStream (cp : ConvParams) (hs : Stream) (done : List Pkt) (chunks : List (Nat × Bytes)) : Stream :=
  { hs with pktsRev := (done.map (fun p => (p.ref, pdir cp.e p))).reverse ++ hs.pktsRev,
            npkts := hs.npkts + done.length,
            dataRev := chunks ++ hs.dataRev }

/-- invariant of the data phase -/
structure ConvInv (cp : ConvParams) (hs : Stream) (done : List Pkt) (r : RState) : Prop where
  ex : ∃ (c : TcpConn) (u : Bool) (cc cs : Nat) (chunks : List (Nat × Bytes)),
    r = { streams := #[convStream cp hs done chunks], tcp := [c], udp := [], unmodelled := u } ∧
    ConnOf cp.e c ∧ HalfInv cp.icn cp.Bc cc c.c2s ∧ HalfInv cp.isn cp.Bs cs c.s2c ∧
    cp.t0 ≤ c.c2s.lastSeen ∧ (∀ pg ∈ c.c2s.queue, cp.t0 ≤ pg.ref.ts) ∧ (∀ pg ∈ c.s2c.queue, cp.t0 ≤ pg.ref.ts) ∧
    Chunks2 cp hs.npkts done cc cs chunks ∧
    (∀ x, (∃ p ∈ done, isC2S cp.e p ∧ pOff cp.icn p ≤ x ∧ x < pEnd cp.icn p) → x < cc ∨ Covered cp.icn c.c2s.queue x) ∧
    (∀ x, (∃ p ∈ done, isS2C cp.e p ∧ pOff cp.isn p ≤ x ∧ x < pEnd cp.isn p) → x < cs ∨ Covered cp.isn c.s2c.queue x)

theorem touch_inv {isn : Nat} {B : Bytes} {c : Nat} {h : Half} (hi : HalfInv isn B c h) (ts : Nat) :
    HalfInv isn B c (touch h ts) ∧ (touch h ts).queue = h.queue ∧ h.lastSeen ≤ (touch h ts).lastSeen := by
  unfold touch
  split
  · exact ⟨⟨hi.opn, hi.nxt, hi.le, hi.q⟩, rfl, by simp only; omega⟩
  · exact ⟨hi, rfl, Nat.le_refl _⟩

theorem convStream_addPkt (cp : ConvParams) (hs : Stream) (done : List Pkt) (chunks : List (Nat × Bytes)) (p : Pkt) :
    (convStream cp hs done chunks).addPkt p.ref (pdir cp.e p) = convStream cp hs (done ++ [p]) chunks := by
  simp [convStream, Stream.addPkt, Nat.add_assoc]

theorem convStream_record (cp : ConvParams) (hs : Stream) (done : List Pkt) (chunks : List (Nat × Bytes)) (p : Pkt)
    (b : Bytes) :
    Stream.record (convStream cp hs done chunks) p.ref (pdir cp.e p) b =
      convStream cp hs (done ++ [p]) ((hs.npkts + done.length, b) :: chunks) := by
  simp [convStream, Stream.record, Nat.add_assoc]

/-- one packet of the data phase keeps the invariant -/
theorem convInv_step (cp : ConvParams) (hs : Stream) (hd : cp.e.Distinct)
    (hfsm : hs.fsm = { state := .established, dir := false })
    (hlc : SeqLinear cp.icn cp.Bc.length) (hls : SeqLinear cp.isn cp.Bs.length)
    (done : List Pkt) (r : RState) (p : Pkt) (hinv : ConvInv cp hs done r) (hp : BodyPkt cp p) :
    ConvInv cp hs (done ++ [p]) (reasmPacket r p) := by
  obtain ⟨c, u, cc, cs, chunks, hr, hconn, hic, his, hls0, hqc, hqs, hch, hcovc, hcovs⟩ := hinv
  obtain ⟨hdir, ht0, ht1⟩ := hp
  have hfresh : Fresh c p.ts := by
    refine ⟨?_, ?_, by omega⟩
    · intro pg hm; have := hqc pg hm; omega
    · intro pg hm; have := hqs pg hm; omega
  have hfsm' : (convStream cp hs done chunks).fsm = { state := .established, dir := false } := hfsm
  have hlen : ∀ ch ∈ chunks, ch.1 < hs.npkts + done.length := hch.lt
  have hget : (done ++ [p])[done.length]? = some p := by simp
  subst hr
  rcases hdir with ⟨hc2s, hseg⟩ | ⟨hs2c, hseg⟩
  · -- client → server
    have hudp : p.udp = false := hc2s.1
    obtain ⟨u', hstep⟩ := tcpPacket_c2s cp.e c (convStream cp hs done chunks) [] u p hconn hc2s hfresh hfsm'
      hseg.1 his.opn
    obtain ⟨t1, t2, t3⟩ := touch_inv hic p.ts
    obtain ⟨c', h', e1, e2, e3, e4, e5, e6⟩ := feed_step hlc false (convStream cp hs done chunks) (touch c.c2s p.ts) p cc t1 hseg
    have hrefs := assembleHalf_refs (fun r => cp.t0 ≤ r.ts) ((convStream cp hs done chunks).addPkt p.ref false)
      (touch c.c2s p.ts) p (by rw [t2]; exact hqc) ht0
    have hfeed : feed false (convStream cp hs done chunks, touch c.c2s p.ts) p =
      assembleHalf ((convStream cp hs done chunks).addPkt p.ref false) (touch c.c2s p.ts) p := rfl
    rw [← hfeed, e1] at hrefs
    have hpd := pdir_c2s hd hc2s
    unfold reasmPacket
    rw [if_neg (by simp [hudp]), hstep, e1]
    have hcovc' : ∀ x, (∃ q ∈ done ++ [p], isC2S cp.e q ∧ pOff cp.icn q ≤ x ∧ x < pEnd cp.icn q) →
        x < c' ∨ Covered cp.icn h'.queue x := by
      intro x ⟨q, hm, hq1, hq2⟩
      rcases List.mem_append.mp hm with hm | hm
      · rcases hcovc x ⟨q, hm, hq1, hq2⟩ with h1 | h1
        · exact e5 x (Or.inl h1)
        · exact e5 x (Or.inr (Or.inl (by rw [t2]; exact h1)))
      · rw [List.mem_singleton.mp hm] at hq2
        exact e5 x (Or.inr (Or.inr hq2))
    have hcovs' : ∀ x, (∃ q ∈ done ++ [p], isS2C cp.e q ∧ pOff cp.isn q ≤ x ∧ x < pEnd cp.isn q) →
        x < cs ∨ Covered cp.isn c.s2c.queue x := by
      intro x ⟨q, hm, hq1, hq2⟩
      rcases List.mem_append.mp hm with hm | hm
      · exact hcovs x ⟨q, hm, hq1, hq2⟩
      · rw [List.mem_singleton.mp hm] at hq1
        have := pdir_s2c hq1
        rw [hpd] at this; cases this
    by_cases hcc : c' = cc
    · subst hcc
      refine ⟨{ c with c2s := h' }, u', c', cs, chunks, ?_, hconn, e2, his, ?_, hrefs.1, hqs, hch.mono [p], hcovc', hcovs'⟩
      · simp only [if_true]
        rw [← hpd, convStream_addPkt]
      · show cp.t0 ≤ h'.lastSeen
        rw [e6]; omega
    · obtain ⟨k1, k2, k3⟩ := e4 (by omega)
      refine ⟨{ c with c2s := h' }, u', c', cs, (hs.npkts + done.length, slice cp.Bc cc c') :: chunks, ?_, hconn, e2, his,
        ?_, hrefs.1, hqs, ?_, hcovc', hcovs'⟩
      · simp only [if_neg hcc]
        rw [← hpd, convStream_record]
      · show cp.t0 ≤ h'.lastSeen
        rw [e6]; omega
      · exact .c2s (hch.mono [p]) (by omega) e2.le hget hc2s k1 k2 k3 hlen
  · -- server → client
    have hudp : p.udp = false := hs2c.1
    obtain ⟨u', hstep⟩ := tcpPacket_s2c cp.e c (convStream cp hs done chunks) [] u p hconn hd hs2c hfresh hfsm'
      hseg.1 hic.opn
    obtain ⟨t1, t2, t3⟩ := touch_inv his p.ts
    obtain ⟨c', h', e1, e2, e3, e4, e5, e6⟩ := feed_step hls true (convStream cp hs done chunks) (touch c.s2c p.ts) p cs t1 hseg
    have hrefs := assembleHalf_refs (fun r => cp.t0 ≤ r.ts) ((convStream cp hs done chunks).addPkt p.ref true)
      (touch c.s2c p.ts) p (by rw [t2]; exact hqs) ht0
    have hfeed : feed true (convStream cp hs done chunks, touch c.s2c p.ts) p =
      assembleHalf ((convStream cp hs done chunks).addPkt p.ref true) (touch c.s2c p.ts) p := rfl
    rw [← hfeed, e1] at hrefs
    have hpd := pdir_s2c hs2c
    unfold reasmPacket
    rw [if_neg (by simp [hudp]), hstep, e1]
    have hcovs' : ∀ x, (∃ q ∈ done ++ [p], isS2C cp.e q ∧ pOff cp.isn q ≤ x ∧ x < pEnd cp.isn q) →
        x < c' ∨ Covered cp.isn h'.queue x := by
      intro x ⟨q, hm, hq1, hq2⟩
      rcases List.mem_append.mp hm with hm | hm
      · rcases hcovs x ⟨q, hm, hq1, hq2⟩ with h1 | h1
        · exact e5 x (Or.inl h1)
        · exact e5 x (Or.inr (Or.inl (by rw [t2]; exact h1)))
      · rw [List.mem_singleton.mp hm] at hq2
        exact e5 x (Or.inr (Or.inr hq2))
    have hcovc' : ∀ x, (∃ q ∈ done ++ [p], isC2S cp.e q ∧ pOff cp.icn q ≤ x ∧ x < pEnd cp.icn q) →
        x < cc ∨ Covered cp.icn c.c2s.queue x := by
      intro x ⟨q, hm, hq1, hq2⟩
      rcases List.mem_append.mp hm with hm | hm
      · exact hcovc x ⟨q, hm, hq1, hq2⟩
      · rw [List.mem_singleton.mp hm] at hq1
        have := pdir_c2s hd hq1
        rw [hpd] at this; cases this
    by_cases hcc : c' = cs
    · subst hcc
      refine ⟨{ c with s2c := h' }, u', cc, c', chunks, ?_, hconn, hic, e2, hls0, hqc, hrefs.1, hch.mono [p], hcovc', hcovs'⟩
      simp only [if_true]
      rw [← hpd, convStream_addPkt]
    · obtain ⟨k1, k2, k3⟩ := e4 (by omega)
      refine ⟨{ c with s2c := h' }, u', cc, c', (hs.npkts + done.length, slice cp.Bs cs c') :: chunks, ?_, hconn, hic, e2,
        hls0, hqc, hrefs.1, ?_, hcovc', hcovs'⟩
      · simp only [if_neg hcc]
        rw [← hpd, convStream_record]
      · exact .s2c (hch.mono [p]) (by omega) e2.le hget hs2c k1 k2 k3 hlen

end Pk.Proofs.ImportReasm
