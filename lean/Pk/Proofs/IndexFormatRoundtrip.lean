/-
  What `AddStream` does to the writer, and folds of it over stream sets (helper lemmas for the C01
  round-trip theorems).
-/
import Pk.Model.IndexFormat
import Pk.Proofs.IndexFormatHosts
import Pk.Proofs.IndexFormatLookup
namespace Pk.Index
open Pk Pk.Bytes

/-- everything `AddStream` does to the writer when it accepts a stream -/
theorem addStream_spec (w w' : Writer) (s : StreamIn) (h : w.addStream s = .ok (w', true)) :
    ∃ p0 pl gid cid sid cds recs,
      s.packets.head? = some p0 ∧ s.packets.getLast? = some pl ∧
      placeHosts w.hostGroups s.client s.server = some (w'.hostGroups, gid, cid, sid) ∧
      chunkDirs s.packets s.data = some cds ∧
      w'.ref = (w.rebase (unixSec p0.ts)).1 ∧
      w'.streams = (w.rebase (unixSec p0.ts)).2 ++ [mkStreamRec w s w'.ref p0 pl gid cid sid cds] ∧
      w'.dataLen = w.dataLen + (streamBlob cds).length ∧ w'.blobs = w.blobs ++ [streamBlob cds] ∧
      w'.packets = w.packets ++ recs ∧ recs ≠ [] := by
  unfold Writer.addStream at h
  split at h
  · simp at h
  · split at h
    · rename_i p0 pl hp0 hpl
      simp only at h
      split at h
      · simp at h
      · rename_i hgs gid cid sid hp
        split at h
        · simp at h
        · rename_i cds hcd
          split at h
          · simp at h
          · rename_i hne
            simp at h
            subst h
            refine ⟨p0, pl, gid, cid, sid, cds, _, hp0, hpl, hp, hcd, rfl, rfl, rfl, rfl, rfl, ?_⟩
            intro hnil
            apply hne
            have : ∀ l : List PacketRec, clearLastHasNext l = [] → l = [] := by
              intro l; cases l with
              | nil => simp
              | cons a t => cases t <;> simp [clearLastHasNext]
            have h1 := this _ hnil
            have : ∀ l : List PacketRec, (setSkips l).1 = [] → l = [] := by
              intro l; cases l with
              | nil => simp
              | cons a t => cases t <;> simp [setSkips]
            simp [this _ h1]
    · simp at h

/-- `AddStream` over a whole stream set; `none` when one is refused or the code panics -/
def Writer.addAll : Writer → List StreamIn → Option Writer
  | w, [] => some w
  | w, s :: ss => match w.addStream s with
    | .ok (w', true) => addAll w' ss
    | _ => none

theorem rebase_ids (w : Writer) (fs : Nat) : (w.rebase fs).2.map (·.id) = w.streams.map (·.id) := by
  unfold Writer.rebase
  split
  · rfl
  · split
    · simp [List.map_map, Function.comp_def]
    · rfl

theorem addAll_ids (ss : List StreamIn) : ∀ (w w' : Writer), w.addAll ss = some w' →
    w'.streams.map (·.id) = w.streams.map (·.id) ++ ss.map (·.id) := by
  induction ss with
  | nil => intro w w' h; simp [Writer.addAll] at h; subst h; simp
  | cons s ss ih =>
    intro w w' h
    simp only [Writer.addAll] at h
    split at h
    · rename_i w1 h1
      obtain ⟨p0, pl, gid, cid, sid, cds, recs, _, _, _, _, _, hst, _⟩ := addStream_spec w w1 s h1
      rw [ih w1 w' h, hst]
      simp [rebase_ids, mkStreamRec]
    · simp at h

end Pk.Index
