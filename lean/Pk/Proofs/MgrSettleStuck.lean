/- Helper lemmas for C09: the "no stuck work" invariant through every event. -/
import Pk.Model.Manager
import Pk.Proofs.MgrSettleFrame
namespace Pk.Proofs.MgrSettle
open Pk.Mgr

/-! ### string-keyed tables -/

theorem sget_nil {α} (k : String) : sget ([] : List (String × α)) k = none := rfl

theorem sget_cons {α} (a : String × α) (l : List (String × α)) (k : String) :
    sget (a :: l) k = if a.1 = k then some a.2 else sget l k := by
  unfold sget
  rw [List.find?_cons]
  by_cases h : a.1 = k
  · have : (a.1 == k) = true := by simpa using h
    simp [h]
  · have : (a.1 == k) = false := by simpa using h
    simp [this, h]

theorem sget_sins {α} (k : String) (v : α) (l : List (String × α)) (k' : String) :
    sget (sins k v l) k' = if k = k' then some v else sget l k' := by
  induction l with
  | nil => simp [sins, sget_cons, sget_nil]
  | cons a l ih =>
    obtain ⟨ak, av⟩ := a
    unfold sins
    split
    · simp [sget_cons]
    · split
      · rename_i h1 h2
        subst h2
        simp only [sget_cons]
        split <;> rfl
      · rename_i h1 h2
        simp only [sget_cons, ih]
        by_cases h3 : ak = k'
        · subst h3; simp [h2]
        · simp [h3]

theorem mem_sins {α} (k : String) (v : α) (l : List (String × α)) (x : String × α)
    (h : x ∈ sins k v l) : x = (k, v) ∨ x ∈ l := by
  induction l with
  | nil => simpa [sins] using h
  | cons a l ih =>
    obtain ⟨ak, av⟩ := a
    unfold sins at h
    split at h
    · simpa using h
    · split at h
      · simp only [List.mem_cons] at h ⊢
        rcases h with h | h
        · exact Or.inl h
        · exact Or.inr (Or.inr h)
      · simp only [List.mem_cons] at h ⊢
        rcases h with h | h
        · exact Or.inr (Or.inl h)
        · rcases ih h with h | h
          · exact Or.inl h
          · exact Or.inr (Or.inr h)

theorem sget_some_mem {α} (l : List (String × α)) (k : String) (v : α) (h : sget l k = some v) :
    (k, v) ∈ l := by
  induction l with
  | nil => simp [sget_nil] at h
  | cons a l ih =>
    rw [sget_cons] at h
    split at h
    · rename_i h1
      obtain ⟨ak, av⟩ := a
      simp only [Option.some.injEq] at h
      simp only at h1
      subst h1; subst h
      exact List.mem_cons_self
    · exact List.mem_cons_of_mem _ (ih h)

theorem sget_sdel {α} (l : List (String × α)) (k k' : String) :
    sget (sdel l k) k' = if k' = k then none else sget l k' := by
  induction l with
  | nil => simp [sdel, sget_nil]
  | cons a l ih =>
    unfold sdel at ih ⊢
    rw [List.filter_cons]
    by_cases h1 : a.1 = k
    · simp only [h1, bne_self_eq_false, Bool.false_eq_true, if_false, ih, sget_cons]
      by_cases h2 : k' = k
      · simp [h2]
      · have : ¬ k = k' := fun h => h2 h.symm
        simp [h2, this]
    · have : (a.1 != k) = true := by simpa using h1
      simp only [this, if_true, sget_cons, ih]
      by_cases h2 : a.1 = k'
      · have : ¬ k' = k := by rw [← h2]; exact h1
        simp [h2, this]
      · simp [h2]

theorem mem_sdel {α} (l : List (String × α)) (k : String) (x : String × α) :
    x ∈ sdel l k ↔ x ∈ l ∧ x.1 ≠ k := by
  simp [sdel]

theorem diff_ne_nil (a b : IdSet) (h : diff a b ≠ []) : a ≠ [] := by
  intro ha; subst ha; exact h rfl
theorem inter_ne_nil (a b : IdSet) (h : inter a b ≠ []) : a ≠ [] := by
  intro ha; subst ha; exact h rfl


/-! ### eligibility as a function of the tag table -/

def eligT (tags : List (String × Tag)) (t : Tag) : Bool :=
  !t.unc.isEmpty && t.refs.all (fun r => (tagUnc tags r).isEmpty)

theorem eligible_eq (s : St) (t : Tag) : eligible s t = eligT s.tags t := rfl

theorem eligT_iff (tags : List (String × Tag)) (t : Tag) :
    eligT tags t = true ↔ t.unc ≠ [] ∧ ∀ r ∈ t.refs, tagUnc tags r = [] := by
  simp [eligT, List.isEmpty_iff]

def TagFree (tags : List (String × Tag)) (tag : Bool) : Prop :=
  (∃ nt ∈ tags, eligT tags nt.2 = true) → tag = true

def ConvFree (convs : List String) (toconv : List (String × IdSet)) (convert : Bool) : Prop :=
  ∀ c ∈ convs, (sget toconv c).getD [] ≠ [] → convert = true

/-- same body as `Pk.Props.C09.NoStuck` -/
def NoStuck (s : St) : Prop := TagFree s.tags s.tag ∧ ConvFree s.convs s.toconv s.convert

theorem NoStuck.congr {s X : St} (h : NoStuck s) (e1 : X.tags = s.tags) (e2 : X.tag = s.tag)
    (e3 : X.convs = s.convs) (e4 : X.toconv = s.toconv) (e5 : X.convert = s.convert) : NoStuck X := by
  unfold NoStuck; rw [e1, e2, e3, e4, e5]; exact h

theorem tagUnc_sins (n : String) (t : Tag) (l : List (String × Tag)) (r : String) :
    tagUnc (sins n t l) r = if n = r then t.unc else tagUnc l r := by
  unfold tagUnc; rw [sget_sins]; split <;> rfl

theorem tagUnc_sdel (n : String) (l : List (String × Tag)) (r : String) :
    tagUnc (sdel l n) r = if r = n then [] else tagUnc l r := by
  unfold tagUnc; rw [sget_sdel]; split <;> rfl

/-- `l'` has the same pending sets as `l`, and every entry of `l'` looks (pending set and
    references) like an entry of `l` -/
structure Sim (l l' : List (String × Tag)) : Prop where
  unc : ∀ r, tagUnc l' r = tagUnc l r
  mem : ∀ nt' ∈ l', ∃ nt ∈ l, nt.2.unc = nt'.2.unc ∧ nt.2.refs = nt'.2.refs

theorem Sim.refl (l : List (String × Tag)) : Sim l l :=
  ⟨fun _ => rfl, fun nt h => ⟨nt, h, rfl, rfl⟩⟩

theorem Sim.trans {a b c : List (String × Tag)} (h1 : Sim a b) (h2 : Sim b c) : Sim a c := by
  refine ⟨fun r => (h2.unc r).trans (h1.unc r), fun nt h => ?_⟩
  obtain ⟨nt1, hm1, e1, e2⟩ := h2.mem nt h
  obtain ⟨nt2, hm2, e3, e4⟩ := h1.mem nt1 hm1
  exact ⟨nt2, hm2, e3.trans e1, e4.trans e2⟩

theorem eligT_congr {l l' : List (String × Tag)} {t t' : Tag} (hu : ∀ r, tagUnc l' r = tagUnc l r)
    (e1 : t.unc = t'.unc) (e2 : t.refs = t'.refs) : eligT l' t' = eligT l t := by
  unfold eligT
  rw [e1, e2]
  congr 2
  funext r
  rw [hu]

theorem Sim.tagFree {l l' : List (String × Tag)} {tag : Bool} (h : Sim l l') (hf : TagFree l tag) :
    TagFree l' tag := by
  rintro ⟨nt', hm, he⟩
  obtain ⟨nt, hm1, e1, e2⟩ := h.mem nt' hm
  exact hf ⟨nt, hm1, by rw [← eligT_congr h.unc e1 e2]; exact he⟩

theorem sim_sins (l : List (String × Tag)) (n : String) (t t' : Tag) (h : sget l n = some t)
    (e1 : t.unc = t'.unc) (e2 : t.refs = t'.refs) : Sim l (sins n t' l) := by
  refine ⟨fun r => ?_, fun nt hm => ?_⟩
  · rw [tagUnc_sins]
    split
    · rename_i hr; subst hr
      simp [tagUnc, h, e1]
    · rfl
  · rcases mem_sins _ _ _ _ hm with hm | hm
    · subst hm
      exact ⟨(n, t), sget_some_mem _ _ _ h, e1, e2⟩
    · exact ⟨nt, hm, rfl, rfl⟩

/-- inserting a fully decided tag under a fresh name -/
theorem tagFree_sins_fresh (l : List (String × Tag)) (n : String) (t : Tag) (tag : Bool)
    (h : sget l n = none) (hu : t.unc = []) (hf : TagFree l tag) : TagFree (sins n t l) tag := by
  have hunc : ∀ r, tagUnc (sins n t l) r = tagUnc l r := by
    intro r
    rw [tagUnc_sins]
    split
    · rename_i hr; subst hr
      simp [tagUnc, h, hu]
    · rfl
  rintro ⟨nt', hm, he⟩
  rcases mem_sins _ _ _ _ hm with hm | hm
  · subst hm
    rw [eligT_iff] at he
    exact absurd hu he.1
  · exact hf ⟨nt', hm, by rw [← eligT_congr hunc rfl rfl]; exact he⟩

def NoRef (l : List (String × Tag)) (name : String) : Prop := ∀ nt ∈ l, name ∉ nt.2.refs

theorem Sim.noRef {l l' : List (String × Tag)} {name : String} (h : Sim l l') (hn : NoRef l name) :
    NoRef l' name := by
  intro nt' hm
  obtain ⟨nt, hm1, _, e2⟩ := h.mem nt' hm
  rw [← e2]; exact hn nt hm1

theorem tagFree_sdel (l : List (String × Tag)) (name : String) (tag : Bool)
    (hn : NoRef l name) (hf : TagFree l tag) : TagFree (sdel l name) tag := by
  rintro ⟨nt, hm, he⟩
  have hm' := ((mem_sdel _ _ _).mp hm).1
  refine hf ⟨nt, hm', ?_⟩
  rw [eligT_iff] at he ⊢
  refine ⟨he.1, fun r hr => ?_⟩
  have := he.2 r hr
  rw [tagUnc_sdel] at this
  have hne : r ≠ name := fun e => hn nt hm' (e ▸ hr)
  simpa [hne] using this

theorem tagFree_rename (l : List (String × Tag)) (name new : String) (t : Tag) (tag : Bool)
    (ht : sget l name = some t) (hnew : sget l new = none)
    (hn : NoRef l name) (hf : TagFree l tag) : TagFree (sins new t (sdel l name)) tag := by
  have key : ∀ t0 : Tag, name ∉ t0.refs → eligT (sins new t (sdel l name)) t0 = true → eligT l t0 = true := by
    intro t0 h0 he
    rw [eligT_iff] at he ⊢
    refine ⟨he.1, fun r hr => ?_⟩
    have := he.2 r hr
    rw [tagUnc_sins, tagUnc_sdel] at this
    have hne : r ≠ name := fun e => h0 (e ▸ hr)
    by_cases h1 : new = r
    · subst h1; simp [tagUnc, hnew]
    · simpa [h1, hne] using this
  rintro ⟨nt, hm, he⟩
  rcases mem_sins _ _ _ _ hm with hm | hm
  · subst hm
    have hm' := sget_some_mem _ _ _ ht
    exact hf ⟨(name, t), hm', key t (hn _ hm') he⟩
  · have hm' := ((mem_sdel _ _ _).mp hm).1
    exact hf ⟨nt, hm', key nt.2 (hn _ hm') he⟩


/-! ### helpers that keep the eligibility picture -/

theorem sim_foldl {β} (f : St → β → St) (hf : ∀ s x, Sim s.tags (f s x).tags) (l : List β) (X : St) :
    Sim X.tags (l.foldl f X).tags := by
  induction l generalizing X with
  | nil => exact Sim.refl _
  | cons a l ih => exact (hf X a).trans (ih _)

theorem sim_addRefBy (s : St) (a b : String) : Sim s.tags (addRefBy s a b).tags := by
  unfold addRefBy
  split
  · exact sim_sins _ _ _ _ (by assumption) (by rfl) (by rfl)
  · exact Sim.refl _

theorem sim_delRefBy (s : St) (a b : String) : Sim s.tags (delRefBy s a b).tags := by
  unfold delRefBy
  split
  · exact sim_sins _ _ _ _ (by assumption) (by rfl) (by rfl)
  · exact Sim.refl _

theorem sim_attachConv (s : St) (n c : String) : Sim s.tags (attachConv s n c).1.tags := by
  unfold attachConv
  split
  · exact Sim.refl _
  · split
    · exact Sim.refl _
    · split
      · exact Sim.refl _
      · exact sim_sins _ _ _ _ (by assumption) (by rfl) (by rfl)

/-! ### what the job starters establish -/

theorem startTagging_free (s : St) (c : Option String) :
    TagFree (startTagging s c).tags (startTagging s c).tag := by
  unfold startTagging
  split
  · intro _; assumption
  · split
    · rename_i h
      rintro ⟨nt, hm, he⟩
      have : (s.tags.any fun nt => eligible s nt.2) = true := List.any_eq_true.mpr ⟨nt, hm, he⟩
      simp [this] at h
    · rename_i h
      dsimp only
      split
      · split
        · rename_i hfind
          have h' : (s.tags.any fun nt => eligible s nt.2) = true := by simpa using h
          obtain ⟨nt, hm, he⟩ := List.any_eq_true.mp h'
          have := List.find?_eq_none.mp hfind nt hm
          exact absurd he this
        · intro _; rfl
      · intro _; rfl

theorem startConverter_free (s : St) :
    ConvFree (startConverter s).convs (startConverter s).toconv (startConverter s).convert := by
  unfold startConverter
  split
  · intro _ _ _; assumption
  · dsimp only
    split
    · rename_i h
      intro c hc hp
      have h' := List.isEmpty_iff.mp h
      have := List.filterMap_eq_nil_iff.mp h' c hc
      simp only [ite_eq_left_iff, reduceCtorEq, imp_false, Bool.not_eq_true] at this
      exact absurd (List.isEmpty_iff.mp (by simpa using this)) hp
    · intro _ _ _; rfl

theorem nostuck_finish (X : St) (c : Option String) : NoStuck (startConverter (startTagging X c)) := by
  refine ⟨?_, startConverter_free _⟩
  rw [startConverter_tags, startConverter_tag]
  exact startTagging_free X c

theorem nostuck_startMerge (X : St) (h : NoStuck X) : NoStuck (startMerge X) :=
  h.congr (by simp) (by simp) (by simp) (by simp) (by simp)

theorem nostuck_release (X : St) (fs : List Nat) (h : NoStuck X) : NoStuck (release X fs) :=
  h.congr (by simp) (by simp) (by simp) (by simp) (by simp)


/-! ### `detachConv` (with `converterOutputDropped`) -- CHANGED (dropped)

`detachConv` no longer keeps the eligibility picture (`sim_detachConv` is false now: `outputDropped`
makes payload tags pending).  What it keeps: the references of every entry (`RefsOf`), and `TagFree`
(`outputDropped` ends with `startTagging`). -/

/-- every entry of `l'` has the references of an entry of `l` -/
def RefsOf (l l' : List (String × Tag)) : Prop := ∀ nt' ∈ l', ∃ nt ∈ l, nt.2.refs = nt'.2.refs

theorem RefsOf.refl (l : List (String × Tag)) : RefsOf l l := fun nt h => ⟨nt, h, rfl⟩

theorem RefsOf.trans {a b c : List (String × Tag)} (h1 : RefsOf a b) (h2 : RefsOf b c) : RefsOf a c := by
  intro nt h
  obtain ⟨nt1, hm1, e1⟩ := h2 nt h
  obtain ⟨nt2, hm2, e2⟩ := h1 nt1 hm1
  exact ⟨nt2, hm2, e2.trans e1⟩

theorem Sim.refsOf {l l' : List (String × Tag)} (h : Sim l l') : RefsOf l l' := by
  intro nt hm
  obtain ⟨nt1, hm1, _, e2⟩ := h.mem nt hm
  exact ⟨nt1, hm1, e2⟩

theorem RefsOf.noRef {l l' : List (String × Tag)} {name : String} (h : RefsOf l l') (hn : NoRef l name) :
    NoRef l' name := by
  intro nt' hm
  obtain ⟨nt, hm1, e2⟩ := h nt' hm
  rw [← e2]; exact hn nt hm1

theorem refsOf_sins (l : List (String × Tag)) (n : String) (t t' : Tag) (h : sget l n = some t)
    (e2 : t.refs = t'.refs) : RefsOf l (sins n t' l) := by
  intro nt hm
  rcases mem_sins _ _ _ _ hm with hm | hm
  · subst hm
    exact ⟨(n, t), sget_some_mem _ _ _ h, e2⟩
  · exact ⟨nt, hm, rfl⟩

theorem inheritOne_refs (all : Nat) (T : List (String × Tag)) (t : Tag) : (inheritOne all T t).refs = t.refs := by
  unfold inheritOne
  split
  · rfl
  · split <;> rfl

theorem refsOf_inheritPass (all : Nat) (T0 : List (String × Tag)) (l : List (String × Tag))
    (acc : List (String × Tag) × List String) (h : RefsOf T0 acc.1) :
    RefsOf T0 (l.foldl (fun (acc : List (String × Tag) × List String) (nt : String × Tag) =>
      let (tags, resolved) := acc
      let n := nt.1
      if resolved.contains n then acc
      else match sget tags n with
        | none => acc
        | some t =>
          if t.refs.all (fun r => resolved.contains r) then
            (sins n (inheritOne all tags t) tags, n :: resolved)
          else acc) acc).1 := by
  induction l generalizing acc with
  | nil => exact h
  | cons a l ih =>
    simp only [List.foldl_cons]
    apply ih
    obtain ⟨tg, rs⟩ := acc
    dsimp only
    split
    · exact h
    · split
      · exact h
      · rename_i t ht
        split
        · exact h.trans (refsOf_sins _ _ _ _ ht (inheritOne_refs _ _ _).symm)
        · exact h

theorem refsOf_inheritLoop (all : Nat) (T0 : List (String × Tag)) :
    ∀ fuel tags resolved, RefsOf T0 tags → RefsOf T0 (inheritLoop all fuel tags resolved).1 := by
  intro fuel
  induction fuel with
  | zero => intro tags resolved h; simpa [inheritLoop] using h
  | succ fuel ih =>
    intro tags resolved h
    simp only [inheritLoop]
    split
    · exact h
    · exact ih _ _ (refsOf_inheritPass all T0 tags (tags, resolved) h)

theorem refsOf_inherit (s : St) : RefsOf s.tags (inherit s).tags := by
  show RefsOf s.tags (inheritLoop s.all (s.tags.length + 1) s.tags []).1
  exact refsOf_inheritLoop s.all s.tags _ _ _ (RefsOf.refl _)

theorem refsOf_outputDropped (s : St) (ch : Option String) : RefsOf s.tags (outputDropped s ch).tags := by
  unfold outputDropped
  split
  · dsimp only
    rw [startTagging_tags, invalidatedDuringTaggingJob_tags]
    refine RefsOf.trans ?_ (refsOf_inherit _)
    intro nt' hm
    obtain ⟨nt, hm1, e⟩ := List.mem_map.mp hm
    refine ⟨nt, hm1, ?_⟩
    rw [← e]
    split <;> rfl
  · exact RefsOf.refl _

theorem tagFree_outputDropped (s : St) (ch : Option String) (h : TagFree s.tags s.tag) :
    TagFree (outputDropped s ch).tags (outputDropped s ch).tag := by
  unfold outputDropped
  split
  · exact startTagging_free _ _
  · exact h

-- CHANGED (dropped): was `sim_detachConv : Sim s.tags (detachConv s n c).tags` (false now)
theorem refsOf_detachConv (s : St) (n c : String) (ch : Option String) :
    RefsOf s.tags (detachConv s n c ch).tags := by
  unfold detachConv
  split
  · exact RefsOf.refl _
  · dsimp only
    split
    · exact (refsOf_sins _ _ _ _ (by assumption) (by rfl)).trans (refsOf_outputDropped _ _)
    · exact refsOf_sins _ _ _ _ (by assumption) (by rfl)

-- CHANGED (dropped): replaces the use of `sim_detachConv` + `detachConv_tag` (both false now)
theorem tagFree_detachConv (s : St) (n c : String) (ch : Option String) (h : TagFree s.tags s.tag) :
    TagFree (detachConv s n c ch).tags (detachConv s n c ch).tag := by
  unfold detachConv
  split
  · exact h
  · dsimp only
    split
    · apply tagFree_outputDropped
      exact (sim_sins _ _ _ _ (by assumption) (by rfl) (by rfl)).tagFree h
    · exact (sim_sins _ _ _ _ (by assumption) (by rfl) (by rfl)).tagFree h

theorem refsOf_foldl_detach (n : String) (ch : Option String) (l : List String) (X : St) :
    RefsOf X.tags (l.foldl (fun s c => detachConv s n c ch) X).tags := by
  induction l generalizing X with
  | nil => exact RefsOf.refl _
  | cons a l ih => exact (refsOf_detachConv X n a ch).trans (ih _)

theorem tagFree_foldl_detach (n : String) (ch : Option String) (l : List String) (X : St)
    (h : TagFree X.tags X.tag) :
    TagFree (l.foldl (fun s c => detachConv s n c ch) X).tags (l.foldl (fun s c => detachConv s n c ch) X).tag := by
  induction l generalizing X with
  | nil => exact h
  | cons a l ih => exact ih _ (tagFree_detachConv X n a ch h)

theorem detachConv_toconv (s : St) (n c : String) (ch : Option String) : -- CHANGED (dropped)
    ∃ d, (detachConv s n c ch).toconv = sins c (inter ((sget s.toconv c).getD []) d) s.toconv ∨  -- CHANGED (detach)
      (detachConv s n c ch).toconv = s.toconv := by
  unfold detachConv
  split
  · exact ⟨[], Or.inr rfl⟩
  · dsimp only
    split
    · rw [outputDropped_toconv]; exact ⟨_, Or.inl rfl⟩
    · exact ⟨_, Or.inl rfl⟩

theorem detachConv_pending (s : St) (n c c' : String) (ch : Option String) -- CHANGED (dropped)
    (h : (sget (detachConv s n c ch).toconv c').getD [] ≠ []) : (sget s.toconv c').getD [] ≠ [] := by
  obtain ⟨d, hd | hd⟩ := detachConv_toconv s n c ch
  · rw [hd, sget_sins] at h
    split at h
    · rename_i hc; subst hc
      exact inter_ne_nil _ _ (by simpa using h)
    · exact h
  · rw [hd] at h; exact h

theorem convFree_foldl_detach (n : String) (ch : Option String) (l : List String) (X : St) -- CHANGED (dropped)
    (h : ConvFree X.convs X.toconv X.convert) :
    ConvFree (l.foldl (fun s c => detachConv s n c ch) X).convs (l.foldl (fun s c => detachConv s n c ch) X).toconv
      (l.foldl (fun s c => detachConv s n c ch) X).convert := by
  induction l generalizing X with
  | nil => exact h
  | cons a l ih =>
    apply ih
    intro c hc hp
    rw [detachConv_convert _ _ _ ch]
    rw [detachConv_convs _ _ _ ch] at hc
    exact h c hc (detachConv_pending _ _ _ _ _ hp)

/-! ### per event -/

/-- same body as `Pk.Props.C09.RefByWF`: the `refBy` back-references mirror the references -/
def RefByWF (s : St) : Prop :=
  ∀ nt ∈ s.tags, ∀ r ∈ nt.2.refs, ∀ tr, sget s.tags r = some tr → nt.1 ∈ tr.refBy

theorem noRef_of_refBy (s : St) (name : String) (t : Tag) (h : RefByWF s) (ht : sget s.tags name = some t)
    (he : t.refBy = []) : NoRef s.tags name := by
  intro nt hm hr
  have := h nt hm name hr t ht
  rw [he] at this
  cases this

syntax "stuck_frame " term : tactic
macro_rules | `(tactic| stuck_frame $h) => `(tactic|
  exact NoStuck.congr $h (by frame) (by frame) (by frame) (by frame) (by frame))

theorem nostuck_importPcaps (s : St) (names) (st : Started) (h : NoStuck s) :
    NoStuck (step s (.importPcaps names) st).1 := by
  simp only [step]
  split
  · exact h
  · stuck_frame h

theorem nostuck_importDone (s : St) (a b c d e f) (st : Started) (h : NoStuck s) :
    NoStuck (step s (.importDone a b c d e f) st).1 := by
  simp only [step]
  split
  · exact h
  · exact nostuck_startMerge _ (nostuck_finish _ _)

theorem nostuck_tagDone (s : St) (a b) (st : Started) (h : NoStuck s) :
    NoStuck (step s (.tagDone a b) st).1 := by
  simp only [step]
  split
  · exact h
  · split
    · exact h.congr rfl rfl rfl rfl rfl
    · exact nostuck_release _ _ (nostuck_startMerge _ (nostuck_finish _ _))

theorem nostuck_mergeDone (s : St) (a) (st : Started) (h : NoStuck s) :
    NoStuck (step s (.mergeDone a) st).1 := by
  simp only [step]
  split
  · exact h
  · dsimp only
    apply nostuck_release
    apply nostuck_startMerge
    stuck_frame h

theorem nostuck_convertDone (s : St) (st : Started) (h : NoStuck s) :
    NoStuck (step s .convertDone st).1 := by
  simp only [step]
  split
  · exact h
  · exact nostuck_release _ _ (nostuck_finish _ _)

theorem nostuck_updQuery (s : St) (a b c) (st : Started) (h : NoStuck s) :
    NoStuck (step s (.updQuery a b c) st).1 := by
  simp only [step]
  repeat' split
  all_goals first
    | exact h
    | exact nostuck_finish _ _

theorem nostuck_markAdd (s : St) (a b) (st : Started) (h : NoStuck s) :
    NoStuck (step s (.markAdd a b) st).1 := by
  simp only [step]
  repeat' split
  all_goals first
    | exact h
    | exact nostuck_finish _ _

theorem nostuck_markDel (s : St) (a b) (st : Started) (h : NoStuck s) :
    NoStuck (step s (.markDel a b) st).1 := by
  simp only [step]
  repeat' split
  all_goals first
    | exact h
    | exact nostuck_finish _ _

theorem nostuck_viewOpen (s : St) (a) (st : Started) (h : NoStuck s) :
    NoStuck (step s (.viewOpen a) st).1 := by
  simp only [step]
  split
  · exact h
  · stuck_frame h

theorem nostuck_viewRelease (s : St) (a) (st : Started) (h : NoStuck s) :
    NoStuck (step s (.viewRelease a) st).1 := by
  simp only [step]
  split
  · exact h
  · stuck_frame h

theorem nostuck_updColor (s : St) (a b) (st : Started) (h : NoStuck s) :
    NoStuck (step s (.updColor a b) st).1 := by
  simp only [step]
  split
  · exact h
  · split
    · exact h
    · refine ⟨?_, h.2⟩
      exact (sim_sins _ _ _ _ (by assumption) (by rfl) (by rfl)).tagFree h.1

theorem nostuck_updConv (s : St) (a b) (st : Started) (h : NoStuck s) :
    NoStuck (step s (.updConv a b) st).1 := by
  simp only [step]
  split
  · exact h
  · split
    · exact h
    · refine ⟨?_, startConverter_free _⟩
      rw [startConverter_tags, startConverter_tag]
      have e : ∀ (l2 : List String) (X : St),
          (l2.foldl (fun s c => (attachConv s a c).1) X).tag = X.tag := by
        intro l2 X; frame
      rw [e]
      refine Sim.tagFree (sim_foldl _ (fun s c => sim_attachConv s a c) _ _) ?_
      exact tagFree_foldl_detach a st.tag _ s h.1

theorem NoStuck.of_sim {s X : St} (h : NoStuck s) (hs : Sim s.tags X.tags) (e2 : X.tag = s.tag)
    (e3 : X.convs = s.convs) (e4 : X.toconv = s.toconv) (e5 : X.convert = s.convert) : NoStuck X := by
  refine ⟨?_, ?_⟩
  · rw [e2]; exact hs.tagFree h.1
  · rw [e3, e4, e5]; exact h.2

theorem nostuck_foldl_addRefBy (X : St) (name : String) (l : List String) (h : NoStuck X) :
    NoStuck (l.foldl (fun s r => addRefBy s r name) X) :=
  h.of_sim (sim_foldl _ (fun s r => sim_addRefBy s r name) _ _) (by frame) (by frame) (by frame) (by frame)

theorem nostuck_foldl_delRefBy (X : St) (name : String) (l : List String) (h : NoStuck X) :
    NoStuck (l.foldl (fun s r => delRefBy s r name) X) :=
  h.of_sim (sim_foldl _ (fun s r => sim_delRefBy s r name) _ _) (by frame) (by frame) (by frame) (by frame)

theorem nostuck_addTag (s : St) (a b c d) (st : Started) (h : NoStuck s) :
    NoStuck (step s (.addTag a b c d) st).1 := by
  simp only [step]
  generalize parseTagName a = p
  obtain ⟨typ, sub, isMark⟩ := p
  dsimp only
  split
  · exact h
  split
  · exact h
  split
  · exact h
  split
  · exact h
  split
  · exact h
  split
  · exact h
  rename_i hfresh _
  have hfresh' : sget s.tags a = none := by simpa using hfresh
  cases isMark
  · simp only [Bool.false_eq_true, if_false]
    apply nostuck_foldl_addRefBy
    refine ⟨startTagging_free _ _, ?_⟩
    simpa using h.2
  · simp only [if_true]
    apply nostuck_foldl_addRefBy
    exact ⟨tagFree_sins_fresh _ _ _ _ hfresh' rfl h.1, h.2⟩

theorem nostuck_updName (s : St) (a b) (st : Started) (h : NoStuck s) (hr : RefByWF s) :
    NoStuck (step s (.updName a b) st).1 := by
  simp only [step]
  generalize parseTagName a = p
  generalize parseTagName b = q
  obtain ⟨typ, sub, isMark⟩ := p
  obtain ⟨typ', sub', isMark'⟩ := q
  split
  · exact h
  rename_i t ht
  dsimp only
  split
  · exact h
  split
  · exact h
  split
  · exact h
  split
  · exact h
  split
  · exact h
  rename_i hrb
  rename_i hnew
  have hnew' : sget s.tags b = none := by simpa using hnew
  have hrb' : t.refBy = [] := by simpa using hrb
  have hnr := noRef_of_refBy s a t hr ht hrb'
  have base : NoStuck { s with tags := sins b t (sdel s.tags a) } :=
    ⟨tagFree_rename _ _ _ _ _ ht hnew' hnr h.1, h.2⟩
  refine base.of_sim (sim_foldl _ (fun s r => (sim_delRefBy s r a).trans (sim_addRefBy _ r b)) _ _)
    (by frame) (by frame) (by frame) (by frame)

theorem nostuck_delTag (s : St) (a) (st : Started) (h : NoStuck s) (hr : RefByWF s) :
    NoStuck (step s (.delTag a) st).1 := by
  simp only [step]
  split
  · exact h
  rename_i t ht
  split
  · exact h
  rename_i hrb
  have hrb' : t.refBy = [] := by simpa using hrb
  have hnr := noRef_of_refBy s a t hr ht hrb'
  dsimp only
  apply nostuck_foldl_delRefBy
  refine ⟨?_, ?_⟩
  · apply tagFree_sdel _ _ _ ((refsOf_foldl_detach a st.tag t.convs s).noRef hnr)
    exact tagFree_foldl_detach a st.tag t.convs s h.1
  · exact convFree_foldl_detach a st.tag t.convs s h.2

theorem nostuck_step (s : St) (e : Ev) (st : Started) (h : NoStuck s) (hr : RefByWF s) :
    NoStuck (step s e st).1 := by
  cases e with
  | nop => exact h
  | importPcaps a => exact nostuck_importPcaps s a st h
  | importDone a b c d e f => exact nostuck_importDone s a b c d e f st h
  | tagDone a b => exact nostuck_tagDone s a b st h
  | mergeDone a => exact nostuck_mergeDone s a st h
  | convertDone => exact nostuck_convertDone s st h
  | addTag a b c d => exact nostuck_addTag s a b c d st h
  | updQuery a b c => exact nostuck_updQuery s a b c st h
  | updColor a b => exact nostuck_updColor s a b st h
  | updName a b => exact nostuck_updName s a b st h hr
  | updConv a b => exact nostuck_updConv s a b st h
  | markAdd a b => exact nostuck_markAdd s a b st h
  | markDel a b => exact nostuck_markDel s a b st h
  | delTag a => exact nostuck_delTag s a st h hr
  | viewOpen a => exact nostuck_viewOpen s a st h
  | viewRelease a => exact nostuck_viewRelease s a st h

/-! ### progress of a tagging job, merge scan, initial state -/

theorem tagDone_clears (s : St) (st : Started) (name : String) (snap : Tag) (held result : List Nat)
    (ot : Tag)
    (hj : s.jTag = some (name, snap, held)) (ht : sget s.tags name = some ot) (hd : ot.defn = snap.defn)
    (hg : ot.gen = snap.gen) -- CHANGED (gen)
    (hm : s.upd = [] ∧ s.rst = [] ∧ s.add = []) :
    ∃ t, sget (step s (.tagDone name result) st).1.tags name = some t ∧ t.unc = [] := by
  obtain ⟨hu, hr, ha⟩ := hm
  simp only [step, hj]
  have hnn : (name != name) = false := by simp
  simp only [hnn, Bool.false_eq_true, if_false, ht]
  have hdd : (ot.defn == snap.defn && ot.gen == snap.gen) = true := by simp [hd, hg]
  simp only [hdd, if_true]
  simp only [release_tags, startMerge_tags, startConverter_tags, startTagging_tags]
  split
  · simp only [setTag, sget_sins, if_true]
    exact ⟨_, rfl, rfl⟩
  · rename_i hne
    exfalso
    apply hne
    have e1 : ∀ (l : List String) (m : IdSet) (X : St), (l.foldl (fun (s : St) c => { s with toconv := sins c (union ((sget s.toconv c).getD []) m) s.toconv }) X).upd = X.upd := by
      intro l m X; frame
    have e2 : ∀ (l : List String) (m : IdSet) (X : St), (l.foldl (fun (s : St) c => { s with toconv := sins c (union ((sget s.toconv c).getD []) m) s.toconv }) X).rst = X.rst := by
      intro l m X; frame
    have e3 : ∀ (l : List String) (m : IdSet) (X : St), (l.foldl (fun (s : St) c => { s with toconv := sins c (union ((sget s.toconv c).getD []) m) s.toconv }) X).add = X.add := by
      intro l m X; frame
    simp only [setTag, e1, e2, e3, hu, hr, ha]
    rfl

theorem mergeOffsetGo_bound (s : St) (l : List Nat) (i n j : Nat) (h : mergeOffsetGo s l i n = some j) :
    i ≤ j ∧ j < i + l.length := by
  induction l generalizing i n with
  | nil => simp [mergeOffsetGo] at h
  | cons f fs ih =>
    simp only [mergeOffsetGo] at h
    split at h
    · simp only [Option.some.injEq] at h
      subst h
      simp
    · have := ih _ _ h
      simp only [List.length_cons]
      omega

theorem mergeOffset_bound (s : St) (i : Nat) (h : mergeOffset s = some i) : i < s.idx.length := by
  have := mergeOffsetGo_bound s s.idx 0 s.nrec i h
  omega

theorem sget_map_nil (convs : List String) (c : String) :
    (sget (convs.map (fun c => (c, ([] : IdSet)))) c).getD [] = [] := by
  induction convs with
  | nil => rfl
  | cons a l ih =>
    simp only [List.map_cons, sget_cons]
    split
    · rfl
    · exact ih

end Pk.Proofs.MgrSettle
