/-
  Counterexamples for the unrestricted C07 statement (`MergeViewEq` of Pk/Props/C07.lean):
  merging index files may change what a user sees when the inputs are ill-formed.

  * `mergeViewEq_counterexample`: the statement without hypotheses is false.
  * `mergeViewEq_needs_<field>`: for the fields `idRange`, `times`, `importsNoNul`, `importsNodup`, `skips`,
    `hosts` of `Reader.WF` a merge whose inputs satisfy every other field of `Reader.WF`, whose outputs
    satisfy `Reader.Fits`, and which nevertheless changes the view of a stream.
  (No witness for `sizes`: see the comment at the end of the file.)

  All computations are done by the kernel (`decide +kernel`, kernel reduction only).
-/
import Pk.Proofs.MergeFullDefs

namespace Pk.Index
open Pk Pk.Bytes

/-! ## the fields of `Reader.WF`, one by one -/

def mfc_IdRange (r : Reader) : Prop := ∀ s ∈ r.f.streams, r.idMin ≤ s.id ∧ s.id ≤ r.idMax
def mfc_Times (r : Reader) : Prop := ∀ s ∈ r.f.streams, TimeOk r.f.ref s
def mfc_Sizes (r : Reader) : Prop := ∀ s ∈ r.f.streams, s.cb + s.sb < 2 ^ 64
def mfc_Skips (r : Reader) : Prop :=
  ∀ s ∈ r.f.streams, ∀ c, chainOf (r.f.packets.drop s.pstart) = some c → SkipsOk c

/-- the seven conjuncts below are exactly the fields of `Reader.WF` -/
theorem mfc_wf_iff (r : Reader) :
    r.WF ↔ r.HostsInv ∧ mfc_IdRange r ∧ r.imports.Nodup ∧ NoNul r.imports ∧ mfc_Times r ∧
      mfc_Sizes r ∧ mfc_Skips r :=
  ⟨fun h => ⟨h.hosts, h.idRange, h.importsNodup, h.importsNoNul, h.times, h.sizes, h.skips⟩,
   fun ⟨h1, h2, h3, h4, h6, h7, h8⟩ => ⟨h1, h2, h3, h4, h6, h7, h8⟩⟩

/-! ## boolean checkers (so that the kernel can evaluate the side conditions) -/

def mfc_okB (suf : List Reader) : Bool := match merge suf with | .ok _ => true | .error _ => false
def mfc_out (suf : List Reader) : List Reader := match merge suf with | .ok m => m | .error _ => []

theorem mfc_merge_out (suf : List Reader) (h : mfc_okB suf = true) : merge suf = .ok (mfc_out suf) := by
  unfold mfc_okB at h; unfold mfc_out
  split <;> simp_all

def mfc_fitsB (ms : List Reader) : Bool :=
  ms.all fun m => decide (m.f.packets.length ≤ 2 ^ 32) && decide (m.imports.length ≤ 2 ^ 32) &&
    decide (m.hostGroups.length ≤ 65536)

theorem mfc_fits_of (ms : List Reader) (h : mfc_fitsB ms = true) : ∀ m ∈ ms, m.Fits := by
  intro m hm
  have := List.all_eq_true.mp h m hm
  simp only [Bool.and_eq_true, decide_eq_true_eq] at this
  exact ⟨this.1.1, this.1.2, this.2⟩

def mfc_hostsB (r : Reader) : Bool :=
  r.hostGroups.all fun g => decide (g.hostSize = 4 ∨ g.hostSize = 16) && decide (g.hosts.length = g.hostSize * g.hostCount) &&
    decide (0 < g.hostCount) && decide (g.hosts.length ≤ 65536)

theorem mfc_hosts_of (r : Reader) (h : mfc_hostsB r = true) : r.HostsInv := by
  intro g hg
  have := List.all_eq_true.mp h g hg
  simp only [Bool.and_eq_true, decide_eq_true_eq] at this
  exact ⟨this.1.1.1, this.1.1.2, this.1.2, this.2⟩

def mfc_skipsOkB : List PacketRec → Bool
  | [] => true
  | p :: ps => decide (p.flags % 2 = 1 → p.skip < ps.length) && mfc_skipsOkB ps

theorem mfc_skipsOkB_iff (c : List PacketRec) : mfc_skipsOkB c = true ↔ SkipsOk c := by
  induction c with
  | nil => simp [mfc_skipsOkB, SkipsOk]
  | cons p ps ih => simp only [mfc_skipsOkB, SkipsOk, Bool.and_eq_true, decide_eq_true_eq, ih]

def mfc_skipsB (r : Reader) : Bool :=
  r.f.streams.all fun s => match chainOf (r.f.packets.drop s.pstart) with
    | some c => mfc_skipsOkB c
    | none => true

theorem mfc_skips_of (r : Reader) (h : mfc_skipsB r = true) : mfc_Skips r := by
  intro s hs c hc
  have := List.all_eq_true.mp h s hs
  simp only [hc] at this
  exact (mfc_skipsOkB_iff c).mp this

local instance mfc_decTimeOk (ref : Nat) (s : StreamRec) : Decidable (TimeOk ref s) := by
  unfold TimeOk; infer_instance
local instance mfc_decNoNul (ks : List ImportKey) : Decidable (NoNul ks) := by
  unfold NoNul; infer_instance
local instance mfc_decIdRange (r : Reader) : Decidable (mfc_IdRange r) := by
  unfold mfc_IdRange; infer_instance
local instance mfc_decTimes (r : Reader) : Decidable (mfc_Times r) := by
  unfold mfc_Times; infer_instance
local instance mfc_decSizes (r : Reader) : Decidable (mfc_Sizes r) := by
  unfold mfc_Sizes; infer_instance

/-! ## TARGET 1: the unrestricted statement is false

  The stream id 0 of `mfc_rx` is outside `[idMin, idMax] = [1, 0]`: `StreamByID` does not see it, but
  `AddIndex` copies it, and the merged file shows it. -/

def mfc_sx : StreamRec :=
  { id := 0, first := 0, last := 0, dataStart := 0, cb := 0, sb := 0, pstart := 0, flags := 1, hg := 0, ch := 0, sh := 0,
    cp := 1, sp := 2 }

def mfc_mkF (ref : Nat) (packets : List PacketRec) (streams : List StreamRec) : FileModel :=
  { ref := ref, data := [], importNames := [], imports := [], packets := packets, v4 := [], v6 := [], hostGroups := [],
    streams := streams, lkId := [], lkSrc := [], lkFt := [], lkLt := [] }

def mfc_rx : Reader :=
  { f := mfc_mkF 0 [⟨0, 0, 0, 0, 0, 0⟩] [mfc_sx], imports := [([], 0)], hostGroups := [⟨[1, 2, 3, 4], 4, 1⟩],
    idMin := 1, idMax := 0 }

theorem mfc_rx_ok : ∃ merged, merge [mfc_rx] = .ok merged :=
  ⟨_, mfc_merge_out [mfc_rx] (by decide +kernel)⟩

theorem mfc_rx_before : stackView [mfc_rx] 0 = none := by decide +kernel
theorem mfc_rx_after : stackView (mfc_out [mfc_rx]) 0 ≠ none := by decide +kernel

theorem mergeViewEq_counterexample : ¬ (∀ (pre suf merged : List Reader), merge suf = .ok merged →
    ∀ id, stackView (pre ++ merged) id = stackView (pre ++ suf) id) := by
  intro h
  have := h [] [mfc_rx] (mfc_out [mfc_rx]) (mfc_merge_out _ (by decide +kernel)) 0
  simp only [List.nil_append] at this
  rw [mfc_rx_before] at this
  exact mfc_rx_after this

/-! ## TARGET 2: the fields of `Reader.WF` are needed -/

def mfc_mkS (id first pstart : Nat) : StreamRec :=
  { id := id, first := first, last := first, dataStart := 0, cb := 0, sb := 0, pstart := pstart, flags := 1, hg := 0,
    ch := 0, sh := 0, cp := 1, sp := 2 }

/-- `idRange`: the witness of TARGET 1 -/
theorem mergeViewEq_needs_idRange : ∃ (suf merged : List Reader) (id : Nat), merge suf = .ok merged ∧
    (∀ m ∈ merged, m.Fits) ∧ stackView merged id ≠ stackView suf id ∧
    ∀ r ∈ suf, r.HostsInv ∧ r.imports.Nodup ∧ NoNul r.imports ∧ mfc_Times r ∧ mfc_Sizes r ∧ mfc_Skips r := by
  refine ⟨[mfc_rx], mfc_out [mfc_rx], 0, mfc_merge_out _ (by decide +kernel), mfc_fits_of _ (by decide +kernel),
    by decide +kernel, ?_⟩
  intro r hr
  simp only [List.mem_singleton] at hr
  subst hr
  exact ⟨mfc_hosts_of _ (by decide +kernel), by decide +kernel, by decide +kernel, by decide +kernel,
    by decide +kernel, mfc_skips_of _ (by decide +kernel)⟩

/-- `times`: a stream before 1970 (reference second 0, relative time −1 ns). `AddIndex` takes
    `uint64(-1 s) = 2^64 − 1` as the new reference second; the `Int`-valued absolute times change from −1 to
    `(2^64 − 1)·10^9 + 10^9 − 1`. -/
def mfc_rT : Reader :=
  { f := mfc_mkF 0 [⟨0, 0, 0, 0, 0, 0⟩] [mfc_mkS 0 (2 ^ 64 - 1) 0], imports := [([], 0)],
    hostGroups := [⟨[1, 2, 3, 4], 4, 1⟩], idMin := 0, idMax := 0 }

theorem mergeViewEq_needs_times : ∃ (suf merged : List Reader) (id : Nat), merge suf = .ok merged ∧
    (∀ m ∈ merged, m.Fits) ∧ stackView merged id ≠ stackView suf id ∧
    ∀ r ∈ suf, r.HostsInv ∧ mfc_IdRange r ∧ r.imports.Nodup ∧ NoNul r.imports ∧ mfc_Sizes r ∧ mfc_Skips r := by
  refine ⟨[mfc_rT], mfc_out [mfc_rT], 0, mfc_merge_out _ (by decide +kernel), mfc_fits_of _ (by decide +kernel),
    by decide +kernel, ?_⟩
  intro r hr
  simp only [List.mem_singleton] at hr
  subst hr
  exact ⟨mfc_hosts_of _ (by decide +kernel), by decide +kernel, by decide +kernel, by decide +kernel,
    by decide +kernel, mfc_skips_of _ (by decide +kernel)⟩

/-- `importsNoNul`: the file name `a\0b` comes back from the merged file as `a` (`readImports` reads C strings);
    visible in the file names of `Stream.Packets`. -/
def mfc_rN : Reader :=
  { f := mfc_mkF 0 [⟨0, 0, 0, 0, 0, 0⟩] [mfc_mkS 0 0 0], imports := [([97, 0, 98], 0)],
    hostGroups := [⟨[1, 2, 3, 4], 4, 1⟩], idMin := 0, idMax := 0 }

theorem mergeViewEq_needs_importsNoNul : ∃ (suf merged : List Reader) (id : Nat), merge suf = .ok merged ∧
    (∀ m ∈ merged, m.Fits) ∧ stackView merged id ≠ stackView suf id ∧
    ∀ r ∈ suf, r.HostsInv ∧ mfc_IdRange r ∧ r.imports.Nodup ∧ mfc_Times r ∧ mfc_Sizes r ∧ mfc_Skips r := by
  refine ⟨[mfc_rN], mfc_out [mfc_rN], 0, mfc_merge_out _ (by decide +kernel), mfc_fits_of _ (by decide +kernel),
    by decide +kernel, ?_⟩
  intro r hr
  simp only [List.mem_singleton] at hr
  subst hr
  exact ⟨mfc_hosts_of _ (by decide +kernel), by decide +kernel, by decide +kernel, by decide +kernel,
    by decide +kernel, mfc_skips_of _ (by decide +kernel)⟩

/-- `importsNodup`: the import table lists the same capture twice; the records (import 0, index 5) and
    (import 1, index 5) are two packets for `Stream.Packets` before the merge and — both import ids being mapped
    to the one import of the writer — one packet after it. -/
def mfc_rD : Reader :=
  { f := mfc_mkF 0 [⟨0, 0, 5, 0, 0, 1⟩, ⟨0, 1, 5, 0, 0, 0⟩] [mfc_mkS 0 0 0], imports := [([97], 0), ([97], 0)],
    hostGroups := [⟨[1, 2, 3, 4], 4, 1⟩], idMin := 0, idMax := 0 }

theorem mergeViewEq_needs_importsNodup : ∃ (suf merged : List Reader) (id : Nat), merge suf = .ok merged ∧
    (∀ m ∈ merged, m.Fits) ∧ stackView merged id ≠ stackView suf id ∧
    ∀ r ∈ suf, r.HostsInv ∧ mfc_IdRange r ∧ NoNul r.imports ∧ mfc_Times r ∧ mfc_Sizes r ∧ mfc_Skips r := by
  refine ⟨[mfc_rD], mfc_out [mfc_rD], 0, mfc_merge_out _ (by decide +kernel), mfc_fits_of _ (by decide +kernel),
    by decide +kernel, ?_⟩
  intro r hr
  simp only [List.mem_singleton] at hr
  subst hr
  exact ⟨mfc_hosts_of _ (by decide +kernel), by decide +kernel, by decide +kernel, by decide +kernel,
    by decide +kernel, mfc_skips_of _ (by decide +kernel)⟩

/-- `skips`: the stream owns the records 0 and 1 of the packet table; record 0 has a successor and skip counter 1,
    which leads `Stream.Data` past record 1 to record 2 (a record behind the stream's own, e.g. of another stream),
    where the walk ends: no payload. `AddIndex` copies the records 0 and 1 only, in the merged file the skip runs
    off the table and `Stream.Data` fails. -/
def mfc_rS : Reader :=
  { f := mfc_mkF 0 [⟨0, 0, 0, 0, 1, 1⟩, ⟨0, 0, 1, 0, 0, 0⟩, ⟨0, 0, 2, 0, 0, 0⟩] [mfc_mkS 0 0 0],
    imports := [([97], 0)], hostGroups := [⟨[1, 2, 3, 4], 4, 1⟩], idMin := 0, idMax := 0 }

theorem mergeViewEq_needs_skips : ∃ (suf merged : List Reader) (id : Nat), merge suf = .ok merged ∧
    (∀ m ∈ merged, m.Fits) ∧ stackView merged id ≠ stackView suf id ∧
    ∀ r ∈ suf, r.HostsInv ∧ mfc_IdRange r ∧ r.imports.Nodup ∧ NoNul r.imports ∧ mfc_Times r ∧ mfc_Sizes r := by
  refine ⟨[mfc_rS], mfc_out [mfc_rS], 0, mfc_merge_out _ (by decide +kernel), mfc_fits_of _ (by decide +kernel),
    by decide +kernel, ?_⟩
  intro r hr
  simp only [List.mem_singleton] at hr
  subst hr
  exact ⟨mfc_hosts_of _ (by decide +kernel), by decide +kernel, by decide +kernel, by decide +kernel,
    by decide +kernel, by decide +kernel⟩

/-- `hosts`: the first host group of the file has 6 bytes (one and a half IPv4 hosts). `AddIndex` takes that table
    over as a writer group; the host `7.8.9.10` of the second (well-formed) group is appended to it at byte 6 and
    gets the index `(6 + 4) / 4 − 1 = 1`, which is the bytes 4–7: the stream turns from `7.8.9.10` into `5.6.7.8`. -/
def mfc_rH : Reader :=
  { f := mfc_mkF 0 [⟨0, 0, 0, 0, 0, 0⟩] [{ mfc_mkS 0 0 0 with hg := 1 }], imports := [([97], 0)],
    hostGroups := [⟨[1, 2, 3, 4, 5, 6], 4, 1⟩, ⟨[7, 8, 9, 10], 4, 1⟩], idMin := 0, idMax := 0 }

theorem mergeViewEq_needs_hosts : ∃ (suf merged : List Reader) (id : Nat), merge suf = .ok merged ∧
    (∀ m ∈ merged, m.Fits) ∧ stackView merged id ≠ stackView suf id ∧
    ∀ r ∈ suf, mfc_IdRange r ∧ r.imports.Nodup ∧ NoNul r.imports ∧ mfc_Times r ∧ mfc_Sizes r ∧ mfc_Skips r := by
  refine ⟨[mfc_rH], mfc_out [mfc_rH], 0, mfc_merge_out _ (by decide +kernel),
    mfc_fits_of _ (by decide +kernel), by decide +kernel, ?_⟩
  intro r hr
  simp only [List.mem_singleton] at hr
  subst hr
  exact ⟨by decide +kernel, by decide +kernel, by decide +kernel, by decide +kernel,
    by decide +kernel, mfc_skips_of _ (by decide +kernel)⟩

/-- what the two sides of `mergeViewEq_needs_hosts` show as client address -/
theorem mfc_rH_clients :
    ((stackView [mfc_rH] 0).map (·.map (·.client)), (stackView (mfc_out [mfc_rH]) 0).map (·.map (·.client))) =
      (some (some [7, 8, 9, 10]), some (some [5, 6, 7, 8])) := by decide +kernel

/-! ## the field without a witness

  * `sizes`: with `cb + sb ≥ 2^64` `Stream.Data` fails before and after the merge (`len(data) < cb + sb`, the
    model keeps the untruncated counters in the copied record), a witness would need a data section of 2^64 bytes.
-/


end Pk.Index
