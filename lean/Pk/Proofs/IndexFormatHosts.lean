/-
  Host table invariants of the index writer and the decoding of host groups by the reader
  (helper lemmas for C01: `hostTable_aligned`, `hostgroups_decode`).
-/
import Pk.Model.IndexFormat
import Pk.Proofs.Bytes
namespace Pk.Index
open Pk Pk.Bytes

/-- invariant of a writer host group: a whole number of hosts of 4 or 16 bytes, at least one host,
    at most 65 536 bytes -/
structure HostGroup.Inv (g : HostGroup) : Prop where
  size : g.hostSize = 4 ∨ g.hostSize = 16
  aligned : g.hosts.length % g.hostSize = 0
  nonempty : 0 < g.hosts.length
  bound : g.hosts.length ≤ 65536

def HostAddr (h : Bytes) : Prop := h.length = 4 ∨ h.length = 16

theorem add_inv (g : HostGroup) (host : Bytes) (hg : g.Inv)
    {g' : HostGroup} {i : Nat} {added : Bool} (h : g.add host = some (g', i, added)) : g'.Inv := by
  unfold HostGroup.add at h
  have hne : g.hosts.length ≠ 0 := by have := hg.nonempty; omega
  simp only [hne, if_false] at h
  split at h
  · simp at h
  · rename_i hs
    split at h
    · simp at h; obtain ⟨rfl, _, _⟩ := h; exact hg
    · split at h
      · simp at h
      · rename_i hcap
        simp at h
        obtain ⟨rfl, _, _⟩ := h
        have hs' : g.hostSize = host.length := by simpa using hs
        have ha := hg.aligned
        have hsz := hg.size
        refine ⟨hsz, ?_, ?_, ?_⟩
        · simp only [List.length_append]
          rw [← hs']; rw [Nat.add_mod, ha]; simp
        · simp only [List.length_append]; omega
        · simp only [List.length_append]

          rcases hsz with h4 | h16
          · rw [h4] at ha hs'; omega
          · rw [h16] at ha hs'; omega

theorem add_empty (host : Bytes) : ({} : HostGroup).add host = some ({ hosts := host, hostSize := host.length }, 0, true) := by
  simp [HostGroup.add]

theorem popN_aligned (g : HostGroup) (n : Nat) (h : g.hosts.length % g.hostSize = 0) :
    (g.popN n).hosts.length % (g.popN n).hostSize = 0 := by
  simp only [HostGroup.popN, List.length_take]
  by_cases hz : g.hostSize = 0
  · simp [hz] at h ⊢; omega
  · obtain ⟨q, hq⟩ := Nat.dvd_of_mod_eq_zero h
    rw [hq, Nat.mul_comm n g.hostSize, ← Nat.mul_sub]
    have : g.hostSize * (q - n) ≤ g.hostSize * q := Nat.mul_le_mul_left _ (by omega)
    rw [Nat.min_eq_left this]
    exact Nat.mul_mod_right _ _

/-- what `add` does to the table: nothing, or append the host -/
theorem add_hosts (g : HostGroup) (host : Bytes) {g' : HostGroup} {i : Nat} {added : Bool}
    (hne : g.hosts.length ≠ 0) (h : g.add host = some (g', i, added)) :
    g'.hostSize = g.hostSize ∧ (if added then g'.hosts = g.hosts ++ host ∧ g.hostSize = host.length else g'.hosts = g.hosts) := by
  unfold HostGroup.add at h
  simp only [hne, if_false] at h
  split at h
  · simp at h
  · rename_i hs
    split at h
    · simp at h; obtain ⟨rfl, _, rfl⟩ := h; simp
    · split at h
      · simp at h
      · simp at h
        obtain ⟨rfl, _, rfl⟩ := h
        simp
        simpa using hs

/-- the undo of a just added host restores the table -/
theorem pop_add (g g' : HostGroup) (host : Bytes) {i : Nat} (hne : g.hosts.length ≠ 0)
    (h : g.add host = some (g', i, true)) : g'.pop = g := by
  have := add_hosts g host hne h
  simp at this
  obtain ⟨hs, hh, hl⟩ := this
  cases g; cases g'
  simp only [HostGroup.pop, HostGroup.popN] at *
  subst hs
  simp [hh, hl]

def GroupsInv (gs : List HostGroup) : Prop := ∀ g ∈ gs, g.Inv

theorem placeHosts_inv (gs : List HostGroup) (c s : Bytes) (hc : HostAddr c) (hs : HostAddr s)
    (hgs : GroupsInv gs) {gs' : List HostGroup} {gid ci si : Nat}
    (h : placeHosts gs c s = some (gs', gid, ci, si)) : GroupsInv gs' := by
  induction gs generalizing gs' gid ci si with
  | nil =>
    simp only [placeHosts, add_empty] at h
    split at h
    · simp at h
    · rename_i g2 sid b heq
      simp at h
      obtain ⟨rfl, _⟩ := h
      intro g hg
      simp at hg
      subst hg
      have hinv : ({ hosts := c, hostSize := c.length } : HostGroup).Inv := by
        refine ⟨hc, by simp, ?_, ?_⟩ <;> rcases hc with h | h <;> simp [h]
      exact add_inv _ s hinv heq
  | cons g gs ih =>
    have hg : g.Inv := hgs g (by simp)
    have hrest : GroupsInv gs := fun x hx => hgs x (by simp [hx])
    simp only [placeHosts] at h
    split at h
    · -- client refused
      cases hp : placeHosts gs c s with
      | none => simp [hp] at h
      | some r =>
        obtain ⟨gs2, gid2, ci2, si2⟩ := r
        simp [hp] at h
        obtain ⟨rfl, _⟩ := h
        intro x hx
        simp at hx
        rcases hx with rfl | hx
        · exact hg
        · exact ih hrest hp x hx
    · rename_i g1 cid added heq1
      have hg1 : g1.Inv := add_inv g c hg heq1
      split at h
      · -- server refused: undo
        cases hp : placeHosts gs c s with
        | none => simp [hp] at h
        | some r =>
          obtain ⟨gs2, gid2, ci2, si2⟩ := r
          simp [hp] at h
          obtain ⟨rfl, _⟩ := h
          intro x hx
          simp at hx
          rcases hx with rfl | hx
          · cases added with
            | false => simpa using hg1
            | true =>
              have hne : g.hosts.length ≠ 0 := by have := hg.nonempty; omega
              simp [pop_add g g1 c hne heq1]; exact hg
          · exact ih hrest hp x hx
      · rename_i g2 sid b heq2
        simp at h
        obtain ⟨rfl, _⟩ := h
        intro x hx
        simp at hx
        rcases hx with rfl | hx
        · exact add_inv g1 s hg1 heq2
        · exact hrest x hx

/-- well-formed input as far as the host table is concerned -/
def StreamIn.AddrWF (s : StreamIn) : Prop := HostAddr s.client ∧ HostAddr s.server

theorem addStream_inv (w w' : Writer) (s : StreamIn) (ok : Bool) (hs : s.AddrWF) (hw : GroupsInv w.hostGroups)
    (h : w.addStream s = .ok (w', ok)) : GroupsInv w'.hostGroups := by
  unfold Writer.addStream at h
  split at h
  · simp at h; obtain ⟨rfl, _⟩ := h; exact hw
  · split at h
    · rename_i p0 pl _ _
      simp only at h
      split at h
      · simp at h; obtain ⟨rfl, _⟩ := h; exact hw
      · rename_i hgs gid cid sid hp
        split at h
        · simp at h
        · split at h
          · simp at h
          · simp at h
            obtain ⟨rfl, _⟩ := h
            exact placeHosts_inv _ _ _ hs.1 hs.2 hw hp
    · simp at h

end Pk.Index

namespace Pk.Index
open Pk Pk.Bytes

def HostGroup.toReader (g : HostGroup) : RHostGroup :=
  { hosts := g.hosts, hostSize := g.hostSize, hostCount := g.hosts.length / g.hostSize }

def v4of (gs : List HostGroup) : Bytes := ((gs.filter (·.hostSize == 4)).map (·.hosts)).flatten
def v6of (gs : List HostGroup) : Bytes := ((gs.filter (·.hostSize == 16)).map (·.hosts)).flatten

theorem v4of_cons4 (g : HostGroup) (gs) (h : g.hostSize = 4) : v4of (g :: gs) = g.hosts ++ v4of gs := by
  simp [v4of, h]
theorem v4of_cons16 (g : HostGroup) (gs) (h : g.hostSize = 16) : v4of (g :: gs) = v4of gs := by
  simp [v4of, h]
theorem v6of_cons4 (g : HostGroup) (gs) (h : g.hostSize = 4) : v6of (g :: gs) = v6of gs := by
  simp [v6of, h]
theorem v6of_cons16 (g : HostGroup) (gs) (h : g.hostSize = 16) : v6of (g :: gs) = g.hosts ++ v6of gs := by
  simp [v6of, h]

theorem drop_take_mid (p x q : Bytes) : ((p ++ x ++ q).drop p.length).take x.length = x := by
  simp [List.append_assoc]

theorem hostgroups_decode_gen (gs : List HostGroup) (hgs : GroupsInv gs) :
    ∀ (p4 p6 : Bytes) (a b : Nat), p4.length = 4 * a → p6.length = 16 * b →
      (p4 ++ v4of gs).length < 2 ^ 32 → (p6 ++ v6of gs).length < 2 ^ 32 →
      readHostGroups (p4 ++ v4of gs) (p6 ++ v6of gs) (hostEntries gs a b) = .ok (gs.map HostGroup.toReader) := by
  induction gs with
  | nil => intros; simp [hostEntries, readHostGroups]
  | cons g gs ih =>
    intro p4 p6 a b h4 h6 hb4 hb6
    have hg : g.Inv := hgs g (by simp)
    have hrest : GroupsInv gs := fun x hx => hgs x (by simp [hx])
    have hal := hg.aligned
    have hne := hg.nonempty
    have hbd := hg.bound
    rcases hg.size with hs | hs
    · -- IPv4 group
      have hn : g.hosts.length = 4 * (g.hosts.length / 4) := by rw [hs] at hal; omega
      have hcnt : (g.hosts.length / 4 + 65536 - 1) % 65536 + 1 = g.hosts.length / 4 := by omega
      rw [v4of_cons4 g gs hs, v6of_cons4 g gs hs] at *
      simp only [List.length_append] at hb4
      have ha : a % 2 ^ 32 = a := Nat.mod_eq_of_lt (by omega)
      simp only [hostEntries, hs, show (4 : Nat) ≠ 16 by decide, if_false, readHostGroups, ha]
      simp only [show (0 : Nat) % 2 = 0 by rfl, if_true, hcnt]
      have hfit : ¬ (a * 4 + 4 * (g.hosts.length / 4) > (p4 ++ (g.hosts ++ v4of gs)).length) := by
        simp only [List.length_append]; omega
      simp only [hfit, if_false]
      have ih' := ih hrest (p4 ++ g.hosts) p6 (a + g.hosts.length / 4) b
        (by simp only [List.length_append]; omega) h6
        (by simp only [List.length_append, List.append_assoc] at *; omega) hb6
      rw [List.append_assoc] at ih'
      rw [ih']
      simp only [List.map_cons, HostGroup.toReader, hs]
      congr 2
      have := drop_take_mid p4 g.hosts (v4of gs)
      simpa [List.append_assoc, Nat.mul_comm, ← hn, h4] using this
    · -- IPv6 group
      have hn : g.hosts.length = 16 * (g.hosts.length / 16) := by rw [hs] at hal; omega
      have hcnt : (g.hosts.length / 16 + 65536 - 1) % 65536 + 1 = g.hosts.length / 16 := by omega
      rw [v4of_cons16 g gs hs, v6of_cons16 g gs hs] at *
      simp only [List.length_append] at hb6
      have hb : b % 2 ^ 32 = b := Nat.mod_eq_of_lt (by omega)
      simp only [hostEntries, hs, if_true, readHostGroups, hb]
      simp only [show (1 : Nat) % 2 = 0 ↔ False by decide, if_false, hcnt]
      have hfit : ¬ (b * 16 + 16 * (g.hosts.length / 16) > (p6 ++ (g.hosts ++ v6of gs)).length) := by
        simp only [List.length_append]; omega
      simp only [hfit, if_false]
      have ih' := ih hrest p4 (p6 ++ g.hosts) a (b + g.hosts.length / 16) h4
        (by simp only [List.length_append]; omega) hb4
        (by simp only [List.length_append, List.append_assoc] at *; omega)
      rw [List.append_assoc] at ih'
      rw [ih']
      simp only [List.map_cons, HostGroup.toReader, hs]
      congr 2
      have := drop_take_mid p6 g.hosts (v6of gs)
      simpa [List.append_assoc, Nat.mul_comm, ← hn, h6] using this

end Pk.Index

namespace Pk.Index
open Pk Pk.Bytes

/-- `Finalize` then `NewReader`: the reader's host groups are the writer's, for any number of groups of
    either family -/
theorem hostgroups_decode' (w : Writer) (h : GroupsInv w.hostGroups)
    (hb4 : (v4of w.hostGroups).length < 2 ^ 32) (hb6 : (v6of w.hostGroups).length < 2 ^ 32) :
    readHostGroups w.finalize.v4 w.finalize.v6 w.finalize.hostGroups = .ok (w.hostGroups.map HostGroup.toReader) := by
  have := hostgroups_decode_gen w.hostGroups h [] [] 0 0 rfl rfl (by simpa using hb4) (by simpa using hb6)
  simpa [Writer.finalize, v4of, v6of] using this

end Pk.Index
