/-
  Helper lemmas for Pk/Props/C05More.lean, target (1): the phases of a single conversation, the
  well-formed continuations of each phase (`TStep`, `TRun`), the run invariant.
-/
import Pk.Proofs.ImportReasmMoreTear5

namespace Pk.Proofs.ImportReasm
open Pk.Import

instance (e : Endpoints) (p : Pkt) (d : Bool) : Decidable (DirPkt e p d) := by unfold DirPkt; infer_instance
instance (cp : ConvParams) (p : Pkt) (d : Bool) : Decidable (ConvPkt cp p d) := by unfold ConvPkt; infer_instance
instance (cp : ConvParams) (p : Pkt) (d : Bool) : Decidable (SegOf cp p d) := by unfold SegOf; infer_instance
instance (cp : ConvParams) (done : List Pkt) (d : Bool) (x : Nat) : Decidable (Carried cp done d x) := by
  unfold Carried; infer_instance
instance (cp : ConvParams) (done : List Pkt) (p : Pkt) (d : Bool) : Decidable (FinOf cp done p d) := by
  unfold FinOf; infer_instance
instance (cp : ConvParams) (p : Pkt) (d : Bool) : Decidable (RstOf cp p d) := by unfold RstOf; infer_instance

/-- the phases of a conversation after the handshake, as the reassembler sees them -/
inductive TPhase
  /-- data phase: both half-connections open -/
  | est
  /-- the FIN of direction `d` has been delivered: `d`'s half-connection is closed, the other one open -/
  | cw (d : Bool)
  /-- both half-connections are closed, the stream is `Complete`; `full`: by the two FINs, so that
      everything both sides sent has been delivered -/
  | both (full : Bool)
  /-- an RST was seen while a half-connection was still open: the TCP state machine rejects everything -/
  | reset
deriving DecidableEq, Repr

/-- the well-formed continuations of a conversation: `TStep cp done ph p ph'` — after the packets
    `done` of the body, in phase `ph`, packet `p` may follow and leads to phase `ph'` -/
inductive TStep (cp : ConvParams) (done : List Pkt) : TPhase → Pkt → TPhase → Prop
  /-- data phase: any segment without SYN/FIN/RST of either direction (`BodyPkt`) -/
  | seg {p : Pkt} : BodyPkt cp p → TStep cp done .est p .est
  /-- the first FIN (direction `d`), possibly with data, after everything before it has arrived -/
  | fin {p : Pkt} {d : Bool} : FinOf cp done p d → TStep cp done .est p (.cw d)
  /-- RST in the data phase -/
  | rst {p : Pkt} {d : Bool} : RstOf cp p d → TStep cp done .est p .reset
  /-- half-closed: the open direction goes on sending (segments carry ACK) -/
  | cwSeg {p : Pkt} {d : Bool} : SegOf cp p (!d) → p.ack = true → TStep cp done (.cw d) p (.cw d)
  /-- half-closed: ANY packet without RST of the direction that has sent its FIN — retransmitted
      FIN, retransmitted data, data after the FIN, ACKs of the other direction's data -/
  | cwOwn {p : Pkt} {d : Bool} : ConvPkt cp p d → p.rst = false → TStep cp done (.cw d) p (.cw d)
  /-- the second FIN (with ACK), possibly with data, after everything before it has arrived -/
  | cwFin {p : Pkt} {d : Bool} : FinOf cp done p (!d) → p.ack = true → TStep cp done (.cw d) p (.both true)
  /-- half-closed: RST of the direction that has sent its FIN -/
  | cwRstOwn {p : Pkt} {d : Bool} : ConvPkt cp p d → p.rst = true → TStep cp done (.cw d) p .reset
  /-- half-closed: RST of the open direction -/
  | cwRst {p : Pkt} {d : Bool} : RstOf cp p (!d) → TStep cp done (.cw d) p .reset
  /-- half-closed: RST of the open direction after everything before it has arrived -/
  | cwRstClose {p : Pkt} {d : Bool} : RstOf cp p (!d) → (∀ x, x < pOff (cp.isnOf (!d)) p → Carried cp done (!d) x) →
      TStep cp done (.cw d) p (.both false)
  /-- after the teardown: ANY packet of the 4-tuple (final ACKs, retransmissions, late data, even a
      new SYN re-using the ports inside the timeout window) -/
  | closed {p : Pkt} {dir full : Bool} : ConvPkt cp p dir → TStep cp done (.both full) p (.both full)
  /-- after an RST: ANY packet of the 4-tuple -/
  | afterRst {p : Pkt} {dir : Bool} : ConvPkt cp p dir → TStep cp done .reset p .reset

/-- a run of well-formed continuations: from phase `ph` after `done`, the packets `body` lead to `ph'` -/
inductive TRun (cp : ConvParams) : List Pkt → TPhase → List Pkt → TPhase → Prop
  | nil {done : List Pkt} {ph : TPhase} : TRun cp done ph [] ph
  | cons {done : List Pkt} {ph ph' ph'' : TPhase} {p : Pkt} {rest : List Pkt} :
      TStep cp done ph p ph' → TRun cp (done ++ [p]) ph' rest ph'' → TRun cp done ph (p :: rest) ph''

/-- the state of the reassembler in each phase -/
def TInv (cp : ConvParams) (hs : Stream) (done : List Pkt) (r : RState) : TPhase → Prop
  | .est => ConvInv cp hs done r
  | .cw d => ∃ c cc cs chunks, TSkel cp hs done r { state := .closeWait, dir := d } false c cc cs chunks ∧
      CWInv cp done d c cc cs
  | .both full => ∃ f c cc cs chunks, TSkel cp hs done r f true c cc cs chunks ∧ DeadCore f true c ∧
      (full = true → cc = cp.Bc.length ∧ cs = cp.Bs.length)
  | .reset => ∃ f k c cc cs chunks, TSkel cp hs done r f k c cc cs chunks ∧ DeadCore f k c ∧ f.state = .reset

theorem seqLinear_of (cp : ConvParams) (hlc : SeqLinear cp.icn cp.Bc.length) (hls : SeqLinear cp.isn cp.Bs.length) :
    ∀ d, SeqLinear (cp.isnOf d) (cp.BOf d).length := by
  intro d; cases d
  · exact hlc
  · exact hls

theorem tinv_step (cp : ConvParams) (hs : Stream) (hd : cp.e.Distinct)
    (hfsm : hs.fsm = { state := .established, dir := false }) (hk : hs.complete = false)
    (hlc : SeqLinear cp.icn cp.Bc.length) (hls : SeqLinear cp.isn cp.Bs.length)
    {done : List Pkt} {r : RState} {ph ph' : TPhase} {p : Pkt} (hstep : TStep cp done ph p ph')
    (hinv : TInv cp hs done r ph) : TInv cp hs (done ++ [p]) (reasmPacket r p) ph' := by
  have hl := seqLinear_of cp hlc hls
  cases hstep with
  | seg hb => exact convInv_step cp hs hd hfsm hlc hls done r p hinv hb
  | fin hf =>
    obtain ⟨c, cc, cs, chunks, hsk, hest⟩ := convInv_skel hfsm hk hinv
    exact est_fin_step hd hl hsk hest hf
  | rst hr =>
    obtain ⟨c, cc, cs, chunks, hsk, hest⟩ := convInv_skel hfsm hk hinv
    obtain ⟨c', h1, h2⟩ := est_rst_step hd hl hsk hest hr
    exact ⟨_, _, c', cc, cs, chunks, h1, h2, rfl⟩
  | cwSeg hsg hack =>
    obtain ⟨c, cc, cs, chunks, hsk, hcw⟩ := hinv
    exact cw_seg_step hd hl hsk hcw hsg hack
  | cwOwn hp hrst =>
    obtain ⟨c, cc, cs, chunks, hsk, hcw⟩ := hinv
    obtain ⟨c', h1, h2⟩ := cw_own_step hd hsk hcw hp hrst
    exact ⟨c', cc, cs, chunks, h1, h2⟩
  | cwFin hf hack =>
    obtain ⟨c, cc, cs, chunks, hsk, hcw⟩ := hinv
    obtain ⟨c', cc', cs', chunks', h1, h2, h3⟩ := cw_fin_step hd hl hsk hcw hf hack
    exact ⟨_, c', cc', cs', chunks', h1, h2, fun _ => h3⟩
  | cwRstOwn hp hrst =>
    obtain ⟨c, cc, cs, chunks, hsk, hcw⟩ := hinv
    obtain ⟨c', h1, h2⟩ := cw_rst_own_step hd hsk hcw hp hrst
    exact ⟨_, _, c', cc, cs, chunks, h1, h2, rfl⟩
  | cwRst hr =>
    obtain ⟨c, cc, cs, chunks, hsk, hcw⟩ := hinv
    obtain ⟨k', c', h1, h2, _⟩ := cw_rst_step hd hl hsk hcw hr
    exact ⟨_, k', c', cc, cs, chunks, h1, h2, rfl⟩
  | cwRstClose hr hall =>
    obtain ⟨c, cc, cs, chunks, hsk, hcw⟩ := hinv
    obtain ⟨k', c', h1, h2, h3⟩ := cw_rst_step hd hl hsk hcw hr
    have hk' := h3 hall
    subst hk'
    exact ⟨_, c', cc, cs, chunks, h1, h2, fun h0 => by cases h0⟩
  | closed hp =>
    obtain ⟨f, c, cc, cs, chunks, hsk, hdead, hfull⟩ := hinv
    obtain ⟨f', c', h1, h2, _⟩ := dead_step hd hsk hdead hp
    exact ⟨f', c', cc, cs, chunks, h1, h2, hfull⟩
  | afterRst hp =>
    obtain ⟨f, k, c, cc, cs, chunks, hsk, hdead, hr⟩ := hinv
    obtain ⟨f', c', h1, h2, h3, _⟩ := dead_step hd hsk hdead hp
    exact ⟨f', k, c', cc, cs, chunks, h1, h2, h3 hr⟩

theorem tinv_run (cp : ConvParams) (hs : Stream) (hd : cp.e.Distinct)
    (hfsm : hs.fsm = { state := .established, dir := false }) (hk : hs.complete = false)
    (hlc : SeqLinear cp.icn cp.Bc.length) (hls : SeqLinear cp.isn cp.Bs.length)
    {done body : List Pkt} {ph ph' : TPhase} (hrun : TRun cp done ph body ph') :
    ∀ (r : RState), TInv cp hs done r ph → TInv cp hs (done ++ body) (body.foldl reasmPacket r) ph' := by
  induction hrun with
  | nil => intro r h; simpa using h
  | cons hstep _ ih =>
    intro r h
    have := ih _ (tinv_step cp hs hd hfsm hk hlc hls hstep h)
    simpa using this

/-- nothing of direction `d` is lost for good: if every byte of `B_d` was carried by some packet of
    the body, all of `B_d` has been delivered -/
def CovFact (cp : ConvParams) (done : List Pkt) (cc cs : Nat) (d : Bool) : Prop :=
  (∀ x, x < (cp.BOf d).length → Carried cp done d x) → cntOf cc cs d = (cp.BOf d).length

theorem covFact_of {cp : ConvParams} {done : List Pkt} {cc cs : Nat} {d : Bool} {h : Half}
    (hi : HalfInv (cp.isnOf d) (cp.BOf d) (cntOf cc cs d) h)
    (hcov : ∀ x, Carried cp done d x → x < cntOf cc cs d ∨ Covered (cp.isnOf d) h.queue x) :
    CovFact cp done cc cs d := by
  intro hall
  have h1 := carried_le hi hcov hall
  have h2 := hi.le
  omega

/-- what is known about TCP state, `Complete` flag, connection and delivered prefixes in each phase -/
def PhaseFacts (cp : ConvParams) (done : List Pkt) (f : Fsm) (k : Bool) (c : TcpConn) (cc cs : Nat) : TPhase → Prop
  | .est => f = { state := .established, dir := false } ∧ k = false ∧ c.c2s.closed = false ∧ c.s2c.closed = false ∧
      ∀ d, CovFact cp done cc cs d
  | .cw d => f = { state := .closeWait, dir := d } ∧ k = false ∧ (halfOf c d).closed = true ∧
      (halfOf c (!d)).closed = false ∧ cntOf cc cs d = (cp.BOf d).length ∧ CovFact cp done cc cs (!d)
  | .both full => k = true ∧ c.c2s.closed = true ∧ c.s2c.closed = true ∧
      (full = true → cc = cp.Bc.length ∧ cs = cp.Bs.length)
  | .reset => f.state = .reset ∧ k = (c.c2s.closed && c.s2c.closed)

theorem tinv_facts {cp : ConvParams} {hs : Stream} (hfsm : hs.fsm = { state := .established, dir := false })
    (hk : hs.complete = false) {done : List Pkt} {r : RState} {ph : TPhase} (h : TInv cp hs done r ph) :
    ∃ f k c cc cs chunks, TSkel cp hs done r f k c cc cs chunks ∧ PhaseFacts cp done f k c cc cs ph := by
  cases ph with
  | est =>
    obtain ⟨c, cc, cs, chunks, hsk, hest⟩ := convInv_skel hfsm hk h
    exact ⟨_, _, c, cc, cs, chunks, hsk, rfl, rfl, (hest false).1.opn, (hest true).1.opn,
      fun d => covFact_of (hest d).1 (hest d).2⟩
  | cw d =>
    obtain ⟨c, cc, cs, chunks, hsk, hcw⟩ := h
    exact ⟨_, _, c, cc, cs, chunks, hsk, rfl, rfl, hcw.closed, hcw.opn.opn, hcw.full, covFact_of hcw.opn hcw.cov⟩
  | both full =>
    obtain ⟨f, c, cc, cs, chunks, hsk, hdead, hfull⟩ := h
    have : c.c2s.closed = true ∧ c.s2c.closed = true := by simpa using hdead.1.symm
    exact ⟨f, _, c, cc, cs, chunks, hsk, rfl, this.1, this.2, hfull⟩
  | reset =>
    obtain ⟨f, k, c, cc, cs, chunks, hsk, hdead, hr⟩ := h
    exact ⟨f, k, c, cc, cs, chunks, hsk, hr, hdead.1⟩

/-- after the teardown (or an RST) every run of packets of the 4-tuple leaves `Data` as it is -/
theorem dead_run {cp : ConvParams} {hs : Stream} (hd : cp.e.Distinct) (tail : List Pkt) :
    ∀ {done : List Pkt} {r : RState} {f : Fsm} {k : Bool} {c : TcpConn} {cc cs : Nat} {chunks : List (Nat × Bytes)},
      TSkel cp hs done r f k c cc cs chunks → DeadCore f k c → (∀ p ∈ tail, ∃ dir, ConvPkt cp p dir) →
      ∃ f' c', TSkel cp hs (done ++ tail) (tail.foldl reasmPacket r) f' k c' cc cs chunks ∧ DeadCore f' k c' := by
  induction tail with
  | nil => intro done r f k c cc cs chunks h hdead _; exact ⟨f, c, by simpa using h, hdead⟩
  | cons p rest ih =>
    intro done r f k c cc cs chunks h hdead hall
    obtain ⟨dir, hp⟩ := hall p (List.mem_cons_self ..)
    obtain ⟨f1, c1, h1, h2, _⟩ := dead_step hd h hdead hp
    obtain ⟨f2, c2, h3, h4⟩ := ih h1 h2 (fun q hm => hall q (List.mem_cons_of_mem _ hm))
    exact ⟨f2, c2, by simpa using h3, h4⟩

end Pk.Proofs.ImportReasm
