/- Helper lemma for C06Reach: the uncertainty sweep `inherit` never runs out of fuel on a tag table that
   has a topological order (acyclic references, every reference exists). -/
import Pk.Proofs.MgrTerminationCycle
namespace Pk.Proofs.MgrTruth
open Pk.Mgr Pk.Proofs.MgrTags Pk.Proofs.MgrTermination

/-- what the sweeps look at in a table entry: its name and the names it references -/
def kr (p : String × Tag) : String × List String := (p.1, p.2.refs)

/-- replacing the value of an existing key of a sorted table by one with the same references
    leaves the shape of the table unchanged -/
theorem sins_kr (n : String) (t t' : Tag) (T : List (String × Tag)) (hs : Sorted T)
    (hg : sget T n = some t) (hr : t'.refs = t.refs) : (sins n t' T).map kr = T.map kr := by
  induction T with
  | nil => simp at hg
  | cons p r ih =>
    obtain ⟨k, v⟩ := p
    have hs' : (k :: r.map (·.1)).Pairwise (· < ·) := by simpa [Sorted] using hs
    rw [List.pairwise_cons] at hs'
    rw [sget_cons] at hg
    simp only [sins]
    split
    · rename_i hlt
      exfalso
      split at hg
      · rename_i he; subst he; exact String.lt_irrefl _ hlt
      · have := hs'.1 n (sget_mem_keys _ _ _ hg)
        exact String.lt_irrefl _ (String.lt_trans hlt this)
    · split
      · rename_i he
        subst he
        simp only [if_true] at hg
        cases hg
        simp [kr, hr]
      · rename_i hne
        have hne' : ¬ k = n := fun e => hne e.symm
        simp only [hne', if_false] at hg
        simp only [List.map_cons]
        rw [ih hs'.2 hg]

/-- in a sorted table of the same shape as `tags`, every entry of `tags` is found with the same references -/
theorem sget_of_kr {tags A : List (String × Tag)} (hs : Sorted A) (hk : A.map kr = tags.map kr)
    (nt : String × Tag) (hm : nt ∈ tags) : ∃ t, sget A nt.1 = some t ∧ t.refs = nt.2.refs := by
  have h1 : kr nt ∈ A.map kr := by rw [hk]; exact List.mem_map.mpr ⟨nt, hm, rfl⟩
  obtain ⟨p, hp, he⟩ := List.mem_map.mp h1
  obtain ⟨k, v⟩ := p
  simp only [kr, Prod.mk.injEq] at he
  refine ⟨v, ?_, he.2⟩
  rw [← he.1]
  exact MgrConv.mem_sget_of_sorted _ hs _ _ hp

/-- one step of the uncertainty sweep moves the resolved list like one step of the cycle check -/
theorem passStep_cstep (all : Nat) (acc : List (String × Tag) × List String) (nt : String × Tag) (t : Tag)
    (hs : Sorted acc.1) (hg : sget acc.1 nt.1 = some t) (hr : t.refs = nt.2.refs) :
    Sorted (passStep all acc nt).1 ∧ (passStep all acc nt).1.map kr = acc.1.map kr ∧
      (passStep all acc nt).2 = cstep acc.2 nt := by
  refine ⟨passStep_sorted all acc nt hs, ?_, ?_⟩
  · unfold passStep
    split
    · rfl
    · rw [hg]
      simp only []
      split
      · apply sins_kr _ t _ _ hs hg
        unfold Tag.refs
        rw [(inheritOne_refs all acc.1 t).1, (inheritOne_refs all acc.1 t).2]
      · rfl
  · unfold passStep cstep
    split
    · rfl
    · rw [hg]
      simp only [hr]
      split <;> rfl

theorem fold_passStep (all : Nat) (tags : List (String × Tag)) (l : List (String × Tag))
    (hl : ∀ x ∈ l, x ∈ tags) (A : List (String × Tag)) (R : List String)
    (hs : Sorted A) (hk : A.map kr = tags.map kr) :
    Sorted (l.foldl (passStep all) (A, R)).1 ∧ (l.foldl (passStep all) (A, R)).1.map kr = tags.map kr ∧
      (l.foldl (passStep all) (A, R)).2 = l.foldl cstep R := by
  induction l generalizing A R with
  | nil => exact ⟨hs, hk, rfl⟩
  | cons a l ih =>
    simp only [List.foldl_cons]
    obtain ⟨t, hg, hr⟩ := sget_of_kr hs hk a (hl a List.mem_cons_self)
    obtain ⟨h1, h2, h3⟩ := passStep_cstep all (A, R) a t hs hg hr
    have e : passStep all (A, R) a = ((passStep all (A, R) a).1, cstep R a) := Prod.ext rfl h3
    rw [e]
    exact ih (fun x hx => hl x (List.mem_cons_of_mem _ hx)) (passStep all (A, R) a).1
      (cstep R a) h1 (h2.trans hk)

theorem cstep_kr (R : List String) (a b : String × Tag) (h : kr a = kr b) : cstep R a = cstep R b := by
  simp only [kr, Prod.mk.injEq] at h
  unfold cstep
  rw [h.1, h.2]

theorem fold_cstep_kr (l l' : List (String × Tag)) (h : l.map kr = l'.map kr) (R : List String) :
    l.foldl cstep R = l'.foldl cstep R := by
  induction l generalizing l' R with
  | nil =>
    cases l' with
    | nil => rfl
    | cons b l' => simp at h
  | cons a l ih =>
    cases l' with
    | nil => simp at h
    | cons b l' =>
      simp only [List.map_cons, List.cons.injEq] at h
      simp only [List.foldl_cons]
      rw [cstep_kr R a b h.1]
      exact ih l' h.2 _

/-- a pass over a table of the same shape as `tags` resolves exactly what the cycle check resolves -/
theorem inheritPass_kr (all : Nat) (tags T : List (String × Tag)) (R : List String)
    (hs : Sorted T) (hk : T.map kr = tags.map kr) :
    Sorted (inheritPass all T R).1 ∧ (inheritPass all T R).1.map kr = tags.map kr ∧
      (inheritPass all T R).2 = tags.foldl cstep R := by
  rw [inheritPass_eq]
  obtain ⟨h1, h2, h3⟩ := fold_passStep all T T (fun _ h => h) T R hs rfl
  exact ⟨h1, h2.trans hk, h3.trans (fold_cstep_kr T tags hk R)⟩

/-- with a topological order, a pass that leaves names unresolved resolves at least one more -/
theorem pass_progress (tags : List (String × Tag)) (hs : Sorted tags) (ht : Topo tags) (R : List String)
    (hg : GoodOrder tags R) (hne : R.length ≠ tags.length) : R.length < (tags.foldl cstep R).length := by
  apply Classical.byContradiction
  intro hc
  have hfix : (tags.foldl cstep R).length = R.length := by
    have := fold_len tags R
    omega
  obtain ⟨R0, hg0, hall⟩ := ht
  have hsub : ∀ n ∈ R0, n ∈ R := by
    clear hall
    induction hg0 with
    | nil => intro n hn; cases hn
    | cons n t R0' hm hn hr _ ih =>
      intro x hx
      rcases List.mem_cons.mp hx with rfl | hx
      · apply Classical.byContradiction
        intro hc'
        have := fold_fire tags R (x, t) hm hc' (fun r hr' => ih r (hr r hr'))
        omega
      · exact ih x hx
  have hkeys : ∀ k ∈ tags.map (·.1), k ∈ R := fun k hk => hsub k (hall k hk)
  have h1 := nodup_length_le (sorted_nodup_keys hs) hkeys
  simp only [List.length_map] at h1
  have h2 := hg.length_le
  omega

theorem inheritLoop_ok_aux (all : Nat) (tags : List (String × Tag)) (hs : Sorted tags) (ht : Topo tags) :
    ∀ (fuel : Nat) (T : List (String × Tag)) (R : List String), Sorted T → T.map kr = tags.map kr →
      GoodOrder tags R → tags.length ≤ R.length + fuel → (inheritLoop all fuel T R).2 = true := by
  intro fuel
  induction fuel with
  | zero =>
    intro T R _ hk hg hf
    have hlen : T.length = tags.length := by simpa using congrArg List.length hk
    have := hg.length_le
    simp only [inheritLoop, beq_iff_eq]
    omega
  | succ fuel ih =>
    intro T R hT hk hg hf
    have hlen : T.length = tags.length := by simpa using congrArg List.length hk
    simp only [inheritLoop]
    split
    · rfl
    · rename_i hne
      obtain ⟨h1, h2, h3⟩ := inheritPass_kr all tags T R hT hk
      have hne' : R.length ≠ tags.length := by
        intro e; apply hne; simp [e, hlen]
      have hp := pass_progress tags hs ht R hg hne'
      apply ih _ _ h1 h2
      · rw [h3]; exact fold_good tags (fun _ hx => hx) R hg
      · rw [h3]; omega

/-- with a topological order of the table, `inheritLoop` resolves every tag within its fuel -/
theorem inheritLoop_ok (all : Nat) (tags : List (String × Tag)) (hs : Sorted tags) (ht : Topo tags) :
    (inheritLoop all (tags.length + 1) tags []).2 = true :=
  inheritLoop_ok_aux all tags hs ht (tags.length + 1) tags [] hs rfl GoodOrder.nil (by simp)

end Pk.Proofs.MgrTruth
