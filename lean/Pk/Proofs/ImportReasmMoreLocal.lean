/-
  Helper lemmas for Pk/Props/C05More.lean, target (2): the packets of ONE conversation alone
  (inside one timeout window) end up in ONE stream that records all of them — the step from the
  filter form of flow locality to the form of `C08.ReasmLaws.flow_local`.
-/
import Pk.Proofs.ImportReasmMoreWire

namespace Pk.Proofs.ImportReasm
open Pk.Import

/-- a UDP datagram whose source endpoint equals its destination endpoint (the UDP flow table can
    not tell its two directions apart and opens a new stream for every such datagram) -/
def SelfUdp (p : Pkt) : Prop := p.udp = true ∧ p.src = p.dst ∧ p.sport = p.dport

instance (p : Pkt) : Decidable (SelfUdp p) := by unfold SelfUdp; infer_instance

theorem sameConv_refl (p : Pkt) : sameConv p p := ⟨rfl, Or.inl ⟨rfl, rfl, rfl, rfl⟩⟩

/-! ### the assembler only extends `Data` -/

theorem phase2_ext (st : Stream) (g : Half) (seq : Nat) (queue : Bool) (p : Pkt) :
    StreamExt st (phase2 st g seq queue p).1 := by
  unfold phase2
  cases queue with
  | true => simp only [if_true]; exact StreamExt.refl st
  | false =>
    simp only [Bool.false_eq_true, if_false]
    split
    · exact sendToConnection_ext st _ _ _ p.ref (p.rst || p.fin)
    · exact StreamExt.refl st

theorem assembleHalf_ext (st : Stream) (h : Half) (p : Pkt) : StreamExt st (assembleHalf st h p).1 := by
  rw [assembleHalf_eq]
  split
  · exact StreamExt.refl st
  · exact phase2_ext ..

theorem tcpBody_pkts (c : TcpConn) (st : Stream) (p : Pkt) (d : Bool) :
    (tcpBody c st p d).2.pktsRev = (p.ref, d) :: st.pktsRev := by
  have key : ∀ (h : Half), (acceptHalf st h p d).1.pktsRev = (p.ref, d) :: st.pktsRev := by
    intro h
    unfold acceptHalf
    simp only
    split
    · exact (assembleHalf_ext _ h p).pkts.1
    · rfl
  have aux : ∀ (X : Stream) (q : Prop) [Decidable q],
      (if q then ({ X with complete := true } : Stream) else X).pktsRev = X.pktsRev := by
    intro X q _; split <;> rfl
  unfold tcpBody
  simp only
  rw [aux]
  exact key _

theorem udpBody_pkts (st : Stream) (p : Pkt) (d : Bool) : (udpBody st p d).pktsRev = (p.ref, d) :: st.pktsRev := by
  unfold udpBody
  simp only
  split
  · rfl
  · exact (addData_ext _ p.ref p.payload).pkts.1

theorem entryStep_pkts (p : Pkt) (e e' : Entry) (h : entryStep p e = some e') :
    ∃ d, e'.st.pktsRev = (p.ref, d) :: e.st.pktsRev := by
  cases e with
  | tcp c st =>
    obtain ⟨_, d, _, rfl⟩ := entryStep_tcp_some p c st e' h
    exact ⟨d, tcpBody_pkts c st p d⟩
  | udp act st =>
    obtain ⟨_, d, _, rfl⟩ := entryStep_udp_some p act st e' h
    exact ⟨d, udpBody_pkts st p d⟩

theorem newEntry_pkts (p : Pkt) : ∃ d, (newEntry p).st.pktsRev = [(p.ref, d)] := by
  unfold newEntry
  split
  · exact ⟨false, udpBody_pkts _ p false⟩
  · exact ⟨false, tcpBody_pkts _ _ p false⟩

/-! ### every packet of the conversation finds the entry -/

theorem entryStep_match (p : Pkt) (e : Entry) (hi : EntryInv e) (hs : sameConv (Stream.keyPkt e.st) p)
    (hns : ¬ SelfUdp p) : ∃ e', entryStep p e = some e' := by
  obtain ⟨hu, hs⟩ := hs
  cases e with
  | tcp c st =>
    obtain ⟨i1, i2, i3, i4, i5⟩ := hi
    have hp : p.udp = false := by rw [← hu]; exact i5
    simp only [Entry.st, Stream.keyPkt] at hs
    have : ∃ d, tcpDir p c = some d := by
      unfold tcpDir
      rw [i1, i2, i3, i4]
      rcases hs with h | h
      · exact ⟨false, by rw [if_pos h]⟩
      · by_cases h' : st.caddr = p.src ∧ st.saddr = p.dst ∧ st.cport = p.sport ∧ st.sport = p.dport
        · exact ⟨false, by rw [if_pos h']⟩
        · exact ⟨true, by rw [if_neg h', if_pos h]⟩
    obtain ⟨d, hd⟩ := this
    exact ⟨.tcp (tcpBody c st p d).1 (tcpBody c st p d).2,
      by simp only [entryStep, hp, Bool.false_eq_true, if_false, hd, Option.map_some]⟩
  | udp act st =>
    have hp : p.udp = true := by rw [← hu]; exact hi
    simp only [Entry.st, Stream.keyPkt] at hs
    have hne : ¬ (p.src = p.dst ∧ p.sport = p.dport) := fun h => hns ⟨hp, h⟩
    have : ∃ d, udpMatch st p = some d := by
      unfold udpMatch
      simp only
      rcases hs with ⟨h1, h2, h3, h4⟩ | ⟨h1, h2, h3, h4⟩
      · have h5 : ¬ ((st.caddr = p.dst ∧ st.cport = p.dport) ∧ st.saddr = p.src ∧ st.sport = p.sport) := by
          rintro ⟨⟨a, b⟩, _⟩
          exact hne ⟨by rw [← h1, a], by rw [← h3, b]⟩
        refine ⟨_, if_neg ?_⟩
        simp only [h1, h2, h3, h4]
        intro hc
        have : (p.src = p.dst ∧ p.sport = p.dport) ∧ p.dst = p.src ∧ p.dport = p.sport := by simpa using hc.symm
        exact hne this.1
      · have h5 : ¬ ((st.caddr = p.src ∧ st.cport = p.sport) ∧ st.saddr = p.dst ∧ st.sport = p.dport) := by
          rintro ⟨⟨a, b⟩, _⟩
          exact hne ⟨by rw [← a, h1], by rw [← b, h3]⟩
        refine ⟨_, if_neg ?_⟩
        simp only [h1, h2, h3, h4]
        intro hc
        have : (p.dst = p.src ∧ p.dport = p.sport) ∧ p.src = p.dst ∧ p.sport = p.dport := by simpa using hc
        exact hne this.2
    obtain ⟨d, hd⟩ := this
    exact ⟨.udp p.ts (udpBody st p d), by simp only [entryStep, hp, if_true, hd, Option.map_some]⟩

/-- packets of one conversation (none of them a self-addressed UDP datagram) fed to the entry of that
    conversation: the entry stays alone and records every packet -/
theorem aRun_single (k : Pkt) : ∀ (W : List Pkt) (e : Entry), (∀ p ∈ W, sameConv p k ∧ ¬ SelfUdp p) →
    EntryInv e → sameConv (Stream.keyPkt e.st) k →
    ∃ e', aRun [e] W = [e'] ∧ e'.st.pktsRev.map (·.1) = (W.map Pkt.ref).reverse ++ e.st.pktsRev.map (·.1) := by
  intro W
  induction W with
  | nil => intro e _ _ _; exact ⟨e, rfl, by simp⟩
  | cons p rest ih =>
    intro e hW hi hk
    obtain ⟨hpk, hns⟩ := hW p (List.mem_cons_self ..)
    obtain ⟨e1, h1⟩ := entryStep_match p e hi (sameConv_trans hk (sameConv_symm hpk)) hns
    obtain ⟨d, hd⟩ := entryStep_pkts p e e1 h1
    have hstep : aStep [e] p = [e1] := by simp [aStep, updFirst, h1]
    have hk1 : sameConv (Stream.keyPkt e1.st) k := by rw [entryStep_key p e e1 h1]; exact hk
    obtain ⟨e', h2, h3⟩ := ih e1 (fun q hm => hW q (List.mem_cons_of_mem _ hm)) (entryStep_inv p e e1 hi h1) hk1
    refine ⟨e', ?_, ?_⟩
    · show aRun (aStep [e] p) rest = [e']
      rw [hstep]; exact h2
    · rw [h3, hd]; simp

/-- inside one timeout window the packets of one conversation alone give ONE stream, which records
    all of them in order -/
theorem reasm_single_class (t0 : Nat) (k : Pkt) (p : Pkt) (rest : List Pkt) (hw : InWindow t0 (p :: rest))
    (hW : ∀ q ∈ p :: rest, sameConv q k ∧ ¬ SelfUdp q) :
    ∃ s, (reasm (p :: rest)).toList = [s] ∧ s.pkts.map (·.1) = (p :: rest).map Pkt.ref := by
  obtain ⟨d, hd⟩ := newEntry_pkts p
  obtain ⟨e', h1, h2⟩ := aRun_single k rest (newEntry p) (fun q hm => hW q (List.mem_cons_of_mem _ hm))
    (newEntry_inv p) (sameConv_trans (newEntry_same p) (hW p (List.mem_cons_self ..)).1)
  refine ⟨e'.st, ?_, ?_⟩
  · rw [reasm_abs t0 _ hw]
    have : aRun [] (p :: rest) = aRun [newEntry p] rest := rfl
    rw [this, h1]; rfl
  · unfold Stream.pkts
    rw [List.map_reverse, h2, hd]
    simp

theorem nodup_map_inj {α β : Type} (f : α → β) : ∀ (l : List α), (l.map f).Nodup → ∀ x ∈ l, ∀ y ∈ l, f x = f y → x = y := by
  intro l
  induction l with
  | nil => intro _ x hx; cases hx
  | cons a l ih =>
    intro hnd x hx y hy hxy
    rw [List.map_cons, List.nodup_cons] at hnd
    rcases List.mem_cons.mp hx with hxa | hx' <;> rcases List.mem_cons.mp hy with hya | hy'
    · rw [hxa, hya]
    · exact absurd (List.mem_map.mpr ⟨y, hy', by rw [← hxy, hxa]⟩) hnd.1
    · exact absurd (List.mem_map.mpr ⟨x, hx', by rw [hxy, hya]⟩) hnd.1
    · exact ih hnd.2 x hx' y hy' hxy

end Pk.Proofs.ImportReasm

namespace Pk.Proofs.ImportReasm
open Pk.Import

/-! ### self-addressed UDP datagrams: every one opens its own stream -/

theorem selfUdp_of_sameConv {q k : Pkt} (h : sameConv q k) (hq : SelfUdp q) : SelfUdp k := by
  obtain ⟨hu, hs⟩ := h
  obtain ⟨q1, q2, q3⟩ := hq
  refine ⟨by rw [← hu]; exact q1, ?_⟩
  rcases hs with ⟨a1, a2, a3, a4⟩ | ⟨a1, a2, a3, a4⟩
  · exact ⟨by rw [← a1, ← a2]; exact q2, by rw [← a3, ← a4]; exact q3⟩
  · exact ⟨by rw [← a1, ← a2]; exact q2.symm, by rw [← a3, ← a4]; exact q3.symm⟩

theorem entryStep_self (p : Pkt) (hp : SelfUdp p) (e : Entry) : entryStep p e = none := by
  obtain ⟨h1, h2, h3⟩ := hp
  cases e with
  | tcp c st => simp [entryStep, h1]
  | udp act st =>
    have : udpMatch st p = none := by
      unfold udpMatch
      simp only [h2, h3]
      rw [if_pos]
      trivial
    simp [entryStep, h1, this]

theorem updFirst_none (f : Entry → Option Entry) (new : Entry) : ∀ (a : List Entry), (∀ e ∈ a, f e = none) →
    updFirst f new a = a ++ [new] := by
  intro a
  induction a with
  | nil => intro _; rfl
  | cons e es ih =>
    intro h
    simp only [updFirst, h e (List.mem_cons_self ..), List.cons_append]
    rw [ih (fun x hx => h x (List.mem_cons_of_mem _ hx))]

theorem aRun_self : ∀ (W : List Pkt) (a : List Entry), (∀ p ∈ W, SelfUdp p) → aRun a W = a ++ W.map newEntry := by
  intro W
  induction W with
  | nil => intro a _; simp [aRun]
  | cons p rest ih =>
    intro a h
    have hstep : aStep a p = a ++ [newEntry p] :=
      updFirst_none _ _ a (fun e _ => entryStep_self p (h p (List.mem_cons_self ..)) e)
    show aRun (aStep a p) rest = _
    rw [hstep, ih _ (fun q hq => h q (List.mem_cons_of_mem _ hq))]
    simp

/-- inside one timeout window a wire of self-addressed UDP datagrams gives one stream per datagram,
    each determined by its datagram alone -/
theorem reasm_self_class (t0 : Nat) (W : List Pkt) (hw : InWindow t0 W) (hW : ∀ q ∈ W, SelfUdp q) :
    (reasm W).toList = W.map (fun p => (newEntry p).st) := by
  rw [reasm_abs t0 _ hw, aRun_self W [] hW]
  simp

theorem newEntry_self_pkts (p : Pkt) : (newEntry p).st.pkts.map (·.1) = [p.ref] := by
  obtain ⟨d, hd⟩ := newEntry_pkts p
  unfold Stream.pkts
  rw [hd]; rfl

end Pk.Proofs.ImportReasm
