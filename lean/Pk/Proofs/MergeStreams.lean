/-
  What `Writer.AddIndex` does to the stream table: skip-if-present, static fields, re-basing of the
  relative times (helper lemmas for C07).
-/
import Pk.Model.Merge
import Pk.Proofs.MergeHosts
namespace Pk.Index
open Pk Pk.Bytes

/-- absolute time of a relative time `t` in a file with reference second `ref`, as a uint64 -/
def abs64 (ref t : Nat) : Nat := (ref * 1000000000 + t) % 2 ^ 64

/-- the re-basing of `AddIndex` (writer.go 836–857) keeps absolute times, although
    `ref - newRef` may underflow modulo 2^64 -/
theorem rebase_abs_nat (ref newRef t : Nat) :
    abs64 newRef (add64 t (mul64 (sub64 ref newRef) 1000000000)) = abs64 ref t := by
  unfold abs64 add64 mul64 sub64
  omega

end Pk.Index

namespace Pk.Index
open Pk Pk.Bytes

/-- the fields of a stream record that do not depend on the file it sits in -/
def SameStatic (a b : StreamRec) : Prop :=
  a.id = b.id ∧ a.cp = b.cp ∧ a.sp = b.sp ∧ a.flags = b.flags ∧ a.cb = b.cb ∧ a.sb = b.sb

theorem SameStatic.rfl' (a : StreamRec) : SameStatic a a := ⟨rfl, rfl, rfl, rfl, rfl, rfl⟩

/-- copied stream: same static fields and the same relative times (re-based afterwards) -/
def Copied (s s' : StreamRec) : Prop := SameStatic s s' ∧ s'.first = s.first ∧ s'.last = s.last

/-- element-wise relation of two lists (core has no `Forall₂`) -/
inductive All₂ {α β : Type} (R : α → β → Prop) : List α → List β → Prop
  | nil : All₂ R [] []
  | cons {a b as bs} : R a b → All₂ R as bs → All₂ R (a :: as) (b :: bs)

theorem copyStreams_spec (r : Reader) (existing importRemap : List Nat) (hgRemap : List HgRemap) (ss : List StreamRec) :
    ∀ (acc acc' : CopyAcc), copyStreams r existing importRemap hgRemap ss acc = .ok acc' →
      ∃ new, acc'.streams = acc.streams ++ new ∧
        All₂ Copied (ss.filter fun s => !existing.contains s.id) new := by
  induction ss with
  | nil =>
    intro acc acc' h
    simp [copyStreams] at h
    subst h
    exact ⟨[], by simp, All₂.nil⟩
  | cons s ss ih =>
    intro acc acc' h
    simp only [copyStreams] at h
    split at h
    · rename_i hex
      obtain ⟨new, h1, h2⟩ := ih acc acc' h
      have hmem : s.id ∈ existing := by simpa using hex
      refine ⟨new, h1, ?_⟩
      have hf : (s :: ss).filter (fun s => !existing.contains s.id) = ss.filter (fun s => !existing.contains s.id) := by
        simp [List.filter_cons, hmem]
      rw [hf]; exact h2
    · rename_i hex
      split at h
      · simp at h
      · rename_i hgr _
        split at h
        · rename_i ch sh _ _
          split at h
          · simp at h
          · rename_i ps _
            split at h
            · simp at h
            · rename_i blob _
              obtain ⟨new, h1, h2⟩ := ih _ acc' h
              refine ⟨_ :: new, by rw [h1, List.append_assoc]; rfl, ?_⟩
              have hmem : ¬ s.id ∈ existing := by simpa using hex
              have hf : (s :: ss).filter (fun s => !existing.contains s.id) = s :: ss.filter (fun s => !existing.contains s.id) := by
                simp [List.filter_cons, hmem]
              rw [hf]
              exact All₂.cons ⟨⟨rfl, rfl, rfl, rfl, rfl, rfl⟩, rfl, rfl⟩ h2
        · simp at h

def shiftRec (d : Nat) (s : StreamRec) : StreamRec := { s with first := add64 s.first d, last := add64 s.last d }

/-- what `AddIndex` does to the stream table -/
theorem addIndex_spec (w w' : Writer) (r : Reader) (ok : Bool) (h : w.addIndex r = .ok (w', ok)) :
    ∃ new, All₂ Copied (r.f.streams.filter fun s => !(w.streams.map (·.id)).contains s.id) new ∧
      ((new = [] ∧ w'.streams = w.streams ∧ w'.ref = w.ref) ∨
       (new ≠ [] ∧ w'.streams = w.streams.map (shiftRec (mul64 (sub64 w.ref w'.ref) 1000000000)) ++
                     new.map (shiftRec (mul64 (sub64 r.f.ref w'.ref) 1000000000)))) := by
  unfold Writer.addIndex at h
  simp only at h
  split at h
  · simp at h
  · rename_i acc hc
    obtain ⟨new, h1, h2⟩ := copyStreams_spec _ _ _ _ _ _ _ hc
    simp only [List.nil_append] at h1
    refine ⟨new, h2, ?_⟩
    split at h
    · rename_i hemp
      simp at h
      obtain ⟨rfl, _⟩ := h
      left
      refine ⟨?_, rfl, rfl⟩
      rw [h1] at hemp; simpa using hemp
    · rename_i hemp
      simp at h
      obtain ⟨rfl, _⟩ := h
      right
      refine ⟨?_, ?_⟩
      · rw [h1] at hemp; simpa using hemp
      · simp only [h1]; rfl


end Pk.Index
