/-
  One `AddIndex`: the writer invariant is kept, the streams the writer holds keep their view, the streams
  that are new get the view they have in the added index.
-/
import Pk.Proofs.MergeFullCopy2

namespace Pk.Index
open Pk Pk.Bytes

/-- absolute first / last packet time of a record in a writer -/
def Writer.fp (w : Writer) (s : StreamRec) : Int := (w.ref : Int) * 1000000000 + i64 s.first
def Writer.lp (w : Writer) (s : StreamRec) : Int := (w.ref : Int) * 1000000000 + i64 s.last

/-- `v` is what a reader of the finished file will show for record `s` -/
def WView (w : Writer) (s : StreamRec) (v : StreamView) : Prop :=
  ∃ k, Located w.imports.length w.packets w.blobs.flatten (w.hostGroups.map HostGroup.toReader) s k ∧ k.Ok s ∧
    v = compView w.imports (w.fp s) (w.lp s) (expWraps s) s k

/-- the reference second `AddIndex` moves to -/
def newRefOf (w : Writer) (r : Reader) (minFirst : Nat) : Nat :=
  let newFirst0 := unixSec ((r.f.ref : Int) * 1000000000 + i64 minFirst)
  if w.streams.length ≠ 0 ∧ newFirst0 > w.ref then w.ref else newFirst0

theorem addIndex_unfold (w w' : Writer) (r : Reader) (b : Bool) (h : w.addIndex r = .ok (w', b)) :
    ∃ acc, copyStreams r (w.streams.map (·.id)) (mergeImports w.imports r.imports).2 (placeGroups r.hostGroups w.hostGroups).2
        r.f.streams { packets := w.packets, streams := [], blobs := w.blobs, dataLen := w.dataLen, minFirst := 2 ^ 64 - 1 } = .ok acc ∧
      ((acc.streams = [] ∧ w' = { w with hostGroups := (placeGroups r.hostGroups w.hostGroups).1.take w.hostGroups.length }) ∨
       (acc.streams ≠ [] ∧
        w' = { hostGroups := (placeGroups r.hostGroups w.hostGroups).1, imports := (mergeImports w.imports r.imports).1,
               packets := acc.packets,
               streams := w.streams.map (shiftRec (mul64 (sub64 w.ref (newRefOf w r acc.minFirst)) 1000000000)) ++
                          acc.streams.map (shiftRec (mul64 (sub64 r.f.ref (newRefOf w r acc.minFirst)) 1000000000)),
               blobs := acc.blobs, dataLen := acc.dataLen, ref := newRefOf w r acc.minFirst })) := by
  unfold Writer.addIndex at h
  simp only at h
  split at h
  · simp at h
  · rename_i acc hc
    refine ⟨acc, hc, ?_⟩
    split at h
    · rename_i hemp
      have h1 := (Prod.mk.inj (Except.ok.inj h)).1
      left
      exact ⟨by simpa using hemp, h1.symm⟩
    · rename_i hemp
      have h1 := (Prod.mk.inj (Except.ok.inj h)).1
      right
      refine ⟨by simpa using hemp, ?_⟩
      rw [← h1]
      rfl

/-! ## times -/

theorem TimeOk.shift {ref newRef : Nat} {s : StreamRec} (h : TimeOk ref s) (hr : newRef * 1000000000 < 2 ^ 63) :
    TimeOk newRef (shiftRec (mul64 (sub64 ref newRef) 1000000000) s) ∧
    (newRef : Int) * 1000000000 + i64 (shiftRec (mul64 (sub64 ref newRef) 1000000000) s).first = (ref : Int) * 1000000000 + i64 s.first ∧
    (newRef : Int) * 1000000000 + i64 (shiftRec (mul64 (sub64 ref newRef) 1000000000) s).last = (ref : Int) * 1000000000 + i64 s.last := by
  obtain ⟨h1, h2, h3, h4, h5, h6⟩ := h
  have e1 := rebase_abs_int ref newRef s.first h1 hr h3 h4
  have e2 := rebase_abs_int ref newRef s.last h2 hr h5 h6
  have b1 : add64 s.first (mul64 (sub64 ref newRef) 1000000000) < 2 ^ 64 := Nat.mod_lt _ (by decide)
  have b2 : add64 s.last (mul64 (sub64 ref newRef) 1000000000) < 2 ^ 64 := Nat.mod_lt _ (by decide)
  refine ⟨⟨b1, b2, ?_, ?_, ?_, ?_⟩, e1, e2⟩ <;> simp only [shiftRec] <;> omega

theorem expWraps_shift (d : Nat) (s : StreamRec) : expWraps (shiftRec d s) = expWraps s := by
  unfold expWraps shiftRec
  simp only [sub64_shift]

theorem newRef_ok (w : Writer) (r : Reader) (m : Nat) (hw : w.ref * 1000000000 < 2 ^ 63) (s : StreamRec)
    (ht : TimeOk r.f.ref s) (hm : m = s.first) : newRefOf w r m * 1000000000 < 2 ^ 63 := by
  obtain ⟨h1, _, h3, h4, _, _⟩ := ht
  unfold newRefOf
  simp only
  have : unixSec ((r.f.ref : Int) * 1000000000 + i64 m) * 1000000000 < 2 ^ 63 := by
    rw [hm]
    generalize (r.f.ref : Int) * 1000000000 + i64 s.first = A at h3 h4
    have e : (unixSec A : Int) = A / 1000000000 := by
      unfold unixSec
      apply u64_of_nonneg <;> omega
    generalize unixSec A = u at e ⊢
    clear hw h1 hm
    omega
  split
  · exact hw
  · exact this

end Pk.Index
